import KyupyVerif.Proofs.Def
/-! # The partial views of `DefWire.vias` / `DefNet.vias` / `DefNet.wires` (Model/Def.lean, last section) against the total
functions the routing theorems are stated about (audit 2, finding 5 / A-C20-1, A-C20-3).

* `vias?_eq_viasD`, `vias?_of_startOK`: where `Wire.vias?` is defined it equals `Wire.viasD`; it is defined whenever the
  first point of the wire is explicit.
* `netVias?_eq`, `netVias?_of_startOK`, `netVias?_eq_none_iff`: the same for a net.
* `netWiresGo_ok_iff`, `netWiresR_ok_iff`, `netWiresR_value_iff`: `DefNet.wires` over the raw records returns a listing exactly
  when every LISTED wire has a width `int()` accepts (and starts with an explicit point); the listing is `netWires` of the
  converted records. -/
namespace KV.Def

/-! ## width never read by the geometry -/
theorem wirePointsRaw_geom (w : DWire) (wd : Option Nat) :
    (⟨w.layer, wd, w.start, w.rest⟩ : Wire).wirePointsRaw = w.geom.wirePointsRaw := rfl
theorem wirePoints_geom (w : DWire) (wd : Option Nat) :
    (⟨w.layer, wd, w.start, w.rest⟩ : Wire).wirePoints = w.geom.wirePoints := rfl
theorem viasD_geom (w : DWire) (wd : Option Nat) :
    (⟨w.layer, wd, w.start, w.rest⟩ : Wire).viasD = w.geom.viasD := rfl

/-! ## `Wire.vias?` -/

/-- the `None`-carrying location `o` agrees with the totalised location `l` wherever it is known -/
def Agrees (o : OLoc) (l : Loc) : Prop := (o.1 = none ∨ o.1 = some l.1) ∧ (o.2 = none ∨ o.2 = some l.2)

theorem agrees_onto (p : RPt) (o : OLoc) (l : Loc) (h : Agrees o l) : Agrees (p.ontoO o) (p.onto l) := by
  obtain ⟨x, y, e⟩ := p
  obtain ⟨h1, h2⟩ := h
  constructor
  · cases x <;> simp [RPt.ontoO, RPt.onto, h1]
  · cases y <;> simp [RPt.ontoO, RPt.onto, h2]

theorem agrees_some {a b : Int} {l : Loc} (h : Agrees (some a, some b) l) : l = (a, b) := by
  obtain ⟨h1, h2⟩ := h
  simp only [reduceCtorEq, Option.some.injEq, false_or] at h1 h2
  obtain ⟨l1, l2⟩ := l
  simp_all

theorem viasGoO_eq (r : List Item) (o : OLoc) (l : Loc) (d d' : Dict ViaLoc) (ha : Agrees o l)
    (h : viasGoO (o, d) r = some d') : (r.foldl viasStep (l, d)).2 = d' := by
  induction r generalizing o l d with
  | nil => simpa [viasGoO] using h
  | cons it r ih =>
    simp only [viasGoO] at h
    simp only [List.foldl_cons]
    cases it with
    | pt p =>
      simp only [viasStepO] at h
      exact ih _ _ _ (agrees_onto p o l ha) h
    | via n or_ =>
      obtain ⟨o1, o2⟩ := o
      cases o1 <;> cases o2 <;> simp only [viasStepO] at h <;> try (cases h)
      rename_i a b
      have := agrees_some ha; subst this
      exact ih _ _ _ ha h
    | arr n nx ny dx dy =>
      obtain ⟨o1, o2⟩ := o
      have hz : (nx = 0 ∨ ny = 0) → arrayAt l nx ny dx dy = [] := by
        intro hz
        rcases hz with rfl | rfl <;> simp [arrayAt]
      cases o1 <;> cases o2 <;> simp only [viasStepO] at h
      · by_cases hz' : nx = 0 ∨ ny = 0
        · simp only [hz', if_true] at h; simp only [viasStep, hz hz', List.foldl_nil]; exact ih _ _ _ ha h
        · simp [hz'] at h
      · by_cases hz' : nx = 0 ∨ ny = 0
        · simp only [hz', if_true] at h; simp only [viasStep, hz hz', List.foldl_nil]; exact ih _ _ _ ha h
        · simp [hz'] at h
      · by_cases hz' : nx = 0 ∨ ny = 0
        · simp only [hz', if_true] at h; simp only [viasStep, hz hz', List.foldl_nil]; exact ih _ _ _ ha h
        · simp [hz'] at h
      · rename_i a b
        have := agrees_some ha; subst this
        exact ih _ _ _ ha h

theorem viasGoO_some (r : List Item) (a b : Int) (d : Dict ViaLoc) :
    ∃ d', viasGoO ((some a, some b), d) r = some d' := by
  induction r generalizing a b d with
  | nil => exact ⟨d, rfl⟩
  | cons it r ih =>
    cases it with
    | pt p =>
      obtain ⟨x, y, e⟩ := p
      cases x <;> cases y <;> simp only [viasGoO, viasStepO, RPt.ontoO] <;> exact ih _ _ _
    | via n o => simp only [viasGoO, viasStepO]; exact ih _ _ _
    | arr n nx ny dx dy => simp only [viasGoO, viasStepO]; exact ih _ _ _

theorem agrees_start (w : Wire) : Agrees (w.start.x, w.start.y) w.loc0 := by
  obtain ⟨l, wd, ⟨x, y, e⟩, r⟩ := w
  constructor
  · cases x <;> simp [Wire.loc0, RPt.onto]
  · cases y <;> simp [Wire.loc0, RPt.onto]

/-- where `DefWire.vias` is a listing of integers it is the total model's listing -/
theorem vias?_eq_viasD (w : Wire) (d : Dict ViaLoc) (h : w.vias? = some d) : d = w.viasD :=
  (viasGoO_eq w.rest _ w.loc0 [] d (agrees_start w) h).symm

/-- … and it is one whenever the first point is explicit -/
theorem vias?_of_startOK (w : Wire) (hs : w.startOK = true) : w.vias? = some w.viasD := by
  obtain ⟨l, wd, ⟨x, y, e⟩, r⟩ := w
  simp only [Wire.startOK, Bool.and_eq_true, Option.isSome_iff_exists] at hs
  obtain ⟨⟨a, rfl⟩, ⟨b, rfl⟩⟩ := hs
  obtain ⟨d', hd⟩ := viasGoO_some r a b []
  have : Wire.vias? ⟨l, wd, ⟨some a, some b, e⟩, r⟩ = some d' := hd
  rw [this, vias?_eq_viasD _ d' this]

/-! ## `netVias?` -/
theorem netViasGo_eq (ws : List Wire) (d d' : Dict ViaLoc) (h : netViasGo d ws = some d') :
    d' = ws.foldl (fun d w => w.viasD.foldl (fun d kv => d.extend kv.1 kv.2) d) d := by
  induction ws generalizing d with
  | nil => simpa [netViasGo] using h.symm
  | cons w ws ih =>
    simp only [netViasGo] at h
    split at h
    · rename_i wd hw
      rw [vias?_eq_viasD w wd hw] at h
      simpa using ih _ h
    · cases h

theorem netViasGo_isSome (ws : List Wire) (d : Dict ViaLoc) :
    (netViasGo d ws).isSome = ws.all (fun w => w.vias?.isSome) := by
  induction ws generalizing d with
  | nil => simp [netViasGo]
  | cons w ws ih =>
    simp only [netViasGo, List.all_cons]
    cases hw : w.vias? with
    | none => simp
    | some wd => simpa using ih _

/-- where `DefNet.vias` is a listing of integers it is `netViasD` -/
theorem netVias?_eq (ws : List Wire) (d : Dict ViaLoc) (h : netVias? ws = some d) : d = netViasD ws :=
  netViasGo_eq ws [] d h

theorem netVias?_eq_none_iff (ws : List Wire) : netVias? ws = none ↔ ∃ w ∈ ws, w.vias? = none := by
  have := netViasGo_isSome ws []
  rw [netVias?]
  cases h : netViasGo [] ws with
  | none =>
    rw [h] at this
    simp only [Option.isSome_none, Bool.false_eq, List.all_eq_false, Bool.not_eq_true, Option.isSome_eq_false_iff,
      Option.isNone_iff_eq_none] at this
    simpa using this
  | some d =>
    rw [h] at this
    simp only [Option.isSome_some, Bool.true_eq, List.all_eq_true] at this
    simp only [reduceCtorEq, false_iff, not_exists, not_and]
    intro w hw hn
    have := this w hw
    rw [hn] at this; simp at this

theorem netVias?_of_startOK (ws : List Wire) (hs : ∀ w ∈ ws, w.startOK = true) : netVias? ws = some (netViasD ws) := by
  cases h : netVias? ws with
  | some d => rw [netVias?_eq ws d h]
  | none =>
    obtain ⟨w, hw, hn⟩ := (netVias?_eq_none_iff ws).1 h
    rw [vias?_of_startOK w (hs w hw)] at hn; cases hn

/-! ## `netWiresR` -/

/-- the step of `netWires` -/
def wiresStep (d : Dict (Option Nat × List Pt3)) (w : Wire) : Dict (Option Nat × List Pt3) :=
  if w.wirePoints.isEmpty then d else d.push w.layer (w.width, w.wirePoints)

theorem netWires_eq_foldl (ws : List Wire) : netWires ws = ws.foldl wiresStep [] := rfl

theorem isEmpty_wirePoints (w : Wire) : w.wirePoints.isEmpty = w.wirePointsRaw.isEmpty := by
  have hl : w.wirePoints.length = w.wirePointsRaw.length := length_attachExt _ _ (length_resolveFrom _ _)
  cases h1 : w.wirePoints <;> cases h2 : w.wirePointsRaw <;> simp_all

theorem netWiresGo_ok_iff (ws : List DWire) (d d' : Dict (Option Nat × List Pt3)) :
    netWiresGo d ws = .ok d' ↔
      (∀ w ∈ ws, w.listed = true → w.widthVal.isSome = true) ∧ d' = (ws.filterMap DWire.conv).foldl wiresStep d := by
  induction ws generalizing d with
  | nil =>
    simp only [netWiresGo, Res.ok.injEq, List.filterMap_nil, List.foldl_nil, List.not_mem_nil, false_implies, implies_true,
      true_and]
    exact eq_comm
  | cons w ws ih =>
    simp only [netWiresGo, List.mem_cons, forall_eq_or_imp]
    by_cases hl : w.listed = true
    · simp only [hl, if_true, forall_const]
      cases hv : w.widthVal with
      | none => simp
      | some wd =>
        have hne : w.geom.wirePoints.isEmpty = false := by
          rw [isEmpty_wirePoints]
          simpa [DWire.listed] using hl
        have hc : DWire.conv w = some ⟨w.layer, wd, w.start, w.rest⟩ := by simp [DWire.conv, hv]
        rw [List.filterMap_cons_some hc, List.foldl_cons]
        simp only [ih, Option.isSome_some, true_and, wiresStep, hne, Bool.false_eq_true, if_false, wirePoints_geom]
    · have hl' : w.listed = false := by simpa using hl
      simp only [hl', Bool.false_eq_true, if_false, false_implies, true_and, ih]
      have hemp : w.geom.wirePoints.isEmpty = true := by
        rw [isEmpty_wirePoints]
        simpa [DWire.listed] using hl'
      cases hv : w.widthVal with
      | none =>
        have hc : DWire.conv w = none := by simp [DWire.conv, hv]
        rw [List.filterMap_cons_none hc]
      | some wd =>
        have hc : DWire.conv w = some ⟨w.layer, wd, w.start, w.rest⟩ := by simp [DWire.conv, hv]
        rw [List.filterMap_cons_some hc, List.foldl_cons]
        simp only [wiresStep, wirePoints_geom, hemp, if_true]

theorem netWiresGo_value_iff (ws : List DWire) (d : Dict (Option Nat × List Pt3)) :
    netWiresGo d ws = .error "value" ↔ ∃ w ∈ ws, w.listed = true ∧ w.widthVal = none := by
  induction ws generalizing d with
  | nil => simp [netWiresGo]
  | cons w ws ih =>
    simp only [netWiresGo, List.mem_cons, exists_eq_or_imp]
    by_cases hl : w.listed = true
    · simp only [hl, if_true, true_and]
      cases hv : w.widthVal with
      | none => simp
      | some wd => simp [ih]
    · have hl' : w.listed = false := by simpa using hl
      simp [hl', ih]

theorem netWiresGo_error (ws : List DWire) (d : Dict (Option Nat × List Pt3)) (e : String)
    (h : netWiresGo d ws = .error e) : e = "value" := by
  induction ws generalizing d with
  | nil => simp [netWiresGo] at h
  | cons w ws ih =>
    simp only [netWiresGo] at h
    split at h
    · split at h
      · cases h; rfl
      · exact ih _ h
    · exact ih _ h

/-- `DefNet.wires` returns a listing of integers exactly when every listed wire has a width `int()` accepts and an explicit
first point; the listing is the demanded one (`netWires`) of the converted records -/
theorem netWiresR_ok_iff (ws : List DWire) (d : Dict (Option Nat × List Pt3)) :
    netWiresR ws = .ok d ↔
      (∀ w ∈ ws, w.listed = true → w.widthVal.isSome = true ∧ w.geom.startOK = true) ∧
      d = netWires (ws.filterMap DWire.conv) := by
  unfold netWiresR
  cases h : netWiresGo [] ws with
  | error e =>
    simp only [reduceCtorEq, false_iff, not_and]
    intro hall hd
    have := (netWiresGo_ok_iff ws [] d).2 ⟨fun w hw hl => (hall w hw hl).1, by rw [hd, netWires_eq_foldl]⟩
    rw [h] at this; cases this
  | ok d0 =>
    obtain ⟨hw, hd0⟩ := (netWiresGo_ok_iff ws [] d0).1 h
    simp only
    split
    · rename_i hall
      simp only [List.all_eq_true, Bool.or_eq_true, Bool.not_eq_true'] at hall
      simp only [Res.ok.injEq]
      constructor
      · rintro rfl
        refine ⟨fun w hmem hl => ⟨hw w hmem hl, ?_⟩, by rw [hd0, netWires_eq_foldl]⟩
        rcases hall w hmem with h' | h'
        · rw [hl] at h'; cases h'
        · exact h'
      · rintro ⟨_, rfl⟩; rw [hd0, netWires_eq_foldl]
    · rename_i hall
      simp only [reduceCtorEq, false_iff, not_and]
      intro hall' _
      apply hall
      simp only [List.all_eq_true, Bool.or_eq_true, Bool.not_eq_true']
      intro w hmem
      by_cases hl : w.listed = true
      · exact Or.inr (hall' w hmem hl).2
      · exact Or.inl (by simpa using hl)

/-- `DefNet.wires` raises `ValueError` exactly when a LISTED wire has a width token `int()` rejects -/
theorem netWiresR_value_iff (ws : List DWire) :
    netWiresR ws = .error "value" ↔ ∃ w ∈ ws, w.listed = true ∧ w.widthVal = none := by
  rw [← netWiresGo_value_iff ws []]
  unfold netWiresR
  cases h : netWiresGo [] ws with
  | error e => have := netWiresGo_error ws [] e h; subst this; simp
  | ok d0 =>
    simp only [reduceCtorEq, iff_false]
    split <;> simp

/-- the per-layer listing of `DefNet.wires` over the raw records, whenever it returns a listing of integers: under each layer
the `(int(width) | None, points)` pairs of the listed wires on that layer, in record order -/
theorem netWiresR_get (ws : List DWire) (d : Dict (Option Nat × List Pt3)) (h : netWiresR ws = .ok d) (layer : String) :
    d.get layer = ws.flatMap (fun w => if w.layer = layer ∧ w.listed = true
                                        then [(w.widthVal.getD none, w.geom.wirePoints)] else []) := by
  obtain ⟨hall, rfl⟩ := (netWiresR_ok_iff ws d).1 h
  have hw : ∀ w ∈ ws, w.listed = true → w.widthVal.isSome = true := fun w hm hl => (hall w hm hl).1
  have hget : (netWires (ws.filterMap DWire.conv)).get layer =
      (ws.filterMap DWire.conv).flatMap
        (fun w => if w.layer = layer ∧ ¬ w.wirePoints.isEmpty then [(w.width, w.wirePoints)] else []) := by
    simpa [netWires, netWiresD, Dict.get] using get_foldl_wires Wire.wirePoints (ws.filterMap DWire.conv) [] layer
  rw [hget]
  clear hall hget h
  induction ws with
  | nil => rfl
  | cons w ws ih =>
    have ih' := ih (fun w' hm => hw w' (List.mem_cons_of_mem _ hm))
    have hw0 := hw w (List.mem_cons_self ..)
    rw [List.flatMap_cons, ← ih']
    have hlist : w.geom.wirePoints.isEmpty = !w.listed := by
      rw [isEmpty_wirePoints]; simp [DWire.listed]
    cases hv : w.widthVal with
    | none =>
      have hc : DWire.conv w = none := by simp [DWire.conv, hv]
      have hl : w.listed = false := by
        cases hl : w.listed with
        | false => rfl
        | true => have := hw0 hl; rw [hv] at this; cases this
      rw [List.filterMap_cons_none hc]
      simp [hl]
    | some wd =>
      have hc : DWire.conv w = some ⟨w.layer, wd, w.start, w.rest⟩ := by simp [DWire.conv, hv]
      rw [List.filterMap_cons_some hc, List.flatMap_cons]
      simp only [wirePoints_geom, hlist, Option.getD_some]
      cases w.listed <;> simp

end KV.Def
