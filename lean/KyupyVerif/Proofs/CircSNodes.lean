import KyupyVerif.Proofs.CircSem
/-! `s_nodes` of the dump `Circ.toNet`: ports, then the flip-flop cells, then the latch cells in node order — in terms of cell
NAMES when the cell names are pairwise different (`toNet_sNodes`), and the position of a named end point in it (`sPos_names`). -/
namespace KV.Netlist
open KV

/-- the non-fork nodes in creation order -/
def cellsOf (C : Circ) : List NodeM := C.nodes.filter fun x => x.kind != forkKind

theorem nodup_filter_map_index {β γ} (q : β → Bool) (f : β → γ) (l : List β) (hnd : ((l.filter q).map f).Nodup)
    (i j : Nat) (x y : β) (hi : l[i]? = some x) (hj : l[j]? = some y) (qx : q x = true) (qy : q y = true) (hf : f x = f y) :
    i = j := by
  induction l generalizing i j with
  | nil => simp at hi
  | cons a r ih =>
    have hmem : ∀ k z, r[k]? = some z → q z = true → f z ∈ (r.filter q).map f := fun k z hk hq =>
      List.mem_map.mpr ⟨z, List.mem_filter.mpr ⟨List.mem_of_getElem? hk, hq⟩, rfl⟩
    cases i with
    | zero =>
      simp only [List.getElem?_cons_zero, Option.some.injEq] at hi
      subst hi
      cases j with
      | zero => rfl
      | succ j =>
        exfalso
        simp only [List.getElem?_cons_succ] at hj
        simp only [List.filter_cons, qx, if_true, List.map_cons, List.nodup_cons] at hnd
        exact hnd.1 (hf ▸ hmem j y hj qy)
    | succ i =>
      simp only [List.getElem?_cons_succ] at hi
      cases j with
      | zero =>
        exfalso
        simp only [List.getElem?_cons_zero, Option.some.injEq] at hj
        subst hj
        simp only [List.filter_cons, qy, if_true, List.map_cons, List.nodup_cons] at hnd
        exact hnd.1 (hf ▸ hmem i x hi qx)
      | succ j =>
        simp only [List.getElem?_cons_succ] at hj
        have hnd' : ((r.filter q).map f).Nodup := by
          simp only [List.filter_cons] at hnd
          split at hnd
          · simp only [List.map_cons, List.nodup_cons] at hnd; exact hnd.2
          · exact hnd
        rw [ih hnd' i j hi hj]

/-- with pairwise different cell names, `cells[name]` is the node itself -/
theorem nodeIdx_cell_unique (C : Circ) (hnd : ((cellsOf C).map (·.name)).Nodup) (i : Nat) (x : NodeM) (hi : C.nodes[i]? = some x)
    (hx : x.kind ≠ forkKind) (p : Nat) : C.nodeIdx (.cell x.name p) = i := by
  have hlt : i < C.nodes.length := (List.getElem?_eq_some_iff.mp hi).1
  have hxi : C.nodes[i] = x := (List.getElem?_eq_some_iff.mp hi).2
  unfold Circ.nodeIdx
  rw [List.findIdx_eq hlt]
  refine ⟨by simp [hxi, hx], ?_⟩
  intro j hji
  have hjl : j < C.nodes.length := by omega
  cases hq : (C.nodes[j].kind != forkKind && C.nodes[j].name == x.name) with
  | false => rfl
  | true =>
    exfalso
    simp only [Bool.and_eq_true, bne_iff_ne, ne_eq, beq_iff_eq] at hq
    have := nodup_filter_map_index (fun y : NodeM => y.kind != forkKind) (·.name) C.nodes hnd j i C.nodes[j] x
      (List.getElem?_eq_getElem hjl) hi (by simp [hq.1]) (by simp [hx]) hq.2
    omega

theorem filter_range'_eq {β} (suf : List β) (k : Nat) (Q : β → Bool) (f : Nat → β)
    (hf : ∀ (j : Nat) x, suf[j]? = some x → f (k + j) = x) :
    (List.range' k suf.length).filter (fun i => Q (f i)) = ((suf.zipIdx k).filter fun p => Q p.1).map (·.2) := by
  induction suf generalizing k with
  | nil => rfl
  | cons a r ih =>
    have h0 : f k = a := hf 0 a rfl
    have hr : ∀ (j : Nat) x, r[j]? = some x → f (k + 1 + j) = x := by
      intro j x hj
      have := hf (j + 1) x (by simpa using hj)
      have e : k + 1 + j = k + (j + 1) := by omega
      rw [e]; exact this
    simp only [List.length_cons, List.range'_succ, List.filter_cons, List.zipIdx_cons, h0]
    split
    · simp only [List.map_cons, ih (k + 1) hr]
    · exact ih (k + 1) hr

section
variable (C : Circ) (io : List Nat)

/-- the indices of the nodes whose kind has property `P` (no fork has it): the cells with that property, through `cells[name]` -/
theorem toNet_range_filter (P : String → Bool) (hP : P forkKind = false) (hnd : ((cellsOf C).map (·.name)).Nodup) :
    (List.range (C.toNet io).nodes.size).filter (fun i => P ((C.toNet io).node i).kind) =
      ((cellsOf C).filter fun x => P x.kind).map fun x => C.nodeIdx (.cell x.name 0) := by
  rw [toNet_nodes_size, List.range_eq_range']
  have h2 : (List.range' 0 C.nodes.length).filter (fun i => P ((C.toNet io).node i).kind) =
      ((C.nodes.zipIdx 0).filter fun p => P p.1.kind).map (·.2) := by
    have := filter_range'_eq C.nodes 0 (fun x : NodeM => P x.kind) (fun i => C.nodes.getD i default) (by
      intro j x hj
      simp only [Nat.zero_add, List.getD_eq_getElem?_getD, hj, Option.getD_some])
    rw [← this]
    apply List.filter_congr
    intro i hi
    have hi' : i < C.nodes.length := by
      have := List.mem_range'.mp hi
      omega
    rw [toNet_node_kind C io i hi', List.getD_eq_getElem?_getD, List.getElem?_eq_getElem hi']
    rfl
  rw [h2]
  have h3 : ((C.nodes.zipIdx 0).filter fun p => P p.1.kind).map (·.2) =
      ((C.nodes.zipIdx 0).filter fun p => P p.1.kind).map fun p => C.nodeIdx (.cell p.1.name 0) := by
    apply List.map_congr_left
    intro p hp
    rw [List.mem_filter] at hp
    have hget := List.mem_zipIdx_iff_getElem?.mp hp.1
    have hk : p.1.kind ≠ forkKind := by
      intro e
      rw [e, hP] at hp
      exact Bool.noConfusion hp.2
    exact (nodeIdx_cell_unique C hnd p.2 p.1 hget hk 0).symm
  rw [h3]
  have h4 : ∀ (l : List NodeM) (k : Nat), ((l.zipIdx k).filter fun p => P p.1.kind).map (fun p => C.nodeIdx (.cell p.1.name 0)) =
      (l.filter fun x => P x.kind).map fun x => C.nodeIdx (.cell x.name 0) := by
    intro l
    induction l with
    | nil => intro k; rfl
    | cons a r ih =>
      intro k
      simp only [List.zipIdx_cons, List.filter_cons]
      split
      · simp only [List.map_cons, ih]
      · exact ih _
  rw [h4]
  congr 1
  unfold cellsOf
  rw [List.filter_filter]
  apply List.filter_congr
  intro x _
  cases hpx : P x.kind with
  | false => rfl
  | true =>
    have : x.kind ≠ forkKind := by intro e; rw [e, hP] at hpx; exact Bool.noConfusion hpx
    simp [this]

/-- `s_nodes` of the dump by names -/
theorem toNet_sNodes (hnd : ((cellsOf C).map (·.name)).Nodup) :
    (C.toNet io).sNodes = io ++ (((cellsOf C).filter fun x => hasSub "dff" x.kind.toLower).map fun x => C.nodeIdx (.cell x.name 0)) ++
      (((cellsOf C).filter fun x => hasSub "latch" x.kind.toLower).map fun x => C.nodeIdx (.cell x.name 0)) := by
  unfold Net.sNodes
  have h1 := toNet_range_filter C io (fun k => hasSub "dff" k.toLower) (by decide +kernel) hnd
  have h2 := toNet_range_filter C io (fun k => hasSub "latch" k.toLower) (by decide +kernel) hnd
  simp only [NodeD.isDff, NodeD.isLatch, NodeD.lkind]
  rw [h1, h2]
  rfl

end

/-! ## positions -/

theorem idxOf_map_inj {β γ} [BEq β] [LawfulBEq β] [BEq γ] [LawfulBEq γ] (f : β → γ) (l : List β) (x : β)
    (hinj : ∀ y ∈ l, f y = f x → y = x) : (l.map f).idxOf (f x) = l.idxOf x := by
  induction l with
  | nil => rfl
  | cons a r ih =>
    simp only [List.map_cons, List.idxOf_cons]
    by_cases h : a = x
    · subst h; simp
    · have h2 : f a ≠ f x := fun e => h (hinj a List.mem_cons_self e)
      have h3 : (a == x) = false := by simp [h]
      have h4 : (f a == f x) = false := by simp [h2]
      rw [h3, h4]
      simp only [cond_false]
      rw [ih (fun y hy => hinj y (List.mem_cons_of_mem _ hy))]

/-- position in `s_nodes` of a named end point, when `s_nodes` is a list of resolved pin-0 end points -/
theorem sPosIn_names (C : Circ) (names : List Ep) (hres : ∀ e ∈ names, C.resolved e ∧ e.rpin = 0) (e : Ep) (he : C.resolved e)
    (h0 : e.rpin = 0) :
    sPosIn (names.map C.nodeIdx) (C.nodeIdx e) = if names.contains e then some (names.idxOf e) else none := by
  unfold sPosIn
  have hidx : (names.map C.nodeIdx).idxOf (C.nodeIdx e) = names.idxOf e := by
    apply idxOf_map_inj
    intro y hy hf
    exact ep_key_inj C e y he hf (by rw [(hres y hy).2, h0])
  simp only [hidx, List.length_map]
  by_cases hm : e ∈ names
  · have : names.idxOf e < names.length := List.idxOf_lt_length_of_mem hm
    simp [hm, this]
  · have : names.idxOf e = names.length := List.idxOf_eq_length hm
    simp [hm, this]

end KV.Netlist
