import KyupyVerif.Proofs.SubstGen20
/-! Helper lemmas for C10 (`resolve_sem_general`), part 4: one substitution keeps the loop invariant — the output pins of the
original nodes that are not forks (a line at such a pin may have been removed: the pin then holds `None`), and the drivers
of the original lines. -/
namespace KV.Transform
open KV

section step
variable {α : Type _} {lib : Lib} {h : NNet} {z : α} {neg : α → α} {prim : String → α → α → α → α → α}
  {cur : NNet} {D : Nat → Prop} {ρ : Ren} (r : ResRelG lib h z neg prim cur D ρ) (hw : WFm h)
  {j d : Nat} (hj : j < cur.net.nodes.size) (hjd : ρ.node j = d) (hd : d < h.net.nodes.size)
  (hjio : j ∉ cur.net.io) {impl : NNet} {sh : Shape} {map : Array (Option Nat)} {nxt : NNet} {R : Ren}
  (g : SubstG z neg prim cur j impl sh map nxt R)
include r hw hj hjd hd hjio g

theorem resStep_outsF (j' k l' : Nat) (hj' : j' < nxt.net.nodes.size) (hlt : (stepRho h cur j ρ R).node j' < h.net.nodes.size)
    (hnf : (nxt.net.node j').isFork = false) (hp : (nxt.net.node j').outs.getD k none = some l') :
    (h.net.node ((stepRho h cur j ρ R).node j')).outs.getD k none = some ((stepRho h cur j ρ R).line l') := by
  obtain ⟨a1, a2, a3⟩ := stepRho_node hlt
  obtain ⟨_, b2, b3⟩ := resStep_out r hw hj hjd hd hjio g j' k l' hj' a1 a2 hnf hp
  have hk := (g.hostNode j' hj' a1 a2).1
  have hnf' : (cur.net.node (R.node j')).isFork = false := by rw [← isFork_of_kind_eq hk]; exact hnf
  rw [a3, stepRho_line_eq b2]
  exact r.outsF _ k _ a1 (a3 ▸ hlt) hnf' b3

theorem resStep_outsB (j' k l : Nat) (hj' : j' < nxt.net.nodes.size) (hlt : (stepRho h cur j ρ R).node j' < h.net.nodes.size)
    (hnf : (nxt.net.node j').isFork = false) (hp : (h.net.node ((stepRho h cur j ρ R).node j')).outs.getD k none = some l) :
    (∃ l', (nxt.net.node j').outs.getD k none = some l' ∧ (stepRho h cur j ρ R).line l' = l) ∨
    ((nxt.net.node j').outs.getD k none = none ∧ ¬ ∃ l', l' < nxt.net.lines.size ∧ (stepRho h cur j ρ R).line l' = l) := by
  obtain ⟨a1, a2, a3⟩ := stepRho_node hlt
  have hk := (g.hostNode j' hj' a1 a2).1
  have hnf' : (cur.net.node (R.node j')).isFork = false := by rw [← isFork_of_kind_eq hk]; exact hnf
  have hlL : l < h.net.lines.size := (hw.fwdOut _ hlt k l hp).1
  rw [a3] at hp
  -- a preimage of `l` in the circuit after the substitution is a preimage in the circuit before
  have hpre : ∀ l'', l'' < nxt.net.lines.size → (stepRho h cur j ρ R).line l'' = l →
      R.line l'' < cur.net.lines.size ∧ ρ.line (R.line l'') = l := by
    intro l'' _ e
    obtain ⟨c1, c2⟩ := stepRho_line (e ▸ hlL)
    exact ⟨c1, c2 ▸ e⟩
  rcases r.outsB _ k l a1 (a3 ▸ hlt) hnf' hp with ⟨lc, hlc, elc⟩ | ⟨hnone, hnp⟩
  · obtain ⟨q1, q2, q3⟩ := r.wf.fwdOut _ a1 k lc hlc
    by_cases hs : ∃ l'', l'' < nxt.net.lines.size ∧ R.line l'' = lc
    · obtain ⟨l'', hl'', el''⟩ := hs
      left
      obtain ⟨c1, c2⟩ := g.hostDrv l'' hl'' (by rw [el'']; exact q1) (by rw [el'', q2]; exact a2)
      rw [el'', q2] at c1
      have hdr : (nxt.net.line l'').driver = j' := g.nodeInj _ _ (g.wf'.back l'' hl'').1 hj' c1
      have hdp : (nxt.net.line l'').dpin = k := by
        rcases c2 with c2 | c2
        · rw [c2, el'', q3]
        · rw [el'', q2, hnf'] at c2; exact absurd c2 (by simp)
      have hb := (g.wf'.back l'' hl'').2.2.1
      rw [hdr, hdp] at hb
      exact ⟨l'', hb, by rw [stepRho_line_eq (el'' ▸ q1), el'', elc]⟩
    · right
      constructor
      · cases hq : (nxt.net.node j').outs.getD k none with
        | none => rfl
        | some l' =>
          exfalso
          obtain ⟨b1, _, b3⟩ := resStep_out r hw hj hjd hd hjio g j' k l' hj' a1 a2 hnf hq
          rw [hlc] at b3
          exact hs ⟨l', b1, (Option.some.inj b3).symm⟩
      · rintro ⟨l'', hl'', e⟩
        obtain ⟨c1, c2⟩ := hpre l'' hl'' e
        exact hs ⟨l'', hl'', r.lineInj _ _ c1 q1 (c2 ▸ hlL) (c2.trans elc.symm)⟩
  · right
    constructor
    · cases hq : (nxt.net.node j').outs.getD k none with
      | none => rfl
      | some l' =>
        exfalso
        obtain ⟨_, _, b3⟩ := resStep_out r hw hj hjd hd hjio g j' k l' hj' a1 a2 hnf hq
        rw [hnone] at b3
        exact absurd b3 (by simp)
    · rintro ⟨l'', hl'', e⟩
      obtain ⟨c1, c2⟩ := hpre l'' hl'' e
      exact hnp ⟨_, c1, c2⟩

theorem resStep_drv (l' : Nat) (hl' : l' < nxt.net.lines.size) (hlt : (stepRho h cur j ρ R).line l' < h.net.lines.size)
    (hnD : ¬ (D (h.net.line ((stepRho h cur j ρ R).line l')).driver ∨ (h.net.line ((stepRho h cur j ρ R).line l')).driver = d)) :
    (stepRho h cur j ρ R).node (nxt.net.line l').driver = (h.net.line ((stepRho h cur j ρ R).line l')).driver := by
  obtain ⟨a1, a3⟩ := stepRho_line hlt
  rw [a3] at hnD ⊢
  have hr := r.drv _ a1 (a3 ▸ hlt) (fun hc => hnD (Or.inl hc))
  have hne : (cur.net.line (R.line l')).driver ≠ j := by
    intro e
    rw [e, hjd] at hr
    exact hnD (Or.inr hr.symm)
  obtain ⟨c1, _⟩ := g.hostDrv l' hl' a1 hne
  rw [stepRho_node_eq (c1 ▸ (r.wf.back _ a1).1) (c1 ▸ hne), c1]
  exact hr

end step
end KV.Transform
