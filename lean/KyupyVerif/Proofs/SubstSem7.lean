import KyupyVerif.Proofs.SubstSem6
/-! Helper lemmas for C10 (`substitute_sem`), part 7: direction "result ⇒ host with hole + implementation": from a
consistent labelling of the result, the labelling of the implementation read off the copied lines. -/
namespace KV.Transform
open KV

/-- assignment of the implementation read off the result: ports carry the instance's values, the other nodes what their
    copies are assigned -/
def anmOf {α} (h : NNet) (c : Nat) (m : NNet) (sh : Shape) (map : Array (Option Nat)) (z : α) (an' v' : Nat → α) (j : Nat) : α :=
  if m.net.io.contains j then portVal h c sh z v' j else an' ((map.getD j none).getD 0)

/-- first stage of the labelling of the implementation: a copied line carries what its copy carries, a line from an
    input port with one reader the port's value -/
def vm0Of {α} (h : NNet) (c : Nat) (m : NNet) (sh : Shape) (map : Array (Option Nat)) (z : α) (an' v' : Nat → α) (i : Nat) : α :=
  if copiedB m map i then v' (newOf h m map i) else anmOf h c m sh map z an' v' (m.net.line i).driver

/-- the labelling of the implementation: the remaining lines (into output ports that are not read inside) by their equation -/
def vmOf {α} (h : NNet) (c : Nat) (m : NNet) (sh : Shape) (map : Array (Option Nat)) (z : α) (neg : α → α)
    (prim : String → α → α → α → α → α) (an' v' : Nat → α) (i : Nat) : α :=
  if copiedB m map i || (map.getD (m.net.line i).driver none).isNone then vm0Of h c m sh map z an' v' i
  else lineEq (cutIns m (deadLine h c m sh)).net (spN (cutIns m (deadLine h c m sh)).net) z neg prim
    (anmOf h c m sh map z an' v') (vm0Of h c m sh map z an' v') i

section cert
variable {h : NNet} {c : Nat} {m : NNet} {sh : Shape} {dn : Nat} {map : Array (Option Nat)} {h' : NNet}
variable (ct : SubstCert h c m sh dn map h')
include ct

omit ct in
theorem newOf_getElem (t : Nat) (ht : t < (copiedLines m map).length) :
    newOf h m map (copiedLines m map)[t] = h.net.lines.size + t := by
  simp only [newOf]
  rw [idxOf_getElem_nodup _ t ht copiedLines_nodup]

variable {α : Type _} (z : α) (neg : α → α) (prim : String → α → α → α → α → α) (an' v' : Nat → α)

theorem SubstCert.fw_hA (j x : Nat) (hj : j ∉ m.net.io) (hm : map.getD j none = some x) :
    anmOf h c m sh map z an' v' j = an' x := by
  simp [anmOf, hj, hm]

theorem SubstCert.fw_hP (p : Nat) (hp : p ∈ m.net.io) : anmOf h c m sh map z an' v' p = portVal h c sh z v' p := by
  simp [anmOf, hp]

theorem SubstCert.fw_agree : Agree ct v' (vmOf h c m sh map z neg prim an' v') := by
  constructor
  · intro t ht
    have hmem := (copiedLines_mem (m := m) (map := map) _).mp (List.getElem_mem ht)
    simp only [vmOf, vm0Of, hmem.2, Bool.true_or, if_true]
    rw [newOf_getElem t ht]
  · intro k ll inn i0 hll hinn hlen hh
    have hin : inn ∈ sh.inPorts := List.mem_of_getElem? hinn
    obtain ⟨_, hdrv, hnone⟩ := ct.single_not_copied inn i0 hin hlen hh
    have hnc : copiedB m map i0 = false := by simp [copiedB, hdrv, hnone]
    have hio := ((mem_inPorts ct.shape inn).mp hin).1
    simp only [vmOf, vm0Of, hnc, hdrv, hnone, Option.isNone_none, Bool.or_true, if_true, Bool.false_eq_true, if_false]
    rw [ct.fw_hP z an' v' inn hio]
    simp [portVal, inPorts_idxOf ct.shape ct.ioNodup k inn hinn, hll]

/-- the labelling read off the result is consistent for the implementation -/
theorem SubstCert.fw_cons (S : Nat → Prop) (hS : ∀ s, S s → s < h.net.nodes.size ∧ s ≠ c)
    (hc' : ConsOff h' S z neg prim an' v') :
    ConsN (cutIns m (deadLine h c m sh)) z neg prim (anmOf h c m sh map z an' v') (vmOf h c m sh map z neg prim an' v') := by
  intro i hi
  rw [cutIns_lsize] at hi
  cases hmd : map.getD (m.net.line i).driver none with
  | none =>
    have hnc : copiedB m map i = false := by simp [copiedB, hmd]
    have hin := (ct.unmapped_driver i hi hmd).1
    rw [ct.lineEq_inPort z neg prim _ _ i hin]
    simp [vmOf, vm0Of, hnc, hmd]
  | some xd =>
    cases hmr : map.getD (m.net.line i).reader none with
    | some xr =>
      have hcp : copiedB m map i = true := (copiedB_iff i).mpr ⟨xd, xr, hmd, hmr⟩
      obtain ⟨t, ht, e, hline⟩ := ct.copy_of i hi xd xr hmd hmr
      have hlt : h.net.lines.size + t < h'.net.lines.size := by rw [ct.lsize]; omega
      have hv : vmOf h c m sh map z neg prim an' v' i = v' (h.net.lines.size + t) := by
        simp only [vmOf, vm0Of, hcp, Bool.true_or, if_true]
        rw [← e, newOf_getElem t ht]
      have hnS : ¬ S (h'.net.line (h.net.lines.size + t)).driver := by
        have hdrv : (h'.net.line (h.net.lines.size + t)).driver = xd := by rw [hline]
        rw [hdrv]; intro hs
        have h3 := hS _ hs
        rcases ct.mapGe _ xd hmd with e | e
        · exact h3.2 e
        · omega
      rw [hv, hc' _ hlt hnS]
      exact ct.eq_line z neg prim an' v' _ _ (ct.fw_agree z neg prim an' v') (ct.fw_hA z an' v') (ct.fw_hP z an' v')
        _ i xd hmd (by rw [hline]) (by rw [hline])
    | none =>
      have hnc : copiedB m map i = false := by simp [copiedB, hmr]
      have hv : vmOf h c m sh map z neg prim an' v' i =
          lineEq (cutIns m (deadLine h c m sh)).net (spN (cutIns m (deadLine h c m sh)).net) z neg prim
            (anmOf h c m sh map z an' v') (vm0Of h c m sh map z an' v') i := by
        simp [vmOf, hnc, hmd]
      rw [hv]
      apply lineEq_congr
      · rfl
      · rfl
      · rfl
      · intro k
        rw [cutIns_line, cutIns_inPin]
        cases hp : (m.net.node (m.net.line i).driver).inPin k with
        | none => rfl
        | some l0 =>
          simp only [Option.bind_some]
          split
          · rfl
          · simp only [Option.map_some]
            have hr0 := (ct.mwf.fwdIn _ (ct.mapM _ xd hmd) k l0 hp).2.1
            congr 1
            cases hm0 : map.getD (m.net.line l0).driver none with
            | none => simp [vmOf, hm0]
            | some x0 =>
              have : copiedB m map l0 = true := (copiedB_iff l0).mpr ⟨x0, xd, hm0, by rw [hr0]; exact hmd⟩
              simp [vmOf, this]

/-- … and the lines at the output pins of the instance carry what the output lines of the implementation carry -/
theorem SubstCert.fw_outs (S : Nat → Prop) (hS : ∀ s, S s → s < h.net.nodes.size ∧ s ≠ c)
    (hc' : ConsOff h' S z neg prim an' v') (k il ll : Nat) (hk : sh.outLines[k]? = some il)
    (hll : instOut h c k = some ll) : vmOf h c m sh map z neg prim an' v' il = v' ll := by
  have hlt : ll < h'.net.lines.size := by
    have := (ct.hwf.fwdOut c ct.hc _ ll hll).1
    rw [ct.lsize]; omega
  have hnS : ¬ S (h'.net.line ll).driver := by
    obtain ⟨_, d, _, _, htg, hd, _⟩ := ct.outWire k ll hll
    obtain ⟨k', hk'⟩ := outTarget_map htg
    rw [hd]; intro hs
    have h3 := hS _ hs
    rcases ct.mapGe k' d hk' with e | e
    · exact h3.2 e
    · omega
  rw [hc' ll hlt hnS]
  exact (ct.eq_outline z neg prim an' v' _ _ (ct.fw_agree z neg prim an' v') (ct.fw_hA z an' v') (ct.fw_hP z an' v')
    (ct.fw_cons z neg prim an' v' S hS hc') k il ll hk hll).symm

/-- the host part of a consistent labelling of the result satisfies every equation of the host outside the cell -/
theorem SubstCert.fw_hole (S : Nat → Prop) (hc' : ConsOff h' S z neg prim an' v') :
    ConsOff h (fun d => S d ∨ d = c) z neg prim an' v' := by
  intro l hl hd0
  have hd : (h.net.line l).driver ≠ c := fun e => hd0 (Or.inr e)
  have hlt : l < h'.net.lines.size := by rw [ct.lsize]; omega
  rw [hc' l hlt (by rw [(ct.drvFrame l hl hd).1]; exact fun hs => hd0 (Or.inl hs))]
  exact ct.eq_hostline z neg prim an' an' v' v' (fun _ _ => rfl) (fun _ _ _ => rfl) l hl hd

end cert
end KV.Transform
