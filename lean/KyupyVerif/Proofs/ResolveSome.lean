import KyupyVerif.Proofs.SubstSome5
import KyupyVerif.Model.ResolveHyp
/-! C10, audit 2 finding 6: success of a whole `resolve_tlib_cells` run.  The circuit-wide invariants (`wfNoTrail`, gap-free forks)
are carried through the loop by `substitute_inv`; the per-instance clauses (`instHypB`) are asked of the circuit as it is when the
substitution of that instance starts. -/
namespace KV.Transform
open KV

theorem forksDenseB_of_FD {net : Net} (fd : FD net) : forksDenseB net = true := by
  simp only [forksDenseB, List.all_eq_true, List.mem_range, Bool.or_eq_true, Bool.not_eq_true', Option.isSome_iff_ne_none]
  intro j hj
  cases hf : (net.node j).isFork with
  | false => exact Or.inl rfl
  | true => exact Or.inr (fun o ho => fd j hj hf o ho)

theorem Lib.find_mem (lib : Lib) (kind : String) (impl : NNet) (h : lib.find kind = some impl) : ∃ e ∈ lib, e.2 = impl := by
  unfold Lib.find at h
  cases hf : lib.find? (fun e => e.1 == kind) with
  | none => simp [hf] at h
  | some e =>
    simp only [hf, Option.map_some, Option.some.injEq] at h
    exact ⟨e, List.mem_of_find?_eq_some hf, h⟩

/-- Boolean form of `substitute_inv` + `substitute_some`: one substitution under `substSomeHypB` succeeds and its result satisfies the
    two circuit-wide clauses of `substSomeHypB` again -/
theorem substitute_some_inv (h m : NNet) (c : Nat) (hyp : substSomeHypB h c m = true) :
    ∃ h', substitute h c m = some h' ∧ h'.wfNoTrail = true ∧ forksDenseB h'.net = true := by
  simp only [substSomeHypB, Bool.and_eq_true, decide_eq_true_eq, Bool.not_eq_true'] at hyp
  obtain ⟨⟨⟨⟨⟨⟨⟨⟨⟨⟨h1, h2⟩, h3⟩, h4⟩, h5⟩, h6⟩, h7⟩, h8⟩, h9⟩, h10⟩, h11⟩ := hyp
  have har : ∀ sh, implShape m = some sh →
      (h.net.node c).ins.length ≤ sh.inPorts.length ∧ (h.net.node c).outs.length ≤ sh.outLines.length := fun sh hs => by
    simp only [arityOKB, hs, Bool.and_eq_true, decide_eq_true_eq] at h11
    exact h11
  obtain ⟨h', e⟩ := substitute_some h m c (WFm.of_wfNoTrail h1) (FD_of_forksDenseB h2) (WF.of_wf h3) h4 (by simpa using h5) h6 h7 h8 h9 h10 har
  obtain ⟨w', fd'⟩ := substitute_inv h m h' c (WFm.of_wfNoTrail h1) (FD_of_forksDenseB h2) (WF.of_wf h3) h4 (by simpa using h5) h6 h7 h8 h9
    h10 har e
  exact ⟨h', e, wfNoTrail_of_WFm w', forksDenseB_of_FD fd'⟩

/-- **a whole `resolve_tlib_cells` run succeeds**: induction over the key list; invariant = `wfNoTrail ∧ forksDenseB` -/
theorem resolve_run_some (lib : Lib) (hl : libOKB lib = true) : ∀ (keys : List (String × Bool)) (cur : NNet),
    cur.wfNoTrail = true → forksDenseB cur.net = true → resolveInstB lib keys cur = true →
    ∃ h', keys.foldlM (resolveStep lib) cur = some h' ∧ h'.wfNoTrail = true ∧ forksDenseB h'.net = true
  | [], cur, hw, hf, _ => ⟨cur, rfl, hw, hf⟩
  | key :: rest, cur, hw, hf, hok => by
    have step : ∃ nxt, resolveStep lib cur key = some nxt ∧ nxt.wfNoTrail = true ∧ forksDenseB nxt.net = true ∧
        resolveInstB lib rest nxt = true := by
      unfold resolveInstB at hok
      unfold resolveStep
      dsimp only at hok ⊢
      split at hok
      · rename_i hlt
        rw [if_pos hlt]
        split at hok
        · rename_i impl hfd
          simp only [Bool.and_eq_true] at hok
          obtain ⟨hi, h2⟩ := hok
          rw [hfd]
          dsimp only
          obtain ⟨e, hem, rfl⟩ := Lib.find_mem lib _ impl hfd
          have hm := List.all_eq_true.mp hl e hem
          simp only [implSomeOKB, Bool.and_eq_true] at hm
          simp only [instHypB, Bool.and_eq_true, Bool.not_eq_true'] at hi
          have hyp : substSomeHypB cur (cur.lookup key) e.2 = true := by
            simp only [substSomeHypB, Bool.and_eq_true, decide_eq_true_eq, Bool.not_eq_true']
            exact ⟨⟨⟨⟨⟨⟨⟨⟨⟨⟨hw, hf⟩, hm.1.1.1.1⟩, hlt⟩, hi.1.1.1.1⟩, hi.1.1.1.2⟩, hm.1.1.1.2⟩, hm.1.1.2⟩, hi.1.1.2⟩, hi.1.2⟩, hi.2⟩
          obtain ⟨nxt, hs, w', f'⟩ := substitute_some_inv cur e.2 _ hyp
          rw [hs] at h2
          exact ⟨nxt, hs, w', f', h2⟩
        · rename_i hfd
          rw [hfd]
          exact ⟨cur, rfl, hw, hf, hok⟩
      · rename_i hlt
        rw [if_neg hlt]
        exact ⟨cur, rfl, hw, hf, hok⟩
    obtain ⟨nxt, h1, w', f', h2⟩ := step
    simp only [List.foldlM_cons, Option.bind_eq_bind, h1, Option.bind_some]
    exact resolve_run_some lib hl rest nxt w' f' h2

end KV.Transform
