import KyupyVerif.Proofs.MemMapPre
import KyupyVerif.Proofs.MemMapAlias
import KyupyVerif.Proofs.GenOpsProg
import KyupyVerif.Proofs.LeveliseStarts
/-! The memory map built by the model of `SimOps.__init__` passes the map certificate: assembly of the program facts
(`ProgOK`, Proofs/GenOpsProg.lean + Proofs/LeveliseStarts.lean), the allocation invariant (Proofs/MemMapAlloc.lean,
Proofs/MemMapPre.lean) and the alias passes (Proofs/MemMapAlias.lean) into the clauses of `MapIn.check`. -/
namespace KV
open KV.Heap KV.MapIn

/-- the clauses of the checker as propositions -/
structure Clauses (p : MapIn) : Prop where
  c1 : (∀ x ∈ p.tracked, p.inBounds x = true) ∧ p.inBounds p.ix.tmp = true ∧ p.inBounds p.ix.tmp2 = true
  c2 : ∀ x ∈ p.tracked, p.isJunk x = false
  c3 : ∀ (k : Nat) (o : OpRow), p.ops[k]? = some o → p.isJunk o.out = true ∨
    p.ops.findIdx? (fun o' => o'.out == o.out) = some k
  c4 : ∀ (k : Nat) (o : OpRow), p.ops[k]? = some o → ∀ i ∈ o.ins,
    p.src i ∈ p.tracked ∧ p.dfn (p.src i) < p.levelOf k ∧ p.isJunk (p.src i) = false
  c5 : ∀ (k : Nat) (o : OpRow), p.ops[k]? = some o → ∀ i ∈ o.ins,
    p.loc i = p.loc (p.src i) ∧ p.cap i = p.cap (p.src i)
  c6 : ∀ j s, (j, s) ∈ p.ppoSrcs → p.loc j = p.loc s ∧ p.cap j = p.cap s ∧ s ∈ p.tracked
  c7 : ∀ x ∈ p.tracked, ∀ y ∈ p.tracked,
    x = y ∨ p.overlap x y = false ∨ p.last x < p.dfn y ∨ p.last y < p.dfn x
  c8 : (∀ x ∈ p.tracked, p.overlap x p.ix.tmp = false ∧ p.overlap x p.ix.tmp2 = false) ∧
    p.overlap p.ix.tmp p.ix.tmp2 = false

theorem ite_some_none {c : Bool} {s : String} {r : Option String} (hc : c = false) (hr : r = none) :
    (if c = true then some s else r) = none := by
  subst hc; simpa using hr

/-- the checker accepts when every clause holds -/
theorem check_of_clauses (p : MapIn) (h : Clauses p) : p.check = none := by
  unfold check checkW
  dsimp only
  apply ite_some_none
  · rw [Bool.not_eq_false', Bool.and_eq_true, List.all_eq_true]
    refine ⟨h.c1.1, ?_⟩
    simp [h.c1.2.1, h.c1.2.2]
  apply ite_some_none
  · rw [Bool.not_eq_false', List.all_eq_true]
    intro x hx; simp [h.c2 x hx]
  apply ite_some_none
  · rw [Bool.not_eq_false', List.all_eq_true]
    rintro ⟨o, k⟩ hok
    have := h.c3 k o (by simpa using (List.mem_zipIdx_iff_getElem?.mp hok))
    rcases this with h1 | h1
    · simp [h1]
    · simp [h1]
  apply ite_some_none
  · rw [Bool.not_eq_false', List.all_eq_true]
    rintro ⟨o, k⟩ hok
    have hk : p.ops[k]? = some o := by simpa using (List.mem_zipIdx_iff_getElem?.mp hok)
    simp only [List.all_eq_true]
    intro i hi
    obtain ⟨a1, a2, a3⟩ := h.c4 k o hk i hi
    simp [a1, a2, a3]
  apply ite_some_none
  · rw [Bool.not_eq_false', List.all_eq_true]
    rintro ⟨o, k⟩ hok
    have hk : p.ops[k]? = some o := by simpa using (List.mem_zipIdx_iff_getElem?.mp hok)
    simp only [List.all_eq_true]
    intro i hi
    obtain ⟨a1, a2⟩ := h.c5 k o hk i hi
    simp [a1, a2]
  apply ite_some_none
  · rw [Bool.not_eq_false', List.all_eq_true]
    rintro ⟨j, s⟩ hjs
    obtain ⟨a1, a2, a3⟩ := h.c6 j s hjs
    simp [a1, a2, a3]
  apply ite_some_none
  · rw [Bool.not_eq_false', List.all_eq_true]
    intro x hx
    rw [List.all_eq_true]
    intro y hy
    rcases h.c7 x hx y hy with a | a | a | a
    · simp [a]
    · simp [a]
    · simp [a]
    · simp [a]
  apply ite_some_none
  · rw [Bool.or_eq_false_iff]
    refine ⟨?_, h.c8.2⟩
    rw [Bool.not_eq_false', List.all_eq_true]
    intro x hx
    obtain ⟨a1, a2⟩ := h.c8.1 x hx
    simp [a1, a2]
  rfl

theorem stemsOf_size' (net : Net) (strip : Bool) : (stemsOf net strip).size = net.idx.len := by
  cases strip with
  | true => exact stemsOf_size net
  | false => rw [stemsOf_false]; simp

/-- state after the level loop satisfies the invariant at the end of the program -/
theorem mapLevels_inv {p : MapIn} (hp : ProgOK p) (hpos : 0 < p.capsMin) (reuse : Bool) (capsIn : Nat → Nat) (lev : LevSt)
    (hst : p.starts = lev.starts.reverse)
    (hsz : lev.refc.size = p.ix.len) (hrc : ∀ x, x < p.ix.len → lev.refc.getD x 0 = (occ p.stems x p.ops : Int)) :
    MInv p reuse p.ops.length (mapLevels p.net p.ops p.stems lev capsIn p.capsMin reuse) := by
  unfold mapLevels
  rw [← hst]
  exact levels_inv hp hpos reuse capsIn _ (mapPre_inv hpos reuse lev hsz hrc)

theorem tracked_cases (p : MapIn) {x : Nat} (h : x ∈ p.tracked) :
    (∃ o ∈ p.ops, o.out = x ∧ p.isJunk x = false) ∨ x ∈ p.ppiSlots ∨ x = p.ix.zero := by
  unfold MapIn.tracked at h
  simp only [List.mem_append, List.mem_filter, List.mem_map, List.mem_singleton] at h
  rcases h with (⟨⟨o, ho, rfl⟩, hj⟩ | h) | h
  · exact .inl ⟨o, ho, rfl, by simpa using hj⟩
  · exact .inr (.inl h)
  · exact .inr (.inr h)

theorem isJunk_false_iff (p : MapIn) (x : Nat) : p.isJunk x = false ↔ x ≠ p.ix.tmp ∧ x ≠ p.ix.tmp2 := by
  simp [MapIn.isJunk]

theorem tracked_alloc (p : MapIn) {x : Nat} (h : x ∈ p.tracked) :
    AllocAt p p.ops.length x ∧ x ≠ p.ix.tmp ∧ x ≠ p.ix.tmp2 := by
  obtain ⟨i1, i2, i3, i4, i5, i6⟩ := ix_vals p
  rcases tracked_cases p h with ⟨o, ho, rfl, hj⟩ | h | h
  · obtain ⟨k, hk, he⟩ := List.getElem_of_mem ho
    have hj' := (isJunk_false_iff p _).mp hj
    exact ⟨.inr (.inr (.inr (.inr ⟨k, o, hk, by rw [List.getElem?_eq_getElem hk, he], rfl, hj'.1⟩))), hj'⟩
  · have := ppiSlots_range p h
    exact ⟨.inr (.inr (.inr (.inl h))), by omega, by omega⟩
  · exact ⟨.inl h, by omega, by omega⟩

theorem mem_tracked_of_out (p : MapIn) {o : OpRow} (ho : o ∈ p.ops) (hj : p.isJunk o.out = false) : o.out ∈ p.tracked := by
  unfold MapIn.tracked
  simp only [List.mem_append, List.mem_filter, List.mem_map]
  exact .inl (.inl ⟨⟨o, ho, rfl⟩, by simp [hj]⟩)

theorem mem_tracked_ppi (p : MapIn) {x : Nat} (h : x ∈ p.ppiSlots) : x ∈ p.tracked := by
  unfold MapIn.tracked
  simp only [List.mem_append]
  exact .inl (.inr h)

theorem mem_tracked_zero (p : MapIn) : p.ix.zero ∈ p.tracked := by
  unfold MapIn.tracked
  simp


theorem overlap_false_of (p : MapIn) (s : MapSt) {x y : Nat} (hx : p.loc x = s.loc x ∧ p.cap x = s.cap x)
    (hy : p.loc y = s.loc y ∧ p.cap y = s.cap y) (h : ¬ ovl s x y) : p.overlap x y = false := by
  unfold MapIn.overlap
  simp only [hx.1, hx.2, hy.1, hy.2]
  unfold ovl at h
  cases h1 : decide (s.loc x < s.loc y + (s.cap y : Int)) <;> cases h2 : decide (s.loc y < s.loc x + (s.cap x : Int)) <;> simp
  simp only [decide_eq_true_eq] at h1 h2
  exact h ⟨h1, h2⟩

/-- **from the invariant at the end of the level loop to the clauses of the certificate** -/
theorem clauses_of_inv {p : MapIn} (hp : ProgOK p) (reuse : Bool) (s : MapSt)
    (hM : MInv p reuse p.ops.length s) (hstsz : p.stems.size = p.ix.len)
    (hl : p.locs = (mapAliases p.net p.stems s).locs) (hc : p.caps = (mapAliases p.net p.stems s).caps)
    (hn : p.cLen = (mapAliases p.net p.stems s).heap.maxSz) : Clauses p := by
  obtain ⟨i1, i2, i3, i4, i5, i6⟩ := ix_vals p
  obtain ⟨hA, _⟩ := hM
  obtain ⟨e1, _, _, e4, e5⟩ := mapAliases_spec p.net p.stems s hstsz hA.szl hA.szc hp.cap_lt
  have hloc : ∀ x, p.loc x = (mapAliases p.net p.stems s).locs.getD x (-1) := fun x => by unfold MapIn.loc; rw [hl]
  have hcap : ∀ x, p.cap x = (mapAliases p.net p.stems s).caps.getD x 0 := fun x => by unfold MapIn.cap; rw [hc]
  -- values through the alias passes
  have E4 : ∀ x, x < p.ix.ppo → (∀ t, p.stems.getD x none = some t → p.stems.getD t none = none) →
      p.loc x = s.loc (p.src x) ∧ p.cap x = s.cap (p.src x) := by
    intro x hx hs
    rw [hloc, hcap]
    exact e4 x hx hs
  have E4n : ∀ x, x < p.ix.ppo → p.stems.getD x none = none → p.loc x = s.loc x ∧ p.cap x = s.cap x := by
    intro x hx hs
    have := E4 x hx (fun t ht => by rw [hs] at ht; cases ht)
    have e : p.src x = x := by unfold MapIn.src viaStem; rw [hs]; rfl
    rwa [e] at this
  -- signals that own memory are no branches and keep their entries
  have K1 : ∀ x, AllocAt p p.ops.length x → p.stems.getD x none = none ∧ x < p.ix.ppo := by
    intro x hx
    constructor
    · cases hs : p.stems.getD x none with
      | none => rfl
      | some t =>
        exfalso
        obtain ⟨hz, hno⟩ := hp.branch x t hs
        rcases hx with h | h | h | h | ⟨k', o, _, hk', ho, _⟩
        · omega
        · omega
        · omega
        · have := ppiSlots_range p h; omega
        · exact hno o (List.mem_of_getElem? hk') ho
    · rcases hx with h | h | h | h | ⟨k', o, _, hk', ho, hne⟩
      · omega
      · omega
      · omega
      · have := ppiSlots_range p h; omega
      · rcases hp.out_ok o (List.mem_of_getElem? hk') with h | h
        · exact absurd (ho ▸ h) hne
        · omega
  have K2 : ∀ x, AllocAt p p.ops.length x → p.loc x = s.loc x ∧ p.cap x = s.cap x :=
    fun x hx => E4n x (K1 x hx).2 (K1 x hx).1
  have hmax : (p.cLen : Int) = (s.heap.maxSz : Int) := by rw [hn, e1]
  have hinb : ∀ x, AllocAt p p.ops.length x → p.inBounds x = true := by
    intro x hx
    obtain ⟨b1, b2, b3⟩ := hA.bd x hx
    obtain ⟨k1, k2⟩ := K2 x hx
    unfold MapIn.inBounds
    rw [k1, k2, hmax]
    simp [b1, b2, b3]
  have h0s := hp.zero_mem_starts
  -- an operand denotes a tracked signal defined in an earlier level
  have hopnd : ∀ (k : Nat) (o : OpRow), p.ops[k]? = some o → ∀ x ∈ opSrcs p.stems o,
      x ∈ p.tracked ∧ p.dfn x < p.levelOf k ∧ p.isJunk x = false := by
    intro k o hk x hx
    rcases hp.opnd k o hk x hx with h | h | ⟨hz, k', o', hlt, hk', ho'⟩
    · subst h
      exact ⟨mem_tracked_zero p, by rw [hp.dfn_zero_of_ge (Nat.le_refl _) (by omega)]; exact levelOf_pos p h0s k,
        (isJunk_false_iff p _).mpr ⟨by omega, by omega⟩⟩
    · have := ppiSlots_range p h
      exact ⟨mem_tracked_ppi p h, by rw [hp.dfn_zero_of_ge (by omega) (by omega)]; exact levelOf_pos p h0s k,
        (isJunk_false_iff p _).mpr ⟨by omega, by omega⟩⟩
    · have hj : p.isJunk x = false := (isJunk_false_iff p _).mpr ⟨by omega, by omega⟩
      have ht : o'.out ≠ p.ix.tmp := by rw [ho']; omega
      refine ⟨ho' ▸ mem_tracked_of_out p (List.mem_of_getElem? hk') (ho'.symm ▸ hj), ?_, hj⟩
      have := hp.dfn_out hk' ht
      rw [ho'] at this
      rw [this]
      exact hp.lev k' k o' o hlt hk' hk ht (ho'.symm ▸ hx)
  refine ⟨⟨fun x hx => hinb x (tracked_alloc p hx).1, hinb _ (.inr (.inl rfl)), hinb _ (.inr (.inr (.inl rfl)))⟩,
    fun x hx => (isJunk_false_iff p x).mpr (tracked_alloc p hx).2, ?_, ?_, ?_, ?_, ?_, ?_⟩
  · -- c3
    intro k o hk
    by_cases ht : o.out = p.ix.tmp
    · left; simp [MapIn.isJunk, ht]
    · exact .inr (hp.first k o hk ht)
  · -- c4
    intro k o hk i hi
    exact hopnd k o hk (p.src i) (by rw [← ins_map_src]; exact List.mem_map_of_mem hi)
  · -- c5
    intro k o hk i hi
    have hsi : p.src i ∈ opSrcs p.stems o := by rw [← ins_map_src]; exact List.mem_map_of_mem hi
    have hso := hp.stem_opnd o (List.mem_of_getElem? hk) i hi
    -- the stem is no branch and below ppo
    have hsrc : p.stems.getD (p.src i) none = none ∧ p.src i < p.ix.ppo ∧ i < p.ix.ppo := by
      have hb : p.src i < p.ix.ppo := by
        rcases hp.opnd k o hk _ hsi with h | h | ⟨hz, _⟩
        · omega
        · have := ppiSlots_range p h; omega
        · omega
      cases hs : p.stems.getD i none with
      | none =>
        have e : p.src i = i := by unfold MapIn.src viaStem; rw [hs]; rfl
        rw [e] at hb ⊢
        exact ⟨hs, hb, hb⟩
      | some t =>
        have e : p.src i = t := by unfold MapIn.src viaStem; rw [hs]; rfl
        rw [e]
        rw [e] at hb
        exact ⟨hso t hs, hb, by have := (hp.branch i t hs).1; omega⟩
    obtain ⟨a1, a2⟩ := E4 i hsrc.2.2 hso
    obtain ⟨b1, b2⟩ := E4n (p.src i) hsrc.2.1 hsrc.1
    exact ⟨by rw [a1, b1], by rw [a2, b2]⟩
  · -- c6
    intro j s' hjs
    obtain ⟨hz, o, ho, hos⟩ := hp.ppo j s' hjs
    have hjs' := hjs
    unfold MapIn.ppoSrcs MapIn.ppoSrcsW at hjs'
    simp only [List.mem_filterMap] at hjs'
    obtain ⟨⟨n, i⟩, hm, hg⟩ := hjs'
    cases hp0 : (p.net.node n).inPin 0 with
    | none => rw [hp0] at hg; simp at hg
    | some l =>
      rw [hp0] at hg
      simp only [Option.map_some, Option.some.injEq, Prod.mk.injEq] at hg
      obtain ⟨rfl, rfl⟩ := hg
      have hsc := hp.stem_cap n i l hm hp0
      obtain ⟨a1, a2⟩ := e5 n i l hm hp0 hsc
      have hj : p.isJunk (p.src l) = false := (isJunk_false_iff p _).mpr ⟨by omega, by omega⟩
      have htr : p.src l ∈ p.tracked := hos ▸ mem_tracked_of_out p ho (hos.symm ▸ hj)
      obtain ⟨b1, b2⟩ := K2 _ (tracked_alloc p htr).1
      refine ⟨?_, ?_, htr⟩
      · rw [hloc, b1]; exact a1
      · rw [hcap, b2]; exact a2
  · -- c7
    intro x hx y hy
    by_cases hxy : x = y
    · exact .inl hxy
    · obtain ⟨ax, _, _⟩ := tracked_alloc p hx
      obtain ⟨ay, _, _⟩ := tracked_alloc p hy
      rcases hA.sep x y ax ay hxy with h | ⟨_, _, _, _, h⟩
      · exact .inr (.inl (overlap_false_of p s (K2 x ax) (K2 y ay) h))
      · exact .inr (.inr h)
  · -- c8
    have at1 : AllocAt p p.ops.length p.ix.tmp := .inr (.inl rfl)
    have at2 : AllocAt p p.ops.length p.ix.tmp2 := .inr (.inr (.inl rfl))
    refine ⟨fun x hx => ?_, ?_⟩
    · obtain ⟨ax, n1, n2⟩ := tracked_alloc p hx
      constructor
      · rcases hA.sep x _ ax at1 n1 with h | ⟨_, _, h, _⟩
        · exact overlap_false_of p s (K2 x ax) (K2 _ at1) h
        · exact absurd rfl h
      · rcases hA.sep x _ ax at2 n2 with h | ⟨_, _, _, h, _⟩
        · exact overlap_false_of p s (K2 x ax) (K2 _ at2) h
        · exact absurd rfl h
    · rcases hA.sep _ _ at1 at2 (by omega) with h | ⟨h, _⟩
      · exact overlap_false_of p s (K2 _ at1) (K2 _ at2) h
      · exact absurd rfl h


/-- **the program facts hold for the scheduler model**: `genOps` + `stemsOf` + `levelise` -/
theorem simops_progOK (tbl : List PrefixRow) (p : MapIn) (order : List Nat)
    (hwf : p.net.wfB = true) (ho : orderOKB p.net order = true)
    (hf : p.strip = true → forksOKB p.net order = true) (hr : readsDrivenB tbl p.net order = true)
    (hops : p.ops = genOps tbl p.net order p.strip)
    (hst : p.starts = (levelise p.ix.len p.stems p.ops).starts.reverse) : ProgOK p := by
  have hout := genOps_out_ok tbl p order hwf ho hops
  have hfirst := genOps_first tbl p order hwf ho hops
  refine ⟨hout, hfirst, genOps_opnd tbl p order hwf ho hf hr hops, ?_, ?_,
    genOps_ppo tbl p order hwf ho hf hr hops, genOps_branch tbl p order hwf ho hops,
    genOps_stem_opnd tbl p order hwf ho hops, genOps_stem_cap tbl p order hwf ho hr, genOps_cap_lt p hwf⟩
  · intro k' k o' o hlt hk' hk ht hread
    have hlen : o'.out < p.ix.len := by
      obtain ⟨i1, _, _, _, _, i6⟩ := ix_vals p
      rcases hout o' (List.mem_of_getElem? hk') with h | h
      · exact absurd h ht
      · omega
    have := levelise_writer_before_reader p.ix.len p.stems p.ops k' k o' o hlt hk' hk hlen hread (by
      intro j oj h1 _ hj he
      have e1 := hfirst j oj hj (he ▸ ht)
      have e2 := hfirst k' o' hk' ht
      rw [he, e2] at e1
      simp only [Option.some.injEq] at e1
      omega)
    unfold MapIn.levelOf
    rw [hst]
    exact this
  · rw [hst]
    exact levelise_startsOK _ _ _

/-- **the map `memMap` builds passes the certificate**, stated for a record `p` whose tables are the model's -/
theorem memMap_accepted (tbl : List PrefixRow) (p : MapIn) (order : List Nat) (capsIn : Nat → Nat) (reuse : Bool)
    (hwf : p.net.wfB = true) (ho : orderOKB p.net order = true)
    (hf : p.strip = true → forksOKB p.net order = true) (hr : readsDrivenB tbl p.net order = true)
    (hpos : 0 < p.capsMin)
    (hops : p.ops = genOps tbl p.net order p.strip)
    (hst : p.starts = (levelise p.ix.len p.stems p.ops).starts.reverse)
    (hl : p.locs = (memMap p.net p.ops p.stems (levelise p.ix.len p.stems p.ops) capsIn p.capsMin reuse).locs)
    (hc : p.caps = (memMap p.net p.ops p.stems (levelise p.ix.len p.stems p.ops) capsIn p.capsMin reuse).caps)
    (hn : p.cLen = (memMap p.net p.ops p.stems (levelise p.ix.len p.stems p.ops) capsIn p.capsMin reuse).heap.maxSz) :
    p.check = none := by
  have hp := simops_progOK tbl p order hwf ho hf hr hops hst
  rw [memMap_eq_fold] at hl hc hn
  have hM := mapLevels_inv hp hpos reuse capsIn (levelise p.ix.len p.stems p.ops) hst
    (levelise_refc_size _ _ _) (fun x hx => levelise_refc _ _ _ x hx)
  exact check_of_clauses p (clauses_of_inv hp reuse _ hM (stemsOf_size' p.net p.strip) hl hc hn)


/-- the map record of the scheduler model: op rows, level starts, location / capacity tables and size exactly as the
    harness and the driver assemble them from `SimOps` (`ops`, `level_starts`, `c_locs`, `c_caps`, `c_len`) -/
def simopsMap (tbl : List PrefixRow) (net : Net) (order : List Nat) (strip : Bool) (capsIn : Nat → Nat) (capsMin : Nat)
    (reuse : Bool) : MapIn :=
  let ops := genOps tbl net order strip
  let st := stemsOf net strip
  let lev := levelise net.idx.len st ops
  let m := memMap net ops st lev capsIn capsMin reuse
  { net := net, strip := strip, ops := ops, starts := lev.starts.reverse, locs := m.locs, caps := m.caps,
    cLen := m.heap.maxSz, capsMin := capsMin }

theorem simopsMap_accepted (tbl : List PrefixRow) (net : Net) (order : List Nat) (strip : Bool) (capsIn : Nat → Nat)
    (capsMin : Nat) (reuse : Bool) (hwf : net.wfB = true) (ho : orderOKB net order = true)
    (hf : strip = true → forksOKB net order = true) (hr : readsDrivenB tbl net order = true) (hpos : 0 < capsMin) :
    (simopsMap tbl net order strip capsIn capsMin reuse).check = none :=
  memMap_accepted tbl (simopsMap tbl net order strip capsIn capsMin reuse) order capsIn reuse hwf ho hf hr hpos
    rfl rfl rfl rfl rfl

end KV
