import KyupyVerif.Proofs.VerilogLines
import KyupyVerif.Proofs.BenchCirc
/-! Nodes of a module of the fragment: its cells (`module_cells`), resolution and kinds of end points, `io_nodes` (`module_ioNames`,
the statement of `C11.ports_order`), `s_nodes` and positions (`verilogNet_sNodes`, `verilogNet_sPos_*`). -/
namespace KV.Netlist
open KV

def instCell (i : VInst) : NodeM := ⟨i.ty, i.name, false⟩
def portCells (d : Decl) : List NodeM := if d.kind == .wire then [] else d.names.map fun n => ⟨d.kind.str, n, false⟩

theorem filter_cells_map_fork {β} (l : List β) (f : β → String) (b : Bool) :
    (l.map fun x => (⟨forkKind, f x, b⟩ : NodeM)).filter (fun x => x.kind != forkKind) = [] := by
  induction l with
  | nil => rfl
  | cons a r ih => simp [List.filter_cons, ih]

theorem str_ne_fork (k : DKind) : (k.str != forkKind) = true := by cases k <;> decide +kernel

theorem cells_portNodes (d : Decl) : (portNodes d).filter (fun x => x.kind != forkKind) = portCells d := by
  unfold portNodes portCells
  by_cases hw : d.kind == DKind.wire
  · simp [hw]
  · simp only [hw, Bool.false_eq_true, if_false]
    induction d.names with
    | nil => rfl
    | cons n r ih =>
      simp only [List.flatMap_cons, List.filter_append, ih, List.map_cons]
      unfold portNodes1
      by_cases hi : d.kind == DKind.input
      · simp [hi, List.filter_cons, str_ne_fork, forkN]
      · simp [hi, List.filter_cons, str_ne_fork]

section
variable {cfg : Cfg} {tl : TL} {ports : List String} {stmts : List Stmt}

theorem module_cells (hok : VOK cfg tl ports stmts) :
    cellsOf (module cfg tl ports stmts) = (vInsts stmts).map instCell ++ (sigDecls stmts).flatMap portCells := by
  unfold cellsOf
  rw [module_nodes hok]
  unfold vNodes
  rw [List.filter_append, List.filter_append]
  have h1 : ∀ (l : List VInst), (∀ i ∈ l, i.ty ≠ forkKind) →
      (l.flatMap (p1Nodes tl (sigDecls stmts))).filter (fun x => x.kind != forkKind) = l.map instCell := by
    intro l
    induction l with
    | nil => intro _; rfl
    | cons i r ih =>
      intro hk
      simp only [List.flatMap_cons, List.filter_append, List.map_cons]
      rw [ih (fun j hj => hk j (List.mem_cons_of_mem _ hj))]
      unfold p1Nodes
      have hki : i.ty ≠ forkKind := hk i List.mem_cons_self
      simp only [List.filter_cons, bne_iff_ne, ne_eq, hki, not_false_eq_true, if_true]
      have := filter_cells_map_fork (outConn tl (sigDecls stmts) i) (fun o => o.2) false
      unfold forkN
      rw [this]
      rfl
  have h2 : ∀ (l : List Decl), (l.flatMap portNodes).filter (fun x => x.kind != forkKind) = l.flatMap portCells := by
    intro l
    induction l with
    | nil => rfl
    | cons d r ih => simp only [List.flatMap_cons, List.filter_append, ih, cells_portNodes]
  have h3 : ∀ (l : List VInst), (l.flatMap (p2Nodes cfg.bf tl)).filter (fun x => x.kind != forkKind) = [] := by
    intro l
    induction l with
    | nil => rfl
    | cons i r ih =>
      simp only [List.flatMap_cons, List.filter_append, ih, List.append_nil]
      unfold p2Nodes
      induction inConn tl i with
      | nil => rfl
      | cons c r2 ih2 =>
        simp only [List.flatMap_cons, List.filter_append, ih2, List.append_nil]
        unfold p2Nodes1
        cases cfg.bf <;> simp [branchN]
  rw [h1 _ hok.kinds, h2, h3, List.append_nil]

theorem portCells_names (ds : List Decl) : (ds.flatMap portCells).map (·.name) = portBitNames ds := by
  unfold portBitNames
  induction ds with
  | nil => rfl
  | cons d r ih =>
    simp only [List.flatMap_cons, List.map_append, ih, List.filter_cons]
    unfold portCells
    by_cases hw : d.kind = DKind.wire
    · simp [hw]
    · simp [hw, List.map_map, Function.comp_def]

theorem module_cells_nodup (hok : VOK cfg tl ports stmts) : ((cellsOf (module cfg tl ports stmts)).map (·.name)).Nodup := by
  rw [module_cells hok, List.map_append, portCells_names, List.map_map]
  exact hok.cells

theorem instCell_mem (hok : VOK cfg tl ports stmts) (i : VInst) (hi : i ∈ vInsts stmts) :
    instCell i ∈ cellsOf (module cfg tl ports stmts) := by
  rw [module_cells hok]
  exact List.mem_append_left _ (List.mem_map.mpr ⟨i, hi, rfl⟩)

theorem portCell_mem (hok : VOK cfg tl ports stmts) (d : Decl) (hd : d ∈ sigDecls stmts) (hk : d.kind ≠ .wire) (n : String)
    (hn : n ∈ d.names) : (⟨d.kind.str, n, false⟩ : NodeM) ∈ cellsOf (module cfg tl ports stmts) := by
  rw [module_cells hok]
  apply List.mem_append_right
  apply List.mem_flatMap.mpr
  refine ⟨d, hd, ?_⟩
  unfold portCells
  have : (d.kind == DKind.wire) = false := by simp [hk]
  simp only [this, Bool.false_eq_true, if_false]
  exact List.mem_map.mpr ⟨n, hn, rfl⟩

theorem v_resolved_inst (hok : VOK cfg tl ports stmts) (i : VInst) (hi : i ∈ vInsts stmts) (p : Nat) :
    (module cfg tl ports stmts).resolved (.cell i.name p) :=
  resolved_of_cell _ (instCell i) (instCell_mem hok i hi) p

theorem v_kindOf_inst (hok : VOK cfg tl ports stmts) (i : VInst) (hi : i ∈ vInsts stmts) (p : Nat) :
    (module cfg tl ports stmts).kindOf (.cell i.name p) = i.ty :=
  kindOf_cell _ (module_cells_nodup hok) (instCell i) (instCell_mem hok i hi) p

theorem mem_inputNames (ds : List Decl) (n : String) : n ∈ inputNames ds ↔ ∃ d ∈ ds, d.kind = .input ∧ n ∈ d.names := by
  unfold inputNames
  simp only [List.mem_flatMap, List.mem_filter, beq_iff_eq]
  constructor
  · rintro ⟨d, ⟨h1, h2⟩, h3⟩; exact ⟨d, h1, h2, h3⟩
  · rintro ⟨d, h1, h2, h3⟩; exact ⟨d, ⟨h1, h2⟩, h3⟩

theorem mem_outputNames (ds : List Decl) (n : String) : n ∈ outputNames ds ↔ ∃ d ∈ ds, d.kind = .output ∧ n ∈ d.names := by
  unfold outputNames
  simp only [List.mem_flatMap, List.mem_filter, beq_iff_eq]
  constructor
  · rintro ⟨d, ⟨h1, h2⟩, h3⟩; exact ⟨d, h1, h2, h3⟩
  · rintro ⟨d, h1, h2, h3⟩; exact ⟨d, ⟨h1, h2⟩, h3⟩

theorem mem_portBitNames (ds : List Decl) (n : String) : n ∈ portBitNames ds ↔ ∃ d ∈ ds, d.kind ≠ .wire ∧ n ∈ d.names := by
  unfold portBitNames
  simp only [List.mem_flatMap, List.mem_filter, bne_iff_ne, ne_eq]
  constructor
  · rintro ⟨d, ⟨h1, h2⟩, h3⟩; exact ⟨d, h1, h2, h3⟩
  · rintro ⟨d, h1, h2, h3⟩; exact ⟨d, ⟨h1, h2⟩, h3⟩

theorem v_resolved_port (hok : VOK cfg tl ports stmts) (n : String) (hn : n ∈ portBitNames (sigDecls stmts)) (p : Nat) :
    (module cfg tl ports stmts).resolved (.cell n p) := by
  obtain ⟨d, hd, hk, hnd⟩ := (mem_portBitNames _ n).mp hn
  exact resolved_of_cell _ ⟨d.kind.str, n, false⟩ (portCell_mem hok d hd hk n hnd) p

theorem v_kindOf_input (hok : VOK cfg tl ports stmts) (n : String) (hn : n ∈ inputNames (sigDecls stmts)) (p : Nat) :
    (module cfg tl ports stmts).kindOf (.cell n p) = "input" := by
  obtain ⟨d, hd, hk, hnd⟩ := (mem_inputNames _ n).mp hn
  have := kindOf_cell _ (module_cells_nodup hok) ⟨d.kind.str, n, false⟩ (portCell_mem hok d hd (by rw [hk]; simp) n hnd) p
  rw [this, hk]; rfl

/-- driven signals and branch forks are fork nodes -/
theorem v_resolved_fork (_hok : VOK cfg tl ports stmts) (s : String) (hs : s ∈ drivenSigs tl (sigDecls stmts) stmts) :
    (module cfg tl ports stmts).resolved (.fork s) := by
  apply resolved_of_isFork
  exact (sub_after1_module cfg tl ports stmts).isFork (forksIn_afterPass1 tl ports stmts s hs)

theorem v_resolved_branch (hok : VOK cfg tl ports stmts) (hb : cfg.bf = true) (i : VInst) (hi : i ∈ vInsts stmts)
    (c : String × Nat × String) (hc : c ∈ inConn tl i) :
    (module cfg tl ports stmts).resolved (.fork (branchName c.2.2 i.name c.1)) := by
  apply resolved_of_isFork
  rw [isFork_iff]
  refine ⟨true, ?_⟩
  rw [module_nodes hok]
  unfold vNodes
  apply List.mem_append_right
  apply List.mem_flatMap.mpr
  refine ⟨i, hi, ?_⟩
  unfold p2Nodes
  apply List.mem_flatMap.mpr
  refine ⟨c, hc, ?_⟩
  simp [p2Nodes1, hb, branchN]

/-- every driver end point of a line is a node -/
theorem v_resolved_driver (hok : VOK cfg tl ports stmts) (t : VLine) (ht : t ∈ vFlat cfg tl (sigDecls stmts) stmts) :
    (module cfg tl ports stmts).resolved t.d := by
  rcases (mem_vFlat _ t).mp ht with ⟨i, hi, o, _, rfl⟩ | ⟨n, hn, rfl⟩ | ⟨i, hi, c, hc, htc⟩ | ⟨n, hn, rfl⟩
  · exact v_resolved_inst hok i hi _
  · exact v_resolved_port hok n (mem_portBitNames_of_input _ n hn) 0
  · have hcs : c.2.2 ∈ drivenSigs tl (sigDecls stmts) stmts := by
      have hp := List.all_eq_true.mp (List.all_eq_true.mp hok.pins i hi)
      unfold inConn at hc
      obtain ⟨ps, hps, hpc⟩ := List.mem_filterMap.mp hc
      have := hp ps hps
      unfold p2In at hpc
      unfold pinOK at this
      cases h1 : tl i.ty ps.1 with
      | none => rw [h1] at hpc; cases hpc
      | some v =>
        obtain ⟨idx, o⟩ := v
        cases o with
        | true => rw [h1] at hpc; cases hpc
        | false =>
          cases h2 : ps.2 with
          | many _ => rw [h1, h2] at hpc; cases hpc
          | one s =>
            rw [h1, h2] at hpc this
            simp only [Option.some.injEq] at hpc
            subst hpc
            simp only [Bool.and_eq_true, Bool.not_eq_true', List.contains_eq_mem, decide_eq_true_eq] at this
            exact this.2
    unfold readerLines at htc
    cases hb : cfg.bf
    · simp only [hb, Bool.false_eq_true, if_false, List.mem_singleton] at htc
      subst htc
      exact v_resolved_fork hok _ hcs
    · simp only [hb, if_true, List.mem_cons, List.not_mem_nil, or_false] at htc
      rcases htc with rfl | rfl
      · exact v_resolved_fork hok _ hcs
      · exact v_resolved_branch hok hb i hi c hc
  · exact v_resolved_fork hok n (hok.outs n hn)

/-! ## `io_nodes` -/

theorem module_ioNames (hok : VOK cfg tl ports stmts) :
    ioNames (module cfg tl ports stmts) = (posNames (sigDecls stmts) ports).map some := by
  apply ioNames_complete
  · intro p hp
    rw [io_module] at hp
    obtain ⟨d, _, hpd⟩ := List.mem_flatMap.mp hp
    unfold ioOfDecl at hpd
    split at hpd
    · cases hpd
    · obtain ⟨n, _, hpn⟩ := List.mem_flatMap.mp hpd
      unfold ioOfName at hpn
      split at hpn
      · rename_i k hk
        simp only [List.mem_singleton] at hpn
        subst hpn
        exact posOf_sound _ _ _ hk
      · cases hpn
  · intro i hi
    have hget : (posNames (sigDecls stmts) ports)[i]? = some (posNames (sigDecls stmts) ports)[i] := List.getElem?_eq_getElem hi
    refine ⟨(posNames (sigDecls stmts) ports)[i], ?_⟩
    rw [io_module]
    have hmem : (posNames (sigDecls stmts) ports)[i] ∈ posNames (sigDecls stmts) ports := List.getElem_mem hi
    have hmem' : (posNames (sigDecls stmts) ports)[i] ∈ ports.flatMap (fun p => match lookup (sigDecls stmts) p with
        | some d => d.names
        | none => []) := hmem
    obtain ⟨p, hp, hn⟩ := List.mem_flatMap.mp hmem'
    obtain ⟨d, hd, hk⟩ := hok.portsDecl p hp
    rw [hd] at hn
    apply List.mem_flatMap.mpr
    refine ⟨d, List.mem_of_find?_eq_some hd, ?_⟩
    unfold ioOfDecl
    have : (d.kind == DKind.wire) = false := by simp [hk]
    simp only [this, Bool.false_eq_true, if_false]
    apply List.mem_flatMap.mpr
    refine ⟨_, hn, ?_⟩
    unfold ioOfName
    rw [posOf_nodup _ hok.posNodup i _ hget]
    simp

theorem mem_posNames_port (hok : VOK cfg tl ports stmts) (n : String) (hn : n ∈ posNames (sigDecls stmts) ports) :
    n ∈ portBitNames (sigDecls stmts) := by
  have hmem' : n ∈ ports.flatMap (fun p => match lookup (sigDecls stmts) p with
      | some d => d.names
      | none => []) := hn
  obtain ⟨p, hp, hnp⟩ := List.mem_flatMap.mp hmem'
  obtain ⟨d, hd, hk⟩ := hok.portsDecl p hp
  rw [hd] at hnp
  exact (mem_portBitNames _ n).mpr ⟨d, List.mem_of_find?_eq_some hd, hk, hnp⟩

/-! ## `s_nodes` -/

theorem str_not_seq (k : DKind) : hasSub "dff" k.str.toLower = false ∧ hasSub "latch" k.str.toLower = false := by
  cases k <;> decide +kernel

theorem filter_portCells (P : String → Bool) (hP : ∀ k : DKind, P k.str = false) (ds : List Decl) :
    (ds.flatMap portCells).filter (fun x => P x.kind) = [] := by
  induction ds with
  | nil => rfl
  | cons d r ih =>
    simp only [List.flatMap_cons, List.filter_append, ih, List.append_nil]
    unfold portCells
    by_cases hw : d.kind == DKind.wire
    · simp [hw]
    · simp only [hw, Bool.false_eq_true, if_false]
      induction d.names with
      | nil => rfl
      | cons n r2 ih2 => simp [List.filter_cons, hP, ih2]

theorem verilogNet_sNodes (hok : VOK cfg tl ports stmts) :
    (verilogNet cfg tl ports stmts).sNodes = (vSNames ports stmts).map (module cfg tl ports stmts).nodeIdx := by
  unfold verilogNet
  rw [toNet_sNodes _ _ (module_cells_nodup hok), module_cells hok]
  unfold vSNames Circ.ioVerilog
  rw [module_ioNames hok]
  simp only [List.filter_append, filter_portCells (fun k => hasSub "dff" k.toLower) (fun k => (str_not_seq k).1),
    filter_portCells (fun k => hasSub "latch" k.toLower) (fun k => (str_not_seq k).2), List.append_nil, List.map_append,
    List.map_map, List.filter_map]
  rfl

theorem vSNames_resolved (hok : VOK cfg tl ports stmts) :
    ∀ e ∈ vSNames ports stmts, (module cfg tl ports stmts).resolved e ∧ e.rpin = 0 := by
  intro e he
  unfold vSNames at he
  simp only [List.mem_append, List.mem_map, List.mem_filter] at he
  rcases he with (⟨n, hn, rfl⟩ | ⟨i, ⟨hi, _⟩, rfl⟩) | ⟨i, ⟨hi, _⟩, rfl⟩
  · exact ⟨v_resolved_port hok n (mem_posNames_port hok n hn) 0, rfl⟩
  · exact ⟨v_resolved_inst hok i hi 0, rfl⟩
  · exact ⟨v_resolved_inst hok i hi 0, rfl⟩

theorem verilogNet_sPos (hok : VOK cfg tl ports stmts) (e : Ep) (he : (module cfg tl ports stmts).resolved e) (h0 : e.rpin = 0) :
    (verilogNet cfg tl ports stmts).sPos ((module cfg tl ports stmts).nodeIdx e) =
      if (vSNames ports stmts).contains e then some (vSPos ports stmts e) else none := by
  unfold Net.sPos
  rw [verilogNet_sNodes hok]
  exact sPosIn_names _ _ (vSNames_resolved hok) e he h0

theorem verilogNet_sPos_fork (hok : VOK cfg tl ports stmts) (s : String) (hs : (module cfg tl ports stmts).resolved (.fork s)) :
    (verilogNet cfg tl ports stmts).sPos ((module cfg tl ports stmts).nodeIdx (.fork s)) = none := by
  rw [verilogNet_sPos hok _ hs rfl]
  have : (vSNames ports stmts).contains (Ep.fork s) = false := by
    rw [Bool.eq_false_iff]
    intro h
    simp only [List.contains_eq_mem, decide_eq_true_eq] at h
    unfold vSNames at h
    simp only [List.mem_append, List.mem_map, List.mem_filter] at h
    rcases h with (⟨_, _, h⟩ | ⟨_, _, h⟩) | ⟨_, _, h⟩ <;> cases h
  rw [this]; rfl

theorem verilogNet_sPos_inst (hok : VOK cfg tl ports stmts) (i : VInst) (hi : i ∈ vInsts stmts) (p : Nat) :
    (verilogNet cfg tl ports stmts).sPos ((module cfg tl ports stmts).nodeIdx (.cell i.name p)) =
      if isSeqKind i.ty then some (vSPos ports stmts (.cell i.name 0)) else none := by
  rw [nodeIdx_cell_pin _ i.name p 0, verilogNet_sPos hok _ (v_resolved_inst hok i hi 0) rfl]
  have : (vSNames ports stmts).contains (Ep.cell i.name 0) = isSeqKind i.ty := by
    rw [Bool.eq_iff_iff]
    simp only [List.contains_eq_mem, decide_eq_true_eq]
    unfold vSNames isSeqKind
    simp only [List.mem_append, List.mem_map, List.mem_filter, Bool.or_eq_true]
    constructor
    · rintro ((⟨n, hn, h⟩ | ⟨j, ⟨hj, hd⟩, h⟩) | ⟨j, ⟨hj, hd⟩, h⟩)
      · simp only [Ep.cell.injEq, and_true] at h
        exact absurd h.symm (inst_not_port hok hi n (mem_posNames_port hok n hn))
      · simp only [Ep.cell.injEq, and_true] at h
        rw [← inst_eq hok hj hi h]; exact Or.inl hd
      · simp only [Ep.cell.injEq, and_true] at h
        rw [← inst_eq hok hj hi h]; exact Or.inr hd
    · rintro (h | h)
      · exact Or.inl (Or.inr ⟨i, ⟨hi, h⟩, rfl⟩)
      · exact Or.inr ⟨i, ⟨hi, h⟩, rfl⟩
  rw [this]

theorem verilogNet_sPos_input (hok : VOK cfg tl ports stmts) (n : String) (hn : n ∈ inputNames (sigDecls stmts)) :
    (verilogNet cfg tl ports stmts).sPos ((module cfg tl ports stmts).nodeIdx (.cell n 0)) = some (vSPos ports stmts (.cell n 0)) := by
  rw [verilogNet_sPos hok _ (v_resolved_port hok n (mem_portBitNames_of_input _ n hn) 0) rfl]
  have : (vSNames ports stmts).contains (Ep.cell n 0) = true := by
    simp only [List.contains_eq_mem, decide_eq_true_eq]
    unfold vSNames
    apply List.mem_append_left
    apply List.mem_append_left
    exact List.mem_map.mpr ⟨n, hok.declsInPorts n (mem_portBitNames_of_input _ n hn), rfl⟩
  rw [this]; rfl

end
end KV.Netlist
