import KyupyVerif.Proofs.VerilogLines
import KyupyVerif.Proofs.BenchCirc
/-! Nodes of a module of the fragment: its cells (`module_cells`), resolution and kinds of end points, `io_nodes` (`module_ioNames`,
the statement of `C11.ports_order`), `s_nodes` and positions (`verilogNet_sNodes`, `verilogNet_sPos_*`). -/
namespace KV.Netlist
open KV

def instCell (i : VInst) : NodeM := ⟨i.ty, i.name, false⟩
def portCells (d : Decl) : List NodeM := if d.kind == .wire then [] else d.names.map fun n => ⟨d.kind.str, n, false⟩

theorem filter_cells_map_fork {β} (l : List β) (f : β → String) (b : Bool) :
    (l.map fun x => (⟨forkKind, f x, b⟩ : NodeM)).filter (fun x => x.kind != forkKind) = [] := by
  induction l with
  | nil => rfl
  | cons a r ih => simp [List.filter_cons, ih]

theorem str_ne_fork (k : DKind) : (k.str != forkKind) = true := by cases k <;> decide +kernel

theorem cells_portNodes (d : Decl) : (portNodes d).filter (fun x => x.kind != forkKind) = portCells d := by
  unfold portNodes portCells
  by_cases hw : d.kind == DKind.wire
  · simp [hw]
  · simp only [hw, Bool.false_eq_true, if_false]
    induction d.names with
    | nil => rfl
    | cons n r ih =>
      simp only [List.flatMap_cons, List.filter_append, ih, List.map_cons]
      unfold portNodes1
      by_cases hi : d.kind == DKind.input
      · simp [hi, List.filter_cons, str_ne_fork, forkN]
      · simp [hi, List.filter_cons, str_ne_fork]

section
variable {cfg : Cfg} {tl : TL} {ports : List String} {stmts : List Stmt}

/-! ### generic facts about `walk` -/
universe w1 w2 w3 w4

theorem walk_congr {α : Type w1} {β : Type w2} {σ : Type w4} (next : σ → α → σ) (f f' : σ → α → List β) (h : ∀ st x, f st x = f' st x)
    (st : σ) (l : List α) : walk next f st l = walk next f' st l := by
  induction l generalizing st with
  | nil => rfl
  | cons a r ih => simp only [walk, h, ih]

theorem walk_filter_map {α : Type w1} {β : Type w2} {γ : Type w3} {σ : Type w4} (next : σ → α → σ) (f : σ → α → List β) (p : β → Bool)
    (g : β → γ) (st : σ) (l : List α) :
    ((walk next f st l).filter p).map g = walk next (fun st x => ((f st x).filter p).map g) st l := by
  induction l generalizing st with
  | nil => rfl
  | cons a r ih => simp only [walk, List.filter_append, List.map_append, ih]

theorem mem_walk_all {α β σ : Type} (next : σ → α → σ) (f : σ → α → List β) (st : σ) (l : List α) (t : β) (h : t ∈ walk next f st l) :
    ∃ st' x, x ∈ l ∧ t ∈ f st' x ∧ ∀ {γ : Type} (g : σ → α → List γ) (n : γ), n ∈ g st' x → n ∈ walk next g st l := by
  obtain ⟨pre, x, post, rfl, ht⟩ := (mem_walk next f st l t).mp h
  exact ⟨_, x, by simp, ht, fun g n hn => (mem_walk next g st _ n).mpr ⟨pre, x, post, rfl, hn⟩⟩

theorem mem_connWalk_all {β : Type} (tl : TL) (f : Nat → VInst × (String × Nat × String) → List β) (k0 : Nat) (insts : List VInst) (t : β)
    (h : t ∈ connWalk tl f k0 insts) :
    ∃ k i c, i ∈ insts ∧ c ∈ inConn tl i ∧ t ∈ f k (i, c) ∧
      ∀ {γ : Type} (g : Nat → VInst × (String × Nat × String) → List γ) (n : γ), n ∈ g k (i, c) → n ∈ connWalk tl g k0 insts := by
  unfold connWalk at h
  obtain ⟨k1, i, hi, h1, h2⟩ := mem_walk_all _ _ _ _ _ h
  obtain ⟨k2, c, hc, h3, h4⟩ := mem_walk_all _ _ _ _ _ h1
  refine ⟨k2, i, c, hi, hc, h3, fun g n hn => ?_⟩
  unfold connWalk
  exact h2 (fun k i => walk (fun k c => nextK k c.2.2) (fun k c => g k (i, c)) k (inConn tl i)) n (h4 (fun k c => g k (i, c)) n hn)

/-- a non-constant assign source is a fork when its pair is visited: a driven signal -/
theorem assignsOK_src : ∀ (pairs : List (String × String)) (F : List String), assignsOK F pairs = true →
    ∀ ts ∈ pairs, isConstLit ts.2 = false → ts.2 ∈ F ++ pairs.map (·.1)
  | [], _, _, _, h, _ => by cases h
  | p :: r, F, hok, ts, hts, hl => by
    obtain ⟨_, _, h2, h3⟩ := assignsOK_cons F p r hok
    rcases List.mem_cons.mp hts with rfl | hts
    · rcases h2 with h2 | h2
      · rw [h2] at hl; cases hl
      · exact List.mem_append_left _ (by simpa using h2.2)
    · have := assignsOK_src r (F ++ [p.1]) h3 ts hts hl
      simp only [List.map_cons, List.mem_append, List.mem_cons, List.mem_singleton, List.not_mem_nil, or_false] at this ⊢
      rcases this with (h | h) | h
      · exact Or.inl h
      · exact Or.inr (Or.inl h)
      · exact Or.inr (Or.inr h)

/-- the constant cells -/
def constCells (cfg : Cfg) (tl : TL) (ds : List Decl) (stmts : List Stmt) : List NodeM :=
  (walk (fun k ts => nextK k ts.2) pairNodes 0 (assignPairs ds stmts)).filter (fun x => x.kind != forkKind) ++
  (connWalk tl (connNodes cfg.bf) ((assignPairs ds stmts).foldl (fun k ts => nextK k ts.2) 0) (vInsts stmts)).filter
    (fun x => x.kind != forkKind)

theorem module_cells (hok : VOK cfg tl ports stmts) :
    cellsOf (module cfg tl ports stmts) =
      (vInsts stmts).map instCell ++ (sigDecls stmts).flatMap portCells ++ constCells cfg tl (sigDecls stmts) stmts := by
  unfold cellsOf
  rw [module_nodes hok]
  unfold vNodes constCells
  rw [List.filter_append, List.filter_append, List.filter_append]
  have h1 : ∀ (l : List VInst), (∀ i ∈ l, i.ty ≠ forkKind) →
      (l.flatMap (p1Nodes tl (sigDecls stmts))).filter (fun x => x.kind != forkKind) = l.map instCell := by
    intro l
    induction l with
    | nil => intro _; rfl
    | cons i r ih =>
      intro hk
      simp only [List.flatMap_cons, List.filter_append, List.map_cons]
      rw [ih (fun j hj => hk j (List.mem_cons_of_mem _ hj))]
      unfold p1Nodes
      have hki : i.ty ≠ forkKind := hk i List.mem_cons_self
      simp only [List.filter_cons, bne_iff_ne, ne_eq, hki, not_false_eq_true, if_true]
      have := filter_cells_map_fork (outConn tl (sigDecls stmts) i) (fun o => o.2) false
      unfold forkN
      rw [this]
      rfl
  have h2 : ∀ (l : List Decl), (l.flatMap portNodes).filter (fun x => x.kind != forkKind) = l.flatMap portCells := by
    intro l
    induction l with
    | nil => rfl
    | cons d r ih => simp only [List.flatMap_cons, List.filter_append, ih, cells_portNodes]
  rw [h1 _ hok.kinds, h2]
  simp only [List.append_assoc]

theorem pairNodes_cells (k : Nat) (ts : String × String) :
    ((pairNodes k ts).filter (fun x => x.kind != forkKind)).map (·.name) = if isConstLit ts.2 then [constName ts.2 k] else [] := by
  unfold pairNodes
  by_cases hc : isConstLit ts.2 = true
  · have := constKind_ne_fork _ hc
    simp [hc, List.filter_cons, forkN, this]
  · simp [hc, List.filter_cons, forkN]

theorem connNodes_cells (bf : Bool) (k : Nat) (ic : VInst × (String × Nat × String)) :
    ((connNodes bf k ic).filter (fun x => x.kind != forkKind)).map (·.name) =
      if isConstLit ic.2.2.2 then [constName ic.2.2.2 k] else [] := by
  unfold connNodes
  by_cases hc : isConstLit ic.2.2.2 = true
  · have := constKind_ne_fork _ hc
    cases bf <;> simp [hc, List.filter_cons, forkN, branchN, this]
  · cases bf <;> simp [hc, List.filter_cons, forkN, branchN]

theorem constCells_names (cfg : Cfg) (tl : TL) (ds : List Decl) (stmts : List Stmt) :
    (constCells cfg tl ds stmts).map (·.name) = constNames tl ds stmts := by
  unfold constCells constNames connWalk
  rw [List.map_append, walk_filter_map, walk_filter_map]
  congr 1
  · exact walk_congr _ _ _ (fun k ts => pairNodes_cells k ts) _ _
  · apply walk_congr
    intro k i
    rw [walk_filter_map]
    exact walk_congr _ _ _ (fun k c => connNodes_cells cfg.bf k (i, c)) _ _

/-- a constant cell has kind `__const0__` or `__const1__` -/
theorem constCells_kind (cfg : Cfg) (tl : TL) (ds : List Decl) (stmts : List Stmt) (x : NodeM) (hx : x ∈ constCells cfg tl ds stmts) :
    ∃ s, isConstLit s = true ∧ x.kind = constKind s := by
  unfold constCells at hx
  rcases List.mem_append.mp hx with h | h
  · rw [List.mem_filter] at h
    obtain ⟨k, ts, _, hn⟩ := mem_walk_exists _ _ _ _ _ h.1
    unfold pairNodes at hn
    by_cases hc : isConstLit ts.2 = true
    · simp only [hc, if_true, List.mem_cons, List.not_mem_nil, or_false] at hn
      rcases hn with rfl | rfl
      · exact ⟨ts.2, hc, rfl⟩
      · simp [forkN] at h
    · simp only [hc, Bool.false_eq_true, if_false, List.mem_singleton] at hn
      subst hn
      simp [forkN] at h
  · rw [List.mem_filter] at h
    obtain ⟨k, i, _, c, _, hn⟩ := mem_connWalk _ _ _ _ h.1
    unfold connNodes at hn
    rcases List.mem_append.mp hn with hn | hn
    · by_cases hc : isConstLit c.2.2 = true
      · simp only [hc, if_true, List.mem_cons, List.not_mem_nil, or_false] at hn
        rcases hn with rfl | rfl
        · exact ⟨c.2.2, hc, rfl⟩
        · simp [forkN] at h
      · simp [hc] at hn
    · cases hb : cfg.bf
      · simp [hb] at hn
      · simp only [hb, if_true, List.mem_singleton] at hn
        subst hn
        simp [branchN] at h

theorem portCells_names (ds : List Decl) : (ds.flatMap portCells).map (·.name) = portBitNames ds := by
  unfold portBitNames
  induction ds with
  | nil => rfl
  | cons d r ih =>
    simp only [List.flatMap_cons, List.map_append, ih, List.filter_cons]
    unfold portCells
    by_cases hw : d.kind = DKind.wire
    · simp [hw]
    · simp [hw, List.map_map, Function.comp_def]

theorem module_cells_nodup (hok : VOK cfg tl ports stmts) : ((cellsOf (module cfg tl ports stmts)).map (·.name)).Nodup := by
  rw [module_cells hok, List.map_append, List.map_append, portCells_names, List.map_map, constCells_names]
  exact hok.cells

theorem instCell_mem (hok : VOK cfg tl ports stmts) (i : VInst) (hi : i ∈ vInsts stmts) :
    instCell i ∈ cellsOf (module cfg tl ports stmts) := by
  rw [module_cells hok]
  exact List.mem_append_left _ (List.mem_append_left _ (List.mem_map.mpr ⟨i, hi, rfl⟩))

theorem portCell_mem (hok : VOK cfg tl ports stmts) (d : Decl) (hd : d ∈ sigDecls stmts) (hk : d.kind ≠ .wire) (n : String)
    (hn : n ∈ d.names) : (⟨d.kind.str, n, false⟩ : NodeM) ∈ cellsOf (module cfg tl ports stmts) := by
  rw [module_cells hok]
  apply List.mem_append_left
  apply List.mem_append_right
  apply List.mem_flatMap.mpr
  refine ⟨d, hd, ?_⟩
  unfold portCells
  have : (d.kind == DKind.wire) = false := by simp [hk]
  simp only [this, Bool.false_eq_true, if_false]
  exact List.mem_map.mpr ⟨n, hn, rfl⟩

theorem v_resolved_inst (hok : VOK cfg tl ports stmts) (i : VInst) (hi : i ∈ vInsts stmts) (p : Nat) :
    (module cfg tl ports stmts).resolved (.cell i.name p) :=
  resolved_of_cell _ (instCell i) (instCell_mem hok i hi) p

theorem v_kindOf_inst (hok : VOK cfg tl ports stmts) (i : VInst) (hi : i ∈ vInsts stmts) (p : Nat) :
    (module cfg tl ports stmts).kindOf (.cell i.name p) = i.ty :=
  kindOf_cell _ (module_cells_nodup hok) (instCell i) (instCell_mem hok i hi) p

theorem mem_inputNames (ds : List Decl) (n : String) : n ∈ inputNames ds ↔ ∃ d ∈ ds, d.kind = .input ∧ n ∈ d.names := by
  unfold inputNames
  simp only [List.mem_flatMap, List.mem_filter, beq_iff_eq]
  constructor
  · rintro ⟨d, ⟨h1, h2⟩, h3⟩; exact ⟨d, h1, h2, h3⟩
  · rintro ⟨d, h1, h2, h3⟩; exact ⟨d, ⟨h1, h2⟩, h3⟩

theorem mem_outputNames (ds : List Decl) (n : String) : n ∈ outputNames ds ↔ ∃ d ∈ ds, d.kind = .output ∧ n ∈ d.names := by
  unfold outputNames
  simp only [List.mem_flatMap, List.mem_filter, beq_iff_eq]
  constructor
  · rintro ⟨d, ⟨h1, h2⟩, h3⟩; exact ⟨d, h1, h2, h3⟩
  · rintro ⟨d, h1, h2, h3⟩; exact ⟨d, ⟨h1, h2⟩, h3⟩

theorem mem_portBitNames (ds : List Decl) (n : String) : n ∈ portBitNames ds ↔ ∃ d ∈ ds, d.kind ≠ .wire ∧ n ∈ d.names := by
  unfold portBitNames
  simp only [List.mem_flatMap, List.mem_filter, bne_iff_ne, ne_eq]
  constructor
  · rintro ⟨d, ⟨h1, h2⟩, h3⟩; exact ⟨d, h1, h2, h3⟩
  · rintro ⟨d, h1, h2, h3⟩; exact ⟨d, ⟨h1, h2⟩, h3⟩

theorem v_resolved_port (hok : VOK cfg tl ports stmts) (n : String) (hn : n ∈ portBitNames (sigDecls stmts)) (p : Nat) :
    (module cfg tl ports stmts).resolved (.cell n p) := by
  obtain ⟨d, hd, hk, hnd⟩ := (mem_portBitNames _ n).mp hn
  exact resolved_of_cell _ ⟨d.kind.str, n, false⟩ (portCell_mem hok d hd hk n hnd) p

theorem v_kindOf_input (hok : VOK cfg tl ports stmts) (n : String) (hn : n ∈ inputNames (sigDecls stmts)) (p : Nat) :
    (module cfg tl ports stmts).kindOf (.cell n p) = "input" := by
  obtain ⟨d, hd, hk, hnd⟩ := (mem_inputNames _ n).mp hn
  have := kindOf_cell _ (module_cells_nodup hok) ⟨d.kind.str, n, false⟩ (portCell_mem hok d hd (by rw [hk]; simp) n hnd) p
  rw [this, hk]; rfl

/-- driven signals are fork nodes -/
theorem v_resolved_fork (hok : VOK cfg tl ports stmts) (s : String) (hs : s ∈ drivenSigs tl (sigDecls stmts) stmts) :
    (module cfg tl ports stmts).resolved (.fork s) := by
  apply resolved_of_isFork
  rw [drivenSigs_eq] at hs
  rcases List.mem_append.mp hs with h | h
  · apply (sub_after1_module cfg tl ports stmts).isFork
    rw [forksAre_afterPass1 tl ports stmts hok.kinds s]
    simpa using h
  · obtain ⟨ts, hts, rfl⟩ := List.mem_map.mp h
    rw [isFork_iff]
    refine ⟨false, ?_⟩
    rw [module_nodes hok]
    unfold vNodes
    apply List.mem_append_left
    apply List.mem_append_right
    obtain ⟨k, hk⟩ := walk_of_mem (fun k (ts : String × String) => nextK k ts.2) pairNodes 0 _ ts hts
    apply hk
    unfold pairNodes
    split <;> simp [forkN]

theorem resolved_of_fork_node (C : Circ) (f : String) (b : Bool) (h : (⟨forkKind, f, b⟩ : NodeM) ∈ C.nodes) : C.resolved (.fork f) :=
  resolved_of_isFork C f ((isFork_iff C f).mpr ⟨b, h⟩)

theorem pairNodes_in_module (hok : VOK cfg tl ports stmts) (n : NodeM)
    (h : n ∈ walk (fun k ts => nextK k ts.2) pairNodes 0 (assignPairs (sigDecls stmts) stmts)) : n ∈ (module cfg tl ports stmts).nodes := by
  rw [module_nodes hok]
  unfold vNodes
  exact List.mem_append_left _ (List.mem_append_right _ h)

theorem connNodes_in_module (hok : VOK cfg tl ports stmts) (n : NodeM)
    (h : n ∈ connWalk tl (connNodes cfg.bf) ((assignPairs (sigDecls stmts) stmts).foldl (fun k ts => nextK k ts.2) 0) (vInsts stmts)) :
    n ∈ (module cfg tl ports stmts).nodes := by
  rw [module_nodes hok]
  unfold vNodes
  exact List.mem_append_right _ h

/-- what one step of pass 1.5 contributed, all with the same `const_count` -/
structure PairStep (cfg : Cfg) (tl : TL) (ports : List String) (stmts : List Stmt) (k : Nat) (ts : String × String) : Prop where
  mem : ts ∈ assignPairs (sigDecls stmts) stmts
  lines : ∀ t ∈ pairLines k ts, t ∈ vFlat cfg tl (sigDecls stmts) stmts
  nodes : ∀ n ∈ pairNodes k ts, n ∈ (module cfg tl ports stmts).nodes
  cname : isConstLit ts.2 = true → constName ts.2 k ∈ constNames tl (sigDecls stmts) stmts

/-- what one input-pin connection of pass 2 contributed -/
structure ConnStep (cfg : Cfg) (tl : TL) (ports : List String) (stmts : List Stmt) (k : Nat) (i : VInst) (c : String × Nat × String) :
    Prop where
  memI : i ∈ vInsts stmts
  memC : c ∈ inConn tl i
  lines : ∀ t ∈ connLines cfg.bf k (i, c), t ∈ vFlat cfg tl (sigDecls stmts) stmts
  nodes : ∀ n ∈ connNodes cfg.bf k (i, c), n ∈ (module cfg tl ports stmts).nodes
  cname : isConstLit c.2.2 = true → constName c.2.2 k ∈ constNames tl (sigDecls stmts) stmts

/-- membership in `vFlat`, step by step -/
theorem mem_vFlat_step (hok : VOK cfg tl ports stmts) (t : VLine) (h : t ∈ vFlat cfg tl (sigDecls stmts) stmts) :
    (∃ i ∈ vInsts stmts, ∃ o ∈ outConn tl (sigDecls stmts) i, t = ⟨.cell i.name o.1, .fork o.2, o.2⟩) ∨
    (∃ n ∈ inputNames (sigDecls stmts), t = ⟨.cell n 0, .fork n, n⟩) ∨
    (∃ k ts, PairStep cfg tl ports stmts k ts ∧ t ∈ pairLines k ts) ∨
    (∃ k i c, ConnStep cfg tl ports stmts k i c ∧ t ∈ connLines cfg.bf k (i, c)) ∨
    (∃ n ∈ outputNames (sigDecls stmts), t = ⟨.fork n, .cell n 0, n⟩) := by
  unfold vFlat at h
  simp only [List.mem_append, List.mem_flatMap, List.mem_map] at h
  rcases h with (((⟨i, hi, o, ho, rfl⟩ | ⟨n, hn, rfl⟩) | hp) | hc) | ⟨n, hn, rfl⟩
  · exact Or.inl ⟨i, hi, o, ho, rfl⟩
  · exact Or.inr (Or.inl ⟨n, hn, rfl⟩)
  · obtain ⟨k, ts, hts, ht, hall⟩ := mem_walk_all _ _ _ _ _ hp
    refine Or.inr (Or.inr (Or.inl ⟨k, ts, ⟨hts, fun t' ht' => ?_, fun n hn => pairNodes_in_module hok n (hall pairNodes n hn), fun hc => ?_⟩, ht⟩))
    · unfold vFlat
      simp only [List.mem_append]
      exact Or.inl (Or.inl (Or.inr (hall pairLines t' ht')))
    · unfold constNames
      apply List.mem_append_left
      exact hall (fun k (ts : String × String) => if isConstLit ts.2 then [constName ts.2 k] else []) _ (by simp [hc])
  · obtain ⟨k, i, c, hi, hcc, ht, hall⟩ := mem_connWalk_all tl _ _ _ _ hc
    refine Or.inr (Or.inr (Or.inr (Or.inl ⟨k, i, c, ⟨hi, hcc, fun t' ht' => ?_,
      fun n hn => connNodes_in_module hok n (hall (connNodes cfg.bf) n hn), fun hl => ?_⟩, ht⟩)))
    · unfold vFlat
      simp only [List.mem_append]
      exact Or.inl (Or.inr (hall (connLines cfg.bf) t' ht'))
    · unfold constNames
      apply List.mem_append_right
      exact hall (fun k (ic : VInst × (String × Nat × String)) => if isConstLit ic.2.2.2 then [constName ic.2.2.2 k] else []) _ (by simp [hl])
  · exact Or.inr (Or.inr (Or.inr (Or.inr ⟨n, hn, rfl⟩)))

/-- a constant cell made by some step: resolved, with its kind -/
theorem v_const_cell (hok : VOK cfg tl ports stmts) (s : String) (k : Nat) (hc : isConstLit s = true)
    (hn : (⟨constKind s, constName s k, false⟩ : NodeM) ∈ (module cfg tl ports stmts).nodes) (p : Nat) :
    (module cfg tl ports stmts).resolved (.cell (constName s k) p) ∧ (module cfg tl ports stmts).kindOf (.cell (constName s k) p) = constKind s := by
  have hmem : (⟨constKind s, constName s k, false⟩ : NodeM) ∈ cellsOf (module cfg tl ports stmts) := by
    unfold cellsOf
    exact List.mem_filter.mpr ⟨hn, by simp [constKind_ne_fork s hc]⟩
  exact ⟨resolved_of_cell _ _ hmem p, kindOf_cell _ (module_cells_nodup hok) _ hmem p⟩

/-- the signal read on a connected input pin is a constant bit or driven -/
theorem inConn_ok (hok : VOK cfg tl ports stmts) (i : VInst) (hi : i ∈ vInsts stmts) (c : String × Nat × String)
    (hc : c ∈ inConn tl i) : isConstLit c.2.2 = true ∨ (isConstLit c.2.2 = false ∧ c.2.2 ∈ drivenSigs tl (sigDecls stmts) stmts) := by
  have hp := List.all_eq_true.mp (List.all_eq_true.mp hok.pins i hi)
  unfold inConn at hc
  obtain ⟨ps, hps, hpc⟩ := List.mem_filterMap.mp hc
  have := hp ps hps
  unfold p2In at hpc
  unfold pinOK at this
  cases h1 : tl i.ty ps.1 with
  | none => rw [h1] at hpc; cases hpc
  | some v =>
    obtain ⟨idx, o⟩ := v
    cases o with
    | true => rw [h1] at hpc; cases hpc
    | false =>
      cases h2 : ps.2 with
      | many _ => rw [h1, h2] at hpc; cases hpc
      | one s =>
        rw [h1, h2] at hpc this
        simp only [Option.some.injEq] at hpc
        subst hpc
        simp only [Bool.or_eq_true, Bool.and_eq_true, Bool.not_eq_true', List.contains_eq_mem, decide_eq_true_eq] at this
        by_cases hl : isConstLit s = true
        · exact Or.inl hl
        · rcases this with h | h
          · exact absurd h hl
          · exact Or.inr ⟨by simpa using hl, h.2⟩

/-- the source fork of a connection is a node -/
theorem v_resolved_src (hok : VOK cfg tl ports stmts) (k : Nat) (i : VInst) (hi : i ∈ vInsts stmts) (c : String × Nat × String)
    (hc : c ∈ inConn tl i) (hn : ∀ n ∈ connNodes cfg.bf k (i, c), n ∈ (module cfg tl ports stmts).nodes) :
    (module cfg tl ports stmts).resolved (.fork (srcFork k c)) := by
  unfold srcFork
  rcases inConn_ok hok i hi c hc with hl | ⟨hl, hd⟩
  · simp only [hl, if_true]
    apply resolved_of_fork_node _ _ false
    apply hn
    unfold connNodes
    simp [hl, forkN]
  · simp only [hl, Bool.false_eq_true, if_false]
    exact v_resolved_fork hok _ hd

theorem v_resolved_branch (hb : cfg.bf = true) (k : Nat) (i : VInst) (c : String × Nat × String)
    (hn : ∀ n ∈ connNodes cfg.bf k (i, c), n ∈ (module cfg tl ports stmts).nodes) :
    (module cfg tl ports stmts).resolved (.fork (branchName (srcFork k c) i.name c.1)) := by
  apply resolved_of_fork_node _ _ true
  apply hn
  unfold connNodes
  simp [hb, branchN]

/-- every driver end point of a line is a node -/
theorem v_resolved_driver (hok : VOK cfg tl ports stmts) (t : VLine) (ht : t ∈ vFlat cfg tl (sigDecls stmts) stmts) :
    (module cfg tl ports stmts).resolved t.d := by
  rcases mem_vFlat_step hok t ht with ⟨i, hi, o, _, rfl⟩ | ⟨n, hn, rfl⟩ | ⟨k, ts, hst, htp⟩ | ⟨k, i, c, hst, htc⟩ | ⟨n, hn, rfl⟩
  · exact v_resolved_inst hok i hi _
  · exact v_resolved_port hok n (mem_portBitNames_of_input _ n hn) 0
  · unfold pairLines at htp
    by_cases hcl : isConstLit ts.2 = true
    · simp only [hcl, if_true, List.mem_singleton] at htp
      subst htp
      exact (v_const_cell hok ts.2 k hcl (hst.nodes _ (by unfold pairNodes; simp [hcl])) 0).1
    · simp only [hcl, Bool.false_eq_true, if_false, List.mem_singleton] at htp
      subst htp
      have hsd : ts.2 ∈ drivenSigs tl (sigDecls stmts) stmts := by
        rw [drivenSigs_eq]
        exact assignsOK_src _ _ hok.assigns ts hst.mem (by simpa using hcl)
      exact v_resolved_fork hok _ hsd
  · rcases (mem_connLines cfg.bf k i c t).mp htc with ⟨hl, rfl⟩ | ⟨hb, rfl | rfl⟩ | ⟨_, rfl⟩
    · exact (v_const_cell hok c.2.2 k hl (hst.nodes _ (by unfold connNodes; simp [hl])) 0).1
    · exact v_resolved_src hok k i hst.memI c hst.memC hst.nodes
    · exact v_resolved_branch hb k i c hst.nodes
    · exact v_resolved_src hok k i hst.memI c hst.memC hst.nodes
  · exact v_resolved_fork hok n (hok.outs n hn)

/-- a constant cell is no instance and no port cell: no line ends in it -/
theorem no_line_into_const (hok : VOK cfg tl ports stmts) (cn : String) (hcn : cn ∈ constNames tl (sigDecls stmts) stmts) (p : Nat)
    (t : VLine) (ht : t ∈ vFlat cfg tl (sigDecls stmts) stmts) : t.r ≠ .cell cn p := by
  intro hr
  obtain ⟨h1, _, h3⟩ := List.nodup_append.mp hok.cells
  rcases mem_vFlat _ t ht with ⟨_, _, _, _, rfl⟩ | ⟨_, _, rfl⟩ | ⟨kk, ts, _, htp⟩ | ⟨kk, j, hj, c, hc, htc⟩ | ⟨n, hn, rfl⟩
  · cases hr
  · cases hr
  · unfold pairLines at htp
    split at htp <;> (simp only [List.mem_singleton] at htp; subst htp; cases hr)
  · rcases (mem_connLines cfg.bf kk j c t).mp htc with ⟨_, rfl⟩ | ⟨_, rfl | rfl⟩ | ⟨_, rfl⟩
    · cases hr
    · cases hr
    · simp only [Ep.cell.injEq] at hr
      exact h3 j.name (List.mem_append_left _ (List.mem_map.mpr ⟨j, hj, rfl⟩)) cn hcn hr.1
    · simp only [Ep.cell.injEq] at hr
      exact h3 j.name (List.mem_append_left _ (List.mem_map.mpr ⟨j, hj, rfl⟩)) cn hcn hr.1
  · simp only [Ep.cell.injEq] at hr
    exact h3 n (List.mem_append_right _ (mem_portBitNames_of_output _ n hn)) cn hcn hr.1

/-! ## `io_nodes` -/

theorem module_ioNames (hok : VOK cfg tl ports stmts) :
    ioNames (module cfg tl ports stmts) = (posNames (sigDecls stmts) ports).map some := by
  apply ioNames_complete
  · intro p hp
    rw [io_module] at hp
    obtain ⟨d, _, hpd⟩ := List.mem_flatMap.mp hp
    unfold ioOfDecl at hpd
    split at hpd
    · cases hpd
    · obtain ⟨n, _, hpn⟩ := List.mem_flatMap.mp hpd
      unfold ioOfName at hpn
      split at hpn
      · rename_i k hk
        simp only [List.mem_singleton] at hpn
        subst hpn
        exact posOf_sound _ _ _ hk
      · cases hpn
  · intro i hi
    have hget : (posNames (sigDecls stmts) ports)[i]? = some (posNames (sigDecls stmts) ports)[i] := List.getElem?_eq_getElem hi
    refine ⟨(posNames (sigDecls stmts) ports)[i], ?_⟩
    rw [io_module]
    have hmem : (posNames (sigDecls stmts) ports)[i] ∈ posNames (sigDecls stmts) ports := List.getElem_mem hi
    have hmem' : (posNames (sigDecls stmts) ports)[i] ∈ ports.flatMap (fun p => match lookup (sigDecls stmts) p with
        | some d => d.names
        | none => []) := hmem
    obtain ⟨p, hp, hn⟩ := List.mem_flatMap.mp hmem'
    obtain ⟨d, hd, hk⟩ := hok.portsDecl p hp
    rw [hd] at hn
    apply List.mem_flatMap.mpr
    refine ⟨d, List.mem_of_find?_eq_some hd, ?_⟩
    unfold ioOfDecl
    have : (d.kind == DKind.wire) = false := by simp [hk]
    simp only [this, Bool.false_eq_true, if_false]
    apply List.mem_flatMap.mpr
    refine ⟨_, hn, ?_⟩
    unfold ioOfName
    rw [posOf_nodup _ hok.posNodup i _ hget]
    simp

theorem mem_posNames_port (hok : VOK cfg tl ports stmts) (n : String) (hn : n ∈ posNames (sigDecls stmts) ports) :
    n ∈ portBitNames (sigDecls stmts) := by
  have hmem' : n ∈ ports.flatMap (fun p => match lookup (sigDecls stmts) p with
      | some d => d.names
      | none => []) := hn
  obtain ⟨p, hp, hnp⟩ := List.mem_flatMap.mp hmem'
  obtain ⟨d, hd, hk⟩ := hok.portsDecl p hp
  rw [hd] at hnp
  exact (mem_portBitNames _ n).mpr ⟨d, List.mem_of_find?_eq_some hd, hk, hnp⟩

/-- position: a constant cell is no interface node -/
theorem const_not_sname (hok : VOK cfg tl ports stmts) (cn : String) (hcn : cn ∈ constNames tl (sigDecls stmts) stmts) :
    (vSNames ports stmts).contains (Ep.cell cn 0) = false := by
  obtain ⟨h1, _, h3⟩ := List.nodup_append.mp hok.cells
  rw [Bool.eq_false_iff]
  intro h
  simp only [List.contains_eq_mem, decide_eq_true_eq] at h
  unfold vSNames at h
  simp only [List.mem_append, List.mem_map, List.mem_filter] at h
  rcases h with (⟨n, hn, h⟩ | ⟨j, ⟨hj, _⟩, h⟩) | ⟨j, ⟨hj, _⟩, h⟩
  · simp only [Ep.cell.injEq, and_true] at h
    exact h3 n (List.mem_append_right _ (mem_posNames_port hok n hn)) cn hcn h
  · simp only [Ep.cell.injEq, and_true] at h
    exact h3 j.name (List.mem_append_left _ (List.mem_map.mpr ⟨j, hj, rfl⟩)) cn hcn h
  · simp only [Ep.cell.injEq, and_true] at h
    exact h3 j.name (List.mem_append_left _ (List.mem_map.mpr ⟨j, hj, rfl⟩)) cn hcn h

/-! ## `s_nodes` -/

theorem str_not_seq (k : DKind) : hasSub "dff" k.str.toLower = false ∧ hasSub "latch" k.str.toLower = false := by
  cases k <;> decide +kernel

theorem filter_portCells (P : String → Bool) (hP : ∀ k : DKind, P k.str = false) (ds : List Decl) :
    (ds.flatMap portCells).filter (fun x => P x.kind) = [] := by
  induction ds with
  | nil => rfl
  | cons d r ih =>
    simp only [List.flatMap_cons, List.filter_append, ih, List.append_nil]
    unfold portCells
    by_cases hw : d.kind == DKind.wire
    · simp [hw]
    · simp only [hw, Bool.false_eq_true, if_false]
      induction d.names with
      | nil => rfl
      | cons n r2 ih2 => simp [List.filter_cons, hP, ih2]

theorem verilogNet_sNodes (hok : VOK cfg tl ports stmts) :
    (verilogNet cfg tl ports stmts).sNodes = (vSNames ports stmts).map (module cfg tl ports stmts).nodeIdx := by
  unfold verilogNet
  rw [toNet_sNodes _ _ (module_cells_nodup hok), module_cells hok]
  unfold vSNames Circ.ioVerilog
  rw [module_ioNames hok]
  have hc1 : (constCells cfg tl (sigDecls stmts) stmts).filter (fun x => hasSub "dff" x.kind.toLower) = [] := by
    rw [List.filter_eq_nil_iff]
    intro x hx
    obtain ⟨s, hs, hk⟩ := constCells_kind cfg tl _ stmts x hx
    rw [hk]
    unfold isConstLit at hs
    simp only [Bool.or_eq_true, beq_iff_eq] at hs
    rcases hs with rfl | rfl <;> decide +kernel
  have hc2 : (constCells cfg tl (sigDecls stmts) stmts).filter (fun x => hasSub "latch" x.kind.toLower) = [] := by
    rw [List.filter_eq_nil_iff]
    intro x hx
    obtain ⟨s, hs, hk⟩ := constCells_kind cfg tl _ stmts x hx
    rw [hk]
    unfold isConstLit at hs
    simp only [Bool.or_eq_true, beq_iff_eq] at hs
    rcases hs with rfl | rfl <;> decide +kernel
  simp only [List.filter_append, filter_portCells (fun k => hasSub "dff" k.toLower) (fun k => (str_not_seq k).1),
    filter_portCells (fun k => hasSub "latch" k.toLower) (fun k => (str_not_seq k).2), hc1, hc2, List.append_nil, List.map_append,
    List.map_map, List.filter_map]
  rfl

theorem vSNames_resolved (hok : VOK cfg tl ports stmts) :
    ∀ e ∈ vSNames ports stmts, (module cfg tl ports stmts).resolved e ∧ e.rpin = 0 := by
  intro e he
  unfold vSNames at he
  simp only [List.mem_append, List.mem_map, List.mem_filter] at he
  rcases he with (⟨n, hn, rfl⟩ | ⟨i, ⟨hi, _⟩, rfl⟩) | ⟨i, ⟨hi, _⟩, rfl⟩
  · exact ⟨v_resolved_port hok n (mem_posNames_port hok n hn) 0, rfl⟩
  · exact ⟨v_resolved_inst hok i hi 0, rfl⟩
  · exact ⟨v_resolved_inst hok i hi 0, rfl⟩

theorem verilogNet_sPos (hok : VOK cfg tl ports stmts) (e : Ep) (he : (module cfg tl ports stmts).resolved e) (h0 : e.rpin = 0) :
    (verilogNet cfg tl ports stmts).sPos ((module cfg tl ports stmts).nodeIdx e) =
      if (vSNames ports stmts).contains e then some (vSPos ports stmts e) else none := by
  unfold Net.sPos
  rw [verilogNet_sNodes hok]
  exact sPosIn_names _ _ (vSNames_resolved hok) e he h0

theorem verilogNet_sPos_fork (hok : VOK cfg tl ports stmts) (s : String) (hs : (module cfg tl ports stmts).resolved (.fork s)) :
    (verilogNet cfg tl ports stmts).sPos ((module cfg tl ports stmts).nodeIdx (.fork s)) = none := by
  rw [verilogNet_sPos hok _ hs rfl]
  have : (vSNames ports stmts).contains (Ep.fork s) = false := by
    rw [Bool.eq_false_iff]
    intro h
    simp only [List.contains_eq_mem, decide_eq_true_eq] at h
    unfold vSNames at h
    simp only [List.mem_append, List.mem_map, List.mem_filter] at h
    rcases h with (⟨_, _, h⟩ | ⟨_, _, h⟩) | ⟨_, _, h⟩ <;> cases h
  rw [this]; rfl

theorem verilogNet_sPos_inst (hok : VOK cfg tl ports stmts) (i : VInst) (hi : i ∈ vInsts stmts) (p : Nat) :
    (verilogNet cfg tl ports stmts).sPos ((module cfg tl ports stmts).nodeIdx (.cell i.name p)) =
      if isSeqKind i.ty then some (vSPos ports stmts (.cell i.name 0)) else none := by
  rw [nodeIdx_cell_pin _ i.name p 0, verilogNet_sPos hok _ (v_resolved_inst hok i hi 0) rfl]
  have : (vSNames ports stmts).contains (Ep.cell i.name 0) = isSeqKind i.ty := by
    rw [Bool.eq_iff_iff]
    simp only [List.contains_eq_mem, decide_eq_true_eq]
    unfold vSNames isSeqKind
    simp only [List.mem_append, List.mem_map, List.mem_filter, Bool.or_eq_true]
    constructor
    · rintro ((⟨n, hn, h⟩ | ⟨j, ⟨hj, hd⟩, h⟩) | ⟨j, ⟨hj, hd⟩, h⟩)
      · simp only [Ep.cell.injEq, and_true] at h
        exact absurd h.symm (inst_not_port hok hi n (mem_posNames_port hok n hn))
      · simp only [Ep.cell.injEq, and_true] at h
        rw [← inst_eq hok hj hi h]; exact Or.inl hd
      · simp only [Ep.cell.injEq, and_true] at h
        rw [← inst_eq hok hj hi h]; exact Or.inr hd
    · rintro (h | h)
      · exact Or.inl (Or.inr ⟨i, ⟨hi, h⟩, rfl⟩)
      · exact Or.inr ⟨i, ⟨hi, h⟩, rfl⟩
  rw [this]

theorem verilogNet_sPos_input (hok : VOK cfg tl ports stmts) (n : String) (hn : n ∈ inputNames (sigDecls stmts)) :
    (verilogNet cfg tl ports stmts).sPos ((module cfg tl ports stmts).nodeIdx (.cell n 0)) = some (vSPos ports stmts (.cell n 0)) := by
  rw [verilogNet_sPos hok _ (v_resolved_port hok n (mem_portBitNames_of_input _ n hn) 0) rfl]
  have : (vSNames ports stmts).contains (Ep.cell n 0) = true := by
    simp only [List.contains_eq_mem, decide_eq_true_eq]
    unfold vSNames
    apply List.mem_append_left
    apply List.mem_append_left
    exact List.mem_map.mpr ⟨n, hok.declsInPorts n (mem_portBitNames_of_input _ n hn), rfl⟩
  rw [this]; rfl

end
end KV.Netlist
