import KyupyVerif.Proofs.NetlistBF
import KyupyVerif.Proofs.CircSNodes
import KyupyVerif.Model.VerilogSem
/-! The circuit `module cfg tl ports stmts` in closed form for the fragment `verilogOKB` (Model/VerilogSem.lean): its node list
(`module_nodes`) and its flat line list (`module_flat` = `vFlat`), pass by pass. -/
namespace KV.Netlist
open KV

/-- `C'` is `C` with nodes `ns` and lines `ls` appended -/
def NL (C C' : Circ) (ns : List NodeM) (ls : List LineM) : Prop := C'.nodes = C.nodes ++ ns ∧ C'.lines = C.lines ++ ls

theorem NL.refl (C : Circ) : NL C C [] [] := ⟨by simp, by simp⟩

theorem NL.trans {A B C : Circ} {n1 n2 : List NodeM} {l1 l2 : List LineM} (h1 : NL A B n1 l1) (h2 : NL B C n2 l2) :
    NL A C (n1 ++ n2) (l1 ++ l2) := ⟨by rw [h2.1, h1.1, List.append_assoc], by rw [h2.2, h1.2, List.append_assoc]⟩

theorem NL.of_eq {A B : Circ} {n1 n2 : List NodeM} {l1 l2 : List LineM} (h : NL A B n1 l1) (hn : n1 = n2) (hl : l1 = l2) : NL A B n2 l2 :=
  hn ▸ hl ▸ h

/-- a fold whose steps append state-independent node and line lists, under an invariant -/
theorem nl_foldl {α} (Inv : Circ → Prop) (step : Circ → α → Circ) (fn : α → List NodeM) (fl : α → List LineM) (l : List α)
    (h : ∀ C x, x ∈ l → Inv C → NL C (step C x) (fn x) (fl x) ∧ Inv (step C x)) (C : Circ) (hC : Inv C) :
    NL C (l.foldl step C) (l.flatMap fn) (l.flatMap fl) ∧ Inv (l.foldl step C) := by
  induction l generalizing C with
  | nil => exact ⟨NL.refl C, hC⟩
  | cons x xs ih =>
    obtain ⟨h1, h2⟩ := h C x List.mem_cons_self hC
    obtain ⟨h3, h4⟩ := ih (fun C y hy => h C y (List.mem_cons_of_mem _ hy)) (step C x) h2
    exact ⟨(h1.trans h3).of_eq (by simp) (by simp), h4⟩

theorem flatMap_toList_map {α β γ} (f : α → Option β) (g : β → γ) (l : List α) :
    (l.flatMap fun x => (f x).toList.map g) = (l.filterMap f).map g := by
  induction l with
  | nil => rfl
  | cons a r ih =>
    simp only [List.flatMap_cons, List.filterMap_cons, ih]
    cases f a <;> simp

/-! ## pass 1 -/

def forkN (f : String) : NodeM := ⟨forkKind, f, false⟩

theorem pass1Pin_nl (tl : TL) (ds : List Decl) (ty nm : String) (C : Circ) (ps : String × SelVal) :
    NL C (pass1Pin tl ds ty nm C ps) ((p1Out tl ds ty ps).toList.map fun o => forkN o.2)
      ((p1Out tl ds ty ps).toList.map fun o => ⟨.cell nm o.1, .fork o.2, none⟩) := by
  unfold pass1Pin p1Out
  cases h : tl ty ps.1 with
  | none => exact ⟨by simp, by simp⟩
  | some v =>
    obtain ⟨idx, o⟩ := v
    cases o with
    | false => exact ⟨by simp, by simp⟩
    | true =>
      cases ps.2 with
      | many _ => exact ⟨by simp, by simp⟩
      | one s => exact ⟨by simp [forkN], by simp⟩

def p1Nodes (tl : TL) (ds : List Decl) (i : VInst) : List NodeM := ⟨i.ty, i.name, false⟩ :: (outConn tl ds i).map fun o => forkN o.2
def p1Lines (tl : TL) (ds : List Decl) (i : VInst) : List LineM := (outConn tl ds i).map fun o => ⟨.cell i.name o.1, .fork o.2, none⟩

theorem pass1Stmt_nl (tl : TL) (ds : List Decl) (C : Circ) (s : Stmt) :
    NL C (pass1Stmt tl ds C s) ((instOf s).toList.flatMap (p1Nodes tl ds)) ((instOf s).toList.flatMap (p1Lines tl ds)) := by
  cases s with
  | inst ty nm pins =>
    have h0 : NL C (C.addCell ty nm) [⟨ty, nm, false⟩] [] := ⟨by simp, by simp⟩
    have h1 := (nl_foldl (fun _ => True) (pass1Pin tl ds ty nm) _ _ pins
      (fun C x _ _ => ⟨pass1Pin_nl tl ds ty nm C x, trivial⟩) (C.addCell ty nm) trivial).1
    refine (h0.trans h1).of_eq ?_ ?_
    · simp [instOf, p1Nodes, outConn, flatMap_toList_map]
    · simp [instOf, p1Lines, outConn, flatMap_toList_map]
  | decls _ => exact NL.refl C
  | assign _ _ => exact NL.refl C
  | other => exact NL.refl C

theorem flatMap_instOf {β} (f : VInst → List β) (stmts : List Stmt) :
    (stmts.flatMap fun s => (instOf s).toList.flatMap f) = (vInsts stmts).flatMap f := by
  unfold vInsts
  induction stmts with
  | nil => rfl
  | cons s r ih =>
    simp only [List.flatMap_cons, List.filterMap_cons, ih]
    cases instOf s <;> simp

theorem pass1_nl (tl : TL) (ds : List Decl) (stmts : List Stmt) (C : Circ) :
    NL C (stmts.foldl (pass1Stmt tl ds) C) ((vInsts stmts).flatMap (p1Nodes tl ds)) ((vInsts stmts).flatMap (p1Lines tl ds)) := by
  have := (nl_foldl (fun _ => True) (pass1Stmt tl ds) _ _ stmts (fun C x _ _ => ⟨pass1Stmt_nl tl ds C x, trivial⟩) C trivial).1
  exact this.of_eq (flatMap_instOf _ _) (flatMap_instOf _ _)

/-! ## port cells -/

def portNodes1 (k : DKind) (n : String) : List NodeM :=
  if k == .input then [⟨k.str, n, false⟩, forkN n] else [⟨k.str, n, false⟩]
def portLines1 (k : DKind) (n : String) : List LineM :=
  if k == .input then [⟨.cell n 0, .fork n, none⟩] else []

theorem ioStep_nodes (pn : List String) (C : Circ) (n : String) : (ioStep pn C n).nodes = C.nodes ∧ (ioStep pn C n).lines = C.lines := by
  unfold ioStep; split <;> exact ⟨rfl, rfl⟩

theorem portName_nl (pn : List String) (k : DKind) (C : Circ) (n : String) :
    NL C (portName pn k C n) (portNodes1 k n) (portLines1 k n) := by
  unfold portName portNodes1 portLines1
  by_cases hk : k == DKind.input
  · simp only [hk, if_true]
    exact ⟨by simp [(ioStep_nodes pn _ n).1, forkN], by simp [(ioStep_nodes pn _ n).2]⟩
  · simp only [hk, Bool.false_eq_true, if_false]
    exact ⟨by simp [(ioStep_nodes pn _ n).1], by simp [(ioStep_nodes pn _ n).2]⟩

def portNodes (d : Decl) : List NodeM := if d.kind == .wire then [] else d.names.flatMap (portNodes1 d.kind)
def portLines (d : Decl) : List LineM := if d.kind == .wire then [] else d.names.flatMap (portLines1 d.kind)

theorem portDecl_nl (pn : List String) (C : Circ) (d : Decl) : NL C (portDecl pn C d) (portNodes d) (portLines d) := by
  unfold portDecl portNodes portLines
  by_cases hk : d.kind == DKind.wire
  · simp only [hk, if_true]; exact NL.refl C
  · simp only [hk, Bool.false_eq_true, if_false]
    exact (nl_foldl (fun _ => True) (portName pn d.kind) _ _ d.names (fun C x _ _ => ⟨portName_nl pn d.kind C x, trivial⟩) C trivial).1

theorem portPass_nl (pn : List String) (ds : List Decl) (C : Circ) :
    NL C (portPass pn ds C) (ds.flatMap portNodes) (ds.flatMap portLines) :=
  (nl_foldl (fun _ => True) (portDecl pn) _ _ ds (fun C x _ _ => ⟨portDecl_nl pn C x, trivial⟩) C trivial).1

theorem portLines_flat (ds : List Decl) :
    ds.flatMap portLines = (inputNames ds).map fun n => (⟨.cell n 0, .fork n, none⟩ : LineM) := by
  unfold inputNames
  induction ds with
  | nil => rfl
  | cons d r ih =>
    simp only [List.flatMap_cons, List.filter_cons, ih]
    unfold portLines
    cases hk : d.kind <;> simp [portLines1, List.flatMap_cons, List.map_flatMap]
    · induction d.names with
      | nil => rfl
      | cons x xs ih2 => simp [List.flatMap_cons, ih2, portLines1]

/-! ## stateful folds -/
universe u1 u2 u3 u4


/-- a fold whose steps append node and line lists that depend on a state stepping along the list, under an invariant -/
theorem nl_foldl_st {α : Type u1} {σ : Type u4} (Inv : σ → Circ → Prop) (step : Circ → α → Circ) (next : σ → α → σ) (fn : σ → α → List NodeM)
    (fl : σ → α → List LineM) (l : List α)
    (h : ∀ st C x, x ∈ l → Inv st C → NL C (step C x) (fn st x) (fl st x) ∧ Inv (next st x) (step C x)) (st : σ) (C : Circ)
    (hC : Inv st C) :
    NL C (l.foldl step C) (walk next fn st l) (walk next fl st l) ∧ Inv (l.foldl next st) (l.foldl step C) := by
  induction l generalizing st C with
  | nil => exact ⟨NL.refl C, hC⟩
  | cons x xs ih =>
    obtain ⟨h1, h2⟩ := h st C x List.mem_cons_self hC
    obtain ⟨h3, h4⟩ := ih (fun st C y hy => h st C y (List.mem_cons_of_mem _ hy)) (next st x) (step C x) h2
    exact ⟨(h1.trans h3).of_eq rfl rfl, h4⟩

def optNext {α : Type u1} {β : Type u2} {σ : Type u4} (p : α → Option β) (next : σ → β → σ) : σ → α → σ :=
  fun st x => match p x with | some y => next st y | none => st
def optList {α : Type u1} {β : Type u2} {γ : Type u3} {σ : Type u4} (p : α → Option β) (g : σ → β → List γ) : σ → α → List γ :=
  fun st x => match p x with | some y => g st y | none => []

theorem walk_filterMap {α : Type u1} {β : Type u2} {γ : Type u3} {σ : Type u4} (p : α → Option β) (next : σ → β → σ) (g : σ → β → List γ) (st : σ) (l : List α) :
    walk (optNext p next) (optList p g) st l = walk next g st (l.filterMap p) := by
  induction l generalizing st with
  | nil => rfl
  | cons a r ih =>
    simp only [walk, List.filterMap_cons, optNext, optList]
    cases p a with
    | none => simp only [List.nil_append]; exact ih st
    | some y => simp only [walk]; rw [ih]

theorem foldl_filterMap' {α : Type u1} {β : Type u2} {σ : Type u4} (p : α → Option β) (next : σ → β → σ) (st : σ) (l : List α) :
    l.foldl (optNext p next) st = (l.filterMap p).foldl next st := by
  induction l generalizing st with
  | nil => rfl
  | cons a r ih =>
    simp only [List.foldl_cons, List.filterMap_cons, optNext]
    cases p a with
    | none => exact ih st
    | some y => simp only [List.foldl_cons]; exact ih _

theorem mem_walk {α : Type u1} {β : Type u2} {σ : Type u4} (next : σ → α → σ) (f : σ → α → List β) (st : σ) (l : List α) (t : β) :
    t ∈ walk next f st l ↔ ∃ pre x post, l = pre ++ x :: post ∧ t ∈ f (pre.foldl next st) x := by
  induction l generalizing st with
  | nil => simp [walk]
  | cons a r ih =>
    simp only [walk, List.mem_append, ih]
    constructor
    · rintro (h | ⟨pre, x, post, hl, ht⟩)
      · exact ⟨[], a, r, rfl, h⟩
      · exact ⟨a :: pre, x, post, by rw [hl]; rfl, ht⟩
    · rintro ⟨pre, x, post, hl, ht⟩
      cases pre with
      | nil =>
        simp only [List.nil_append, List.cons.injEq] at hl
        obtain ⟨rfl, rfl⟩ := hl
        exact Or.inl ht
      | cons b pre' =>
        simp only [List.cons_append, List.cons.injEq] at hl
        obtain ⟨rfl, rfl⟩ := hl
        exact Or.inr ⟨pre', x, post, rfl, ht⟩

/-- every element contributes its list for SOME state -/
theorem walk_of_mem {α : Type u1} {β : Type u2} {σ : Type u4} (next : σ → α → σ) (f : σ → α → List β) (st : σ) (l : List α) (x : α) (hx : x ∈ l) :
    ∃ st', ∀ t ∈ f st' x, t ∈ walk next f st l := by
  obtain ⟨pre, post, rfl⟩ := List.append_of_mem hx
  exact ⟨pre.foldl next st, fun t ht => (mem_walk next f st _ t).mpr ⟨pre, x, post, rfl, ht⟩⟩

theorem mem_walk_exists {α : Type u1} {β : Type u2} {σ : Type u4} (next : σ → α → σ) (f : σ → α → List β) (st : σ) (l : List α) (t : β) (h : t ∈ walk next f st l) :
    ∃ st', ∃ x ∈ l, t ∈ f st' x := by
  obtain ⟨pre, x, post, rfl, ht⟩ := (mem_walk next f st l t).mp h
  exact ⟨_, x, by simp, ht⟩

/-! ## `const_count` and the fork set after pass 1 -/

theorem cc_foldl {α} (step : Circ → α → Circ) (h : ∀ C x, (step C x).cc = C.cc) (l : List α) (C : Circ) : (l.foldl step C).cc = C.cc := by
  induction l generalizing C with
  | nil => rfl
  | cons x xs ih => simp only [List.foldl_cons]; rw [ih, h]

theorem cc_pass1Pin (tl : TL) (ds : List Decl) (ty nm : String) (C : Circ) (ps : String × SelVal) : (pass1Pin tl ds ty nm C ps).cc = C.cc := by
  unfold pass1Pin
  split
  · rfl
  · split <;> rfl
  · rfl

theorem cc_pass1Stmt (tl : TL) (ds : List Decl) (C : Circ) (s : Stmt) : (pass1Stmt tl ds C s).cc = C.cc := by
  cases s with
  | inst ty nm pins => exact cc_foldl _ (cc_pass1Pin tl ds ty nm) pins _
  | decls _ => rfl
  | assign _ _ => rfl
  | other => rfl

theorem cc_ioStep (pn : List String) (C : Circ) (n : String) : (ioStep pn C n).cc = C.cc := by
  unfold ioStep; split <;> rfl

theorem cc_portName (pn : List String) (k : DKind) (C : Circ) (n : String) : (portName pn k C n).cc = C.cc := by
  unfold portName
  split
  · simp [cc_ioStep]
  · simp [cc_ioStep]

theorem cc_portDecl (pn : List String) (C : Circ) (d : Decl) : (portDecl pn C d).cc = C.cc := by
  unfold portDecl
  split
  · rfl
  · exact cc_foldl _ (cc_portName pn d.kind) _ _

theorem cc_afterPass1 (tl : TL) (ports : List String) (stmts : List Stmt) : (afterPass1 tl ports stmts).cc = 0 := by
  unfold afterPass1 portPass
  rw [cc_foldl _ (cc_portDecl _), cc_foldl _ (cc_pass1Stmt tl _)]

/-! ## pass 1.5: assign pairs in dependency order -/

theorem isConstBit_of_lit (s : String) (h : isConstLit s = true) : isConstBit s = true := by
  unfold isConstLit at h
  simp only [Bool.or_eq_true, beq_iff_eq] at h
  rcases h with rfl | rfl <;> decide +kernel

theorem constKind_ne_fork (s : String) (h : isConstLit s = true) : constKind s ≠ forkKind := by
  unfold isConstLit at h
  simp only [Bool.or_eq_true, beq_iff_eq] at h
  rcases h with rfl | rfl <;> decide +kernel

def pairNodes (k : Nat) (ts : String × String) : List NodeM :=
  if isConstLit ts.2 then [⟨constKind ts.2, constName ts.2 k, false⟩, forkN ts.1] else [forkN ts.1]
def pairLinesM (k : Nat) (ts : String × String) : List LineM :=
  if isConstLit ts.2 then [⟨.cell (constName ts.2 k) 0, .fork ts.1, none⟩] else [⟨.fork ts.2, .fork ts.1, none⟩]

/-- the circuit knows exactly the forks `F` -/
def ForksAre (F : List String) (C : Circ) : Prop := ∀ x, C.isFork x = F.contains x

theorem contains_append_single (F : List String) (t x : String) : (F ++ [t]).contains x = (F.contains x || x == t) := by
  rw [List.contains_append]
  simp only [List.contains_cons, List.contains_nil, Bool.or_false]

theorem isFork_append_fork (C : Circ) (n x : String) (b : Bool) : (C.addFork n b).isFork x = (C.isFork x || x == n) := by
  unfold Circ.isFork Circ.addFork
  simp only [List.any_append, List.any_cons, List.any_nil, Bool.or_false, beq_self_eq_true, Bool.true_and]
  congr 1
  exact Bool.beq_comm

theorem isFork_addCell (C : Circ) (k n x : String) (hk : k ≠ forkKind) : (C.addCell k n).isFork x = C.isFork x := by
  unfold Circ.isFork Circ.addCell
  have : (k == forkKind) = false := by simp [hk]
  simp only [List.any_append, List.any_cons, List.any_nil, Bool.or_false, this, Bool.false_and]

theorem assignStep_nl (F : List String) (k : Nat) (C : Circ) (ts : String × String) (hcc : C.cc = k) (hF : ForksAre F C)
    (hFc : ∀ x, F.contains x = true → isConstBit x = false)
    (h1 : F.contains ts.1 = false) (h2 : isConstLit ts.2 = true ∨ (isConstBit ts.2 = false ∧ F.contains ts.2 = true)) :
    NL C (assignStep C ts) (pairNodes k ts) (pairLinesM k ts) ∧ (assignStep C ts).cc = nextK k ts.2 ∧
      ForksAre (F ++ [ts.1]) (assignStep C ts) ∧ handled C ts = true := by
  subst hcc
  have ht : C.isFork ts.1 = false := by rw [hF]; exact h1
  unfold assignStep pairNodes pairLinesM nextK handled
  rcases h2 with hc | ⟨hnc, hs⟩
  · -- constant source
    have hcb := isConstBit_of_lit _ hc
    have hsf : C.isFork ts.2 = false := by
      rw [hF]
      cases hfc : F.contains ts.2 with
      | false => rfl
      | true => rw [hFc _ hfc] at hcb; cases hcb
    simp only [ht, hsf, hcb, hc, Bool.false_eq_true, if_false, if_true, Bool.or_true]
    refine ⟨⟨by simp [forkN], by simp⟩, by simp, ?_, trivial⟩
    intro x
    rw [addLine_isFork, isFork_append_fork, incCC_isFork, isFork_addCell _ _ _ _ (constKind_ne_fork _ hc), hF, contains_append_single]
  · have hsf : C.isFork ts.2 = true := by rw [hF]; exact hs
    have hnl : isConstLit ts.2 = false := by
      cases hl : isConstLit ts.2 with
      | false => rfl
      | true => rw [isConstBit_of_lit _ hl] at hnc; cases hnc
    simp only [ht, hsf, hnl, Bool.false_eq_true, if_false, if_true, Bool.or_true, Bool.true_or]
    refine ⟨⟨by simp [forkN], by simp⟩, rfl, ?_, trivial⟩
    intro x
    rw [addLine_isFork, isFork_append_fork, hF, contains_append_single]


/-- what `assignsOK` says about the pair at the head -/
theorem assignsOK_cons (F : List String) (ts : String × String) (r : List (String × String)) (h : assignsOK F (ts :: r) = true) :
    F.contains ts.1 = false ∧ isConstBit ts.1 = false ∧
    (isConstLit ts.2 = true ∨ (isConstBit ts.2 = false ∧ F.contains ts.2 = true)) ∧ assignsOK (F ++ [ts.1]) r = true := by
  unfold assignsOK at h
  simp only [Bool.and_eq_true, Bool.not_eq_true'] at h
  refine ⟨h.1.1.1, h.1.1.2, ?_, h.2⟩
  by_cases hc : isConstLit ts.2 = true
  · exact Or.inl hc
  · right
    have := h.1.2
    simp only [hc, Bool.false_eq_true, if_false, Bool.and_eq_true, Bool.not_eq_true'] at this
    exact this

theorem pass15_fold_nl : ∀ (pairs : List (String × String)) (F : List String) (k : Nat) (C : Circ), C.cc = k → ForksAre F C →
    (∀ x, F.contains x = true → isConstBit x = false) → assignsOK F pairs = true →
    NL C (pairs.foldl assignStep C) (walk (fun k ts => nextK k ts.2) pairNodes k pairs) (walk (fun k ts => nextK k ts.2) pairLinesM k pairs) ∧
      (pairs.foldl assignStep C).cc = pairs.foldl (fun k ts => nextK k ts.2) k ∧
      ForksAre (F ++ pairs.map (·.1)) (pairs.foldl assignStep C) ∧
      (assignRound C pairs = (pairs.foldl assignStep C, []))
  | [], F, k, C, hcc, hF, _, _ => ⟨NL.refl C, hcc, by simpa using hF, rfl⟩
  | ts :: r, F, k, C, hcc, hF, hFc, hok => by
    obtain ⟨h1, h1c, h2, h3⟩ := assignsOK_cons F ts r hok
    obtain ⟨hn, hc, hf, hh⟩ := assignStep_nl F k C ts hcc hF hFc h1 h2
    have hFc' : ∀ x, (F ++ [ts.1]).contains x = true → isConstBit x = false := by
      intro x hx
      simp only [List.contains_append, Bool.or_eq_true, List.contains_cons, List.contains_nil, Bool.or_false, beq_iff_eq] at hx
      rcases hx with hx | rfl
      · exact hFc x hx
      · exact h1c
    obtain ⟨in1, in2, in3, in4⟩ := pass15_fold_nl r (F ++ [ts.1]) (nextK k ts.2) (assignStep C ts) hc hf hFc' h3
    refine ⟨(hn.trans in1).of_eq rfl rfl, in2, ?_, ?_⟩
    · simpa [List.append_assoc] using in3
    · unfold assignRound at in4 ⊢
      simp only [List.foldl_cons]
      have : roundStep (C, []) ts = (assignStep C ts, []) := by unfold roundStep; simp [hh]
      rw [this]
      exact in4

theorem pass15_nl (cfg : Cfg) (pairs : List (String × String)) (F : List String) (C : Circ) (hcc : C.cc = 0) (hF : ForksAre F C)
    (hFc : ∀ x, F.contains x = true → isConstBit x = false) (hok : assignsOK F pairs = true) :
    NL C (pass15 cfg C pairs) (walk (fun k ts => nextK k ts.2) pairNodes 0 pairs) (walk (fun k ts => nextK k ts.2) pairLinesM 0 pairs) ∧
      (pass15 cfg C pairs).cc = pairs.foldl (fun k ts => nextK k ts.2) 0 ∧
      ForksAre (F ++ pairs.map (·.1)) (pass15 cfg C pairs) := by
  obtain ⟨h1, h2, h3, h4⟩ := pass15_fold_nl pairs F 0 C hcc hF hFc hok
  have : pass15 cfg C pairs = pairs.foldl assignStep C := by
    unfold pass15
    cases cfg.assignFix with
    | false => rfl
    | true =>
      simp only [if_true]
      cases pairs with
      | nil => simp [assignFix]
      | cons ts r =>
        simp only [List.length_cons, assignFix, List.isEmpty_cons, Bool.false_eq_true, if_false, h4, List.length_nil]
        have hne : ((0 : Nat) == r.length + 1) = false := by simp
        simp only [hne, Bool.false_eq_true, if_false]
        cases r with
        | nil => simp [assignFix]
        | cons _ _ => simp [assignFix]
  rw [this]
  exact ⟨h1, h2, h3⟩

/-! ## pass 2: every input pin reads a constant bit or a driven signal -/

def branchN (b : String) : NodeM := ⟨forkKind, b, true⟩

def connNodes (bf : Bool) (k : Nat) (ic : VInst × (String × Nat × String)) : List NodeM :=
  (if isConstLit ic.2.2.2 then [⟨constKind ic.2.2.2, constName ic.2.2.2 k, false⟩, forkN (constName ic.2.2.2 k)] else []) ++
  (if bf then [branchN (branchName (srcFork k ic.2) ic.1.name ic.2.1)] else [])
def connLinesM (bf : Bool) (k : Nat) (ic : VInst × (String × Nat × String)) : List LineM :=
  (if isConstLit ic.2.2.2 then [⟨.cell (constName ic.2.2.2 k) 0, .fork (constName ic.2.2.2 k), none⟩] else []) ++
  [⟨.fork (srcFork k ic.2), .cell ic.1.name ic.2.2.1, if bf then some (branchName (srcFork k ic.2) ic.1.name ic.2.1) else none⟩]

/-- all signals of `D` are forks -/
def ForksIn (D : List String) (C : Circ) : Prop := ∀ s ∈ D, C.isFork s = true

theorem ForksIn.mono {D : List String} {C C' : Circ} (h : ForksIn D C) (hs : Sub C C') : ForksIn D C' :=
  fun s hsD => hs.isFork (h s hsD)

/-- invariant of pass 2: `const_count` and the driven signals -/
def P2Inv (D : List String) (k : Nat) (C : Circ) : Prop := C.cc = k ∧ ForksIn D C

theorem readerPin_nl (cfg : Cfg) (tl : TL) (ds : List Decl) (D : List String) (i : VInst) (k : Nat) (C : Circ) (ps : String × SelVal)
    (hok : pinOK tl ds D i.ty ps = true) (hI : P2Inv D k C) :
    NL C (readerPin cfg tl ds i.ty i.name C ps)
      (optList (p2In tl i.ty) (fun k c => connNodes cfg.bf k (i, c)) k ps)
      (optList (p2In tl i.ty) (fun k c => connLinesM cfg.bf k (i, c)) k ps) ∧
    P2Inv D (optNext (p2In tl i.ty) (fun k c => nextK k c.2.2) k ps) (readerPin cfg tl ds i.ty i.name C ps) := by
  have hsub := sub_readerPin cfg tl ds i.ty i.name C ps
  unfold optList optNext
  obtain ⟨hcc, hD⟩ := hI
  subst hcc
  have hI : P2Inv D C.cc C := ⟨rfl, hD⟩
  unfold readerPin p2In at *
  unfold pinOK at hok
  cases h : tl i.ty ps.1 with
  | none => exact ⟨⟨by simp, by simp⟩, hI⟩
  | some v =>
    obtain ⟨idx, o⟩ := v
    cases o with
    | true =>
      cases ps.2 <;> exact ⟨⟨by simp, by simp⟩, hI⟩
    | false =>
      cases h2 : ps.2 with
      | many _ => exact ⟨⟨by simp, by simp⟩, hI⟩
      | one s =>
        rw [h, h2] at hok
        simp only [h, h2] at hsub
        simp only [Bool.or_eq_true, Bool.and_eq_true, Bool.not_eq_true', List.contains_eq_mem, decide_eq_true_eq] at hok
        by_cases hc : isConstLit s = true
        · -- constant pin: own cell and fork
          have hcb := isConstBit_of_lit s hc
          have hcp : constPin C s = ((((C.addCell (constKind s) (constName s C.cc)).incCC).addFork (constName s C.cc)).addLine
              (.cell (constName s C.cc) 0) (.fork (constName s C.cc)), constName s C.cc) := by unfold constPin; simp [hcb]
          have hf : ((((C.addCell (constKind s) (constName s C.cc)).incCC).addFork (constName s C.cc)).addLine
              (.cell (constName s C.cc) 0) (.fork (constName s C.cc))).isFork (constName s C.cc) = true := by
            rw [addLine_isFork]; exact isFork_addFork_self _ _ _
          have hr := resolveRead_of_isFork cfg ds _ _ hf
          refine ⟨?_, ?_, fun x hx => hsub.isFork (hI.2 x hx)⟩
          · simp only [readerOne, hcp, hr, forkFor, Bool.false_eq_true, if_false, connectPin, connNodes, connLinesM, srcFork, hc, if_true,
              hI.1]
            cases cfg.bf
            · exact ⟨by simp [forkN], by simp⟩
            · exact ⟨by simp [forkN, branchN], by simp⟩
          · simp only [readerOne, hcp, hr, forkFor, Bool.false_eq_true, if_false, connectPin, nextK, hc, if_true]
            cases cfg.bf <;> simp [hI.1]
        · have hcl : isConstLit s = false := by simpa using hc
          rcases hok with hok | hok
          · rw [hok] at hcl; cases hcl
          · have hf : C.isFork s = true := hI.2 s hok.2
            have hcp : constPin C s = (C, s) := by unfold constPin; simp [hok.1]
            have hr : resolveRead cfg ds C s = (s, false) := resolveRead_of_isFork cfg ds C s hf
            have hff : forkFor cfg ds C s = C := by unfold forkFor; simp [hr]
            refine ⟨?_, ?_, fun x hx => hsub.isFork (hI.2 x hx)⟩
            · simp only [readerOne, hcp, hr, hff, connectPin, connNodes, connLinesM, srcFork, hcl, Bool.false_eq_true, if_false,
                List.nil_append]
              cases cfg.bf
              · exact ⟨by simp, by simp⟩
              · exact ⟨by simp [branchN], by simp⟩
            · simp only [readerOne, hcp, hr, hff, connectPin, nextK, hcl, Bool.false_eq_true, if_false]
              cases cfg.bf <;> simp [hI.1]

theorem pass2Stmt_nl (cfg : Cfg) (tl : TL) (ds : List Decl) (D : List String) (k : Nat) (C : Circ) (s : Stmt)
    (hok : ∀ i, instOf s = some i → (i.pins.all (pinOK tl ds D i.ty)) = true) (hI : P2Inv D k C) :
    NL C (pass2Stmt cfg tl ds C s)
      (optList instOf (fun k i => walk (fun k c => nextK k c.2.2) (fun k c => connNodes cfg.bf k (i, c)) k (inConn tl i)) k s)
      (optList instOf (fun k i => walk (fun k c => nextK k c.2.2) (fun k c => connLinesM cfg.bf k (i, c)) k (inConn tl i)) k s) ∧
    P2Inv D (optNext instOf (fun k i => (inConn tl i).foldl (fun k c => nextK k c.2.2) k) k s) (pass2Stmt cfg tl ds C s) := by
  cases s with
  | inst ty nm pins =>
    have hp := hok ⟨ty, nm, pins⟩ rfl
    have h1 := nl_foldl_st (P2Inv D) (readerPin cfg tl ds ty nm)
      (optNext (p2In tl ty) (fun k c => nextK k c.2.2))
      (optList (p2In tl ty) (fun k c => connNodes cfg.bf k (⟨ty, nm, pins⟩, c)))
      (optList (p2In tl ty) (fun k c => connLinesM cfg.bf k (⟨ty, nm, pins⟩, c))) pins
      (fun k C x hx hC => readerPin_nl cfg tl ds D ⟨ty, nm, pins⟩ k C x (List.all_eq_true.mp hp x hx) hC) k C hI
    rw [walk_filterMap, walk_filterMap, foldl_filterMap'] at h1
    exact h1
  | decls _ => exact ⟨NL.refl C, hI⟩
  | assign _ _ => exact ⟨NL.refl C, hI⟩
  | other => exact ⟨NL.refl C, hI⟩

theorem pass2_nl (cfg : Cfg) (tl : TL) (ds : List Decl) (D : List String) (stmts : List Stmt) (k : Nat) (C : Circ)
    (hok : ((vInsts stmts).all fun i => i.pins.all (pinOK tl ds D i.ty)) = true) (hI : P2Inv D k C) :
    NL C (stmts.foldl (pass2Stmt cfg tl ds) C) (connWalk tl (connNodes cfg.bf) k (vInsts stmts)) (connWalk tl (connLinesM cfg.bf) k (vInsts stmts)) ∧
      ForksIn D (stmts.foldl (pass2Stmt cfg tl ds) C) := by
  have := nl_foldl_st (P2Inv D) (pass2Stmt cfg tl ds)
    (optNext instOf (fun k i => (inConn tl i).foldl (fun k c => nextK k c.2.2) k))
    (optList instOf (fun k i => walk (fun k c => nextK k c.2.2) (fun k c => connNodes cfg.bf k (i, c)) k (inConn tl i)))
    (optList instOf (fun k i => walk (fun k c => nextK k c.2.2) (fun k c => connLinesM cfg.bf k (i, c)) k (inConn tl i))) stmts
    (fun k C x hx hC => pass2Stmt_nl cfg tl ds D k C x (by
      intro i hi
      exact List.all_eq_true.mp hok i (List.mem_filterMap.mpr ⟨x, hx, hi⟩)) hC) k C hI
  rw [walk_filterMap, walk_filterMap] at this
  exact ⟨this.1, this.2.2⟩

/-! ## output ports: every output bit is driven under its own name -/

theorem outName_nl (D : List String) (C : Circ) (n : String) (hn : n ∈ D) (hD : ForksIn D C) :
    NL C (outName C n) [] [⟨.fork n, .cell n 0, none⟩] ∧ ForksIn D (outName C n) := by
  refine ⟨?_, hD.mono (sub_outName C n)⟩
  unfold outName
  simp only [hD n hn, if_true]
  exact ⟨by simp, by simp⟩

def outLines (d : Decl) : List LineM := if d.kind == .output then d.names.map fun n => ⟨.fork n, .cell n 0, none⟩ else []

theorem outDecl_nl (D : List String) (C : Circ) (d : Decl) (hd : d.kind = .output → ∀ n ∈ d.names, n ∈ D) (hD : ForksIn D C) :
    NL C (outDecl C d) [] (outLines d) ∧ ForksIn D (outDecl C d) := by
  unfold outDecl outLines
  by_cases hk : d.kind == DKind.output
  · simp only [hk, if_true]
    have := nl_foldl (ForksIn D) outName (fun _ => []) (fun n => [⟨.fork n, .cell n 0, none⟩]) d.names
      (fun C n hn hC => outName_nl D C n (hd (by simpa using hk) n hn) hC) C hD
    refine ⟨this.1.of_eq (by simp) ?_, this.2⟩
    induction d.names with
    | nil => rfl
    | cons x xs ih => simp [List.flatMap_cons, ih]
  · simp only [hk, Bool.false_eq_true, if_false]
    exact ⟨NL.refl C, hD⟩

theorem outPass_nl (D : List String) (ds : List Decl) (C : Circ) (hd : ∀ n ∈ outputNames ds, n ∈ D) (hD : ForksIn D C) :
    NL C (outPass ds C) [] (ds.flatMap outLines) := by
  have := nl_foldl (ForksIn D) outDecl (fun _ => []) outLines ds (fun C d hdm hC => outDecl_nl D C d (by
    intro hk n hn
    apply hd
    unfold outputNames
    exact List.mem_flatMap.mpr ⟨d, List.mem_filter.mpr ⟨hdm, by simp [hk]⟩, hn⟩) hC) C hD
  exact this.1.of_eq (by simp) rfl

theorem outLines_flat (ds : List Decl) :
    ds.flatMap outLines = (outputNames ds).map fun n => (⟨.fork n, .cell n 0, none⟩ : LineM) := by
  unfold outputNames
  induction ds with
  | nil => rfl
  | cons d r ih =>
    simp only [List.flatMap_cons, List.filter_cons, ih]
    unfold outLines
    cases hk : d.kind <;> simp

end KV.Netlist
