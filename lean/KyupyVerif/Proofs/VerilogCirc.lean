import KyupyVerif.Proofs.NetlistBF
import KyupyVerif.Proofs.CircSNodes
import KyupyVerif.Model.VerilogSem
/-! The circuit `module cfg tl ports stmts` in closed form for the fragment `verilogOKB` (Model/VerilogSem.lean): its node list
(`module_nodes`) and its flat line list (`module_flat` = `vFlat`), pass by pass. -/
namespace KV.Netlist
open KV

/-- `C'` is `C` with nodes `ns` and lines `ls` appended -/
def NL (C C' : Circ) (ns : List NodeM) (ls : List LineM) : Prop := C'.nodes = C.nodes ++ ns ∧ C'.lines = C.lines ++ ls

theorem NL.refl (C : Circ) : NL C C [] [] := ⟨by simp, by simp⟩

theorem NL.trans {A B C : Circ} {n1 n2 : List NodeM} {l1 l2 : List LineM} (h1 : NL A B n1 l1) (h2 : NL B C n2 l2) :
    NL A C (n1 ++ n2) (l1 ++ l2) := ⟨by rw [h2.1, h1.1, List.append_assoc], by rw [h2.2, h1.2, List.append_assoc]⟩

theorem NL.of_eq {A B : Circ} {n1 n2 : List NodeM} {l1 l2 : List LineM} (h : NL A B n1 l1) (hn : n1 = n2) (hl : l1 = l2) : NL A B n2 l2 :=
  hn ▸ hl ▸ h

/-- a fold whose steps append state-independent node and line lists, under an invariant -/
theorem nl_foldl {α} (Inv : Circ → Prop) (step : Circ → α → Circ) (fn : α → List NodeM) (fl : α → List LineM) (l : List α)
    (h : ∀ C x, x ∈ l → Inv C → NL C (step C x) (fn x) (fl x) ∧ Inv (step C x)) (C : Circ) (hC : Inv C) :
    NL C (l.foldl step C) (l.flatMap fn) (l.flatMap fl) ∧ Inv (l.foldl step C) := by
  induction l generalizing C with
  | nil => exact ⟨NL.refl C, hC⟩
  | cons x xs ih =>
    obtain ⟨h1, h2⟩ := h C x List.mem_cons_self hC
    obtain ⟨h3, h4⟩ := ih (fun C y hy => h C y (List.mem_cons_of_mem _ hy)) (step C x) h2
    exact ⟨(h1.trans h3).of_eq (by simp) (by simp), h4⟩

theorem flatMap_toList_map {α β γ} (f : α → Option β) (g : β → γ) (l : List α) :
    (l.flatMap fun x => (f x).toList.map g) = (l.filterMap f).map g := by
  induction l with
  | nil => rfl
  | cons a r ih =>
    simp only [List.flatMap_cons, List.filterMap_cons, ih]
    cases f a <;> simp

/-! ## pass 1 -/

def forkN (f : String) : NodeM := ⟨forkKind, f, false⟩

theorem pass1Pin_nl (tl : TL) (ds : List Decl) (ty nm : String) (C : Circ) (ps : String × SelVal) :
    NL C (pass1Pin tl ds ty nm C ps) ((p1Out tl ds ty ps).toList.map fun o => forkN o.2)
      ((p1Out tl ds ty ps).toList.map fun o => ⟨.cell nm o.1, .fork o.2, none⟩) := by
  unfold pass1Pin p1Out
  cases h : tl ty ps.1 with
  | none => exact ⟨by simp, by simp⟩
  | some v =>
    obtain ⟨idx, o⟩ := v
    cases o with
    | false => exact ⟨by simp, by simp⟩
    | true =>
      cases ps.2 with
      | many _ => exact ⟨by simp, by simp⟩
      | one s => exact ⟨by simp [forkN], by simp⟩

def p1Nodes (tl : TL) (ds : List Decl) (i : VInst) : List NodeM := ⟨i.ty, i.name, false⟩ :: (outConn tl ds i).map fun o => forkN o.2
def p1Lines (tl : TL) (ds : List Decl) (i : VInst) : List LineM := (outConn tl ds i).map fun o => ⟨.cell i.name o.1, .fork o.2, none⟩

theorem pass1Stmt_nl (tl : TL) (ds : List Decl) (C : Circ) (s : Stmt) :
    NL C (pass1Stmt tl ds C s) ((instOf s).toList.flatMap (p1Nodes tl ds)) ((instOf s).toList.flatMap (p1Lines tl ds)) := by
  cases s with
  | inst ty nm pins =>
    have h0 : NL C (C.addCell ty nm) [⟨ty, nm, false⟩] [] := ⟨by simp, by simp⟩
    have h1 := (nl_foldl (fun _ => True) (pass1Pin tl ds ty nm) _ _ pins
      (fun C x _ _ => ⟨pass1Pin_nl tl ds ty nm C x, trivial⟩) (C.addCell ty nm) trivial).1
    refine (h0.trans h1).of_eq ?_ ?_
    · simp [instOf, p1Nodes, outConn, flatMap_toList_map]
    · simp [instOf, p1Lines, outConn, flatMap_toList_map]
  | decls _ => exact NL.refl C
  | assign _ _ => exact NL.refl C
  | other => exact NL.refl C

theorem flatMap_instOf {β} (f : VInst → List β) (stmts : List Stmt) :
    (stmts.flatMap fun s => (instOf s).toList.flatMap f) = (vInsts stmts).flatMap f := by
  unfold vInsts
  induction stmts with
  | nil => rfl
  | cons s r ih =>
    simp only [List.flatMap_cons, List.filterMap_cons, ih]
    cases instOf s <;> simp

theorem pass1_nl (tl : TL) (ds : List Decl) (stmts : List Stmt) (C : Circ) :
    NL C (stmts.foldl (pass1Stmt tl ds) C) ((vInsts stmts).flatMap (p1Nodes tl ds)) ((vInsts stmts).flatMap (p1Lines tl ds)) := by
  have := (nl_foldl (fun _ => True) (pass1Stmt tl ds) _ _ stmts (fun C x _ _ => ⟨pass1Stmt_nl tl ds C x, trivial⟩) C trivial).1
  exact this.of_eq (flatMap_instOf _ _) (flatMap_instOf _ _)

/-! ## port cells -/

def portNodes1 (k : DKind) (n : String) : List NodeM :=
  if k == .input then [⟨k.str, n, false⟩, forkN n] else [⟨k.str, n, false⟩]
def portLines1 (k : DKind) (n : String) : List LineM :=
  if k == .input then [⟨.cell n 0, .fork n, none⟩] else []

theorem ioStep_nodes (pn : List String) (C : Circ) (n : String) : (ioStep pn C n).nodes = C.nodes ∧ (ioStep pn C n).lines = C.lines := by
  unfold ioStep; split <;> exact ⟨rfl, rfl⟩

theorem portName_nl (pn : List String) (k : DKind) (C : Circ) (n : String) :
    NL C (portName pn k C n) (portNodes1 k n) (portLines1 k n) := by
  unfold portName portNodes1 portLines1
  by_cases hk : k == DKind.input
  · simp only [hk, if_true]
    exact ⟨by simp [(ioStep_nodes pn _ n).1, forkN], by simp [(ioStep_nodes pn _ n).2]⟩
  · simp only [hk, Bool.false_eq_true, if_false]
    exact ⟨by simp [(ioStep_nodes pn _ n).1], by simp [(ioStep_nodes pn _ n).2]⟩

def portNodes (d : Decl) : List NodeM := if d.kind == .wire then [] else d.names.flatMap (portNodes1 d.kind)
def portLines (d : Decl) : List LineM := if d.kind == .wire then [] else d.names.flatMap (portLines1 d.kind)

theorem portDecl_nl (pn : List String) (C : Circ) (d : Decl) : NL C (portDecl pn C d) (portNodes d) (portLines d) := by
  unfold portDecl portNodes portLines
  by_cases hk : d.kind == DKind.wire
  · simp only [hk, if_true]; exact NL.refl C
  · simp only [hk, Bool.false_eq_true, if_false]
    exact (nl_foldl (fun _ => True) (portName pn d.kind) _ _ d.names (fun C x _ _ => ⟨portName_nl pn d.kind C x, trivial⟩) C trivial).1

theorem portPass_nl (pn : List String) (ds : List Decl) (C : Circ) :
    NL C (portPass pn ds C) (ds.flatMap portNodes) (ds.flatMap portLines) :=
  (nl_foldl (fun _ => True) (portDecl pn) _ _ ds (fun C x _ _ => ⟨portDecl_nl pn C x, trivial⟩) C trivial).1

theorem portLines_flat (ds : List Decl) :
    ds.flatMap portLines = (inputNames ds).map fun n => (⟨.cell n 0, .fork n, none⟩ : LineM) := by
  unfold inputNames
  induction ds with
  | nil => rfl
  | cons d r ih =>
    simp only [List.flatMap_cons, List.filter_cons, ih]
    unfold portLines
    cases hk : d.kind <;> simp [portLines1, List.flatMap_cons, List.map_flatMap]
    · induction d.names with
      | nil => rfl
      | cons x xs ih2 => simp [List.flatMap_cons, ih2, portLines1]

/-! ## pass 1.5 without assign statements -/

theorem assignPairs_nil (ds : List Decl) (stmts : List Stmt) (h : (stmts.all fun s => !isAssign s) = true) :
    assignPairs ds stmts = [] := by
  unfold assignPairs
  rw [List.flatMap_eq_nil_iff]
  intro s hs
  have := List.all_eq_true.mp h s hs
  cases s with
  | assign _ _ => simp [isAssign] at this
  | decls _ => rfl
  | inst _ _ _ => rfl
  | other => rfl

theorem pass15_nil (cfg : Cfg) (C : Circ) : pass15 cfg C [] = C := by
  unfold pass15
  cases cfg.assignFix <;> simp [assignFix]

/-! ## pass 2: every input pin reads a driven signal -/

def branchN (b : String) : NodeM := ⟨forkKind, b, true⟩

def p2Nodes1 (bf : Bool) (nm : String) (c : String × Nat × String) : List NodeM :=
  if bf then [branchN (branchName c.2.2 nm c.1)] else []
def p2Lines1 (bf : Bool) (nm : String) (c : String × Nat × String) : List LineM :=
  [⟨.fork c.2.2, .cell nm c.2.1, if bf then some (branchName c.2.2 nm c.1) else none⟩]

/-- all signals of `D` are forks -/
def ForksIn (D : List String) (C : Circ) : Prop := ∀ s ∈ D, C.isFork s = true

theorem ForksIn.mono {D : List String} {C C' : Circ} (h : ForksIn D C) (hs : Sub C C') : ForksIn D C' :=
  fun s hsD => hs.isFork (h s hsD)

theorem readerPin_nl (cfg : Cfg) (tl : TL) (ds : List Decl) (D : List String) (ty nm : String) (C : Circ) (ps : String × SelVal)
    (hok : pinOK tl ds D ty ps = true) (hD : ForksIn D C) :
    NL C (readerPin cfg tl ds ty nm C ps) ((p2In tl ty ps).toList.flatMap (p2Nodes1 cfg.bf nm))
      ((p2In tl ty ps).toList.flatMap (p2Lines1 cfg.bf nm)) := by
  unfold readerPin p2In
  unfold pinOK at hok
  cases h : tl ty ps.1 with
  | none => exact ⟨by simp, by simp⟩
  | some v =>
    obtain ⟨idx, o⟩ := v
    cases o with
    | true =>
      cases ps.2 <;> exact ⟨by simp, by simp⟩
    | false =>
      cases h2 : ps.2 with
      | many _ => exact ⟨by simp, by simp⟩
      | one s =>
        rw [h, h2] at hok
        simp only [Bool.and_eq_true, Bool.not_eq_true', List.contains_eq_mem, decide_eq_true_eq] at hok
        have hf : C.isFork s = true := hD s hok.2
        have hc : constPin C s = (C, s) := by unfold constPin; simp [hok.1]
        have hr : resolveRead cfg ds C s = (s, false) := resolveRead_of_isFork cfg ds C s hf
        have hff : forkFor cfg ds C s = C := by unfold forkFor; simp [hr]
        simp only [readerOne, hc, hr, hff, connectPin, Option.toList_some, List.flatMap_cons, List.flatMap_nil, List.append_nil,
          p2Nodes1, p2Lines1]
        cases cfg.bf
        · exact ⟨by simp, by simp⟩
        · exact ⟨by simp [branchN], by simp⟩

def p2Nodes (bf : Bool) (tl : TL) (i : VInst) : List NodeM := (inConn tl i).flatMap (p2Nodes1 bf i.name)
def p2Lines (bf : Bool) (tl : TL) (i : VInst) : List LineM := (inConn tl i).flatMap (p2Lines1 bf i.name)

theorem flatMap_toList_flatMap {α β γ} (f : α → Option β) (g : β → List γ) (l : List α) :
    (l.flatMap fun x => (f x).toList.flatMap g) = (l.filterMap f).flatMap g := by
  induction l with
  | nil => rfl
  | cons a r ih =>
    simp only [List.flatMap_cons, List.filterMap_cons, ih]
    cases f a <;> simp

theorem pass2Stmt_nl (cfg : Cfg) (tl : TL) (ds : List Decl) (D : List String) (C : Circ) (s : Stmt)
    (hok : ∀ i, instOf s = some i → (i.pins.all (pinOK tl ds D i.ty)) = true) (hD : ForksIn D C) :
    NL C (pass2Stmt cfg tl ds C s) ((instOf s).toList.flatMap (p2Nodes cfg.bf tl)) ((instOf s).toList.flatMap (p2Lines cfg.bf tl)) ∧
      ForksIn D (pass2Stmt cfg tl ds C s) := by
  refine ⟨?_, hD.mono (sub_pass2Stmt cfg tl ds C s)⟩
  cases s with
  | inst ty nm pins =>
    have hp := hok ⟨ty, nm, pins⟩ rfl
    have h1 := (nl_foldl (ForksIn D) (readerPin cfg tl ds ty nm) _ _ pins
      (fun C x hx hC => ⟨readerPin_nl cfg tl ds D ty nm C x (List.all_eq_true.mp hp x hx) hC,
        hC.mono (sub_readerPin cfg tl ds ty nm C x)⟩) C hD).1
    refine h1.of_eq ?_ ?_
    · simp [instOf, p2Nodes, inConn, flatMap_toList_flatMap]
    · simp [instOf, p2Lines, inConn, flatMap_toList_flatMap]
  | decls _ => exact NL.refl C
  | assign _ _ => exact NL.refl C
  | other => exact NL.refl C

theorem pass2_nl (cfg : Cfg) (tl : TL) (ds : List Decl) (D : List String) (stmts : List Stmt) (C : Circ)
    (hok : ((vInsts stmts).all fun i => i.pins.all (pinOK tl ds D i.ty)) = true) (hD : ForksIn D C) :
    NL C (stmts.foldl (pass2Stmt cfg tl ds) C) ((vInsts stmts).flatMap (p2Nodes cfg.bf tl)) ((vInsts stmts).flatMap (p2Lines cfg.bf tl)) ∧
      ForksIn D (stmts.foldl (pass2Stmt cfg tl ds) C) := by
  have := nl_foldl (ForksIn D) (pass2Stmt cfg tl ds) _ _ stmts (fun C x hx hC => pass2Stmt_nl cfg tl ds D C x (by
    intro i hi
    exact List.all_eq_true.mp hok i (List.mem_filterMap.mpr ⟨x, hx, hi⟩)) hC) C hD
  exact ⟨this.1.of_eq (flatMap_instOf _ _) (flatMap_instOf _ _), this.2⟩

/-! ## output ports: every output bit is driven under its own name -/

theorem outName_nl (D : List String) (C : Circ) (n : String) (hn : n ∈ D) (hD : ForksIn D C) :
    NL C (outName C n) [] [⟨.fork n, .cell n 0, none⟩] ∧ ForksIn D (outName C n) := by
  refine ⟨?_, hD.mono (sub_outName C n)⟩
  unfold outName
  simp only [hD n hn, if_true]
  exact ⟨by simp, by simp⟩

def outLines (d : Decl) : List LineM := if d.kind == .output then d.names.map fun n => ⟨.fork n, .cell n 0, none⟩ else []

theorem outDecl_nl (D : List String) (C : Circ) (d : Decl) (hd : d.kind = .output → ∀ n ∈ d.names, n ∈ D) (hD : ForksIn D C) :
    NL C (outDecl C d) [] (outLines d) ∧ ForksIn D (outDecl C d) := by
  unfold outDecl outLines
  by_cases hk : d.kind == DKind.output
  · simp only [hk, if_true]
    have := nl_foldl (ForksIn D) outName (fun _ => []) (fun n => [⟨.fork n, .cell n 0, none⟩]) d.names
      (fun C n hn hC => outName_nl D C n (hd (by simpa using hk) n hn) hC) C hD
    refine ⟨this.1.of_eq (by simp) ?_, this.2⟩
    induction d.names with
    | nil => rfl
    | cons x xs ih => simp [List.flatMap_cons, ih]
  · simp only [hk, Bool.false_eq_true, if_false]
    exact ⟨NL.refl C, hD⟩

theorem outPass_nl (D : List String) (ds : List Decl) (C : Circ) (hd : ∀ n ∈ outputNames ds, n ∈ D) (hD : ForksIn D C) :
    NL C (outPass ds C) [] (ds.flatMap outLines) := by
  have := nl_foldl (ForksIn D) outDecl (fun _ => []) outLines ds (fun C d hdm hC => outDecl_nl D C d (by
    intro hk n hn
    apply hd
    unfold outputNames
    exact List.mem_flatMap.mpr ⟨d, List.mem_filter.mpr ⟨hdm, by simp [hk]⟩, hn⟩) hC) C hD
  exact this.1.of_eq (by simp) rfl

theorem outLines_flat (ds : List Decl) :
    ds.flatMap outLines = (outputNames ds).map fun n => (⟨.fork n, .cell n 0, none⟩ : LineM) := by
  unfold outputNames
  induction ds with
  | nil => rfl
  | cons d r ih =>
    simp only [List.flatMap_cons, List.filter_cons, ih]
    unfold outLines
    cases hk : d.kind <;> simp

end KV.Netlist
