import KyupyVerif.Proofs.GridLanes
/-! CPU vs GPU-kernel code path of the propagation (`level_eval_cpu` vs `wave_eval_gpu`, `c_prop` of both classes):
thread = loop body, level = level, `c_prop` = `c_prop`, for every evaluator function, op table, level table, lane count
and block shape. -/
namespace KV.WaveIO
open KV.Grid

/-- the work item `(sim, op)` of a level starting at `opStart`: the loop body of `level_eval_cpu` -/
def evalWork (ev : Ev) (ops : List AOp) (opStart : Nat) (x y : Nat) : LaneSt → LaneSt :=
  cpuBody ev (ops.getD (opStart + y) default) x

/-- **thread = loop body.** Thread `(x, y)` of `wave_eval_gpu` does nothing when `sim_start + x ≥ sim_stop` or
    `op_start + y ≥ op_stop`; otherwise it performs exactly the body of the CPU loops for `sim = sim_start + x`,
    `op_idx = op_start + y` (same evaluation, same accumulation) and touches lane `sim` only. -/
theorem gpuEvalThread_eq (ev : Ev) (ops : List AOp) (opStart opStop simStart simStop x y : Nat) (S : Nat → LaneSt) :
    gpuEvalThread ev ops opStart opStop simStart simStop x y S =
      if simStart + x < simStop ∧ opStart + y < opStop then
        onLane S (simStart + x) (cpuBody ev (ops.getD (opStart + y) default) (simStart + x))
      else S := by
  unfold gpuEvalThread
  by_cases h1 : simStart + x ≥ simStop
  · have : ¬ (simStart + x < simStop ∧ opStart + y < opStop) := by omega
    simp only [h1, if_true, this, if_false]
  · by_cases h2 : opStart + y ≥ opStop
    · have : ¬ (simStart + x < simStop ∧ opStart + y < opStop) := by omega
      simp only [h1, h2, if_true, if_false, this]
    · have : simStart + x < simStop ∧ opStart + y < opStop := by omega
      simp only [h1, h2, if_false, this, and_self, if_true]
      rfl

theorem foldl_range'_shift {β} (f : β → Nat → β) (a n : Nat) (s : β) :
    (List.range' a n).foldl f s = (List.range n).foldl (fun s y => f s (a + y)) s := by
  rw [List.range'_eq_map_range, List.foldl_map]

/-- the two nested loops of `level_eval_cpu` (with `sim_start = 0`) visit the work items in the order `Grid.cpuLoop` -/
theorem cpuLevel_eq_runLanes (ev : Ev) (ops : List AOp) (opStart opStop sims : Nat) (S : Nat → LaneSt) :
    cpuLevel ev ops opStart opStop 0 sims S = runLanes (evalWork ev ops opStart) (cpuLoop sims (opStop - opStart)) S := by
  unfold cpuLevel runLanes cpuLoop
  rw [List.foldl_flatMap, foldl_range'_shift]
  congr 1
  funext S y
  rw [List.foldl_map, Nat.sub_zero, ← List.range_eq_range']
  rfl

/-- one kernel launch of `WaveSimCuda.c_prop` = the guarded threads, each doing its work item on its lane -/
theorem gpuLevel_eq_runLanes (ev : Ev) (ops : List AOp) (opStart opStop sims bx by_ : Nat) (S : Nat → LaneSt) :
    gpuLevel ev ops opStart opStop sims bx by_ S =
      runLanes (evalWork ev ops opStart) (kernelThreads sims (opStop - opStart) bx by_) S := by
  unfold gpuLevel runLanes kernelThreads
  rw [← launch_guarded (fun p S => onLane S p.1 (evalWork ev ops opStart p.1 p.2))]
  congr 1
  funext S p
  rw [gpuEvalThread_eq]
  simp only [Nat.zero_add]
  by_cases h1 : p.1 < sims <;> by_cases h2 : p.2 < opStop - opStart
  · have : opStart + p.2 < opStop := by omega
    simp only [h1, h2, this, and_self, if_true]; rfl
  · have : ¬ opStart + p.2 < opStop := by omega
    simp only [h1, h2, this, and_false, if_false]
  · have : opStart + p.2 < opStop := by omega
    simp only [h1, h2, false_and, if_false]
  · simp only [h1, h2, false_and, if_false]

/-- **a whole level.** The kernel launch (every block shape) leaves the same `c` and `abuf` as the CPU loops — all lanes,
    all cells, stale ones included — for every evaluator, every op table and every level range, without any
    assumption on the ops of the level (the mock launcher keeps the op order within each lane). -/
theorem gpuLevel_eq_cpuLevel (ev : Ev) (ops : List AOp) (opStart opStop sims bx by_ : Nat) (hbx : 0 < bx) (hby : 0 < by_)
    (S : Nat → LaneSt) : gpuLevel ev ops opStart opStop sims bx by_ S = cpuLevel ev ops opStart opStop 0 sims S := by
  rw [gpuLevel_eq_runLanes, cpuLevel_eq_runLanes]
  exact runLanes_kernel_eq_cpuLoop _ _ _ _ _ hbx hby S

/-- what a level does to lane `k`: the ops `op_start, …, op_stop - 1` in this order on lanes `k < sims`, nothing elsewhere -/
theorem cpuLevel_lane (ev : Ev) (ops : List AOp) (opStart opStop sims : Nat) (S : Nat → LaneSt) (k : Nat) :
    cpuLevel ev ops opStart opStop 0 sims S k =
      if k < sims then (List.range (opStop - opStart)).foldl (fun st y => evalWork ev ops opStart k y st) (S k) else S k := by
  rw [cpuLevel_eq_runLanes, runLanes_cpuLoop]

/-- **whole `c_prop`**, by induction over the levels -/
theorem gpuCProp_eq_cpuCProp (ev : Ev) (ops : List AOp) (levels : List (Nat × Nat)) (sims bx by_ : Nat)
    (hbx : 0 < bx) (hby : 0 < by_) (S : Nat → LaneSt) :
    gpuCProp ev ops levels sims bx by_ S = cpuCProp ev ops levels sims S := by
  unfold gpuCProp cpuCProp
  induction levels generalizing S with
  | nil => rfl
  | cons lv r ih =>
    simp only [List.foldl_cons]
    rw [gpuLevel_eq_cpuLevel ev ops lv.1 lv.2 sims bx by_ hbx hby]
    exact ih _

/-- lanes at or beyond `sims` (the `k` of `c_prop(sims=k)`) are not touched by either path -/
theorem cpuCProp_lane_ge (ev : Ev) (ops : List AOp) (levels : List (Nat × Nat)) (sims : Nat) (S : Nat → LaneSt) (k : Nat)
    (hk : sims ≤ k) : cpuCProp ev ops levels sims S k = S k := by
  unfold cpuCProp
  induction levels generalizing S with
  | nil => rfl
  | cons lv r ih =>
    simp only [List.foldl_cons]
    rw [ih, cpuLevel_lane, if_neg (by omega)]

end KV.WaveIO
