import KyupyVerif.Proofs.SpecBase
/-! Hazard abstraction (C05): when the 8-valued composition yields a plain 0/1 on waveform-valued
operands, the Boolean formula is constant on every vector that agrees with the final values of the
operands without activity. -/
namespace KV

def agreesInactive (v : V3) (b : Bool) : Bool := v.p2 || (b == v.p0)

def hazard8 (name : String) : Bool :=
  match comp8 name, formulaF name with
  | some f, some g =>
    waveVals.all fun a => waveVals.all fun b => waveVals.all fun c => waveVals.all fun d =>
      match (f a b c d).isConst, (f a b c d).p0 with   -- forces one evaluation of the composition per row
      | false, _ => true
      | true, true => bools.all fun a' => bools.all fun b' => bools.all fun c' => bools.all fun d' =>
          !(agreesInactive a a' && agreesInactive b b' && agreesInactive c c' && agreesInactive d d') ||
            (g a' b' c' d' == true)
      | true, false => bools.all fun a' => bools.all fun b' => bools.all fun c' => bools.all fun d' =>
          !(agreesInactive a a' && agreesInactive b b' && agreesInactive c c' && agreesInactive d d') ||
            (g a' b' c' d' == false)
  | _, _ => false

theorem hazard8_all : primNames.all hazard8 = true := by decide +kernel

theorem comp8_hazard {name : String} (hn : name ∈ primNames) :
    ∃ f g, comp8 name = some f ∧ formulaF name = some g ∧
      ∀ a b c d : V3, a.isWave → b.isWave → c.isWave → d.isWave →
      (f a b c d).isConst = true → ∀ a' b' c' d' : Bool,
        agreesInactive a a' → agreesInactive b b' → agreesInactive c c' → agreesInactive d d' →
        g a' b' c' d' = (f a b c d).p0 := by
  have h := List.all_eq_true.mp hazard8_all _ hn
  unfold hazard8 at h
  split at h
  · rename_i f g hf hg
    refine ⟨f, g, hf, hg, ?_⟩
    intro a b c d ha hb hc hd hconst a' b' c' d' ga gb gc gd
    simp only [List.all_eq_true] at h
    have := h a (mem_waveVals ha) b (mem_waveVals hb) c (mem_waveVals hc) d (mem_waveVals hd)
    rw [hconst] at this
    cases hp : (f a b c d).p0 <;> rw [hp] at this <;> simp only [List.all_eq_true] at this <;>
      have := this a' (bools_mem a') b' (bools_mem b') c' (bools_mem c') d' (bools_mem d') <;>
      simp only [ga, gb, gc, gd, Bool.and_self, Bool.not_true, Bool.false_or, beq_iff_eq] at this <;>
      exact this
  · exact absurd h (by simp)

end KV
