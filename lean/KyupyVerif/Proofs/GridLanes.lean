import KyupyVerif.Proofs.Grid
import KyupyVerif.Model.WaveIO
/-! Lane-local kernels: a kernel whose thread `(x, y)` touches lane `x` only leaves, under the mock launcher, on every lane
`x < n` the result of running the work items `y = 0, …, m-1` in increasing order — the order of the CPU loops — and nothing on
the other lanes. No independence between the work items of one lane is needed (the launch keeps their order); independence
between lanes is structural. -/
namespace KV.Grid
open KV.WaveIO

/-- run a list of threads; thread `p` acts on lane `p.1` by `work p.1 p.2` -/
def runLanes {σ} (work : Nat → Nat → σ → σ) (l : List (Nat × Nat)) (S : Nat → σ) : Nat → σ :=
  l.foldl (fun S p => onLane S p.1 (work p.1 p.2)) S

/-- the `y` coordinates of the threads of lane `k`, in launch order -/
def laneSeq (l : List (Nat × Nat)) (k : Nat) : List Nat := (l.filter fun p => p.1 == k).map (·.2)

theorem runLanes_lane {σ} (work : Nat → Nat → σ → σ) (l : List (Nat × Nat)) (S : Nat → σ) (k : Nat) :
    runLanes work l S k = (laneSeq l k).foldl (fun st y => work k y st) (S k) := by
  induction l generalizing S with
  | nil => rfl
  | cons p r ih =>
    simp only [runLanes, List.foldl_cons] at ih ⊢
    rw [ih]
    unfold laneSeq
    by_cases h : p.1 = k
    · subst h
      simp [onLane]
    · have h' : (p.1 == k) = false := by simp [h]
      have hk : ¬ k = p.1 := fun e => h e.symm
      simp [onLane, h', hk]

/-- in the launch order, threads of the same lane appear with increasing `y` -/
theorem launch_sorted (gx gy bx by_ : Nat) :
    (launch gx gy bx by_).Pairwise (fun p q => p.1 = q.1 → p.2 < q.2) := by
  unfold launch
  simp only [List.pairwise_flatMap, List.pairwise_map]
  refine ⟨fun a _ => ⟨fun b _ => ⟨fun c _ => ?_, ?_⟩, ?_⟩, ?_⟩
  · refine List.Pairwise.imp ?_ (List.pairwise_lt_range (n := by_))
    intro d d' hlt _
    show b * by_ + d < b * by_ + d'
    omega
  · refine List.Pairwise.imp ?_ (List.pairwise_lt_range (n := bx))
    intro c c' hlt x hx y hy
    simp only [List.mem_map, List.mem_range] at hx hy
    obtain ⟨d, _, rfl⟩ := hx; obtain ⟨d', _, rfl⟩ := hy
    intro h; simp only at h; omega
  · refine List.Pairwise.imp_of_mem ?_ (List.pairwise_lt_range (n := gy))
    intro b b' _ _ hlt x hx y hy
    simp only [List.mem_flatMap, List.mem_map, List.mem_range] at hx hy
    obtain ⟨c, _, d, hd, rfl⟩ := hx; obtain ⟨c', _, d', hd', rfl⟩ := hy
    intro _
    show b * by_ + d < b' * by_ + d'
    have : (b + 1) * by_ ≤ b' * by_ := Nat.mul_le_mul_right _ hlt
    rw [Nat.add_mul] at this
    omega
  · refine List.Pairwise.imp_of_mem ?_ (List.pairwise_lt_range (n := gx))
    intro a a' _ _ hlt x hx y hy
    simp only [List.mem_flatMap, List.mem_map, List.mem_range] at hx hy
    obtain ⟨b, _, c, hc, d, _, rfl⟩ := hx; obtain ⟨b', _, c', hc', d', _, rfl⟩ := hy
    intro h; simp only at h
    have := (divmod_unique hc hc' h).1
    omega

theorem cpuLoop_sorted (n m : Nat) : (cpuLoop n m).Pairwise (fun p q => p.1 = q.1 → p.2 < q.2) := by
  unfold cpuLoop
  simp only [List.pairwise_flatMap, List.pairwise_map]
  refine ⟨fun y _ => ?_, ?_⟩
  · refine List.Pairwise.imp ?_ (List.pairwise_lt_range (n := n))
    intro a b hlt h
    have : a = b := h
    omega
  · refine List.Pairwise.imp ?_ (List.pairwise_lt_range (n := m))
    intro a b hlt x hx y hy
    simp only [List.mem_map, List.mem_range] at hx hy
    obtain ⟨_, _, rfl⟩ := hx; obtain ⟨_, _, rfl⟩ := hy
    intro _; exact hlt

/-- a list of work items that is lane-wise sorted and holds exactly the items `x < n`, `y < m` shows, on lane `k`, the
    sequence `0, …, m-1` (nothing if `k ≥ n`) -/
theorem laneSeq_of_sorted {l : List (Nat × Nat)} {n m : Nat}
    (hs : l.Pairwise (fun p q => p.1 = q.1 → p.2 < q.2)) (hmem : ∀ p, p ∈ l ↔ p.1 < n ∧ p.2 < m) (k : Nat) :
    laneSeq l k = if k < n then List.range m else [] := by
  have hsort : (laneSeq l k).Pairwise (· < ·) := by
    unfold laneSeq
    rw [List.pairwise_map]
    refine List.Pairwise.imp_of_mem ?_ (hs.filter _)
    intro p q hp hq h
    simp only [List.mem_filter, beq_iff_eq] at hp hq
    exact h (hp.2.trans hq.2.symm)
  have hm : ∀ y, y ∈ laneSeq l k ↔ k < n ∧ y < m := by
    intro y
    unfold laneSeq
    simp only [List.mem_map, List.mem_filter, beq_iff_eq]
    constructor
    · rintro ⟨p, ⟨hp, rfl⟩, rfl⟩; exact (hmem p).mp hp
    · intro h; exact ⟨(k, y), ⟨(hmem (k, y)).mpr h, rfl⟩, rfl⟩
  by_cases hk : k < n
  · rw [if_pos hk]
    refine List.Perm.eq_of_pairwise (le := (· < ·)) ?_ hsort List.pairwise_lt_range ?_
    · intro a b _ _ h1 h2; omega
    · refine (List.perm_ext_iff_of_nodup ?_ List.nodup_range).mpr ?_
      · exact hsort.imp (fun h => Nat.ne_of_lt h)
      · intro y; rw [hm, List.mem_range]; exact ⟨fun h => h.2, fun h => ⟨hk, h⟩⟩
  · rw [if_neg hk]
    exact List.eq_nil_iff_forall_not_mem.mpr fun y hy => hk ((hm y).mp hy).1

theorem laneSeq_kernelThreads (n m bx by_ : Nat) (hbx : 0 < bx) (hby : 0 < by_) (k : Nat) :
    laneSeq (kernelThreads n m bx by_) k = if k < n then List.range m else [] :=
  laneSeq_of_sorted ((launch_sorted _ _ _ _).filter _) (fun _ => mem_kernelThreads hbx hby) k

theorem laneSeq_cpuLoop (n m : Nat) (k : Nat) : laneSeq (cpuLoop n m) k = if k < n then List.range m else [] :=
  laneSeq_of_sorted (cpuLoop_sorted n m) (fun _ => mem_cpuLoop) k

/-- **a lane-local kernel under the mock launcher**: lane `k < n` receives the work items `0, …, m-1` in this order,
    the other lanes nothing — for every block shape -/
theorem runLanes_kernel {σ} (work : Nat → Nat → σ → σ) (n m bx by_ : Nat) (hbx : 0 < bx) (hby : 0 < by_)
    (S : Nat → σ) (k : Nat) :
    runLanes work (kernelThreads n m bx by_) S k =
      if k < n then (List.range m).foldl (fun st y => work k y st) (S k) else S k := by
  rw [runLanes_lane, laneSeq_kernelThreads n m bx by_ hbx hby]
  split <;> rfl

theorem runLanes_cpuLoop {σ} (work : Nat → Nat → σ → σ) (n m : Nat) (S : Nat → σ) (k : Nat) :
    runLanes work (cpuLoop n m) S k =
      if k < n then (List.range m).foldl (fun st y => work k y st) (S k) else S k := by
  rw [runLanes_lane, laneSeq_cpuLoop]
  split <;> rfl

/-- hence: the kernel launch and the CPU double loop over the same lane-local work items give the same state -/
theorem runLanes_kernel_eq_cpuLoop {σ} (work : Nat → Nat → σ → σ) (n m bx by_ : Nat) (hbx : 0 < bx) (hby : 0 < by_)
    (S : Nat → σ) : runLanes work (kernelThreads n m bx by_) S = runLanes work (cpuLoop n m) S := by
  funext k
  rw [runLanes_kernel work n m bx by_ hbx hby, runLanes_cpuLoop]

/-- a launch whose threads test the guards `x < n`, `y < m` themselves = the guarded threads only -/
theorem launch_guarded {β} (F : Nat × Nat → β → β) (n m gx gy bx by_ : Nat) (S : β) :
    (launch gx gy bx by_).foldl (fun S p => if p.1 < n ∧ p.2 < m then F p S else S) S =
      (active n m (launch gx gy bx by_)).foldl (fun S p => F p S) S := by
  unfold active
  rw [List.foldl_filter]
  congr 1
  funext S p
  by_cases h1 : p.1 < n <;> by_cases h2 : p.2 < m <;> simp [h1, h2]

end KV.Grid
