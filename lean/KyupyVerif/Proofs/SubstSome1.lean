import KyupyVerif.Proofs.SubstGen17
import KyupyVerif.Proofs.DanglingSome
/-! C10, audit finding 6 (progress of `substitute`), part 1: the loop `for n in impl.nodes` (`Node(...)` raises only on a name
clash) succeeds when the names of the added nodes are fresh, and `node_map` afterwards is defined exactly on the designated cell
and the nodes the loop adds; static conditions under which the look-ups `node_map[...]` of the two connecting loops succeed. -/
namespace KV.Transform
open KV

theorem keys_eq_kindNames (nn : NNet) : nn.keys = nn.kindNames.map keyOfKN := by
  simp only [NNet.keys, NNet.kindNames, List.map_map]
  apply List.map_congr_left
  intro i _
  rfl

theorem fold_some (m : NNet) (hn : String) (des : Option Nat) : ∀ (js : List Nat) (st : NNet × Array (Option Nat)),
    LI st.1 → MapLt st.2 st.1.net.nodes.size → ((js.filterMap (addedOne m hn des)).map keyOfKN).Nodup →
    (∀ k ∈ (js.filterMap (addedOne m hn des)).map keyOfKN, k ∉ st.1.keys) →
    ∃ st', js.foldlM (addImplNode m hn des) st = some st'
  | [], st, _, _, _, _ => ⟨st, rfl⟩
  | j :: js, st, li, ml, hnd, hfr => by
    simp only [List.foldlM_cons, Option.bind_eq_bind]
    cases ha : addedOne m hn des j with
    | none =>
      have e : addImplNode m hn des st j = some st := by rw [addImplNode_eq, ha]
      rw [e]
      simp only [Option.bind_some]
      simp only [List.filterMap_cons, ha] at hnd hfr
      exact fold_some m hn des js st li ml hnd hfr
    | some kn =>
      simp only [List.filterMap_cons, ha, List.map_cons, List.nodup_cons] at hnd
      simp only [List.filterMap_cons, ha, List.map_cons, List.mem_cons, forall_eq_or_imp] at hfr
      have hk : st.1.keys.contains (kn.2, kn.1 == "__fork__") = false := by
        have := hfr.1
        simpa [keyOfKN] using this
      obtain ⟨h', hadd⟩ : ∃ h', addNode st.1 kn.2 kn.1 = some h' := by
        unfold addNode; rw [hk]; exact ⟨_, rfl⟩
      have e : addImplNode m hn des st j = some (h', st.2.setIfInBounds j (some st.1.net.nodes.size)) := by
        rw [addImplNode_eq, ha]; dsimp only; rw [hadd]; rfl
      rw [e]
      simp only [Option.bind_some]
      have ob := addImplNode_obs m hn des st _ j e li ml
      apply fold_some m hn des js _ ob.2.2.1 ob.2.2.2.2.2 hnd.2
      intro k hk' hmem
      rw [keys_eq_kindNames, ob.1, ha] at hmem
      simp only [Option.toList_some, List.map_append, List.map_cons, List.map_nil, List.mem_append, List.mem_singleton] at hmem
      rcases hmem with hmem | hmem
      · rw [← keys_eq_kindNames] at hmem; exact hfr.2 k hk' hmem
      · exact hnd.1 (hmem ▸ hk')

theorem fold_mapDom (m : NNet) (hn : String) (des : Option Nat) : ∀ (js : List Nat) (st st' : NNet × Array (Option Nat)),
    js.foldlM (addImplNode m hn des) st = some st' →
    st'.2.size = st.2.size ∧ ∀ j, (st'.2.getD j none).isSome = true ↔
      ((st.2.getD j none).isSome = true ∨ (j ∈ js ∧ j < st.2.size ∧ (addedOne m hn des j).isSome = true))
  | [], st, st', he => by
    simp only [List.foldlM_nil] at he
    cases (Option.some.inj he)
    exact ⟨rfl, fun j => by simp⟩
  | j0 :: js, st, st', he => by
    simp only [List.foldlM_cons, Option.bind_eq_bind, Option.bind_eq_some_iff] at he
    obtain ⟨st1, h1, h2⟩ := he
    obtain ⟨s2, d2⟩ := fold_mapDom m hn des js st1 st' h2
    rw [addImplNode_eq] at h1
    cases ha : addedOne m hn des j0 with
    | none =>
      rw [ha] at h1
      cases (Option.some.inj h1)
      refine ⟨s2, fun j => ?_⟩
      rw [d2 j]
      constructor
      · rintro (h | ⟨h3, h4, h5⟩)
        · exact Or.inl h
        · exact Or.inr ⟨List.mem_cons_of_mem _ h3, h4, h5⟩
      · rintro (h | ⟨h3, h4, h5⟩)
        · exact Or.inl h
        · rcases List.mem_cons.mp h3 with e | e
          · subst e; rw [ha] at h5; exact absurd h5 (by simp)
          · exact Or.inr ⟨e, h4, h5⟩
    | some kn =>
      rw [ha] at h1
      simp only [Option.map_eq_some_iff] at h1
      obtain ⟨h', _, e⟩ := h1
      subst e
      simp only [Array.size_setIfInBounds] at s2 d2
      refine ⟨s2, fun j => ?_⟩
      rw [d2 j, mapGetD_set]
      constructor
      · rintro (h | ⟨h3, h4, h5⟩)
        · split at h
          · rename_i hc; exact Or.inr ⟨by rw [← hc.1]; exact List.mem_cons_self, by rw [← hc.1]; exact hc.2, by rw [← hc.1, ha]; rfl⟩
          · exact Or.inl h
        · exact Or.inr ⟨List.mem_cons_of_mem _ h3, h4, h5⟩
      · rintro (h | ⟨h3, h4, h5⟩)
        · left; split
          · rfl
          · exact h
        · rcases List.mem_cons.mp h3 with e | e
          · left; rw [if_pos ⟨e.symm, e ▸ h4⟩]; rfl
          · exact Or.inr ⟨e, h4, h5⟩

theorem addedOne_isSome_hn (m : NNet) (hn hn' : String) (des : Option Nat) (j : Nat) :
    (addedOne m hn des j).isSome = (addedOne m hn' des j).isSome := by
  unfold addedOne
  dsimp only
  split
  · split <;> rfl
  · split
    · rfl
    · split <;> rfl

theorem phase1_map (h : NNet) (c : Nat) (m : NNet) (des : Option Nat) :
    (phase1 h c m des).2.size = m.net.nodes.size ∧
    ∀ j, ((phase1 h c m des).2.getD j none).isSome = true ↔ (des = some j ∧ j < m.net.nodes.size) := by
  cases des with
  | none =>
    simp only [phase1]
    refine ⟨by simp, fun j => ?_⟩
    rw [getD_replicate_none]; simp
  | some dn =>
    simp only [phase1]
    refine ⟨by simp, fun j => ?_⟩
    rw [mapGetD_set, getD_replicate_none]
    simp only [Array.size_replicate, Option.some.injEq]
    constructor
    · intro h; split at h
      · rename_i hc; exact ⟨hc.1, hc.1 ▸ hc.2⟩
      · simp at h
    · rintro ⟨e, hlt⟩; rw [if_pos ⟨e, e ▸ hlt⟩]; rfl

/-- `node_map` after the loop over the implementation's nodes -/
theorem fold_mapped (h : NNet) (c : Nat) (m : NNet) (des : Option Nat) (st' : NNet × Array (Option Nat))
    (he : (List.range m.net.nodes.size).foldlM (addImplNode m (h.names.getD c "") des) (phase1 h c m des) = some st') (j : Nat) :
    (st'.2.getD j none).isSome = mappedB m des j := by
  obtain ⟨_, d⟩ := fold_mapDom m _ des _ _ _ he
  obtain ⟨s0, d0⟩ := phase1_map h c m des
  rw [Bool.eq_iff_iff, d j, d0 j, s0]
  simp only [mappedB, Bool.and_eq_true, decide_eq_true_eq, Bool.or_eq_true, beq_iff_eq, List.mem_range]
  rw [addedOne_isSome_hn m (h.names.getD c "") "" des j]
  constructor
  · rintro (⟨h1, h2⟩ | ⟨h1, _, h3⟩)
    · exact ⟨h2, Or.inl h1⟩
    · exact ⟨h1, Or.inr h3⟩
  · rintro ⟨h1, h2 | h2⟩
    · exact Or.inl ⟨h2, h1⟩
    · exact Or.inr ⟨h1, h1, h2⟩

theorem inTarget_some (m : NNet) (sh : Shape) (map : Array (Option Nat)) (hs : implShape m = some sh) (ht : targetsOKB m = true)
    (hmap : ∀ j, (map.getD j none).isSome = mappedB m sh.des j) (inn : Nat) (hin : inn ∈ sh.inPorts)
    (hig : ((m.net.node inn).outs.length == 0) = false) : ∃ p, inTarget m map inn = some p := by
  simp only [targetsOKB, hs, Bool.and_eq_true, List.all_eq_true] at ht
  have := ht.1 inn hin
  rw [hig, Bool.false_or] at this
  unfold inTarget
  dsimp only
  split at this
  · rename_i h1
    rw [if_pos h1]
    split at this
    · rename_i l hl
      rw [hl]
      dsimp only
      rw [← hmap] at this
      cases hm : map.getD (m.net.line l).reader none with
      | none => rw [hm] at this; exact absurd this (by simp)
      | some x => exact ⟨_, rfl⟩
    · exact absurd this (by simp)
  · rename_i h1
    rw [if_neg h1]
    rw [← hmap] at this
    cases hm : map.getD inn none with
    | none => rw [hm] at this; exact absurd this (by simp)
    | some x => exact ⟨_, rfl⟩

theorem outTarget_some (m : NNet) (sh : Shape) (map : Array (Option Nat)) (hs : implShape m = some sh) (ht : targetsOKB m = true)
    (hmap : ∀ j, (map.getD j none).isSome = mappedB m sh.des j) (l : Nat) (hl : l ∈ sh.outLines) :
    ∃ p, outTarget m map l = some p := by
  simp only [targetsOKB, hs, Bool.and_eq_true, List.all_eq_true] at ht
  have := ht.2 l hl
  unfold outTarget
  dsimp only
  split at this
  · rename_i h1
    rw [if_pos h1]
    rw [← hmap] at this
    cases hm : map.getD (m.net.line l).reader none with
    | none => rw [hm] at this; exact absurd this (by simp)
    | some x => exact ⟨_, rfl⟩
  · rename_i h1
    rw [if_neg h1]
    rw [← hmap] at this
    cases hm : map.getD (m.net.line l).driver none with
    | none => rw [hm] at this; exact absurd this (by simp)
    | some x => exact ⟨_, rfl⟩

/-- the loop over the output pins never fails when the look-ups succeed -/
theorem connectOuts_some (m : NNet) (map : Array (Option Nat)) : ∀ (pins : List (Nat × Option Nat)) (st : Net × List (Option Nat)),
    (∀ p ∈ pins, ∃ q, outTarget m map p.1 = some q) → ∃ st', connectOuts m map pins st = some st'
  | [], st, _ => ⟨st, rfl⟩
  | (l, none) :: rest, (net, dang), h => by
    rw [connectOuts]
    exact connectOuts_some m map rest _ (fun p hp => h p (List.mem_cons_of_mem _ hp))
  | (l, some ll) :: rest, (net, dang), h => by
    obtain ⟨q, hq⟩ := h (l, some ll) List.mem_cons_self
    rw [connectOuts]
    dsimp only at hq
    rw [hq]
    exact connectOuts_some m map rest _ (fun p hp => h p (List.mem_cons_of_mem _ hp))

end KV.Transform
