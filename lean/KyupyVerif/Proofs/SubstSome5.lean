import KyupyVerif.Proofs.SubstSome4
/-! C10, audit 2 finding 6: the invariants of the PROGRESS theorem `substitute_isSome` are preserved by a substitution, so that the
next substitution of a `resolve_tlib_cells` run finds them again: the result of `substitute` is well-formed up to trailing `None`s
(`WFm`) and its forks are gap-free (`FD`).  `remove_dangling_nodes` keeps the forks gap-free (`removeDangling_fd`: every
`Line.remove()` squeezes the fork it leaves, `Node.remove()` only renumbers). -/
namespace KV.Transform
open KV

/-- `remove_dangling_nodes` keeps the fork outputs gap-free -/
theorem removeDangling_fd : ∀ (fuel : Nat) (nn : NNet) (own : List Nat) (stack : List (Option Nat)) (nn' : NNet),
    WFm nn → FD nn.net → (∀ x ∈ own, x < nn.net.nodes.size) → removeDangling fuel nn own stack = some nn' → FD nn'.net
  | 0, _, _, _, _, _, _, _, h => by simp [removeDangling] at h
  | fuel + 1, nn, own, [], nn', _, fd, _, h => by
    simp only [removeDangling] at h
    cases h
    exact fd
  | fuel + 1, nn, own, none :: rest, nn', w, fd, ho, h => by
    rw [removeDangling] at h
    exact removeDangling_fd fuel nn own rest nn' w fd ho h
  | fuel + 1, nn, own, some root :: rest, nn', w, fd, ho, h => by
    have skip := removeDangling_fd fuel nn own rest nn' w fd ho
    rw [removeDangling] at h
    dsimp only at h
    split at h
    · exact skip h
    · rename_i houts
      split at h
      · exact skip h
      · rename_i hio
        split at h
        · exact skip h
        · split at h
          · exact skip h
          · rename_i hown
            have hmem : root ∈ own := by simpa using hown
            have hroot := ho root hmem
            have hio' : root ∉ nn.net.io := by simpa using hio
            have houts' := outs_all_none (l := (nn.net.node root).outs) (by simpa using houts)
            have iv0 : RLInv nn root nn.net ((nn.net.node root).ins.filterMap id) id Ren.id := by
              refine ⟨w, (Emb.refl nn w.io (fun l hl => (w.back l hl).1)).weaken (fun _ _ h => absurd h id), hroot, hio', ?_, ?_, ?_,
                houts', fun _ => rfl, fun l hl _ => ⟨l, hl, rfl⟩, fun l0 hl0 => by
                  obtain ⟨k, hk⟩ := (mem_filterMap_id _ l0).mp hl0
                  exact (w.fwdIn root hroot k l0 hk).2.1⟩
              · intro l0 hl0
                obtain ⟨k, hk⟩ := (mem_filterMap_id _ l0).mp hl0
                obtain ⟨a1, a2, _⟩ := w.fwdIn root hroot k l0 hk
                exact ⟨l0, rfl, a1, rfl, a2⟩
              · apply nodup_filterMap_id
                intro k1 k2 y h1 h2
                have e1 := (w.fwdIn root hroot k1 y (by simp [List.getD_eq_getElem?_getD, h1])).2.2
                have e2 := (w.fwdIn root hroot k2 y (by simp [List.getD_eq_getElem?_getD, h2])).2.2
                rw [← e1, ← e2]
              · intro k l' hp
                exact (mem_filterMap_id _ l').mpr ⟨k, hp⟩
            obtain ⟨net', hrl, fd', _⟩ := removeLines_some nn root _ nn.net id Ren.id iv0 fd
            rw [hrl] at h
            dsimp only at h
            have w' := (removeRoot_emb nn w root hroot hio' houts' net' hrl).1
            have hns : net'.nodes.size = nn.net.nodes.size := by
              obtain ⟨_, _, ivf⟩ := removeLines_inv nn root _ nn.net id Ren.id net' iv0 hrl
              have h1 := ivf.wfm.names
              have h2 := w.names
              exact h1.symm.trans h2
            have hroot' : root < ({ nn with net := net' } : NNet).net.nodes.size := by rw [hns]; exact hroot
            have fd'' := FD_delNode { nn with net := net' } root hroot' fd'
            have hsz' := delNode_sizes { nn with net := net' } root
            refine removeDangling_fd fuel _ _ _ nn' w' fd'' ?_ h
            intro y hy
            obtain ⟨x0, hx0, e⟩ := List.mem_filterMap.mp hy
            have hx0' := ho x0 hx0
            rw [hsz'.1]
            show y < net'.nodes.size - 1
            rw [hns]
            simp only [mvNode, beq_iff_eq, Option.some.injEq] at e
            split at e
            · exact absurd e (by simp)
            · split at e
              · cases e; omega
              · cases e; omega

/-- **one substitution preserves the invariants of the progress theorem**: under the hypotheses of `substitute_some` the result is
    well-formed up to trailing `None`s and its forks are gap-free -/
theorem substitute_inv (h m h' : NNet) (c : Nat) (w : WFm h) (fd : FD h.net) (mw : WF m) (hc : c < h.net.nodes.size)
    (hio : c ∉ h.net.io) (hcf : (h.net.node c).isFork = false) (hok : implGenOKB m = true) (ht : targetsOKB m = true)
    (hns : noSelfIgnB h c m = true) (hfresh : addFreshB h c m = true)
    (har : ∀ sh, implShape m = some sh →
      (h.net.node c).ins.length ≤ sh.inPorts.length ∧ (h.net.node c).outs.length ≤ sh.outLines.length)
    (he : substitute h c m = some h') : WFm h' ∧ FD h'.net := by
  obtain ⟨sh, hs, k2, k3, k4⟩ := implGenOKB_spec m hok
  have hself := noSelfIgnB_spec h c m sh hs hns
  obtain ⟨hil, hol⟩ := har sh hs
  obtain ⟨h5, map, dang, hcore, hdn, _⟩ := core_some h c m sh hs w fd hc hil hol hfresh ht hself hio
  obtain ⟨wfm5, hmapLt⟩ := core_wfm h m c w mw hc hio hcf sh hs k2 k3 k4 hself h5 map dang hcore
  obtain ⟨dd, wd, _⟩ := densNN_densM (map.toList.filterMap id) h5 wfm5
  have ho : ∀ x ∈ map.toList.filterMap id, x < (densNN h5 (map.toList.filterMap id)).net.nodes.size := by
    intro x hx
    obtain ⟨k, hk⟩ := mem_map_values map x hx
    rw [dd.nsize]
    exact hmapLt k x hk
  have fdd : FD (densNN h5 (map.toList.filterMap id)).net := by
    intro j hj
    have hj5 : j < h5.net.nodes.size := by rw [dd.nsize] at hj; exact hj
    show Dn ((map.toList.filterMap id).foldl densifyNode h5.net) j
    apply dn_densify
    by_cases hv : j ∈ map.toList.filterMap id
    · exact Or.inl hv
    · exact Or.inr (hdn j hj5 hv)
  unfold substitute at he
  rw [hcore] at he
  have he' : removeDangling (dang.length + h5.net.lines.size + 1) (densNN h5 (map.toList.filterMap id)) (map.toList.filterMap id) dang
      = some h' := he
  exact ⟨(removeDangling_emb _ _ _ _ h' wd ho he').1, removeDangling_fd _ _ _ _ h' wd fdd ho he'⟩

end KV.Transform
