import KyupyVerif.Drv.VerilogLib
import KyupyVerif.Proofs.ImplDatasheet2
/-! Capstone, part 6: the driver's Boolean certificate check `certsB` (Drv/VerilogLib.lean) implies the certificate hypothesis
`InstCert` of `C11.verilog_library_end_to_end` / `C10.resolve_datasheet_sem`. -/
namespace KV.Drv.VerilogLib
open KV KV.Transform KV.TL KV.DS

theorem rowOf_mem (libIdx : Nat) (kind : String) (cr : Cell) (h : rowOf libIdx kind = some cr) : cr ∈ Tech.cells := by
  unfold rowOf KV.Drv.ImplCert.findRow at h
  exact List.mem_of_find?_eq_some h

theorem instCertB_sound (lib : Lib) (row : String → Option Cell) (ord : String → List Nat) (h : NNet) (c : Nat)
    (hrow : ∀ k cr, row k = some cr → cr ∈ Tech.cells) (hc : instCertB lib row ord h c = true) :
    InstCert lib (fun k => (row k).getD emptyCell) ord h c := by
  unfold instCertB at hc
  simp only at hc
  cases hf : lib.find (h.net.node c).kind with
  | none => rw [hf] at hc; cases hc
  | some impl =>
    cases hr : row (h.net.node c).kind with
    | none => rw [hf, hr] at hc; cases hc
    | some cr =>
      rw [hf, hr] at hc
      simp only at hc
      cases hs : implShape impl with
      | none => rw [hs] at hc; cases hc
      | some sh =>
        rw [hs] at hc
        simp only [Bool.and_eq_true, List.contains_iff_mem] at hc
        obtain ⟨⟨⟨⟨⟨⟨⟨h1, h2⟩, h3⟩, h4⟩, h5⟩, h6⟩, h7⟩, h8⟩ := hc
        refine ⟨impl, sh, hf, hs, h1, h2, h3, h4, ?_, h6, ?_, ?_, h8⟩
        · simp only [hr, Option.getD_some]; exact h5
        · simp only [hr, Option.getD_some]; exact hrow _ _ hr
        · simp only [hr, Option.getD_some]; exact h7

theorem certsB_sound (lib : Lib) (row : String → Option Cell) (ord : String → List Nat) (h : NNet)
    (hrow : ∀ k cr, row k = some cr → cr ∈ Tech.cells) (hc : certsB lib row ord h = true) :
    ∀ c, c < h.net.nodes.size → (lib.find (h.net.node c).kind).isSome = true →
      InstCert lib (fun k => (row k).getD emptyCell) ord h c := by
  intro c hlt hs
  unfold certsB at hc
  have := List.all_eq_true.mp hc c (List.mem_range.mpr hlt)
  simp only [Bool.or_eq_true, Bool.not_eq_true'] at this
  rcases this with h1 | h1
  · rw [hs] at h1; cases h1
  · exact instCertB_sound lib row ord h c hrow h1

end KV.Drv.VerilogLib
