import KyupyVerif.Model.StilSim
import KyupyVerif.Proofs.Stil
import KyupyVerif.Proofs.NetSpec
import KyupyVerif.Proofs.AllCircMem
/-! Composition C18 ∘ C02: the simulation inside `tests_loc` (Model/StilSim.lean) instantiated with the real 8-valued dispatch
and the `SimOps` program; bridge `Circ` ↔ `Net`; rows of the stimulus; rows of the result. -/
namespace KV.StilSim
open KV KV.Stil KV.Sig

/-! ## the two `s_nodes` -/
theorem hasSub_eq (p l : List Char) : Stil.hasSub p l = isInfixChars p l := by
  induction l with
  | nil => rfl
  | cons c r ih => simp only [Stil.hasSub, isInfixChars, ih]

theorem lowerOf_eq (k : String) : lowerOf k = k.toLower.toList := by
  simp [lowerOf, String.toLower]

theorem isDff_eq (nd : NodeD) : Stil.hasSub "dff".toList (lowerOf nd.kind) = nd.isDff := by
  rw [hasSub_eq, lowerOf_eq]; rfl
theorem isLatch_eq (nd : NodeD) : Stil.hasSub "latch".toList (lowerOf nd.kind) = nd.isLatch := by
  rw [hasSub_eq, lowerOf_eq]; rfl

/-- **bridge.** If `Circ` and `Net` are views of the same circuit, `Circuit.s_nodes` of the STIL model is `s_nodes` of the
    netlist model, node index ↦ name -/
theorem sNodes_bridge {c : Circ} {net : Net} {names : List String} (h : compatB c net names = true) :
    c.sNodes = net.sNodes.map (nameAt names) := by
  simp only [compatB, Bool.and_eq_true, beq_iff_eq] at h
  obtain ⟨⟨_, hio⟩, hn⟩ := h
  unfold Circ.sNodes Net.sNodes
  rw [hio, hn, List.map_append, List.map_append, List.filter_map, List.filter_map, List.map_map, List.map_map]
  have e1 : ((fun n : String × String => Stil.hasSub "dff".toList (lowerOf n.2)) ∘
      fun n => (nameAt names n, (net.node n).kind)) = fun i => (net.node i).isDff := by
    funext n; exact isDff_eq (net.node n)
  have e2 : ((fun n : String × String => Stil.hasSub "latch".toList (lowerOf n.2)) ∘
      fun n => (nameAt names n, (net.node n).kind)) = fun i => (net.node i).isLatch := by
    funext n; exact isLatch_eq (net.node n)
  rw [e1, e2]
  rfl

/-! ## instantiation: real 8-valued dispatch, `SimOps` program with the generated prefix table -/
/-- the op program `SimOps` builds for the netlist (`strip_forks=False`), as in C01/C02 -/
abbrev ops8 (net : Net) (order : List Nat) : List Op := (genOps Gen.kindPrefixes net order false).map OpRow.toOp

theorem opsOf_eq (net : Net) (order : List Nat) : opsOf Gen.kindPrefixes net order = ops8 net order := rfl

/-- the signal values after `c_prop` for one init column -/
def valOf (net : Net) (order : List Nat) (col : List V3) : Nat → V3 := exec semL8 (ops8 net order) (envOf net col)

/-- **`nxtOf`**: the matrix `launch` as `tests_loc` reads it back from its 8-valued simulator, property mode -/
def nxtOf (c : Circ) (fl : File) (net : Net) (order : List Nat) : List (List V3) :=
  nxtOfG semL8 (opsOf Gen.kindPrefixes net order) .spec c fl net

/-! ## the stimulus -/
theorem envOf_ppi (net : Net) (col : List V3) (r : Nat) (hr : r < net.sNodes.length) :
    envOf net col (net.idx.ppi + r) = col.getD r V3.zero := by
  have h1 : net.idx.ppi + r < net.idx.ppo := by simp only [Net.idx]; omega
  simp [envOf, h1]

theorem envOf_outside (net : Net) (col : List V3) (x : Nat) (h : x < net.idx.ppi ∨ net.idx.ppo ≤ x) :
    envOf net col x = V3.zero := by
  unfold envOf
  split
  · omega
  · rfl

theorem envOf_zero (net : Net) (col : List V3) : envOf net col net.idx.zero = V3.zero :=
  envOf_outside net col _ (Or.inl (by simp only [Net.idx]; omega))

/-! ## the array executor of the driver -/
theorem getD_setIfInBounds (a : Array V3) (o : Nat) (v : V3) (ho : o < a.size) :
    (fun j => (a.setIfInBounds o v).getD j V3.zero) = upd (fun j => a.getD j V3.zero) o v := by
  funext j
  simp only [upd, Array.getD_eq_getD_getElem?, Array.getElem?_setIfInBounds]
  by_cases h : j = o
  · subst h; simp [ho]
  · have : ¬ o = j := fun e => h e.symm
    simp [h, this]

theorem execA_getD (sem : Nat → List V3 → V3) (ops : List Op) (a : Array V3) (h : ∀ op ∈ ops, op.out < a.size) :
    (fun j => (execA sem ops a).getD j V3.zero) = exec sem ops (fun j => a.getD j V3.zero) := by
  induction ops generalizing a with
  | nil => rfl
  | cons op ops ih =>
    have hs : (a.setIfInBounds op.out (sem op.code (op.ins.map fun i => a.getD i V3.zero))).size = a.size :=
      Array.size_setIfInBounds
    have := ih (a.setIfInBounds op.out (sem op.code (op.ins.map fun i => a.getD i V3.zero)))
      (fun o ho => by rw [hs]; exact h o (List.mem_cons_of_mem _ ho))
    simp only [execA, exec, List.foldl_cons] at this ⊢
    rw [this, getD_setIfInBounds _ _ _ (h op List.mem_cons_self)]
    rfl

theorem envOf_vector (net : Net) (col : List V3) :
    (fun j => (((List.range net.idx.len).map (envOf net col)).toArray).getD j V3.zero) = envOf net col := by
  funext j
  simp only [Array.getD_eq_getD_getElem?, List.getElem?_toArray, List.getElem?_map]
  by_cases hj : j < net.idx.len
  · simp [List.getElem?_range hj]
  · have : (List.range net.idx.len)[j]? = none := by simp; omega
    rw [this]
    have h2 : net.idx.ppo ≤ j := by simp only [Net.idx] at hj ⊢; omega
    simp [envOf_outside net col j (Or.inr h2)]

/-- the driver's rows are the model's rows, for every program whose outputs are signals of the netlist -/
theorem simRowA_eq (sem : Nat → List V3 → V3) (ops : List Op) (net : Net) (col : List V3)
    (h : ∀ op ∈ ops, op.out < net.idx.len) : simRowA sem ops net col = simRow sem ops net col := by
  unfold simRowA simRow
  simp only
  rw [execA_getD sem ops _ (by simpa using h), envOf_vector]

/-! ## the result rows -/
theorem simRow_length (sem : Nat → List V3 → V3) (ops : List Op) (net : Net) (col : List V3) :
    (simRow sem ops net col).length = net.sNodes.length := by simp [simRow]

theorem simRow_getD (sem : Nat → List V3 → V3) (ops : List Op) (net : Net) (col : List V3) (r : Nat) (d : V3)
    (hr : r < net.sNodes.length) :
    (simRow sem ops net col).getD r d = captured net (exec sem ops (envOf net col)) r := by
  simp [simRow, List.getD_eq_getElem?_getD, hr]

theorem captured_pin {net : Net} {val : Nat → V3} {r n l : Nat} (hn : net.sNodes[r]? = some n)
    (hl : (net.node n).inPin 0 = some l) : captured net val r = val l := by
  simp [captured, hn, hl]

theorem captured_open_state {net : Net} {val : Nat → V3} {r n : Nat} (hn : net.sNodes[r]? = some n)
    (hl : (net.node n).inPin 0 = none) (hr : net.io.length ≤ r) : captured net val r = V3.zero := by
  simp [captured, hn, hl, hr]

theorem captured_open_port {net : Net} {val : Nat → V3} {r n : Nat} (hn : net.sNodes[r]? = some n)
    (hl : (net.node n).inPin 0 = none) (hr : r < net.io.length) : captured net val r = V3.unassigned := by
  simp [captured, hn, hl, Nat.not_le.2 hr]

theorem nxtOf_get {c : Circ} {fl : File} {net : Net} {order : List Nat} {i : Nat} {p : Pat}
    (hp : (extract fl)[i]? = some p) :
    (nxtOf c fl net order)[i]? = some (simRow semL8 (ops8 net order) net (initCol (mapsPure .spec c fl) p)) := by
  simp [nxtOf, nxtOfG, List.getElem?_map, hp, opsOf_eq]

/-- the simulated matrix always has the shape `tests_loc` expects: one column per pattern, one row per `s_nodes` element -/
theorem nxtOf_shape {c : Circ} {fl : File} {net : Net} {names : List String} (order : List Nat)
    (h : compatB c net names = true) :
    (nxtOf c fl net order).length = (extract fl).length ∧ ∀ col ∈ nxtOf c fl net order, col.length = c.sNodes.length := by
  refine ⟨by simp [nxtOf, nxtOfG], ?_⟩
  intro col hc
  simp only [nxtOf, nxtOfG, List.mem_map] at hc
  obtain ⟨p, _, rfl⟩ := hc
  rw [simRow_length, sNodes_bridge h, List.length_map]

/-- row ↦ node: if row `r` of the STIL interface carries the name `x`, the `r`-th element of the netlist's `s_nodes` is a node named `x` -/
theorem row_node_at {c : Circ} {net : Net} {names : List String} (h : compatB c net names = true) {x : String} {r : Nat}
    (hg : c.sNodes[r]? = some x) :
    ∃ n, net.sNodes[r]? = some n ∧ nameAt names n = x ∧ r < net.sNodes.length := by
  have hb := sNodes_bridge h
  have hlt : r < c.sNodes.length := (List.getElem?_eq_some_iff.1 hg).1
  have hlen : c.sNodes.length = net.sNodes.length := by rw [hb, List.length_map]
  rw [hb, List.getElem?_map] at hg
  cases hn : net.sNodes[r]? with
  | none => rw [hn] at hg; cases hg
  | some n =>
    rw [hn] at hg
    exact ⟨n, rfl, by simpa using hg, by omega⟩

/-- … for the row of a scan cell / of a port (by role, audit finding 2) -/
theorem row_node {c : Circ} {net : Net} {names : List String} (h : compatB c net names = true) {x : String}
    (hx : x ∈ c.sNodes) :
    ∃ n, net.sNodes[c.cellRow x]? = some n ∧ nameAt names n = x ∧ c.cellRow x < net.sNodes.length :=
  row_node_at h (cellRow_get hx)

theorem row_node_port {c : Circ} {net : Net} {names : List String} (h : compatB c net names = true) {x : String}
    (hx : x ∈ c.sNodes) :
    ∃ n, net.sNodes[c.portRow x]? = some n ∧ nameAt names n = x ∧ c.portRow x < net.sNodes.length :=
  row_node_at h (portRow_get hx)

/-- **the simulation result is THE labelling consistent with the netlist** for the stimulus of one init column (instance of
    `C02.sim8_netlist_all_circuits`), hence every consistent labelling gives the captured rows -/
theorem captured_of_consistent (net : Net) (order : List Nat) (hwf : net.wfB = true) (ho : orderOKB net order = true)
    (hfk : forksOKB net order = true) (col : List V3) (σ : Nat → V3)
    (hσ : NetConsistent net order specNot prim8 (envOf net col) σ) {n l : Nat} (hl : (net.node n).inPin 0 = some l) :
    valOf net order col l = σ l := by
  have h1 := solves_iff_consistent net order hwf ho hfk specL8 specNot prim8 semSpec8 (envOf net col) σ
  have h2 := logic_all_circuits semL8 specL8 (fun _ h xs => semL8_eq_spec h xs) net order false hwf ho (envOf net col)
  exact (h2.2 σ (h1.mpr hσ) l (captured_not_junk hwf hl)).symm

/-- on every well-formed netlist the driver's array executor computes `nxtOf` -/
theorem nxtOfA_eq (c : Circ) (fl : File) (net : Net) (order : List Nat) (hwf : net.wfB = true)
    (ho : orderOKB net order = true) :
    nxtOfA semL8 (opsOf Gen.kindPrefixes net order) .spec c fl net = nxtOf c fl net order := by
  unfold nxtOfA nxtOf nxtOfG
  apply List.map_congr_left
  intro p _
  apply simRowA_eq
  intro op hop
  rcases genOps_out_line Gen.kindPrefixes net order false hwf ho op hop with h | h
  · rw [h]; simp only [Net.idx]; omega
  · simp only [Net.idx]; omega

theorem valOf_unique (net : Net) (order : List Nat) (hwf : net.wfB = true) (ho : orderOKB net order = true)
    (hfk : forksOKB net order = true) (col : List V3) (σ : Nat → V3)
    (hσ : NetConsistent net order specNot prim8 (envOf net col) σ) (y : Nat) (hy : y ≠ net.idx.tmp) :
    σ y = valOf net order col y := by
  have h1 := solves_iff_consistent net order hwf ho hfk specL8 specNot prim8 semSpec8 (envOf net col) σ
  have h2 := logic_all_circuits semL8 specL8 (fun _ h xs => semL8_eq_spec h xs) net order false hwf ho (envOf net col)
  exact h2.2 σ (h1.mpr hσ) y (by simp [Jt, hy])

theorem valOf_consistent (net : Net) (order : List Nat) (hwf : net.wfB = true) (ho : orderOKB net order = true)
    (hfk : forksOKB net order = true) (col : List V3) :
    NetConsistent net order specNot prim8 (envOf net col) (valOf net order col) := by
  have h1 := solves_iff_consistent net order hwf ho hfk specL8 specNot prim8 semSpec8 (envOf net col)
  have h2 := logic_all_circuits semL8 specL8 (fun _ h xs => semL8_eq_spec h xs) net order false hwf ho (envOf net col)
  exact (h1 _).mp h2.1

end KV.StilSim
