import KyupyVerif.Proofs.TransformSem2
/-! Helper lemmas for C10 (`elim_sem`), part 3: the invariant under which the splice is meaningful (`SI` = the pin/line
cross references of `NNet.wf` + forks have one input) and the accessor description of a splice under it. -/
namespace KV.Transform
open KV

structure SI (nn : NNet) : Prop where
  names : nn.names.size = nn.net.nodes.size
  io : ∀ j ∈ nn.net.io, j < nn.net.nodes.size
  back : ∀ l, l < nn.net.lines.size →
    (nn.net.line l).driver < nn.net.nodes.size ∧ (nn.net.line l).reader < nn.net.nodes.size ∧
    (nn.net.node (nn.net.line l).driver).outs.getD (nn.net.line l).dpin none = some l ∧
    (nn.net.node (nn.net.line l).reader).ins.getD (nn.net.line l).rpin none = some l
  fwdIn : ∀ i, i < nn.net.nodes.size → ∀ p l, (nn.net.node i).ins.getD p none = some l →
    l < nn.net.lines.size ∧ (nn.net.line l).reader = i ∧ (nn.net.line l).rpin = p
  fwdOut : ∀ i, i < nn.net.nodes.size → ∀ p l, (nn.net.node i).outs.getD p none = some l →
    l < nn.net.lines.size ∧ (nn.net.line l).driver = i ∧ (nn.net.line l).dpin = p
  fork1 : ∀ j, j < nn.net.nodes.size → (nn.net.node j).isFork = true → (nn.net.node j).ins.length ≤ 1

theorem SI.of_wf {nn : NNet} (w : WF nn) (hf : nn.forkIns1 = true) : SI nn := by
  refine ⟨w.names, w.io, w.back, w.fwdIn, w.fwdOut, ?_⟩
  intro j hj hfk
  simp only [NNet.forkIns1, List.all_eq_true, List.mem_range] at hf
  have := hf j hj
  simpa [hfk] using this

/-- the hypotheses under which `elimOne` splices at fork `i` (in-line `a`, out-line `b`) -/
structure SC (nn : NNet) (i a b : Nat) : Prop where
  si : SI nn
  hi : i < nn.net.nodes.size
  fork : (nn.net.node i).isFork = true
  nio : nn.net.io.contains i = false
  olen : (nn.net.node i).outs.length = 1
  hin : (nn.net.node i).ins.head? = some (some a)
  hout : (nn.net.node i).outs.head? = some (some b)
  hab : a ≠ b

section facts
variable {nn : NNet} {i a b : Nat} (c : SC nn i a b)
include c

theorem SC.ins_eq : (nn.net.node i).ins = [some a] := by
  have h1 := c.si.fork1 i c.hi c.fork
  have h2 := c.hin
  cases h : (nn.net.node i).ins with
  | nil => rw [h] at h2; simp at h2
  | cons x r =>
    rw [h] at h1 h2
    cases r with
    | nil => simp at h2; rw [h2]
    | cons y r' => simp at h1

theorem SC.outs_eq : (nn.net.node i).outs = [some b] := by
  have h1 := c.olen
  have h2 := c.hout
  cases h : (nn.net.node i).outs with
  | nil => rw [h] at h2; simp at h2
  | cons x r =>
    rw [h] at h1 h2
    cases r with
    | nil => simp at h2; rw [h2]
    | cons y r' => simp at h1

theorem SC.inPin_i (k x : Nat) (h : (nn.net.node i).ins.getD k none = some x) : k = 0 ∧ x = a := by
  rw [c.ins_eq] at h
  cases k with
  | zero => simp at h; exact ⟨rfl, h.symm⟩
  | succ k => simp at h

theorem SC.outPin_i (k x : Nat) (h : (nn.net.node i).outs.getD k none = some x) : k = 0 ∧ x = b := by
  rw [c.outs_eq] at h
  cases k with
  | zero => simp at h; exact ⟨rfl, h.symm⟩
  | succ k => simp at h

theorem SC.b_facts : b < nn.net.lines.size ∧ (nn.net.line b).driver = i ∧ (nn.net.line b).dpin = 0 :=
  c.si.fwdOut i c.hi 0 b (by rw [c.outs_eq]; rfl)

theorem SC.a_facts : a < nn.net.lines.size ∧ (nn.net.line a).reader = i ∧ (nn.net.line a).rpin = 0 :=
  c.si.fwdIn i c.hi 0 a (by rw [c.ins_eq]; rfl)

theorem SC.R_facts : (nn.net.line b).reader < nn.net.nodes.size ∧
    (nn.net.node (nn.net.line b).reader).ins.getD (nn.net.line b).rpin none = some b ∧ (nn.net.line b).reader ≠ i := by
  have hb := c.si.back b c.b_facts.1
  refine ⟨hb.2.1, hb.2.2.2, ?_⟩
  intro e
  have := hb.2.2.2
  rw [e] at this
  exact c.hab (c.inPin_i _ _ this).2.symm

theorem SC.drv_i (l : Nat) (hl : l < nn.net.lines.size) (h : (nn.net.line l).driver = i) : l = b := by
  have := (c.si.back l hl).2.2.1
  rw [h] at this
  exact (c.outPin_i _ _ this).2

theorem SC.rdr_i (l : Nat) (hl : l < nn.net.lines.size) (h : (nn.net.line l).reader = i) : l = a := by
  have := (c.si.back l hl).2.2.2
  rw [h] at this
  exact (c.inPin_i _ _ this).2

theorem SC.P_lt : (nn.net.line b).rpin < (nn.net.node (nn.net.line b).reader).ins.length :=
  getD_some_lt c.R_facts.2.1
end facts

/-! ### index renamings of a swap-with-last deletion -/
/-- new index ↦ old index -/
def nmN (n i j : Nat) : Nat := if j = i then n - 1 else j
/-- old index ↦ new index (for indices other than the deleted one) -/
def mvN (n i x : Nat) : Nat := if x = n - 1 then i else x

theorem nm_facts {n i j : Nat} (hi : i < n) (hj : j < n - 1) : nmN n i j < n ∧ nmN n i j ≠ i ∧ mvN n i (nmN n i j) = j := by
  unfold nmN mvN; split <;> (try split) <;> omega
theorem mv_facts {n i x : Nat} (hi : i < n) (hx : x < n) (hne : x ≠ i) : mvN n i x < n - 1 ∧ nmN n i (mvN n i x) = x := by
  unfold nmN mvN; split <;> (try split) <;> omega

theorem mvL_some {last b x : Nat} : mvL last b (some x) = some (mvN (last + 1) b x) := by
  simp only [mvL, mvN, Nat.add_sub_cancel]
  by_cases e : x = last <;> simp [e]
theorem mvL_none {last b : Nat} : mvL last b none = none := rfl

end KV.Transform

namespace KV.Transform
open KV

/-! ### the result of a splice through accessors -/
section result
variable {nn : NNet} {i a b : Nat} (c : SC nn i a b)
include c

omit c in
theorem splice_sizes : (splice nn i a b).net.nodes.size = nn.net.nodes.size - 1 ∧
    (splice nn i a b).net.lines.size = nn.net.lines.size - 1 := by
  have h := delNode_sizes (spliceMid nn i a b) i
  have m := spliceMid_sizes nn i a b
  unfold splice
  rw [h.1, h.2, m.1, m.2.1]; exact ⟨rfl, rfl⟩

theorem splice_node (j' : Nat) (hj : j' < nn.net.nodes.size - 1) :
    (splice nn i a b).net.node j' = (spliceMid nn i a b).net.node (nmN nn.net.nodes.size i j') := by
  have m := spliceMid_sizes nn i a b
  unfold splice
  rw [delNode_node _ i j' (by rw [m.1]; exact c.hi) (by rw [m.1]; exact hj), m.1]
  rfl

theorem splice_kind (j' : Nat) (hj : j' < nn.net.nodes.size - 1) :
    ((splice nn i a b).net.node j').kind = (nn.net.node (nmN nn.net.nodes.size i j')).kind := by
  rw [splice_node c j' hj, spliceMid_kind nn i a b _ (nm_facts c.hi hj).1]

theorem splice_inPin (j' k : Nat) (hj : j' < nn.net.nodes.size - 1) :
    ((splice nn i a b).net.node j').ins.getD k none =
      if nmN nn.net.nodes.size i j' = (nn.net.line b).reader ∧ k = (nn.net.line b).rpin then some (mvN nn.net.lines.size b a)
      else mvL (nn.net.lines.size - 1) b ((nn.net.node (nmN nn.net.nodes.size i j')).ins.getD k none) := by
  rw [splice_node c j' hj, spliceMid_inPin nn i a b _ k (nm_facts c.hi hj).1]
  simp [mvN]

theorem splice_outPin (j' k : Nat) (hj : j' < nn.net.nodes.size - 1) :
    ((splice nn i a b).net.node j').outs.getD k none =
      mvL (nn.net.lines.size - 1) b ((nn.net.node (nmN nn.net.nodes.size i j')).outs.getD k none) := by
  rw [splice_node c j' hj, spliceMid_outPin nn i a b _ k (nm_facts c.hi hj).1]
  simp [(nm_facts c.hi hj).2.1]

theorem splice_insLen (j' : Nat) (hj : j' < nn.net.nodes.size - 1) :
    ((splice nn i a b).net.node j').ins.length = (nn.net.node (nmN nn.net.nodes.size i j')).ins.length := by
  rw [splice_node c j' hj, spliceMid_insLen nn i a b _ (nm_facts c.hi hj).1]
  intro e; rw [e]; exact c.P_lt

theorem splice_line (l' : Nat) (hl : l' < nn.net.lines.size - 1) :
    (splice nn i a b).net.line l' =
      { driver := mvN nn.net.nodes.size i (nn.net.line (nmN nn.net.lines.size b l')).driver
        dpin := (nn.net.line (nmN nn.net.lines.size b l')).dpin
        reader := mvN nn.net.nodes.size i
          (if nmN nn.net.lines.size b l' = a then (nn.net.line b).reader else (nn.net.line (nmN nn.net.lines.size b l')).reader)
        rpin := if nmN nn.net.lines.size b l' = a then (nn.net.line b).rpin else (nn.net.line (nmN nn.net.lines.size b l')).rpin } := by
  have m := spliceMid_sizes nn i a b
  unfold splice
  rw [delNode_line _ i l' (by rw [m.2.1]; exact hl), spliceMid_line nn i a b l' hl, m.1]
  have ha := c.a_facts.1
  have hb := c.b_facts.1
  have hab := c.hab
  have hcond : (l' = if a = nn.net.lines.size - 1 then b else a) ↔ nmN nn.net.lines.size b l' = a := by
    simp only [nmN]
    constructor
    · intro h; split at h <;> split <;> omega
    · intro h; split at h <;> split <;> omega
  have hnm : (if l' = b then nn.net.lines.size - 1 else l') = nmN nn.net.lines.size b l' := rfl
  simp only [beq_iff_eq, hnm]
  by_cases e : nmN nn.net.lines.size b l' = a
  · have e' := hcond.mpr e
    simp only [if_pos e', if_pos e, mvN]
  · have e' : ¬ (l' = if a = nn.net.lines.size - 1 then b else a) := fun x => e (hcond.mp x)
    simp only [if_neg e', if_neg e, mvN]

omit c in
theorem splice_io : (splice nn i a b).net.io = nn.net.io.map (mvN nn.net.nodes.size i) := by
  have m := spliceMid_sizes nn i a b
  unfold splice
  rw [delNode_ioEq, m.1, m.2.2.2]
  apply List.map_congr_left
  intro j _; simp [mvN]

theorem splice_names (j' : Nat) (hj : j' < nn.net.nodes.size - 1) :
    (splice nn i a b).names.getD j' "" = nn.names.getD (nmN nn.net.nodes.size i j') "" := by
  have m := spliceMid_sizes nn i a b
  have hLI : LI (spliceMid nn i a b) := ⟨by rw [m.2.2.1, m.1]; exact c.si.names, by rw [m.2.2.2, m.1]; exact c.si.io⟩
  unfold splice
  rw [delNode_names_getD _ i j' hLI (by rw [m.1]; exact c.hi) (by rw [m.1]; exact hj), m.1, m.2.2.1]
  simp only [nmN]
  split <;> rfl
end result
end KV.Transform
