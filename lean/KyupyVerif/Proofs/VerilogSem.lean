import KyupyVerif.Proofs.VerilogNodes
import KyupyVerif.Proofs.CircLabel
/-! `parsed_sem` for the Verilog fragment `verilogOKB`: the labellings of `verilogNet …` consistent with the netlist are exactly
the labellings induced by the models of the module (`VModel`, Model/VerilogSem.lean), one model per labelling. -/
namespace KV.Netlist
open KV

universe u
variable {cfg : Cfg} {tl : TL} {ports : List String} {stmts : List Stmt}

/-- the flat lines as pairs -/
def vL (cfg : Cfg) (tl : TL) (stmts : List Stmt) : List (Ep × Ep) := (vFlat cfg tl (sigDecls stmts) stmts).map vl

theorem any_vL (e : Ep) : ((vL cfg tl stmts).any fun p => p.2 == e) = (vFlat cfg tl (sigDecls stmts) stmts).any fun t => t.r == e := by
  unfold vL
  rw [List.any_map]
  rfl

theorem inVal_cell_eq {α : Type u} (L : List (Ep × Ep)) (w : Ep → α) (nm : String) (p k : Nat) :
    inVal L w (.cell nm p) k = if L.any (fun q => q.2 == Ep.cell nm k) then some (w (.cell nm k)) else none := rfl

theorem inVal_fork_eq {α : Type u} (L : List (Ep × Ep)) (w : Ep → α) (s : String) :
    inVal L w (.fork s) 0 = if L.any (fun q => q.2 == Ep.fork s) then some (w (.fork s)) else none := rfl

/-- a fork with a line into it passes on what arrives -/
theorem driveVal_vfork {α : Type u} (z : α) (neg : α → α) (prim : String → α → α → α → α → α) (a : Nat → α) (w : Ep → α) (f : String)
    (h : ∃ t ∈ vFlat cfg tl (sigDecls stmts) stmts, t.r = .fork f) :
    driveVal (vL cfg tl stmts) forkKind none z neg prim a w (.fork f) = w (.fork f) := by
  have hany : ((vL cfg tl stmts).any fun p => p.2 == Ep.fork f) = true := by
    rw [any_vL, List.any_eq_true]
    obtain ⟨t, ht, hr⟩ := h
    exact ⟨t, ht, by simp [hr]⟩
  unfold driveVal
  simp only [beq_self_eq_true, if_true, inVal_fork_eq, hany, Option.getD_some]

/-- an input port cell puts its assigned value on its line -/
theorem driveVal_vinput {α : Type u} (z : α) (neg : α → α) (prim : String → α → α → α → α → α) (a : Nat → α) (w : Ep → α) (n : String)
    (pos : Nat) : driveVal (vL cfg tl stmts) "input" (some pos) z neg prim a w (.cell n 0) = a pos := by
  have h1 : (hasSub "dff" "input".toLower || hasSub "latch" "input".toLower) = false := by decide +kernel
  have h2 : ("input" == forkKind) = false := by decide +kernel
  unfold driveVal
  simp only [h1, Bool.false_eq_true, if_false, h2]
  cases inVal (vL cfg tl stmts) w (.cell n 0) 0 <;> rfl

/-- what arrives at input pin `k` of an instance: the signal connected there -/
theorem inVal_inst {α : Type u} (hok : VOK cfg tl ports stmts) (i : VInst) (hi : i ∈ vInsts stmts) (w : Ep → α) (σ : String → α)
    (hw : ∀ t ∈ vFlat cfg tl (sigDecls stmts) stmts, (∃ k, t.r = .cell i.name k) → w t.r = σ t.sig) (p k : Nat) :
    inVal (vL cfg tl stmts) w (.cell i.name p) k = (inSig tl i k).map σ := by
  rw [inVal_cell_eq, any_vL]
  cases hs : inSig tl i k with
  | none =>
    have : ((vFlat cfg tl (sigDecls stmts) stmts).any fun t => t.r == Ep.cell i.name k) = false := by
      rw [List.any_eq_false]
      intro t ht hr
      have := reader_cell_inst hok i hi k t ht (by simpa using hr)
      rw [hs] at this; cases this
    rw [this]; rfl
  | some s =>
    obtain ⟨c, hc, hk, hcs⟩ := (inSig_iff hok i hi k s).mp hs
    obtain ⟨t, ht, hr, hsig⟩ := inst_pin_line (cfg := cfg) i hi (sigDecls stmts) c hc
    rw [hk] at hr
    have : ((vFlat cfg tl (sigDecls stmts) stmts).any fun t => t.r == Ep.cell i.name k) = true := by
      rw [List.any_eq_true]; exact ⟨t, ht, by simp [hr]⟩
    rw [this]
    simp only [if_true, Option.map_some, Option.some.injEq]
    rw [← hr, hw t ht ⟨k, hr⟩, hsig, hcs]

/-- the cell of an instance puts `instVal` on output pin `idx` -/
theorem driveVal_vinst {α : Type u} (hok : VOK cfg tl ports stmts) (i : VInst) (hi : i ∈ vInsts stmts) (z : α) (neg : α → α)
    (prim : String → α → α → α → α → α) (a : Nat → α) (w : Ep → α) (σ : String → α)
    (hw : ∀ t ∈ vFlat cfg tl (sigDecls stmts) stmts, (∃ k, t.r = .cell i.name k) → w t.r = σ t.sig) (idx : Nat) :
    driveVal (vL cfg tl stmts) i.ty (if isSeqKind i.ty then some (vSPos ports stmts (.cell i.name 0)) else none)
      z neg prim a w (.cell i.name idx) = instVal tl z neg prim a (vSPos ports stmts (.cell i.name 0)) i idx σ := by
  have hk : (i.ty == forkKind) = false := by simp [hok.kinds i hi]
  unfold driveVal instVal
  by_cases hs : isSeqKind i.ty = true
  · have hs' : (hasSub "dff" i.ty.toLower || hasSub "latch" i.ty.toLower) = true := hs
    simp only [hs, if_true, hs', Ep.cpin]
    rfl
  · have hs' : (hasSub "dff" i.ty.toLower || hasSub "latch" i.ty.toLower) = false := by
      simpa [isSeqKind, isDffKind, isLatchKind] using hs
    simp only [hs, Bool.false_eq_true, if_false, hk, inVal_inst hok i hi w σ hw]
    cases inSig tl i 0 <;> cases inSig tl i 1 <;> cases inSig tl i 2 <;> cases inSig tl i 3 <;> rfl

/-! ## environments, end-point values, labellings -/

def vLabel {α : Type u} (cfg : Cfg) (tl : TL) (stmts : List Stmt) (σ : String → α) : Nat → α :=
  fun i => σ ((vSigs cfg tl stmts).getD i "")

/-- values at reader end points induced by an environment -/
def wOfV {α : Type u} (cfg : Cfg) (tl : TL) (stmts : List Stmt) (z : α) (σ : String → α) (e : Ep) : α :=
  match (vFlat cfg tl (sigDecls stmts) stmts).find? (fun t => t.r == e) with
  | some t => σ t.sig
  | none => z

theorem wOfV_line {α : Type u} (hok : VOK cfg tl ports stmts) (z : α) (σ : String → α) (t : VLine)
    (ht : t ∈ vFlat cfg tl (sigDecls stmts) stmts) : wOfV cfg tl stmts z σ t.r = σ t.sig := by
  unfold wOfV
  cases hf : (vFlat cfg tl (sigDecls stmts) stmts).find? (fun t' => t'.r == t.r) with
  | none =>
    rw [List.find?_eq_none] at hf
    have := hf t ht
    simp at this
  | some t' =>
    have h1 := List.mem_of_find?_eq_some hf
    have h2 : t'.r = t.r := by simpa using List.find?_some hf
    rw [vFlat_line_eq hok t' t h1 ht h2]

theorem vL_length : (vL cfg tl stmts).length = (vFlat cfg tl (sigDecls stmts) stmts).length := by simp [vL]

theorem vL_get (j : Nat) (hj : j < (vL cfg tl stmts).length) :
    (vL cfg tl stmts)[j] = vl ((vFlat cfg tl (sigDecls stmts) stmts)[j]'(by rw [← vL_length]; exact hj)) := by
  simp [vL]

theorem vLabel_eq {α : Type u} (σ : String → α) (j : Nat) (hj : j < (vFlat cfg tl (sigDecls stmts) stmts).length) :
    vLabel cfg tl stmts σ j = σ (vFlat cfg tl (sigDecls stmts) stmts)[j].sig := by
  unfold vLabel vSigs
  rw [List.getD_eq_getElem?_getD, List.getElem?_map, List.getElem?_eq_getElem hj]
  rfl

theorem module_flat' (hok : VOK cfg tl ports stmts) : flatLines (module cfg tl ports stmts) = vL cfg tl stmts := module_flat hok

theorem verilogNet_lines_size (hok : VOK cfg tl ports stmts) :
    (verilogNet cfg tl ports stmts).lines.size = (vFlat cfg tl (sigDecls stmts) stmts).length := by
  unfold verilogNet
  rw [toNet_lines_size, module_flat' hok, vL_length]

theorem v_resolved_all (hok : VOK cfg tl ports stmts) : ∀ p ∈ flatLines (module cfg tl ports stmts), (module cfg tl ports stmts).resolved p.1 := by
  intro p hp
  rw [module_flat' hok] at hp
  obtain ⟨t, ht, rfl⟩ := List.mem_map.mp hp
  exact v_resolved_driver hok t ht

/-- the signal read on a connected input pin is driven -/
theorem inConn_driven (hok : VOK cfg tl ports stmts) (i : VInst) (hi : i ∈ vInsts stmts) (c : String × Nat × String)
    (hc : c ∈ inConn tl i) : c.2.2 ∈ drivenSigs tl (sigDecls stmts) stmts := by
  have hp := List.all_eq_true.mp (List.all_eq_true.mp hok.pins i hi)
  unfold inConn at hc
  obtain ⟨ps, hps, hpc⟩ := List.mem_filterMap.mp hc
  have := hp ps hps
  unfold p2In at hpc
  unfold pinOK at this
  cases h1 : tl i.ty ps.1 with
  | none => rw [h1] at hpc; cases hpc
  | some v =>
    obtain ⟨idx, o⟩ := v
    cases o with
    | true => rw [h1] at hpc; cases hpc
    | false =>
      cases h2 : ps.2 with
      | many _ => rw [h1, h2] at hpc; cases hpc
      | one s =>
        rw [h1, h2] at hpc this
        simp only [Option.some.injEq] at hpc
        subst hpc
        simp only [Bool.and_eq_true, Bool.not_eq_true', List.contains_eq_mem, decide_eq_true_eq] at this
        exact this.2

/-- the name-level gate equation of the driver of a line of the module, for `w` that agrees with `σ` on the lines into instance
pins and shows `σ` on the forks of driven signals -/
theorem v_drive {α : Type u} (hok : VOK cfg tl ports stmts) (z : α) (neg : α → α) (prim : String → α → α → α → α → α) (a : Nat → α)
    (w : Ep → α) (σ : String → α)
    (hwc : ∀ t ∈ vFlat cfg tl (sigDecls stmts) stmts, (∃ nm k, t.r = .cell nm k) → w t.r = σ t.sig)
    (hwf : ∀ t ∈ vFlat cfg tl (sigDecls stmts) stmts, (∃ f, t.r = .fork f) → w t.r = σ t.sig)
    (t : VLine) (ht : t ∈ vFlat cfg tl (sigDecls stmts) stmts) :
    driveVal (vL cfg tl stmts) ((module cfg tl ports stmts).kindOf t.d)
      ((verilogNet cfg tl ports stmts).sPos ((module cfg tl ports stmts).nodeIdx t.d)) z neg prim a w t.d =
    (match t.d with
      | .fork _ => σ t.sig
      | .cell nm idx => match (vInsts stmts).find? (fun i => i.name == nm) with
        | some i => instVal tl z neg prim a (vSPos ports stmts (.cell i.name 0)) i idx σ
        | none => a (vSPos ports stmts (.cell nm 0))) := by
  have hforkD : ∀ s, s ∈ drivenSigs tl (sigDecls stmts) stmts →
      driveVal (vL cfg tl stmts) ((module cfg tl ports stmts).kindOf (.fork s))
        ((verilogNet cfg tl ports stmts).sPos ((module cfg tl ports stmts).nodeIdx (.fork s))) z neg prim a w (.fork s) = σ s := by
    intro s hs
    have hr := v_resolved_fork hok s hs
    rw [kindOf_fork _ s hr, verilogNet_sPos_fork hok s hr]
    obtain ⟨t0, ht0, hr0, hs0⟩ := driven_has_line (cfg := cfg) (sigDecls stmts) s hs
    rw [driveVal_vfork z neg prim a w s ⟨t0, ht0, hr0⟩, ← hr0, hwf t0 ht0 ⟨s, hr0⟩, hs0]
  rcases (mem_vFlat _ t).mp ht with ⟨i, hi, o, ho, rfl⟩ | ⟨n, hn, rfl⟩ | ⟨i, hi, c, hc, htc⟩ | ⟨n, hn, rfl⟩
  · -- instance output
    simp only
    have hfind : (vInsts stmts).find? (fun j => j.name == i.name) = some i := by
      cases hf : (vInsts stmts).find? (fun j => j.name == i.name) with
      | none =>
        rw [List.find?_eq_none] at hf
        have := hf i hi
        simp at this
      | some j =>
        have h1 := List.mem_of_find?_eq_some hf
        have h2 : j.name = i.name := by simpa using List.find?_some hf
        rw [inst_eq hok h1 hi h2]
    rw [hfind, v_kindOf_inst hok i hi, verilogNet_sPos_inst hok i hi]
    exact driveVal_vinst hok i hi z neg prim a w σ (fun t ht ⟨k, hk⟩ => hwc t ht ⟨_, k, hk⟩) o.1
  · -- input port
    simp only
    have hfind : (vInsts stmts).find? (fun j => j.name == n) = none := by
      rw [List.find?_eq_none]
      intro j hj hjn
      exact inst_not_port hok hj n (mem_portBitNames_of_input _ n hn) (by simpa using hjn)
    rw [hfind, v_kindOf_input hok n hn, verilogNet_sPos_input hok n hn]
    exact driveVal_vinput z neg prim a w n _
  · -- reader pin
    have hcs := inConn_driven hok i hi c hc
    unfold readerLines at htc
    cases hb : cfg.bf
    · simp only [hb, Bool.false_eq_true, if_false, List.mem_singleton] at htc
      subst htc
      exact hforkD _ hcs
    · simp only [hb, if_true, List.mem_cons, List.not_mem_nil, or_false] at htc
      rcases htc with rfl | rfl
      · exact hforkD _ hcs
      · simp only
        have hr := v_resolved_branch hok hb i hi c hc
        rw [kindOf_fork _ _ hr, verilogNet_sPos_fork hok _ hr]
        have hmem : (⟨.fork c.2.2, .fork (branchName c.2.2 i.name c.1), c.2.2⟩ : VLine) ∈ vFlat cfg tl (sigDecls stmts) stmts := by
          apply (mem_vFlat _ _).mpr
          refine Or.inr (Or.inr (Or.inl ⟨i, hi, c, hc, ?_⟩))
          simp [readerLines, hb]
        rw [driveVal_vfork z neg prim a w _ ⟨_, hmem, rfl⟩]
        exact hwf _ hmem ⟨_, rfl⟩
  · -- output port
    exact hforkD n (hok.outs n hn)

/-! ## soundness -/

/-- what the model says about the driver of a line -/
theorem v_model_rhs {α : Type u} (hok : VOK cfg tl ports stmts) (z : α) (neg : α → α) (prim : String → α → α → α → α → α) (a : Nat → α)
    (σ : String → α) (hm : VModel tl ports stmts z neg prim a σ) (t : VLine) (ht : t ∈ vFlat cfg tl (sigDecls stmts) stmts) :
    (match t.d with
      | .fork _ => σ t.sig
      | .cell nm idx => match (vInsts stmts).find? (fun i => i.name == nm) with
        | some i => instVal tl z neg prim a (vSPos ports stmts (.cell i.name 0)) i idx σ
        | none => a (vSPos ports stmts (.cell nm 0))) = σ t.sig := by
  rcases (mem_vFlat _ t).mp ht with ⟨i, hi, o, ho, rfl⟩ | ⟨n, hn, rfl⟩ | ⟨i, hi, c, hc, htc⟩ | ⟨n, hn, rfl⟩
  · simp only
    have hfind : (vInsts stmts).find? (fun j => j.name == i.name) = some i := by
      cases hf : (vInsts stmts).find? (fun j => j.name == i.name) with
      | none =>
        rw [List.find?_eq_none] at hf
        have := hf i hi
        simp at this
      | some j =>
        have h1 := List.mem_of_find?_eq_some hf
        have h2 : j.name = i.name := by simpa using List.find?_some hf
        rw [inst_eq hok h1 hi h2]
    rw [hfind]
    exact (hm.1 i hi o ho).symm
  · simp only
    have hfind : (vInsts stmts).find? (fun j => j.name == n) = none := by
      rw [List.find?_eq_none]
      intro j hj hjn
      exact inst_not_port hok hj n (mem_portBitNames_of_input _ n hn) (by simpa using hjn)
    rw [hfind]
    exact (hm.2.1 n hn).symm
  · unfold readerLines at htc
    cases hb : cfg.bf
    · simp only [hb, Bool.false_eq_true, if_false, List.mem_singleton] at htc
      subst htc; rfl
    · simp only [hb, if_true, List.mem_cons, List.not_mem_nil, or_false] at htc
      rcases htc with rfl | rfl <;> rfl
  · rfl

theorem v_model_circ {α : Type u} (hok : VOK cfg tl ports stmts) (z : α) (neg : α → α) (prim : String → α → α → α → α → α) (a : Nat → α)
    (σ : String → α) (hm : VModel tl ports stmts z neg prim a σ) :
    CircModel (module cfg tl ports stmts) (module cfg tl ports stmts).ioVerilog z neg prim a (wOfV cfg tl stmts z σ) := by
  intro p hp
  rw [module_flat' hok] at hp ⊢
  obtain ⟨t, ht, rfl⟩ := List.mem_map.mp hp
  show wOfV cfg tl stmts z σ t.r = driveVal (vL cfg tl stmts) ((module cfg tl ports stmts).kindOf t.d)
    ((verilogNet cfg tl ports stmts).sPos ((module cfg tl ports stmts).nodeIdx t.d)) z neg prim a (wOfV cfg tl stmts z σ) t.d
  rw [v_drive hok z neg prim a _ σ (fun t ht _ => wOfV_line hok z σ t ht) (fun t ht _ => wOfV_line hok z σ t ht) t ht,
    v_model_rhs hok z neg prim a σ hm t ht]
  exact wOfV_line hok z σ t ht

theorem v_model_labelling {α : Type u} (hok : VOK cfg tl ports stmts) (z : α) (neg : α → α) (prim : String → α → α → α → α → α)
    (a : Nat → α) (σ : String → α) (hm : VModel tl ports stmts z neg prim a σ) :
    NetLabelling (verilogNet cfg tl ports stmts) z neg prim a (vLabel cfg tl stmts σ) := by
  apply circ_model_labelling _ _ (v_resolved_all hok) z neg prim a (wOfV cfg tl stmts z σ) _ _ (v_model_circ hok z neg prim a σ hm)
  intro j hj
  have hj' : j < (vL cfg tl stmts).length := by rw [← module_flat' hok]; exact hj
  have hj'' : j < (vFlat cfg tl (sigDecls stmts) stmts).length := by rw [← vL_length]; exact hj'
  simp only [module_flat' hok]
  rw [vLabel_eq σ j hj'', vL_get j hj']
  exact (wOfV_line hok z σ _ (List.getElem_mem hj'')).symm

/-! ## completeness -/

/-- the environment read off values at end points: a driven signal carries what arrives at its fork -/
def envOfW {α : Type u} (tl : TL) (stmts : List Stmt) (z : α) (w : Ep → α) (s : String) : α :=
  if (drivenSigs tl (sigDecls stmts) stmts).contains s then w (.fork s) else z

theorem v_circ_model {α : Type u} (hok : VOK cfg tl ports stmts) (z : α) (neg : α → α) (prim : String → α → α → α → α → α) (a : Nat → α)
    (w : Ep → α) (hc : CircModel (module cfg tl ports stmts) (module cfg tl ports stmts).ioVerilog z neg prim a w) :
    VModel tl ports stmts z neg prim a (envOfW tl stmts z w) ∧
    ∀ t ∈ vFlat cfg tl (sigDecls stmts) stmts, w t.r = envOfW tl stmts z w t.sig := by
  have hD : ∀ s, s ∈ drivenSigs tl (sigDecls stmts) stmts → envOfW tl stmts z w s = w (.fork s) := by
    intro s hs
    unfold envOfW
    simp [hs]
  have hc' : ∀ t ∈ vFlat cfg tl (sigDecls stmts) stmts, w t.r = driveVal (vL cfg tl stmts) ((module cfg tl ports stmts).kindOf t.d)
      ((verilogNet cfg tl ports stmts).sPos ((module cfg tl ports stmts).nodeIdx t.d)) z neg prim a w t.d := by
    intro t ht
    have := hc (vl t) (by rw [module_flat' hok]; exact List.mem_map.mpr ⟨t, ht, rfl⟩)
    rw [module_flat' hok] at this
    exact this
  -- lines into forks of driven signals
  have hfD : ∀ t ∈ vFlat cfg tl (sigDecls stmts) stmts, (∃ f, t.r = .fork f) → t.sig ∈ drivenSigs tl (sigDecls stmts) stmts := by
    intro t ht _
    rcases (mem_vFlat _ t).mp ht with ⟨i, hi, o, ho, rfl⟩ | ⟨n, hn, rfl⟩ | ⟨i, hi, c, hc, htc⟩ | ⟨n, hn, rfl⟩
    · exact (mem_drivenSigs _ _).mpr (Or.inl ⟨i, hi, o, ho, rfl⟩)
    · exact (mem_drivenSigs _ _).mpr (Or.inr hn)
    · have hcs := inConn_driven hok i hi c hc
      unfold readerLines at htc
      cases hb : cfg.bf
      · simp only [hb, Bool.false_eq_true, if_false, List.mem_singleton] at htc
        subst htc; exact hcs
      · simp only [hb, if_true, List.mem_cons, List.not_mem_nil, or_false] at htc
        rcases htc with rfl | rfl <;> exact hcs
    · exact hok.outs n hn
  -- value of a driven fork as driver
  have hforkD : ∀ s, s ∈ drivenSigs tl (sigDecls stmts) stmts →
      driveVal (vL cfg tl stmts) ((module cfg tl ports stmts).kindOf (.fork s))
        ((verilogNet cfg tl ports stmts).sPos ((module cfg tl ports stmts).nodeIdx (.fork s))) z neg prim a w (.fork s) = w (.fork s) := by
    intro s hs
    have hr := v_resolved_fork hok s hs
    rw [kindOf_fork _ s hr, verilogNet_sPos_fork hok s hr]
    obtain ⟨t0, ht0, hr0, _⟩ := driven_has_line (cfg := cfg) (sigDecls stmts) s hs
    exact driveVal_vfork z neg prim a w s ⟨t0, ht0, hr0⟩
  -- every line carries σ of its signal
  have hall : ∀ t ∈ vFlat cfg tl (sigDecls stmts) stmts, w t.r = envOfW tl stmts z w t.sig := by
    intro t ht
    rcases (mem_vFlat _ t).mp ht with ⟨i, hi, o, ho, rfl⟩ | ⟨n, hn, rfl⟩ | ⟨i, hi, c, hcc, htc⟩ | ⟨n, hn, rfl⟩
    · exact (hD _ ((mem_drivenSigs _ _).mpr (Or.inl ⟨i, hi, o, ho, rfl⟩))).symm
    · exact (hD _ ((mem_drivenSigs _ _).mpr (Or.inr hn))).symm
    · have hcs := inConn_driven hok i hi c hcc
      have hmem := ht
      unfold readerLines at htc
      cases hb : cfg.bf
      · simp only [hb, Bool.false_eq_true, if_false, List.mem_singleton] at htc
        subst htc
        rw [hc' _ hmem, hforkD _ hcs, hD _ hcs]
      · simp only [hb, if_true, List.mem_cons, List.not_mem_nil, or_false] at htc
        have hm1 : (⟨.fork c.2.2, .fork (branchName c.2.2 i.name c.1), c.2.2⟩ : VLine) ∈ vFlat cfg tl (sigDecls stmts) stmts := by
          apply (mem_vFlat _ _).mpr
          refine Or.inr (Or.inr (Or.inl ⟨i, hi, c, hcc, ?_⟩))
          simp [readerLines, hb]
        have e1 : w (.fork (branchName c.2.2 i.name c.1)) = envOfW tl stmts z w c.2.2 := by
          have := hc' _ hm1
          simp only at this
          rw [this, hforkD _ hcs, hD _ hcs]
        rcases htc with rfl | rfl
        · exact e1
        · rw [hc' _ hmem]
          simp only
          have hr := v_resolved_branch hok hb i hi c hcc
          rw [kindOf_fork _ _ hr, verilogNet_sPos_fork hok _ hr, driveVal_vfork z neg prim a w _ ⟨_, hm1, rfl⟩]
          exact e1
    · rw [hc' _ ht, hforkD _ (hok.outs n hn), hD _ (hok.outs n hn)]
  refine ⟨⟨?_, ?_, ?_⟩, hall⟩
  · intro i hi o ho
    have hmem : (⟨.cell i.name o.1, .fork o.2, o.2⟩ : VLine) ∈ vFlat cfg tl (sigDecls stmts) stmts :=
      (mem_vFlat _ _).mpr (Or.inl ⟨i, hi, o, ho, rfl⟩)
    have e := hall _ hmem
    simp only at e
    rw [← e, hc' _ hmem]
    simp only
    rw [v_kindOf_inst hok i hi, verilogNet_sPos_inst hok i hi]
    exact driveVal_vinst hok i hi z neg prim a w _ (fun t ht _ => hall t ht) o.1
  · intro n hn
    have hmem : (⟨.cell n 0, .fork n, n⟩ : VLine) ∈ vFlat cfg tl (sigDecls stmts) stmts :=
      (mem_vFlat _ _).mpr (Or.inr (Or.inl ⟨n, hn, rfl⟩))
    have e := hall _ hmem
    simp only at e
    rw [← e, hc' _ hmem]
    simp only
    rw [v_kindOf_input hok n hn, verilogNet_sPos_input hok n hn]
    exact driveVal_vinput z neg prim a w n _
  · intro s hs
    unfold envOfW
    rw [hs]
    rfl

theorem v_labelling_model {α : Type u} (hok : VOK cfg tl ports stmts) (z : α) (neg : α → α) (prim : String → α → α → α → α → α)
    (a : Nat → α) (v : Nat → α) (hv : NetLabelling (verilogNet cfg tl ports stmts) z neg prim a v) :
    ∃ σ, VModel tl ports stmts z neg prim a σ ∧ ∀ i, i < (verilogNet cfg tl ports stmts).lines.size → v i = vLabel cfg tl stmts σ i := by
  have hnd : ((flatLines (module cfg tl ports stmts)).map (·.2)).Nodup := by
    rw [module_flat' hok]
    unfold vL
    rw [List.map_map]
    exact vFlat_readers_nodup hok
  obtain ⟨hcm, hvw⟩ := circ_labelling_model _ _ (v_resolved_all hok) hnd z neg prim a v hv
  obtain ⟨hm, hall⟩ := v_circ_model hok z neg prim a _ hcm
  refine ⟨_, hm, ?_⟩
  intro i hi
  rw [verilogNet_lines_size hok] at hi
  have hi' : i < (flatLines (module cfg tl ports stmts)).length := by rw [module_flat' hok, vL_length]; exact hi
  rw [hvw i hi', vLabel_eq _ i hi]
  have hget : (flatLines (module cfg tl ports stmts))[i].2 = ((vFlat cfg tl (sigDecls stmts) stmts)[i]).r := by
    have := vL_get (cfg := cfg) (tl := tl) (stmts := stmts) i (by rw [vL_length]; exact hi)
    simp only [module_flat' hok, this]
    rfl
  simp only [hget]
  exact hall _ (List.getElem_mem hi)

/-! ## one model per labelling -/

theorem v_model_unique {α : Type u} (hok : VOK cfg tl ports stmts) (z : α) (neg : α → α) (prim : String → α → α → α → α → α)
    (a : Nat → α) (σ σ' : String → α) (hm : VModel tl ports stmts z neg prim a σ) (hm' : VModel tl ports stmts z neg prim a σ')
    (h : ∀ i, i < (verilogNet cfg tl ports stmts).lines.size → vLabel cfg tl stmts σ i = vLabel cfg tl stmts σ' i) : σ = σ' := by
  funext s
  by_cases hs : s ∈ drivenSigs tl (sigDecls stmts) stmts
  · obtain ⟨t, ht, _, hsig⟩ := driven_has_line (cfg := cfg) (sigDecls stmts) s hs
    obtain ⟨j, hj, hjt⟩ := List.getElem_of_mem ht
    have := h j (by rw [verilogNet_lines_size hok]; exact hj)
    rw [vLabel_eq σ j hj, vLabel_eq σ' j hj, hjt, hsig] at this
    exact this
  · rw [hm.2.2 s (by simpa using hs), hm'.2.2 s (by simpa using hs)]

end KV.Netlist
