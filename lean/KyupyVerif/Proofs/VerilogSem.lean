import KyupyVerif.Proofs.VerilogNodes
import KyupyVerif.Proofs.CircLabel
/-! `parsed_sem` for the Verilog fragment `verilogOKB`: the labellings of `verilogNet …` consistent with the netlist are exactly
the labellings induced by the models of the module (`VModel`, Model/VerilogSem.lean), one model per labelling. -/
namespace KV.Netlist
open KV

universe u
variable {cfg : Cfg} {tl : TL} {ports : List String} {stmts : List Stmt}

/-- the flat lines as pairs -/
def vL (cfg : Cfg) (tl : TL) (stmts : List Stmt) : List (Ep × Ep) := (vFlat cfg tl (sigDecls stmts) stmts).map vl

theorem any_vL (e : Ep) : ((vL cfg tl stmts).any fun p => p.2 == e) = (vFlat cfg tl (sigDecls stmts) stmts).any fun t => t.r == e := by
  unfold vL
  rw [List.any_map]
  rfl

theorem inVal_cell_eq {α : Type u} (L : List (Ep × Ep)) (w : Ep → α) (nm : String) (p k : Nat) :
    inVal L w (.cell nm p) k = if L.any (fun q => q.2 == Ep.cell nm k) then some (w (.cell nm k)) else none := rfl

theorem inVal_fork_eq {α : Type u} (L : List (Ep × Ep)) (w : Ep → α) (s : String) :
    inVal L w (.fork s) 0 = if L.any (fun q => q.2 == Ep.fork s) then some (w (.fork s)) else none := rfl

/-- a fork with a line into it passes on what arrives -/
theorem driveVal_vfork {α : Type u} (z : α) (neg : α → α) (prim : String → α → α → α → α → α) (a : Nat → α) (w : Ep → α) (f : String)
    (h : ∃ t ∈ vFlat cfg tl (sigDecls stmts) stmts, t.r = .fork f) :
    driveVal (vL cfg tl stmts) forkKind none z neg prim a w (.fork f) = w (.fork f) := by
  have hany : ((vL cfg tl stmts).any fun p => p.2 == Ep.fork f) = true := by
    rw [any_vL, List.any_eq_true]
    obtain ⟨t, ht, hr⟩ := h
    exact ⟨t, ht, by simp [hr]⟩
  unfold driveVal
  simp only [beq_self_eq_true, if_true, inVal_fork_eq, hany, Option.getD_some]

/-- an input port cell puts its assigned value on its line -/
theorem driveVal_vinput {α : Type u} (z : α) (neg : α → α) (prim : String → α → α → α → α → α) (a : Nat → α) (w : Ep → α) (n : String)
    (pos : Nat) : driveVal (vL cfg tl stmts) "input" (some pos) z neg prim a w (.cell n 0) = a pos := by
  have h1 : (hasSub "dff" "input".toLower || hasSub "latch" "input".toLower) = false := by decide +kernel
  have h2 : ("input" == forkKind) = false := by decide +kernel
  unfold driveVal
  simp only [h1, Bool.false_eq_true, if_false, h2]
  cases inVal (vL cfg tl stmts) w (.cell n 0) 0 <;> rfl

/-- a constant cell puts the constant on its line -/
theorem driveVal_vconst {α : Type u} (hok : VOK cfg tl ports stmts) (z : α) (neg : α → α) (prim : String → α → α → α → α → α) (a : Nat → α)
    (w : Ep → α) (s : String) (hs : isConstLit s = true) (cn : String) (hcn : cn ∈ constNames tl (sigDecls stmts) stmts) (p : Nat) :
    driveVal (vL cfg tl stmts) (constKind s) none z neg prim a w (.cell cn p) = constVal z prim s := by
  have hnone : ∀ k, inVal (vL cfg tl stmts) w (.cell cn p) k = none := by
    intro k
    rw [inVal_cell_eq, any_vL]
    have : ((vFlat cfg tl (sigDecls stmts) stmts).any fun t => t.r == Ep.cell cn k) = false := by
      rw [List.any_eq_false]
      intro t ht hr
      exact no_line_into_const hok cn hcn k t ht (by simpa using hr)
    rw [this]; rfl
  have hk : (constKind s == forkKind) = false := by simp [constKind_ne_fork s hs]
  unfold driveVal constVal
  simp only [hk, Bool.false_eq_true, if_false, hnone, Option.isSome_none, Option.getD_none]
  cases specPrimName (constKind s).toLower false false <;> rfl

/-- what arrives at input pin `k` of an instance: the signal or constant connected there -/
theorem inVal_inst {α : Type u} (hok : VOK cfg tl ports stmts) (i : VInst) (hi : i ∈ vInsts stmts) (z : α)
    (prim : String → α → α → α → α → α) (w : Ep → α) (σ : String → α)
    (hw : ∀ t ∈ vFlat cfg tl (sigDecls stmts) stmts, (∃ k, t.r = .cell i.name k) → w t.r = sigVal z prim σ t.sig) (p k : Nat) :
    inVal (vL cfg tl stmts) w (.cell i.name p) k = (inSig tl i k).map (sigVal z prim σ) := by
  rw [inVal_cell_eq, any_vL]
  cases hs : inSig tl i k with
  | none =>
    have : ((vFlat cfg tl (sigDecls stmts) stmts).any fun t => t.r == Ep.cell i.name k) = false := by
      rw [List.any_eq_false]
      intro t ht hr
      have := reader_cell_inst hok i hi k t ht (by simpa using hr)
      rw [hs] at this; cases this
    rw [this]; rfl
  | some s =>
    obtain ⟨c, hc, hk, hcs⟩ := (inSig_iff hok i hi k s).mp hs
    obtain ⟨t, ht, hr, hsig⟩ := inst_pin_line (cfg := cfg) i hi (sigDecls stmts) c hc
    rw [hk] at hr
    have : ((vFlat cfg tl (sigDecls stmts) stmts).any fun t => t.r == Ep.cell i.name k) = true := by
      rw [List.any_eq_true]; exact ⟨t, ht, by simp [hr]⟩
    rw [this]
    simp only [if_true, Option.map_some, Option.some.injEq]
    rw [← hr, hw t ht ⟨k, hr⟩, hsig, hcs]

/-- the cell of an instance puts `instVal` on output pin `idx` -/
theorem driveVal_vinst {α : Type u} (hok : VOK cfg tl ports stmts) (i : VInst) (hi : i ∈ vInsts stmts) (z : α) (neg : α → α)
    (prim : String → α → α → α → α → α) (a : Nat → α) (w : Ep → α) (σ : String → α)
    (hw : ∀ t ∈ vFlat cfg tl (sigDecls stmts) stmts, (∃ k, t.r = .cell i.name k) → w t.r = sigVal z prim σ t.sig) (idx : Nat) :
    driveVal (vL cfg tl stmts) i.ty (if isSeqKind i.ty then some (vSPos ports stmts (.cell i.name 0)) else none)
      z neg prim a w (.cell i.name idx) = instVal tl z neg prim a (vSPos ports stmts (.cell i.name 0)) i idx σ := by
  have hk : (i.ty == forkKind) = false := by simp [hok.kinds i hi]
  unfold driveVal instVal
  by_cases hs : isSeqKind i.ty = true
  · have hs' : (hasSub "dff" i.ty.toLower || hasSub "latch" i.ty.toLower) = true := hs
    simp only [hs, if_true, hs', Ep.cpin]
    rfl
  · have hs' : (hasSub "dff" i.ty.toLower || hasSub "latch" i.ty.toLower) = false := by
      simpa [isSeqKind, isDffKind, isLatchKind] using hs
    simp only [hs, Bool.false_eq_true, if_false, hk, inVal_inst hok i hi z prim w σ hw]
    cases inSig tl i 0 <;> cases inSig tl i 1 <;> cases inSig tl i 2 <;> cases inSig tl i 3 <;> rfl

/-! ## the gate equation of every kind of line -/

/-- a line driven by an instance output -/
theorem v_drive_inst {α : Type u} (hok : VOK cfg tl ports stmts) (i : VInst) (hi : i ∈ vInsts stmts) (idx : Nat) (z : α) (neg : α → α)
    (prim : String → α → α → α → α → α) (a : Nat → α) (w : Ep → α) (σ : String → α)
    (hw : ∀ t ∈ vFlat cfg tl (sigDecls stmts) stmts, (∃ k, t.r = .cell i.name k) → w t.r = sigVal z prim σ t.sig) :
    driveVal (vL cfg tl stmts) ((module cfg tl ports stmts).kindOf (.cell i.name idx))
      ((verilogNet cfg tl ports stmts).sPos ((module cfg tl ports stmts).nodeIdx (.cell i.name idx))) z neg prim a w (.cell i.name idx) =
    instVal tl z neg prim a (vSPos ports stmts (.cell i.name 0)) i idx σ := by
  rw [v_kindOf_inst hok i hi, verilogNet_sPos_inst hok i hi]
  exact driveVal_vinst hok i hi z neg prim a w σ hw idx

/-- a line driven by an input port cell -/
theorem v_drive_input {α : Type u} (hok : VOK cfg tl ports stmts) (n : String) (hn : n ∈ inputNames (sigDecls stmts)) (z : α)
    (neg : α → α) (prim : String → α → α → α → α → α) (a : Nat → α) (w : Ep → α) :
    driveVal (vL cfg tl stmts) ((module cfg tl ports stmts).kindOf (.cell n 0))
      ((verilogNet cfg tl ports stmts).sPos ((module cfg tl ports stmts).nodeIdx (.cell n 0))) z neg prim a w (.cell n 0) =
    a (vSPos ports stmts (.cell n 0)) := by
  rw [v_kindOf_input hok n hn, verilogNet_sPos_input hok n hn]
  exact driveVal_vinput z neg prim a w n _

/-- a line driven by a constant cell -/
theorem v_drive_const {α : Type u} (hok : VOK cfg tl ports stmts) (s : String) (k : Nat) (hs : isConstLit s = true)
    (hn : (⟨constKind s, constName s k, false⟩ : NodeM) ∈ (module cfg tl ports stmts).nodes)
    (hcn : constName s k ∈ constNames tl (sigDecls stmts) stmts) (z : α) (neg : α → α) (prim : String → α → α → α → α → α) (a : Nat → α)
    (w : Ep → α) :
    driveVal (vL cfg tl stmts) ((module cfg tl ports stmts).kindOf (.cell (constName s k) 0))
      ((verilogNet cfg tl ports stmts).sPos ((module cfg tl ports stmts).nodeIdx (.cell (constName s k) 0))) z neg prim a w
      (.cell (constName s k) 0) = constVal z prim s := by
  obtain ⟨hr, hk⟩ := v_const_cell hok s k hs hn 0
  rw [hk, verilogNet_sPos hok _ hr rfl, const_not_sname hok _ hcn]
  exact driveVal_vconst hok z neg prim a w s hs _ hcn 0

/-- a line driven by a fork that has a line into it -/
theorem v_drive_fork {α : Type u} (hok : VOK cfg tl ports stmts) (f : String) (hr : (module cfg tl ports stmts).resolved (.fork f))
    (hin : ∃ t ∈ vFlat cfg tl (sigDecls stmts) stmts, t.r = .fork f) (z : α) (neg : α → α) (prim : String → α → α → α → α → α)
    (a : Nat → α) (w : Ep → α) :
    driveVal (vL cfg tl stmts) ((module cfg tl ports stmts).kindOf (.fork f))
      ((verilogNet cfg tl ports stmts).sPos ((module cfg tl ports stmts).nodeIdx (.fork f))) z neg prim a w (.fork f) = w (.fork f) := by
  rw [kindOf_fork _ f hr, verilogNet_sPos_fork hok f hr]
  exact driveVal_vfork z neg prim a w f hin

/-! ## environments, end-point values, labellings -/

def vLabel {α : Type u} (cfg : Cfg) (tl : TL) (stmts : List Stmt) (z : α) (prim : String → α → α → α → α → α) (σ : String → α) : Nat → α :=
  fun i => sigVal z prim σ ((vSigs cfg tl stmts).getD i "")

/-- values at reader end points induced by an environment -/
def wOfV {α : Type u} (cfg : Cfg) (tl : TL) (stmts : List Stmt) (z : α) (prim : String → α → α → α → α → α) (σ : String → α) (e : Ep) : α :=
  match (vFlat cfg tl (sigDecls stmts) stmts).find? (fun t => t.r == e) with
  | some t => sigVal z prim σ t.sig
  | none => z

theorem wOfV_line {α : Type u} (hok : VOK cfg tl ports stmts) (z : α) (prim : String → α → α → α → α → α) (σ : String → α) (t : VLine)
    (ht : t ∈ vFlat cfg tl (sigDecls stmts) stmts) : wOfV cfg tl stmts z prim σ t.r = sigVal z prim σ t.sig := by
  unfold wOfV
  cases hf : (vFlat cfg tl (sigDecls stmts) stmts).find? (fun t' => t'.r == t.r) with
  | none =>
    rw [List.find?_eq_none] at hf
    have := hf t ht
    simp at this
  | some t' =>
    have h1 := List.mem_of_find?_eq_some hf
    have h2 : t'.r = t.r := by simpa using List.find?_some hf
    rw [vFlat_line_eq hok t' t h1 ht h2]

theorem vL_length : (vL cfg tl stmts).length = (vFlat cfg tl (sigDecls stmts) stmts).length := by simp [vL]

theorem vL_get (j : Nat) (hj : j < (vL cfg tl stmts).length) :
    (vL cfg tl stmts)[j] = vl ((vFlat cfg tl (sigDecls stmts) stmts)[j]'(by rw [← vL_length]; exact hj)) := by
  simp [vL]

theorem vLabel_eq {α : Type u} (z : α) (prim : String → α → α → α → α → α) (σ : String → α) (j : Nat)
    (hj : j < (vFlat cfg tl (sigDecls stmts) stmts).length) :
    vLabel cfg tl stmts z prim σ j = sigVal z prim σ (vFlat cfg tl (sigDecls stmts) stmts)[j].sig := by
  unfold vLabel vSigs
  rw [List.getD_eq_getElem?_getD, List.getElem?_map, List.getElem?_eq_getElem hj]
  rfl

theorem module_flat' (hok : VOK cfg tl ports stmts) : flatLines (module cfg tl ports stmts) = vL cfg tl stmts := module_flat hok

theorem verilogNet_lines_size (hok : VOK cfg tl ports stmts) :
    (verilogNet cfg tl ports stmts).lines.size = (vFlat cfg tl (sigDecls stmts) stmts).length := by
  unfold verilogNet
  rw [toNet_lines_size, module_flat' hok, vL_length]

theorem v_resolved_all (hok : VOK cfg tl ports stmts) : ∀ p ∈ flatLines (module cfg tl ports stmts), (module cfg tl ports stmts).resolved p.1 := by
  intro p hp
  rw [module_flat' hok] at hp
  obtain ⟨t, ht, rfl⟩ := List.mem_map.mp hp
  exact v_resolved_driver hok t ht

theorem not_lit_of_driven (hok : VOK cfg tl ports stmts) (s : String) (hs : s ∈ drivenSigs tl (sigDecls stmts) stmts) : isConstLit s = false := by
  cases hl : isConstLit s with
  | false => rfl
  | true =>
    have := hok.noConst s hs
    rw [isConstBit_of_lit s hl] at this
    cases this

theorem sigVal_driven {α : Type u} (hok : VOK cfg tl ports stmts) (z : α) (prim : String → α → α → α → α → α) (σ : String → α) (s : String)
    (hs : s ∈ drivenSigs tl (sigDecls stmts) stmts) : sigVal z prim σ s = σ s := by
  unfold sigVal
  rw [not_lit_of_driven hok s hs]
  rfl

theorem sigVal_lit {α : Type u} (z : α) (prim : String → α → α → α → α → α) (σ : String → α) (s : String) (hs : isConstLit s = true) :
    sigVal z prim σ s = constVal z prim s := by
  unfold sigVal
  rw [hs]
  rfl

/-- the common core: for `w` and `σ` with `w (fork s) = σ s` on the driven signals, the gate equation of every line that is not
driven by an instance, an input port or … reduces as follows -/
structure Agree {α : Type u} (cfg : Cfg) (tl : TL) (stmts : List Stmt) (z : α) (prim : String → α → α → α → α → α) (w : Ep → α)
    (σ : String → α) : Prop where
  lines : ∀ t ∈ vFlat cfg tl (sigDecls stmts) stmts, w t.r = sigVal z prim σ t.sig
  forks : ∀ s ∈ drivenSigs tl (sigDecls stmts) stmts, w (.fork s) = σ s

/-- the source fork of a connection carries the value of the signal or constant read -/
theorem agree_src {α : Type u} (hok : VOK cfg tl ports stmts) (z : α) (prim : String → α → α → α → α → α) (w : Ep → α) (σ : String → α)
    (hag : Agree cfg tl stmts z prim w σ) (k : Nat) (i : VInst) (c : String × Nat × String) (hst : ConnStep cfg tl ports stmts k i c) :
    w (.fork (srcFork k c)) = sigVal z prim σ c.2.2 := by
  unfold srcFork
  rcases inConn_ok hok i hst.memI c hst.memC with hl | ⟨hl, hd⟩
  · simp only [hl, if_true]
    have hm := hst.lines ⟨.cell (constName c.2.2 k) 0, .fork (constName c.2.2 k), c.2.2⟩ (by
      rw [mem_connLines]; exact Or.inl ⟨hl, rfl⟩)
    exact hag.lines _ hm
  · simp only [hl, Bool.false_eq_true, if_false]
    rw [hag.forks _ hd, sigVal_driven hok z prim σ _ hd]

/-- every fork driver of a line has a line into it -/
theorem fork_driver_has_source (hok : VOK cfg tl ports stmts) (t : VLine) (ht : t ∈ vFlat cfg tl (sigDecls stmts) stmts) (f : String)
    (hd : t.d = .fork f) : ∃ t0 ∈ vFlat cfg tl (sigDecls stmts) stmts, t0.r = .fork f := by
  rcases mem_vFlat_step hok t ht with ⟨i, hi, o, _, rfl⟩ | ⟨n, hn, rfl⟩ | ⟨k, ts, hst, htp⟩ | ⟨k, i, c, hst, htc⟩ | ⟨n, hn, rfl⟩
  · cases hd
  · cases hd
  · unfold pairLines at htp
    by_cases hcl : isConstLit ts.2 = true
    · simp only [hcl, if_true, List.mem_singleton] at htp
      subst htp; cases hd
    · simp only [hcl, Bool.false_eq_true, if_false, List.mem_singleton] at htp
      subst htp
      simp only [Ep.fork.injEq] at hd
      subst hd
      apply driven_has_line
      rw [drivenSigs_eq]
      exact assignsOK_src _ _ hok.assigns ts hst.mem (by simpa using hcl)
  · have hsrc : ∃ t0 ∈ vFlat cfg tl (sigDecls stmts) stmts, t0.r = .fork (srcFork k c) := by
      unfold srcFork
      rcases inConn_ok hok i hst.memI c hst.memC with hl | ⟨hl, hdr⟩
      · simp only [hl, if_true]
        exact ⟨_, hst.lines ⟨.cell (constName c.2.2 k) 0, .fork (constName c.2.2 k), c.2.2⟩ (by
          rw [mem_connLines]; exact Or.inl ⟨hl, rfl⟩), rfl⟩
      · simp only [hl, Bool.false_eq_true, if_false]
        exact driven_has_line _ _ hdr
    rcases (mem_connLines cfg.bf k i c t).mp htc with ⟨hl, rfl⟩ | ⟨hb, rfl | rfl⟩ | ⟨_, rfl⟩
    · cases hd
    · simp only [Ep.fork.injEq] at hd; subst hd; exact hsrc
    · simp only [Ep.fork.injEq] at hd; subst hd
      exact ⟨_, hst.lines ⟨.fork (srcFork k c), .fork (branchName (srcFork k c) i.name c.1), c.2.2⟩ (by
        rw [mem_connLines]; exact Or.inr (Or.inl ⟨hb, Or.inl rfl⟩)), rfl⟩
    · simp only [Ep.fork.injEq] at hd; subst hd; exact hsrc
  · simp only [Ep.fork.injEq] at hd; subst hd
    exact driven_has_line _ _ (hok.outs n hn)

/-! ## soundness -/

/-- the driver end points of the lines of the instances selected by `HI` (the "holes") -/
def holeEp (stmts : List Stmt) (HI : VInst → Prop) (e : Ep) : Prop := ∃ i ∈ vInsts stmts, HI i ∧ ∃ p, e = .cell i.name p

theorem vModel_iff_off {α : Type u} (z : α) (neg : α → α) (prim : String → α → α → α → α → α) (a : Nat → α) (σ : String → α) :
    VModel tl ports stmts z neg prim a σ ↔ VModelOff (fun _ => False) tl ports stmts z neg prim a σ :=
  ⟨fun h => ⟨fun i hi _ => h.1 i hi, h.2⟩, fun h => ⟨fun i hi => h.1 i hi (fun x => x), h.2⟩⟩

theorem v_pairs_forks {α : Type u} (hok : VOK cfg tl ports stmts) (z : α) (prim : String → α → α → α → α → α)
    (σ : String → α) (hp : ∀ ts ∈ vPairs stmts, σ ts.1 = sigVal z prim σ ts.2) :
    Agree cfg tl stmts z prim (wOfV cfg tl stmts z prim σ) σ := by
  refine ⟨fun t ht => wOfV_line hok z prim σ t ht, fun s hs => ?_⟩
  rcases (mem_drivenSigs (sigDecls stmts) s).mp hs with ⟨i, hi, o, ho, rfl⟩ | hn | ⟨ts, hts, rfl⟩
  · have := wOfV_line hok z prim σ _ (vFlat_inst_out (cfg := cfg) (sigDecls stmts) i hi o ho)
    simp only at this
    rw [this, sigVal_driven hok z prim σ _ hs]
  · have := wOfV_line hok z prim σ _ (vFlat_input (cfg := cfg) (tl := tl) (stmts := stmts) (sigDecls stmts) s hn)
    simp only at this
    rw [this, sigVal_driven hok z prim σ _ hs]
  · obtain ⟨k, hk⟩ := vFlat_pair (cfg := cfg) (tl := tl) (sigDecls stmts) ts hts
    have hpm := hp ts hts
    unfold pairLines at hk
    by_cases hc : isConstLit ts.2 = true
    · simp only [hc, if_true, List.mem_singleton, forall_eq] at hk
      have := wOfV_line hok z prim σ _ hk
      simp only at this
      rw [this, hpm]
    · simp only [hc, Bool.false_eq_true, if_false, List.mem_singleton, forall_eq] at hk
      have := wOfV_line hok z prim σ _ hk
      simp only at this
      rw [this, hpm]

theorem v_model_forks {α : Type u} (hok : VOK cfg tl ports stmts) (z : α) (neg : α → α) (prim : String → α → α → α → α → α) (a : Nat → α)
    (σ : String → α) (hm : VModel tl ports stmts z neg prim a σ) :
    Agree cfg tl stmts z prim (wOfV cfg tl stmts z prim σ) σ := v_pairs_forks hok z prim σ hm.2.2.1

/-- a model outside the holes satisfies the gate equation of every line that is not driven by a hole -/
theorem v_model_circ_off {α : Type u} (hok : VOK cfg tl ports stmts) (HI : VInst → Prop) (z : α) (neg : α → α)
    (prim : String → α → α → α → α → α) (a : Nat → α) (σ : String → α) (hm : VModelOff HI tl ports stmts z neg prim a σ) :
    CircModelOff (module cfg tl ports stmts) (module cfg tl ports stmts).ioVerilog (holeEp stmts HI) z neg prim a
      (wOfV cfg tl stmts z prim σ) := by
  have hag := v_pairs_forks (cfg := cfg) hok z prim σ hm.2.2.1
  intro p hp hH
  rw [module_flat' hok] at hp ⊢
  obtain ⟨t, ht, rfl⟩ := List.mem_map.mp hp
  show wOfV cfg tl stmts z prim σ t.r = driveVal (vL cfg tl stmts) ((module cfg tl ports stmts).kindOf t.d)
    ((verilogNet cfg tl ports stmts).sPos ((module cfg tl ports stmts).nodeIdx t.d)) z neg prim a (wOfV cfg tl stmts z prim σ) t.d
  rw [hag.lines t ht]
  rcases mem_vFlat_step hok t ht with ⟨i, hi, o, ho, rfl⟩ | ⟨n, hn, rfl⟩ | ⟨k, ts, hst, htp⟩ | ⟨k, i, c, hst, htc⟩ | ⟨n, hn, rfl⟩
  · rw [v_drive_inst hok i hi o.1 z neg prim a _ σ (fun t ht _ => hag.lines t ht),
      sigVal_driven hok z prim σ _ ((mem_drivenSigs _ _).mpr (Or.inl ⟨i, hi, o, ho, rfl⟩))]
    exact hm.1 i hi (fun h => hH ⟨i, hi, h, o.1, rfl⟩) o ho
  · rw [v_drive_input hok n hn, sigVal_driven hok z prim σ _ ((mem_drivenSigs _ _).mpr (Or.inr (Or.inl hn)))]
    exact hm.2.1 n hn
  · unfold pairLines at htp
    by_cases hcl : isConstLit ts.2 = true
    · simp only [hcl, if_true, List.mem_singleton] at htp
      subst htp
      rw [v_drive_const hok ts.2 k hcl (hst.nodes _ (by unfold pairNodes; simp [hcl])) (hst.cname hcl), sigVal_lit z prim σ _ hcl]
    · simp only [hcl, Bool.false_eq_true, if_false, List.mem_singleton] at htp
      subst htp
      have hsd : ts.2 ∈ drivenSigs tl (sigDecls stmts) stmts := by
        rw [drivenSigs_eq]
        exact assignsOK_src _ _ hok.assigns ts hst.mem (by simpa using hcl)
      rw [v_drive_fork hok ts.2 (v_resolved_fork hok _ hsd) (driven_has_line _ _ hsd), hag.forks _ hsd, sigVal_driven hok z prim σ _ hsd]
  · have hsrc := agree_src hok z prim _ σ hag k i c hst
    have hrs := v_resolved_src hok k i hst.memI c hst.memC hst.nodes
    rcases (mem_connLines cfg.bf k i c t).mp htc with ⟨hl, rfl⟩ | ⟨hb, rfl | rfl⟩ | ⟨hb, rfl⟩
    · rw [v_drive_const hok c.2.2 k hl (hst.nodes _ (by unfold connNodes; simp [hl])) (hst.cname hl), sigVal_lit z prim σ _ hl]
    · rw [v_drive_fork hok _ hrs (fork_driver_has_source hok _ (hst.lines _ htc) _ rfl), hsrc]
    · have hm1 := hst.lines ⟨.fork (srcFork k c), .fork (branchName (srcFork k c) i.name c.1), c.2.2⟩ (by
        rw [mem_connLines]; exact Or.inr (Or.inl ⟨hb, Or.inl rfl⟩))
      rw [v_drive_fork hok _ (v_resolved_branch hb k i c hst.nodes) ⟨_, hm1, rfl⟩]
      exact (hag.lines _ hm1).symm
    · rw [v_drive_fork hok _ hrs (fork_driver_has_source hok _ (hst.lines _ htc) _ rfl), hsrc]
  · have hd := hok.outs n hn
    rw [v_drive_fork hok n (v_resolved_fork hok _ hd) (driven_has_line _ _ hd), hag.forks _ hd, sigVal_driven hok z prim σ _ hd]

theorem v_model_circ {α : Type u} (hok : VOK cfg tl ports stmts) (z : α) (neg : α → α) (prim : String → α → α → α → α → α) (a : Nat → α)
    (σ : String → α) (hm : VModel tl ports stmts z neg prim a σ) :
    CircModel (module cfg tl ports stmts) (module cfg tl ports stmts).ioVerilog z neg prim a (wOfV cfg tl stmts z prim σ) :=
  fun p hp => v_model_circ_off hok (fun _ => False) z neg prim a σ ((vModel_iff_off z neg prim a σ).mp hm) p hp
    (fun ⟨_, _, h, _⟩ => h)

theorem v_label_agrees {α : Type u} (hok : VOK cfg tl ports stmts) (z : α) (prim : String → α → α → α → α → α) (σ : String → α) :
    ∀ j (hj : j < (flatLines (module cfg tl ports stmts)).length),
      vLabel cfg tl stmts z prim σ j = wOfV cfg tl stmts z prim σ (flatLines (module cfg tl ports stmts))[j].2 := by
  intro j hj
  have hj' : j < (vL cfg tl stmts).length := by rw [← module_flat' hok]; exact hj
  have hj'' : j < (vFlat cfg tl (sigDecls stmts) stmts).length := by rw [← vL_length]; exact hj'
  simp only [module_flat' hok]
  rw [vLabel_eq z prim σ j hj'', vL_get j hj']
  exact (wOfV_line hok z prim σ _ (List.getElem_mem hj'')).symm

/-- **soundness with holes**: the labelling of a model outside the holes is consistent outside every node set `S` that contains
the hole instances' nodes -/
theorem v_model_labelling_off {α : Type u} (hok : VOK cfg tl ports stmts) (HI : VInst → Prop) (S : Nat → Prop)
    (hSH : ∀ i ∈ vInsts stmts, HI i → S ((module cfg tl ports stmts).nodeIdx (.cell i.name 0)))
    (z : α) (neg : α → α) (prim : String → α → α → α → α → α)
    (a : Nat → α) (σ : String → α) (hm : VModelOff HI tl ports stmts z neg prim a σ) :
    NetLabellingOff (verilogNet cfg tl ports stmts) S z neg prim a (vLabel cfg tl stmts z prim σ) := by
  apply circ_model_labelling_off _ _ (v_resolved_all hok) S (holeEp stmts HI) ?_ z neg prim a (wOfV cfg tl stmts z prim σ) _
    (v_label_agrees hok z prim σ) (v_model_circ_off hok HI z neg prim a σ hm)
  rintro p _ ⟨i, hi, hH, q, hq⟩
  rw [hq]
  exact hSH i hi hH

theorem v_model_labelling {α : Type u} (hok : VOK cfg tl ports stmts) (z : α) (neg : α → α) (prim : String → α → α → α → α → α)
    (a : Nat → α) (σ : String → α) (hm : VModel tl ports stmts z neg prim a σ) :
    NetLabelling (verilogNet cfg tl ports stmts) z neg prim a (vLabel cfg tl stmts z prim σ) := by
  apply circ_model_labelling _ _ (v_resolved_all hok) z neg prim a (wOfV cfg tl stmts z prim σ) _ _ (v_model_circ hok z neg prim a σ hm)
  intro j hj
  have hj' : j < (vL cfg tl stmts).length := by rw [← module_flat' hok]; exact hj
  have hj'' : j < (vFlat cfg tl (sigDecls stmts) stmts).length := by rw [← vL_length]; exact hj'
  simp only [module_flat' hok]
  rw [vLabel_eq z prim σ j hj'', vL_get j hj']
  exact (wOfV_line hok z prim σ _ (List.getElem_mem hj'')).symm

/-! ## completeness -/

/-- the environment read off values at end points: a driven signal carries what arrives at its fork -/
def envOfW {α : Type u} (tl : TL) (stmts : List Stmt) (z : α) (w : Ep → α) (s : String) : α :=
  if (drivenSigs tl (sigDecls stmts) stmts).contains s then w (.fork s) else z

theorem not_hole_fork (HI : VInst → Prop) (f : String) : ¬ holeEp stmts HI (.fork f) := by
  rintro ⟨_, _, _, _, h⟩; cases h

theorem not_hole_input (hok : VOK cfg tl ports stmts) (HI : VInst → Prop) (n : String) (hn : n ∈ inputNames (sigDecls stmts)) (p : Nat) :
    ¬ holeEp stmts HI (.cell n p) := by
  rintro ⟨i, hi, _, q, h⟩
  simp only [Ep.cell.injEq] at h
  exact inst_not_port hok hi n (mem_portBitNames_of_input _ n hn) h.1.symm

theorem not_hole_const (hok : VOK cfg tl ports stmts) (HI : VInst → Prop) (cn : String)
    (hcn : cn ∈ constNames tl (sigDecls stmts) stmts) (p : Nat) : ¬ holeEp stmts HI (.cell cn p) := by
  rintro ⟨i, hi, _, q, h⟩
  simp only [Ep.cell.injEq] at h
  exact (List.nodup_append.mp hok.cells).2.2 i.name (List.mem_append_left _ (List.mem_map.mpr ⟨i, hi, rfl⟩)) cn hcn h.1.symm

theorem hole_inst_iff (hok : VOK cfg tl ports stmts) (HI : VInst → Prop) (i : VInst) (hi : i ∈ vInsts stmts) (p : Nat) :
    holeEp stmts HI (.cell i.name p) ↔ HI i := by
  constructor
  · rintro ⟨j, hj, hH, q, h⟩
    simp only [Ep.cell.injEq] at h
    rw [inst_eq hok hi hj h.1]; exact hH
  · intro h; exact ⟨i, hi, h, p, rfl⟩

/-- **completeness with holes**: end-point values that satisfy the gate equation of every line not driven by a hole instance
come from a model outside the holes -/
theorem v_circ_model_off {α : Type u} (hok : VOK cfg tl ports stmts) (HI : VInst → Prop) (z : α) (neg : α → α)
    (prim : String → α → α → α → α → α) (a : Nat → α) (w : Ep → α)
    (hc : CircModelOff (module cfg tl ports stmts) (module cfg tl ports stmts).ioVerilog (holeEp stmts HI) z neg prim a w) :
    VModelOff HI tl ports stmts z neg prim a (envOfW tl stmts z w) ∧ Agree cfg tl stmts z prim w (envOfW tl stmts z w) := by
  have hD : ∀ s, s ∈ drivenSigs tl (sigDecls stmts) stmts → w (.fork s) = envOfW tl stmts z w s := by
    intro s hs
    unfold envOfW
    simp [hs]
  have hc' : ∀ t ∈ vFlat cfg tl (sigDecls stmts) stmts, ¬ holeEp stmts HI t.d → w t.r = driveVal (vL cfg tl stmts) ((module cfg tl ports stmts).kindOf t.d)
      ((verilogNet cfg tl ports stmts).sPos ((module cfg tl ports stmts).nodeIdx t.d)) z neg prim a w t.d := by
    intro t ht hH
    have := hc (vl t) (by rw [module_flat' hok]; exact List.mem_map.mpr ⟨t, ht, rfl⟩) hH
    rw [module_flat' hok] at this
    exact this
  have hsv := fun s hs => sigVal_driven hok z prim (envOfW tl stmts z w) s hs
  -- a fork driver passes on what arrives
  have hfk : ∀ t ∈ vFlat cfg tl (sigDecls stmts) stmts, ∀ f, t.d = .fork f → w t.r = w (.fork f) := by
    intro t ht f hd
    have hres := v_resolved_driver hok t ht
    rw [hc' t ht (by rw [hd]; exact not_hole_fork HI f)]
    rw [hd] at hres ⊢
    exact v_drive_fork hok f hres (fork_driver_has_source hok t ht f hd) z neg prim a w
  -- every line carries the value of its signal
  have hall : ∀ t ∈ vFlat cfg tl (sigDecls stmts) stmts, w t.r = sigVal z prim (envOfW tl stmts z w) t.sig := by
    intro t ht
    rcases mem_vFlat_step hok t ht with ⟨i, hi, o, ho, rfl⟩ | ⟨n, hn, rfl⟩ | ⟨k, ts, hst, htp⟩ | ⟨k, i, c, hst, htc⟩ | ⟨n, hn, rfl⟩
    · have hd := (mem_drivenSigs (tl := tl) (stmts := stmts) (sigDecls stmts) o.2).mpr (Or.inl ⟨i, hi, o, ho, rfl⟩)
      rw [hsv _ hd]; exact hD _ hd
    · have hd := (mem_drivenSigs (tl := tl) (stmts := stmts) (sigDecls stmts) n).mpr (Or.inr (Or.inl hn))
      rw [hsv _ hd]; exact hD _ hd
    · unfold pairLines at htp
      by_cases hcl : isConstLit ts.2 = true
      · simp only [hcl, if_true, List.mem_singleton] at htp
        subst htp
        rw [hc' _ ht (not_hole_const hok HI _ (hst.cname hcl) 0),
          v_drive_const hok ts.2 k hcl (hst.nodes _ (by unfold pairNodes; simp [hcl])) (hst.cname hcl), sigVal_lit z prim _ _ hcl]
      · simp only [hcl, Bool.false_eq_true, if_false, List.mem_singleton] at htp
        subst htp
        have hsd : ts.2 ∈ drivenSigs tl (sigDecls stmts) stmts := by
          rw [drivenSigs_eq]
          exact assignsOK_src _ _ hok.assigns ts hst.mem (by simpa using hcl)
        rw [hfk _ ht ts.2 rfl, hD _ hsd, hsv _ hsd]
    · -- the source fork carries the signal or constant
      have hsrc : w (.fork (srcFork k c)) = sigVal z prim (envOfW tl stmts z w) c.2.2 := by
        unfold srcFork
        rcases inConn_ok hok i hst.memI c hst.memC with hl | ⟨hl, hd⟩
        · simp only [hl, if_true]
          have hm := hst.lines ⟨.cell (constName c.2.2 k) 0, .fork (constName c.2.2 k), c.2.2⟩ (by
            rw [mem_connLines]; exact Or.inl ⟨hl, rfl⟩)
          have := hc' _ hm (not_hole_const hok HI _ (hst.cname hl) 0)
          simp only at this
          rw [this, v_drive_const hok c.2.2 k hl (hst.nodes _ (by unfold connNodes; simp [hl])) (hst.cname hl), sigVal_lit z prim _ _ hl]
        · simp only [hl, Bool.false_eq_true, if_false]
          rw [hD _ hd, hsv _ hd]
      rcases (mem_connLines cfg.bf k i c t).mp htc with ⟨hl, rfl⟩ | ⟨hb, rfl | rfl⟩ | ⟨hb, rfl⟩
      · rw [hc' _ ht (not_hole_const hok HI _ (hst.cname hl) 0),
          v_drive_const hok c.2.2 k hl (hst.nodes _ (by unfold connNodes; simp [hl])) (hst.cname hl), sigVal_lit z prim _ _ hl]
      · rw [hfk _ ht _ rfl]; exact hsrc
      · have hm1 := hst.lines ⟨.fork (srcFork k c), .fork (branchName (srcFork k c) i.name c.1), c.2.2⟩ (by
          rw [mem_connLines]; exact Or.inr (Or.inl ⟨hb, Or.inl rfl⟩))
        rw [hfk _ ht _ rfl]
        have := hfk _ hm1 _ rfl
        simp only at this
        rw [this]; exact hsrc
      · rw [hfk _ ht _ rfl]; exact hsrc
    · have hd := hok.outs n hn
      rw [hfk _ ht n rfl, hD _ hd, hsv _ hd]
  refine ⟨⟨?_, ?_, ?_, ?_⟩, ⟨hall, fun s hs => hD s hs⟩⟩
  · intro i hi hnH o ho
    have hmem := vFlat_inst_out (cfg := cfg) (sigDecls stmts) i hi o ho
    have hd := (mem_drivenSigs (tl := tl) (stmts := stmts) (sigDecls stmts) o.2).mpr (Or.inl ⟨i, hi, o, ho, rfl⟩)
    rw [← hD _ hd]
    have := hc' _ hmem (fun h => hnH ((hole_inst_iff hok HI i hi o.1).mp h))
    simp only at this
    rw [this]
    exact v_drive_inst hok i hi o.1 z neg prim a w _ (fun t ht _ => hall t ht)
  · intro n hn
    have hmem := vFlat_input (cfg := cfg) (tl := tl) (stmts := stmts) (sigDecls stmts) n hn
    have hd := (mem_drivenSigs (tl := tl) (stmts := stmts) (sigDecls stmts) n).mpr (Or.inr (Or.inl hn))
    rw [← hD _ hd]
    have := hc' _ hmem (not_hole_input hok HI n hn 0)
    simp only at this
    rw [this]
    exact v_drive_input hok n hn z neg prim a w
  · intro ts hts
    have hd := (mem_drivenSigs (tl := tl) (stmts := stmts) (sigDecls stmts) ts.1).mpr (Or.inr (Or.inr ⟨ts, hts, rfl⟩))
    rw [← hD _ hd]
    obtain ⟨k, hk⟩ := vFlat_pair (cfg := cfg) (tl := tl) (sigDecls stmts) ts hts
    unfold pairLines at hk
    by_cases hcl : isConstLit ts.2 = true
    · simp only [hcl, if_true, List.mem_singleton, forall_eq] at hk
      exact hall _ hk
    · simp only [hcl, Bool.false_eq_true, if_false, List.mem_singleton, forall_eq] at hk
      exact hall _ hk
  · intro s hs
    unfold envOfW
    rw [hs]
    rfl

theorem v_circ_model {α : Type u} (hok : VOK cfg tl ports stmts) (z : α) (neg : α → α) (prim : String → α → α → α → α → α) (a : Nat → α)
    (w : Ep → α) (hc : CircModel (module cfg tl ports stmts) (module cfg tl ports stmts).ioVerilog z neg prim a w) :
    VModel tl ports stmts z neg prim a (envOfW tl stmts z w) ∧ Agree cfg tl stmts z prim w (envOfW tl stmts z w) := by
  obtain ⟨h1, h2⟩ := v_circ_model_off hok (fun _ => False) z neg prim a w (fun p hp _ => hc p hp)
  exact ⟨(vModel_iff_off z neg prim a _).mpr h1, h2⟩

/-- **completeness with holes** on the net: a labelling that is consistent outside a node set `S` containing only hole
instances' nodes (among the drivers of lines) is the labelling of a model outside the holes -/
theorem v_labelling_model_off {α : Type u} (hok : VOK cfg tl ports stmts) (HI : VInst → Prop) (S : Nat → Prop)
    (hSH : ∀ t ∈ vFlat cfg tl (sigDecls stmts) stmts, S ((module cfg tl ports stmts).nodeIdx t.d) → holeEp stmts HI t.d)
    (z : α) (neg : α → α) (prim : String → α → α → α → α → α)
    (a : Nat → α) (v : Nat → α) (hv : NetLabellingOff (verilogNet cfg tl ports stmts) S z neg prim a v) :
    ∃ σ, VModelOff HI tl ports stmts z neg prim a σ ∧
      ∀ i, i < (verilogNet cfg tl ports stmts).lines.size → v i = vLabel cfg tl stmts z prim σ i := by
  have hnd : ((flatLines (module cfg tl ports stmts)).map (·.2)).Nodup := by
    rw [module_flat' hok]
    unfold vL
    rw [List.map_map]
    exact vFlat_readers_nodup hok
  have hSH' : ∀ p ∈ flatLines (module cfg tl ports stmts), S ((module cfg tl ports stmts).nodeIdx p.1) → holeEp stmts HI p.1 := by
    intro p hp
    rw [module_flat' hok] at hp
    obtain ⟨t, ht, rfl⟩ := List.mem_map.mp hp
    exact hSH t ht
  obtain ⟨hcm, hvw⟩ := circ_labelling_model_off _ _ (v_resolved_all hok) hnd S (holeEp stmts HI) hSH' z neg prim a v hv
  obtain ⟨hm, hag⟩ := v_circ_model_off hok HI z neg prim a _ hcm
  refine ⟨_, hm, ?_⟩
  intro i hi
  rw [verilogNet_lines_size hok] at hi
  have hi' : i < (flatLines (module cfg tl ports stmts)).length := by rw [module_flat' hok, vL_length]; exact hi
  rw [hvw i hi', vLabel_eq _ _ _ i hi]
  have hget : (flatLines (module cfg tl ports stmts))[i].2 = ((vFlat cfg tl (sigDecls stmts) stmts)[i]).r := by
    have := vL_get (cfg := cfg) (tl := tl) (stmts := stmts) i (by rw [vL_length]; exact hi)
    simp only [module_flat' hok, this]
    rfl
  simp only [hget]
  exact hag.lines _ (List.getElem_mem hi)

theorem v_labelling_model {α : Type u} (hok : VOK cfg tl ports stmts) (z : α) (neg : α → α) (prim : String → α → α → α → α → α)
    (a : Nat → α) (v : Nat → α) (hv : NetLabelling (verilogNet cfg tl ports stmts) z neg prim a v) :
    ∃ σ, VModel tl ports stmts z neg prim a σ ∧
      ∀ i, i < (verilogNet cfg tl ports stmts).lines.size → v i = vLabel cfg tl stmts z prim σ i := by
  have hnd : ((flatLines (module cfg tl ports stmts)).map (·.2)).Nodup := by
    rw [module_flat' hok]
    unfold vL
    rw [List.map_map]
    exact vFlat_readers_nodup hok
  obtain ⟨hcm, hvw⟩ := circ_labelling_model _ _ (v_resolved_all hok) hnd z neg prim a v hv
  obtain ⟨hm, hag⟩ := v_circ_model hok z neg prim a _ hcm
  refine ⟨_, hm, ?_⟩
  intro i hi
  rw [verilogNet_lines_size hok] at hi
  have hi' : i < (flatLines (module cfg tl ports stmts)).length := by rw [module_flat' hok, vL_length]; exact hi
  rw [hvw i hi', vLabel_eq _ _ _ i hi]
  have hget : (flatLines (module cfg tl ports stmts))[i].2 = ((vFlat cfg tl (sigDecls stmts) stmts)[i]).r := by
    have := vL_get (cfg := cfg) (tl := tl) (stmts := stmts) i (by rw [vL_length]; exact hi)
    simp only [module_flat' hok, this]
    rfl
  simp only [hget]
  exact hag.lines _ (List.getElem_mem hi)

/-! ## one model per labelling -/

theorem v_model_unique_off {α : Type u} (hok : VOK cfg tl ports stmts) (HI HI' : VInst → Prop) (z : α) (neg : α → α)
    (prim : String → α → α → α → α → α)
    (a a' : Nat → α) (σ σ' : String → α) (hm : VModelOff HI tl ports stmts z neg prim a σ) (hm' : VModelOff HI' tl ports stmts z neg prim a' σ')
    (h : ∀ i, i < (verilogNet cfg tl ports stmts).lines.size → vLabel cfg tl stmts z prim σ i = vLabel cfg tl stmts z prim σ' i) :
    σ = σ' := by
  have hag := v_pairs_forks (cfg := cfg) hok z prim σ hm.2.2.1
  have hag' := v_pairs_forks (cfg := cfg) hok z prim σ' hm'.2.2.1
  funext s
  by_cases hs : s ∈ drivenSigs tl (sigDecls stmts) stmts
  · obtain ⟨t, ht, hr⟩ := driven_has_line (cfg := cfg) (sigDecls stmts) s hs
    obtain ⟨j, hj, hjt⟩ := List.getElem_of_mem ht
    have := h j (by rw [verilogNet_lines_size hok]; exact hj)
    rw [vLabel_eq z prim σ j hj, vLabel_eq z prim σ' j hj, hjt, ← hag.lines t ht, ← hag'.lines t ht, hr, hag.forks s hs, hag'.forks s hs] at this
    exact this
  · rw [hm.2.2.2 s (by simpa using hs), hm'.2.2.2 s (by simpa using hs)]

theorem v_model_unique {α : Type u} (hok : VOK cfg tl ports stmts) (z : α) (neg : α → α) (prim : String → α → α → α → α → α)
    (a : Nat → α) (σ σ' : String → α) (hm : VModel tl ports stmts z neg prim a σ) (hm' : VModel tl ports stmts z neg prim a σ')
    (h : ∀ i, i < (verilogNet cfg tl ports stmts).lines.size → vLabel cfg tl stmts z prim σ i = vLabel cfg tl stmts z prim σ' i) :
    σ = σ' :=
  v_model_unique_off hok _ _ z neg prim a a σ σ' ((vModel_iff_off z neg prim a σ).mp hm) ((vModel_iff_off z neg prim a σ').mp hm') h

end KV.Netlist
