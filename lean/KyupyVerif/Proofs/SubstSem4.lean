import KyupyVerif.Proofs.SubstSem3
/-! Helper lemmas for C10 (`substitute_sem`), part 4: every node of `node_map` reads, pin by pin, what its original reads
in the implementation (`reads_eq`), for every pair of labellings that agree on the copied lines and on the instance's
input lines. -/
namespace KV.Transform
open KV

theorem deadLine_iff (h : NNet) (c : Nat) (m : NNet) (sh : Shape) (l : Nat) : deadLine h c m sh l = true ↔
    (m.net.line l).driver ∈ m.net.io ∧ (m.net.node (m.net.line l).driver).ins.length = 0 ∧
    (m.net.node (m.net.line l).driver).outs.length = 1 ∧ instIn h c (sh.inPorts.idxOf (m.net.line l).driver) = none := by
  simp [deadLine, and_assoc]

theorem getElem?_idxOf_mem {l : List Nat} {a : Nat} (h : a ∈ l) : l[l.idxOf a]? = some a := by
  have hlt := List.idxOf_lt_length_iff.mpr h
  rw [List.getElem?_eq_getElem hlt]
  exact congrArg some (List.getElem_idxOf hlt)

section cert
variable {h : NNet} {c : Nat} {m : NNet} {sh : Shape} {dn : Nat} {map : Array (Option Nat)} {h' : NNet}
variable (ct : SubstCert h c m sh dn map h')
include ct

/-- the two labellings agree on the copied lines and on the instance's input lines -/
structure Agree {α : Type _} (ct : SubstCert h c m sh dn map h') (v' vm : Nat → α) : Prop where
  new : ∀ t (ht : t < (copiedLines m map).length), v' (h.net.lines.size + t) = vm (copiedLines m map)[t]
  inp : ∀ k ll inn i0, instIn h c k = some ll → sh.inPorts[k]? = some inn → (m.net.node inn).outs.length = 1 →
    (m.net.node inn).outs.head? = some (some i0) → v' ll = vm i0

/-- where the line at a pin of a node of `node_map` comes from: a copied line, or a line at an input pin of the instance -/
theorem SubstCert.own_pin_src (j x k l' : Nat) (hm : map.getD j none = some x)
    (hp : (h'.net.node x).ins.getD k none = some l') :
    (∃ t, ∃ ht : t < (copiedLines m map).length, l' = h.net.lines.size + t ∧
      (m.net.line (copiedLines m map)[t]).reader = j ∧ (m.net.line (copiedLines m map)[t]).rpin = k) ∨
    (∃ k0 inn, instIn h c k0 = some l' ∧ sh.inPorts[k0]? = some inn ∧
      (((m.net.node inn).outs.length = 1 ∧ ∃ i0, (m.net.node inn).outs.head? = some (some i0) ∧
          (m.net.line i0).reader = j ∧ (m.net.line i0).rpin = k) ∨
       ((m.net.node inn).outs.length ≠ 1 ∧ inn = j ∧ k = 0))) := by
  have hx := ct.mapLt j x hm
  obtain ⟨hl', hr', hk'⟩ := ct.wf'.fwdIn x hx k l' hp
  rcases ct.line_split l' hl' with hlt | ⟨t, ht, e⟩
  · right
    obtain ⟨k0, hk0⟩ := ct.ownIns x k l' (ct.mapGe j x hm) hp hlt
    obtain ⟨inn, r, rp, hinn, htg, e1, e2⟩ := ct.inWire k0 l' hk0
    have er : r = x := e1.symm.trans hr'
    have ep : rp = k := e2.symm.trans hk'
    subst er; subst ep
    refine ⟨k0, inn, hk0, hinn, ?_⟩
    rcases inTarget_cases htg with ⟨hlen, i0, hh, hmr, hrp⟩ | ⟨hlen, hmi, hrp⟩
    · left
      exact ⟨hlen, i0, hh, ct.mapInj _ _ _ hmr hm, hrp.symm⟩
    · right
      exact ⟨hlen, ct.mapInj _ _ _ hmi hm, hrp⟩
  · left
    obtain ⟨_, xd, xr, h1, h2, hline⟩ := ct.new_fields t ht
    rw [e, hline] at hr' hk'
    dsimp only at hr' hk'
    subst hr'
    exact ⟨t, ht, e, ct.mapInj _ _ _ h2 hm, hk'⟩

/-- a copied line sits at the pin of the copy of its reader -/
theorem SubstCert.pin_of_copied (i xd xr : Nat) (hi : i < m.net.lines.size)
    (h1 : map.getD (m.net.line i).driver none = some xd) (h2 : map.getD (m.net.line i).reader none = some xr) :
    ∃ t, ∃ ht : t < (copiedLines m map).length, (copiedLines m map)[t] = i ∧
      (h'.net.node xr).ins.getD (m.net.line i).rpin none = some (h.net.lines.size + t) := by
  obtain ⟨t, ht, e, hline⟩ := ct.copy_of i hi xd xr h1 h2
  refine ⟨t, ht, e, ?_⟩
  have hlt : h.net.lines.size + t < h'.net.lines.size := by rw [ct.lsize]; omega
  have b : (h'.net.node (h'.net.line (h.net.lines.size + t)).reader).ins.getD (h'.net.line (h.net.lines.size + t)).rpin none =
      some (h.net.lines.size + t) := ct.backR _ hlt (Or.inl (Nat.le_add_right _ _))
  rw [hline] at b
  exact b

/-- the host line at the instance pin of an input port with one reader sits at the pin of the copy of that reader -/
theorem SubstCert.pin_of_input (inn i0 ll xr : Nat) (hin : inn ∈ sh.inPorts) (hlen : (m.net.node inn).outs.length = 1)
    (hh : (m.net.node inn).outs.head? = some (some i0)) (hll : instIn h c (sh.inPorts.idxOf inn) = some ll)
    (h2 : map.getD (m.net.line i0).reader none = some xr) :
    (h'.net.node xr).ins.getD (m.net.line i0).rpin none = some ll := by
  obtain ⟨inn', r, rp, hinn', htg, e1, e2⟩ := ct.inWire _ ll hll
  have : inn' = inn := by
    have := getElem?_idxOf_mem hin
    rw [this] at hinn'
    exact (Option.some.inj hinn').symm
  subst this
  have hlt : ll < h'.net.lines.size := by
    have := (ct.hwf.fwdIn c ct.hc _ ll hll).1
    rw [ct.lsize]; omega
  have b : (h'.net.node (h'.net.line ll).reader).ins.getD (h'.net.line ll).rpin none = some ll :=
    ct.backR ll hlt (Or.inr (ct.hwf.ptsBack_of_pin c _ ll ct.hc hll))
  rw [e1, e2] at b
  rcases inTarget_cases htg with ⟨_, i0', hh', hmr, hrp⟩ | ⟨hne, _, _⟩
  · have : i0' = i0 := by rw [hh] at hh'; exact (Option.some.inj (Option.some.inj hh')).symm
    subst this
    have : r = xr := by rw [h2] at hmr; exact (Option.some.inj hmr).symm
    subst this
    rw [hrp] at b
    exact b
  · exact absurd hlen hne

/-- **every node of `node_map` other than an input-port fork reads what its original reads** -/
theorem SubstCert.reads_eq {α : Type _} (j x : Nat) (hm : map.getD j none = some x)
    (hnp : ¬ (j ∈ m.net.io ∧ (m.net.node j).ins.length = 0)) (v' vm : Nat → α) (ag : Agree ct v' vm) (k : Nat) :
    ((h'.net.node x).inPin k).map v' = (((cutIns m (deadLine h c m sh)).net.node j).inPin k).map vm := by
  have hj := ct.mapM j x hm
  rw [cutIns_inPin]
  simp only [NodeD.inPin]
  -- a pin entry of `x` that comes from an input port with several readers is excluded
  have hmulti : ∀ inn, inn ∈ sh.inPorts → inn = j → False := by
    intro inn hin e
    subst e
    exact hnp ((mem_inPorts ct.shape _).mp hin)
  cases hmk : (m.net.node j).ins.getD k none with
  | none =>
    simp only [Option.bind_none, Option.map_none]
    cases hx : (h'.net.node x).ins.getD k none with
    | none => rfl
    | some l' =>
      exfalso
      rcases ct.own_pin_src j x k l' hm hx with ⟨t, ht, _, hr, hp⟩ | ⟨k0, inn, _, hinn, hc⟩
      · have b := (ct.mwf.back _ (ct.new_fields t ht).1).2.2.2
        rw [hr, hp, hmk] at b
        exact absurd b (by simp)
      · have hin : inn ∈ sh.inPorts := List.mem_of_getElem? hinn
        rcases hc with ⟨hlen, i0, hh, hr, hp⟩ | ⟨_, e, _⟩
        · have b := (ct.mwf.back _ (ct.single_not_copied inn i0 hin hlen hh).1).2.2.2
          rw [hr, hp, hmk] at b
          exact absurd b (by simp)
        · exact hmulti inn hin e
  | some i =>
    obtain ⟨hi, hri, hpi⟩ := ct.mwf.fwdIn j hj k i hmk
    by_cases hdead : deadLine h c m sh i = true
    · simp only [Option.bind_some, hdead, if_true, Option.map_none]
      obtain ⟨dio, dins, dlen, dpin⟩ := (deadLine_iff h c m sh i).mp hdead
      have dinp : (m.net.line i).driver ∈ sh.inPorts := (mem_inPorts ct.shape _).mpr ⟨dio, dins⟩
      cases hx : (h'.net.node x).ins.getD k none with
      | none => rfl
      | some l' =>
        exfalso
        rcases ct.own_pin_src j x k l' hm hx with ⟨t, ht, _, hr, hp⟩ | ⟨k0, inn, hk0, hinn, hc⟩
        · obtain ⟨hlt, xd, xr, h1, _, _⟩ := ct.new_fields t ht
          have : (copiedLines m map)[t] = i := ct.pinU _ _ hlt hi (hr.trans hri.symm) (hp.trans hpi.symm)
          rw [this] at h1
          have := ct.inPort_mapped _ xd dinp h1
          omega
        · have hin : inn ∈ sh.inPorts := List.mem_of_getElem? hinn
          rcases hc with ⟨hlen, i0, hh, hr, hp⟩ | ⟨_, e, _⟩
          · obtain ⟨hlt, hdrv, _⟩ := ct.single_not_copied inn i0 hin hlen hh
            have : i0 = i := ct.pinU _ _ hlt hi (hr.trans hri.symm) (hp.trans hpi.symm)
            subst this
            rw [hdrv, inPorts_idxOf ct.shape ct.ioNodup k0 inn hinn, hk0] at dpin
            exact absurd dpin (by simp)
          · exact hmulti inn hin e
    · simp only [Option.bind_some, hdead, Bool.false_eq_true, if_false, Option.map_some]
      have hxr : map.getD (m.net.line i).reader none = some x := by rw [hri]; exact hm
      cases hmd : map.getD (m.net.line i).driver none with
      | some xd =>
        obtain ⟨t, ht, e, hpin⟩ := ct.pin_of_copied i xd x hi hmd hxr
        rw [hpi] at hpin
        rw [hpin, Option.map_some, ag.new t ht, e]
      | none =>
        obtain ⟨dinp, dlen, dhead⟩ := ct.unmapped_driver i hi hmd
        obtain ⟨dio, dins⟩ := (mem_inPorts ct.shape _).mp dinp
        cases hll : instIn h c (sh.inPorts.idxOf (m.net.line i).driver) with
        | none => exact absurd ((deadLine_iff h c m sh i).mpr ⟨dio, dins, dlen, hll⟩) hdead
        | some ll =>
          have hpin := ct.pin_of_input _ i ll x dinp dlen dhead hll hxr
          rw [hpi] at hpin
          rw [hpin, Option.map_some]
          rw [ag.inp _ ll _ i hll (getElem?_idxOf_mem dinp) dlen dhead]

end cert
end KV.Transform
