import KyupyVerif.Model.Substitute
import KyupyVerif.Proofs.TransformStable
/-! Helper lemmas for C10 (`substitute`), part 1: operations that only re-wire pins keep node count, kinds, names and
the port list; what `Node(...)`, `Node.remove()` and `remove_dangling_nodes` do to the observables. -/
namespace KV.Transform
open KV

/-- same number of nodes, same kinds -/
def PinsOnlyN (a b : Array NodeD) : Prop := b.size = a.size ∧ ∀ j, kindAt b j = kindAt a j
/-- … and the same port list -/
def PinsOnly (a b : Net) : Prop := PinsOnlyN a.nodes b.nodes ∧ b.io = a.io

theorem PinsOnlyN.refl (a : Array NodeD) : PinsOnlyN a a := ⟨rfl, fun _ => rfl⟩
theorem PinsOnlyN.trans {a b c : Array NodeD} (h1 : PinsOnlyN a b) (h2 : PinsOnlyN b c) : PinsOnlyN a c :=
  ⟨h2.1.trans h1.1, fun j => (h2.2 j).trans (h1.2 j)⟩
theorem PinsOnly.refl (a : Net) : PinsOnly a a := ⟨PinsOnlyN.refl _, rfl⟩
theorem PinsOnly.trans {a b c : Net} (h1 : PinsOnly a b) (h2 : PinsOnly b c) : PinsOnly a c :=
  ⟨h1.1.trans h2.1, h2.2.trans h1.2⟩

theorem pinsOnlyN_modify (ns : Array NodeD) (k : Nat) (f : NodeD → NodeD) (hf : ∀ n, (f n).kind = n.kind) :
    PinsOnlyN ns (ns.modify k f) := ⟨by simp, fun j => kindAt_modify ns k j f hf⟩
theorem pinsOnlyN_map (ns : Array NodeD) (f : NodeD → NodeD) (hf : ∀ n, (f n).kind = n.kind) :
    PinsOnlyN ns (ns.map f) := ⟨by simp, fun j => kindAt_map ns j f hf⟩

theorem pinsOnly_delLine (net : Net) (b : Nat) : PinsOnly net (delLine net b) :=
  ⟨pinsOnlyN_map _ _ (fun _ => rfl), rfl⟩

theorem pinsOnly_detachDriver (net net' : Net) (l : Nat) (h : detachDriver net l = some net') : PinsOnly net net' := by
  unfold detachDriver at h
  dsimp only at h
  split at h
  · split at h
    · exact absurd h (by simp)
    · cases h; exact ⟨pinsOnlyN_modify _ _ _ (fun _ => rfl), rfl⟩
  · cases h; exact ⟨pinsOnlyN_modify _ _ _ (fun _ => rfl), rfl⟩

theorem pinsOnly_removeLine (cr : Bool) (net net' : Net) (l : Nat) (h : removeLine cr net l = some net') : PinsOnly net net' := by
  unfold removeLine at h
  simp only [Option.map_eq_some_iff] at h
  obtain ⟨net1, h1, e⟩ := h
  subst e
  refine (pinsOnly_detachDriver net net1 l h1).trans ?_
  refine PinsOnly.trans ?_ (pinsOnly_delLine _ l)
  cases cr
  · exact PinsOnly.refl _
  · exact ⟨pinsOnlyN_modify _ _ _ (fun _ => rfl), rfl⟩

theorem pinsOnly_removeLines : ∀ (ls : List Nat) (ren : Option Nat → Option Nat) (net net' : Net),
    removeLines ren ls net = some net' → PinsOnly net net'
  | [], _, net, net', h => by cases h; exact PinsOnly.refl _
  | l0 :: rest, ren, net, net', h => by
    unfold removeLines at h
    split at h
    · exact absurd h (by simp)
    · split at h
      · exact absurd h (by simp)
      · rename_i net1 h1
        exact (pinsOnly_removeLine true net net1 _ h1).trans (pinsOnly_removeLines rest _ net1 net' h)

theorem pinsOnly_setReader (net : Net) (ll r rp : Nat) : PinsOnly net (setReader net ll r rp) :=
  ⟨pinsOnlyN_modify _ _ _ (fun _ => rfl), rfl⟩
theorem pinsOnly_setDriver (net : Net) (ll d dp : Nat) : PinsOnly net (setDriver net ll d dp) :=
  ⟨pinsOnlyN_modify _ _ _ (fun _ => rfl), rfl⟩

theorem pinsOnlyN_addLine (st : Array NodeD × Array LineD) (d dp r rp : Nat) : PinsOnlyN st.1 (addLine st d dp r rp).1 := by
  unfold addLine
  dsimp only
  exact PinsOnlyN.trans
    (pinsOnlyN_modify st.1 d (fun n => { n with outs := growSet n.outs dp (some st.2.size) }) (fun _ => rfl))
    (pinsOnlyN_modify _ r (fun n => { n with ins := growSet n.ins rp (some st.2.size) }) (fun _ => rfl))

theorem pinsOnlyN_addImplLine (map : Array (Option Nat)) (st : Array NodeD × Array LineD) (ln : LineD) :
    PinsOnlyN st.1 (addImplLine map st ln).1 := by
  unfold addImplLine
  split
  · exact pinsOnlyN_addLine _ _ _ _ _
  · exact PinsOnlyN.refl _

theorem pinsOnlyN_foldl_addImplLine (map : Array (Option Nat)) : ∀ (ls : List LineD) (st : Array NodeD × Array LineD),
    PinsOnlyN st.1 (ls.foldl (addImplLine map) st).1
  | [], st => PinsOnlyN.refl _
  | ln :: ls, st => (pinsOnlyN_addImplLine map st ln).trans (pinsOnlyN_foldl_addImplLine map ls _)

theorem pinsOnly_phase3 (m : NNet) (map : Array (Option Nat)) (h2 : NNet) : PinsOnly h2.net (phase3 m map h2) :=
  ⟨pinsOnlyN_foldl_addImplLine map _ _, rfl⟩

theorem pinsOnly_connectIns (m : NNet) (map : Array (Option Nat)) : ∀ (l : List (Nat × Option Nat))
    (st st' : Net × (Option Nat → Option Nat)), connectIns m map l st = some st' → PinsOnly st.1 st'.1
  | [], st, st', h => by cases h; exact PinsOnly.refl _
  | (inn, o) :: rest, (net, ren), st', h => by
    unfold connectIns at h
    split at h
    · exact pinsOnly_connectIns m map rest _ st' h
    · skip
      split at h
      · split at h
        · exact absurd h (by simp)
        · rename_i net1 h1
          exact (pinsOnly_removeLine false net net1 _ h1).trans (pinsOnly_connectIns m map rest _ st' h)
      · split at h
        · exact absurd h (by simp)
        · exact (pinsOnly_setReader net _ _ _).trans (pinsOnly_connectIns m map rest _ st' h)

theorem pinsOnly_connectOuts (m : NNet) (map : Array (Option Nat)) : ∀ (l : List (Nat × Option Nat))
    (st st' : Net × List (Option Nat)), connectOuts m map l st = some st' → PinsOnly st.1 st'.1
  | [], st, st', h => by cases h; exact PinsOnly.refl _
  | (l, none) :: rest, (net, dang), st', h => by
    unfold connectOuts at h
    have := pinsOnly_connectOuts m map rest _ st' h
    exact this
  | (l, some ll) :: rest, (net, dang), st', h => by
    unfold connectOuts at h
    skip
    split at h
    · exact absurd h (by simp)
    · exact (pinsOnly_setDriver net _ _ _).trans (pinsOnly_connectOuts m map rest _ st' h)

theorem renumberDpins_size (lines : Array LineD) : ∀ (outs : List (Option Nat)) (k : Nat), (renumberDpins lines outs k).size = lines.size
  | [], _ => rfl
  | none :: rest, k => by simp only [renumberDpins]; exact renumberDpins_size lines rest (k + 1)
  | some l :: rest, k => by simp only [renumberDpins]; rw [renumberDpins_size _ rest (k + 1)]; simp

theorem pinsOnly_densifyNode (net : Net) (v : Nat) : PinsOnly net (densifyNode net v) := by
  unfold densifyNode
  split
  · exact ⟨pinsOnlyN_modify _ _ _ (fun _ => rfl), rfl⟩
  · exact PinsOnly.refl _

theorem densifyNode_lines_size (net : Net) (v : Nat) : (densifyNode net v).lines.size = net.lines.size := by
  unfold densifyNode
  split
  · exact renumberDpins_size _ _ _
  · rfl

theorem pinsOnly_foldl_densifyNode : ∀ (vs : List Nat) (net : Net), PinsOnly net (vs.foldl densifyNode net) ∧
    (vs.foldl densifyNode net).lines.size = net.lines.size
  | [], net => ⟨PinsOnly.refl _, rfl⟩
  | v :: vs, net => by
    have ih := pinsOnly_foldl_densifyNode vs (densifyNode net v)
    exact ⟨(pinsOnly_densifyNode net v).trans ih.1, ih.2.trans (densifyNode_lines_size net v)⟩

theorem pinsOnly_densify (net : Net) (map : Array (Option Nat)) : PinsOnly net (densify net map) :=
  (pinsOnly_foldl_densifyNode _ net).1
theorem densify_lines_size (net : Net) (map : Array (Option Nat)) : (densify net map).lines.size = net.lines.size :=
  (pinsOnly_foldl_densifyNode _ net).2

/-- when no copied fork has a gap the loop changes nothing -/
theorem densify_of_dense (net : Net) (map : Array (Option Nat)) (h : needsDensify net map = false) : densify net map = net := by
  unfold needsDensify at h
  unfold densify
  have : ∀ (vs : List Nat), (vs.any fun v => (net.node v).isFork && (net.node v).outs.any (·.isNone)) = false →
      vs.foldl densifyNode net = net := by
    intro vs
    induction vs with
    | nil => intro _; rfl
    | cons v vs ih =>
      intro hv
      simp only [List.any_cons, Bool.or_eq_false_iff] at hv
      have : densifyNode net v = net := by unfold densifyNode; simp [hv.1]
      simp only [List.foldl_cons, this]
      exact ih hv.2
  exact this _ h

end KV.Transform

namespace KV.Transform
open KV

/-! ### observables: `(kind, name)` of every node, port names -/
theorem obs_of_pinsOnly (a b : NNet) (hp : PinsOnly a.net b.net) (hn : b.names = a.names) :
    b.kindNames = a.kindNames ∧ b.ioNames = a.ioNames ∧ (LI a → LI b) := by
  refine ⟨?_, ?_, ?_⟩
  · rw [kindNames_eq, kindNames_eq, hp.1.1, hn]
    apply List.map_congr_left; intro j _; rw [hp.1.2 j]
  · simp [NNet.ioNames, hp.2, hn]
  · intro li
    exact ⟨by rw [hn, hp.1.1]; exact li.1, by rw [hp.2, hp.1.1]; exact li.2⟩

theorem kindAt_push (ns : Array NodeD) (x : NodeD) (j : Nat) :
    kindAt (ns.push x) j = if j < ns.size then kindAt ns j else if j = ns.size then x.kind else (default : NodeD).kind := by
  simp only [kindAt, Array.getD_eq_getD_getElem?, Array.getElem?_push]
  by_cases h1 : j < ns.size
  · have : ¬ j = ns.size := by omega
    simp [h1, this]
  · by_cases h2 : j = ns.size
    · simp [h2]
    · simp [h1, h2, Array.getElem?_eq_none (by omega : ns.size ≤ j)]

theorem names_push_getD (a : Array String) (x : String) (j : Nat) :
    (a.push x).getD j "" = if j < a.size then a.getD j "" else if j = a.size then x else "" := by
  simp only [Array.getD_eq_getD_getElem?, Array.getElem?_push]
  by_cases h1 : j < a.size
  · have : ¬ j = a.size := by omega
    simp [h1, this]
  · by_cases h2 : j = a.size
    · simp [h2]
    · simp [h1, h2, Array.getElem?_eq_none (by omega : a.size ≤ j)]

theorem addNode_obs (h h' : NNet) (name kind : String) (he : addNode h name kind = some h') (li : LI h) :
    h'.kindNames = h.kindNames ++ [(kind, name)] ∧ h'.ioNames = h.ioNames ∧ LI h' ∧
    h'.net.nodes.size = h.net.nodes.size + 1 ∧ h'.net.io = h.net.io := by
  unfold addNode at he
  split at he
  · exact absurd he (by simp)
  · cases he
    refine ⟨?_, ?_, ⟨by simp [li.1], fun j hj => by have := li.2 j hj; simp; omega⟩, by simp, rfl⟩
    · rw [kindNames_eq, kindNames_eq]
      simp only [Array.size_push, List.range_succ, List.map_append, List.map_singleton]
      congr 1
      · apply List.map_congr_left
        intro j hj
        have hj' := List.mem_range.mp hj
        have hj2 : j < h.names.size := by rw [li.1]; exact hj'
        rw [kindAt_push, names_push_getD]
        simp only [hj', hj2, if_true]
      · rw [kindAt_push, names_push_getD, li.1]
        simp
    · simp only [NNet.ioNames]
      apply List.map_congr_left
      intro j hj
      have : j < h.names.size := by rw [li.1]; exact li.2 j hj
      rw [names_push_getD]
      simp only [this, if_true]

theorem delNode_obs (nn : NNet) (i : Nat) (li : LI nn) (hi : i < nn.net.nodes.size) (hio : nn.net.io.contains i = false) :
    LI (delNode nn i) ∧ (delNode nn i).ioNames = nn.ioNames ∧ (delNode nn i).kindNames.Perm (nn.kindNames.eraseIdx i) := by
  have h := delNode_io nn i li hi hio
  refine ⟨h.2, h.1, ?_⟩
  rw [delNode_kindNames nn i li hi, kindNames_eq nn]
  have hM : nn.net.nodes.size = (nn.net.nodes.size - 1) + 1 := by omega
  conv => rhs; rw [hM]
  exact swapPop_perm_eraseIdx (fun j => (kindAt nn.net.nodes j, nn.names.getD j "")) (nn.net.nodes.size - 1) i (by omega)

theorem filter_eraseIdx {α} (p : α → Bool) : ∀ (l : List α) (i : Nat) (hi : i < l.length), p l[i] = false →
    (l.eraseIdx i).filter p = l.filter p
  | [], i, hi, _ => by simp at hi
  | a :: l, 0, _, hp => by
    have : p a = false := by simpa using hp
    simp [List.filter_cons, this]
  | a :: l, i + 1, hi, hp => by
    have hi' : i < l.length := by simpa using hi
    have hp' : p l[i] = false := by simpa using hp
    simp only [List.eraseIdx_cons_succ, List.filter_cons]
    rw [filter_eraseIdx p l i hi' hp']

theorem kindNames_getElem' (nn : NNet) (i : Nat) (hi : i < nn.kindNames.length) :
    nn.kindNames[i] = (kindAt nn.net.nodes i, nn.names.getD i "") := by
  simp [kindNames_eq]

/-- a predicate on `(kind, name)` that selects state elements only -/
def SeqOnly (p : String × String → Bool) : Prop := ∀ k n, p (k, n) = true → isSeqKind k = true

theorem removeDangling_obs : ∀ (fuel : Nat) (nn : NNet) (own : List Nat) (stack : List (Option Nat)) (nn' : NNet),
    LI nn → (∀ x ∈ own, x < nn.net.nodes.size) → removeDangling fuel nn own stack = some nn' →
    LI nn' ∧ nn'.ioNames = nn.ioNames ∧
    ∀ p, SeqOnly p → (nn'.kindNames.filter p).Perm (nn.kindNames.filter p)
  | 0, _, _, _, _, _, _, h => by simp [removeDangling] at h
  | fuel + 1, nn, own, [], nn', li, _, h => by
    simp only [removeDangling] at h
    cases h; exact ⟨li, rfl, fun _ _ => List.Perm.refl _⟩
  | fuel + 1, nn, own, none :: rest, nn', li, ho, h => by
    simp only [removeDangling] at h
    exact removeDangling_obs fuel nn own rest nn' li ho h
  | fuel + 1, nn, own, some root :: rest, nn', li, ho, h => by
    simp only [removeDangling] at h
    split at h
    · exact removeDangling_obs fuel nn own rest nn' li ho h
    · split at h
      · exact removeDangling_obs fuel nn own rest nn' li ho h
      · rename_i hio
        split at h
        · exact removeDangling_obs fuel nn own rest nn' li ho h
        · rename_i hseq
          split at h
          · exact removeDangling_obs fuel nn own rest nn' li ho h
          · rename_i hown
            split at h
            · exact absurd h (by simp)
            · rename_i net1 h1
              have hown' : root ∈ own := by simpa using hown
              have hr : root < nn.net.nodes.size := ho root hown'
              have hio' : nn.net.io.contains root = false := by simpa using hio
              have po := pinsOnly_removeLines _ _ _ _ h1
              have ob := obs_of_pinsOnly nn { nn with net := net1 } po rfl
              have li1 := ob.2.2 li
              have hr1 : root < ({ nn with net := net1 } : NNet).net.nodes.size := by rw [po.1.1]; exact hr
              have hio1 : ({ nn with net := net1 } : NNet).net.io.contains root = false := by rw [po.2]; exact hio'
              have dl := delNode_obs { nn with net := net1 } root li1 hr1 hio1
              have ho2 : ∀ x ∈ own.filterMap (fun x => mvNode nn.net.nodes.size root (some x)),
                  x < (delNode { nn with net := net1 } root).net.nodes.size := by
                intro x hx
                rw [List.mem_filterMap] at hx
                obtain ⟨y, hy, e⟩ := hx
                have hy' := ho y hy
                have hs : (delNode { nn with net := net1 } root).net.nodes.size = nn.net.nodes.size - 1 := by
                  simp [delNode, po.1.1]
                rw [hs]
                simp only [mvNode, beq_iff_eq, Option.some.injEq] at e
                split at e
                · exact absurd e (by simp)
                · split at e
                  · cases e; omega
                  · cases e; omega
              have ih := removeDangling_obs fuel _ _ _ nn' dl.1 ho2 h
              refine ⟨ih.1, ih.2.1.trans (dl.2.1.trans ob.2.1), fun p hp => ?_⟩
              refine (ih.2.2 p hp).trans ?_
              refine (dl.2.2.filter p).trans ?_
              rw [ob.1]
              have hlen : root < nn.kindNames.length := by simp [kindNames_eq, hr]
              rw [filter_eraseIdx p _ root hlen]
              rw [kindNames_getElem' nn root hlen]
              cases hpv : p (kindAt nn.net.nodes root, nn.names.getD root "") with
              | false => rfl
              | true =>
                have := hp _ _ hpv
                simp only [kindAt, Net.node] at this hseq
                rw [this] at hseq; exact absurd rfl hseq

end KV.Transform
