import KyupyVerif.Proofs.CircObjCopy
import KyupyVerif.Proofs.CircObjElim
/-! C09: every operation under `pre`, and every history, preserves `WFc`. -/
namespace KV.CircObj

theorem getOrAddFork_wf {c : Circ} (wf : WFc c) (name : String) : WFc (getOrAddFork c name) := by
  unfold getOrAddFork
  split
  · exact wf
  · rename_i h
    exact addNode_wf wf (by simpa [nameFree] using h)

/-- every operation preserves `WFc` under its well-formed-use precondition `pre` -/
theorem step_wf {c : Circ} (wf : WFc c) (op : Op) (hpre : pre c op = true) : WFc (step c op) := by
  cases op with
  | addNode name kind => exact addNode_wf wf hpre
  | addLine di dp ri rp =>
    simp only [pre, step] at hpre ⊢
    cases hd : c.nodes[di]? with
    | none => simp [hd] at hpre
    | some d =>
      cases hr : c.nodes[ri]? with
      | none => simp [hd, hr] at hpre
      | some r =>
        simp only [hd, hr, Bool.and_eq_true] at hpre ⊢
        have hdm : d ∈ c.nodes := List.mem_of_getElem? hd
        have hrm : r ∈ c.nodes := List.mem_of_getElem? hr
        refine addLine_wf wf hdm hrm ?_ ?_ ?_
        · cases dp with
          | none => exact pin_freeIndex _
          | some p =>
            have := hpre.1
            simp only [outPinOK, Bool.and_eq_true, Option.isNone_iff_eq_none] at this
            exact this.1
        · cases rp with
          | none => exact pin_freeIndex _
          | some p =>
            have := hpre.2
            simp only [inPinOK, Option.isNone_iff_eq_none] at this
            exact this
        · intro hk
          cases dp with
          | none => exact freeIndex_full (wf.forkFull d hdm hk)
          | some p =>
            have := hpre.1
            simp only [outPinOK, Bool.and_eq_true, Bool.or_eq_true, bne_iff_ne, beq_iff_eq] at this
            rcases this.2 with h | h
            · exact absurd hk h
            · exact h
  | removeLine li =>
    simp only [pre, decide_eq_true_eq] at hpre
    simp only [step, List.getElem?_eq_getElem hpre]
    exact removeLine_wf wf (List.getElem_mem hpre)
  | removeNode ni =>
    simp only [pre, step] at hpre ⊢
    cases hi : c.nodes[ni]? with
    | none => simp [hi] at hpre
    | some i =>
      simp only [hi, Bool.and_eq_true, Bool.not_eq_true', List.contains_eq_mem, decide_eq_false_iff_not] at hpre ⊢
      exact removeNode_wf wf (List.mem_of_getElem? hi) (all_isNone_pin hpre.1.1) (all_isNone_pin hpre.1.2) hpre.2
  | ioAppend ni =>
    simp only [pre, decide_eq_true_eq] at hpre
    simp only [step, List.getElem?_eq_getElem hpre]
    exact ioAppend_wf wf (List.getElem_mem hpre)
  | getFork name => exact getOrAddFork_wf wf name
  | elim => exact elim_wf wf hpre
  | copy => exact copy_wf wf
  | pickle => exact pickle_wf wf


theorem run_wf (ops : List Op) (c c' : Circ) (wf : WFc c) (h : run c ops = some c') : WFc c' := by
  induction ops generalizing c with
  | nil => simp only [run, Option.some.injEq] at h; exact h ▸ wf
  | cons op rest ih =>
    simp only [run] at h
    split at h
    · rename_i hp; exact ih _ (step_wf wf op hp) h
    · cases h

end KV.CircObj
