import KyupyVerif.Proofs.TechChk
import KyupyVerif.Gen.Techlib1
/-! kernel evaluation of the C19 function checker (all listed families except the adders) on chunk 1 of the
generated library tables — one file per chunk so that `lake build` runs them in parallel -/
namespace KV.Tech
open KV.TL KV.DS

theorem gates1 : Gen.techChunk1.all (funOK (!·.isAdder)) = true := by decide +kernel

end KV.Tech
