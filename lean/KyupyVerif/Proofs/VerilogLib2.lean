import KyupyVerif.Proofs.VerilogLib1
import KyupyVerif.Proofs.CircOuts
/-! Capstone C11 ∘ C10 ∘ C19, part 2: **hole-set `verilog_parsed_sem` in the vocabulary of C10** — the labellings of the parsed
circuit (as `NNet`) that are consistent outside the library-cell nodes (`ConsOff … (libHole lib …)`) are exactly the labellings of
the environments that satisfy every equation of the module except those of the library instances (`VModelOff`). -/
namespace KV.Netlist
open KV KV.Transform

universe u
variable {cfg : Cfg} {tl : TL} {ports : List String} {stmts : List Stmt}

/-- the instances whose cell type is in the library -/
def isLibInst (lib : Lib) (i : VInst) : Prop := (lib.find i.ty).isSome = true

theorem libHole_inst (hok : VOK cfg tl ports stmts) (lib : Lib) (i : VInst) (hi : i ∈ vInsts stmts) (p : Nat) :
    libHole lib (verilogNNet cfg tl ports stmts) ((module cfg tl ports stmts).nodeIdx (.cell i.name p)) ↔ isLibInst lib i := by
  have hres := v_resolved_inst hok i hi p
  unfold libHole isLibInst
  rw [verilogNNet_net, verilogNet_kind _ hres, v_kindOf_inst hok i hi]
  constructor
  · exact fun h => h.2
  · intro h
    refine ⟨?_, h⟩
    unfold verilogNet; rw [toNet_nodes_size]; exact hres

/-- **soundness**: the labelling of an environment that satisfies everything except the library instances is consistent
outside the library-cell nodes (assignment read at the node's `s_nodes` position) -/
theorem verilog_model_consOff {α : Type u} (hok : VOK cfg tl ports stmts) (lib : Lib) (z : α) (neg : α → α)
    (prim : String → α → α → α → α → α) (a : Nat → α) (σ : String → α)
    (hm : VModelOff (isLibInst lib) tl ports stmts z neg prim a σ) :
    ConsOff (verilogNNet cfg tl ports stmts) (libHole lib (verilogNNet cfg tl ports stmts)) z neg prim
      (fun n => a ((verilogNet cfg tl ports stmts).sNodes.idxOf n)) (vLabel cfg tl stmts z prim σ) := by
  apply (consOff_iff_labellingOff (verilogNNet cfg tl ports stmts) _ z neg prim a _ (fun _ _ => rfl) _).mpr
  exact v_model_labelling_off hok (isLibInst lib) _ (fun i hi h => (libHole_inst hok lib i hi 0).mpr h) z neg prim a σ hm

/-- **completeness**: every labelling of the parsed circuit that is consistent outside the library-cell nodes is the labelling
of an environment that satisfies everything except the library instances; the assignment at position `p` is the one of the
`p`-th `s_node` -/
theorem verilog_consOff_model {α : Type u} (hok : VOK cfg tl ports stmts) (lib : Lib) (hcl : LibClean lib stmts) (z : α)
    (neg : α → α) (prim : String → α → α → α → α → α) (an v : Nat → α)
    (hc : ConsOff (verilogNNet cfg tl ports stmts) (libHole lib (verilogNNet cfg tl ports stmts)) z neg prim an v) :
    ∃ σ, VModelOff (isLibInst lib) tl ports stmts z neg prim (fun p => an ((verilogNet cfg tl ports stmts).sNodes.getD p 0)) σ ∧
      ∀ i, i < (verilogNet cfg tl ports stmts).lines.size → v i = vLabel cfg tl stmts z prim σ i := by
  have h1 := (consOff_iff_labellingOff (verilogNNet cfg tl ports stmts) _ z neg prim
    (fun p => an ((verilogNet cfg tl ports stmts).sNodes.getD p 0)) an (fun n hn => by
      have hn' : n ∈ (verilogNet cfg tl ports stmts).sNodes := hn
      show an n = an ((verilogNet cfg tl ports stmts).sNodes.getD ((verilogNet cfg tl ports stmts).sNodes.idxOf n) 0)
      rw [List.getD_eq_getElem?_getD, List.getElem?_eq_getElem (List.idxOf_lt_length_iff.mpr hn')]
      simp) v).mp hc
  exact v_labelling_model_off hok (isLibInst lib) _ (fun t ht h => (libHole_iff hok lib hcl t ht).mp h) z neg prim _ v h1

/-! ## the hole-set theorem for an arbitrary set of instances -/

/-- **hole-set `verilog_parsed_sem`**: for any set `HI` of instances ("holes") and the set `S` of their nodes — the labellings of
the net that satisfy the gate equation of every line NOT driven by a hole correspond one-to-one to the environments that satisfy
every equation of the module except those of the hole instances -/
theorem verilog_parsed_sem_holes_main {α : Type u} (hok : VOK cfg tl ports stmts) (HI : VInst → Prop) (S : Nat → Prop)
    (hS : ∀ n, S n ↔ ∃ i ∈ vInsts stmts, HI i ∧ n = (module cfg tl ports stmts).nodeIdx (.cell i.name 0))
    (z : α) (neg : α → α) (prim : String → α → α → α → α → α) (a : Nat → α) :
    (∀ σ, VModelOff HI tl ports stmts z neg prim a σ →
      NetLabellingOff (verilogNet cfg tl ports stmts) S z neg prim a (vLabel cfg tl stmts z prim σ)) ∧
    (∀ v, NetLabellingOff (verilogNet cfg tl ports stmts) S z neg prim a v →
      ∃ σ, VModelOff HI tl ports stmts z neg prim a σ ∧
        ∀ i, i < (verilogNet cfg tl ports stmts).lines.size → v i = vLabel cfg tl stmts z prim σ i) ∧
    (∀ σ σ', VModelOff HI tl ports stmts z neg prim a σ → VModelOff HI tl ports stmts z neg prim a σ' →
      (∀ i, i < (verilogNet cfg tl ports stmts).lines.size → vLabel cfg tl stmts z prim σ i = vLabel cfg tl stmts z prim σ' i) →
      σ = σ') := by
  refine ⟨fun σ hm => ?_, fun v hv => ?_, fun σ σ' h1 h2 h => v_model_unique_off hok HI HI z neg prim a a σ σ' h1 h2 h⟩
  · exact v_model_labelling_off hok HI S (fun i hi h => (hS _).mpr ⟨i, hi, h, rfl⟩) z neg prim a σ hm
  · apply v_labelling_model_off hok HI S ?_ z neg prim a v hv
    intro t ht hSt
    obtain ⟨i, hi, hH, hidx⟩ := (hS _).mp hSt
    rcases ep_driver_inj _ _ _ (v_resolved_inst hok i hi 0) hidx with ⟨f, h1, _⟩ | ⟨n, p, p', h1, h2⟩
    · cases h1
    · simp only [Ep.cell.injEq] at h1
      obtain ⟨rfl, rfl⟩ := h1
      exact ⟨i, hi, hH, p', h2⟩

end KV.Netlist
