import KyupyVerif.Proofs.SubstGen17
import KyupyVerif.Proofs.SubstResolve
/-! Helper lemmas for C10 (`resolve_sem_general`), part 1: the relational meaning of a cell seen from two circuits that show
the same instance (same connected pins, same values on the lines at the pins), and the lookup of a node by its key in a
circuit whose keys are distinct. -/
namespace KV.Transform
open KV

/-- the relational meaning of the cell `c1` of `H1` under `v1` carries over to the cell `c2` of `H2` under `v2` when the
    two instances are connected alike and the lines at their pins carry the same values -/
theorem implMatches_move {α : Type _} (H1 H2 : NNet) (c1 c2 : Nat) (m : NNet) (sh : Shape) (z : α) (neg : α → α)
    (prim : String → α → α → α → α → α) (anm vm v1 v2 : Nat → α)
    (hins : ∀ k, (instIn H1 c1 k).isNone = (instIn H2 c2 k).isNone)
    (hinv : ∀ k l1 l2, instIn H1 c1 k = some l1 → instIn H2 c2 k = some l2 → v2 l2 = v1 l1)
    (hout : ∀ k il l2, sh.outLines[k]? = some il → instOut H2 c2 k = some l2 → vm il = v2 l2)
    (hM : ImplMatches H1 c1 m sh z neg prim anm vm v1) : ImplMatches H2 c2 m sh z neg prim anm vm v2 := by
  obtain ⟨h1, h2, _⟩ := hM
  have hdead : deadLine H1 c1 m sh = deadLine H2 c2 m sh := by
    funext l
    simp only [deadLine, hins]
  have hport : ∀ p, portVal H2 c2 sh z v2 p = portVal H1 c1 sh z v1 p := by
    intro p
    simp only [portVal]
    have := hins (sh.inPorts.idxOf p)
    cases e1 : instIn H1 c1 (sh.inPorts.idxOf p) with
    | none =>
      rw [e1] at this
      cases e2 : instIn H2 c2 (sh.inPorts.idxOf p) with
      | none => rfl
      | some l2 => rw [e2] at this; simp at this
    | some l1 =>
      rw [e1] at this
      cases e2 : instIn H2 c2 (sh.inPorts.idxOf p) with
      | none => rw [e2] at this; simp at this
      | some l2 => exact hinv _ l1 l2 e1 e2
  refine ⟨by rw [← hdead]; exact h1, fun p hp => by rw [h2 p hp, hport], hout⟩

theorem lookup_key_nodup (nn : NNet) (hn : nn.keys.Nodup) (i : Nat) (hi : i < nn.net.nodes.size) : nn.lookup (nn.key i) = i := by
  have hlen : i < nn.keys.length := by simp [NNet.keys, hi]
  have hk : nn.keys[i] = nn.key i := by simp [NNet.keys]
  rw [NNet.lookup, ← hk]
  exact idxOf_getElem_nodup nn.keys i hlen hn

end KV.Transform
