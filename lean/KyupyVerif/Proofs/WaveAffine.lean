import KyupyVerif.Model.WaveCirc
import KyupyVerif.Proofs.WaveInit
/-! Rigid motion of waveforms: mapping every time by `t ↦ k·t + s` (k > 0) and every delay by `d ↦ k·d`
commutes with the waveform evaluator. `k = 1` is a shift, `s = 0` a scaling. -/
namespace KV.Wave
open KV.Sig

/-- affine map on times; sentinels are fixed -/
def T.aff (k s : Int) : T → T
  | T.fin t => T.fin (k * t + s)
  | x => x

theorem T.aff_lt (k s : Int) (hk : 0 < k) (a b : T) : T.lt (a.aff k s) (b.aff k s) = T.lt a b := by
  cases a <;> cases b <;> simp [T.aff, T.lt, T.rank]
  rename_i x y
  apply decide_eq_decide.mpr
  constructor
  · intro h; exact Int.lt_of_mul_lt_mul_left (a := k) (by omega) (Int.le_of_lt hk)
  · intro h; have := Int.mul_lt_mul_of_pos_left h hk; omega

theorem T.aff_add (k s : Int) (a : T) (d : Int) : (a.add d).aff k s = (a.aff k s).add (k * d) := by
  cases a <;> simp [T.aff, T.add, Int.mul_add]; omega

theorem T.aff_inj (k s : Int) (hk : 0 < k) (a b : T) (h : a.aff k s = b.aff k s) : a = b := by
  cases a <;> cases b <;> simp [T.aff] at h ⊢
  rename_i x y
  have : k * x = k * y := by omega
  exact Int.eq_of_mul_eq_mul_left (by omega) this

theorem T.aff_min (k s : Int) (hk : 0 < k) (a b : T) : (T.min a b).aff k s = T.min (a.aff k s) (b.aff k s) := by
  unfold T.min; rw [T.aff_lt k s hk]; split <;> rfl
theorem T.aff_max (k s : Int) (hk : 0 < k) (a b : T) : (T.max a b).aff k s = T.max (a.aff k s) (b.aff k s) := by
  unfold T.max; rw [T.aff_lt k s hk]; split <;> rfl

theorem T.aff_wider (k s : Int) (hk : 0 < k) (c p : T) (th : Int) :
    T.widerThan (c.aff k s) (p.aff k s) (k * th) = T.widerThan c p th := by
  cases c <;> cases p <;> simp [T.aff, T.widerThan]
  · constructor
    · intro h; exact Int.lt_of_mul_lt_mul_left (a := k) (by simpa using h) (Int.le_of_lt hk)
    · intro h; have := Int.mul_lt_mul_of_pos_left h hk; simpa using this
  · rename_i x y
    have e : k * x + s - (k * y + s) = k * (x - y) := by rw [Int.mul_sub]; omega
    rw [e]
    constructor
    · intro h; exact Int.lt_of_mul_lt_mul_left (a := k) h (Int.le_of_lt hk)
    · intro h; exact Int.mul_lt_mul_of_pos_left h hk

def St.aff (k s : Int) (st : St) : St :=
  { st with r := fun i => (st.r i).map (T.aff k s), z := st.z.map (T.aff k s), prev := st.prev.aff k s }

def Delays.scale (k : Int) (D : Delays) : Delays := fun i p q => k * D i p q

theorem headT_aff (k s : Int) (l : List T) (t : T) : headT (l.map (T.aff k s)) (t.aff k s) = (headT l t).aff k s := by
  cases l <;> rfl

/-- hypotheses: positive factor, terminators are sentinels (fixed by the map) -/
structure AffOK (k : Int) (terms : Fin 4 → T) : Prop where
  kpos : 0 < k
  term : ∀ i, (terms i).aff k 0 = terms i

theorem term_aff {k s : Int} {terms : Fin 4 → T} (h : ∀ i, (terms i).isTerm = true) (i : Fin 4) : (terms i).aff k s = terms i := by
  have := h i; cases ht : terms i <;> simp [ht, T.isTerm] at this <;> rfl

theorem pend_aff (k s : Int) (D : Delays) (terms : Fin 4 → T) (ht : ∀ i, (terms i).isTerm = true) (st : St) (i : Fin 4) :
    pend (Delays.scale k D) terms (st.aff k s) i = (pend D terms st i).aff k s := by
  unfold pend
  simp only [St.aff, Delays.scale]
  rw [T.aff_add, ← headT_aff, term_aff ht]

theorem cur_aff (k s : Int) (hk : 0 < k) (D : Delays) (terms) (ht : ∀ i, (terms i).isTerm = true) (st : St) :
    cur (Delays.scale k D) terms (st.aff k s) = (cur D terms st).aff k s := by
  unfold cur
  simp only [pend_aff k s D terms ht, T.aff_min k s hk]

theorem pick_aff (k s : Int) (hk : 0 < k) (D : Delays) (terms) (ht : ∀ i, (terms i).isTerm = true) (st : St) :
    pick (Delays.scale k D) terms (st.aff k s) = pick D terms st := by
  unfold pick
  simp only [cur_aff k s hk D terms ht, pend_aff k s D terms ht]
  have e : ∀ i, ((pend D terms st i).aff k s = (cur D terms st).aff k s) ↔ (pend D terms st i = cur D terms st) :=
    fun i => ⟨T.aff_inj k s hk _ _, fun h => by rw [h]⟩
  simp only [e]

/-- the structural part of one loop iteration, given the event time, the operand and the three decisions -/
def stepCore (c : T) (i : Fin 4) (b1 b2 b3 : Bool) (st : St) : St :=
  let s1 := { st with r := upd st.r i (st.r i).tail, k := upd st.k i (st.k i + 1), inp := upd st.inp i (!st.inp i) }
  if b1 then
    if b2 then
      if b3 then { s1 with z := c :: st.z, prev := c, zval := !st.zval }
      else { s1 with z := st.z.tail, prev := headT st.z .tmin, ovf := st.ovf + 1, zval := !st.zval }
    else { s1 with z := st.z.tail, prev := headT st.z.tail .tmin, zval := !st.zval }
  else s1

def dec1 (lut : Nat) (st : St) (i : Fin 4) : Bool := (st.z.length % 2 == 1) != lutBit lut (upd st.inp i (!st.inp i))
def dec2 (D : Delays) (terms : Fin 4 → T) (st : St) (c : T) (i : Fin 4) : Bool :=
  st.z.length == 0 ||
    T.lt ((headT (st.r i).tail (terms i)).add (D i (!((st.k i + 1) % 2 == 1)) (!st.zval))) c ||
    T.widerThan c st.prev (D i ((st.k i + 1) % 2 == 1) st.zval)
def dec3 (zcap : Nat) (st : St) : Bool := decide (st.z.length < zcap - 1)

theorem step_eq_core (lut : Nat) (D : Delays) (terms : Fin 4 → T) (zcap : Nat) (st : St) :
    step lut D terms zcap st =
      stepCore (cur D terms st) (pick D terms st) (dec1 lut st (pick D terms st))
        (dec2 D terms st (cur D terms st) (pick D terms st)) (dec3 zcap st) st := by
  unfold step stepCore dec1 dec2 dec3
  simp only [decide_eq_true_eq]

theorem headT_aff_tmin (k s : Int) (l : List T) : headT (l.map (T.aff k s)) T.tmin = (headT l T.tmin).aff k s := by
  cases l <;> rfl
theorem headT_tail_aff_tmin (k s : Int) (l : List T) :
    headT (l.map (T.aff k s)).tail T.tmin = (headT l.tail T.tmin).aff k s := by
  cases l with
  | nil => rfl
  | cons a r => cases r <;> rfl

theorem stepCore_aff (k s : Int) (c : T) (i : Fin 4) (b1 b2 b3 : Bool) (st : St) :
    stepCore (c.aff k s) i b1 b2 b3 (st.aff k s) = (stepCore c i b1 b2 b3 st).aff k s := by
  have hr : upd (fun j => (st.r j).map (T.aff k s)) i ((st.r i).map (T.aff k s)).tail =
      fun j => (upd st.r i (st.r i).tail j).map (T.aff k s) := by
    funext j; unfold upd; split <;> simp [List.map_tail]
  cases b1 <;> cases b2 <;> cases b3 <;>
    simp [stepCore, St.aff, hr, headT_aff_tmin, headT_tail_aff_tmin, List.map_tail]

theorem step_aff (k s : Int) (hk : 0 < k) (lut : Nat) (D : Delays) (terms) (ht : ∀ i, (terms i).isTerm = true) (zcap : Nat) (st : St) :
    step lut (Delays.scale k D) terms zcap (st.aff k s) = (step lut D terms zcap st).aff k s := by
  rw [step_eq_core, step_eq_core, cur_aff k s hk D terms ht, pick_aff k s hk D terms ht]
  have h1 : dec1 lut (st.aff k s) (pick D terms st) = dec1 lut st (pick D terms st) := by
    simp [dec1, St.aff]
  have h3 : dec3 zcap (st.aff k s) = dec3 zcap st := by simp [dec3, St.aff]
  have h2 : dec2 (Delays.scale k D) terms (st.aff k s) ((cur D terms st).aff k s) (pick D terms st) =
      dec2 D terms st (cur D terms st) (pick D terms st) := by
    unfold dec2
    have hr : (st.aff k s).r (pick D terms st) = (st.r (pick D terms st)).map (T.aff k s) := rfl
    have hnext : ((headT ((st.aff k s).r (pick D terms st)).tail (terms (pick D terms st))).add
          (Delays.scale k D (pick D terms st) (!((st.k (pick D terms st) + 1) % 2 == 1)) (!st.zval))) =
        ((headT (st.r (pick D terms st)).tail (terms (pick D terms st))).add
          (D (pick D terms st) (!((st.k (pick D terms st) + 1) % 2 == 1)) (!st.zval))).aff k s := by
      rw [hr, T.aff_add, ← List.map_tail, ← headT_aff, term_aff ht]; rfl
    have hw : T.widerThan ((cur D terms st).aff k s) (st.prev.aff k s)
        (Delays.scale k D (pick D terms st) ((st.k (pick D terms st) + 1) % 2 == 1) st.zval) =
        T.widerThan (cur D terms st) st.prev (D (pick D terms st) ((st.k (pick D terms st) + 1) % 2 == 1) st.zval) :=
      T.aff_wider k s hk _ _ _
    have hzl : (st.aff k s).z.length = st.z.length := by simp [St.aff]
    have hkk : (st.aff k s).k = st.k := rfl
    have hzv : (st.aff k s).zval = st.zval := rfl
    have hpv : (st.aff k s).prev = st.prev.aff k s := rfl
    rw [hzl, hkk, hzv, hpv, hnext, T.aff_lt k s hk, hw]
  rw [h1, h2, h3, stepCore_aff]

theorem run_aff (k s : Int) (hk : 0 < k) (lut : Nat) (D : Delays) (terms) (ht : ∀ i, (terms i).isTerm = true) (zcap fuel : Nat) (st : St) :
    run lut (Delays.scale k D) terms zcap fuel (st.aff k s) = (run lut D terms zcap fuel st).aff k s := by
  induction fuel generalizing st with
  | zero => rfl
  | succ n ih =>
    unfold run
    rw [cur_aff k s hk D terms ht]
    have : T.lt ((cur D terms st).aff k s) T.tmax = T.lt (cur D terms st) T.tmax := by
      have := T.aff_lt k s hk (cur D terms st) T.tmax; simpa [T.aff] using this
    rw [this]
    split
    · rw [step_aff k s hk lut D terms ht, ih]
    · rfl

end KV.Wave

namespace KV.Wave
open KV.Sig

def Wv.aff (k s : Int) (w : Wv) : Wv := ⟨w.ents.map (T.aff k s), w.term.aff k s⟩

theorem init_aff (k s : Int) (lut : Nat) (ws : Fin 4 → List T) :
    init lut (fun i => (ws i).map (T.aff k s)) = (init lut ws).aff k s := by
  unfold init St.aff
  cases (lut % 2 == 1) <;> simp [T.aff]

theorem totalLen_aff (k s : Int) (ws : Fin 4 → List T) :
    totalLen (fun i => (ws i).map (T.aff k s)) = totalLen ws := by simp [totalLen]

theorem startsHigh_aff (k s : Int) (l : List T) : startsHigh (l.map (T.aff k s)) = startsHigh l := by
  cases l with
  | nil => rfl
  | cons a r => cases a <;> rfl

theorem waveEval_aff (k s : Int) (hk : 0 < k) (lut : Nat) (D : Delays) (ws : Fin 4 → List T) (terms : Fin 4 → T)
    (ht : ∀ i, (terms i).isTerm = true) (zcap : Nat) :
    waveEval lut (Delays.scale k D) (fun i => (ws i).map (T.aff k s)) terms zcap =
      (((waveEval lut D ws terms zcap).1).map (T.aff k s), ((waveEval lut D ws terms zcap).2.1).aff k s,
       (waveEval lut D ws terms zcap).2.2.1, (waveEval lut D ws terms zcap).2.2.2) := by
  unfold waveEval
  simp only [totalLen_aff, init_aff, run_aff k s hk lut D terms ht]
  generalize run lut D terms zcap (totalLen ws) (init lut ws) = st
  have hov : (st.aff k s).ovf = st.ovf := rfl
  have hz : (st.aff k s).z = st.z.map (T.aff k s) := rfl
  simp only [hov, hz, pend_aff k s D terms ht, ← T.aff_max k s hk, List.map_reverse, List.length_map, List.length_reverse,
    startsHigh_aff]
  have hsh : startsHigh (List.map (T.aff k s) st.z).reverse = startsHigh st.z.reverse := by
    rw [← List.map_reverse]; exact startsHigh_aff k s _
  split <;> simp [T.aff, hsh]

/-- gate level: rigid motion of the operand waveforms moves the produced waveform rigidly; counts unchanged -/
theorem waveSem_aff (k s : Int) (hk : 0 < k) (cfg : WCfg) (op : Op) (xs : List Wv) (hx : ∀ i, (slot xs i).term.isTerm = true) :
    waveSem ⟨fun l p q => k * cfg.delay l p q, cfg.cap⟩ op (xs.map (Wv.aff k s)) = (waveSem cfg op xs).aff k s := by
  unfold waveSem
  have hs : ∀ i, slot (xs.map (Wv.aff k s)) i = (slot xs i).aff k s := by
    intro i; unfold slot
    simp only [List.getD_eq_getElem?_getD, List.getElem?_map]
    cases xs[i.val]? <;> simp [Wv.aff, Wv.empty, T.aff]
  have e1 : (fun i => (slot (xs.map (Wv.aff k s)) i).ents) = fun i => ((slot xs i).ents).map (T.aff k s) := by
    funext i; rw [hs]; rfl
  have e2 : (fun i => (slot (xs.map (Wv.aff k s)) i).term) = fun i => (slot xs i).term := by
    funext i; rw [hs]; exact term_aff (terms := fun i => (slot xs i).term) hx i
  have e3 : opDelays ⟨fun l p q => k * cfg.delay l p q, cfg.cap⟩ op = Delays.scale k (opDelays cfg op) := rfl
  rw [e1, e2, e3, waveEval_aff k s hk _ _ _ _ hx]
  rfl

end KV.Wave
