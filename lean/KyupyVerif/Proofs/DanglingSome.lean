import KyupyVerif.Proofs.RemoveLine7
/-! C10, audit finding 6 (progress): `remove_dangling_nodes` (model `removeDangling`) never fails and never runs out of fuel on a
circuit that is well-formed up to trailing `None`s whose forks have gap-free output lists — the fuel
`stack.length + lines.size + 1` that `substitute` passes suffices (every iteration consumes one unit and either pops one stack
entry or pops one, removes `k` lines and pushes `k` entries). -/
namespace KV.Transform
open KV

/-- the output list of every fork is gap-free (`Line.remove()` deletes the entry of a fork instead of clearing it; a fork with a
    `None` entry makes `Line.remove()` raise: `None.driver_pin`) -/
def FD (net : Net) : Prop := ∀ j, j < net.nodes.size → (net.node j).isFork = true → ∀ o ∈ (net.node j).outs, o ≠ none

theorem FD_of_forksDenseB {net : Net} (h : forksDenseB net = true) : FD net := by
  intro j hj hf o ho
  simp only [forksDenseB, List.all_eq_true, List.mem_range] at h
  have := h j hj
  simp only [hf, Bool.not_true, Bool.false_or, List.all_eq_true] at this
  intro e; subst e
  exact absurd (this none ho) (by simp)

theorem mem_of_any_isNone {l : List (Option Nat)} (h : l.any (·.isNone) = true) : none ∈ l := by
  obtain ⟨o, ho, e⟩ := List.any_eq_true.mp h
  cases o with
  | none => exact ho
  | some _ => simp at e

/-- `Line.remove()` does not raise when the driver's entry points back and forks are gap-free -/
theorem detachDriver_some (net : Net) (l : Nat) (hd : (net.line l).driver < net.nodes.size)
    (hb : (net.node (net.line l).driver).outs.getD (net.line l).dpin none = some l) (fd : FD net) :
    ∃ net1, detachDriver net l = some net1 := by
  unfold detachDriver
  dsimp only
  split
  · rename_i hf
    split
    · rename_i hany
      exfalso
      have hlt := getD_some_lt hb
      have hmem := mem_of_any_isNone hany
      have : growSet (net.node (net.line l).driver).outs (net.line l).dpin none =
          (net.node (net.line l).driver).outs.set (net.line l).dpin none := by simp [growSet, hlt]
      rw [this] at hmem
      have h2 := List.mem_of_mem_eraseIdx hmem
      rcases List.mem_or_eq_of_mem_set h2 with h3 | h3
      · exact fd _ hd hf none h3 rfl
      · -- the entry just written is the one erased
        have hnd : none ∉ ((net.node (net.line l).driver).outs.set (net.line l).dpin none).eraseIdx (net.line l).dpin := by
          intro hm
          obtain ⟨k, hk, e⟩ := List.getElem_of_mem hm
          rw [List.getElem_eraseIdx] at e
          split at e
          · rw [List.getElem_set] at e
            split at e
            · omega
            · exact fd _ hd hf _ (List.getElem_mem _) e
          · rw [List.getElem_set] at e
            split at e
            · omega
            · exact fd _ hd hf _ (List.getElem_mem _) e
        exact hnd hmem
    · exact ⟨_, rfl⟩
  · exact ⟨_, rfl⟩

theorem FD_modify_ins (net : Net) (k : Nat) (f : List (Option Nat) → List (Option Nat)) (fd : FD net) :
    FD { net with nodes := net.nodes.modify k fun n => { n with ins := f n.ins } } := by
  intro j hj hf o ho
  have hj' : j < net.nodes.size := by simpa using hj
  rw [node_modify net net.nodes rfl k _ j] at hf ho
  split at hf
  · rw [if_pos (by assumption)] at ho
    exact fd j hj' hf o ho
  · rw [if_neg (by assumption)] at ho
    exact fd j hj' hf o ho

theorem FD_delLine (net : Net) (l : Nat) (fd : FD net) : FD (delLine net l) := by
  intro j hj hf o ho
  have hj' : j < net.nodes.size := by rw [(delLine_sizes net l).1] at hj; exact hj
  rw [delLine_node] at hf ho
  simp only [List.mem_map] at ho
  obtain ⟨o', ho', e⟩ := ho
  have := fd j hj' hf o' ho'
  intro eo; subst eo
  split at e
  · simp at e
  · exact this e

theorem FD_detach (net net1 : Net) (l : Nat) (he : detachDriver net l = some net1) (fd : FD net) : FD net1 := by
  obtain ⟨O, _, hn, hcase⟩ := detachDriver_spec net net1 l he
  intro j hj hf o ho
  have hnode : net1.node j = if j = (net.line l).driver ∧ (net.line l).driver < net.nodes.size then
      { net.node j with outs := O } else net.node j := by
    have := node_modify net net.nodes rfl (net.line l).driver (fun n => { n with outs := O }) j
    simp only [Net.node] at this ⊢
    rw [hn]; exact this
  have hj' : j < net.nodes.size := by rw [hn] at hj; simpa using hj
  rw [hnode] at hf ho
  split at hf
  · rename_i hc
    rw [if_pos hc] at ho
    rcases hcase with ⟨_, _, hany, _⟩ | ⟨hnf, _, _⟩
    · intro eo; subst eo
      have : O.any (·.isNone) = true := List.any_eq_true.mpr ⟨none, ho, rfl⟩
      rw [hany] at this; exact absurd this (by simp)
    · have hf' : (net.node j).isFork = true := hf
      rw [hc.1, hnf] at hf'; exact absurd hf' (by simp)
  · rename_i hc
    rw [if_neg hc] at ho
    exact fd j hj' hf o ho

theorem FD_removeLine (b : Bool) (net net' : Net) (l : Nat) (he : removeLine b net l = some net') (fd : FD net) : FD net' := by
  simp only [removeLine, Option.map_eq_some_iff] at he
  obtain ⟨net1, h1, e⟩ := he
  subst e
  have fd1 := FD_detach net net1 l h1 fd
  apply FD_delLine
  cases b
  · simpa using fd1
  · simp only [if_true]
    exact FD_modify_ins net1 _ (fun ins => growSet ins (net1.line l).rpin none) fd1

theorem removeLine_lsize (b : Bool) (net net' : Net) (l : Nat) (he : removeLine b net l = some net') :
    net'.lines.size = net.lines.size - 1 := by
  simp only [removeLine, Option.map_eq_some_iff] at he
  obtain ⟨net1, h1, e⟩ := he
  subst e
  obtain ⟨O, _, _, hcase⟩ := detachDriver_spec net net1 l h1
  have hl : net1.lines.size = net.lines.size := by
    rcases hcase with ⟨_, _, _, hl⟩ | ⟨_, _, hl⟩
    · rw [hl]; exact renumberDpins_size _ _ _
    · rw [hl]
  cases b <;> simp [delLine, hl]

/-- one iteration of `for l in lines: l.remove()` keeps the loop invariant (the step of `removeLines_inv`) -/
theorem rlinv_step (nn : NNet) (x : Nat) (l0 : Nat) (rest : List Nat) (cur cur' : Net) (ren : Option Nat → Option Nat) (r : Ren)
    (l' : Nat) (iv : RLInv nn x cur (l0 :: rest) ren r) (hren : ren (some l0) = some l')
    (hrm : removeLine true cur l' = some cur') :
    RLInv nn x cur' rest (fun o => mvLine cur.lines.size l' (ren o)) (r.comp (lineRen cur.lines.size l')) := by
  obtain ⟨l'', hren', hl', hrl, hrd⟩ := iv.pend l0 List.mem_cons_self
  have : l'' = l' := Option.some.inj (hren'.symm.trans hren)
  subst this
  have hnd := List.nodup_cons.mp iv.nodup
  have sp := removeLine_spec { nn with net := cur } iv.wfm l'' hl' cur' hrm
  have hL : cur.lines.size - 1 + 1 = cur.lines.size := by omega
  have w' : WFm { nn with net := cur' } := rl_wfm iv.wfm hl' sp
  have e' := rl_emb iv.wfm hl' sp
  obtain ⟨bd, br, bo, bi⟩ := iv.wfm.back l'' hl'
  have hxd : (cur.line l'').driver ≠ x := by
    intro e0
    have : (cur.node x).outs.getD (cur.line l'').dpin none = some l'' := by rw [← e0]; exact bo
    rw [iv.xouts] at this; exact absurd this (by simp)
  refine ⟨w', ?_, by rw [sp.nsize]; exact iv.xlt, by rw [sp.io]; exact iv.xio, ?_, hnd.2, ?_, ?_, fun j => iv.rnode j, ?_,
    fun l1 hl1 => iv.remx l1 (List.mem_cons_of_mem _ hl1)⟩
  · refine (iv.emb.trans e').weaken ?_
    intro j _ hj
    rcases hj with hj | hj
    · rw [hj]; exact hrd
    · exact hj
  · intro l1 hl1
    obtain ⟨l1', hren1, hl1', hrl1, hrd1⟩ := iv.pend l1 (List.mem_cons_of_mem _ hl1)
    have hne : l1' ≠ l'' := by
      intro e0; subst e0
      rw [hrl] at hrl1
      exact hnd.1 (hrl1 ▸ hl1)
    obtain ⟨m1, m2⟩ := mv_facts hl' hl1' hne
    refine ⟨mvN cur.lines.size l'' l1', ?_, by rw [sp.lsize]; exact m1, ?_, ?_⟩
    · show mvLine cur.lines.size l'' (ren (some l1)) = _
      rw [hren1]
      simp only [mvLine, mvN, beq_iff_eq, Option.some.injEq]
      split <;> rfl
    · show r.line (nmN cur.lines.size l'' (mvN cur.lines.size l'' l1')) = l1
      rw [m2]; exact hrl1
    · rw [(sp.line _ m1).2.1, m2]; exact hrd1
  · intro k l3 hp
    have hp' := hp
    rw [sp.inPin] at hp'
    split at hp'
    · exact absurd hp' (by simp)
    · rename_i hcond
      obtain ⟨y0, hy0, e0⟩ := mvL_eq_some hp'
      rw [hL] at e0
      obtain ⟨a1, a2, a3⟩ := iv.wfm.fwdIn x iv.xlt k y0 hy0
      have hne : y0 ≠ l'' := by
        intro e1; subst e1
        exact hcond ⟨hrd.symm, a3.symm⟩
      obtain ⟨m1, m2⟩ := mv_facts hl' a1 hne
      have hmem := iv.xins k y0 hy0
      show r.line (nmN cur.lines.size l'' l3) ∈ rest
      rw [e0, m2]
      rcases List.mem_cons.mp hmem with e1 | e1
      · exact absurd (iv.emb.lineInj y0 l'' a1 hl' (e1.trans hrl.symm)) hne
      · exact e1
  · intro k
    rw [sp.outPin]
    have : ¬ x = (({ nn with net := cur } : NNet).net.line l'').driver := fun e0 => hxd e0.symm
    rw [if_neg this]
    show mvL _ _ ((cur.node x).outs.getD k none) = none
    rw [iv.xouts]; rfl
  · intro l hl hne
    obtain ⟨l1, hl1, e1⟩ := iv.lsurj l hl hne
    have hne1 : l1 ≠ l'' := by
      intro e0; subst e0
      rw [hrl] at e1
      exact hne (e1 ▸ (iv.remx l0 List.mem_cons_self))
    obtain ⟨m1, m2⟩ := mv_facts hl' hl1 hne1
    exact ⟨mvN cur.lines.size l'' l1, by rw [sp.lsize]; exact m1, by
      show r.line (nmN cur.lines.size l'' (mvN cur.lines.size l'' l1)) = l
      rw [m2]; exact e1⟩

/-- the loop `for l in lines: l.remove()` succeeds, keeps the forks gap-free and removes exactly `rem.length` lines -/
theorem removeLines_some (nn : NNet) (x : Nat) : ∀ (rem : List Nat) (cur : Net) (ren : Option Nat → Option Nat) (r : Ren),
    RLInv nn x cur rem ren r → FD cur →
    ∃ net', removeLines ren rem cur = some net' ∧ FD net' ∧ net'.lines.size + rem.length = cur.lines.size
  | [], cur, ren, r, _, fd => ⟨cur, rfl, fd, rfl⟩
  | l0 :: rest, cur, ren, r, iv, fd => by
    obtain ⟨l', hren, hl', hrl, hrd⟩ := iv.pend l0 List.mem_cons_self
    obtain ⟨bd, br, bo, bi⟩ := iv.wfm.back l' hl'
    obtain ⟨net1, h1⟩ := detachDriver_some cur l' bd bo fd
    have hrm : ∃ cur', removeLine true cur l' = some cur' := by
      simp only [removeLine, h1, Option.map_some]; exact ⟨_, rfl⟩
    obtain ⟨cur', hrm⟩ := hrm
    have iv' := rlinv_step nn x l0 rest cur cur' ren r l' iv hren hrm
    have fd' := FD_removeLine true cur cur' l' hrm fd
    obtain ⟨net', h2, fd2, hsz⟩ := removeLines_some nn x rest cur' _ _ iv' fd'
    refine ⟨net', ?_, fd2, ?_⟩
    · unfold removeLines
      rw [hren]
      dsimp only
      rw [hrm]
      exact h2
    · have := removeLine_lsize true cur cur' l' hrm
      simp only [List.length_cons]
      omega

theorem FD_delNode (nn : NNet) (i : Nat) (hi : i < nn.net.nodes.size) (fd : FD nn.net) : FD (delNode nn i).net := by
  intro j hj hf o ho
  rw [(delNode_sizes nn i).1] at hj
  rw [delNode_node nn i j hi hj] at hf ho
  exact fd _ (by split <;> omega) hf o ho

/-- **`remove_dangling_nodes` succeeds** and the fuel suffices -/
theorem removeDangling_some : ∀ (fuel : Nat) (nn : NNet) (own : List Nat) (stack : List (Option Nat)),
    WFm nn → FD nn.net → (∀ x ∈ own, x < nn.net.nodes.size) → stack.length + nn.net.lines.size < fuel →
    ∃ nn', removeDangling fuel nn own stack = some nn'
  | 0, _, _, _, _, _, _, h => by omega
  | fuel + 1, nn, own, [], _, _, _, _ => ⟨nn, by simp [removeDangling]⟩
  | fuel + 1, nn, own, none :: rest, w, fd, ho, h => by
    rw [removeDangling]
    exact removeDangling_some fuel nn own rest w fd ho (by simp only [List.length_cons] at h; omega)
  | fuel + 1, nn, own, some root :: rest, w, fd, ho, h => by
    have hlen : rest.length + nn.net.lines.size < fuel := by simp only [List.length_cons] at h; omega
    have skip := removeDangling_some fuel nn own rest w fd ho hlen
    rw [removeDangling]
    dsimp only
    split
    · exact skip
    · rename_i houts
      split
      · exact skip
      · rename_i hio
        split
        · exact skip
        · split
          · exact skip
          · rename_i hown
            have hmem : root ∈ own := by simpa using hown
            have hroot := ho root hmem
            have hio' : root ∉ nn.net.io := by simpa using hio
            have houts' := outs_all_none (l := (nn.net.node root).outs) (by simpa using houts)
            -- the loop over the input lines
            have iv0 : RLInv nn root nn.net ((nn.net.node root).ins.filterMap id) id Ren.id := by
              refine ⟨w, (Emb.refl nn w.io (fun l hl => (w.back l hl).1)).weaken (fun _ _ h => absurd h id), hroot, hio', ?_, ?_, ?_,
                houts', fun _ => rfl, fun l hl _ => ⟨l, hl, rfl⟩, fun l0 hl0 => by
                  obtain ⟨k, hk⟩ := (mem_filterMap_id _ l0).mp hl0
                  exact (w.fwdIn root hroot k l0 hk).2.1⟩
              · intro l0 hl0
                obtain ⟨k, hk⟩ := (mem_filterMap_id _ l0).mp hl0
                obtain ⟨a1, a2, _⟩ := w.fwdIn root hroot k l0 hk
                exact ⟨l0, rfl, a1, rfl, a2⟩
              · apply nodup_filterMap_id
                intro k1 k2 y h1 h2
                have e1 := (w.fwdIn root hroot k1 y (by simp [List.getD_eq_getElem?_getD, h1])).2.2
                have e2 := (w.fwdIn root hroot k2 y (by simp [List.getD_eq_getElem?_getD, h2])).2.2
                rw [← e1, ← e2]
              · intro k l' hp
                exact (mem_filterMap_id _ l').mpr ⟨k, hp⟩
            obtain ⟨net', hrl, fd', hsz⟩ := removeLines_some nn root _ nn.net id Ren.id iv0 fd
            rw [hrl]
            dsimp only
            have w' := (removeRoot_emb nn w root hroot hio' houts' net' hrl).1
            have hns : net'.nodes.size = nn.net.nodes.size := by
              obtain ⟨_, _, ivf⟩ := removeLines_inv nn root _ nn.net id Ren.id net' iv0 hrl
              have h1 := ivf.wfm.names
              have h2 := w.names
              exact h1.symm.trans h2
            have hroot' : root < ({ nn with net := net' } : NNet).net.nodes.size := by rw [hns]; exact hroot
            have fd'' := FD_delNode { nn with net := net' } root hroot' fd'
            have hsz' := delNode_sizes { nn with net := net' } root
            apply removeDangling_some fuel _ _ _ w' fd''
            · intro y hy
              obtain ⟨x0, hx0, e⟩ := List.mem_filterMap.mp hy
              have hx0' := ho x0 hx0
              rw [hsz'.1]
              show y < net'.nodes.size - 1
              rw [hns]
              simp only [mvNode, beq_iff_eq, Option.some.injEq] at e
              split at e
              · exact absurd e (by simp)
              · split at e
                · cases e; omega
                · cases e; omega
            · rw [hsz'.2]
              show _ + net'.lines.size < fuel
              simp only [List.length_append, List.length_map]
              omega

end KV.Transform
