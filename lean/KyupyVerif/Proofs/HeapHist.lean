import KyupyVerif.Proofs.HeapInv
import KyupyVerif.Proofs.HeapCanon
/-! Allocator histories inside the domain of the real `sim.Heap` (audit follow-up, C08): positive requests, releases of the
start of a LIVE chunk only (`histOkB`); strict execution `runStrict`; the high-water mark of whole histories (`hist_hwm_gen`,
the auditor's proof). Core Lean only (the driver evaluates `histOkB` / `peak` on the harness' histories: `heaphist`). -/
namespace KV
open KV.Heap

/-! ### allocator histories inside the domain -/
namespace Heap

/-- `loc` is the start of a live (used) chunk -/
def liveStartB (h : Heap) (loc : Nat) : Bool := (h.used.map (·.1)).contains loc

/-- domain of one heap operation in state `h`: positive request / release of the start of a LIVE chunk -/
def opOkB (h : Heap) : HOp → Bool
  | .alloc n => decide (0 < n)
  | .free loc => liveStartB h loc

/-- a history inside the domain: every operation is in the domain of the state it is applied to -/
def histOkB : Heap → List HOp → Bool
  | _, [] => true
  | h, op :: r => opOkB h op && histOkB (runOp h op) r

/-- strict execution: `none` as soon as a release fails (nothing is totalised) -/
def runStrict : Heap → List HOp → Option Heap
  | h, [] => some h
  | h, .alloc n :: r => runStrict (h.alloc n).2 r
  | h, .free loc :: r => match h.free loc with
    | some h' => runStrict h' r
    | none => none

theorem liveStart_free (h : Heap) (hi : HInv h) (loc : Nat) (hl : liveStartB h loc = true) : ∃ h', h.free loc = some h' := by
  cases hf : h.free loc with
  | some h' => exact ⟨h', rfl⟩
  | none =>
    exfalso
    simp only [liveStartB, List.contains_eq_mem, List.mem_map, decide_eq_true_eq] at hl
    obtain ⟨r, hr, he⟩ := hl
    exact free_none_iff h hi loc hf r hr he

theorem hist_ok_old (ops : List HOp) : ∀ h, histOkB h ops = true → ∀ op ∈ ops, OpOk op := by
  induction ops with
  | nil => intro _ _ op hop; cases hop
  | cons o r ih =>
    intro h hk op hop
    simp only [histOkB, Bool.and_eq_true] at hk
    rcases List.mem_cons.mp hop with rfl | hm
    · cases op with
      | alloc n => simpa [opOkB, OpOk] using hk.1
      | free loc => trivial
    · exact ih _ hk.2 op hm

/-- inside the domain the invariant holds after the history and nothing was totalised: the strict run succeeds with the same
    state -/
theorem hist_strict (ops : List HOp) : ∀ h, HInv h → histOkB h ops = true →
    HInv (ops.foldl runOp h) ∧ runStrict h ops = some (ops.foldl runOp h) := by
  induction ops with
  | nil => intro h hi _; exact ⟨hi, rfl⟩
  | cons op r ih =>
    intro h hi hk
    simp only [histOkB, Bool.and_eq_true] at hk
    have hop : OpOk op := by
      cases op with
      | alloc n => simpa [opOkB, OpOk] using hk.1
      | free loc => trivial
    have hi' := runOp_inv h op hop hi
    obtain ⟨i1, i2⟩ := ih _ hi' hk.2
    refine ⟨i1, ?_⟩
    cases op with
    | alloc n => simpa [runStrict, runOp] using i2
    | free loc =>
      obtain ⟨h', hf⟩ := liveStart_free h hi loc hk.1
      simp only [runStrict, hf, List.foldl_cons, runOp, Option.getD_some] at i2 ⊢
      exact i2

theorem free_keeps (h h' : Heap) (loc : Nat) (hf : h.free loc = some h') : h'.maxSz = h.maxSz := by
  unfold Heap.free at hf
  cases hfi : freeIn loc 0 h.cs with
  | none => rw [hfi] at hf; simp at hf
  | some cs' => rw [hfi] at hf; simp only [Option.map_some, Option.some.injEq] at hf; subst hf; rfl

/-- running maximum of the managed size along a history -/
def peak : Heap → Nat → List HOp → Nat
  | _, M, [] => M
  | h, M, op :: r => peak (runOp h op) (max M (total (runOp h op).cs)) r

theorem alloc_hwm (h : Heap) (n : Nat) (hi : HInv h) :
    total (h.alloc n).2.cs ≤ (h.alloc n).2.maxSz ∧ h.maxSz ≤ (h.alloc n).2.maxSz ∧
    ((h.alloc n).2.maxSz = h.maxSz ∨ (h.alloc n).2.maxSz = total (h.alloc n).2.cs) := by
  unfold Heap.alloc
  split
  · rename_i loc cs' ha
    obtain ⟨ht, _⟩ := allocIn_spec n 0 h.cs loc cs' ha
    refine ⟨by simp only; rw [ht]; exact hi.hwm, Nat.le_refl _, Or.inl rfl⟩
  · simp only [total_append]
    have := hi.hwm
    refine ⟨by omega, by omega, ?_⟩
    by_cases hc : h.maxSz ≤ total h.cs + n
    · right; omega
    · left; omega

/-- the reported maximum after a whole history is the running maximum of the managed size (auditor's proof) -/
theorem hist_hwm_gen (ops : List HOp) (hok : ∀ op ∈ ops, OpOk op) :
    ∀ h, HInv h → (ops.foldl runOp h).maxSz = peak h h.maxSz ops := by
  induction ops with
  | nil => intro h _; rfl
  | cons op r ih =>
    intro h hi
    have hi' := runOp_inv h op (hok op List.mem_cons_self) hi
    simp only [List.foldl_cons, peak]
    rw [ih (fun o ho => hok o (List.mem_cons_of_mem _ ho)) _ hi']
    congr 1
    cases op with
    | alloc n =>
      have := alloc_hwm h n hi
      simp only [runOp]; omega
    | free loc =>
      simp only [runOp]
      cases hf : h.free loc with
      | none => simp; have := hi.hwm; omega
      | some h' =>
        simp
        have e := free_keeps h h' loc hf
        obtain ⟨n, _, _, ht⟩ := free_spec h h' loc hi hf
        have := hi.hwm; omega

end Heap


end KV
