import KyupyVerif.Model.CircNet
import KyupyVerif.Proofs.GenOpsWO
/-! Structure of the canonical dump `Circ.toNet` (Model/CircNet.lean): sizes, the record of line `i`, the kind of node `n`, and
the pin tables read back as "the last line attached to this pin".  `toNet_wf`: the dump of EVERY model circuit is well formed
(`Net.wfB`: the pin tables point at lines that name the node and pin). -/
namespace KV.Netlist
open KV

theorem le_foldl_max (l : List Nat) (m x : Nat) (h : x ≤ m ∨ ∃ y ∈ l, x ≤ y) : x ≤ l.foldl max m := by
  induction l generalizing m with
  | nil =>
    rcases h with h | ⟨y, hy, _⟩
    · exact h
    · cases hy
  | cons a r ih =>
    simp only [List.foldl_cons]
    apply ih
    rcases h with h | ⟨y, hy, hxy⟩
    · left; omega
    · rcases List.mem_cons.mp hy with rfl | hy
      · left; omega
      · right; exact ⟨y, hy, hxy⟩

/-- entry `k` of a pin table: the last line attached to pin `k` of the node, `none` when there is none -/
theorem pinTable_getD (ls : List LineD) (node pin : LineD → Nat) (n k : Nat) :
    (pinTable ls node pin n).getD k none =
      ((ls.zipIdx.filter fun p => node p.1 == n && pin p.1 == k).getLast?).map (·.2) := by
  unfold pinTable
  by_cases hk : k < ((ls.filter fun l => node l == n).map fun l => pin l + 1).foldl max 0
  · simp [List.getD_eq_getElem?_getD, List.getElem?_map, List.getElem?_range hk]
  · have hnone : (ls.zipIdx.filter fun p => node p.1 == n && pin p.1 == k) = [] := by
      rw [List.filter_eq_nil_iff]
      intro p hp hc
      simp only [Bool.and_eq_true, beq_iff_eq] at hc
      have hmem : p.1 ∈ ls := by
        have := List.mem_zipIdx_iff_getElem?.mp hp
        exact List.mem_of_getElem? this
      apply hk
      have : pin p.1 + 1 ≤ ((ls.filter fun l => node l == n).map fun l => pin l + 1).foldl max 0 := by
        apply le_foldl_max
        right
        exact ⟨pin p.1 + 1, List.mem_map.mpr ⟨p.1, List.mem_filter.mpr ⟨hmem, by simp [hc.1]⟩, rfl⟩, Nat.le_refl _⟩
      omega
    rw [hnone]
    simp only [List.getLast?_nil, Option.map_none]
    rw [List.getD_eq_getElem?_getD, List.getElem?_eq_none]
    · rfl
    · simp only [List.length_map, List.length_range]; omega

/-- a pin table entry points at a line attached to that pin -/
theorem pinTable_sound (ls : List LineD) (node pin : LineD → Nat) (n k l : Nat)
    (h : (pinTable ls node pin n).getD k none = some l) :
    ∃ ld, ls[l]? = some ld ∧ node ld = n ∧ pin ld = k := by
  rw [pinTable_getD] at h
  cases hg : (ls.zipIdx.filter fun p => node p.1 == n && pin p.1 == k).getLast? with
  | none => rw [hg] at h; cases h
  | some p =>
    rw [hg] at h
    simp only [Option.map_some, Option.some.injEq] at h
    have hm := List.mem_of_getLast? hg
    rw [List.mem_filter] at hm
    have h1 := List.mem_zipIdx_iff_getElem?.mp hm.1
    simp only [Bool.and_eq_true, beq_iff_eq] at hm
    exact ⟨p.1, by rw [← h]; exact h1, hm.2.1, hm.2.2⟩

section
variable (C : Circ) (io : List Nat)

theorem lineDs_length : C.lineDs.length = (flatLines C).length := by
  simp [Circ.lineDs]

theorem toNet_lines_size : (C.toNet io).lines.size = (flatLines C).length := by
  simp [Circ.toNet, lineDs_length]

theorem toNet_nodes_size : (C.toNet io).nodes.size = C.nodes.length := by
  simp [Circ.toNet]

theorem toNet_io : (C.toNet io).io = io := rfl

theorem lineDs_getElem? (i : Nat) (hi : i < (flatLines C).length) :
    C.lineDs[i]? = some ⟨C.nodeIdx (flatLines C)[i].1, dpinOf ((flatLines C).take i) (flatLines C)[i].1,
      C.nodeIdx (flatLines C)[i].2, (flatLines C)[i].2.rpin⟩ := by
  simp [Circ.lineDs, List.getElem?_map, List.getElem?_zipIdx, List.getElem?_eq_getElem hi]

/-- the record of line `i` -/
theorem toNet_line (i : Nat) (hi : i < (flatLines C).length) :
    (C.toNet io).line i = ⟨C.nodeIdx (flatLines C)[i].1, dpinOf ((flatLines C).take i) (flatLines C)[i].1,
      C.nodeIdx (flatLines C)[i].2, (flatLines C)[i].2.rpin⟩ := by
  unfold Net.line Circ.toNet
  simp only [Array.getD_eq_getD_getElem?, List.getElem?_toArray, lineDs_getElem? C i hi, Option.getD_some]

theorem toNet_node (n : Nat) (hn : n < C.nodes.length) :
    (C.toNet io).node n = ⟨C.nodes[n].kind, pinTable C.lineDs (·.reader) (·.rpin) n, pinTable C.lineDs (·.driver) (·.dpin) n⟩ := by
  unfold Net.node Circ.toNet
  simp [Array.getD_eq_getD_getElem?, List.getElem?_map, List.getElem?_zipIdx, List.getElem?_eq_getElem hn]

theorem toNet_node_kind (n : Nat) (hn : n < C.nodes.length) : ((C.toNet io).node n).kind = C.nodes[n].kind := by
  rw [toNet_node C io n hn]

/-- input pin `k` of node `n`: the last line whose reader is `(n, k)` -/
theorem toNet_inPin (n k : Nat) (hn : n < C.nodes.length) :
    ((C.toNet io).node n).inPin k =
      ((C.lineDs.zipIdx.filter fun p => p.1.reader == n && p.1.rpin == k).getLast?).map (·.2) := by
  rw [toNet_node C io n hn]
  exact pinTable_getD C.lineDs (·.reader) (·.rpin) n k

theorem toNet_outPin (n k : Nat) (hn : n < C.nodes.length) :
    ((C.toNet io).node n).outPin k =
      ((C.lineDs.zipIdx.filter fun p => p.1.driver == n && p.1.dpin == k).getLast?).map (·.2) := by
  rw [toNet_node C io n hn]
  exact pinTable_getD C.lineDs (·.driver) (·.dpin) n k

/-- the dump of every model circuit is well formed -/
theorem toNet_wf : (C.toNet io).wfB = true := by
  unfold Net.wfB
  simp only [List.all_eq_true, List.mem_range, Bool.and_eq_true]
  intro n hn
  rw [toNet_nodes_size] at hn
  rw [toNet_node C io n hn]
  refine ⟨?_, ?_⟩
  · intro ⟨o, pin⟩ hmem
    cases o with
    | none => rfl
    | some l =>
      have hget : (pinTable C.lineDs (·.driver) (·.dpin) n)[pin]? = some (some l) := by
        have := List.mem_zipIdx_iff_getElem?.mp hmem
        simpa using this
      have hD : (pinTable C.lineDs (·.driver) (·.dpin) n).getD pin none = some l := by
        rw [List.getD_eq_getElem?_getD, hget]; rfl
      obtain ⟨ld, h1, h2, h3⟩ := pinTable_sound _ _ _ _ _ _ hD
      have hl : l < C.lineDs.length := by
        have := List.getElem?_eq_some_iff.mp h1
        exact this.1
      have hline : (C.toNet io).line l = ld := by
        unfold Net.line Circ.toNet
        simp only [Array.getD_eq_getD_getElem?, List.getElem?_toArray, h1, Option.getD_some]
      simp only [hline, toNet_lines_size, ← lineDs_length, hl, decide_true, Bool.true_and, Bool.and_eq_true, beq_iff_eq]
      exact ⟨h2, h3⟩
  · intro ⟨o, pin⟩ hmem
    cases o with
    | none => rfl
    | some l =>
      have hget : (pinTable C.lineDs (·.reader) (·.rpin) n)[pin]? = some (some l) := by
        have := List.mem_zipIdx_iff_getElem?.mp hmem
        simpa using this
      have hD : (pinTable C.lineDs (·.reader) (·.rpin) n).getD pin none = some l := by
        rw [List.getD_eq_getElem?_getD, hget]; rfl
      obtain ⟨ld, h1, h2, h3⟩ := pinTable_sound _ _ _ _ _ _ hD
      have hl : l < C.lineDs.length := by
        have := List.getElem?_eq_some_iff.mp h1
        exact this.1
      have hline : (C.toNet io).line l = ld := by
        unfold Net.line Circ.toNet
        simp only [Array.getD_eq_getD_getElem?, List.getElem?_toArray, h1, Option.getD_some]
      simp only [hline, toNet_lines_size, ← lineDs_length, hl, decide_true, Bool.true_and, Bool.and_eq_true, beq_iff_eq]
      exact ⟨h2, h3⟩

end
end KV.Netlist
