import KyupyVerif.Proofs.CircObjSubstFull
/-! C09: histories over all twelve operations under STRUCTURAL preconditions only (audit 2, finding F8).

`pre2 (.substitute ..)` = `substPre` contains `forksFull` of the RESULT (a conjunct of the conclusion `WFc`) and the pin
guards `substGuards` evaluated along the model's own run.  `pre2s` replaces it by `substStatic` (host side: the node is a
cell and stays one / is not a port when removed, no self loop; implementation side: `implStatic`), and `resolvePre` by
`resolveStatic` (`substStatic` on the circuit as it is when each substitution starts).  `run2s` replays a history under
`pre2s`; on well-formed circuits `pre2s` implies `pre2` (`substPre_of_static`, `resolvePre_of_static`), hence every
`run2s` history is a `run2` history with the same result and ends in a well-formed circuit. -/
namespace KV.CircObj

/-- structural well-formed use of the twelve operations: nothing about the RESULT of `substitute` is assumed -/
def pre2s (c : Circ) : Op2 → Bool
  | .base op => pre c op
  | .substitute ni m => match c.nodes[ni]? with
    | some i => substStatic c i m
    | none => false
  | .removeDangling ni => ni < c.nodes.length
  | .resolve lib => resolveStatic lib c

/-- replay a history under the structural preconditions -/
def run2s (c : Circ) : List Op2 → Option Circ
  | [] => some c
  | op :: rest =>
    if pre2s c op then
      match step2 c op with
      | some c' => run2s c' rest
      | none => none
    else none

theorem pre2_of_static {c : Circ} (wf : WFc c) (op : Op2) (h : pre2s c op = true) : pre2 c op = true := by
  cases op with
  | base op => exact h
  | substitute ni m =>
    simp only [pre2s, pre2] at h ⊢
    cases hi : c.nodes[ni]? with
    | none => simp [hi] at h
    | some i => simp only [hi] at h ⊢; exact substPre_of_static wf h
  | removeDangling ni => exact h
  | resolve lib => exact resolvePre_of_static wf h

/-- a history of structural well-formed uses is a history of well-formed uses, with the same result -/
theorem run2_of_run2s (ops : List Op2) (c c' : Circ) (wf : WFc c) (h : run2s c ops = some c') : run2 c ops = some c' := by
  induction ops generalizing c with
  | nil => exact h
  | cons op rest ih =>
    simp only [run2s] at h
    simp only [run2]
    split at h
    · rename_i hp
      have hp2 := pre2_of_static wf op hp
      simp only [hp2, if_true]
      cases hs : step2 c op with
      | none => simp [hs] at h
      | some c1 => simp only [hs] at h ⊢; exact ih c1 (step2_wf wf op hp2 hs) h
    · cases h

theorem run2s_wf (ops : List Op2) (c c' : Circ) (wf : WFc c) (h : run2s c ops = some c') : WFc c' :=
  run2_wf ops c c' wf (run2_of_run2s ops c c' wf h)

end KV.CircObj
