import KyupyVerif.Proofs.OpsChk
import KyupyVerif.Gen.Tables
import KyupyVerif.Gen.Ops2
import KyupyVerif.Gen.Ops4
import KyupyVerif.Gen.Sem8
/-! Checkers over `Gen.prims` (every (name, LUT code) of `sim.names`) for the generated dispatchers
`sem2n/sem2p/sem2c/sem4/sem8` (what the real if/elif chains compute for an op code). -/
namespace KV

def chkSem8 (e : String × Nat) : Bool :=
  match comp8 e.1 with
  | none => false
  | some f => agree8 (Gen.sem8 e.2) f

def chkSem4 (e : String × Nat) : Bool :=
  match comp4 e.1 with
  | none => false
  | some f => agree4 (Gen.sem4 e.2) f

def chkSem2 (sem : Nat → Bool → Bool → Bool → Bool → Bool) (e : String × Nat) : Bool :=
  chk2 (e.1, e.2, sem e.2)

/-- a list is covered by 7 slices of 5 when it has at most 35 elements -/
theorem all_of_slices {α} (p : α → Bool) (l : List α) (hlen : l.length ≤ 35)
    (h0 : ((l.drop 0).take 5).all p = true) (h1 : ((l.drop 5).take 5).all p = true)
    (h2 : ((l.drop 10).take 5).all p = true) (h3 : ((l.drop 15).take 5).all p = true)
    (h4 : ((l.drop 20).take 5).all p = true) (h5 : ((l.drop 25).take 5).all p = true)
    (h6 : ((l.drop 30).take 5).all p = true) : l.all p = true := by
  simp only [List.all_eq_true] at *
  intro x hx
  obtain ⟨i, hi, rfl⟩ := List.getElem_of_mem hx
  have key : ∀ k, k ≤ i → i < k + 5 → l[i] ∈ (l.drop k).take 5 := by
    intro k hk hk'
    rw [List.mem_iff_getElem]
    refine ⟨i - k, by simp; omega, ?_⟩
    simp [List.getElem_take, List.getElem_drop]; congr 1; omega
  by_cases c0 : i < 5
  · exact h0 _ (key 0 (by omega) (by omega))
  by_cases c1 : i < 10
  · exact h1 _ (key 5 (by omega) (by omega))
  by_cases c2 : i < 15
  · exact h2 _ (key 10 (by omega) (by omega))
  by_cases c3 : i < 20
  · exact h3 _ (key 15 (by omega) (by omega))
  by_cases c4 : i < 25
  · exact h4 _ (key 20 (by omega) (by omega))
  by_cases c5 : i < 30
  · exact h5 _ (key 25 (by omega) (by omega))
  · exact h6 _ (key 30 (by omega) (by omega))

end KV
