import KyupyVerif.Model.SdfWave
import KyupyVerif.Proofs.Sdf
/-! Timing data path, part 1: the annotated arrays of a file without negative numbers are non-negative (hypothesis
`delays ≥ 0` of the waveform theorems), and every member of the two entry sequences comes from a block of the file. -/
namespace KV.SdfWave
open KV.Sdf

def TripleNN (t : Triple) : Prop := ∀ v ∈ t, 0 ≤ v
def EntryNN (e : Entry) : Prop := TripleNN e.r ∧ TripleNN e.f
def WNN (w : W) : Prop := TripleNN w.r ∧ TripleNN w.f

theorem getD_nonneg (t : Triple) (h : TripleNN t) (d : Nat) : 0 ≤ t.getD d 0 := by
  rw [List.getD_eq_getElem?_getD]
  cases hx : t[d]? with
  | none => exact Int.le_refl 0
  | some v => exact h v (List.mem_of_getElem? hx)

theorem norm_nonneg (t : Triple) (h : TripleNN t) : TripleNN (norm t) := by
  unfold norm
  split
  · exact h
  · intro v hv
    simp only [List.mem_cons, List.not_mem_nil, or_false] at hv
    rcases hv with rfl | rfl | rfl <;> exact Int.le_refl 0

theorem W.val_nonneg (w : W) (h : WNN w) (op : Bool) (d : Nat) : 0 ≤ w.val op d := by
  unfold W.val
  cases op
  · exact getD_nonneg _ h.1 d
  · exact getD_nonneg _ h.2 d

theorem applyAll_nonneg (ws : List W) (h : ∀ w ∈ ws, WNN w) (d l : Nat) (ip op : Bool) : 0 ≤ applyAll ws d l ip op := by
  unfold applyAll
  suffices key : ∀ A : Arr, (∀ d l ip op, 0 ≤ A d l ip op) → ∀ d l ip op, 0 ≤ (ws.foldl W.apply A) d l ip op from
    key zeroArr (fun _ _ _ _ => Int.le_refl 0) d l ip op
  induction ws with
  | nil => intro A hA; exact hA
  | cons w ws ih =>
    intro A hA
    simp only [List.foldl_cons]
    apply ih (fun w' hw' => h w' (List.mem_cons_of_mem _ hw'))
    intro d l ip op
    unfold W.apply
    split
    · exact W.val_nonneg w (h w List.mem_cons_self) op d
    · exact hA d l ip op

/-! ### entries of a file without negative numbers -/

def RawEntryNN (x : RawEntry) : Prop := ∀ t ∈ x.vals, ∀ o ∈ t, 0 ≤ o.getD 0

theorem triple_nonneg (t : RawTriple) (h : ∀ o ∈ t, 0 ≤ o.getD 0) : TripleNN (triple t) := by
  intro v hv
  obtain ⟨o, ho, rfl⟩ := List.mem_map.mp hv
  exact h o ho

theorem sanitize_nonneg (x : RawEntry) (h : RawEntryNN x) : EntryNN (sanitize x) := by
  unfold sanitize
  have hm : ∀ u ∈ x.vals.map triple, TripleNN u := by
    intro u hu
    obtain ⟨t, ht, rfl⟩ := List.mem_map.mp hu
    exact triple_nonneg t (h t ht)
  split
  · rename_i t heq
    have := hm t (by rw [heq]; exact List.mem_cons_self)
    exact ⟨this, this⟩
  · rename_i r f rest heq
    exact ⟨hm r (by rw [heq]; exact List.mem_cons_self),
      hm f (by rw [heq]; exact List.mem_cons_of_mem _ List.mem_cons_self)⟩
  · exact ⟨fun v hv => absurd hv List.not_mem_nil, fun v hv => absurd hv List.not_mem_nil⟩

theorem rawNonneg_spec (B : List RawCell) (h : rawNonneg B = true) :
    ∀ c ∈ B, ∀ x ∈ c.delays.flatten, RawEntryNN x := by
  intro c hc x hx t ht o ho
  simp only [rawNonneg, List.all_eq_true, decide_eq_true_eq] at h
  exact h c hc x hx t ht o ho

/-- both modes: whatever the INTERCONNECT loop sees stands in a block of the file -/
theorem icEntries_origin (m : Mode) (B : List RawCell) (es : List Entry) (hes : icEntries (parse m B) = some es)
    (e : Entry) (h : e ∈ es) : ∃ c ∈ B, ∃ x ∈ c.delays.flatten, e = sanitize x := by
  cases m with
  | merge =>
    rw [icEntries_merge] at hes
    split at hes
    · cases hes
      rw [mem_entriesOfKey] at h
      obtain ⟨p, hp, _, he⟩ := h
      obtain ⟨c, hc, rfl⟩ := List.mem_map.mp hp
      obtain ⟨x, hx, rfl⟩ := List.mem_map.mp he
      exact ⟨c, hc, x, hx, rfl⟩
    · cases hes
  | lastWins =>
    rw [icEntries_lastWins] at hes
    cases hf : (B.map cell).reverse.find? (·.1 == none) with
    | none => rw [hf] at hes; cases hes
    | some p =>
      rw [hf] at hes
      cases hes
      have hp := List.mem_of_find?_eq_some hf
      rw [List.mem_reverse] at hp
      obtain ⟨c, hc, rfl⟩ := List.mem_map.mp hp
      obtain ⟨x, hx, rfl⟩ := List.mem_map.mp h
      exact ⟨c, hc, x, hx, rfl⟩

theorem namedEntries_origin (m : Mode) (B : List RawCell) (n : String) (e : Entry)
    (h : (n, e) ∈ namedEntries (parse m B)) : ∃ c ∈ B, ∃ x ∈ c.delays.flatten, e = sanitize x := by
  rcases mem_namedEntries_origin m B n e h with ⟨c, hc, _, he⟩
  rcases List.mem_map.mp he with ⟨x, hx, rfl⟩
  exact ⟨c, hc, x, hx, rfl⟩

theorem iopaths_nonneg (m : Mode) (pinLine : PinTable) (B : List RawCell) (h : rawNonneg B = true)
    (d l : Nat) (ip op : Bool) : 0 ≤ iopaths pinLine (parse m B) d l ip op := by
  have hs := rawNonneg_spec B h
  unfold iopaths
  apply applyAll_nonneg
  intro w hw
  unfold iopathWrites at hw
  obtain ⟨⟨n, e⟩, hmem, hwe⟩ := List.mem_filterMap.mp hw
  obtain ⟨c, hc, x, hx, rfl⟩ := namedEntries_origin m B n e hmem
  simp only [ioWrite, Option.map_eq_some_iff] at hwe
  obtain ⟨_, _, rfl⟩ := hwe
  have := sanitize_nonneg x (hs c hc x hx)
  exact ⟨norm_nonneg _ this.1, norm_nonneg _ this.2⟩

theorem interconnects_nonneg (m : Mode) (icLine : IcTable) (B : List RawCell) (h : rawNonneg B = true)
    (ic : Arr) (hic : interconnects icLine (parse m B) = some ic) (d l : Nat) (ip op : Bool) : 0 ≤ ic d l ip op := by
  have hs := rawNonneg_spec B h
  unfold interconnects at hic
  obtain ⟨es, hes, rfl⟩ := Option.map_eq_some_iff.mp hic
  apply applyAll_nonneg
  intro w hw
  unfold icWritesOf at hw
  obtain ⟨e, hmem, hwe⟩ := List.mem_filterMap.mp hw
  obtain ⟨c, hc, x, hx, rfl⟩ := icEntries_origin m B es hes e hmem
  have hnn := sanitize_nonneg x (hs c hc x hx)
  unfold icWrite at hwe
  simp only at hwe
  split at hwe
  · cases hwe
  · simp only [Option.map_eq_some_iff] at hwe
    obtain ⟨_, _, rfl⟩ := hwe
    exact ⟨norm_nonneg _ hnn.1, norm_nonneg _ hnn.2⟩

/-- `sdfDelay` answers exactly when `interconnects` does, with the sum of the two arrays -/
theorem sdfDelay_eq_some_iff (pinLine : PinTable) (icLine : IcTable) (df : DelayFile) (d : Nat)
    (del : Nat → Bool → Bool → Int) :
    sdfDelay pinLine icLine df d = some del ↔
      ∃ ic, interconnects icLine df = some ic ∧ del = sumDelay pinLine df ic d := by
  unfold sdfDelay
  rw [Option.map_eq_some_iff]
  constructor
  · rintro ⟨ic, h, rfl⟩; exact ⟨ic, h, rfl⟩
  · rintro ⟨ic, h, rfl⟩; exact ⟨ic, h, rfl⟩

theorem sdfCfg_eq_some_iff (pinLine : PinTable) (icLine : IcTable) (df : DelayFile) (d : Nat) (cap : Nat → Nat)
    (cfg : KV.Wave.WCfg) :
    sdfCfg pinLine icLine df d cap = some cfg ↔
      ∃ ic, interconnects icLine df = some ic ∧ cfg = ⟨sumDelay pinLine df ic d, cap⟩ := by
  unfold sdfCfg sdfDelay
  rw [Option.map_map, Option.map_eq_some_iff]
  constructor
  · rintro ⟨ic, h, rfl⟩; exact ⟨ic, h, rfl⟩
  · rintro ⟨ic, h, rfl⟩; exact ⟨ic, h, rfl⟩

/-- **delays ≥ 0**: the delay table built from a file without negative numbers is non-negative on every line, polarity
pair and data set, whatever the tables -/
theorem sdfDelay_nonneg (m : Mode) (pinLine : PinTable) (icLine : IcTable) (B : List RawCell) (h : rawNonneg B = true)
    (d : Nat) (del : Nat → Bool → Bool → Int) (hdel : sdfDelay pinLine icLine (parse m B) d = some del) :
    ∀ l ip op, 0 ≤ del l ip op := by
  obtain ⟨ic, hic, rfl⟩ := (sdfDelay_eq_some_iff _ _ _ _ _).mp hdel
  intro l ip op
  have h1 := iopaths_nonneg m pinLine B h d l ip op
  have h2 := interconnects_nonneg m icLine B h ic hic d l ip op
  exact Int.add_nonneg h1 h2

/-! ### lines that only one of the two loops can reach -/

/-- no INTERCONNECT write goes to a line outside the range of the fork table -/
theorem interconnects_zero_of_table (icLine : IcTable) (df : DelayFile) (ic : Arr)
    (hic : interconnects icLine df = some ic) (l d : Nat) (ip op : Bool)
    (h : ∀ c1 p1 c2 p2, icLine c1 p1 c2 p2 ≠ some l) : ic d l ip op = 0 := by
  unfold interconnects at hic
  obtain ⟨es, _, rfl⟩ := Option.map_eq_some_iff.mp hic
  apply applyAll_zero_of_not_covered
  intro w hw
  unfold icWritesOf at hw
  obtain ⟨e, _, hwe⟩ := List.mem_filterMap.mp hw
  unfold icWrite at hwe
  simp only at hwe
  split at hwe
  · cases hwe
  · simp only [Option.map_eq_some_iff] at hwe
    obtain ⟨l', hl', rfl⟩ := hwe
    simp only [W.covers, Bool.and_eq_false_imp, beq_iff_eq]
    intro hl
    subst hl
    exact absurd hl' (h _ _ _ _)

/-- no IOPATH write goes to a line outside the range of the pin table -/
theorem iopaths_zero_of_table (pinLine : PinTable) (df : DelayFile) (l d : Nat) (ip op : Bool)
    (h : ∀ c p, pinLine c p ≠ some l) : iopaths pinLine df d l ip op = 0 := by
  unfold iopaths
  apply applyAll_zero_of_not_covered
  intro w hw
  unfold iopathWrites at hw
  obtain ⟨p, _, hwe⟩ := List.mem_filterMap.mp hw
  simp only [ioWrite, Option.map_eq_some_iff] at hwe
  obtain ⟨l', hl', rfl⟩ := hwe
  simp only [W.covers, Bool.and_eq_false_imp, beq_iff_eq]
  intro hl
  subst hl
  exact absurd hl' (h _ _)

end KV.SdfWave
