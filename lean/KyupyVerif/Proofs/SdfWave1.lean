import KyupyVerif.Model.SdfWave
import KyupyVerif.Proofs.Sdf
/-! Timing data path, part 1: the annotated arrays of a file without negative numbers are non-negative (hypothesis
`delays ≥ 0` of the waveform theorems), and every member of the two entry sequences comes from a block of the file. -/
namespace KV.SdfWave
open KV.Sdf

def TripleNN (t : Triple) : Prop := ∀ v ∈ t, 0 ≤ v
def EntryNN (e : Entry) : Prop := TripleNN e.r ∧ TripleNN e.f
def WNN (w : W) : Prop := TripleNN w.r ∧ TripleNN w.f

theorem getD_nonneg (t : Triple) (h : TripleNN t) (d : Nat) : 0 ≤ t.getD d 0 := by
  rw [List.getD_eq_getElem?_getD]
  cases hx : t[d]? with
  | none => exact Int.le_refl 0
  | some v => exact h v (List.mem_of_getElem? hx)

theorem norm_nonneg (t : Triple) (h : TripleNN t) : TripleNN (norm t) := by
  unfold norm
  split
  · exact h
  · intro v hv
    simp only [List.mem_cons, List.not_mem_nil, or_false] at hv
    rcases hv with rfl | rfl | rfl <;> exact Int.le_refl 0

theorem W.val_nonneg (w : W) (h : WNN w) (op : Bool) (d : Nat) : 0 ≤ w.val op d := by
  unfold W.val
  cases op
  · exact getD_nonneg _ h.1 d
  · exact getD_nonneg _ h.2 d

theorem applyAll_nonneg (ws : List W) (h : ∀ w ∈ ws, WNN w) (d l : Nat) (ip op : Bool) : 0 ≤ applyAll ws d l ip op := by
  unfold applyAll
  suffices key : ∀ A : Arr, (∀ d l ip op, 0 ≤ A d l ip op) → ∀ d l ip op, 0 ≤ (ws.foldl W.apply A) d l ip op from
    key zeroArr (fun _ _ _ _ => Int.le_refl 0) d l ip op
  induction ws with
  | nil => intro A hA; exact hA
  | cons w ws ih =>
    intro A hA
    simp only [List.foldl_cons]
    apply ih (fun w' hw' => h w' (List.mem_cons_of_mem _ hw'))
    intro d l ip op
    unfold W.apply
    split
    · exact W.val_nonneg w (h w List.mem_cons_self) op d
    · exact hA d l ip op

/-! ### entries of a file without negative numbers -/

def RawEntryNN (x : RawEntry) : Prop := ∀ t ∈ x.vals, ∀ o ∈ t, 0 ≤ o.getD 0

theorem triple_nonneg (t : RawTriple) (h : ∀ o ∈ t, 0 ≤ o.getD 0) : TripleNN (triple t) := by
  intro v hv
  obtain ⟨o, ho, rfl⟩ := List.mem_map.mp hv
  exact h o ho

theorem sanitize_nonneg (x : RawEntry) (h : RawEntryNN x) : EntryNN (sanitize x) := by
  unfold sanitize
  have hm : ∀ u ∈ x.vals.map triple, TripleNN u := by
    intro u hu
    obtain ⟨t, ht, rfl⟩ := List.mem_map.mp hu
    exact triple_nonneg t (h t ht)
  split
  · rename_i t heq
    have := hm t (by rw [heq]; exact List.mem_cons_self)
    exact ⟨this, this⟩
  · rename_i r f rest heq
    exact ⟨hm r (by rw [heq]; exact List.mem_cons_self),
      hm f (by rw [heq]; exact List.mem_cons_of_mem _ List.mem_cons_self)⟩
  · exact ⟨fun v hv => absurd hv List.not_mem_nil, fun v hv => absurd hv List.not_mem_nil⟩

theorem rawNonneg_spec (B : List RawCell) (h : rawNonneg B = true) :
    ∀ c ∈ B, ∀ x ∈ c.delays.flatten, RawEntryNN x := by
  intro c hc x hx t ht o ho
  simp only [rawNonneg, List.all_eq_true, decide_eq_true_eq] at h
  exact h c hc x hx t ht o ho

/-- both modes: whatever the INTERCONNECT loop sees stands in a block of the file -/
theorem icEntries_origin (m : Mode) (B : List RawCell) (e : Entry) (h : e ∈ icEntries (parse m B)) :
    ∃ c ∈ B, ∃ x ∈ c.delays.flatten, e = sanitize x := by
  cases m with
  | merge =>
    rw [icEntries_merge, mem_entriesOfKey] at h
    obtain ⟨p, hp, _, he⟩ := h
    obtain ⟨c, hc, rfl⟩ := List.mem_map.mp hp
    obtain ⟨x, hx, rfl⟩ := List.mem_map.mp he
    exact ⟨c, hc, x, hx, rfl⟩
  | lastWins =>
    rw [icEntries_lastWins] at h
    cases hf : (B.map cell).reverse.find? (·.1 == none) with
    | none => rw [hf] at h; cases h
    | some p =>
      rw [hf] at h
      have hp := List.mem_of_find?_eq_some hf
      rw [List.mem_reverse] at hp
      obtain ⟨c, hc, rfl⟩ := List.mem_map.mp hp
      obtain ⟨x, hx, rfl⟩ := List.mem_map.mp h
      exact ⟨c, hc, x, hx, rfl⟩

theorem namedEntries_origin (m : Mode) (B : List RawCell) (n : String) (e : Entry)
    (h : (n, e) ∈ namedEntries (parse m B)) : ∃ c ∈ B, ∃ x ∈ c.delays.flatten, e = sanitize x := by
  rcases mem_namedEntries_origin m B n e h with ⟨c, hc, _, he⟩
  rcases List.mem_map.mp he with ⟨x, hx, rfl⟩
  exact ⟨c, hc, x, hx, rfl⟩

theorem iopaths_nonneg (m : Mode) (pinLine : PinTable) (B : List RawCell) (h : rawNonneg B = true)
    (d l : Nat) (ip op : Bool) : 0 ≤ iopaths pinLine (parse m B) d l ip op := by
  have hs := rawNonneg_spec B h
  unfold iopaths
  apply applyAll_nonneg
  intro w hw
  unfold iopathWrites at hw
  obtain ⟨⟨n, e⟩, hmem, hwe⟩ := List.mem_filterMap.mp hw
  obtain ⟨c, hc, x, hx, rfl⟩ := namedEntries_origin m B n e hmem
  simp only [ioWrite, Option.map_eq_some_iff] at hwe
  obtain ⟨_, _, rfl⟩ := hwe
  have := sanitize_nonneg x (hs c hc x hx)
  exact ⟨norm_nonneg _ this.1, norm_nonneg _ this.2⟩

theorem interconnects_nonneg (m : Mode) (icLine : IcTable) (B : List RawCell) (h : rawNonneg B = true)
    (d l : Nat) (ip op : Bool) : 0 ≤ interconnects icLine (parse m B) d l ip op := by
  have hs := rawNonneg_spec B h
  unfold interconnects
  apply applyAll_nonneg
  intro w hw
  unfold icWrites at hw
  obtain ⟨e, hmem, hwe⟩ := List.mem_filterMap.mp hw
  obtain ⟨c, hc, x, hx, rfl⟩ := icEntries_origin m B e hmem
  have hnn := sanitize_nonneg x (hs c hc x hx)
  unfold icWrite at hwe
  simp only at hwe
  split at hwe
  · cases hwe
  · simp only [Option.map_eq_some_iff] at hwe
    obtain ⟨_, _, rfl⟩ := hwe
    exact ⟨norm_nonneg _ hnn.1, norm_nonneg _ hnn.2⟩

/-- **delays ≥ 0**: the delay table built from a file without negative numbers is non-negative on every line, polarity
pair and data set, whatever the tables -/
theorem sdfDelay_nonneg (m : Mode) (pinLine : PinTable) (icLine : IcTable) (B : List RawCell) (h : rawNonneg B = true)
    (d : Nat) : ∀ l ip op, 0 ≤ sdfDelay pinLine icLine (parse m B) d l ip op := by
  intro l ip op
  have h1 := iopaths_nonneg m pinLine B h d l ip op
  have h2 := interconnects_nonneg m icLine B h d l ip op
  exact Int.add_nonneg h1 h2

/-! ### lines that only one of the two loops can reach -/

/-- no INTERCONNECT write goes to a line outside the range of the fork table -/
theorem interconnects_zero_of_table (icLine : IcTable) (df : DelayFile) (l d : Nat) (ip op : Bool)
    (h : ∀ c1 p1 c2 p2, icLine c1 p1 c2 p2 ≠ some l) : interconnects icLine df d l ip op = 0 := by
  unfold interconnects
  apply applyAll_zero_of_not_covered
  intro w hw
  unfold icWrites at hw
  obtain ⟨e, _, hwe⟩ := List.mem_filterMap.mp hw
  unfold icWrite at hwe
  simp only at hwe
  split at hwe
  · cases hwe
  · simp only [Option.map_eq_some_iff] at hwe
    obtain ⟨l', hl', rfl⟩ := hwe
    simp only [W.covers, Bool.and_eq_false_imp, beq_iff_eq]
    intro hl
    subst hl
    exact absurd hl' (h _ _ _ _)

/-- no IOPATH write goes to a line outside the range of the pin table -/
theorem iopaths_zero_of_table (pinLine : PinTable) (df : DelayFile) (l d : Nat) (ip op : Bool)
    (h : ∀ c p, pinLine c p ≠ some l) : iopaths pinLine df d l ip op = 0 := by
  unfold iopaths
  apply applyAll_zero_of_not_covered
  intro w hw
  unfold iopathWrites at hw
  obtain ⟨p, _, hwe⟩ := List.mem_filterMap.mp hw
  simp only [ioWrite, Option.map_eq_some_iff] at hwe
  obtain ⟨l', hl', rfl⟩ := hwe
  simp only [W.covers, Bool.and_eq_false_imp, beq_iff_eq]
  intro hl
  subst hl
  exact absurd hl' (h _ _)

end KV.SdfWave
