import KyupyVerif.Proofs.TechChk
import KyupyVerif.Gen.Techlib
/-! the list of all generated library rows and the case split over the chunk files -/
namespace KV.Tech
open KV.TL KV.DS

/-- all implementation rows of all five libraries -/
def cells : List Cell := Gen.techChunks.flatten

/-- the keys of `TechLib.cells` of library `l` (index in `Gen.libNames`) that the generated table lists, in table order -/
def libKeys (l : Nat) : List Str := (cells.filter (·.lib == l)).flatMap (·.names)
/-- the implementation rows of library `l` -/
def libRows (l : Nat) : List Cell := cells.filter (·.lib == l)

theorem chunks_eq : Gen.techChunks = [Gen.techChunk0, Gen.techChunk1, Gen.techChunk2, Gen.techChunk3,
    Gen.techChunk4, Gen.techChunk5, Gen.techChunk6, Gen.techChunk7] := rfl

theorem forall_chunks {p : List Cell → Prop} (h0 : p Gen.techChunk0) (h1 : p Gen.techChunk1) (h2 : p Gen.techChunk2)
    (h3 : p Gen.techChunk3) (h4 : p Gen.techChunk4) (h5 : p Gen.techChunk5) (h6 : p Gen.techChunk6)
    (h7 : p Gen.techChunk7) : ∀ ch ∈ Gen.techChunks, p ch := by
  rw [chunks_eq]; intro ch hch
  simp only [List.mem_cons, List.not_mem_nil, or_false] at hch
  rcases hch with rfl | rfl | rfl | rfl | rfl | rfl | rfl | rfl <;> assumption

end KV.Tech
