import KyupyVerif.Proofs.CircSNodes
import KyupyVerif.Proofs.NetSpec
/-! Labellings of the lines of `Circ.toNet` by index versus values at reader end points: `toNet_lineEq_agree` (the gate equation
of line `i` under any labelling that agrees with `w` on the lines), `NetLabelling` (the Prop form of `consistentB`) and its
equivalence with the Boolean checker (`netLabelling_iff_consistentB`). -/
namespace KV.Netlist
open KV

/-- every line carries what its driver computes from the labelling — `consistentB` as a proposition over `Nat → α` -/
def NetLabelling {α} (net : Net) (z : α) (neg : α → α) (prim : String → α → α → α → α → α) (a : Nat → α) (v : Nat → α) : Prop :=
  ∀ i, i < net.lines.size → v i = lineEq net net.sPos z neg prim a v i

theorem toNet_lineEq_agree {α} (C : Circ) (io : List Nat) (sp : Nat → Option Nat) (z : α) (neg : α → α)
    (prim : String → α → α → α → α → α) (a : Nat → α) (v : Nat → α) (w : Ep → α)
    (hv : ∀ j (hj : j < (flatLines C).length), v j = w (flatLines C)[j].2)
    (i : Nat) (hi : i < (flatLines C).length) (hd : C.resolved (flatLines C)[i].1) :
    lineEq (C.toNet io) sp z neg prim a v i =
      driveVal (flatLines C) (C.kindOf (flatLines C)[i].1) (sp (C.nodeIdx (flatLines C)[i].1)) z neg prim a w (flatLines C)[i].1 := by
  rw [← toNet_lineEq C io sp z neg prim a w i hi hd]
  apply lineEq_congr
  · rfl
  · intro k l' hk
    rw [toNet_line C io i hi] at hk
    simp only at hk
    have hlt : l' < (C.toNet io).lines.size :=
      (wf_in (toNet_wf C io) (by rw [toNet_nodes_size]; exact hd) (inPin_some hk)).1
    rw [toNet_lines_size] at hlt
    rw [hv l' hlt, List.getD_eq_getElem?_getD, List.getElem?_eq_getElem hlt]
    rfl

/-- the Boolean checker of the oracle accepts an array exactly when its `getD` labelling is a `NetLabelling`, provided every
line's driver is a node of the net -/
theorem netLabelling_iff_consistentB {α} [BEq α] [LawfulBEq α] (net : Net) (hdrv : ∀ l, l < net.lines.size → (net.line l).driver < net.nodes.size)
    (z : α) (neg : α → α) (prim : String → α → α → α → α → α) (a : Nat → α) (v : Array α) :
    consistentB net z neg prim a v = true ↔ NetLabelling net z neg prim a (fun i => v.getD i z) := by
  unfold consistentB NetLabelling
  simp only [List.all_eq_true, List.mem_range, beq_iff_eq]
  constructor
  · intro h i hi
    rw [h i hi]
    apply lineEq_congr
    · exact sPosTable_getD net (hdrv i hi)
    · intros; rfl
  · intro h i hi
    rw [h i hi]
    apply lineEq_congr
    · exact (sPosTable_getD net (hdrv i hi)).symm
    · intros; rfl

end KV.Netlist
