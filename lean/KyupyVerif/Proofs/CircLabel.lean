import KyupyVerif.Proofs.CircSNodes
import KyupyVerif.Proofs.NetSpec
/-! Labellings of the lines of `Circ.toNet` by index versus values at reader end points: `toNet_lineEq_agree` (the gate equation
of line `i` under any labelling that agrees with `w` on the lines), `NetLabelling` (the Prop form of `consistentB`) and its
equivalence with the Boolean checker (`netLabelling_iff_consistentB`). -/
namespace KV.Netlist
open KV

/-- every line carries what its driver computes from the labelling — `consistentB` as a proposition over `Nat → α` -/
def NetLabelling {α} (net : Net) (z : α) (neg : α → α) (prim : String → α → α → α → α → α) (a : Nat → α) (v : Nat → α) : Prop :=
  ∀ i, i < net.lines.size → v i = lineEq net net.sPos z neg prim a v i

theorem toNet_lineEq_agree {α} (C : Circ) (io : List Nat) (sp : Nat → Option Nat) (z : α) (neg : α → α)
    (prim : String → α → α → α → α → α) (a : Nat → α) (v : Nat → α) (w : Ep → α)
    (hv : ∀ j (hj : j < (flatLines C).length), v j = w (flatLines C)[j].2)
    (i : Nat) (hi : i < (flatLines C).length) (hd : C.resolved (flatLines C)[i].1) :
    lineEq (C.toNet io) sp z neg prim a v i =
      driveVal (flatLines C) (C.kindOf (flatLines C)[i].1) (sp (C.nodeIdx (flatLines C)[i].1)) z neg prim a w (flatLines C)[i].1 := by
  rw [← toNet_lineEq C io sp z neg prim a w i hi hd]
  apply lineEq_congr
  · rfl
  · intro k l' hk
    rw [toNet_line C io i hi] at hk
    simp only at hk
    have hlt : l' < (C.toNet io).lines.size :=
      (wf_in (toNet_wf C io) (by rw [toNet_nodes_size]; exact hd) (inPin_some hk)).1
    rw [toNet_lines_size] at hlt
    rw [hv l' hlt, List.getD_eq_getElem?_getD, List.getElem?_eq_getElem hlt]
    rfl

/-- the Boolean checker of the oracle accepts an array exactly when its `getD` labelling is a `NetLabelling`, provided every
line's driver is a node of the net -/
theorem netLabelling_iff_consistentB {α} [BEq α] [LawfulBEq α] (net : Net) (hdrv : ∀ l, l < net.lines.size → (net.line l).driver < net.nodes.size)
    (z : α) (neg : α → α) (prim : String → α → α → α → α → α) (a : Nat → α) (v : Array α) :
    consistentB net z neg prim a v = true ↔ NetLabelling net z neg prim a (fun i => v.getD i z) := by
  unfold consistentB NetLabelling
  simp only [List.all_eq_true, List.mem_range, beq_iff_eq]
  constructor
  · intro h i hi
    rw [h i hi]
    apply lineEq_congr
    · exact sPosTable_getD net (hdrv i hi)
    · intros; rfl
  · intro h i hi
    rw [h i hi]
    apply lineEq_congr
    · exact (sPosTable_getD net (hdrv i hi)).symm
    · intros; rfl

/-! ## labellings by line index ↔ values at reader end points (any model circuit) -/

/-- `w` (values arriving at reader end points) satisfies the name-level gate equation of every line -/
def CircModel {α} (C : Circ) (io : List Nat) (z : α) (neg : α → α) (prim : String → α → α → α → α → α) (a : Nat → α)
    (w : Ep → α) : Prop :=
  ∀ p ∈ flatLines C, w p.2 = driveVal (flatLines C) (C.kindOf p.1) ((C.toNet io).sPos (C.nodeIdx p.1)) z neg prim a w p.1

theorem circ_model_labelling {α} (C : Circ) (io : List Nat) (hres : ∀ p ∈ flatLines C, C.resolved p.1) (z : α) (neg : α → α)
    (prim : String → α → α → α → α → α) (a : Nat → α) (w : Ep → α) (v : Nat → α)
    (hv : ∀ j (hj : j < (flatLines C).length), v j = w (flatLines C)[j].2) (hm : CircModel C io z neg prim a w) :
    NetLabelling (C.toNet io) z neg prim a v := by
  intro i hi
  rw [toNet_lines_size] at hi
  rw [toNet_lineEq_agree C io _ z neg prim a v w hv i hi (hres _ (List.getElem_mem hi)), hv i hi]
  exact hm _ (List.getElem_mem hi)

theorem inLineOf_self' (L : List (Ep × Ep)) (hnd : (L.map (·.2)).Nodup) (i : Nat) (hi : i < L.length) :
    inLineOf L L[i].2 = some i := by
  apply lastWith_unique _ L i L[i] (List.getElem?_eq_getElem hi) (by simp)
  intro i' x' hx' hp
  have hi' : i' < L.length := (List.getElem?_eq_some_iff.mp hx').1
  have hx'' : L[i'] = x' := (List.getElem?_eq_some_iff.mp hx').2
  have h1 : (L.map (·.2))[i']'(by simpa using hi') = (L.map (·.2))[i]'(by simpa using hi) := by
    simp only [List.getElem_map, hx'']
    simpa using hp
  exact (List.getElem_inj hnd).mp h1

theorem circ_labelling_model {α} (C : Circ) (io : List Nat) (hres : ∀ p ∈ flatLines C, C.resolved p.1)
    (hnd : ((flatLines C).map (·.2)).Nodup) (z : α) (neg : α → α) (prim : String → α → α → α → α → α) (a : Nat → α) (v : Nat → α)
    (hc : NetLabelling (C.toNet io) z neg prim a v) :
    CircModel C io z neg prim a (fun e => v ((inLineOf (flatLines C) e).getD 0)) ∧
    ∀ j (hj : j < (flatLines C).length), v j = (fun e => v ((inLineOf (flatLines C) e).getD 0)) (flatLines C)[j].2 := by
  have hv : ∀ j (hj : j < (flatLines C).length), v j = (fun e => v ((inLineOf (flatLines C) e).getD 0)) (flatLines C)[j].2 := by
    intro j hj
    show v j = v ((inLineOf (flatLines C) (flatLines C)[j].2).getD 0)
    rw [inLineOf_self' _ hnd j hj]; rfl
  refine ⟨?_, hv⟩
  intro p hp
  obtain ⟨i, hi, rfl⟩ := List.getElem_of_mem hp
  rw [← hv i hi, hc i (by rw [toNet_lines_size]; exact hi)]
  exact toNet_lineEq_agree C io _ z neg prim a v _ hv i hi (hres _ (List.getElem_mem hi))

/-! ## the same with HOLES: nodes whose meaning is given from outside (C10 `ConsOff`; used for library cells) -/

/-- every line that is not driven by a node selected by `S` carries what its driver computes from the labelling -/
def NetLabellingOff {α} (net : Net) (S : Nat → Prop) (z : α) (neg : α → α) (prim : String → α → α → α → α → α) (a : Nat → α)
    (v : Nat → α) : Prop :=
  ∀ i, i < net.lines.size → ¬ S (net.line i).driver → v i = lineEq net net.sPos z neg prim a v i

theorem netLabellingOff_false {α} (net : Net) (z : α) (neg : α → α) (prim : String → α → α → α → α → α) (a : Nat → α) (v : Nat → α) :
    NetLabellingOff net (fun _ => False) z neg prim a v ↔ NetLabelling net z neg prim a v :=
  ⟨fun h i hi => h i hi (fun x => x), fun h i hi _ => h i hi⟩

/-- `w` satisfies the name-level gate equation of every line whose driver end point is not selected by `H` -/
def CircModelOff {α} (C : Circ) (io : List Nat) (H : Ep → Prop) (z : α) (neg : α → α) (prim : String → α → α → α → α → α)
    (a : Nat → α) (w : Ep → α) : Prop :=
  ∀ p ∈ flatLines C, ¬ H p.1 →
    w p.2 = driveVal (flatLines C) (C.kindOf p.1) ((C.toNet io).sPos (C.nodeIdx p.1)) z neg prim a w p.1

theorem circModelOff_false {α} (C : Circ) (io : List Nat) (z : α) (neg : α → α) (prim : String → α → α → α → α → α) (a : Nat → α)
    (w : Ep → α) : CircModelOff C io (fun _ => False) z neg prim a w ↔ CircModel C io z neg prim a w :=
  ⟨fun h p hp => h p hp (fun x => x), fun h p hp _ => h p hp⟩

theorem circ_model_labelling_off {α} (C : Circ) (io : List Nat) (hres : ∀ p ∈ flatLines C, C.resolved p.1) (S : Nat → Prop)
    (H : Ep → Prop) (hSH : ∀ p ∈ flatLines C, H p.1 → S (C.nodeIdx p.1)) (z : α) (neg : α → α)
    (prim : String → α → α → α → α → α) (a : Nat → α) (w : Ep → α) (v : Nat → α)
    (hv : ∀ j (hj : j < (flatLines C).length), v j = w (flatLines C)[j].2) (hm : CircModelOff C io H z neg prim a w) :
    NetLabellingOff (C.toNet io) S z neg prim a v := by
  intro i hi hS
  rw [toNet_lines_size] at hi
  rw [toNet_line C io i hi] at hS
  rw [toNet_lineEq_agree C io _ z neg prim a v w hv i hi (hres _ (List.getElem_mem hi)), hv i hi]
  exact hm _ (List.getElem_mem hi) (fun h => hS (hSH _ (List.getElem_mem hi) h))

theorem circ_labelling_model_off {α} (C : Circ) (io : List Nat) (hres : ∀ p ∈ flatLines C, C.resolved p.1)
    (hnd : ((flatLines C).map (·.2)).Nodup) (S : Nat → Prop) (H : Ep → Prop) (hSH : ∀ p ∈ flatLines C, S (C.nodeIdx p.1) → H p.1)
    (z : α) (neg : α → α) (prim : String → α → α → α → α → α) (a : Nat → α) (v : Nat → α)
    (hc : NetLabellingOff (C.toNet io) S z neg prim a v) :
    CircModelOff C io H z neg prim a (fun e => v ((inLineOf (flatLines C) e).getD 0)) ∧
    ∀ j (hj : j < (flatLines C).length), v j = (fun e => v ((inLineOf (flatLines C) e).getD 0)) (flatLines C)[j].2 := by
  have hv : ∀ j (hj : j < (flatLines C).length), v j = (fun e => v ((inLineOf (flatLines C) e).getD 0)) (flatLines C)[j].2 := by
    intro j hj
    show v j = v ((inLineOf (flatLines C) (flatLines C)[j].2).getD 0)
    rw [inLineOf_self' _ hnd j hj]; rfl
  refine ⟨?_, hv⟩
  intro p hp hH
  obtain ⟨i, hi, rfl⟩ := List.getElem_of_mem hp
  rw [← hv i hi, hc i (by rw [toNet_lines_size]; exact hi) (by
    rw [toNet_line C io i hi]; exact fun h => hH (hSH _ (List.getElem_mem hi) h))]
  exact toNet_lineEq_agree C io _ z neg prim a v _ hv i hi (hres _ (List.getElem_mem hi))

end KV.Netlist
