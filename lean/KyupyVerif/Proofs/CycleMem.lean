import KyupyVerif.Proofs.CycleNet
import KyupyVerif.Proofs.MapSound
/-! `LogicSim.cycle(k)` ON MEMORY: `s_to_c` writes the rows `c_locs[ppi_offset + p]`, the op rows run on memory
(`MapSound.memRun`, one row per signal), `c_to_s` reads the rows `c_locs[ppo_offset + p]`. With an accepted map certificate
(C08) the `s` array evolves exactly as in the signal-level model `cycleK`. -/
namespace KV.Cycle
open KV KV.Sig KV.MapIn KV.MapSound

variable {α : Type}

/-- `s_to_c` on memory: `c[pippi_c_locs] = s[0, pippi_s_locs]`, `pippi_c_locs[i] = c_locs[ppi_offset + pippi_s_locs[i]]` -/
def sToCM (p : MapIn) (T : Tabs) (d : α) (s0 : List α) (m : Int → α) : Int → α :=
  T.pippi.foldl (fun m px => fun a => if a = p.loc px.2 then s0.getD px.1 d else m a) m

/-- `c_to_s` on memory: `s[1, poppo_s_locs] = c[poppo_c_locs]`, `poppo_c_locs[i] = c_locs[ppo_offset + poppo_s_locs[i]]` -/
def cToSM (p : MapIn) (T : Tabs) (m : Int → α) (s1 : List α) : List α :=
  T.poppo.foldl (fun s px => s.set px.1 (m (p.loc (T.ppo + px.1)))) s1

structure StM (α : Type) where
  mem : Int → α
  s : S α

def cycle1M [Inhabited α] (p : MapIn) (f : Nat → List α → α) (T : Tabs) (merge : α → α → α) (d : α) (st : StM α) : StM α :=
  let m1 := sToCM p T d st.s.s0 st.mem
  let m2 := memRun p (rowRW α) (fun o => f o.lut) p.ops m1
  let s1 := cToSM p T m2 st.s.s1
  ⟨m2, ⟨ppoToPpi T merge d st.s.s0 s1, s1⟩⟩

def cycleKM [Inhabited α] (p : MapIn) (f : Nat → List α → α) (T : Tabs) (merge : α → α → α) (d : α) : Nat → StM α → StM α
  | 0, st => st
  | k + 1, st => cycleKM p f T merge d k (cycle1M p f T merge d st)

theorem foldl_updI_apply {β} (l : List β) (idx : β → Int) (v : β → α) (x : Int) (w : α)
    (h : ∀ b ∈ l, idx b = x → v b = w) (m : Int → α) :
    (l.foldl (fun m b => fun a => if a = idx b then v b else m a) m) x = if x ∈ l.map idx then w else m x := by
  induction l generalizing m with
  | nil => simp
  | cons b r ih =>
    simp only [List.foldl_cons]
    rw [ih (fun y hy => h y (List.mem_cons_of_mem _ hy))]
    have hb := h b List.mem_cons_self
    simp only [List.map_cons, List.mem_cons]
    by_cases hp : idx b = x
    · simp [hp, hb hp]
    · have : ¬ x = idx b := fun e => hp e.symm
      simp [this]

theorem foldl_set_congr {β} (l : List β) (pos : β → Nat) (v v' : β → α) (h : ∀ b ∈ l, v b = v' b) (s : List α) :
    l.foldl (fun s b => s.set (pos b) (v b)) s = l.foldl (fun s b => s.set (pos b) (v' b)) s := by
  induction l generalizing s with
  | nil => rfl
  | cons b r ih =>
    simp only [List.foldl_cons]
    rw [h b List.mem_cons_self, ih (fun y hy => h y (List.mem_cons_of_mem _ hy))]

/-! ### what the certificate says about the pinned slots -/

theorem mem_ppiSlots (p : MapIn) (x : Nat) :
    x ∈ p.ppiSlots ↔ ∃ i, i < p.net.sNodes.length ∧ 0 < (sNodeAt p.net i).outs.length ∧ x = p.ix.ppi + i := by
  unfold ppiSlots sNodeAt
  simp only [List.mem_map, List.mem_filter, decide_eq_true_eq]
  constructor
  · rintro ⟨⟨n, i⟩, ⟨hm, ho⟩, rfl⟩
    have hn : p.net.sNodes[i]? = some n := List.mem_zipIdx_iff_getElem?.1 hm
    have hi : i < p.net.sNodes.length := (List.getElem?_eq_some_iff.1 hn).1
    refine ⟨i, hi, ?_, rfl⟩
    rw [List.getD_eq_getElem?_getD, hn]
    exact ho
  · rintro ⟨i, hi, ho, rfl⟩
    refine ⟨(p.net.sNodes[i], i), ⟨List.mem_zipIdx_iff_getElem?.2 (by simp [hi]), ?_⟩, rfl⟩
    rw [List.getD_eq_getElem?_getD, List.getElem?_eq_getElem hi] at ho
    exact ho

theorem ppi_pinned (p : MapIn) {x : Nat} (h : x ∈ p.ppiSlots) : p.pinned x = true ∧ x ∈ p.tracked := by
  constructor
  · unfold pinned pinnedW
    have : p.ppiSlots.contains x = true := by rw [List.contains_iff_mem]; exact h
    rw [this]; simp
  · unfold tracked; simp [h]

theorem zero_pinned (p : MapIn) : p.pinned p.ix.zero = true ∧ p.ix.zero ∈ p.tracked := by
  constructor
  · unfold pinned pinnedW; simp
  · unfold tracked; simp

/-- two different pinned signals never share a row -/
theorem pinned_loc_ne {p : MapIn} (hg : Good p) (hpos : 0 < p.capsMin) {x y : Nat} (hx : x ∈ p.tracked) (hy : y ∈ p.tracked)
    (px : p.pinned x = true) (py : p.pinned y = true) (hne : x ≠ y) : p.loc x ≠ p.loc y := by
  intro he
  have cx := hg.inb x hx
  have cy := hg.inb y hy
  rcases hg.sep x hx y hy with h | h | h | h
  · exact hne h
  · simp only [overlap, Bool.and_eq_false_iff, decide_eq_false_iff_not] at h
    omega
  · have := last_pinned p px; have := dfn_le_nLevels p y; omega
  · have := last_pinned p py; have := dfn_le_nLevels p x; omega

/-- the pinned half of the certificate's soundness in the LogicSim reading (one row per signal): after the op rows ran on
    memory, the row of every pinned signal (constant slot, (P)PI slots, captured signals) holds its signal-level value -/
theorem check_sound_rows_pinned [Inhabited α] (p : MapIn) (hc : p.check = none) (hpos : 0 < p.capsMin)
    (f : Nat → List α → α) (m0 : Int → α) (env0 : Nat → α)
    (h0 : ∀ x ∈ p.tracked, (∀ o ∈ p.ops, o.out ≠ x) → m0 (p.loc x) = env0 x) :
    ∀ x ∈ p.tracked, p.pinned x = true →
      memRun p (rowRW α) (fun o => f o.lut) p.ops m0 (p.loc x) = Sig.exec f (p.ops.map (sigOp p)) env0 x := by
  have hg := good_of_check p hc
  have hfit : ∀ o ∈ p.ops, ∀ (args : List α) (m : Int → α),
      (rowRW α).rd (p.loc o.out) (p.cap o.out) ((rowRW α).wr (p.loc o.out) (p.cap o.out) ((fun o => f o.lut) o args) m)
        = (fun o => f o.lut) o args := by
    intro o ho args m
    by_cases hc0 : 0 < p.cap o.out
    · exact rowRW_fit _ _ hc0 _ _
    · exfalso
      obtain ⟨k, hk⟩ := List.mem_iff_getElem?.1 ho
      by_cases hj : p.isJunk o.out = true
      · unfold check checkW at hc
        dsimp only at hc
        obtain ⟨h1, _⟩ := ite_none hc
        rw [Bool.not_eq_false', Bool.and_eq_true] at h1
        have h1 := h1.2
        simp only [List.all_cons, List.all_nil, Bool.and_true, Bool.and_eq_true, inBounds, decide_eq_true_eq] at h1
        simp only [isJunk, Bool.or_eq_true, beq_iff_eq] at hj
        rcases hj with e | e <;> rw [e] at hc0 <;> omega
      · have := hg.inb o.out (mem_tracked_of_out p hk (by simpa using hj))
        omega
  have hrd : ∀ x ∈ p.tracked, ∀ m : Int → α, rdS p (rowRW α) x m = m (p.loc x) := by
    intro x hx m
    have := hg.inb x hx
    simp [rdS, rowRW, show 0 < p.cap x by omega]
  have h := (check_sound p hc (rowRW α) (fun o => f o.lut) hfit m0 env0
    (fun x hx hn => by rw [hrd x hx]; exact h0 x hx hn)).1
  intro x hx hp
  rw [← sigRun_eq_exec, ← h x hx hp, hrd x hx]

/-! ### the (P)PI table against the certificate's slot list -/

theorem pippi_ppiSlot (p : MapIn)
    (px : Nat × Nat) (h : px ∈ (tabsOf p.net p.strip).pippi) : px.2 ∈ p.ppiSlots ∧ px.2 = p.ix.ppi + px.1 := by
  simp only [tabsOf, List.mem_map, List.mem_append] at h
  obtain ⟨q, hq, rfl⟩ := h
  refine ⟨(mem_ppiSlots p _).2 ⟨q, ?_, ?_, rfl⟩, rfl⟩
  · have := io_le_sNodes p.net
    rcases hq with hq | hq
    · have := ((mem_piS p.net q).1 hq).1; omega
    · exact ((mem_ppiUsedS p.net q).1 hq).1.2
  · rcases hq with hq | hq
    · exact ((mem_piS p.net q).1 hq).2
    · exact ((mem_ppiUsedS p.net q).1 hq).2

theorem ppiSlot_pippi (p : MapIn) (x : Nat) (h : x ∈ p.ppiSlots) :
    ∃ i, (i, x) ∈ (tabsOf p.net p.strip).pippi ∧ x = p.ix.ppi + i := by
  obtain ⟨i, hi, ho, rfl⟩ := (mem_ppiSlots p x).1 h
  refine ⟨i, ?_, rfl⟩
  simp only [tabsOf, List.mem_map, List.mem_append]
  refine ⟨i, ?_, rfl⟩
  by_cases hio : i < p.net.io.length
  · exact Or.inl ((mem_piS p.net i).2 ⟨hio, ho⟩)
  · exact Or.inr ((mem_ppiUsedS p.net i).2 ⟨⟨by omega, hi⟩, ho⟩)

theorem zero_lt_ppi (p : MapIn) : p.ix.zero < p.ix.ppi := by simp [MapIn.ix, Net.idx]

/-- after `s_to_c`, memory and signal environment agree on the constant slot and on every (P)PI slot -/
theorem sToCM_agree {p : MapIn} (hg : Good p) (hpos : 0 < p.capsMin) (d : α) (s0 : List α) (m : Int → α) (env : Nat → α)
    (hz : m (p.loc p.ix.zero) = env p.ix.zero) (x : Nat) (hx : x ∈ p.ppiSlots ∨ x = p.ix.zero) :
    sToCM p (tabsOf p.net p.strip) d s0 m (p.loc x) = sToC (tabsOf p.net p.strip) d s0 env x := by
  have hzl := zero_lt_ppi p
  rw [sToC_apply]
  unfold sToCM
  rcases hx with hx | rfl
  · obtain ⟨i, hi, hxi⟩ := ppiSlot_pippi p x hx
    have hxm : x ∈ (tabsOf p.net p.strip).pippi.map (·.2) := List.mem_map.2 ⟨(i, x), hi, rfl⟩
    have hi' : x - p.net.idx.ppi = i := by show x - p.ix.ppi = i; omega
    rw [if_pos hxm, hi']
    rw [foldl_updI_apply _ (fun px : Nat × Nat => p.loc px.2) (fun px => s0.getD px.1 d) (p.loc x) (s0.getD i d)]
    · rw [if_pos (List.mem_map.2 ⟨(i, x), hi, rfl⟩)]
    · intro px hpx hl
      obtain ⟨hs, he⟩ := pippi_ppiSlot p px hpx
      have : px.2 = x := by
        apply Classical.byContradiction
        intro hne
        exact pinned_loc_ne hg hpos (ppi_pinned p hs).2 (ppi_pinned p hx).2 (ppi_pinned p hs).1 (ppi_pinned p hx).1 hne hl
      have : px.1 = i := by omega
      rw [this]
  · have hnm : p.ix.zero ∉ (tabsOf p.net p.strip).pippi.map (·.2) := by
      intro hm
      obtain ⟨px, hpx, he⟩ := List.mem_map.1 hm
      have := (pippi_ppiSlot p px hpx).2
      omega
    rw [if_neg hnm]
    rw [foldl_updI_apply _ (fun px : Nat × Nat => p.loc px.2) (fun px => s0.getD px.1 d) (p.loc p.ix.zero) (m (p.loc p.ix.zero))]
    · simp [hz]
    · intro px hpx hl
      exfalso
      obtain ⟨hs, he⟩ := pippi_ppiSlot p px hpx
      exact pinned_loc_ne hg hpos (ppi_pinned p hs).2 (zero_pinned p).2 (ppi_pinned p hs).1 (zero_pinned p).1 (by omega) hl

/-! ### one cycle and k cycles on memory -/

theorem mem_tracked_cases (p : MapIn) (x : Nat) (h : x ∈ p.tracked) :
    (∃ o ∈ p.ops, o.out = x) ∨ x ∈ p.ppiSlots ∨ x = p.ix.zero := by
  unfold tracked at h
  simp only [List.mem_append, List.mem_filter, List.mem_map, List.mem_singleton] at h
  rcases h with (⟨⟨o, ho, rfl⟩, _⟩ | h) | h
  · exact Or.inl ⟨o, ho, rfl⟩
  · exact Or.inr (Or.inl h)
  · exact Or.inr (Or.inr h)

theorem cycle1M_eq [Inhabited α] (p : MapIn) (hc : p.check = none) (hpos : 0 < p.capsMin)
    (hzc : zeroCapB p = true)
    (f : Nat → List α → α) (merge : α → α → α) (d : α) (m : Int → α) (env : Nat → α) (s : S α)
    (hz : m (p.loc p.ix.zero) = env p.ix.zero) :
    (cycle1M p f (tabsOf p.net p.strip) merge d ⟨m, s⟩).s =
      (cycle1 (fun op => f op.code) (p.ops.map (sigOp p)) (tabsOf p.net p.strip) merge d ⟨env, s⟩).s ∧
    (cycle1M p f (tabsOf p.net p.strip) merge d ⟨m, s⟩).mem (p.loc p.ix.zero) =
      (cycle1 (fun op => f op.code) (p.ops.map (sigOp p)) (tabsOf p.net p.strip) merge d ⟨env, s⟩).env p.ix.zero := by
  have hg := good_of_check p hc
  have h0 : ∀ x ∈ p.tracked, (∀ o ∈ p.ops, o.out ≠ x) →
      sToCM p (tabsOf p.net p.strip) d s.s0 m (p.loc x) = sToC (tabsOf p.net p.strip) d s.s0 env x := by
    intro x hx hun
    rcases mem_tracked_cases p x hx with ⟨o, ho, he⟩ | h | h
    · exact absurd he (hun o ho)
    · exact sToCM_agree hg hpos d s.s0 m env hz x (Or.inl h)
    · exact sToCM_agree hg hpos d s.s0 m env hz x (Or.inr h)
  have hA := check_sound_rows p hc hpos f _ _ h0
  have hB := check_sound_rows_pinned p hc hpos f _ _ h0
  have hzero := hB p.ix.zero (zero_pinned p).2 (zero_pinned p).1
  have hs1 : cToSM p (tabsOf p.net p.strip)
        (memRun p (rowRW α) (fun o => f o.lut) p.ops (sToCM p (tabsOf p.net p.strip) d s.s0 m)) s.s1 =
      cToS (tabsOf p.net p.strip)
        (execG (fun op => f op.code) (p.ops.map (sigOp p)) (sToC (tabsOf p.net p.strip) d s.s0 env)) s.s1 := by
    unfold cToSM cToS
    apply foldl_set_congr
    intro px hpx
    rw [← exec_eq_execG]
    have hsig := poppo_sig p.net p.strip px hpx
    have hpos' : px.1 ∈ poS p.net ++ ppioS p.net := by
      rw [← poppo_pos p.net p.strip]; exact List.mem_map.2 ⟨px, hpx, rfl⟩
    have hlen : px.1 < p.net.sNodes.length := by
      have := io_le_sNodes p.net
      rcases List.mem_append.1 hpos' with h | h
      · have := ((mem_poS p.net px.1).1 h).1; omega
      · exact ((mem_ppioS p.net px.1).1 h).2
    show memRun p (rowRW α) (fun o => f o.lut) p.ops _ (p.loc (p.ix.ppo + px.1)) = _
    rw [hsig]
    unfold capSig capSigW
    cases hpin : (sNodeAt p.net px.1).inPin 0 with
    | some l =>
      have hn : (p.net.sNodes[px.1], px.1) ∈ p.net.sNodes.zipIdx :=
        List.mem_zipIdx_iff_getElem?.2 (by simp [hlen])
      have hnode : (p.net.node p.net.sNodes[px.1]).inPin 0 = some l := by
        unfold sNodeAt at hpin
        rw [List.getD_eq_getElem?_getD, List.getElem?_eq_getElem hlen] at hpin
        exact hpin
      exact hA _ _ (mem_ppoSrcs p hn hnode)
    | none =>
      have hq : px.1 ∈ ppioS p.net := by
        rcases List.mem_append.1 hpos' with h | h
        · have := ((mem_poS p.net px.1).1 h).2; rw [hpin] at this; cases this
        · exact h
      have hl : p.loc (p.ix.ppo + px.1) = p.loc p.ix.zero := by
        unfold zeroCapB at hzc
        have := List.all_eq_true.1 hzc px.1 hq
        rw [hpin] at this
        simpa using this
      rw [hl]; exact hzero
  constructor
  · unfold cycle1M cycle1
    simp only
    rw [hs1]
  · show memRun p (rowRW α) (fun o => f o.lut) p.ops _ (p.loc p.ix.zero) = execG _ _ _ p.ix.zero
    rw [← exec_eq_execG]; exact hzero

/-- **`cycle(k)` on memory = `cycle(k)` on signals**, for every accepted map certificate -/
theorem cycleKM_eq [Inhabited α] (p : MapIn) (hc : p.check = none) (hpos : 0 < p.capsMin)
    (hzc : zeroCapB p = true)
    (f : Nat → List α → α) (merge : α → α → α) (d : α) :
    ∀ (k : Nat) (m : Int → α) (env : Nat → α) (s : S α), m (p.loc p.ix.zero) = env p.ix.zero →
      (cycleKM p f (tabsOf p.net p.strip) merge d k ⟨m, s⟩).s =
        (cycleK (fun op => f op.code) (p.ops.map (sigOp p)) (tabsOf p.net p.strip) merge d k ⟨env, s⟩).s := by
  intro k
  induction k with
  | zero => intro m env s _; rfl
  | succ k ih =>
    intro m env s hz
    obtain ⟨h1, h2⟩ := cycle1M_eq p hc hpos hzc f merge d m env s hz
    show (cycleKM p f _ merge d k (cycle1M p f _ merge d ⟨m, s⟩)).s =
      (cycleK _ _ _ merge d k (cycle1 _ _ _ merge d ⟨env, s⟩)).s
    have e1 : cycle1M p f (tabsOf p.net p.strip) merge d ⟨m, s⟩ =
        ⟨(cycle1M p f (tabsOf p.net p.strip) merge d ⟨m, s⟩).mem, (cycle1M p f (tabsOf p.net p.strip) merge d ⟨m, s⟩).s⟩ := rfl
    have e2 : cycle1 (fun op => f op.code) (p.ops.map (sigOp p)) (tabsOf p.net p.strip) merge d ⟨env, s⟩ =
        ⟨(cycle1 (fun op => f op.code) (p.ops.map (sigOp p)) (tabsOf p.net p.strip) merge d ⟨env, s⟩).env,
         (cycle1 (fun op => f op.code) (p.ops.map (sigOp p)) (tabsOf p.net p.strip) merge d ⟨env, s⟩).s⟩ := rfl
    rw [e1, e2, h1]
    exact ih _ _ _ h2

end KV.Cycle
