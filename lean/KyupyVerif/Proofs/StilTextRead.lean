import KyupyVerif.Proofs.StilTextLex
/-! The reader of the STIL text model on printed token lists: one lemma per reader function. -/
namespace KV.StilText
open KV.TextLex

theorem next_enc (s : List Tm) (t : Tm) (x : Txt) (h : Lx s t x) (ts : List Txt) (R : List Char) (hR : WsHead R) :
    next L s (enc (x :: ts) ++ R) = some (.tok t x, enc ts ++ R) := by
  rw [enc_cons]
  exact h _ (wsHead_enc ts R hR)

theorem expect_enc (s : List Tm) (t : Tm) (x : Txt) (h : Lx s t x) (ts : List Txt) (R : List Char) (hR : WsHead R) :
    expect s t (enc (x :: ts) ++ R) = some (x, enc ts ++ R) := by
  simp [expect, next_enc s t x h ts R hR]

def LxAll : List (List Tm × Tm) → List Txt → Prop
  | [], [] => True
  | p :: sp, x :: xs => Lx p.1 p.2 x ∧ LxAll sp xs
  | _, _ => False

theorem pSeq_enc (specs : List (List Tm × Tm)) (xs : List Txt) (h : LxAll specs xs) (ts : List Txt) (R : List Char)
    (hR : WsHead R) : pSeq specs (enc (xs ++ ts) ++ R) = some (xs, enc ts ++ R) := by
  induction specs generalizing xs with
  | nil =>
    cases xs with
    | nil => rfl
    | cons x xs => cases h
  | cons p specs ih =>
    cases xs with
    | nil => cases h
    | cons x xs =>
      obtain ⟨s, t⟩ := p
      simp only [LxAll] at h
      simp only [List.cons_append, pSeq, expect_enc s t x h.1 _ R hR, ih xs h.2]

/-! ### skipped regions -/
theorem Lx_lbrace (s : List Tm) (hs : s = sLbrace ∨ s = sAfterQ ∨ s = sAfterSgQuote ∨ s = sAfterFloat) :
    Lx s (.lit .Lbrace) (K .Lbrace) := by
  rcases hs with rfl | rfl | rfl | rfl <;> exact Lx_lit _ _ (by decide)

/-- a text run followed directly by the brace that ends it -/
theorem next_nob (t : Txt) (h : vNob t = true) (b : Char) (hb : b = '{' ∨ b = '}') (X : List Char) :
    next L sIgA (' ' :: (t ++ b :: X)) = some (.tok .nob t, b :: X) := by
  cases t with
  | nil => simp [vNob] at h
  | cons c0 t' =>
    simp only [vNob, Bool.and_eq_true, List.all_eq_true] at h
    have hp := plus_append isNob (c0 :: t') (b :: X) (by simp) h.2
      (by intro c r e; cases e; rcases hb with rfl | rfl <;> decide)
    simp only [List.cons_append] at hp ⊢
    rw [sIgA, next_skip _ c0 _ h.1]
    exact next_tok L _ _ .nob _ _ (by simp [first, L, Tm.run, ignM_solid c0 _ h.1, hp]) rfl (by simp)

/-- a brace directly behind a text run -/
theorem next_brace_direct (k : Kw) (hk : k = .Lbrace ∨ k = .Rbrace) (X : List Char) :
    next L sIgB (k.chars ++ X) = some (.tok (.lit k) k.chars, X) := by
  rcases hk with rfl | rfl
  · exact next_tok L _ _ (.lit .Lbrace) _ _
      (by simp [sIgB, first, L, Tm.run, ignM_solid '{' X (by decide), TextLex.lit, stripPrefix, Kw.chars]) rfl (by simp [Kw.chars])
  · exact next_tok L _ _ (.lit .Rbrace) _ _
      (by simp [sIgB, first, L, Tm.run, ignM_solid '}' X (by decide), TextLex.lit, stripPrefix, Kw.chars]) rfl (by simp [Kw.chars])

theorem pIgn_chunks (ts : List Txt) (R : List Char) (hR : WsHead R) (ig : List IgnTok) :
    ∀ d n, ig.length < n →
      (ignOK d true ig = true → pIgn n d true (enc (ignChunks ig ++ ts) ++ R) = some (ig, enc ts ++ R)) ∧
      (ignOK d false ig = true → ∃ c cs, ignChunks ig = c :: cs ∧ (c = K .Lbrace ∨ c = K .Rbrace) ∧
        pIgn n d false (c ++ (enc (cs ++ ts) ++ R)) = some (ig, enc ts ++ R)) := by
  have hL := Lx_lit sIgA .Lbrace (by decide)
  have hRb := Lx_lit sIgA .Rbrace (by decide)
  induction ig with
  | nil =>
    intro d n hn
    cases n with
    | zero => cases hn
    | succ n =>
      refine ⟨fun h => ?_, fun h => ⟨K .Rbrace, [], rfl, Or.inr rfl, ?_⟩⟩
      · have hd : d = 0 := by simpa [ignOK] using h
        subst hd
        simp [ignChunks, pIgn, next_enc sIgA _ _ hRb ts R hR]
      · have hd : d = 0 := by simpa [ignOK] using h
        subst hd
        simp [pIgn, next_brace_direct .Rbrace (Or.inr rfl)]
  | cons tk r ih =>
    intro d n hn
    cases n with
    | zero => cases hn
    | succ n =>
      have hn' : r.length < n := by simp only [List.length_cons] at hn; omega
      cases tk with
      | opn =>
        have ih1 := (ih (d + 1) n hn').1
        refine ⟨fun h => ?_, fun h => ⟨K .Lbrace, ignChunks r, rfl, Or.inl rfl, ?_⟩⟩
        · have h' : ignOK (d + 1) true r = true := by simpa [ignOK] using h
          simp only [ignChunks, List.cons_append, pIgn, ↓reduceIte, next_enc sIgA _ _ hL _ R hR, ih1 h', Option.map_some]
        · have h' : ignOK (d + 1) true r = true := by simpa [ignOK] using h
          simp only [pIgn, Bool.false_eq_true, ↓reduceIte, next_brace_direct .Lbrace (Or.inl rfl), ih1 h', Option.map_some]
      | cls =>
        cases d with
        | zero => exact ⟨fun h => by simp [ignOK] at h, fun h => by simp [ignOK] at h⟩
        | succ d =>
          have ih1 := (ih d n hn').1
          refine ⟨fun h => ?_, fun h => ⟨K .Rbrace, ignChunks r, rfl, Or.inr rfl, ?_⟩⟩
          · have h' : ignOK d true r = true := by simpa [ignOK] using h
            simp only [ignChunks, List.cons_append, pIgn, ↓reduceIte, next_enc sIgA _ _ hRb _ R hR, ih1 h', Option.map_some]
          · have h' : ignOK d true r = true := by simpa [ignOK] using h
            simp only [pIgn, Bool.false_eq_true, ↓reduceIte, next_brace_direct .Rbrace (Or.inr rfl), ih1 h', Option.map_some]
      | nob t =>
        refine ⟨fun h => ?_, fun h => by simp [ignOK] at h⟩
        simp only [ignOK, Bool.true_and, Bool.and_eq_true] at h
        obtain ⟨c, cs, hc, hb, hp⟩ := (ih d n hn').2 h.2
        have hb' : ∃ b, c = [b] ∧ (b = '{' ∨ b = '}') := by
          rcases hb with rfl | rfl
          · exact ⟨'{', rfl, Or.inl rfl⟩
          · exact ⟨'}', rfl, Or.inr rfl⟩
        obtain ⟨b, rfl, hbb⟩ := hb'
        have e : enc (ignChunks (.nob t :: r) ++ ts) ++ R = ' ' :: (t ++ b :: (enc (cs ++ ts) ++ R)) := by
          simp [ignChunks, hc, enc]
        rw [e]
        simp only [pIgn, ↓reduceIte, next_nob t h.1 b hbb]
        simp only [List.cons_append, List.nil_append] at hp
        simp only [hp, Option.map_some]

/-- `"{" body "}"` with the `{` scanned in state `s` -/
theorem pBraceIgn_enc (N : Nat) (s : List Tm) (hs : s = sLbrace ∨ s = sAfterQ) (ig : List IgnTok) (h : vIgn ig = true)
    (hN : ig.length < N) (ts : List Txt) (R : List Char) (hR : WsHead R) :
    pBraceIgn N s (enc (ignToks ig ++ ts) ++ R) = some (ig, enc ts ++ R) := by
  have hl := Lx_lbrace s (by rcases hs with h | h <;> simp [h])
  simp only [pBraceIgn, ignToks, List.cons_append, expect_enc s _ _ hl _ R hR]
  exact (pIgn_chunks ts R hR ig 0 N hN).1 h

/-! ### signal groups -/
def memToks (more : List Txt) : List Txt := more.flatMap fun q => [K .Plus, q]

theorem pMembers_enc (ts : List Txt) (R : List Char) (hR : WsHead R) (more : List Txt) (h : more.all vQ = true) :
    ∀ n, more.length < n → pMembers n (enc (memToks more ++ K .Quote :: ts) ++ R) = some (more, enc ts ++ R) := by
  induction more with
  | nil =>
    intro n hn
    cases n with
    | zero => cases hn
    | succ n => simp [memToks, pMembers, next_enc sAfterQ _ _ (Lx_lit sAfterQ .Quote (by decide)) ts R hR]
  | cons q more ih =>
    intro n hn
    simp only [List.all_cons, Bool.and_eq_true] at h
    cases n with
    | zero => cases hn
    | succ n =>
      have ih' := ih h.2 n (by simp only [List.length_cons] at hn; omega)
      simp only [memToks] at ih'
      simp only [memToks, List.flatMap_cons, List.cons_append, List.nil_append, pMembers,
        next_enc sAfterQ _ _ (Lx_lit sAfterQ .Plus (by decide)) _ R hR,
        expect_enc sQuoted _ _ (Lx_quoted sQuoted q h.1 (by decide)) _ R hR, ih', Option.map_some]

def gsToks (gs : List Group) : List Txt := gs.flatMap Group.toks ++ [K .Rbrace]
def gsHead : List Group → Tok Tm
  | [] => .tok (.lit .Rbrace) (K .Rbrace)
  | g :: _ => .tok .quoted g.name
def gsTail (gs : List Group) : List Txt := (gsToks gs).drop 1

def groupRest (g : Group) : List Txt :=
  K .Equal :: K .Quote :: g.first :: (memToks g.more ++
    (K .Quote :: (ignOptToks g.ign ++ semiToks g.semi)))

theorem gsTail_cons (g : Group) (gs : List Group) (ts : List Txt) :
    gsTail (g :: gs) ++ ts = groupRest g ++ (gsToks gs ++ ts) := by
  simp [gsTail, gsToks, Group.toks, groupRest, memToks]

theorem next_gsHead (s : List Tm) (hs : s = sItem ∨ s = sAfterSgQuote ∨ s = sAfterIgn) (gs : List Group)
    (h : gs.all Group.valid = true) (ts : List Txt) (R : List Char) (hR : WsHead R) :
    next L s (enc (gsToks gs ++ ts) ++ R) = some (gsHead gs, enc (gsTail gs ++ ts) ++ R) := by
  cases gs with
  | nil =>
    have : Lx s (.lit .Rbrace) (K .Rbrace) := by rcases hs with rfl | rfl | rfl <;> exact Lx_lit _ _ (by decide)
    simpa [gsToks, gsHead, gsTail] using next_enc s _ _ this ts R hR
  | cons g gs =>
    simp only [List.all_cons, Bool.and_eq_true, Group.valid] at h
    have hq : vQ g.name = true := h.1.1.1.1
    have : Lx s .quoted g.name := by rcases hs with rfl | rfl | rfl <;> exact Lx_quoted _ _ hq (by decide)
    have e : gsToks (g :: gs) ++ ts = g.name :: (gsTail (g :: gs) ++ ts) := by
      simp [gsToks, gsTail, Group.toks]
    rw [e]
    exact next_enc s _ _ this _ R hR

theorem gsHead_cases (gs : List Group) : (∃ q, gsHead gs = .tok .quoted q) ∨ gsHead gs = .tok (.lit .Rbrace) (K .Rbrace) := by
  cases gs with
  | nil => exact Or.inr rfl
  | cons g gs => exact Or.inl ⟨g.name, rfl⟩

theorem pGroups_enc (N : Nat) (ts : List Txt) (R : List Char) (hR : WsHead R) (gs : List Group)
    (h : gs.all Group.valid = true) (hfit : ∀ g ∈ gs, g.more.length < N ∧ (g.ign.getD []).length < N) (hN : 0 < N) :
    ∀ n, gs.length < n → pGroups N n (gsHead gs) (enc (gsTail gs ++ ts) ++ R) = some (gs, enc ts ++ R) := by
  induction gs with
  | nil =>
    intro n hn
    cases n with
    | zero => cases hn
    | succ n => simp [pGroups, gsHead, gsTail, gsToks]
  | cons g gs ih =>
    intro n hn
    have hall := h
    simp only [List.all_cons, Bool.and_eq_true] at h
    cases n with
    | zero => cases hn
    | succ n =>
      have ih' := ih h.2 (fun x hx => hfit x (by simp [hx])) n (by simp only [List.length_cons] at hn; omega)
      obtain ⟨name, first, more, ign, semi⟩ := g
      have hv := h.1
      simp only [Group.valid, Bool.and_eq_true] at hv
      obtain ⟨⟨⟨hname, hfirst⟩, hmore⟩, hign⟩ := hv
      have hs := pSeq_enc [(sAfterQ, .lit .Equal), (sQuoteCh, .lit .Quote), (sQuoted, .quoted)] [K .Equal, K .Quote, first]
        ⟨Lx_lit sAfterQ .Equal (by decide), Lx_lit sQuoteCh .Quote (by decide), Lx_quoted sQuoted first hfirst (by decide), trivial⟩
      have hm := pMembers_enc
      have hfitg := hfit ⟨name, first, more, ign, semi⟩ (by simp)
      simp only at hfitg
      obtain ⟨N', rfl⟩ : ∃ N', N = N' + 1 := ⟨N - 1, by omega⟩
      have hhead := fun s hs' => next_gsHead s hs' gs h.2 ts R hR
      have hsemi1 := next_enc sAfterSgQuote _ _ (Lx_lit sAfterSgQuote .Semi (by decide))
      have hsemi2 := next_enc sAfterIgn _ _ (Lx_lit sAfterIgn .Semi (by decide))
      have hlb := next_enc sAfterSgQuote _ _ (Lx_lbrace sAfterSgQuote (by simp))
      rw [gsTail_cons]
      simp only [gsHead, groupRest, List.cons_append, List.append_assoc, pGroups]
      have hs' := hs (memToks more ++ (K .Quote :: (ignOptToks ign ++ (semiToks semi ++ (gsToks gs ++ ts))))) R hR
      simp only [List.cons_append, List.nil_append] at hs'
      rw [hs']
      simp only
      rw [hm _ R hR more hmore (N' + 1) hfitg.1]
      simp only
      rcases gsHead_cases gs with ⟨q, hq⟩ | hq
      all_goals
        cases ign with
        | none =>
          cases semi with
          | true => simp only [ignOptToks, semiToks, List.nil_append, ↓reduceIte, List.cons_append, hsemi1 _ R hR, hhead sItem (Or.inl rfl), ih', Option.map_some]
          | false =>
            simp only [ignOptToks, semiToks, List.nil_append, Bool.false_eq_true, ↓reduceIte, hhead sAfterSgQuote (Or.inr (Or.inl rfl)), hq, ih', Option.map_some]
            first | rfl | (rw [hq] at ih'; simp only [ih', Option.map_some])
        | some ig =>
          have hig : ignOK 0 true ig = true := hign
          have hI := fun T => (pIgn_chunks T R hR ig 0 (N' + 1) hfitg.2).1 hig
          cases semi with
          | true =>
            simp only [ignOptToks, semiToks, ignToks, List.cons_append, List.append_assoc, List.nil_append, ↓reduceIte, hlb _ R hR,
              hI, hsemi2 _ R hR, hhead sItem (Or.inl rfl), ih', Option.map_some]
          | false =>
            simp only [ignOptToks, semiToks, ignToks, List.cons_append, List.append_assoc, List.nil_append, Bool.false_eq_true,
              ↓reduceIte, hlb _ R hR, hI, hhead sAfterIgn (Or.inr (Or.inr rfl)), hq]
            first | rfl | (rw [hq] at ih'; simp only [ih', Option.map_some])

/-! ### scan chains -/
theorem pCells_enc (ts : List Txt) (R : List Char) (hR : WsHead R) (cs : List Cell) (h : cs.all Cell.valid = true) :
    ∀ n aq, cs.length < n → pCells n aq (enc (cs.flatMap Cell.toks ++ K .Semi :: ts) ++ R) = some (cs, enc ts ++ R) := by
  have hsemi : ∀ aq : Bool, Lx (if aq then sAfterQ else sCells) (.lit .Semi) (K .Semi) := by
    intro aq; cases aq <;> exact Lx_lit _ _ (by decide)
  have hbang : ∀ aq : Bool, Lx (if aq then sAfterQ else sCells) (.lit .Bang) (K .Bang) := by
    intro aq; cases aq <;> exact Lx_lit _ _ (by decide)
  have hq : ∀ (aq : Bool) q, vQ q = true → Lx (if aq then sAfterQ else sCells) .quoted q := by
    intro aq q hv; cases aq <;> exact Lx_quoted _ _ hv (by decide)
  induction cs with
  | nil =>
    intro n aq hn
    cases n with
    | zero => cases hn
    | succ n => simp [pCells, next_enc _ _ _ (hsemi aq) ts R hR]
  | cons c cs ih =>
    intro n aq hn
    simp only [List.all_cons, Bool.and_eq_true] at h
    cases n with
    | zero => cases hn
    | succ n =>
      have ih' := fun aq => ih h.2 n aq (by simp only [List.length_cons] at hn; omega)
      cases c with
      | cell q =>
        simp only [List.flatMap_cons, Cell.toks, List.cons_append, List.nil_append, pCells,
          next_enc _ _ _ (hq aq q h.1) _ R hR, ih', Option.map_some]
      | bang =>
        simp only [List.flatMap_cons, Cell.toks, List.cons_append, List.nil_append, pCells,
          next_enc _ _ _ (hbang aq) _ R hR, ih', Option.map_some]

theorem Lx_chainitem (k : Kw)
    (hk : k ∈ [Kw.Scanmasterclock, .Scaninversion, .Scanlength, .Scancells, .Scanout, .Scanin, .Rbrace]) :
    Lx sChainItem (.lit k) k.chars := by
  simp only [List.mem_cons, List.not_mem_nil, or_false] at hk
  rcases hk with rfl | rfl | rfl | rfl | rfl | rfl | rfl <;> exact Lx_lit _ _ (by decide)

theorem num_enc (n : Txt) (h : vDigits n = true) (ts : List Txt) (R : List Char) (hR : WsHead R) :
    pSeq [(sDigits, .digits), (sSemi, .lit .Semi)] (enc (n :: K .Semi :: ts) ++ R) = some ([n, K .Semi], enc ts ++ R) := by
  have := pSeq_enc [(sDigits, .digits), (sSemi, .lit .Semi)] [n, K .Semi]
    ⟨Lx_digits n h, Lx_lit sSemi .Semi (by decide), trivial⟩ ts R hR
  simpa using this

theorem name_enc (q : Txt) (h : vQ q = true) (ts : List Txt) (R : List Char) (hR : WsHead R) :
    pSeq [(sQuoted, .quoted), (sAfterQ, .lit .Semi)] (enc (q :: K .Semi :: ts) ++ R) = some ([q, K .Semi], enc ts ++ R) := by
  have := pSeq_enc [(sQuoted, .quoted), (sAfterQ, .lit .Semi)] [q, K .Semi]
    ⟨Lx_quoted sQuoted q h (by decide), Lx_lit sAfterQ .Semi (by decide), trivial⟩ ts R hR
  simpa using this

theorem pChainItems_enc (N : Nat) (ts : List Txt) (R : List Char) (hR : WsHead R) (its : List ChainItem)
    (h : its.all ChainItem.valid = true) (hfit : ∀ it ∈ its, match it with | .cells cs => cs.length < N | _ => True) :
    ∀ n, its.length < n →
      pChainItems N n (enc (its.flatMap ChainItem.toks ++ K .Rbrace :: ts) ++ R) = some (its, enc ts ++ R) := by
  induction its with
  | nil =>
    intro n hn
    cases n with
    | zero => cases hn
    | succ n => simp [pChainItems, next_enc _ _ _ (Lx_chainitem .Rbrace (by simp)) ts R hR]
  | cons it its ih =>
    intro n hn
    simp only [List.all_cons, Bool.and_eq_true] at h
    cases n with
    | zero => cases hn
    | succ n =>
      have ih' := ih h.2 (fun x hx => hfit x (by simp [hx])) n (by simp only [List.length_cons] at hn; omega)
      have hf := hfit it (by simp)
      cases it with
      | length x =>
        have hv : vDigits x = true := h.1
        simp only [List.flatMap_cons, ChainItem.toks, List.cons_append, List.nil_append, pChainItems,
          next_enc _ _ _ (Lx_chainitem .Scanlength (by simp)) _ R hR, num_enc x hv _ R hR, ih', Option.map_some]
      | inv x =>
        have hv : vDigits x = true := h.1
        simp only [List.flatMap_cons, ChainItem.toks, List.cons_append, List.nil_append, pChainItems,
          next_enc _ _ _ (Lx_chainitem .Scaninversion (by simp)) _ R hR, num_enc x hv _ R hR, ih', Option.map_some]
      | scanIn q =>
        have hv : vQ q = true := h.1
        simp only [List.flatMap_cons, ChainItem.toks, List.cons_append, List.nil_append, pChainItems,
          next_enc _ _ _ (Lx_chainitem .Scanin (by simp)) _ R hR, name_enc q hv _ R hR, ih', Option.map_some]
      | scanOut q =>
        have hv : vQ q = true := h.1
        simp only [List.flatMap_cons, ChainItem.toks, List.cons_append, List.nil_append, pChainItems,
          next_enc _ _ _ (Lx_chainitem .Scanout (by simp)) _ R hR, name_enc q hv _ R hR, ih', Option.map_some]
      | clock q =>
        have hv : vQ q = true := h.1
        simp only [List.flatMap_cons, ChainItem.toks, List.cons_append, List.nil_append, pChainItems,
          next_enc _ _ _ (Lx_chainitem .Scanmasterclock (by simp)) _ R hR, name_enc q hv _ R hR, ih', Option.map_some]
      | cells cs =>
        have hv : cs.all Cell.valid = true := h.1
        have hc := pCells_enc (its.flatMap ChainItem.toks ++ K .Rbrace :: ts) R hR cs hv N false hf
        simp only [List.flatMap_cons, ChainItem.toks, List.cons_append, List.append_assoc, List.nil_append, pChainItems,
          next_enc _ _ _ (Lx_chainitem .Scancells (by simp)) _ R hR, hc, ih', Option.map_some]

def Chain.fit (N : Nat) (c : Chain) : Prop :=
  c.items.length < N ∧ ∀ it ∈ c.items, match it with | .cells cs => cs.length < N | _ => True

theorem pChains_enc (N : Nat) (ts : List Txt) (R : List Char) (hR : WsHead R) (cs : List Chain)
    (h : cs.all Chain.valid = true) (hfit : ∀ c ∈ cs, c.fit N) :
    ∀ n, cs.length < n → pChains N n (enc (cs.flatMap Chain.toks ++ K .Rbrace :: ts) ++ R) = some (cs, enc ts ++ R) := by
  induction cs with
  | nil =>
    intro n hn
    cases n with
    | zero => cases hn
    | succ n => simp [pChains, next_enc _ _ _ (Lx_lit sChain .Rbrace (by decide)) ts R hR]
  | cons c cs ih =>
    intro n hn
    simp only [List.all_cons, Bool.and_eq_true] at h
    cases n with
    | zero => cases hn
    | succ n =>
      have ih' := ih h.2 (fun x hx => hfit x (by simp [hx])) n (by simp only [List.length_cons] at hn; omega)
      obtain ⟨name, items⟩ := c
      have hv := h.1
      simp only [Chain.valid, Bool.and_eq_true] at hv
      have hf := hfit ⟨name, items⟩ (by simp)
      have hs := pSeq_enc [(sQuoted, .quoted), (sAfterQ, .lit .Lbrace)] [name, K .Lbrace]
        ⟨Lx_quoted sQuoted name hv.1 (by decide), Lx_lbrace sAfterQ (by simp), trivial⟩
        (items.flatMap ChainItem.toks ++ K .Rbrace :: (cs.flatMap Chain.toks ++ K .Rbrace :: ts)) R hR
      simp only [List.cons_append, List.nil_append] at hs
      have hI := pChainItems_enc N (cs.flatMap Chain.toks ++ K .Rbrace :: ts) R hR items hv.2 hf.2 N hf.1
      simp only [List.flatMap_cons, Chain.toks, List.cons_append, List.append_assoc, List.nil_append, pChains,
        next_enc _ _ _ (Lx_lit sChain .Scanchain (by decide)) _ R hR, hs, hI, ih', Option.map_some]

/-! ### patterns -/
theorem pParams_enc (ts : List Txt) (R : List Char) (hR : WsHead R) (ps : List (Txt × Txt))
    (h : ps.all (fun p => vQ p.1 && vValue p.2) = true) :
    ∀ n, ps.length < n → pParams n (enc (ps.flatMap paramToks ++ K .Rbrace :: ts) ++ R) = some (ps, enc ts ++ R) := by
  induction ps with
  | nil =>
    intro n hn
    cases n with
    | zero => cases hn
    | succ n => simp [pParams, next_enc _ _ _ (Lx_lit sItem .Rbrace (by decide)) ts R hR]
  | cons p ps ih =>
    intro n hn
    simp only [List.all_cons, Bool.and_eq_true] at h
    cases n with
    | zero => cases hn
    | succ n =>
      have ih' := ih h.2 n (by simp only [List.length_cons] at hn; omega)
      obtain ⟨k, v⟩ := p
      have hval : ∀ X, enc ((v ++ [';']) :: X) ++ R = ' ' :: (v ++ ';' :: (enc X ++ R)) := by
        intro X; simp [enc]
      simp only [List.flatMap_cons, paramToks, List.cons_append, List.nil_append, pParams,
        next_enc _ _ _ (Lx_quoted sItem k h.1.1 (by decide)) _ R hR, pSeq,
        expect_enc _ _ _ (Lx_lit sAfterQ .Equal (by decide)) _ R hR]
      simp only [expect, hval, next_value v h.1.2, next_semi_direct, ↓reduceIte, ih', Option.map_some]

theorem Lx_patitem_lit (st : List Tm) (hst : st = sPatItem ∨ st = sAfterIgn) (k : Kw)
    (hk : k ∈ [Kw.Macro, .Call, .Ann, .C, .Rbrace, .W]) : Lx st (.lit k) k.chars := by
  simp only [List.mem_cons, List.not_mem_nil, or_false] at hk
  rcases hst with rfl | rfl <;> rcases hk with rfl | rfl | rfl | rfl | rfl | rfl <;> exact Lx_lit _ _ (by decide)

theorem Lx_patitem_q (st : List Tm) (hst : st = sPatItem ∨ st = sAfterIgn) (q : Txt) (h : vQ q = true) : Lx st .quoted q := by
  rcases hst with rfl | rfl <;> exact Lx_quoted _ _ h (by decide)

def PatItem.fit (N : Nat) : PatItem → Prop
  | .call _ ps => ps.length < N
  | .c ig => ig.length < N
  | .ann ig => ig.length < N
  | _ => True

theorem pPatItems_enc (N : Nat) (ts : List Txt) (R : List Char) (hR : WsHead R) (its : List PatItem)
    (h : its.all PatItem.valid = true) (hfit : ∀ it ∈ its, it.fit (N + 1)) :
    ∀ n st, (st = sPatItem ∨ st = sAfterIgn) → its.length < n →
      pPatItems (N + 1) n st (enc (its.flatMap PatItem.toks ++ K .Rbrace :: ts) ++ R) = some (its, enc ts ++ R) := by
  induction its with
  | nil =>
    intro n st hst hn
    cases n with
    | zero => cases hn
    | succ n => simp [pPatItems, next_enc _ _ _ (Lx_patitem_lit st hst .Rbrace (by simp)) ts R hR]
  | cons it its ih =>
    intro n st hst hn
    simp only [List.all_cons, Bool.and_eq_true] at h
    cases n with
    | zero => cases hn
    | succ n =>
      have ih1 := ih h.2 (fun x hx => hfit x (by simp [hx])) n sPatItem (Or.inl rfl) (by simp only [List.length_cons] at hn; omega)
      have ih2 := ih h.2 (fun x hx => hfit x (by simp [hx])) n sAfterIgn (Or.inr rfl) (by simp only [List.length_cons] at hn; omega)
      have hf := hfit it (by simp)
      cases it with
      | label q =>
        have hv : vQ q = true := h.1
        simp only [List.flatMap_cons, PatItem.toks, List.cons_append, List.nil_append, pPatItems,
          next_enc _ _ _ (Lx_patitem_q st hst q hv) _ R hR, expect_enc _ _ _ (Lx_lit sAfterQ .Colon (by decide)) _ R hR, ih1,
          Option.map_some]
      | w q =>
        have hv : vQ q = true := h.1
        simp only [List.flatMap_cons, PatItem.toks, List.cons_append, List.nil_append, pPatItems,
          next_enc _ _ _ (Lx_patitem_lit st hst .W (by simp)) _ R hR, name_enc q hv _ R hR, ih1, Option.map_some]
      | macro_ q =>
        have hv : vQ q = true := h.1
        simp only [List.flatMap_cons, PatItem.toks, List.cons_append, List.nil_append, pPatItems,
          next_enc _ _ _ (Lx_patitem_lit st hst .Macro (by simp)) _ R hR, name_enc q hv _ R hR, ih1, Option.map_some]
      | c ig =>
        have hv : vIgn ig = true := h.1
        simp only [List.flatMap_cons, PatItem.toks, List.cons_append, List.append_assoc, pPatItems,
          next_enc _ _ _ (Lx_patitem_lit st hst .C (by simp)) _ R hR, pBraceIgn_enc (N + 1) sLbrace (Or.inl rfl) ig hv hf _ R hR, ih2,
          Option.map_some]
      | ann ig =>
        have hv : vIgn ig = true := h.1
        simp only [List.flatMap_cons, PatItem.toks, List.cons_append, List.append_assoc, pPatItems,
          next_enc _ _ _ (Lx_patitem_lit st hst .Ann (by simp)) _ R hR, pBraceIgn_enc (N + 1) sLbrace (Or.inl rfl) ig hv hf _ R hR, ih2,
          Option.map_some]
      | call name ps =>
        have hv : (vQ name && ps.all fun p => vQ p.1 && vValue p.2) = true := h.1
        simp only [Bool.and_eq_true] at hv
        have hs := pSeq_enc [(sQuoted, .quoted), (sAfterQ, .lit .Lbrace)] [name, K .Lbrace]
          ⟨Lx_quoted sQuoted name hv.1 (by decide), Lx_lbrace sAfterQ (by simp), trivial⟩
          (ps.flatMap paramToks ++ K .Rbrace :: (its.flatMap PatItem.toks ++ K .Rbrace :: ts)) R hR
        simp only [List.cons_append, List.nil_append] at hs
        have hP := pParams_enc (its.flatMap PatItem.toks ++ K .Rbrace :: ts) R hR ps hv.2 (N + 1) hf
        simp only [List.flatMap_cons, PatItem.toks, List.cons_append, List.append_assoc, List.nil_append, pPatItems,
          next_enc _ _ _ (Lx_patitem_lit st hst .Call (by simp)) _ R hR, hs, hP, ih1, Option.map_some]

end KV.StilText
