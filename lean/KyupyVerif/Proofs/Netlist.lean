import KyupyVerif.Model.Netlist
/-! Helper lemmas for C11 (part 1): ranges, constants, `sigsel`/`concat`, the `sig_decls` dictionary, positions. -/
namespace KV.Netlist

/-! ## ranges -/
theorem rangeList_asc {l r : Nat} (h : l ≤ r) : rangeList l r = (List.range (r - l + 1)).map (l + ·) := by
  simp [rangeList, h]

theorem rangeList_desc {l r : Nat} (h : r < l) : rangeList l r = (List.range (l - r + 1)).map (l - ·) := by
  have : ¬ l ≤ r := by omega
  simp [rangeList, this]

theorem rangeList_length_asc {l r : Nat} (h : l ≤ r) : (rangeList l r).length = r - l + 1 := by
  simp [rangeList_asc h]

theorem rangeList_length_desc {l r : Nat} (h : r < l) : (rangeList l r).length = l - r + 1 := by
  simp [rangeList_desc h]

theorem rangeList_get_asc {l r i : Nat} (h : l ≤ r) (hi : i ≤ r - l) : (rangeList l r)[i]? = some (l + i) := by
  rw [rangeList_asc h, List.getElem?_map, List.getElem?_range (by omega)]; rfl

theorem rangeList_get_desc {l r i : Nat} (h : r < l) (hi : i ≤ l - r) : (rangeList l r)[i]? = some (l - i) := by
  rw [rangeList_desc h, List.getElem?_map, List.getElem?_range (by omega)]; rfl

/-! ## sized constants -/
theorem collapse_toList (l : List String) : (collapse l).toList = l := by
  unfold collapse
  split <;> rfl

theorem constLoop_eq (n k : Nat) (acc : List String) :
    constLoop n k acc = (List.range n).map (fun i => bitStr (k.testBit (n - 1 - i))) ++ acc := by
  induction n generalizing k acc with
  | zero => simp [constLoop]
  | succ n ih =>
    rw [constLoop, ih, List.range_succ, List.map_append]
    simp only [List.map_cons, List.map_nil, List.append_assoc, List.cons_append, List.nil_append]
    congr 1
    · apply List.map_congr_left
      intro i hi
      have hi' : i < n := List.mem_range.mp hi
      have : n + 1 - 1 - i = (n - 1 - i) + 1 := by omega
      rw [this, Nat.testBit_succ]
    · have : n + 1 - 1 - n = 0 := by omega
      rw [this, Nat.testBit_zero]
      by_cases h : k % 2 = 1
      · simp [h]
      · have : (k % 2 == 1) = false := by simp [h]
        simp [h, this]

/-! ## `concat` -/
theorem concatL_eq (items : List Sel) : concatL items = items.flatMap fun a => (sigsel a).toList := by
  induction items with
  | nil => simp [concatL]
  | cons a r ih => simp [concatL, ih]

/-! ## the `sig_decls` dictionary -/

/-- what one `sig_decls` slot holds after seeing one more declaration of its name -/
def regStep (cur : Option Decl) (d : Decl) : Option Decl :=
  match cur with
  | none => some d
  | some e => if e.kind == .wire then some d else some e

theorem find?_map_replace (ds : List Decl) (d : Decl) (n : String) :
    (ds.map fun x => if x.base == d.base then d else x).find? (·.base == n)
      = if n = d.base then (ds.find? (·.base == n)).map (fun _ => d) else ds.find? (·.base == n) := by
  induction ds with
  | nil => simp
  | cons x xs ih =>
    simp only [List.map_cons, List.find?_cons]
    by_cases hx : x.base = d.base
    · simp only [hx, beq_self_eq_true, if_true]
      by_cases hn : n = d.base
      · subst hn; simp
      · have : (d.base == n) = false := by simp; exact fun h => hn h.symm
        simp only [this, hn, if_false]
        rw [ih]; simp [hn]
    · have hx' : (x.base == d.base) = false := by simp [hx]
      simp only [hx', Bool.false_eq_true, if_false]
      by_cases hxn : x.base = n
      · subst hxn
        simp only [beq_self_eq_true]
        simp [hx]
      · have : (x.base == n) = false := by simp [hxn]
        simp only [this]
        rw [ih]

theorem lookup_declPut (ds : List Decl) (d : Decl) (n : String) :
    lookup (declPut ds d) n = if n = d.base then regStep (lookup ds n) d else lookup ds n := by
  unfold declPut
  cases hl : lookup ds d.base with
  | none =>
    simp only [lookup, List.find?_append, List.find?_cons, List.find?_nil]
    by_cases hn : n = d.base
    · subst hn
      have : List.find? (fun x => x.base == d.base) ds = none := hl
      simp [this, regStep]
    · have : (d.base == n) = false := by simp; exact fun h => hn h.symm
      simp [this, hn]
  | some e =>
    by_cases hw : e.kind = .wire
    · simp only [hw, beq_self_eq_true, if_true]
      unfold lookup
      rw [find?_map_replace]
      by_cases hn : n = d.base
      · subst hn
        have : List.find? (fun x => x.base == d.base) ds = some e := hl
        simp [this, regStep, hw]
      · simp [hn]
    · have : (e.kind == DKind.wire) = false := by simp [hw]
      simp only [this, Bool.false_eq_true, if_false]
      by_cases hn : n = d.base
      · subst hn
        rw [hl]; simp [regStep, this]
      · simp [hn]

theorem lookup_foldl_declPut (L : List Decl) (ds : List Decl) (n : String) :
    lookup (L.foldl declPut ds) n = (L.filter (·.base == n)).foldl regStep (lookup ds n) := by
  induction L generalizing ds with
  | nil => simp
  | cons d L ih =>
    simp only [List.foldl_cons, List.filter_cons]
    rw [ih, lookup_declPut]
    by_cases hn : n = d.base
    · subst hn; simp
    · have : (d.base == n) = false := by simp; exact fun h => hn h.symm
      simp [this, hn]

/-- once a non-wire declaration is registered the slot never changes -/
theorem foldl_regStep_nonwire (L : List Decl) (e : Decl) (h : e.kind ≠ .wire) :
    L.foldl regStep (some e) = some e := by
  induction L with
  | nil => rfl
  | cons d L ih =>
    have : (e.kind == DKind.wire) = false := by simp [h]
    simp [regStep, this, ih]

/-- as long as only wire declarations were seen, the slot holds the last one -/
theorem foldl_regStep_wires (L : List Decl) (cur : Option Decl) (hc : ∀ e, cur = some e → e.kind = .wire)
    (h : ∀ d ∈ L, d.kind = .wire) : L.foldl regStep cur = (L.getLast?).or cur := by
  induction L generalizing cur with
  | nil => simp
  | cons d L ih =>
    simp only [List.foldl_cons]
    have hstep : regStep cur d = some d := by
      cases cur with
      | none => rfl
      | some e => simp [regStep, hc e rfl]
    rw [hstep, ih]
    · rw [List.getLast?_cons]
      cases L.getLast? <;> simp
    · intro e he; cases he; exact h d List.mem_cons_self
    · intro x hx; exact h x (List.mem_cons_of_mem _ hx)

/-! ## positions -/
theorem lastIdxAux_not_mem (n : String) (xs : List String) (i : Nat) (best : Option Nat) (h : n ∉ xs) :
    lastIdxAux n xs i best = best := by
  induction xs generalizing i best with
  | nil => rfl
  | cons x xs ih =>
    have hx : (x == n) = false := by
      simp; intro hxn; exact h (by simp [hxn])
    simp only [lastIdxAux, hx]
    exact ih _ _ (fun hm => h (List.mem_cons_of_mem _ hm))

theorem lastIdxAux_split (n : String) (pre post : List String) (i : Nat) (best : Option Nat) (h : n ∉ post) :
    lastIdxAux n (pre ++ n :: post) i best = some (i + pre.length) := by
  induction pre generalizing i best with
  | nil => simp [lastIdxAux, lastIdxAux_not_mem n post _ _ h]
  | cons x xs ih =>
    simp only [List.cons_append, lastIdxAux, List.length_cons]
    rw [ih]; congr 1; omega

/-- any position returned is a position of the name -/
theorem lastIdxAux_sound (n : String) (xs : List String) (i : Nat) (best : Option Nat) (k : Nat)
    (h : lastIdxAux n xs i best = some k) : best = some k ∨ (i ≤ k ∧ xs[k - i]? = some n) := by
  induction xs generalizing i best with
  | nil => left; exact h
  | cons x xs ih =>
    simp only [lastIdxAux] at h
    rcases ih _ _ h with hb | ⟨hle, hget⟩
    · by_cases hx : x = n
      · subst hx
        simp at hb
        right; subst hb; simp
      · have : (x == n) = false := by simp [hx]
        simp [this] at hb
        left; exact hb
    · right
      refine ⟨by omega, ?_⟩
      have : k - i = (k - (i + 1)) + 1 := by omega
      rw [this, List.getElem?_cons_succ]; exact hget

theorem posOf_sound (pn : List String) (n : String) (k : Nat) (h : posOf pn n = some k) : pn[k]? = some n := by
  rcases lastIdxAux_sound n pn 0 none k h with hb | ⟨_, hget⟩
  · cases hb
  · simpa using hget

theorem posOf_nodup (pn : List String) (hnd : pn.Nodup) (i : Nat) (n : String) (h : pn[i]? = some n) :
    posOf pn n = some i := by
  obtain ⟨hi, hget⟩ := List.getElem?_eq_some_iff.mp h
  have hsplit : pn = pn.take i ++ n :: pn.drop (i + 1) := by
    rw [← hget]; exact (List.take_append_drop i pn).symm.trans (by rw [List.drop_eq_getElem_cons hi])
  have hnot : n ∉ pn.drop (i + 1) := by
    rw [hsplit] at hnd
    have := (List.nodup_append.mp hnd).2.1
    exact (List.nodup_cons.mp this).1
  unfold posOf
  rw [hsplit, lastIdxAux_split n _ _ 0 none hnot]
  simp [List.length_take, Nat.min_eq_left (Nat.le_of_lt hi)]

end KV.Netlist
