import KyupyVerif.Model.BAlg
import KyupyVerif.Model.Comp
/-! Boolean checkers that compare a generated primitive (as dispatched by the real code) with its
documented composition on **all** operand tuples, and their soundness lemmas. -/
namespace KV

abbrev GOp8 := P3 Bool → P3 Bool → P3 Bool → P3 Bool → P3 Bool
abbrev GOp4 := P2 Bool → P2 Bool → P2 Bool → P2 Bool → P2 Bool
abbrev GOp2 := Bool → Bool → Bool → Bool → Bool

def agree8 (g : GOp8) (f : Op8) : Bool :=
  V3.all.all fun a => V3.all.all fun b => V3.all.all fun c => V3.all.all fun d =>
    (g (.ofV3 a) (.ofV3 b) (.ofV3 c) (.ofV3 d)).toV3 == f a b c d

theorem agree8_sound {g : GOp8} {f : Op8} (h : agree8 g f = true) (a b c d : V3) :
    (g (.ofV3 a) (.ofV3 b) (.ofV3 c) (.ofV3 d)).toV3 = f a b c d := by
  simp only [agree8, List.all_eq_true] at h
  simpa using h a (V3.all_complete a) b (V3.all_complete b) c (V3.all_complete c) d (V3.all_complete d)

def agree4 (g : GOp4) (f : Op4) : Bool :=
  V2.all.all fun a => V2.all.all fun b => V2.all.all fun c => V2.all.all fun d =>
    (g (.ofV2 a) (.ofV2 b) (.ofV2 c) (.ofV2 d)).toV2 == f a b c d

theorem agree4_sound {g : GOp4} {f : Op4} (h : agree4 g f = true) (a b c d : V2) :
    (g (.ofV2 a) (.ofV2 b) (.ofV2 c) (.ofV2 d)).toV2 = f a b c d := by
  simp only [agree4, List.all_eq_true] at h
  simpa using h a (V2.all_complete a) b (V2.all_complete b) c (V2.all_complete c) d (V2.all_complete d)

/-- table entry (name, LUT code, generated function) agrees with `comp8 name` -/
def chk8 (e : String × Nat × GOp8) : Bool :=
  match comp8 e.1 with
  | none => false
  | some f => agree8 e.2.2 f

def chk4 (e : String × Nat × GOp4) : Bool :=
  match comp4 e.1 with
  | none => false
  | some f => agree4 e.2.2 f

/-- 2-valued: generated function equals the LUT bit of its code and the documented formula -/
def chk2 (e : String × Nat × GOp2) : Bool :=
  bools.all fun a => bools.all fun b => bools.all fun c => bools.all fun d =>
    e.2.2 a b c d == lutBit4 e.2.1 a b c d && formula e.1 a b c d == some (e.2.2 a b c d)

theorem bools_complete (b : Bool) : b ∈ bools := by cases b <;> decide

theorem chk2_sound {e : String × Nat × GOp2} (h : chk2 e = true) (a b c d : Bool) :
    e.2.2 a b c d = lutBit4 e.2.1 a b c d ∧ formula e.1 a b c d = some (e.2.2 a b c d) := by
  simp only [chk2, List.all_eq_true, Bool.and_eq_true, beq_iff_eq] at h
  exact h a (bools_complete a) b (bools_complete b) c (bools_complete c) d (bools_complete d)

end KV
