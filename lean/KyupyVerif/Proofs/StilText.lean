import KyupyVerif.Proofs.StilTextRead
/-! Round trip of the STIL text model: `parseStilL (printStilL f) = some f` for every valid tree `f`. -/
namespace KV.StilText
open KV.TextLex

theorem Lx_block (st : List Tm) (hst : st = sBlock ∨ st = sAfterIgn) (k : Kw)
    (hk : k ∈ [Kw.Scanstructures, .Patternburst, .Signalgroups, .Userkeywords, .Patternexec, .Procedures, .Macrodefs, .Pattern,
      .Signals, .Header, .Timing]) : Lx st (.lit k) k.chars := by
  simp only [List.mem_cons, List.not_mem_nil, or_false] at hk
  rcases hst with rfl | rfl <;> rcases hk with rfl | rfl | rfl | rfl | rfl | rfl | rfl | rfl | rfl | rfl | rfl <;>
    exact Lx_lit _ _ (by decide)

theorem next_end (st : List Tm) (hst : st = sBlock ∨ st = sAfterIgn) : next L st ['\n'] = some (.eof, []) := by
  rcases hst with rfl | rfl
  · rw [next_ign L _ ['\n'] .ign [] [] (by simp [sBlock, first, L, Tm.run, ignM, skipIgn]) rfl (by simp)]; rfl
  · rw [next_ign L _ ['\n'] .ign [] [] (by simp [sAfterIgn, first, L, Tm.run, ignM, skipIgn]) rfl (by simp)]; rfl

def Block.fit (N : Nat) : Block → Prop
  | .skip _ ig => ig.length < N
  | .burst _ ig => ig.length < N
  | .groups gs => gs.length < N ∧ ∀ g ∈ gs, g.more.length < N ∧ (g.ign.getD []).length < N
  | .chains cs => cs.length < N ∧ ∀ c ∈ cs, c.fit N
  | .pattern _ its => its.length < N ∧ ∀ it ∈ its, it.fit N
  | _ => True

theorem pBlocks_enc (N : Nat) (bs : List Block) (h : bs.all Block.valid = true) (hfit : ∀ b ∈ bs, b.fit (N + 1)) :
    ∀ n st, (st = sBlock ∨ st = sAfterIgn) → bs.length < n →
      pBlocks (N + 1) n st (enc (bs.flatMap Block.toks) ++ ['\n']) = some (bs, []) := by
  have hR := wsHead_nl
  induction bs with
  | nil =>
    intro n st hst hn
    cases n with
    | zero => cases hn
    | succ n => simp [pBlocks, enc, next_end st hst]
  | cons b bs ih =>
    intro n st hst hn
    simp only [List.all_cons, Bool.and_eq_true] at h
    cases n with
    | zero => cases hn
    | succ n =>
      have ih1 := ih h.2 (fun x hx => hfit x (by simp [hx])) n sBlock (Or.inl rfl) (by simp only [List.length_cons] at hn; omega)
      have ih2 := ih h.2 (fun x hx => hfit x (by simp [hx])) n sAfterIgn (Or.inr rfl) (by simp only [List.length_cons] at hn; omega)
      have hf := hfit b (by simp)
      generalize hT : bs.flatMap Block.toks = T at ih1 ih2
      cases b with
      | skip k ig =>
        have hv : (isSkipKw k && vIgn ig) = true := h.1
        simp only [Bool.and_eq_true] at hv
        have hk : k ∈ [Kw.Scanstructures, .Patternburst, .Signalgroups, .Userkeywords, .Patternexec, .Procedures, .Macrodefs,
            .Pattern, .Signals, .Header, .Timing] := by
          have := hv.1
          simp only [isSkipKw, Bool.or_eq_true, decide_eq_true_eq] at this
          rcases this with ((((e | e) | e) | e) | e) | e <;> simp [e]
        simp only [List.flatMap_cons, Block.toks, List.cons_append, List.append_assoc, hT, pBlocks,
          next_enc _ _ _ (Lx_block st hst k hk) _ _ hR, hv.1, ↓reduceIte, pBraceIgn_enc (N + 1) sLbrace (Or.inl rfl) ig hv.2 hf _ _ hR, ih2,
          Option.map_some]
      | burst q ig =>
        have hv : (vQ q && vIgn ig) = true := h.1
        simp only [Bool.and_eq_true] at hv
        have e1 : isSkipKw .Patternburst = false := by decide
        simp only [List.flatMap_cons, Block.toks, List.cons_append, List.append_assoc, hT, pBlocks,
          next_enc _ _ _ (Lx_block st hst .Patternburst (by simp)) _ _ hR, e1, Bool.false_eq_true, ↓reduceIte,
          expect_enc _ _ _ (Lx_quoted sQuoted q hv.1 (by decide)) _ _ hR, pBraceIgn_enc (N + 1) sAfterQ (Or.inr rfl) ig hv.2 hf _ _ hR, ih2,
          Option.map_some]
      | ukw t =>
        have hv : vUkw t = true := h.1
        have e1 : isSkipKw .Userkeywords = false := by decide
        have e2 : (Kw.Userkeywords = Kw.Patternburst) = False := by simp
        simp only [List.flatMap_cons, Block.toks, List.cons_append, List.nil_append, hT, pBlocks,
          next_enc _ _ _ (Lx_block st hst .Userkeywords (by simp)) _ _ hR, e1, e2, Bool.false_eq_true, ↓reduceIte,
          expect_enc _ _ _ (Lx_ukw t hv) _ _ hR, ih1, Option.map_some]
      | groups gs =>
        have hv : gs.all Group.valid = true := h.1
        have e1 : isSkipKw .Signalgroups = false := by decide
        have e2 : (Kw.Signalgroups = Kw.Patternburst) = False := by simp
        have e3 : (Kw.Signalgroups = Kw.Userkeywords) = False := by simp
        have hG := pGroups_enc (N + 1) T ['\n'] hR gs hv hf.2 (by omega) (N + 1) hf.1
        have hH := next_gsHead sItem (Or.inl rfl) gs hv T ['\n'] hR
        have e : enc (gs.flatMap Group.toks ++ K .Rbrace :: T) = enc (gsToks gs ++ T) := by simp [gsToks]
        simp only [List.flatMap_cons, Block.toks, List.cons_append, List.append_assoc, List.nil_append, hT, pBlocks,
          next_enc _ _ _ (Lx_block st hst .Signalgroups (by simp)) _ _ hR, e1, e2, e3, Bool.false_eq_true, ↓reduceIte,
          expect_enc _ _ _ (Lx_lbrace sLbrace (by simp)) _ _ hR, e, hH, hG, ih1, Option.map_some]
      | chains cs =>
        have hv : cs.all Chain.valid = true := h.1
        have e1 : isSkipKw .Scanstructures = false := by decide
        have e2 : (Kw.Scanstructures = Kw.Patternburst) = False := by simp
        have e3 : (Kw.Scanstructures = Kw.Userkeywords) = False := by simp
        have e4 : (Kw.Scanstructures = Kw.Signalgroups) = False := by simp
        have hC := pChains_enc (N + 1) T ['\n'] hR cs hv hf.2 (N + 1) hf.1
        simp only [List.flatMap_cons, Block.toks, List.cons_append, List.append_assoc, List.nil_append, hT, pBlocks,
          next_enc _ _ _ (Lx_block st hst .Scanstructures (by simp)) _ _ hR, e1, e2, e3, e4, Bool.false_eq_true, ↓reduceIte,
          expect_enc _ _ _ (Lx_lbrace sLbrace (by simp)) _ _ hR, hC, ih1, Option.map_some]
      | pattern name its =>
        have hv : (vQ name && its.all PatItem.valid) = true := h.1
        simp only [Bool.and_eq_true] at hv
        have e1 : isSkipKw .Pattern = false := by decide
        have e2 : (Kw.Pattern = Kw.Patternburst) = False := by simp
        have e3 : (Kw.Pattern = Kw.Userkeywords) = False := by simp
        have e4 : (Kw.Pattern = Kw.Signalgroups) = False := by simp
        have e5 : (Kw.Pattern = Kw.Scanstructures) = False := by simp
        have hs := pSeq_enc [(sQuoted, .quoted), (sAfterQ, .lit .Lbrace)] [name, K .Lbrace]
          ⟨Lx_quoted sQuoted name hv.1 (by decide), Lx_lbrace sAfterQ (by simp), trivial⟩
          (its.flatMap PatItem.toks ++ K .Rbrace :: T) ['\n'] hR
        simp only [List.cons_append, List.nil_append] at hs
        have hP := pPatItems_enc N T ['\n'] hR its hv.2 hf.2 (N + 1) sPatItem (Or.inl rfl) hf.1
        simp only [List.flatMap_cons, Block.toks, List.cons_append, List.append_assoc, List.nil_append, hT, pBlocks,
          next_enc _ _ _ (Lx_block st hst .Pattern (by simp)) _ _ hR, e1, e2, e3, e4, e5, Bool.false_eq_true, ↓reduceIte,
          hs, hP, ih1, Option.map_some]

/-! ## fuel: every loop of the reader is shorter than the text -/
theorem enc_len (ts : List Txt) : ts.length ≤ (enc ts).length :=
  length_le_flatMap _ ts (by intro t _; simp)

theorem enc_append (a b : List Txt) : enc (a ++ b) = enc a ++ enc b := by simp [enc]

theorem enc_mem_len {α : Type} (f : α → List Txt) (l : List α) (x : α) (hx : x ∈ l) :
    (enc (f x)).length ≤ (enc (l.flatMap f)).length := by
  induction l with
  | nil => cases hx
  | cons y l ih =>
    simp only [List.flatMap_cons, enc_append, List.length_append]
    rcases List.mem_cons.mp hx with rfl | h
    · omega
    · have := ih h; omega

theorem ignChunks_ne_nil (ig : List IgnTok) : ∃ c cs, ignChunks ig = c :: cs := by
  induction ig with
  | nil => exact ⟨_, _, rfl⟩
  | cons tk r ih =>
    cases tk with
    | opn => exact ⟨_, _, rfl⟩
    | cls => exact ⟨_, _, rfl⟩
    | nob t =>
      obtain ⟨c, cs, h⟩ := ih
      exact ⟨t ++ c, cs, by simp [ignChunks, h]⟩

theorem ign_len (ig : List IgnTok) : ∀ d ok, ignOK d ok ig = true → ig.length + 1 ≤ (enc (ignChunks ig)).length := by
  induction ig with
  | nil => intro d ok _; simp [ignChunks, enc]
  | cons tk r ih =>
    intro d ok h
    cases tk with
    | opn =>
      have := ih (d + 1) true (by simpa [ignOK] using h)
      simp only [ignChunks, enc, List.flatMap_cons, List.length_append, List.length_cons] at this ⊢
      omega
    | cls =>
      cases d with
      | zero => simp [ignOK] at h
      | succ d =>
        have := ih d true (by simpa [ignOK] using h)
        simp only [ignChunks, enc, List.flatMap_cons, List.length_append, List.length_cons] at this ⊢
        omega
    | nob t =>
      simp only [ignOK, Bool.and_eq_true] at h
      have := ih d false h.2
      obtain ⟨c, cs, hc⟩ := ignChunks_ne_nil r
      have ht : 1 ≤ t.length := by
        cases t with
        | nil => simp [vNob] at h
        | cons a b => simp
      simp only [ignChunks, hc, enc, List.flatMap_cons, List.length_append, List.length_cons] at this ⊢
      omega

theorem ignToks_len (ig : List IgnTok) (h : vIgn ig = true) : ig.length < (enc (ignToks ig)).length := by
  have := ign_len ig 0 true h
  simp only [ignToks, enc, List.flatMap_cons, List.length_append, List.length_cons] at this ⊢
  omega

theorem Block.fit_of_len (N : Nat) (b : Block) (hv : b.valid = true) (hc : (enc b.toks).length < N) : b.fit N := by
  have h : b.toks.length < N := by have := enc_len b.toks; omega
  cases b with
  | ukw t => trivial
  | skip k ig =>
    have hv' : (isSkipKw k && vIgn ig) = true := hv
    simp only [Bool.and_eq_true] at hv'
    have := ignToks_len ig hv'.2
    simp only [Block.toks, enc, List.flatMap_cons, List.length_append, List.length_cons] at hc this
    show ig.length < N
    omega
  | burst q ig =>
    have hv' : (vQ q && vIgn ig) = true := hv
    simp only [Bool.and_eq_true] at hv'
    have := ignToks_len ig hv'.2
    simp only [Block.toks, enc, List.flatMap_cons, List.length_append, List.length_cons] at hc this
    show ig.length < N
    omega
  | groups gs =>
    have hv' : gs.all Group.valid = true := hv
    have hl := length_le_flatMap Group.toks gs (by intro g _; simp [Group.toks])
    simp only [Block.toks, List.length_cons, List.length_append] at h
    refine ⟨by omega, fun g hg => ?_⟩
    have hm := length_le_of_mem_flatMap Group.toks gs g hg
    have := length_le_flatMap (fun q : Txt => [K .Plus, q]) g.more (by intro q _; simp)
    have hm2 := hm
    simp only [Group.toks, List.length_cons, List.length_append] at hm
    refine ⟨by omega, ?_⟩
    -- the annotation block of the group
    have hgv := List.all_eq_true.mp hv' g hg
    simp only [Group.valid, Bool.and_eq_true] at hgv
    cases hig : g.ign with
    | none => simp; omega
    | some ig =>
      have hvi : vIgn ig = true := by have := hgv.2; rw [hig] at this; exact this
      have h1 := ignToks_len ig hvi
      have h2 := enc_mem_len Group.toks gs g hg
      have h3 : (enc (ignToks ig)).length ≤ (enc g.toks).length := by
        simp only [Group.toks, hig, ignOptToks, enc, List.flatMap_cons, List.flatMap_append, List.length_append, List.length_cons]
        omega
      have h4 : (enc (gs.flatMap Group.toks)).length ≤ (enc (Block.groups gs).toks).length := by
        simp only [Block.toks, enc, List.flatMap_cons, List.flatMap_append, List.length_append, List.length_cons]
        omega
      simp only [Option.getD_some]
      omega
  | chains cs =>
    have hl := length_le_flatMap Chain.toks cs (by intro g _; simp [Chain.toks])
    simp only [Block.toks, List.length_cons, List.length_append] at h
    refine ⟨by omega, fun c hc => ?_⟩
    have hm := length_le_of_mem_flatMap Chain.toks cs c hc
    have h2 := length_le_flatMap ChainItem.toks c.items (by intro it _; cases it <;> simp [ChainItem.toks])
    simp only [Chain.toks, List.length_cons, List.length_append] at hm
    refine ⟨by omega, fun it hit => ?_⟩
    cases it with
    | cells cl =>
      have h3 := length_le_of_mem_flatMap ChainItem.toks c.items _ hit
      have h4 := length_le_flatMap Cell.toks cl (by intro x _; cases x <;> simp [Cell.toks])
      simp only [ChainItem.toks, List.length_cons, List.length_append] at h3
      show cl.length < N
      omega
    | _ => trivial
  | pattern name its =>
    have hv' : (vQ name && its.all PatItem.valid) = true := hv
    simp only [Bool.and_eq_true] at hv'
    have hl := length_le_flatMap PatItem.toks its (by intro g _; cases g <;> simp [PatItem.toks, ignToks])
    simp only [Block.toks, List.length_cons, List.length_append] at h
    refine ⟨by omega, fun it hit => ?_⟩
    have hE := enc_mem_len PatItem.toks its it hit
    have hE2 : (enc (its.flatMap PatItem.toks)).length ≤ (enc (Block.pattern name its).toks).length := by
      simp only [Block.toks, enc, List.flatMap_cons, List.flatMap_append, List.length_append, List.length_cons]
      omega
    have hiv := List.all_eq_true.mp hv'.2 it hit
    cases it with
    | call nm ps =>
      have h3 := length_le_of_mem_flatMap PatItem.toks its _ hit
      have h4 := length_le_flatMap paramToks ps (by intro x _; simp [paramToks])
      simp only [PatItem.toks, List.length_cons, List.length_append] at h3
      show ps.length < N
      omega
    | c ig =>
      have := ignToks_len ig hiv
      have h5 : (enc (ignToks ig)).length ≤ (enc (PatItem.toks (.c ig))).length := by
        show _ ≤ (enc ([K .C] ++ ignToks ig)).length
        rw [enc_append, List.length_append]; omega
      show ig.length < N
      omega
    | ann ig =>
      have := ignToks_len ig hiv
      have h5 : (enc (ignToks ig)).length ≤ (enc (PatItem.toks (.ann ig))).length := by
        show _ ≤ (enc ([K .Ann] ++ ignToks ig)).length
        rw [enc_append, List.length_append]; omega
      show ig.length < N
      omega
    | _ => trivial

theorem parseTree_print (f : StilFile) (h : f.valid = true) : parseTree (printStilL f) = some f := by
  obtain ⟨version, headIgn, blocks⟩ := f
  simp only [StilFile.valid, Bool.and_eq_true] at h
  obtain ⟨⟨⟨hver, hhead⟩, hblocks⟩, _⟩ := h
  have hR := wsHead_nl
  -- fuel
  have hlen : (printStilL ⟨version, headIgn, blocks⟩).length = (enc (StilFile.toks ⟨version, headIgn, blocks⟩)).length + 1 := by
    simp [printStilL]
  have h2 : (enc (headToks headIgn)).length + (enc (blocks.flatMap Block.toks)).length
      ≤ (enc (StilFile.toks ⟨version, headIgn, blocks⟩)).length := by
    simp only [StilFile.toks, enc, List.flatMap_cons, List.flatMap_append, List.length_append, List.length_cons]; omega
  have h3 := length_le_flatMap Block.toks blocks (by intro b _; cases b <;> simp [Block.toks, ignToks])
  have h4 := enc_len (blocks.flatMap Block.toks)
  obtain ⟨n, hn⟩ : ∃ n, (printStilL ⟨version, headIgn, blocks⟩).length = n := ⟨_, rfl⟩
  have hfit : ∀ b ∈ blocks, b.fit (n + 1) := fun b hb =>
    Block.fit_of_len (n + 1) b (List.all_eq_true.mp hblocks b hb)
      (by have := enc_mem_len Block.toks blocks b hb; omega)
  have hB := fun st hst => pBlocks_enc n blocks hblocks hfit (n + 1) st hst (by omega)
  have hs := pSeq_enc [(sStart, .lit .Stil), (sFloat, .float)] [K .Stil, version]
    ⟨Lx_lit sStart .Stil (by decide), Lx_float version hver, trivial⟩ (headToks headIgn ++ blocks.flatMap Block.toks) ['\n'] hR
  simp only [List.cons_append, List.nil_append] at hs
  unfold parseTree
  simp only [hn]
  simp only [printStilL, StilFile.toks, hs]
  cases headIgn with
  | none =>
    simp only [headToks, List.cons_append, List.nil_append,
      next_enc _ _ _ (Lx_lit sAfterFloat .Semi (by decide)) _ _ hR, hB sBlock (Or.inl rfl), Option.map_some]
  | some ig =>
    have hig : vIgn ig = true := hhead
    have hil := ignToks_len ig hig
    have hI := (pIgn_chunks (blocks.flatMap Block.toks) ['\n'] hR ig 0 (n + 1) (by simp only [headToks] at h2; omega)).1 hig
    simp only [headToks, ignToks, List.cons_append, List.append_assoc,
      next_enc _ _ _ (Lx_lbrace sAfterFloat (by simp)) _ _ hR, hI, hB sAfterIgn (Or.inr rfl), Option.map_some]

theorem parseStilL_print (f : StilFile) (h : f.valid = true) : parseStilL (printStilL f) = some f := by
  have hok : f.ok = true := by
    simp only [StilFile.valid, Bool.and_eq_true] at h; exact h.2
  simp [parseStilL, parseTree_print f h, hok]

theorem parseStil_print (f : StilFile) (h : f.valid = true) : parseStil (printStil f) = some f := by
  simp [parseStil, printStil, String.toList_ofList, parseStilL_print f h]

end KV.StilText
