import KyupyVerif.Proofs.WaveBridge
import KyupyVerif.Proofs.MapSoundRel
/-! Accumulated switching activity on the real memory layout, in terms of SIGNAL-LEVEL waveforms (C13 `activity_all_circuits`).

`MapSound.memTrace` / `sigTrace`: what a function `cnt` of a row and its operand values yields along the deterministic memory run /
along signal-level execution; under an accepted map record they coincide (`trace_eq`: the operands a row reads from memory are the
signal-level values of its sources at that point — `args_eq` — although regions are shared by stripped branches and re-used).
With `cnt` = the evaluator's transition counts and the bridge of Proofs/WaveBridge.lean the trace of a lane of the code-path model
(`WaveIO.laneTrace`) is the signal-level trace (`laneTrace_eq_sigTrace`), whose counts are the transitions of the waveform the row
produces at signal level (`sigTrace_counts`). -/
namespace KV.MapSound
open KV

variable {α C β : Type}

/-- `cnt` of every row and the operand values it reads from memory, along the deterministic run -/
def memTrace (p : MapIn) (R : RW α C) (sem : OpRow → List α → α) (cnt : OpRow → List α → β) :
    List OpRow → (Int → C) → List (OpRow × β)
  | [], _ => []
  | o :: r, m => (o, cnt o (o.ins.map fun i => rdS p R i m)) :: memTrace p R sem cnt r (memStep p R sem m o)

/-- the same along signal-level execution (operands = the signals the indices denote) -/
def sigTrace (p : MapIn) (sem : OpRow → List α → α) (cnt : OpRow → List α → β) :
    List OpRow → (Nat → α) → List (OpRow × β)
  | [], _ => []
  | o :: r, env => (o, cnt o (o.ins.map fun i => env (p.src i))) :: sigTrace p sem cnt r (sigStep p sem env o)

theorem trace_eq_aux {p : MapIn} (hg : Good p) (R : RW α C) (sem : OpRow → List α → α) (cnt : OpRow → List α → β)
    (sched : List Nat) (hs : Sched p sched) (Q : α → Prop)
    (hQsem : ∀ o ∈ p.ops, ∀ args, (∀ a ∈ args, Q a) → Q (sem o args))
    (hfit : ∀ o ∈ p.ops, ∀ args m, (∀ a ∈ args, Q a) →
      R.rd (p.loc o.out) (p.cap o.out) (R.wr (p.loc o.out) (p.cap o.out) (sem o args) m) = sem o args) :
    ∀ (suf pre : List Nat) (m : Int → C) (env : Nat → α), sched = pre ++ suf → Inv p R sched pre.length m env →
      (∀ x, Q (env x)) → memTrace p R sem cnt (schedOps p suf) m = sigTrace p sem cnt (schedOps p suf) env := by
  intro suf
  induction suf with
  | nil => intro pre m env _ _ _; rfl
  | cons k suf ih =>
    intro pre m env hp h hQ
    have ht : sched[pre.length]? = some k := by rw [hp]; simp
    have hklt := hs.valid _ _ ht
    have hk : p.ops[k]? = some p.ops[k] := List.getElem?_eq_getElem hklt
    have hmem : p.ops[k] ∈ p.ops := List.getElem_mem hklt
    have hso : schedOps p (k :: suf) = p.ops[k] :: schedOps p suf := by simp [schedOps, hk]
    have hargs := args_eq hg R sched hs pre.length k p.ops[k] ht hk m env h
    have hQargs : ∀ a ∈ (p.ops[k].ins.map fun i => rdS p R i m), Q a := by
      rw [hargs]
      intro a ha
      obtain ⟨i, _, rfl⟩ := List.mem_map.1 ha
      exact hQ _
    have hstep : StepOK p R sem p.ops[k] m (memStep p R sem m p.ops[k]) := by
      refine ⟨fun a ha => R.wr_frame _ _ _ _ a ha, ?_⟩
      exact hfit _ hmem _ m hQargs
    have hI := step_inv_rel hg R sem sched hs pre.length k p.ops[k] ht hk m _ env hstep h
    have hQ' := sigStep_inv p sem Q p.ops[k] env hQ (hQsem _ hmem)
    have := ih (pre ++ [k]) _ _ (by rw [hp]; simp) (by simpa using hI) hQ'
    rw [hso]
    simp only [memTrace, sigTrace]
    rw [hargs, this]

/-- **the trace on memory = the trace at signal level** (accepted map record, level-respecting schedule, results fit) -/
theorem trace_eq (p : MapIn) (hc : p.check = none) (R : RW α C) (sem : OpRow → List α → α) (cnt : OpRow → List α → β)
    (sched : List Nat) (hs : Sched p sched) (Q : α → Prop)
    (hQsem : ∀ o ∈ p.ops, ∀ args, (∀ a ∈ args, Q a) → Q (sem o args))
    (hfit : ∀ o ∈ p.ops, ∀ args m, (∀ a ∈ args, Q a) →
      R.rd (p.loc o.out) (p.cap o.out) (R.wr (p.loc o.out) (p.cap o.out) (sem o args) m) = sem o args)
    (m0 : Int → C) (env0 : Nat → α) (hQ0 : ∀ x, Q (env0 x))
    (h0 : ∀ x ∈ p.tracked, (∀ o ∈ p.ops, o.out ≠ x) → rdS p R x m0 = env0 x) :
    memTrace p R sem cnt (schedOps p sched) m0 = sigTrace p sem cnt (schedOps p sched) env0 :=
  trace_eq_aux (good_of_check p hc) R sem cnt sched hs Q hQsem hfit sched [] m0 env0 (by simp)
    (inv0 p R sched m0 env0 h0) hQ0

/-- every entry of the signal-level trace: `cnt` of a row of the list and of operand values satisfying the invariant -/
theorem sigTrace_forall (p : MapIn) (sem : OpRow → List α → α) (cnt : OpRow → List α → β) (Q : α → Prop)
    (P : OpRow → β → Prop) (rows : List OpRow)
    (hQsem : ∀ o ∈ rows, ∀ args, (∀ a ∈ args, Q a) → Q (sem o args))
    (hP : ∀ o ∈ rows, ∀ args, (∀ a ∈ args, Q a) → P o (cnt o args)) (env : Nat → α) (hQ : ∀ x, Q (env x)) :
    ∀ e ∈ sigTrace p sem cnt rows env, P e.1 e.2 := by
  induction rows generalizing env with
  | nil => intro e he; simp [sigTrace] at he
  | cons o r ih =>
    intro e he
    simp only [sigTrace, List.mem_cons] at he
    rcases he with rfl | he
    · apply hP o List.mem_cons_self
      intro a ha
      obtain ⟨i, _, rfl⟩ := List.mem_map.1 ha
      exact hQ _
    · exact ih (fun o' ho' => hQsem o' (List.mem_cons_of_mem _ ho')) (fun o' ho' => hP o' (List.mem_cons_of_mem _ ho'))
        _ (sigStep_inv p sem Q o env hQ (hQsem o List.mem_cons_self)) e he

theorem sigTrace_rows (p : MapIn) (sem : OpRow → List α → α) (cnt : OpRow → List α → β) (rows : List OpRow) (env : Nat → α) :
    (sigTrace p sem cnt rows env).map (·.1) = rows := by
  induction rows generalizing env with
  | nil => rfl
  | cons o r ih => simp only [sigTrace, List.map_cons, ih]

end KV.MapSound

namespace KV.WaveIO
open KV KV.Sig KV.Wave KV.MapSound

theorem waveCounts_wvOp (p : MapIn) (cfg : WCfg) (o : OpRow) (xs : List Wv) :
    waveCounts cfg (wvOp p o) xs = waveCounts cfg ⟨o.lut, o.out, o.ins⟩ xs := by
  have hD : ∀ (i : Fin 4) a b, opDelays cfg (wvOp p o) i a b = opDelays cfg ⟨o.lut, o.out, o.ins⟩ i a b := by
    intro i a b
    match i with
    | 0 => rfl
    | 1 => rfl
    | 2 => rfl
    | 3 => rfl
  unfold waveCounts
  show ((waveEval o.lut (opDelays cfg (wvOp p o)) _ _ _).2.2.1, (waveEval o.lut (opDelays cfg (wvOp p o)) _ _ _).2.2.2) = _
  rw [waveEval_congr_D hD]
  rfl

/-- the counts function of the memory-level trace: `(nrise, nfall)` the evaluator returns for a row and its operand waveforms -/
def rowCounts (cfg : WCfg) (p : MapIn) (o : OpRow) (args : List Wv) : Nat × Nat := waveCounts cfg (wvOp p o) args

/-- a lane's trace in the code-path model = the trace of the deterministic memory run, row by row -/
theorem laneTrace_eq_memTrace (p : MapIn) (delay : Nat → Bool → Bool → Int) (sim : Nat) (rows : List AOp) (c : Col)
    (hcap : ∀ o ∈ rows, 2 ≤ p.cap o.op.out) :
    (laneTrace (evWave (fun _ => wcfg p delay) p.loc) sim rows c).map (fun e => (e.1.op, (e.2.1, e.2.2))) =
      memTrace p (waveRW keepJunk) (waveRow (wcfg p delay) p) (rowCounts (wcfg p delay) p) (rows.map (·.op)) c := by
  induction rows generalizing c with
  | nil => rfl
  | cons o r ih =>
    simp only [laneTrace, List.map_cons, memTrace]
    rw [evWave_eq_memStep p delay o.op sim c (hcap o List.mem_cons_self),
      ih _ (fun o' ho' => hcap o' (List.mem_cons_of_mem _ ho'))]
    congr 1
    have hxs : (o.op.ins.map fun i => readWave (rdCells c (p.loc i) ((wcfg p delay).cap i))) =
        (o.op.ins.map fun i => rdS p (waveRW keepJunk) i c) := by
      apply List.map_congr_left
      intro i _
      exact readWave_rdCells_eq c (p.loc i) (p.cap i)
    show (o.op, ((waveCounts (wcfg p delay) ⟨o.op.lut, o.op.out, o.op.ins⟩ _).1,
      (waveCounts (wcfg p delay) ⟨o.op.lut, o.op.out, o.op.ins⟩ _).2)) = _
    rw [hxs]
    unfold rowCounts
    rw [waveCounts_wvOp]

/-- **a lane's trace = the signal-level trace** (accepted map record with `c_caps_min ≥ 4`, delays ≥ 0, program order, well-formed
    stimulus): the counts of every row are those of its evaluation on the SIGNAL-LEVEL waveforms of its source signals -/
theorem laneTrace_eq_sigTrace (p : MapIn) (hc : p.check = none) (h4 : 4 ≤ p.capsMin) (delay : Nat → Bool → Bool → Int)
    (hd : ∀ l a b, 0 ≤ delay l a b) (sim : Nat) (rows : List AOp) (hrows : rows.map (·.op) = p.ops) (c : Col)
    (env0 : Nat → Wv) (henv : ∀ x, (env0 x).ok) (h0 : Stimulus p c env0) :
    (laneTrace (evWave (fun _ => wcfg p delay) p.loc) sim rows c).map (fun e => (e.1.op, (e.2.1, e.2.2))) =
      sigTrace p (waveRow (wcfg p delay) p) (rowCounts (wcfg p delay) p) p.ops env0 := by
  have hcapge := cap_ge_of_check p hc
  have hcap : ∀ o ∈ rows, 2 ≤ p.cap o.op.out := by
    intro o ho
    have hmem : o.op ∈ p.ops := by rw [← hrows]; exact List.mem_map_of_mem ho
    have := hcapge o.op hmem
    omega
  rw [laneTrace_eq_memTrace p delay sim rows c hcap, hrows]
  have := trace_eq p hc (waveRW keepJunk) (waveRow (wcfg p delay) p) (rowCounts (wcfg p delay) p)
    (List.range p.ops.length) (sched_range p) Wv.ok
    (fun o ho args hargs => waveSem_ok (wcfg p delay) (wvOp p o) args hd
      (by have := hcapge o ho; show 4 ≤ p.cap o.out; omega) hargs)
    (fun o ho args m hargs => waveRW_fit keepJunk _ _ _ m
      (waveSem_fits (wcfg p delay) (wvOp p o) args hd (by have := hcapge o ho; show 4 ≤ p.cap o.out; omega) hargs))
    c env0 henv h0
  rw [schedOps_range] at this
  exact this

/-- the counts in the signal-level trace are the transitions of the waveform the row produces at signal level -/
theorem sigTrace_counts (p : MapIn) (hc : p.check = none) (h4 : 4 ≤ p.capsMin) (delay : Nat → Bool → Bool → Int)
    (hd : ∀ l a b, 0 ≤ delay l a b) (env0 : Nat → Wv) (henv : ∀ x, (env0 x).ok) :
    sigTrace p (waveRow (wcfg p delay) p) (rowCounts (wcfg p delay) p) p.ops env0 =
      sigTrace p (waveRow (wcfg p delay) p)
        (fun o args => countTrans false (waveRow (wcfg p delay) p o args).ents) p.ops env0 := by
  have hcapge := cap_ge_of_check p hc
  have key : ∀ (rows : List OpRow), (∀ o ∈ rows, o ∈ p.ops) → ∀ env : Nat → Wv, (∀ x, (env x).ok) →
      sigTrace p (waveRow (wcfg p delay) p) (rowCounts (wcfg p delay) p) rows env =
        sigTrace p (waveRow (wcfg p delay) p) (fun o args => countTrans false (waveRow (wcfg p delay) p o args).ents) rows env := by
    intro rows
    induction rows with
    | nil => intro _ _ _; rfl
    | cons o r ih =>
      intro hin env hok
      have ho := hin o List.mem_cons_self
      have h4' : 4 ≤ (wcfg p delay).cap (wvOp p o).out := by have := hcapge o ho; show 4 ≤ p.cap o.out; omega
      have hargs : ∀ a ∈ (o.ins.map fun i => env (p.src i)), a.ok := by
        intro a ha
        obtain ⟨i, _, rfl⟩ := List.mem_map.1 ha
        exact hok _
      simp only [sigTrace]
      rw [ih (fun o' ho' => hin o' (List.mem_cons_of_mem _ ho')) _
        (sigStep_inv p _ Wv.ok o env hok (fun args ha => waveSem_ok (wcfg p delay) (wvOp p o) args hd h4' ha))]
      congr 2
      unfold rowCounts waveRow
      have hwok := waveSem_ok (wcfg p delay) (wvOp p o) _ hd h4' hargs
      rw [counts_spec _ hwok.1]
      unfold waveCounts waveSem waveEval
      simp only []
  exact key p.ops (fun _ h => h) env0 henv

theorem laneTrace_rows (ev : Ev) (sim : Nat) (rows : List AOp) (c : Col) : (laneTrace ev sim rows c).map (·.1) = rows := by
  induction rows generalizing c with
  | nil => rfl
  | cons o r ih => simp only [laneTrace, List.map_cons, ih]

/-- contributions of a trace from its rows (accumulation control) and its `(row, counts)` projection -/
theorem contribs_zip (l : List (AOp × Nat × Nat)) (rows : List AOp) (h : l.map (·.1) = rows) :
    l.map contribOf =
      List.zipWith (fun (o : AOp) (e : OpRow × Nat × Nat) => contribOf (o, e.2.1, e.2.2)) rows
        (l.map fun e => (e.1.op, (e.2.1, e.2.2))) := by
  induction l generalizing rows with
  | nil => subst h; rfl
  | cons e r ih =>
    subst h
    simp only [List.map_cons, List.zipWith_cons_cons]
    rw [ih _ rfl]

end KV.WaveIO
