import KyupyVerif.Proofs.SubstGen6
import KyupyVerif.Proofs.SubstSem10
/-! Helper lemmas for C10 (`substitute_sem_general`), part 7: the *virtual host* `hostClr` (the instance pins that the
implementation ignores count as unconnected; the host lines at those pins stay, stale on the reader side), and the real run
of `substituteCore` on the host in lockstep with the run on the virtual host, for an implementation with a designated cell. -/
namespace KV.Transform
open KV

/-- the pins of the instance in the virtual host -/
def clrIns (m : NNet) (sh : Shape) (ins : List (Option Nat)) : List (Option Nat) :=
  ((sh.inPorts.zip (padTo ins sh.inPorts.length)).map (clrIgn m)).map (·.2)

/-- the virtual host: an instance pin that the implementation ignores counts as unconnected -/
def hostClr (h : NNet) (c : Nat) (m : NNet) (sh : Shape) : NNet :=
  { h with net := { h.net with nodes := h.net.nodes.modify c fun n => { n with ins := clrIns m sh n.ins } } }

theorem clrIns_length (m : NNet) (sh : Shape) (ins : List (Option Nat)) (hl : ins.length ≤ sh.inPorts.length) :
    (clrIns m sh ins).length = sh.inPorts.length := by
  simp [clrIns, padTo_length _ _ hl]

theorem zip_clrIns (m : NNet) (sh : Shape) (ins : List (Option Nat)) (hl : ins.length ≤ sh.inPorts.length) :
    sh.inPorts.zip (padTo (clrIns m sh ins) sh.inPorts.length) = (sh.inPorts.zip (padTo ins sh.inPorts.length)).map (clrIgn m) := by
  have h1 : padTo (clrIns m sh ins) sh.inPorts.length = clrIns m sh ins := by
    simp [padTo, clrIns_length m sh ins hl]
  rw [h1]
  symm
  apply List.zip_of_prod
  · rw [List.map_map]
    have : (Prod.fst ∘ clrIgn m) = Prod.fst := by funext p; rfl
    rw [this, List.map_fst_zip]
    rw [padTo_length _ _ hl]; exact Nat.le_refl _
  · rfl

theorem clrIns_getD (m : NNet) (sh : Shape) (ins : List (Option Nat)) (hl : ins.length ≤ sh.inPorts.length) (k : Nat) :
    (clrIns m sh ins).getD k none =
      match sh.inPorts[k]? with
      | some inn => if ignoredPort m inn then none else ins.getD k none
      | none => none := by
  simp only [clrIns, List.getD_eq_getElem?_getD, List.getElem?_map, List.getElem?_zip_eq_some]
  cases hp : sh.inPorts[k]? with
  | none =>
    have : (sh.inPorts.zip (padTo ins sh.inPorts.length))[k]? = none := by
      rw [List.getElem?_eq_none_iff] at hp ⊢
      simp; omega
    simp [this]
  | some inn =>
    have hk : k < sh.inPorts.length := (List.getElem?_eq_some_iff.mp hp).1
    have hpad : (padTo ins sh.inPorts.length)[k]? = some (ins.getD k none) := by
      simp only [padTo]
      by_cases h1 : k < ins.length
      · rw [List.getElem?_append_left h1]; simp [List.getD_eq_getElem?_getD, List.getElem?_eq_getElem h1]
      · rw [List.getElem?_append_right (by omega), List.getElem?_replicate]
        have : k - ins.length < sh.inPorts.length - ins.length := by omega
        simp [this, List.getD_eq_getElem?_getD, List.getElem?_eq_none (by omega : ins.length ≤ k)]
    have : (sh.inPorts.zip (padTo ins sh.inPorts.length))[k]? = some (inn, ins.getD k none) := by
      rw [List.getElem?_zip_eq_some]; exact ⟨hp, hpad⟩
    rw [this]
    simp only [Option.map_some, clrIgn, Option.getD_some]
    split <;> rfl

theorem hostClr_node (h : NNet) (c : Nat) (m : NNet) (sh : Shape) (x : Nat) : (hostClr h c m sh).net.node x =
    if x = c ∧ c < h.net.nodes.size then { h.net.node x with ins := clrIns m sh (h.net.node x).ins } else h.net.node x := by
  show nodeA (h.net.nodes.modify c _) x = _
  rw [nodeA_modify]; rfl

theorem hostClr_line (h : NNet) (c : Nat) (m : NNet) (sh : Shape) (l : Nat) : (hostClr h c m sh).net.line l = h.net.line l := rfl

theorem phase1_hostClr (h : NNet) (c : Nat) (m : NNet) (sh : Shape) (dn : Nat) :
    phase1 (hostClr h c m sh) c m (some dn) = phase1 h c m (some dn) := by
  simp only [phase1, hostClr]
  congr 3
  apply Array.ext
  · simp
  · intro i h1 h2
    simp only [Array.getElem_modify]
    split <;> rfl

end KV.Transform

namespace KV.Transform
open KV

theorem phase1_node (h : NNet) (c : Nat) (m : NNet) (dn : Nat) (hc : c < h.net.nodes.size) (x : Nat) :
    (phase1 h c m (some dn)).1.net.node x = if x = c then ⟨(m.net.node dn).kind, [], []⟩ else h.net.node x := by
  show nodeA (h.net.nodes.modify c _) x = _
  rw [nodeA_modify]
  by_cases e : x = c
  · simp [e, hc]
  · simp [e]; rfl

theorem phase1_rest (h : NNet) (c : Nat) (m : NNet) (dn : Nat) :
    (phase1 h c m (some dn)).1.net.lines = h.net.lines ∧ (phase1 h c m (some dn)).1.net.io = h.net.io ∧
    (phase1 h c m (some dn)).1.net.nodes.size = h.net.nodes.size ∧ (phase1 h c m (some dn)).1.names = h.names := by
  simp [phase1]

/-- the state after the pins of the instance have been cleared, related to itself: the lines at the pins of the instance
    are pending (`I`, `O` = the lines at its input / output pins) -/
theorem lk_init (h : NNet) (c : Nat) (m : NNet) (dn : Nat) (w : WFm h) (hc : c < h.net.nodes.size) :
    Lk (ownN h c) id id (fun _ => False) (fun l => l ∈ (h.net.node c).ins.filterMap id)
      (fun l => l ∈ (h.net.node c).outs.filterMap id) (phase1 h c m (some dn)).1.net (phase1 h c m (some dn)).1.net := by
  obtain ⟨e1, e2, e3, _⟩ := phase1_rest h c m dn
  have hline : ∀ l, (phase1 h c m (some dn)).1.net.line l = h.net.line l := by
    intro l; show lineA (phase1 h c m (some dn)).1.net.lines l = _; rw [e1]; rfl
  have hnode := phase1_node h c m dn hc
  have hI : ∀ l, l ∈ (h.net.node c).ins.filterMap id → l < h.net.lines.size ∧ (h.net.line l).reader = c := by
    intro l hl
    obtain ⟨k, hk⟩ := (mem_filterMap_id _ l).mp hl
    exact ⟨(w.fwdIn c hc k l hk).1, (w.fwdIn c hc k l hk).2.1⟩
  have hO : ∀ l, l ∈ (h.net.node c).outs.filterMap id → l < h.net.lines.size ∧ (h.net.line l).driver = c := by
    intro l hl
    obtain ⟨k, hk⟩ := (mem_filterMap_id _ l).mp hl
    exact ⟨(w.fwdOut c hc k l hk).1, (w.fwdOut c hc k l hk).2.1⟩
  refine ⟨fun _ _ e => e, fun _ hx => hx, fun _ _ => rfl, by simp, ?_, ?_, ?_, fun _ _ _ _ e => e, ?_, ?_, ?_, ?_, ?_, ?_⟩
  · intro x k _; simp
  · intro x k _ _; simp
  · intro l hl; exact ⟨hl, fun x => x⟩
  · intro l' hl' _; exact ⟨l', hl', rfl⟩
  · intro l hl hpo
    rw [e1] at hl
    rw [hline, e3]
    exact ⟨(w.back l hl).1, rfl, Or.inl rfl⟩
  · intro l hl hpi
    rw [e1] at hl
    rw [hline, e3]
    exact ⟨(w.back l hl).2.1, rfl, rfl⟩
  · intro x k l hp
    rw [hnode] at hp
    split at hp
    · simp at hp
    · rename_i hne
      by_cases hx : x < h.net.nodes.size
      · obtain ⟨a1, a2, _⟩ := w.fwdIn x hx k l hp
        rw [e1]
        exact ⟨a1, fun hm => hne (a2.symm.trans (hI l hm).2)⟩
      · have : h.net.node x = default := by
          simp only [Net.node, Array.getD_eq_getD_getElem?]
          rw [Array.getElem?_eq_none (by omega)]; rfl
        rw [this] at hp
        have hd : (default : NodeD).ins = [] := rfl
        rw [hd] at hp; simp at hp
  · intro x k l ho hp
    rw [hnode] at hp
    split at hp
    · simp at hp
    · rename_i hne
      rcases ho with ho | ho
      · exact absurd ho hne
      · have : h.net.node x = default := by
          simp only [Net.node, Array.getD_eq_getD_getElem?]
          rw [Array.getElem?_eq_none ho]; rfl
        rw [this] at hp
        have hd : (default : NodeD).outs = [] := rfl
        rw [hd] at hp; simp at hp
  · intro d hd hno
    rw [e3] at hd
    have hne : d ≠ c := fun e => hno (Or.inl e)
    refine ⟨by rw [e3]; exact hd, ?_, ?_⟩
    · intro p y hp
      rw [hnode, if_neg hne] at hp
      obtain ⟨a1, a2, a3⟩ := w.fwdOut d hd p y hp
      rw [e1, hline]
      exact ⟨a1, a2, a3, fun hm => hne (a2.symm.trans (hO y hm).2)⟩
    · intro y hy _ hdy
      rw [e1] at hy
      rw [hline] at hdy ⊢
      rw [hnode, if_neg hne, ← hdy]
      exact (w.back y hy).2.2.1

end KV.Transform

namespace KV.Transform
open KV

/-- line `ll` of the host is at an input pin of the instance that the implementation ignores -/
def GhostLine (h : NNet) (c : Nat) (m : NNet) (sh : Shape) (ll : Nat) : Prop :=
  ∃ k inn, instIn h c k = some ll ∧ sh.inPorts[k]? = some inn ∧ ignoredPort m inn = true

theorem mem_pins_iff {sh : Shape} {ins : List (Option Nat)} (hl : ins.length ≤ sh.inPorts.length) (inn ll : Nat) :
    (inn, some ll) ∈ sh.inPorts.zip (padTo ins sh.inPorts.length) ↔ ∃ k, sh.inPorts[k]? = some inn ∧ ins.getD k none = some ll := by
  constructor
  · intro hm; exact mem_zip_padTo hm
  · rintro ⟨k, h1, h2⟩
    exact mem_zip_of_getElem? h1 (padTo_getElem? _ _ k ll h2)

/-- **the real run and the virtual run in lockstep** (implementation with a designated cell): `substituteCore` on the virtual host
    succeeds with the same `node_map` and the same `dangling` list, and its result `V` is related to the real result `h5`:
    same nodes, the lines of `h5` are the lines of `V` other than the lines at ignored pins (`G`), renumbered (`ψ`) -/
theorem lockstep_some (h : NNet) (c : Nat) (m : NNet) (sh : Shape) (dn : Nat) (w : WFm h) (hc : c < h.net.nodes.size)
    (hs : implShape m = some sh) (hd : sh.des = some dn)
    (hself : ∀ ll, GhostLine h c m sh ll → (h.net.line ll).driver ≠ c)
    (h5 : NNet) (map : Array (Option Nat)) (dang : List (Option Nat)) (he : substituteCore h c m = some (h5, map, dang)) :
    ∃ (V : NNet) (ψ : Nat → Nat), substituteCore (hostClr h c m sh) c m = some (V, map, dang) ∧ V.names = h5.names ∧
      Lk (ownN h c) id ψ (GhostLine h c m sh) (GhostLine h c m sh) (fun _ => False) h5.net V.net ∧
      (∀ j x, map.getD j none = some x → x < h5.net.nodes.size ∧ ownN h c x) ∧
      V.net.nodes.size = h5.net.nodes.size := by
  obtain ⟨h2, net4, ren, net5, hil, hol, hfold, hci, hco, e⟩ := substituteCore_inv h c m sh hs h5 map dang he
  rw [hd] at hfold
  -- `node_map`
  have li : LI h := ⟨w.names, w.io⟩
  have p1 := phase1_some_obs h c m dn li hc
  have fo := foldlM_addImplNode_obs m _ (some dn) _ _ _ hfold p1.2.2.1 p1.2.2.2
  have f1 := frame_phase1 h c m dn ((h.net.node c).ins.filterMap id) ((h.net.node c).outs.filterMap id)
  have f2 := frame_foldlM m _ (some dn) _ _ _ hfold f1.1 f1.2
  have hmapLt : ∀ j x, map.getD j none = some x → x < h2.net.nodes.size ∧ ownN h c x :=
    fun j x hx => ⟨fo.2.2.2.2.2 j x hx, f2.2 j x hx⟩
  have hmap : ∀ j, map.getD j none = (map.getD j none).map id := fun j => by simp
  -- the pins of the instance
  have hI : ∀ x ∈ (h.net.node c).ins.filterMap id, x < h.net.lines.size ∧ (h.net.line x).reader = c := by
    intro x hx
    obtain ⟨k, hk⟩ := (mem_filterMap_id _ x).mp hx
    exact ⟨(w.fwdIn c hc k x hk).1, (w.fwdIn c hc k x hk).2.1⟩
  have hO : ∀ x ∈ (h.net.node c).outs.filterMap id, x < h.net.lines.size ∧ (h.net.line x).driver = c := by
    intro x hx
    obtain ⟨k, hk⟩ := (mem_filterMap_id _ x).mp hx
    exact ⟨(w.fwdOut c hc k x hk).1, (w.fwdOut c hc k x hk).2.1⟩
  have ndI : ((h.net.node c).ins.filterMap id).Nodup := by
    apply nodup_filterMap_id
    intro k1 k2 x h1 h2
    have e1 := (w.fwdIn c hc k1 x (by simp [List.getD_eq_getElem?_getD, h1])).2.2
    have e2 := (w.fwdIn c hc k2 x (by simp [List.getD_eq_getElem?_getD, h2])).2.2
    rw [← e1, ← e2]
  have ndO : ((h.net.node c).outs.filterMap id).Nodup := by
    apply nodup_filterMap_id
    intro k1 k2 x h1 h2
    have e1 := (w.fwdOut c hc k1 x (by simp [List.getD_eq_getElem?_getD, h1])).2.2
    have e2 := (w.fwdOut c hc k2 x (by simp [List.getD_eq_getElem?_getD, h2])).2.2
    rw [← e1, ← e2]
  have sI : (sh.inPorts.zip (padTo (h.net.node c).ins sh.inPorts.length)).filterMap (·.2) = (h.net.node c).ins.filterMap id := by
    rw [zip_snd_filterMap _ _ (by rw [padTo_length _ _ hil]; exact Nat.le_refl _), padTo_filterMap]
  have sO : (sh.outLines.zip (padTo (h.net.node c).outs sh.outLines.length)).filterMap (·.2) = (h.net.node c).outs.filterMap id := by
    rw [zip_snd_filterMap _ _ (by rw [padTo_length _ _ hol]; exact Nat.le_refl _), padTo_filterMap]
  -- the common state before the connecting loops
  have lk1 := lk_init h c m dn w hc
  obtain ⟨kinds, hkinds⟩ := foldlM_addImplNode_net m _ (some dn) _ _ _ hfold
  have lk2 : Lk (ownN h c) id id (fun _ => False) (fun l => l ∈ (h.net.node c).ins.filterMap id)
      (fun l => l ∈ (h.net.node c).outs.filterMap id) h2.net h2.net := by
    have := lk_same_pushNodes kinds _ lk1
    rw [← hkinds] at this; exact this
  have hL2 : h2.net.lines.size = h.net.lines.size := by
    have : ∀ (ks : List String) (n : Net), (ks.foldl pushNode n).lines = n.lines := by
      intro ks; induction ks with
      | nil => intro n; rfl
      | cons k ks ih => intro n; rw [List.foldl_cons, ih]; rfl
    rw [hkinds, this, (phase1_rest h c m dn).1]
  obtain ⟨lk3, _, hN3, hL3, _⟩ := lk_phase3 map map hmap h2.net.nodes.size _ _ hmapLt m.net.lines.toList h2.net h2.net lk2 rfl rfl
    (fun l hl hm => by have := (hI l hm).1; omega)
  rw [← phase3_eq_foldl] at lk3 hN3 hL3
  -- the lines of the host are still what they were
  have f3 : FrameA h c ((h.net.node c).ins.filterMap id) ((h.net.node c).outs.filterMap id)
      (phase3 m map h2).nodes (phase3 m map h2).lines := frameA_foldl map f2.2 _ _ f2.1
  have hltL : ∀ l, l < h.net.lines.size → l < (phase3 m map h2).lines.size := fun l hl => by omega
  -- the loop over the input pins
  have hghost : ∀ inn ll, (inn, some ll) ∈ sh.inPorts.zip (padTo (h.net.node c).ins sh.inPorts.length) → ignoredPort m inn = true →
      GhostLine h c m sh ll := by
    intro inn ll hm hi
    obtain ⟨k, h1, h2⟩ := (mem_pins_iff hil inn ll).mp hm
    exact ⟨k, inn, h2, h1, hi⟩
  have lk3' := lk3.congrPI (PI' := fun x => False ∨ x ∈ (sh.inPorts.zip (padTo (h.net.node c).ins sh.inPorts.length)).filterMap (·.2))
    (fun x => by rw [sI]; simp)
  obtain ⟨b4, ψ, G, q1, q2, q3, q4, q5, q6, q7, q8, q9⟩ := lk_connectIns m map map hmap
    (fun ll => ll ∈ (h.net.node c).ins.filterMap id ∨ ll ∈ (h.net.node c).outs.filterMap id) h2.net.nodes.size _ hmapLt
    _ (phase3 m map h2) (phase3 m map h2) id id (fun _ => False) net4 ren lk3' hN3 hci rfl (by rw [sI]; exact ndI)
    (by
      intro ll ht _
      refine ⟨ll, rfl, hltL ll ?_, rfl⟩
      rcases ht with ht | ht
      · exact (hI ll ht).1
      · exact (hO ll ht).1)
    (by
      intro ll hll
      rw [sI] at hll
      exact ⟨Or.inl hll, fun x => x, hltL ll (hI ll hll).1⟩)
    (by
      intro inn ll hm hi
      have hg := hghost inn ll hm hi
      have hll : ll ∈ (h.net.node c).ins.filterMap id := by
        rw [← sI]; exact List.mem_filterMap.mpr ⟨(inn, some ll), hm, rfl⟩
      have hno : ll ∉ (h.net.node c).outs.filterMap id := fun ho => hself ll hg (hO ll ho).2
      refine ⟨hno, fun x hx => ?_⟩
      have hdr : ((phase3 m map h2).line ll).driver = (h.net.line ll).driver := (f3.drv ll (hI ll hll).1 hno).1
      rw [hdr] at hx
      simp only [id] at hx
      intro hown
      rcases hown with e0 | e0
      · exact hself ll hg (hx ▸ e0)
      · have := (w.back ll (hI ll hll).1).1
        omega)
  have hG : ∀ ll, G ll ↔ GhostLine h c m sh ll := by
    intro ll
    rw [q6 ll]
    constructor
    · rintro (hf | ⟨inn, h1, h2⟩)
      · exact absurd hf id
      · exact hghost inn ll h1 h2
    · rintro ⟨k, inn, h1, h2, h3⟩
      exact Or.inr ⟨inn, (mem_pins_iff hil inn ll).mpr ⟨k, h2, h1⟩, h3⟩
  -- the loop over the output pins
  have hzip : sh.outLines.zip ((padTo (h.net.node c).outs sh.outLines.length).map ren) =
      (sh.outLines.zip (padTo (h.net.node c).outs sh.outLines.length)).map fun p => (p.1, ren p.2) := by
    rw [List.zip_map_right]; rfl
  rw [hzip] at hco
  have lk4 := q2.congrPO (PO' := fun x => x ∈ (sh.outLines.zip (padTo (h.net.node c).outs sh.outLines.length)).filterMap (·.2))
    (fun x => by rw [sO])
  obtain ⟨b5, r1, r2, r3, r4, r5, r6⟩ := lk_connectOuts m map map hmap h2.net.nodes.size ren q4 ψ G G hmapLt _ net4 b4 [] net5 dang
    lk4 q3 hco (by rw [sO]; exact ndO)
    (by
      intro ll hll
      rw [sO] at hll
      have hng : ¬ G ll := by
        rw [hG]; intro hg; exact hself ll hg (hO ll hll).2
      exact ⟨hng, q5 ll (Or.inr hll) hng⟩)
  -- the virtual run as `substituteCore` on the virtual host
  have hcl : (hostClr h c m sh).net.node c = { h.net.node c with ins := clrIns m sh (h.net.node c).ins } := by
    rw [hostClr_node]; simp [hc]
  have hcore : substituteCore (hostClr h c m sh) c m = some ({ h2 with net := b5 }, map, dang) := by
    apply substituteCore_of_phases (hostClr h c m sh) c m sh hs h2 map b4 b5 id dang
    · rw [hcl]; exact Nat.le_of_eq (clrIns_length m sh _ hil)
    · rw [hcl]; exact hol
    · rw [hd, phase1_hostClr]; exact hfold
    · rw [hcl]
      show connectIns m map (sh.inPorts.zip (padTo (clrIns m sh (h.net.node c).ins) sh.inPorts.length)) _ = _
      rw [zip_clrIns m sh _ hil]; exact q1
    · rw [hcl]
      show connectOuts m map (sh.outLines.zip ((padTo (h.net.node c).outs sh.outLines.length).map id)) _ = _
      rw [List.map_id]
      simpa using r1
  refine ⟨{ h2 with net := b5 }, ψ, hcore, by rw [e], ?_, ?_, ?_⟩
  rotate_left 2
  · rw [e]
    show b5.nodes.size = net5.nodes.size
    rw [r6, q8, hN3, r3]
  · have hGG : G = GhostLine h c m sh := funext fun x => propext (hG x)
    rw [e, ← hGG]; exact r2
  · intro j x hx
    obtain ⟨a1, a2⟩ := hmapLt j x hx
    rw [e]
    exact ⟨by show x < net5.nodes.size; rw [r3]; exact a1, a2⟩

end KV.Transform
