import KyupyVerif.Model.VerilogText
/-! Lexer side of the round trip for the Verilog text model (`Model/VerilogText.lean`): a token list printed with any
layout (`layoutOK`) lexes back to itself (`lexes_render`), each token pulled in its own lexer context. -/
namespace KV.VerilogText

/-- pulling tokens from `s`, each in the listed context, yields the list, then the end of the text -/
inductive Lexes : List Char → List CT → Prop
  | nil {s : List Char} : next .top s = some (.eof, []) → Lexes s []
  | cons {s r : List Char} {c : Ctx} {t : Tok} {ts : List CT} :
      t ≠ .eof → next c s = some (t, r) → r.length < s.length → Lexes r ts → Lexes s ((c, t) :: ts)

theorem Lexes.length_le {s : List Char} {ts : List CT} (h : Lexes s ts) : ts.length ≤ s.length := by
  induction h with
  | nil _ => simp
  | cons _ _ hl _ ih => simp only [List.length_cons]; omega

theorem Lexes.cons_inv {s : List Char} {c : Ctx} {t : Tok} {ts : List CT} (h : Lexes s ((c, t) :: ts)) :
    ∃ r, next c s = some (t, r) ∧ Lexes r ts := by
  cases h with
  | cons _ hn _ hr => exact ⟨_, hn, hr⟩

theorem Lexes.nil_inv {s : List Char} (h : Lexes s []) : next .top s = some (.eof, []) := by
  cases h with
  | nil hn => exact hn

/-! ## ignored text -/

theorem skipV_gap (m : Mode) (g : List Char) : gapV m g = true → ∀ x, skipV m (g ++ x) = skipV .ws x := by
  fun_induction gapV m g <;> intro h x <;> simp_all [skipV]

theorem beq_false_of_pred (p : Char → Bool) {c d : Char} (hc : p c = true) (hd : p d = false) : (c == d) = false := by
  cases hb : (c == d) with
  | false => rfl
  | true => simp only [beq_iff_eq] at hb; subst hb; rw [hc] at hd; cases hd

/-- a character that starts no ignorable item -/
def startOK (c : Char) : Bool :=
  !(c == ' ' || c == '\t' || c == '\x0c' || c == '\n') && !(c == '\r') && !(c == '/') && !(c == '(')

theorem skipV_start (c : Char) (y : List Char) (h : startOK c = true) : skipV .ws (c :: y) = some (c :: y) := by
  simp only [startOK, Bool.and_eq_true, Bool.not_eq_true'] at h
  simp only [skipV, h.1.1.1, h.1.1.2, h.1.2, h.2, Bool.false_eq_true, if_false]

theorem startOK_of_pred (p : Char → Bool) (c : Char) (hc : p c = true) (h1 : p ' ' = false) (h2 : p '\t' = false)
    (h3 : p '\x0c' = false) (h4 : p '\n' = false) (h5 : p '\r' = false) (h6 : p '/' = false) (h7 : p '(' = false) :
    startOK c = true := by
  simp only [startOK, beq_false_of_pred p hc h1, beq_false_of_pred p hc h2, beq_false_of_pred p hc h3,
    beq_false_of_pred p hc h4, beq_false_of_pred p hc h5, beq_false_of_pred p hc h6, beq_false_of_pred p hc h7,
    Bool.or_self, Bool.not_false, Bool.and_self]

theorem startOK_idStart (c : Char) (hc : isIdStart c = true) : startOK c = true :=
  startOK_of_pred isIdStart c hc (by decide) (by decide) (by decide) (by decide) (by decide) (by decide) (by decide)

theorem startOK_digit (c : Char) (hc : c.isDigit = true) : startOK c = true :=
  startOK_of_pred Char.isDigit c hc (by decide) (by decide) (by decide) (by decide) (by decide) (by decide) (by decide)

/-! ## single tokens -/

/-- a token that has a text, in the context in which it can be pulled -/
def tokOK : CT → Bool
  | (.gen, .word w) => isIdentWord w || isConstWord w
  | (.gen, .esc s) => !s.isEmpty && s.all notEscTerm
  | (.num, .num ds) => !ds.isEmpty && ds.all Char.isDigit
  | (.gen, .sym c) => isSym c
  | (.top, .modkw) => true
  | _ => false

theorem takeWhile_append_stop {p : Char → Bool} (a y : List Char) (ha : a.all p = true) (hy : headNot p y = true) :
    (a ++ y).takeWhile p = a ∧ (a ++ y).dropWhile p = y := by
  have hall : ∀ x ∈ a, p x = true := by simpa using ha
  rw [List.takeWhile_append_of_pos hall, List.dropWhile_append_of_pos hall]
  cases y with
  | nil => simp
  | cons d y' =>
    simp only [headNot, Bool.not_eq_true'] at hy
    simp [hy]

theorem headNot_mono {p q : Char → Bool} (h : ∀ c, q c = true → p c = true) (y : List Char) (hy : headNot p y = true) :
    headNot q y = true := by
  cases y with
  | nil => rfl
  | cons d y' =>
    simp only [headNot, Bool.not_eq_true'] at hy ⊢
    cases hq : q d with
    | false => rfl
    | true => rw [h d hq] at hy; cases hy

theorem isIdChar_of_digit (c : Char) (h : c.isDigit = true) : isIdChar c = true := by
  simp [isIdChar, h]

theorem isIdChar_of_hex (c : Char) (h : isHex c = true) : isIdChar c = true := by
  simp only [isHex, Bool.or_eq_true, Bool.and_eq_true, decide_eq_true_eq] at h
  simp only [isIdChar, KV.BenchText.isLetter, Bool.or_eq_true, Bool.and_eq_true, decide_eq_true_eq]
  rcases h with (h | h) | h
  · exact Or.inl (Or.inr h)
  · exact Or.inl (Or.inl (Or.inl (Or.inl (Or.inl (Or.inl (Or.inl ⟨by omega, by omega⟩))))))
  · exact Or.inl (Or.inl (Or.inl (Or.inl (Or.inl (Or.inl (Or.inr ⟨by omega, by omega⟩))))))

/-- identifier word -/
theorem nextRaw_ident (w y : List Char) (hw : isIdentWord w = true) (hy : headNot isIdChar y = true) :
    nextRaw .gen (w ++ y) = some (.word w, y) := by
  cases w with
  | nil => simp [isIdentWord] at hw
  | cons c r =>
    simp only [isIdentWord, Bool.and_eq_true] at hw
    have hs : isSym c = false := by
      simp only [isSym, beq_false_of_pred isIdStart hw.1 (d := ';') (by decide), beq_false_of_pred isIdStart hw.1 (d := '(') (by decide),
        beq_false_of_pred isIdStart hw.1 (d := ')') (by decide), beq_false_of_pred isIdStart hw.1 (d := ',') (by decide),
        beq_false_of_pred isIdStart hw.1 (d := '.') (by decide), beq_false_of_pred isIdStart hw.1 (d := '[') (by decide),
        beq_false_of_pred isIdStart hw.1 (d := ']') (by decide), beq_false_of_pred isIdStart hw.1 (d := ':') (by decide),
        beq_false_of_pred isIdStart hw.1 (d := '=') (by decide), beq_false_of_pred isIdStart hw.1 (d := '{') (by decide),
        beq_false_of_pred isIdStart hw.1 (d := '}') (by decide), Bool.or_self]
    have := takeWhile_append_stop r y hw.2 hy
    simp only [List.cons_append, nextRaw, hs, hw.1, this.1, this.2, Bool.false_eq_true, if_false, if_true]

theorem isSym_false_of_pred (p : Char → Bool) (c : Char) (hc : p c = true)
    (h : p ';' = false ∧ p '(' = false ∧ p ')' = false ∧ p ',' = false ∧ p '.' = false ∧ p '[' = false ∧ p ']' = false ∧
      p ':' = false ∧ p '=' = false ∧ p '{' = false ∧ p '}' = false) : isSym c = false := by
  obtain ⟨h1, h2, h3, h4, h5, h6, h7, h8, h9, h10, h11⟩ := h
  simp only [isSym, beq_false_of_pred p hc h1, beq_false_of_pred p hc h2, beq_false_of_pred p hc h3,
    beq_false_of_pred p hc h4, beq_false_of_pred p hc h5, beq_false_of_pred p hc h6, beq_false_of_pred p hc h7,
    beq_false_of_pred p hc h8, beq_false_of_pred p hc h9, beq_false_of_pred p hc h10, beq_false_of_pred p hc h11, Bool.or_self]

theorem not_idStart_of_digit (c : Char) (h : c.isDigit = true) : isIdStart c = false := by
  have hd := Char.isDigit_iff_toNat.mp h
  have h2 : (c == '_') = false := beq_false_of_pred Char.isDigit h (by decide)
  simp only [isIdStart, KV.BenchText.isLetter, h2, Bool.or_false, Bool.or_eq_false_iff, Bool.and_eq_false_iff,
    decide_eq_false_iff_not, beq_eq_false_iff_ne]
  simp only [Char.reduceToNat] at hd
  omega

/-- the parts of a sized constant -/
theorem constWord_parts (w : List Char) (hw : isConstWord w = true) :
    ∃ c ds b h hs, w = c :: ds ++ '\'' :: b :: h :: hs ∧ c.isDigit = true ∧ ds.all Char.isDigit = true ∧
      isBase b = true ∧ isHex h = true ∧ hs.all isHex = true := by
  unfold isConstWord at hw
  split at hw
  · next q b h rest hd =>
    simp only [Bool.and_eq_true, Bool.not_eq_true', beq_iff_eq] at hw
    obtain ⟨⟨⟨⟨h1, h2⟩, h3⟩, h4⟩, h5⟩ := hw
    have hsplit := List.takeWhile_append_dropWhile (p := Char.isDigit) (l := w)
    rw [hd, h2] at hsplit
    have hall : (w.takeWhile Char.isDigit).all Char.isDigit = true := List.all_takeWhile
    cases htw : w.takeWhile Char.isDigit with
    | nil => rw [htw] at h1; simp at h1
    | cons c ds =>
      rw [htw] at hsplit hall
      simp only [List.all_cons, Bool.and_eq_true] at hall
      exact ⟨c, ds, b, h, rest, hsplit.symm, hall.1, hall.2, h3, h4, h5⟩
  · cases hw

theorem nextRaw_const (w y : List Char) (hw : isConstWord w = true) (hy : headNot isIdChar y = true) :
    nextRaw .gen (w ++ y) = some (.word w, y) := by
  obtain ⟨c, ds, b, h, hs, rfl, hc, hds, hb, hh, hhs⟩ := constWord_parts w hw
  have hs1 : isSym c = false := isSym_false_of_pred Char.isDigit c hc (by decide)
  have hs2 : isIdStart c = false := not_idStart_of_digit c hc
  have hs3 : (c == '\\') = false := beq_false_of_pred Char.isDigit hc (by decide)
  have hq : headNot Char.isDigit ('\'' :: b :: h :: (hs ++ y)) = true := by simp [headNot]
  have h1 := takeWhile_append_stop ds ('\'' :: b :: h :: (hs ++ y)) hds hq
  have h2 := takeWhile_append_stop hs y hhs (headNot_mono isIdChar_of_hex y hy)
  simp only [List.cons_append, List.append_assoc, nextRaw, hs1, hs2, hs3, hc, Bool.false_eq_true, if_false, if_true, constTok,
    h1.1, h1.2, hb, hh, h2.1, h2.2, beq_self_eq_true, Bool.and_self]

theorem nextRaw_word (w y : List Char) (hw : tokOK (.gen, .word w) = true) (hy : headNot isIdChar y = true) :
    nextRaw .gen (w ++ y) = some (.word w, y) := by
  simp only [tokOK, Bool.or_eq_true] at hw
  rcases hw with hw | hw
  · exact nextRaw_ident w y hw hy
  · exact nextRaw_const w y hw hy

theorem nextRaw_esc (s : List Char) (e : Char) (y : List Char) (hs : tokOK (.gen, .esc s) = true) (he : isEscTerm e = true) :
    nextRaw .gen ('\\' :: s ++ e :: y) = some (.esc s, y) := by
  simp only [tokOK, Bool.and_eq_true, Bool.not_eq_true'] at hs
  have hq : headNot notEscTerm (e :: y) = true := by simp [headNot, notEscTerm, he]
  have h1 := takeWhile_append_stop s (e :: y) hs.2 hq
  have h0 : isSym '\\' = false := by decide
  have h0' : isIdStart '\\' = false := by decide
  simp only [List.cons_append, nextRaw, h0, h0', Bool.false_eq_true, if_false, beq_self_eq_true, if_true, escTok, h1.1, h1.2, hs.1]

theorem nextRaw_num (ds y : List Char) (hs : tokOK (.num, .num ds) = true) (hy : headNot isIdChar y = true) :
    nextRaw .num (ds ++ y) = some (.num ds, y) := by
  simp only [tokOK, Bool.and_eq_true, Bool.not_eq_true'] at hs
  cases ds with
  | nil => simp at hs
  | cons c r =>
    simp only [List.all_cons, Bool.and_eq_true] at hs
    have h1 := takeWhile_append_stop r y hs.2.2 (headNot_mono isIdChar_of_digit y hy)
    simp only [List.cons_append, nextRaw, hs.2.1, if_true, h1.1, h1.2]

theorem nextRaw_sym (c : Char) (y : List Char) (hs : isSym c = true) : nextRaw .gen (c :: y) = some (.sym c, y) := by
  simp only [nextRaw, hs, if_true]

theorem nextRaw_modkw (y : List Char) : nextRaw .top (kwModule ++ y) = some (.modkw, y) := by
  simp [kwModule, nextRaw, List.isPrefixOf]

/-! ## one pull; the whole text -/

/-- what is left of the gap when the token has been pulled: an escaped identifier takes the first character with it -/
def afterGap (t : Tok) (g : List Char) : List Char :=
  match t with
  | .esc _ => g.drop 1
  | _ => g

theorem startOK_sym (c : Char) (hs : isSym c = true) (hc : (c == '(') = false) : startOK c = true := by
  simp only [isSym, Bool.or_eq_true, beq_iff_eq] at hs
  rcases hs with (((((((((h | h) | h) | h) | h) | h) | h) | h) | h) | h) | h <;> subst h <;> first | decide | (simp at hc)

theorem skipV_lp (y : List Char) (hy : headNot (· == '*') y = true) : skipV .ws ('(' :: y) = some ('(' :: y) := by
  cases y with
  | nil => rfl
  | cons d y' =>
    simp only [headNot, Bool.not_eq_true'] at hy
    simp [skipV, hy]

theorem skipV_tok (ct : CT) (g rest : List Char) (hok : tokOK ct = true) (hg : gapOK ct.2 g rest = true) :
    skipV .ws (tokText ct.2 ++ (g ++ rest)) = some (tokText ct.2 ++ (g ++ rest)) := by
  obtain ⟨c, t⟩ := ct
  cases t with
  | word w =>
    cases c <;> first | (exfalso; simp [tokOK] at hok; done) | skip
    simp only [tokOK, Bool.or_eq_true] at hok
    rcases hok with hw | hw
    · cases w with
      | nil => simp [isIdentWord] at hw
      | cons d r =>
        simp only [isIdentWord, Bool.and_eq_true] at hw
        exact skipV_start d _ (startOK_idStart d hw.1)
    · obtain ⟨d, ds, b, h, hs, rfl, hd, -⟩ := constWord_parts w hw
      exact skipV_start d _ (startOK_digit d hd)
  | esc s => exact skipV_start '\\' _ (by decide)
  | num ds =>
    cases c <;> first | (exfalso; simp [tokOK] at hok; done) | skip
    simp only [tokOK, Bool.and_eq_true, Bool.not_eq_true'] at hok
    cases ds with
    | nil => simp at hok
    | cons d r =>
      simp only [List.all_cons, Bool.and_eq_true] at hok
      exact skipV_start d _ (startOK_digit d hok.2.1)
  | sym d =>
    cases c <;> first | (exfalso; simp [tokOK] at hok; done) | skip
    simp only [gapOK, Bool.and_eq_true, Bool.or_eq_true, bne_iff_ne, ne_eq] at hg
    cases hd : (d == '(') with
    | false => exact skipV_start d _ (startOK_sym d hok hd)
    | true =>
      simp only [beq_iff_eq] at hd
      subst hd
      rcases hg.2 with h | h
      · exact absurd rfl h
      · exact skipV_lp _ h
  | modkw => exact skipV_start 'm' _ (by decide)
  | eof => cases c <;> simp [tokOK] at hok

theorem nextRaw_tok (ct : CT) (g rest : List Char) (hok : tokOK ct = true) (hg : gapOK ct.2 g rest = true) :
    nextRaw ct.1 (tokText ct.2 ++ (g ++ rest)) = some (ct.2, afterGap ct.2 g ++ rest) := by
  obtain ⟨c, t⟩ := ct
  cases t with
  | word w =>
    cases c <;> first | (exfalso; simp [tokOK] at hok; done) | skip
    simp only [gapOK, Bool.and_eq_true] at hg
    exact nextRaw_word w _ hok hg.2
  | esc s =>
    cases c <;> first | (exfalso; simp [tokOK] at hok; done) | skip
    cases g with
    | nil => simp [gapOK] at hg
    | cons e g' =>
      simp only [gapOK, Bool.and_eq_true] at hg
      exact nextRaw_esc s e _ hok hg.1
  | num ds =>
    cases c <;> first | (exfalso; simp [tokOK] at hok; done) | skip
    simp only [gapOK, Bool.and_eq_true] at hg
    exact nextRaw_num ds _ hok hg.2
  | sym d =>
    cases c <;> first | (exfalso; simp [tokOK] at hok; done) | skip
    exact nextRaw_sym d _ hok
  | modkw =>
    cases c <;> first | (exfalso; simp [tokOK] at hok; done) | skip
    exact nextRaw_modkw _
  | eof => cases c <;> simp [tokOK] at hok

theorem gapV_afterGap (t : Tok) (g rest : List Char) (hg : gapOK t g rest = true) : gapV .ws (afterGap t g) = true := by
  cases t with
  | esc s =>
    cases g with
    | nil => simp [gapOK] at hg
    | cons e g' => simp only [gapOK, Bool.and_eq_true] at hg; exact hg.2
  | eof => simp [gapOK] at hg
  | word w => simp only [gapOK, Bool.and_eq_true] at hg; exact hg.1
  | num w => simp only [gapOK, Bool.and_eq_true] at hg; exact hg.1
  | sym w => simp only [gapOK, Bool.and_eq_true] at hg; exact hg.1
  | modkw => exact hg

theorem afterGap_length (t : Tok) (g : List Char) : (afterGap t g).length ≤ g.length := by
  cases t <;> simp [afterGap]

theorem tokText_pos (ct : CT) (hok : tokOK ct = true) : 0 < (tokText ct.2).length := by
  obtain ⟨c, t⟩ := ct
  cases t with
  | word w =>
    cases c <;> first | (exfalso; simp [tokOK] at hok; done) | skip
    cases w with
    | nil => simp [tokOK, isIdentWord, isConstWord] at hok
    | cons d r => simp [tokText]
  | esc s => simp [tokText]
  | num ds =>
    cases c <;> first | (exfalso; simp [tokOK] at hok; done) | skip
    cases ds with
    | nil => simp [tokOK] at hok
    | cons d r => simp [tokText]
  | sym d => simp [tokText]
  | modkw => simp [tokText, kwModule]
  | eof => cases c <;> simp [tokOK] at hok

theorem tokOK_ne_eof (ct : CT) (hok : tokOK ct = true) : ct.2 ≠ .eof := by
  obtain ⟨c, t⟩ := ct
  intro h; simp only at h; subst h; cases c <;> simp [tokOK] at hok

/-- one pull: leading gap, token, its gap, rest -/
theorem next_tok (g0 : List Char) (ct : CT) (g rest : List Char) (hg0 : gapV .ws g0 = true) (hok : tokOK ct = true)
    (hg : gapOK ct.2 g rest = true) :
    next ct.1 (g0 ++ (tokText ct.2 ++ (g ++ rest))) = some (ct.2, afterGap ct.2 g ++ rest) := by
  rw [next, skipV_gap .ws g0 hg0, skipV_tok ct g rest hok hg]
  exact nextRaw_tok ct g rest hok hg

theorem next_end (g0 : List Char) (hg0 : gapV .ws g0 = true) : next .top g0 = some (.eof, []) := by
  have := skipV_gap .ws g0 hg0 []
  rw [List.append_nil] at this
  rw [next, this]; rfl

/-- any layout of a token list lexes back to the token list -/
theorem lexes_render (l : List (CT × List Char)) : ∀ (g0 : List Char), gapV .ws g0 = true →
    (∀ p ∈ l, tokOK p.1 = true) → layoutOK l = true → Lexes (g0 ++ renderL l) (l.map (·.1)) := by
  induction l with
  | nil => intro g0 hg _ _; simp only [renderL, List.append_nil, List.map_nil]; exact .nil (next_end g0 hg)
  | cons p r ih =>
    intro g0 hg0 hok hl
    obtain ⟨ct, g⟩ := p
    simp only [layoutOK, Bool.and_eq_true] at hl
    have ht : tokOK ct = true := hok (ct, g) List.mem_cons_self
    simp only [renderL, List.map_cons]
    have hnext := next_tok g0 ct g (renderL r) hg0 ht hl.1
    refine .cons (c := ct.1) (t := ct.2) (tokOK_ne_eof ct ht) hnext ?_
      (ih _ (gapV_afterGap ct.2 g _ hl.1) (fun p hp => hok p (List.mem_cons_of_mem _ hp)) hl.2)
    have h1 := tokText_pos ct ht
    have h2 := afterGap_length ct.2 g
    simp only [List.length_append]; omega

/-! ## token classes: lexing up to spelling (`sameTok`) -/

/-- pulling tokens from `s`, each in the listed context, yields SPELLINGS of the listed (canonical) tokens, then the end -/
inductive LexesC : List Char → List CT → Prop
  | nil {s : List Char} : next .top s = some (.eof, []) → LexesC s []
  | cons {s r : List Char} {c : Ctx} {a t : Tok} {ts : List CT} :
      a ≠ .eof → next c s = some (a, r) → r.length < s.length → sameTok a t = true → LexesC r ts → LexesC s ((c, t) :: ts)

theorem LexesC.length_le {s : List Char} {ts : List CT} (h : LexesC s ts) : ts.length ≤ s.length := by
  induction h with
  | nil _ => simp
  | cons _ _ hl _ _ ih => simp only [List.length_cons]; omega

theorem LexesC.cons_inv {s : List Char} {c : Ctx} {t : Tok} {ts : List CT} (h : LexesC s ((c, t) :: ts)) :
    ∃ a r, next c s = some (a, r) ∧ sameTok a t = true ∧ LexesC r ts := by
  cases h with
  | cons _ hn _ hs hr => exact ⟨_, _, hn, hs, hr⟩

theorem LexesC.nil_inv {s : List Char} (h : LexesC s []) : next .top s = some (.eof, []) := by
  cases h with
  | nil hn => exact hn

theorem sameTok_refl (t : Tok) : sameTok t t = true := by simp [sameTok]

/-- a text that lexes to a spelling of `ts` lexes to `ts` up to spelling -/
theorem lexesC_of_spells {s : List Char} {as : List CT} (h : Lexes s as) : ∀ (ts : List CT), spellsB as ts = true → LexesC s ts := by
  induction h with
  | nil hn =>
    intro ts hs
    cases ts with
    | nil => exact .nil hn
    | cons _ _ => simp [spellsB] at hs
  | cons hne hn hl _ ih =>
    intro ts hs
    cases ts with
    | nil => simp [spellsB] at hs
    | cons ct ts' =>
      obtain ⟨c', t⟩ := ct
      simp only [spellsB, Bool.and_eq_true, beq_iff_eq] at hs
      obtain ⟨⟨hc, hst⟩, hr⟩ := hs
      subst hc
      exact .cons hne hn hl hst (ih ts' hr)

theorem spellsB_refl (ts : List CT) : spellsB ts ts = true := by
  induction ts with
  | nil => rfl
  | cons ct r ih => obtain ⟨c, t⟩ := ct; simp [spellsB, sameTok_refl, ih]

theorem Lexes.toC {s : List Char} {ts : List CT} (h : Lexes s ts) : LexesC s ts := lexesC_of_spells h ts (spellsB_refl ts)

/-- tokens with one spelling only: literals, `module`, keyword words -/
theorem sameTok_sym {a : Tok} {c : Char} (h : sameTok a (.sym c) = true) : a = .sym c := by
  cases a <;> simp_all [sameTok]

theorem sameTok_modkw {a : Tok} (h : sameTok a .modkw = true) : a = .modkw := by
  cases a <;> simp_all [sameTok]

theorem sameTok_kw {a : Tok} {w : List Char} (hk : (kwOf w).isNone = false) (h : sameTok a (.word w) = true) : a = .word w := by
  cases a <;> simp_all [sameTok]

theorem sameTok_of_sym {c : Char} {t : Tok} (h : sameTok (.sym c) t = true) : t = .sym c := by
  cases t <;> simp_all [sameTok]

theorem sameTok_num {a : Tok} {ds : List Char} (h : sameTok a (.num ds) = true) :
    ∃ ds', a = .num ds' ∧ numVal ds' = numVal ds := by
  cases a with
  | num ds' =>
    refine ⟨ds', rfl, ?_⟩
    simp only [sameTok, Bool.or_eq_true, beq_iff_eq, Bool.and_eq_true] at h
    rcases h with h | h
    · cases h; rfl
    · exact h.2
  | _ => simp_all [sameTok]

theorem sameTok_tokName {a t : Tok} (h : sameTok a t = true) : tokName a = tokName t := by
  cases a <;> cases t <;> simp_all [sameTok, tokName]

end KV.VerilogText
