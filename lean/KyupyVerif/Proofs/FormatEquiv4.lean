import KyupyVerif.Proofs.FormatEquiv3
/-! The Verilog rendering of a closed netlist description builds WITH branch forks (`cfg.bf = true`, `verilog.parse(…,
branchforks=True)`) when the branch-fork names `stem~inst/pin` the reader pass makes are new and pairwise different
(`closedBfNlB`: decidable, about the names of the description only). -/
namespace KV.Netlist
open KV

/-- the input connections of the description in pass-2 order -/
def Nl.conns (nl : Nl) : List (NlGate × (String × Nat × String)) :=
  nl.gates.flatMap fun g => (primInConn g.drv).map fun c => (g, c)

/-- the names of the branch forks `stem~inst/pin` -/
def Nl.branchNames (nl : Nl) : List String := nl.conns.map fun gc => branchName gc.2.2.2 gc.1.inst gc.2.1

/-- closed, and the branch-fork names are pairwise different and no gate name / input port -/
def closedBfNlB (nl : Nl) : Bool := closedNlB nl && nodupS (nl.gateNames ++ nl.pis ++ nl.branchNames)

def bfEps (gc : NlGate × (String × Nat × String)) : List Ep :=
  [Ep.fork (branchName gc.2.2.2 gc.1.inst gc.2.1), Ep.cell gc.1.inst gc.2.2.1]

theorem vFlat_readers_bf (cfg : Cfg) (hbf : cfg.bf = true) (nl : Nl)
    (hnc : ∀ g ∈ nl.gates, ∀ d ∈ g.drv, isConstLit d = false) :
    (vFlat cfg primTL (nl.ports.map nlDecl) (verilogOf nl)).map (·.r) =
      nl.gateNames.map Ep.fork ++ nl.pis.map Ep.fork ++ nl.conns.flatMap bfEps ++ nl.pos.map (fun n => Ep.cell n 0) := by
  rw [vFlat, assignPairs_verilogOf, vInsts_verilogOf, inputNames_nlDecl, outputNames_nlDecl, hbf]
  rw [connWalk_verilogOf nl (connLines true)
    (fun ic => [(⟨.fork ic.2.2.2, .fork (branchName ic.2.2.2 ic.1.name ic.2.1), ic.2.2.2⟩ : VLine),
      ⟨.fork (branchName ic.2.2.2 ic.1.name ic.2.1), .cell ic.1.name ic.2.2.1, ic.2.2.2⟩]) (by
      intro k x hx c hc
      have := hnc x hx c.2.2 (mem_primInConn x.drv c hc)
      simp only [connLines, this, srcFork, Bool.false_eq_true, ↓reduceIte, List.nil_append])]
  simp only [walk, List.append_nil, List.map_append]
  rw [outLines_readers _ (outSig_nlDecl nl.ports)]
  have hB : ∀ l : List String, (l.map fun n => (⟨.cell n 0, .fork n, n⟩ : VLine)).map (·.r) = l.map Ep.fork := by
    intro l; rw [List.map_map]; rfl
  have hE : ∀ l : List String, (l.map fun n => (⟨.fork n, .cell n 0, n⟩ : VLine)).map (·.r) = l.map (fun n => Ep.cell n 0) := by
    intro l; rw [List.map_map]; rfl
  have hD : ∀ l : List NlGate, (l.flatMap fun x => (primInConn x.drv).flatMap fun c =>
      [(⟨.fork c.2.2, .fork (branchName c.2.2 (nlInst x).name c.1), c.2.2⟩ : VLine),
        ⟨.fork (branchName c.2.2 (nlInst x).name c.1), .cell (nlInst x).name c.2.1, c.2.2⟩]).map (·.r) =
      (l.flatMap fun g => (primInConn g.drv).map fun c => (g, c)).flatMap bfEps := by
    intro l
    induction l with
    | nil => rfl
    | cons x r ih =>
      rw [List.flatMap_cons, List.flatMap_cons, List.map_append, List.flatMap_append, ih]
      congr 1
      generalize primInConn x.drv = cs
      induction cs with
      | nil => rfl
      | cons c r2 ih2 => rw [List.flatMap_cons, List.map_append, ih2]; rfl
  rw [hB, hE, hD]
  rfl

theorem nodup_interleave {α β} (A B : α → β) : ∀ l : List α, (l.map A).Nodup → (l.map B).Nodup →
    (∀ x ∈ l, ∀ y ∈ l, A x ≠ B y) → (l.flatMap fun x => [A x, B x]).Nodup
  | [], _, _, _ => List.nodup_nil
  | x :: r, hA, hB, hAB => by
    rw [List.map_cons, List.nodup_cons] at hA hB
    have ih := nodup_interleave A B r hA.2 hB.2 (fun a ha b hb => hAB a (List.mem_cons_of_mem _ ha) b (List.mem_cons_of_mem _ hb))
    have hmem : ∀ e ∈ (r.flatMap fun x => [A x, B x]), ∃ y ∈ r, e = A y ∨ e = B y := by
      intro e he
      obtain ⟨y, hy, hm⟩ := List.mem_flatMap.mp he
      simp only [List.mem_cons, List.not_mem_nil, or_false] at hm
      exact ⟨y, hy, hm⟩
    rw [List.flatMap_cons]
    show (A x :: B x :: _).Nodup
    rw [List.nodup_cons, List.nodup_cons]
    refine ⟨?_, ?_, ih⟩
    · intro hm
      rcases List.mem_cons.mp hm with e | hm
      · exact hAB x List.mem_cons_self x List.mem_cons_self e
      · obtain ⟨y, hy, e | e⟩ := hmem _ hm
        · exact hA.1 (e ▸ List.mem_map_of_mem hy)
        · exact hAB x List.mem_cons_self y (List.mem_cons_of_mem _ hy) e
    · intro hm
      obtain ⟨y, hy, e | e⟩ := hmem _ hm
      · exact hAB y (List.mem_cons_of_mem _ hy) x List.mem_cons_self e.symm
      · exact hB.1 (e ▸ List.mem_map_of_mem hy)

theorem conns_map_cell (nl : Nl) : nl.conns.map (fun gc => Ep.cell gc.1.inst gc.2.2.1) = nl.pinEps := by
  rw [Nl.conns, Nl.pinEps, List.map_flatMap]
  apply fe_flatMap_congr
  intro g _
  rw [List.map_map]
  rfl

theorem mem_conns (nl : Nl) (gc : NlGate × (String × Nat × String)) (h : gc ∈ nl.conns) : gc.1 ∈ nl.gates := by
  obtain ⟨g, hg, hm⟩ := List.mem_flatMap.mp h
  obtain ⟨c, _, rfl⟩ := List.mem_map.mp hm
  exact hg

theorem readers_nodup_bf (nl : Nl) (hc : CommonNl nl) (hbn : (nl.gateNames ++ nl.pis ++ nl.branchNames).Nodup) :
    (nl.gateNames.map Ep.fork ++ nl.pis.map Ep.fork ++ nl.conns.flatMap bfEps ++ nl.pos.map (fun n => Ep.cell n 0)).Nodup := by
  have hfork : ∀ x y : String, Ep.fork x = Ep.fork y → x = y := fun _ _ e => Ep.fork.inj e
  have hcell : ∀ x y : String, Ep.cell x 0 = Ep.cell y 0 → x = y := fun _ _ e => (Ep.cell.inj e).1
  rw [List.nodup_append] at hbn
  obtain ⟨hgp, hbr, hdis⟩ := hbn
  have h1 : (nl.gateNames.map Ep.fork ++ nl.pis.map Ep.fork).Nodup := by
    rw [← List.map_append]
    exact fe_nodup_map Ep.fork hfork _ hgp
  have hmem : ∀ e ∈ nl.conns.flatMap bfEps, ∃ gc ∈ nl.conns,
      e = Ep.fork (branchName gc.2.2.2 gc.1.inst gc.2.1) ∨ e = Ep.cell gc.1.inst gc.2.2.1 := by
    intro e he
    obtain ⟨y, hy, hm⟩ := List.mem_flatMap.mp he
    simp only [bfEps, List.mem_cons, List.not_mem_nil, or_false] at hm
    exact ⟨y, hy, hm⟩
  have h2 : (nl.conns.flatMap bfEps).Nodup := by
    apply nodup_interleave (fun gc : NlGate × (String × Nat × String) => Ep.fork (branchName gc.2.2.2 gc.1.inst gc.2.1))
      (fun gc => Ep.cell gc.1.inst gc.2.2.1)
    · have := fe_nodup_map Ep.fork hfork _ hbr
      rw [Nl.branchNames, List.map_map] at this
      exact this
    · rw [conns_map_cell]
      exact pinEps_nodup nl.gates hc.inames
    · intro x _ y _ e
      cases e
  have h3 : (nl.gateNames.map Ep.fork ++ nl.pis.map Ep.fork ++ nl.conns.flatMap bfEps).Nodup := by
    rw [List.nodup_append]
    refine ⟨h1, h2, ?_⟩
    intro a ha b hb e
    rw [← List.map_append] at ha
    obtain ⟨n, hn, rfl⟩ := List.mem_map.mp ha
    obtain ⟨gc, hgc, rfl | rfl⟩ := hmem b hb
    · exact hdis n hn _ (List.mem_map_of_mem (f := fun gc : NlGate × (String × Nat × String) => branchName gc.2.2.2 gc.1.inst gc.2.1) hgc)
        (Ep.fork.inj e)
    · cases e
  rw [List.nodup_append]
  refine ⟨h3, fe_nodup_map _ hcell _ (pos_nodup nl hc.ports), ?_⟩
  intro a ha b hb e
  obtain ⟨n, hn, rfl⟩ := List.mem_map.mp hb
  rcases List.mem_append.mp ha with ha | ha
  · rw [← List.map_append] at ha
    obtain ⟨m, _, rfl⟩ := List.mem_map.mp ha
    cases e
  · obtain ⟨gc, hgc, rfl | rfl⟩ := hmem a ha
    · cases e
    · exact hc.idisj gc.1 (mem_conns nl gc hgc) ((Ep.cell.inj e).1 ▸ (mem_portNames nl n).mpr (Or.inr hn))

/-- **the Verilog rendering of a closed description with fresh branch-fork names is inside the fragment, with branch forks** -/
theorem verilogOK_verilogOf_bf (cfg : Cfg) (hbf : cfg.bf = true) (nl : Nl) (hc : CommonNl nl) (hcl : ClosedNl nl)
    (hbn : (nl.gateNames ++ nl.pis ++ nl.branchNames).Nodup) :
    verilogOKB cfg primTL nl.portNames (verilogOf nl) = true :=
  verilogOK_verilogOf_of_readers cfg nl hc hcl (by
    rw [vFlat_readers_bf cfg hbf nl hc.nc]
    exact fe_nodupE_of _ (readers_nodup_bf nl hc hbn))

/-- for EVERY setting of `branchforks` -/
theorem verilogOK_verilogOf_any (cfg : Cfg) (nl : Nl) (h : closedBfNlB nl = true) :
    verilogOKB cfg primTL nl.portNames (verilogOf nl) = true := by
  rw [closedBfNlB, Bool.and_eq_true] at h
  obtain ⟨h1, h2⟩ := closedNl_of nl h.1
  cases hbf : cfg.bf with
  | false => exact verilogOK_verilogOf cfg hbf nl (commonNl_of nl h1) h2
  | true => exact verilogOK_verilogOf_bf cfg hbf nl (commonNl_of nl h1) h2 (fe_nodupS_nodup _ h.2)

end KV.Netlist
