import KyupyVerif.Proofs.SdfWave1
import KyupyVerif.Proofs.SdfWave2
import KyupyVerif.Proofs.SdfWave3
import KyupyVerif.Proofs.SdfTextRaw
import KyupyVerif.Proofs.WaveMemCirc
import KyupyVerif.Gen.Tables
/-! A concrete instance for the non-vacuity examples of the timing data path (Props/C14Wave.lean):
`z = NAND2_X1(INV_X1(a), b)` exactly as `verilog.parse("module top(a, b, z); input a; input b; output z; wire n1;
INV_X1 u1 (.I(a), .ZN(n1)); NAND2_X1 u2 (.A1(n1), .A2(b), .ZN(z)); endmodule", tlib=NANGATE, branchforks=True)` builds it
(canonical dump of the real circuit: 12 nodes — a signal fork behind every driver, a branch fork in front of every cell pin —,
11 lines), the tables `sdf.py` reads off it, and an SDF description with distinct IOPATH and INTERCONNECT values.

Lines: 2 `a → fork a`, 4 `fork a → branch a~u1/I` (INTERCONNECT a u1/I), 5 `branch → u1.I` (IOPATH u1 I ZN),
0 `u1.ZN → fork n1`, 6 `fork n1 → branch n1~u2/A1` (INTERCONNECT u1/ZN u2/A1), 7 `branch → u2.A1` (IOPATH u2 A1 ZN),
3 `b → fork b`, 8 `fork b → branch b~u2/A2` (INTERCONNECT b u2/A2), 9 `branch → u2.A2` (IOPATH u2 (posedge A2) ZN),
1 `u2.ZN → fork z` (INTERCONNECT u2/ZN z: the only fork between the pins, no fan-out), 10 `fork z → output z`. -/
namespace KV.SdfWave
open KV KV.Sig KV.Sdf KV.SdfText KV.Wave KV.MapSound

def demoNet : Net :=
  { nodes := #[⟨"INV_X1", [some 5], [some 0]⟩, ⟨"__fork__", [some 0], [some 6]⟩, ⟨"NAND2_X1", [some 7, some 9], [some 1]⟩,
               ⟨"__fork__", [some 1], [some 10]⟩, ⟨"input", [], [some 2]⟩, ⟨"__fork__", [some 2], [some 4]⟩,
               ⟨"input", [], [some 3]⟩, ⟨"__fork__", [some 3], [some 8]⟩, ⟨"output", [some 10], []⟩,
               ⟨"__fork__", [some 4], [some 5]⟩, ⟨"__fork__", [some 6], [some 7]⟩, ⟨"__fork__", [some 8], [some 9]⟩],
    lines := #[⟨0, 0, 1, 0⟩, ⟨2, 0, 3, 0⟩, ⟨4, 0, 5, 0⟩, ⟨6, 0, 7, 0⟩, ⟨5, 0, 9, 0⟩, ⟨9, 0, 0, 0⟩, ⟨1, 0, 10, 0⟩,
               ⟨10, 0, 2, 0⟩, ⟨7, 0, 11, 0⟩, ⟨11, 0, 2, 1⟩, ⟨3, 0, 8, 0⟩],
    io := [4, 6, 8] }
/-- `c.topological_order()` of the real circuit -/
def demoOrder : List Nat := [4, 6, 5, 7, 9, 11, 0, 1, 10, 2, 3, 8]

theorem demo_hyps : demoNet.wfB = true ∧ orderOKB demoNet demoOrder = true ∧
    forksOKB demoNet demoOrder = true ∧ readsDrivenB Gen.kindPrefixes demoNet demoOrder = true := by
  decide +kernel

/-- `WaveSim(c, delays, c_caps=16)`: no fork stripping, no memory re-use -/
def demo : MapIn := simopsMap Gen.kindPrefixes demoNet demoOrder false (fun _ => 16) 4 false

theorem demo_tables : demo.ppiSlots = [14, 15] ∧ demo.ppoSrcs = [(19, 10)] ∧ demo.ix.zero = 11 ∧ demo.ix.tmp = 12 ∧
    demo.loc 14 = 12 ∧ demo.loc 15 = 16 ∧ demo.loc 11 = 0 ∧ demo.loc 19 = 180 ∧ demo.cap 19 = 16 ∧
    demo.cap 14 = 4 ∧ demo.cap 15 = 4 ∧ demo.cap 11 = 4 := by decide +kernel

theorem demo_check : demo.check = none :=
  simopsMap_accepted Gen.kindPrefixes demoNet demoOrder false (fun _ => 16) 4 false demo_hyps.1
    demo_hyps.2.1 (fun h => by cases h) demo_hyps.2.2.2 (by decide)

/-- the block list: one top-level block with the four INTERCONNECTs, one block per instance. Numbers in thousandths. -/
def demoB : List RawCell :=
  [⟨[], [[⟨"a", "u1/I", [[some 125, some 250, some 375]]⟩, ⟨"u1/ZN", "u2/A1", [[some 250, some 375, some 500]]⟩,
          ⟨"b", "u2/A2", [[some 625, some 625, some 625], [some 750, some 750, some 750]]⟩,
          ⟨"u2/ZN", "z", [[some 500, some 625, some 750]]⟩]]⟩,
   ⟨["u1"], [[⟨"I", "ZN", [[some 1000, some 1125, some 1250]]⟩]]⟩,
   ⟨["u2"], [[⟨"A1", "ZN", [[some 2000, some 2500, some 3000]]⟩,
             ⟨"(posedge A2)", "ZN", [[some 1500, some 1500, some 1500], [some 1750, some 1750, some 1750]]⟩]]⟩]

/-- the SDF text -/
def demoText : String := printSdf (ofRaw demoB)

theorem demoText_eq : demoText = "(DELAYFILE (CELL (DELAY (ABSOLUTE (INTERCONNECT a u1/I (0.125:0.250:0.375)) (INTERCONNECT u1/ZN u2/A1 (0.250:0.375:0.500)) (INTERCONNECT b u2/A2 (0.625:0.625:0.625) (0.750:0.750:0.750)) (INTERCONNECT u2/ZN z (0.500:0.625:0.750))))) (CELL (INSTANCE u1) (DELAY (ABSOLUTE (IOPATH I ZN (1.000:1.125:1.250))))) (CELL (INSTANCE u2) (DELAY (ABSOLUTE (IOPATH A1 ZN (2.000:2.500:3.000)) (IOPATH (posedge A2) ZN (1.500:1.500:1.500) (1.750:1.750:1.750))))))\n" := by
  decide +kernel

theorem demoB_ok : rawShapeOK demoB = true ∧ (ofRaw demoB).valid = true ∧ rawNonneg demoB = true := by decide +kernel

/-- line feeding an input pin (what `cell.ins[tlib.pin_index(cell.kind, pin)]` gives on the real circuit) -/
def demoPins : PinTable := fun c p =>
  if c = "u1" ∧ p = "I" then some 5 else if c = "u2" ∧ p = "A1" then some 7 else if c = "u2" ∧ p = "A2" then some 9 else none
/-- input line of the fork between two pins (the branch fork, or the only fork when there is no fan-out) -/
def demoIc : IcTable := fun c1 p1 c2 p2 =>
  if c1 = "a" ∧ p1 = none ∧ c2 = "u1" ∧ p2 = some "I" then some 4
  else if c1 = "u1" ∧ p1 = some "ZN" ∧ c2 = "u2" ∧ p2 = some "A1" then some 6
  else if c1 = "b" ∧ p1 = none ∧ c2 = "u2" ∧ p2 = some "A2" then some 8
  else if c1 = "u2" ∧ p1 = some "ZN" ∧ c2 = "z" ∧ p2 = none then some 1 else none

theorem demoPins_range (c p : String) (l : Nat) (h : demoPins c p = some l) : l = 5 ∨ l = 7 ∨ l = 9 := by
  unfold demoPins at h
  repeat' split at h
  all_goals first | (cases h; omega) | cases h

theorem demoIc_range (c1 : String) (p1 : Option String) (c2 : String) (p2 : Option String) (l : Nat)
    (h : demoIc c1 p1 c2 p2 = some l) : l = 4 ∨ l = 6 ∨ l = 8 ∨ l = 1 := by
  unfold demoIc at h
  repeat' split at h
  all_goals first | (cases h; omega) | cases h

/-- node names of the real circuit (parallel to `demoNet.nodes`) and `NANGATE.pin_index` on the two cell kinds -/
def demoNames : Array String := #["u1", "n1", "u2", "z", "a", "a", "b", "b", "z", "a~u1/I", "n1~u2/A1", "b~u2/A2"]
def demoPinIdx : PinIdx := fun kind pin =>
  if kind = "INV_X1" ∧ (pin = "I" ∨ pin = "ZN") then some 0
  else if kind = "NAND2_X1" ∧ (pin = "A1" ∨ pin = "ZN") then some 0
  else if kind = "NAND2_X1" ∧ pin = "A2" then some 1 else none

/-- the two tables are what `netPinLine` / `netIcLine` read off the netlist for every name the SDF file uses (and `none` for a
cell or a connection that is not there) -/
theorem demo_tables_net :
    ([("u1", "I"), ("u2", "A1"), ("u2", "A2"), ("u3", "A1"), ("n1", "I")].all fun q =>
      netPinLine demoNet demoNames demoPinIdx q.1 q.2 == demoPins q.1 q.2) = true ∧
    ([("a", none, "u1", some "I"), ("u1", some "ZN", "u2", some "A1"), ("b", none, "u2", some "A2"),
      ("u2", some "ZN", "z", none), ("a", none, "u2", some "A1"), ("u1", some "ZN", "z", none)].all fun q =>
      netIcLine demoNet demoNames demoPinIdx q.1 q.2.1 q.2.2.1 q.2.2.2 == demoIc q.1 q.2.1 q.2.2.1 q.2.2.2) = true := by
  decide +kernel

/-- the demo file has a top-level block: `interconnects` answers (the real call does not raise) -/
theorem demo_ic_isSome : (interconnects demoIc (parse .merge demoB)).isSome = true := by decide +kernel

/-- the INTERCONNECT array of the demo: the answer of `interconnects`, taken out with the proof that there is one -/
def demoIcArr : Arr := (interconnects demoIc (parse .merge demoB)).get demo_ic_isSome

theorem demo_ic : interconnects demoIc (parse .merge demoB) = some demoIcArr := (Option.some_get demo_ic_isSome).symm

/-- the delay table of the run with data set `d` -/
def demoDelayD (d : Nat) : Nat → Bool → Bool → Int := sumDelay demoPins (parse .merge demoB) demoIcArr d

/-- the delay table of the run with data set 0 -/
def demoDelay : Nat → Bool → Bool → Int := demoDelayD 0

/-- `sdfDelay` / `sdfCfg` of the demo are defined (not `none`) and are these tables -/
theorem demo_sdfDelay (d : Nat) : sdfDelay demoPins demoIc (parse .merge demoB) d = some (demoDelayD d) := by
  unfold sdfDelay
  rw [demo_ic]
  rfl

theorem demo_cfg (d : Nat) (cap : Nat → Nat) :
    sdfCfg demoPins demoIc (parse .merge demoB) d cap = some ⟨demoDelayD d, cap⟩ := by
  unfold sdfCfg
  rw [demo_sdfDelay]
  rfl

/-- the whole table, lines 0 … 10 (rows `[d00, d01, d10, d11]`): the IOPATH / INTERCONNECT values of data set 0 on the lines
named in the header, 0 on the lines from a driver to its signal fork; `(posedge A2)` fills input polarity 0 only -/
theorem demoDelay_table :
    (List.range 11).map (fun l => [demoDelay l false false, demoDelay l false true, demoDelay l true false, demoDelay l true true])
    = [[0, 0, 0, 0], [500, 500, 500, 500], [0, 0, 0, 0], [0, 0, 0, 0], [125, 125, 125, 125], [1000, 1000, 1000, 1000],
       [250, 250, 250, 250], [2000, 2000, 2000, 2000], [625, 750, 625, 750], [1500, 1750, 0, 0], [0, 0, 0, 0]] := by
  decide +kernel

/-- initial memory as `s_to_c` leaves it for `a = (0, 1.000, 1)`, `b = (1, ·, 1)`: `a` rises at tick 1000 (cell 12), `b` is
constant 1 (`TMIN` in cell 16), everything else `TMAX` -/
def demoM0 : Int → T := fun a => if a = 12 then T.fin 1000 else if a = 16 then T.tmin else T.tmax

theorem demo_inputs : ∀ x, x ∈ demo.ppiSlots ∨ x = demo.ix.zero → (rdWave (demo.loc x) (demo.cap x) demoM0).ok := by
  have h1 : demo.ppiSlots = [14, 15] := demo_tables.1
  have h2 : demo.ix.zero = 11 := rfl
  intro x hx
  rw [h1, h2] at hx
  simp only [List.mem_cons, List.not_mem_nil, or_false] at hx
  rcases hx with (rfl | rfl) | rfl <;> (simp only [Wv.ok, WfRem]; decide +kernel)

theorem demo_env : inputEnv demo demoM0 14 = ⟨[T.fin 1000], T.tmax⟩ ∧ inputEnv demo demoM0 15 = ⟨[T.tmin], T.tmax⟩ ∧
    inputEnv demo demoM0 11 = Wv.empty := by decide +kernel

theorem demo_env_cases (P : Nat → Wv → Prop) (h14 : P 14 ⟨[T.fin 1000], T.tmax⟩) (h15 : P 15 ⟨[T.tmin], T.tmax⟩)
    (hrest : ∀ l, l ≠ 14 → l ≠ 15 → P l Wv.empty) : ∀ l, P l (inputEnv demo demoM0 l) := by
  intro l
  by_cases e14 : l = 14
  · subst e14; rw [demo_env.1]; exact h14
  · by_cases e15 : l = 15
    · subst e15; rw [demo_env.2.1]; exact h15
    · by_cases e11 : l = 11
      · subst e11; rw [demo_env.2.2]; exact hrest 11 (by decide) (by decide)
      · have : inputEnv demo demoM0 l = Wv.empty := by
          unfold inputEnv
          rw [demo_tables.1, if_neg]
          simp only [List.mem_cons, List.not_mem_nil, or_false]
          rintro ((h | h) | h)
          · exact e14 h
          · exact e15 h
          · exact e11 h
        rw [this]; exact hrest l e14 e15

theorem demoDelay_nonneg : ∀ l a b, 0 ≤ demoDelay l a b :=
  sdfDelay_nonneg .merge demoPins demoIc demoB demoB_ok.2.2 0 demoDelay (demo_sdfDelay 0)

/-- a propagation of the demo: the deterministic evaluator in program order, arbitrary left-overs behind the terminators -/
theorem demo_propagated (junk : Int → Nat → Wv → (Int → T) → Int → T) :
    Propagated demo demoDelay demoM0 (memRun demo (waveRW junk) (waveRow (wcfg demo demoDelay) demo) demo.ops demoM0) :=
  propagated_exists demo demo_check (by decide) demoDelay demoDelay_nonneg junk demoM0 (inputEnv demo demoM0)
    (inputEnv_ok demo demoM0 demo_inputs) (stimulus_inputEnv demo demoM0)

/-- the signal-level result on the captured line 10: initially 0 (`NAND(INV(0), 1) = 0`), rises at
4875 = 1000 + 125 + 1000 + 250 + 2000 + 500 -/
theorem demo_sim : simWave (wcfg demo demoDelay) (waveProg demo) (inputEnv demo demoM0) 10 = ⟨[T.fin 4875], T.tmax⟩ := by
  decide +kernel

/-- the sensitised path from input slot 14 (`a`) to the captured line 10: rows in program order, operand slot 0 each -/
def demoPath : List (OpRow × Nat) :=
  [(⟨43690, 2, 14, 11, 11, 11⟩, 0), (⟨43690, 4, 2, 11, 11, 11⟩, 0), (⟨43690, 5, 4, 11, 11, 11⟩, 0),
   (⟨21845, 0, 5, 11, 11, 11⟩, 0), (⟨43690, 6, 0, 11, 11, 11⟩, 0), (⟨43690, 7, 6, 11, 11, 11⟩, 0),
   (⟨30583, 1, 7, 9, 11, 11⟩, 0), (⟨43690, 10, 1, 11, 11, 11⟩, 0)]

/-- windows of the stimulus: `a` switches at 1000, nothing else switches -/
def demoWin : Nat → C04.Win := fun l => if l = 14 then some (1000, 1000) else none

theorem demo_win_ok : ∀ l, C04.WRel (inputEnv demo demoM0 l) (demoWin l) := by
  apply demo_env_cases (fun l w => C04.WRel w (demoWin l))
  · refine ⟨by simp only [Wv.ok, WfRem]; decide +kernel, ?_⟩
    intro t ht
    simp only [List.mem_singleton, T.fin.injEq] at ht
    exact ⟨1000, 1000, rfl, by omega, by omega⟩
  · refine ⟨by simp only [Wv.ok, WfRem]; decide +kernel, ?_⟩
    intro t ht; simp at ht
  · intro l _ _
    exact ⟨Wv.empty_ok, fun t ht => by simp [Wv.empty] at ht⟩

end KV.SdfWave
