import KyupyVerif.Proofs.VerilogSem
import KyupyVerif.Proofs.BenchEnd
/-! What the interface nodes of `verilogNet …` capture (`v_captures`), soundness of the driver's acceptance check
(`vModelB_sound`), and the composition with the scheduled simulation (`verilog_sim_generic`). -/
namespace KV.Netlist
open KV KV.Sig

universe u
variable {cfg : Cfg} {tl : TL} {ports : List String} {stmts : List Stmt}

theorem v_label_inLine {α : Type u} (hok : VOK cfg tl ports stmts) (z : α) (prim : String → α → α → α → α → α) (σ : String → α) (e : Ep) :
    (inLineOf (vL cfg tl stmts) e).map (vLabel cfg tl stmts z prim σ) =
      if (vFlat cfg tl (sigDecls stmts) stmts).any (fun t => t.r == e) then some (wOfV cfg tl stmts z prim σ e) else none := by
  have hs := inLineOf_isSome (vL cfg tl stmts) e
  rw [any_vL] at hs
  cases hl : inLineOf (vL cfg tl stmts) e with
  | none => rw [hl] at hs; simp only [Option.isSome_none] at hs; rw [← hs]; rfl
  | some j =>
    rw [hl] at hs; simp only [Option.isSome_some] at hs; rw [← hs]
    obtain ⟨p, hp1, hp2⟩ := inLineOf_some _ _ _ hl
    obtain ⟨hj, hpj⟩ := List.getElem?_eq_some_iff.mp hp1
    have hj' : j < (vFlat cfg tl (sigDecls stmts) stmts).length := by rw [← vL_length]; exact hj
    simp only [Option.map_some, if_true, Option.some.injEq]
    rw [vLabel_eq z prim σ j hj', ← wOfV_line hok z prim σ _ (List.getElem_mem hj')]
    have : ((vFlat cfg tl (sigDecls stmts) stmts)[j]).r = e := by
      rw [← hp2, ← hpj, vL_get j hj]; rfl
    rw [this]

/-- what is captured at the `s_nodes` positions under the labelling of an environment: an output port bit shows its signal, a state
element the signal on its input pin index 0, nothing at input ports -/
theorem v_captures {α : Type u} (hok : VOK cfg tl ports stmts) (z : α) (prim : String → α → α → α → α → α) (σ : String → α) :
    ((verilogNet cfg tl ports stmts).sNodes.map fun n =>
        ((verilogNet cfg tl ports stmts).node n).inPin 0 |>.map (vLabel cfg tl stmts z prim σ)) =
      vCaptures tl ports stmts z prim σ := by
  rw [verilogNet_sNodes hok, List.map_map]
  unfold vCaptures
  apply List.map_congr_left
  intro e he
  obtain ⟨hres, h0⟩ := vSNames_resolved hok e he
  have hpin : ((verilogNet cfg tl ports stmts).node ((module cfg tl ports stmts).nodeIdx e)).inPin 0 = inLineOf (vL cfg tl stmts) e := by
    have := toNet_inPin_ep (module cfg tl ports stmts) (module cfg tl ports stmts).ioVerilog e hres
    rw [h0, module_flat' hok] at this
    exact this
  simp only [Function.comp_def, hpin]
  rw [v_label_inLine hok z prim σ e]
  cases e with
  | fork s => simp [Ep.rpin] at h0 ⊢; exfalso
              unfold vSNames at he
              simp only [List.mem_append, List.mem_map, List.mem_filter] at he
              rcases he with (⟨_, _, h⟩ | ⟨_, _, h⟩) | ⟨_, _, h⟩ <;> cases h
  | cell n p =>
    have hp : p = 0 := h0
    subst hp
    simp only
    by_cases hout : n ∈ outputNames (sigDecls stmts)
    · have hmem : (⟨.fork n, .cell n 0, n⟩ : VLine) ∈ vFlat cfg tl (sigDecls stmts) stmts := vFlat_output _ n hout
      have hany : ((vFlat cfg tl (sigDecls stmts) stmts).any fun t => t.r == Ep.cell n 0) = true := by
        rw [List.any_eq_true]; exact ⟨_, hmem, by simp⟩
      have := wOfV_line hok z prim σ _ hmem
      simp only at this
      simp only [hany, if_true, this, List.contains_eq_mem, hout, decide_true, sigVal_driven hok z prim σ n (hok.outs n hout)]
    · have hc : (outputNames (sigDecls stmts)).contains n = false := by simpa using hout
      simp only [hc, Bool.false_eq_true, if_false]
      cases hf : (vInsts stmts).find? (fun i => i.name == n) with
      | none =>
        have hany : ((vFlat cfg tl (sigDecls stmts) stmts).any fun t => t.r == Ep.cell n 0) = false := by
          rw [List.any_eq_false]
          intro t ht hr
          have hr' : t.r = .cell n 0 := by simpa using hr
          rcases mem_vFlat _ t ht with ⟨_, _, _, _, rfl⟩ | ⟨_, _, rfl⟩ | ⟨kk, ts, _, htp⟩ | ⟨kk, j, hj, c, hc, htc⟩ | ⟨m, hm, rfl⟩
          · cases hr'
          · cases hr'
          · unfold pairLines at htp
            split at htp <;> (simp only [List.mem_singleton] at htp; subst htp; cases hr')
          · rw [List.find?_eq_none] at hf
            rcases (mem_connLines cfg.bf kk j c t).mp htc with ⟨_, rfl⟩ | ⟨_, rfl | rfl⟩ | ⟨_, rfl⟩
            · cases hr'
            · cases hr'
            · simp only [Ep.cell.injEq] at hr'
              have := hf j hj
              simp [hr'.1] at this
            · simp only [Ep.cell.injEq] at hr'
              have := hf j hj
              simp [hr'.1] at this
          · simp only [Ep.cell.injEq, and_true] at hr'
            exact hout (hr' ▸ hm)
        rw [hany]; rfl
      | some i =>
        have hi := List.mem_of_find?_eq_some hf
        have hin : i.name = n := by simpa using List.find?_some hf
        subst hin
        have h1 := inVal_inst hok i hi z prim (wOfV cfg tl stmts z prim σ) σ (fun t ht _ => wOfV_line hok z prim σ t ht) 0 0
        rw [inVal_cell_eq, any_vL] at h1
        exact h1

/-! ## the driver's acceptance check -/

theorem vModelB_sound {α : Type u} [BEq α] [LawfulBEq α] (z : α) (neg : α → α) (prim : String → α → α → α → α → α) (a : Nat → α)
    (tab : List (String × α)) (h : vModelB tl ports stmts z neg prim a tab = true) :
    VModel tl ports stmts z neg prim a (vEnvOf z tab) := by
  unfold vModelB at h
  simp only [Bool.and_eq_true, List.all_eq_true, beq_iff_eq] at h
  refine ⟨fun i hi o ho => h.1.1.1 i hi o ho, fun n hn => h.1.1.2 n hn, fun ts hts => h.1.2 ts hts, fun s hs => ?_⟩
  unfold vEnvOf lookupA
  cases hf : tab.find? (fun p => p.1 == s) with
  | none => rfl
  | some p =>
    exfalso
    have h1 := List.mem_of_find?_eq_some hf
    have h2 : p.1 = s := by simpa using List.find?_some hf
    have h3 := h.2 p h1
    rw [h2, hs] at h3
    cases h3

/-! ## composition with the scheduled simulation -/

theorem verilog_sim_generic {α : Type u} (hok : VOK cfg tl ports stmts) (sem spec : Nat → List α → α)
    (heq : ∀ code, KnownCode code → ∀ xs, sem code xs = spec code xs) (neg : α → α) (prim : String → α → α → α → α → α)
    (hs : SemSpec spec neg prim) (order : List Nat) (ho : orderOKB (verilogNet cfg tl ports stmts) order = true)
    (hfk : forksOKB (verilogNet cfg tl ports stmts) order = true)
    (hall : linesDrivenB Gen.kindPrefixes (verilogNet cfg tl ports stmts) order = true) (env : Nat → α) :
    ∃ σ, VModel tl ports stmts (env (verilogNet cfg tl ports stmts).idx.zero) neg prim
        (fun p => env ((verilogNet cfg tl ports stmts).idx.ppi + p)) σ ∧
      (∀ σ', VModel tl ports stmts (env (verilogNet cfg tl ports stmts).idx.zero) neg prim
        (fun p => env ((verilogNet cfg tl ports stmts).idx.ppi + p)) σ' → σ' = σ) ∧
      (∀ i, i < (verilogNet cfg tl ports stmts).lines.size →
        exec sem ((genOps Gen.kindPrefixes (verilogNet cfg tl ports stmts) order false).map OpRow.toOp) env i =
          vLabel cfg tl stmts (env (verilogNet cfg tl ports stmts).idx.zero) prim σ i) ∧
      ((verilogNet cfg tl ports stmts).sNodes.map fun n => ((verilogNet cfg tl ports stmts).node n).inPin 0 |>.map
        (exec sem ((genOps Gen.kindPrefixes (verilogNet cfg tl ports stmts) order false).map OpRow.toOp) env)) =
          vCaptures tl ports stmts (env (verilogNet cfg tl ports stmts).idx.zero) prim σ := by
  have hwf : (verilogNet cfg tl ports stmts).wfB = true := toNet_wf _ _
  obtain ⟨h1, h2⟩ := sim_is_the_labelling sem spec heq neg prim hs (verilogNet cfg tl ports stmts) order hwf ho hfk hall env
  obtain ⟨σ, hm, hl⟩ := v_labelling_model hok _ neg prim _ _ h1
  refine ⟨σ, hm, ?_, hl, ?_⟩
  · intro σ' hm'
    apply v_model_unique hok _ neg prim _ σ' σ hm' hm
    intro i hi
    rw [← hl i hi]
    exact h2 _ (v_model_labelling hok _ neg prim _ σ' hm') i hi
  · rw [← v_captures hok (env (verilogNet cfg tl ports stmts).idx.zero) prim]
    apply List.map_congr_left
    intro n hn
    cases hp : ((verilogNet cfg tl ports stmts).node n).inPin 0 with
    | none => rfl
    | some l =>
      have hnlt : n < (verilogNet cfg tl ports stmts).nodes.size := by
        rw [verilogNet_sNodes hok] at hn
        obtain ⟨e, he, rfl⟩ := List.mem_map.mp hn
        unfold verilogNet
        rw [toNet_nodes_size]
        exact (vSNames_resolved hok e he).1
      have hlt := (wf_in hwf hnlt (inPin_some hp)).1
      simp only [Option.map_some, hl l hlt]

end KV.Netlist
