import KyupyVerif.Model.Cycle
/-! Simulation lemma for the clock loop: a relation between two value domains that every op of the program and `merge`
preserve is preserved by `cycle(k)` — lanes of the bit-parallel simulator, refinement between the logics, … lift from one
`c_prop` (C01 `sim2_lanes`, C02) to any number of cycles. -/
namespace KV.Cycle
open KV KV.Sig

theorem _root_.KV.Sig.All2.set {α β} {R : α → β → Prop} {xs : List α} {ys : List β} (h : All2 R xs ys) (i : Nat) {a : α} {b : β}
    (hab : R a b) : All2 R (xs.set i a) (ys.set i b) := by
  induction h generalizing i with
  | nil => exact .nil
  | cons hh ht ih =>
    cases i with
    | zero => exact .cons hab ht
    | succ i => exact .cons hh (ih i)

theorem _root_.KV.Sig.All2.map_eq {α β} {f : α → β} {xs : List α} {ys : List β} (h : All2 (fun a b => f a = b) xs ys) : xs.map f = ys := by
  induction h with
  | nil => rfl
  | cons hh _ ih => rw [List.map_cons, hh, ih]

theorem _root_.KV.Sig.All2.of_map {α β} (f : α → β) (xs : List α) : All2 (fun a b => f a = b) xs (xs.map f) := by
  induction xs with
  | nil => exact .nil
  | cons x r ih => exact .cons rfl ih

section
variable {α β : Type} (R : α → β → Prop)

theorem sToC_rel (T : Tabs) (d1 : α) (d2 : β) (hd : R d1 d2) (a1 : List α) (a2 : List β) (ha : All2 R a1 a2)
    (e1 : Nat → α) (e2 : Nat → β) (he : ∀ l, R (e1 l) (e2 l)) : ∀ l, R (sToC T d1 a1 e1 l) (sToC T d2 a2 e2 l) := by
  unfold sToC
  generalize T.pippi = ps
  induction ps generalizing e1 e2 with
  | nil => exact he
  | cons px r ih =>
    simp only [List.foldl_cons]
    apply ih
    intro l
    simp only [upd]
    split
    · exact ha.getD _ _ _ hd
    · exact he l

theorem cToS_rel (T : Tabs) (e1 : Nat → α) (e2 : Nat → β) (he : ∀ l, R (e1 l) (e2 l)) (s1 : List α) (s2 : List β)
    (hs : All2 R s1 s2) : All2 R (cToS T e1 s1) (cToS T e2 s2) := by
  unfold cToS
  generalize T.poppo = ps
  induction ps generalizing s1 s2 with
  | nil => exact hs
  | cons px r ih =>
    simp only [List.foldl_cons]
    exact ih _ _ (hs.set _ (he _))

theorem ppoToPpi_rel (T : Tabs) (m1 : α → α → α) (m2 : β → β → β)
    (hm : ∀ a b a' b', R a b → R a' b' → R (m1 a a') (m2 b b')) (d1 : α) (d2 : β) (hd : R d1 d2)
    (a1 : List α) (a2 : List β) (ha : All2 R a1 a2) (c1 : List α) (c2 : List β) (hc : All2 R c1 c2) :
    All2 R (ppoToPpi T m1 d1 a1 c1) (ppoToPpi T m2 d2 a2 c2) := by
  unfold ppoToPpi
  generalize T.ppio = ps
  have key : ∀ (x1 : List α) (x2 : List β), All2 R x1 x2 →
      All2 R (ps.foldl (fun s p => s.set p (m1 (a1.getD p d1) (c1.getD p d1))) x1)
             (ps.foldl (fun s p => s.set p (m2 (a2.getD p d2) (c2.getD p d2))) x2) := by
    induction ps with
    | nil => intro _ _ h; exact h
    | cons p r ih =>
      intro x1 x2 hx
      simp only [List.foldl_cons]
      exact ih _ _ (hx.set _ (hm _ _ _ _ (ha.getD _ _ _ hd) (hc.getD _ _ _ hd)))
  exact key _ _ ha

/-- two simulator states related signal by signal and entry by entry -/
structure StRel (st1 : St α) (st2 : St β) : Prop where
  env : ∀ l, R (st1.env l) (st2.env l)
  s0 : All2 R st1.s.s0 st2.s.s0
  s1 : All2 R st1.s.s1 st2.s.s1

theorem cycle1_rel (sem1 : Op → List α → α) (sem2 : Op → List β → β) (ops : List Op)
    (hop : ∀ op ∈ ops, ∀ (xs : List α) (ys : List β), All2 R xs ys → R (sem1 op xs) (sem2 op ys))
    (T : Tabs) (m1 : α → α → α) (m2 : β → β → β) (hm : ∀ a b a' b', R a b → R a' b' → R (m1 a a') (m2 b b'))
    (d1 : α) (d2 : β) (hd : R d1 d2) (st1 : St α) (st2 : St β) (h : StRel R st1 st2) :
    StRel R (cycle1 sem1 ops T m1 d1 st1) (cycle1 sem2 ops T m2 d2 st2) := by
  have he2 := execG_rel_on R sem1 sem2 ops hop _ _ (sToC_rel R T d1 d2 hd _ _ h.s0 _ _ h.env)
  have hs1 := cToS_rel R T _ _ he2 _ _ h.s1
  exact ⟨he2, ppoToPpi_rel R T m1 m2 hm d1 d2 hd _ _ h.s0 _ _ hs1, hs1⟩

/-- **the clock loop preserves every relation that the ops and `merge` preserve** -/
theorem cycleK_rel (sem1 : Op → List α → α) (sem2 : Op → List β → β) (ops : List Op)
    (hop : ∀ op ∈ ops, ∀ (xs : List α) (ys : List β), All2 R xs ys → R (sem1 op xs) (sem2 op ys))
    (T : Tabs) (m1 : α → α → α) (m2 : β → β → β) (hm : ∀ a b a' b', R a b → R a' b' → R (m1 a a') (m2 b b'))
    (d1 : α) (d2 : β) (hd : R d1 d2) (k : Nat) (st1 : St α) (st2 : St β) (h : StRel R st1 st2) :
    StRel R (cycleK sem1 ops T m1 d1 k st1) (cycleK sem2 ops T m2 d2 k st2) := by
  induction k generalizing st1 st2 with
  | zero => exact h
  | succ k ih => exact ih _ _ (cycle1_rel R sem1 sem2 ops hop T m1 m2 hm d1 d2 hd st1 st2 h)

end
end KV.Cycle
