import KyupyVerif.Proofs.RowsLineEq
import KyupyVerif.Proofs.LinesDriven
/-! The three documented algebras satisfy `SemSpec` (the specified row semantics `specL2/4/8` is the specification
evaluator's meaning `prim2/4/8` of the primitive names, `INV1` its inversion, `BUF1` the identity), and the acceptance
predicate of the oracle's netlist evaluator (`consistentB`, evaluated by the driver on every labelling `evalAll` returns)
characterises the simulation result: every labelling it accepts equals the result of the simulation on every line. -/
namespace KV
open KV.Sig

theorem buf1_mem : ("BUF1", BUF1) ∈ Gen.prims := by decide +kernel
theorem inv1_mem : ("INV1", INV1) ∈ Gen.prims := by decide +kernel

theorem semSpec8 : SemSpec specL8 specNot prim8 where
  prim_eq := by
    intro name code hm a b c d
    unfold specL8 prim8
    rw [nameOf_of_mem hm]
    simp only [Option.bind_some]
    cases comp8 name <;> rfl
  buf := by
    intro a b c d
    unfold specL8
    rw [nameOf_of_mem buf1_mem]
    rfl
  inv := by
    intro a b c d
    unfold specL8
    rw [nameOf_of_mem inv1_mem]
    rfl

theorem semSpec4 : SemSpec specL4 spec4Not prim4 where
  prim_eq := by
    intro name code hm a b c d
    unfold specL4 prim4
    rw [nameOf_of_mem hm]
    simp only [Option.bind_some]
    cases comp4 name <;> rfl
  buf := by
    intro a b c d
    unfold specL4
    rw [nameOf_of_mem buf1_mem]
    rfl
  inv := by
    intro a b c d
    unfold specL4
    rw [nameOf_of_mem inv1_mem]
    rfl

theorem semSpec2 : SemSpec specL2 (!·) prim2 where
  prim_eq := by
    intro name code hm a b c d
    unfold prim2
    rw [specL2_formula hm a b c d]
    rfl
  buf := by
    intro a b c d
    show lutBit4 BUF1 a b c d = a
    cases a <;> cases b <;> cases c <;> cases d <;> decide
  inv := by
    intro a b c d
    show lutBit4 INV1 a b c d = !a
    cases a <;> cases b <;> cases c <;> cases d <;> decide

/-! ### the oracle's acceptance predicate -/

/-- `lineEq` looks at the position table only at the driver of the line and at the labelling only on the lines of the
    driver's input pins -/
theorem lineEq_congr {α} (net : Net) (sp1 sp2 : Nat → Option Nat) (z : α) (neg : α → α)
    (prim : String → α → α → α → α → α) (a : Nat → α) (v1 v2 : Nat → α) (l : Nat)
    (hsp : sp1 (net.line l).driver = sp2 (net.line l).driver)
    (hv : ∀ i l', (net.node (net.line l).driver).inPin i = some l' → v1 l' = v2 l') :
    lineEq net sp1 z neg prim a v1 l = lineEq net sp2 z neg prim a v2 l := by
  have key : ∀ i, (net.node (net.line l).driver).inPin i = none ∨
      ∃ l', (net.node (net.line l).driver).inPin i = some l' ∧ v1 l' = v2 l' := by
    intro i
    cases h : (net.node (net.line l).driver).inPin i with
    | none => exact Or.inl rfl
    | some l' => exact Or.inr ⟨l', rfl, hv i l' h⟩
  unfold lineEq
  simp only [hsp]
  rcases key 0 with h0 | ⟨a0, h0, e0⟩ <;> rcases key 1 with h1 | ⟨a1, h1, e1⟩ <;>
    rcases key 2 with h2 | ⟨a2, h2, e2⟩ <;> rcases key 3 with h3 | ⟨a3, h3, e3⟩ <;> simp only [*]

theorem sPosTable_getD (net : Net) {n : Nat} (hn : n < net.nodes.size) : net.sPosTable.getD n none = net.sPos n := by
  unfold Net.sPosTable Net.sPos
  simp only [Array.getD_eq_getD_getElem?, List.getElem?_toArray, List.getElem?_map, List.getElem?_range hn,
    Option.map_some, Option.getD_some]

/-- **every labelling of the lines that the oracle's checker accepts is the simulation result**: for every well-formed netlist
    all of whose lines are driven by scheduled rows, every topological order, any value domain with decidable equality and
    any op semantics that agrees with the primitive meanings -/
theorem consistentB_unique {α} [BEq α] [LawfulBEq α] (net : Net) (order : List Nat) (hwf : net.wfB = true)
    (ho : orderOKB net order = true) (hfk : forksOKB net order = true) (hall : linesDrivenB Gen.kindPrefixes net order = true)
    (sem : Nat → List α → α) (neg : α → α) (prim : String → α → α → α → α → α) (hs : SemSpec sem neg prim)
    (env : Nat → α) (v : Array α)
    (hc : consistentB net (env net.idx.zero) neg prim (fun p => env (net.idx.ppi + p)) v = true) :
    ∀ l, l < net.lines.size →
      v.getD l (env net.idx.zero) = exec sem ((genOps Gen.kindPrefixes net order false).map OpRow.toOp) env l := by
  obtain ⟨hz, ht, hpp⟩ := idx_vals net
  let val : Nat → α := fun x => if x < net.lines.size then v.getD x (env net.idx.zero) else env x
  have hops := genOps_out_line Gen.kindPrefixes net order false hwf ho
  have hcons : NetConsistent net order neg prim env val := by
    constructor
    · intro x hx hw
      have hge : ¬ x < net.lines.size := by
        intro hlt
        unfold linesDrivenB at hall
        simp only [List.all_eq_true, List.mem_range, List.contains_eq_mem, decide_eq_true_eq] at hall
        obtain ⟨r, hr, he⟩ := List.mem_map.mp (hall x hlt)
        exact hw r hr he
      simp only [val, if_neg hge]
    · intro r hr hl
      have hlt : r.out < net.lines.size := by
        rcases hops r.toOp (List.mem_map_of_mem hr) with h | h
        · exact absurd h hl
        · exact h
      have hr' := hr
      simp only [genOps, List.mem_flatMap] at hr'
      obtain ⟨n, hn, hmem⟩ := hr'
      have hnlt := orderOK_lt ho n hn
      obtain ⟨pin, hpin⟩ := (nodeOps_out _ _ _ _ _ _ _ hmem).resolve_left hl
      have hdrv := (wf_out hwf hnlt hpin).2.1
      unfold consistentB at hc
      simp only [List.all_eq_true, List.mem_range, beq_iff_eq] at hc
      have h1 := hc r.out hlt
      have hval : val r.out = v.getD r.out (env net.idx.zero) := by simp only [val, if_pos hlt]
      rw [hval, h1]
      apply lineEq_congr
      · rw [hdrv]; exact sPosTable_getD net hnlt
      · intro i l' hi
        have hl' : l' < net.lines.size := by
          rw [hdrv] at hi
          exact (wf_in hwf hnlt (inPin_some hi)).1
        simp only [val, if_pos hl']
  have hsol := (solves_iff_consistent net order hwf ho hfk sem neg prim hs env val).mpr hcons
  intro l hl
  have := solution_uniqueJ (Jt net) (fun op => sem op.code) _ (genOps_WOJ Gen.kindPrefixes net order false hwf ho) env val hsol l
    (Jt_line hl)
  simp only [val, if_pos hl] at this
  exact this

end KV
