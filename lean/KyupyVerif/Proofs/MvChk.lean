import KyupyVerif.Model.BAlg
import KyupyVerif.Model.Comp
import KyupyVerif.Proofs.OpsChk
/-! Checkers for the complete tables of the array operators (`Gen/MvTables.lean`) and for the
bit-parallel operators of `logic.py` (`Gen/Bp.lean`), with soundness lemmas. -/
namespace KV

/-- row `i` of a packed table (3 bits per row) -/
def tab (tbl i : Nat) : Nat := (tbl >>> (3 * i)) % 8

theorem V3.code_ofCode (v : V3) : V3.ofCode v.code = v := by
  rcases v with ⟨a,b,c⟩; cases a <;> cases b <;> cases c <;> rfl

def mvAgree1 (tbl : Nat) (f : V3 → V3) : Bool :=
  V3.all.all fun a => tab tbl a.code == (f a).code
def mvAgree2 (tbl : Nat) (f : V3 → V3 → V3) : Bool :=
  V3.all.all fun a => V3.all.all fun b => tab tbl (a.code + 8 * b.code) == (f a b).code
def mvAgree3 (tbl : Nat) (f : V3 → V3 → V3 → V3) : Bool :=
  V3.all.all fun a => V3.all.all fun b => V3.all.all fun c =>
    tab tbl (a.code + 8 * b.code + 64 * c.code) == (f a b c).code
def mvAgree4 (tbl : Nat) (f : V3 → V3 → V3 → V3 → V3) : Bool :=
  V3.all.all fun a => V3.all.all fun b => V3.all.all fun c => V3.all.all fun d =>
    tab tbl (a.code + 8 * b.code + 64 * c.code + 512 * d.code) == (f a b c d).code

theorem mvAgree1_sound {tbl f} (h : mvAgree1 tbl f = true) (a : V3) : tab tbl a.code = (f a).code := by
  simp only [mvAgree1, List.all_eq_true, beq_iff_eq] at h; exact h a (V3.all_complete a)
theorem mvAgree2_sound {tbl f} (h : mvAgree2 tbl f = true) (a b : V3) :
    tab tbl (a.code + 8 * b.code) = (f a b).code := by
  simp only [mvAgree2, List.all_eq_true, beq_iff_eq] at h; exact h a (V3.all_complete a) b (V3.all_complete b)
theorem mvAgree3_sound {tbl f} (h : mvAgree3 tbl f = true) (a b c : V3) :
    tab tbl (a.code + 8 * b.code + 64 * c.code) = (f a b c).code := by
  simp only [mvAgree3, List.all_eq_true, beq_iff_eq] at h
  exact h a (V3.all_complete a) b (V3.all_complete b) c (V3.all_complete c)
theorem mvAgree4_sound {tbl f} (h : mvAgree4 tbl f = true) (a b c d : V3) :
    tab tbl (a.code + 8 * b.code + 64 * c.code + 512 * d.code) = (f a b c d).code := by
  simp only [mvAgree4, List.all_eq_true, beq_iff_eq] at h
  exact h a (V3.all_complete a) b (V3.all_complete b) c (V3.all_complete c) d (V3.all_complete d)

/-! bit-parallel operators: k-operand generated function vs spec on all tuples -/
def bpAgree1 (g : P3 Bool → P3 Bool) (f : V3 → V3) : Bool :=
  V3.all.all fun a => (g (.ofV3 a)).toV3 == f a
def bpAgree2 (g : P3 Bool → P3 Bool → P3 Bool) (f : V3 → V3 → V3) : Bool :=
  V3.all.all fun a => V3.all.all fun b => (g (.ofV3 a) (.ofV3 b)).toV3 == f a b
def bpAgree3 (g : P3 Bool → P3 Bool → P3 Bool → P3 Bool) (f : V3 → V3 → V3 → V3) : Bool :=
  V3.all.all fun a => V3.all.all fun b => V3.all.all fun c => (g (.ofV3 a) (.ofV3 b) (.ofV3 c)).toV3 == f a b c

theorem bpAgree1_sound {g f} (h : bpAgree1 g f = true) (a : V3) : (g (.ofV3 a)).toV3 = f a := by
  simp only [bpAgree1, List.all_eq_true, beq_iff_eq] at h; exact h a (V3.all_complete a)
theorem bpAgree2_sound {g f} (h : bpAgree2 g f = true) (a b : V3) : (g (.ofV3 a) (.ofV3 b)).toV3 = f a b := by
  simp only [bpAgree2, List.all_eq_true, beq_iff_eq] at h; exact h a (V3.all_complete a) b (V3.all_complete b)
theorem bpAgree3_sound {g f} (h : bpAgree3 g f = true) (a b c : V3) :
    (g (.ofV3 a) (.ofV3 b) (.ofV3 c)).toV3 = f a b c := by
  simp only [bpAgree3, List.all_eq_true, beq_iff_eq] at h
  exact h a (V3.all_complete a) b (V3.all_complete b) c (V3.all_complete c)

def bp4Agree1 (g : P2 Bool → P2 Bool) (f : V2 → V2) : Bool :=
  V2.all.all fun a => (g (.ofV2 a)).toV2 == f a
def bp4Agree2 (g : P2 Bool → P2 Bool → P2 Bool) (f : V2 → V2 → V2) : Bool :=
  V2.all.all fun a => V2.all.all fun b => (g (.ofV2 a) (.ofV2 b)).toV2 == f a b
def bp4Agree3 (g : P2 Bool → P2 Bool → P2 Bool → P2 Bool) (f : V2 → V2 → V2 → V2) : Bool :=
  V2.all.all fun a => V2.all.all fun b => V2.all.all fun c => (g (.ofV2 a) (.ofV2 b) (.ofV2 c)).toV2 == f a b c

theorem bp4Agree1_sound {g f} (h : bp4Agree1 g f = true) (a : V2) : (g (.ofV2 a)).toV2 = f a := by
  simp only [bp4Agree1, List.all_eq_true, beq_iff_eq] at h; exact h a (V2.all_complete a)
theorem bp4Agree2_sound {g f} (h : bp4Agree2 g f = true) (a b : V2) : (g (.ofV2 a) (.ofV2 b)).toV2 = f a b := by
  simp only [bp4Agree2, List.all_eq_true, beq_iff_eq] at h; exact h a (V2.all_complete a) b (V2.all_complete b)
theorem bp4Agree3_sound {g f} (h : bp4Agree3 g f = true) (a b c : V2) :
    (g (.ofV2 a) (.ofV2 b) (.ofV2 c)).toV2 = f a b c := by
  simp only [bp4Agree3, List.all_eq_true, beq_iff_eq] at h
  exact h a (V2.all_complete a) b (V2.all_complete b) c (V2.all_complete c)

end KV
