import KyupyVerif.Proofs.CircObjRemoveLine
/-! C09: `__setstate__` builds a well-formed circuit from every well-formed state, `__getstate__` of a well-formed
circuit is a well-formed state; hence the pickle round trip preserves `WFc`. -/
namespace KV.CircObj

/-! ## `__setstate__`: rebuilding a circuit from a pickled state -/

/-- two node descriptions collide: same name in the same class (fork / cell) -/
def sameSlot (a b : String × String) : Prop := a.1 = b.1 ∧ (a.2 = FORK ↔ b.2 = FORK)

/-- well-formedness of a pickled state (what `__getstate__` of a well-formed circuit delivers) -/
structure StateOK (s : State) : Prop where
  names : s.nodes.Pairwise fun a b => ¬ sameSlot a b
  ends : ∀ e ∈ s.lines, e.1 < s.nodes.length ∧ e.2.2.1 < s.nodes.length
  outPins : s.lines.Pairwise fun a b => ¬ (a.1 = b.1 ∧ a.2.1 = b.2.1)
  inPins : s.lines.Pairwise fun a b => ¬ (a.2.2.1 = b.2.2.1 ∧ a.2.2.2 = b.2.2.2)
  forkGapFree : ∀ e ∈ s.lines, (s.nodes[e.1]?.map (·.2)) = some FORK →
    ∀ p < e.2.1, ∃ e' ∈ s.lines, e'.1 = e.1 ∧ e'.2.1 = p
  ios : ∀ k ∈ s.io, k < s.nodes.length

theorem empty_wf : WFc empty := by
  refine ⟨⟨?_, ?_, ?_, ?_, ?_, ?_, ?_, ?_, ?_, ?_, ?_, ?_, ?_, ?_, ?_⟩, ?_⟩ <;> simp [empty, keysNodup]

/-- state after the node loop of `__setstate__` over the prefix `done` -/
structure Inv1 (done : List (String × String)) (c : Circ) : Prop where
  wf : WFc c
  nodes : c.nodes = List.range done.length
  nextN : c.nextN = done.length
  objs : ∀ j (h : j < done.length), (c.nobj j).name = done[j].1 ∧ (c.nobj j).kind = done[j].2 ∧
    (c.nobj j).ins = [] ∧ (c.nobj j).outs = []
  lines : c.lines = []
  io : c.io = []
  nextL : c.nextL = 0

theorem inv1_step {done : List (String × String)} {c : Circ} (inv : Inv1 done c) (x : String × String)
    (hx : ∀ a ∈ done, ¬ sameSlot a x) : Inv1 (done ++ [x]) (addNode c x.1 x.2) := by
  have hfree : nameFree c x.1 x.2 = true := by
    unfold nameFree
    by_cases hk : x.2 = FORK
    · simp only [hk, beq_self_eq_true, if_true, Bool.not_eq_true']
      cases hh : hasKey c.forks x.1 with
      | false => rfl
      | true =>
        obtain ⟨v, hv⟩ := hasKey_iff.1 hh
        obtain ⟨h1, h2, h3⟩ := inv.wf.forksSound _ hv
        rw [inv.nodes, List.mem_range] at h1
        obtain ⟨o1, o2, _⟩ := inv.objs v h1
        exact absurd ⟨by rw [← o1]; exact h3, by rw [← o2]; simp [h2, hk]⟩ (hx _ (List.getElem_mem h1))
    · have : (x.2 == FORK) = false := by simp [hk]
      simp only [this, Bool.false_eq_true, if_false, Bool.not_eq_true']
      cases hh : hasKey c.cells x.1 with
      | false => rfl
      | true =>
        obtain ⟨v, hv⟩ := hasKey_iff.1 hh
        obtain ⟨h1, h2, h3⟩ := inv.wf.cellsSound _ hv
        rw [inv.nodes, List.mem_range] at h1
        obtain ⟨o1, o2, _⟩ := inv.objs v h1
        exact absurd ⟨by rw [← o1]; exact h3, by rw [← o2]; simp [h2, hk]⟩ (hx _ (List.getElem_mem h1))
  refine ⟨addNode_wf inv.wf hfree, ?_, ?_, ?_, ?_, ?_, ?_⟩
  · show c.nodes ++ [c.nextN] = _
    rw [inv.nodes, inv.nextN]; simp [List.range_succ]
  · show c.nextN + 1 = _; rw [inv.nextN]; simp
  · intro j hj
    simp only [List.length_append, List.length_singleton] at hj
    by_cases hjl : j < done.length
    · have : j ≠ c.nextN := by rw [inv.nextN]; omega
      simp only [addNode, upd_get, this, if_false, List.getElem_append_left hjl]
      exact inv.objs j hjl
    · have : j = done.length := by omega
      subst this
      simp [addNode, inv.nextN]
  · exact inv.lines
  · exact inv.io
  · exact inv.nextL

theorem inv1_fold (todo done : List (String × String)) (c : Circ) (inv : Inv1 done c)
    (hp : (done ++ todo).Pairwise fun a b => ¬ sameSlot a b) :
    Inv1 (done ++ todo) (todo.foldl (fun acc p => addNode acc p.1 p.2) c) := by
  induction todo generalizing done c with
  | nil => simpa using inv
  | cons x rest ih =>
    simp only [List.foldl_cons]
    have hx : ∀ a ∈ done, ¬ sameSlot a x := by
      intro a ha
      have := List.pairwise_append.1 hp
      exact this.2.2 a ha x (by simp)
    have := ih (done ++ [x]) _ (inv1_step inv x hx) (by simpa using hp)
    simpa using this

theorem inv1_empty : Inv1 [] empty :=
  ⟨empty_wf, rfl, rfl, fun j h => by simp at h, rfl, rfl, rfl⟩


/-- the last entry of a pin list, if any, is a line (pin lists built by `Line(...)` alone never end in `None`) -/
def LastSome (l : Pins) : Prop := ∀ p, p < l.length → ∃ q, p ≤ q ∧ pin l q ≠ none

theorem lastSome_nil : LastSome [] := fun p h => by simp at h

theorem lastSome_growSet {l : Pins} (h : LastSome l) (i x : Nat) : LastSome (growSet l i (some x)) := by
  intro p hp
  rw [length_growSet] at hp
  by_cases hpi : p ≤ i
  · exact ⟨i, hpi, by simp [pin_growSet]⟩
  · have hpl : p < l.length := by omega
    obtain ⟨q, hq1, hq2⟩ := h p hpl
    refine ⟨q, hq1, ?_⟩
    rw [pin_growSet]
    have : q ≠ i := by omega
    simp [this, hq2]

abbrev LSpec := Nat × Nat × Nat × Nat

/-- state after the line loop of `__setstate__` over the prefix `done` (`nds` = the node descriptions) -/
structure Inv2 (nds : List (String × String)) (done : List LSpec) (c : Circ) : Prop where
  wf : WFc0 c
  nodes : c.nodes = List.range nds.length
  objs : ∀ j (h : j < nds.length), (c.nobj j).name = nds[j].1 ∧ (c.nobj j).kind = nds[j].2
  lines : c.lines = List.range done.length
  nextL : c.nextL = done.length
  io : c.io = []
  lobjs : ∀ x (h : x < done.length), (c.lobj x).driver = some done[x].1 ∧ (c.lobj x).driverPin = done[x].2.1 ∧
    (c.lobj x).reader = some done[x].2.2.1 ∧ (c.lobj x).readerPin = done[x].2.2.2
  lastSome : ∀ j, j < nds.length → LastSome (c.nobj j).outs

theorem inv2_step {nds : List (String × String)} {done : List LSpec} {c : Circ} (inv : Inv2 nds done c) (e : LSpec)
    (he : e.1 < nds.length ∧ e.2.2.1 < nds.length)
    (hout : ∀ a ∈ done, ¬ (a.1 = e.1 ∧ a.2.1 = e.2.1))
    (hin : ∀ a ∈ done, ¬ (a.2.2.1 = e.2.2.1 ∧ a.2.2.2 = e.2.2.2)) :
    setLine c e = addLine c e.1 (some e.2.1) e.2.2.1 (some e.2.2.2) ∧ Inv2 nds (done ++ [e]) (setLine c e) := by
  have h1 : c.nodes[e.1]? = some e.1 := by rw [inv.nodes]; simp [he.1]
  have h2 : c.nodes[e.2.2.1]? = some e.2.2.1 := by rw [inv.nodes]; simp [he.2]
  have heq : setLine c e = addLine c e.1 (some e.2.1) e.2.2.1 (some e.2.2.2) := by
    simp [setLine, h1, h2]
  refine ⟨heq, ?_⟩
  rw [heq]
  have hd : e.1 ∈ c.nodes := by rw [inv.nodes]; simp [he.1]
  have hr : e.2.2.1 ∈ c.nodes := by rw [inv.nodes]; simp [he.2]
  have hdp : pin (c.nobj e.1).outs (dpinOf c e.1 (some e.2.1)) = none := by
    show pin (c.nobj e.1).outs e.2.1 = none
    cases hp : pin (c.nobj e.1).outs e.2.1 with
    | none => rfl
    | some x =>
      obtain ⟨b1, b2, b3⟩ := inv.wf.outsBack _ hd _ _ hp
      rw [inv.lines, List.mem_range] at b1
      obtain ⟨o1, o2, _⟩ := inv.lobjs x b1
      rw [o1] at b2; rw [o2] at b3
      exact absurd ⟨Option.some.inj b2, b3⟩ (hout _ (List.getElem_mem b1))
  have hrp : pin (c.nobj e.2.2.1).ins (rpinOf c e.2.2.1 (some e.2.2.2)) = none := by
    show pin (c.nobj e.2.2.1).ins e.2.2.2 = none
    cases hp : pin (c.nobj e.2.2.1).ins e.2.2.2 with
    | none => rfl
    | some x =>
      obtain ⟨b1, b2, b3⟩ := inv.wf.insBack _ hr _ _ hp
      rw [inv.lines, List.mem_range] at b1
      obtain ⟨_, _, o1, o2⟩ := inv.lobjs x b1
      rw [o1] at b2; rw [o2] at b3
      exact absurd ⟨Option.some.inj b2, b3⟩ (hin _ (List.getElem_mem b1))
  have hn := addLine_nobj c e.1 (some e.2.1) e.2.2.1 (some e.2.2.2)
  refine ⟨addLine_wf0 inv.wf hd hr hdp hrp, inv.nodes, ?_, ?_, ?_, inv.io, ?_, ?_⟩
  · intro j hj; rw [(hn j).1, (hn j).2.1]; exact inv.objs j hj
  · show c.lines ++ [c.nextL] = _
    rw [inv.lines, inv.nextL]; simp [List.range_succ]
  · show c.nextL + 1 = _; rw [inv.nextL]; simp
  · intro x hx
    simp only [List.length_append, List.length_singleton] at hx
    by_cases hxl : x < done.length
    · have : x ≠ c.nextL := by rw [inv.nextL]; omega
      simp only [addLine, upd_get, this, if_false, List.getElem_append_left hxl]
      exact inv.lobjs x hxl
    · have : x = done.length := by omega
      subst this
      simp [addLine, inv.nextL]
  · intro j hj
    rw [(hn j).2.2.2.2.1]
    split
    · exact lastSome_growSet (inv.lastSome j hj) _ _
    · exact inv.lastSome j hj

theorem inv2_fold (nds : List (String × String)) (todo done : List LSpec) (c : Circ) (inv : Inv2 nds done c)
    (hends : ∀ e ∈ todo, e.1 < nds.length ∧ e.2.2.1 < nds.length)
    (hout : (done ++ todo).Pairwise fun a b => ¬ (a.1 = b.1 ∧ a.2.1 = b.2.1))
    (hin : (done ++ todo).Pairwise fun a b => ¬ (a.2.2.1 = b.2.2.1 ∧ a.2.2.2 = b.2.2.2)) :
    Inv2 nds (done ++ todo) (todo.foldl setLine c) := by
  induction todo generalizing done c with
  | nil => simpa using inv
  | cons x rest ih =>
    simp only [List.foldl_cons]
    have h1 : ∀ a ∈ done, ¬ (a.1 = x.1 ∧ a.2.1 = x.2.1) := fun a ha =>
      (List.pairwise_append.1 hout).2.2 a ha x (by simp)
    have h2 : ∀ a ∈ done, ¬ (a.2.2.1 = x.2.2.1 ∧ a.2.2.2 = x.2.2.2) := fun a ha =>
      (List.pairwise_append.1 hin).2.2 a ha x (by simp)
    have := ih (done ++ [x]) _ (inv2_step inv x (hends x (by simp)) h1 h2).2
      (fun e he => hends e (by simp [he])) (by simpa using hout) (by simpa using hin)
    simpa using this


theorem inv2_of_inv1 {nds : List (String × String)} {c : Circ} (inv : Inv1 nds c) : Inv2 nds [] c :=
  ⟨inv.wf.toWFc0, inv.nodes, fun j h => ⟨(inv.objs j h).1, (inv.objs j h).2.1⟩, by simp [inv.lines], by simp [inv.nextL],
   inv.io, fun x h => by simp at h, fun j h => by rw [(inv.objs j h).2.2.2]; exact lastSome_nil⟩

/-- after all lines: fork outputs are gap-free because the pin numbers of the state are -/
theorem inv2_forkFull {nds : List (String × String)} {ls : List LSpec} {c : Circ} (inv : Inv2 nds ls c)
    (hgap : ∀ e ∈ ls, (nds[e.1]?.map (·.2)) = some FORK → ∀ p < e.2.1, ∃ e' ∈ ls, e'.1 = e.1 ∧ e'.2.1 = p) :
    WFc c := by
  refine ⟨inv.wf, ?_⟩
  intro j hj hk hnone
  have hjn : j < nds.length := by rw [inv.nodes, List.mem_range] at hj; exact hj
  obtain ⟨p, hp, hpe⟩ := List.mem_iff_getElem.1 hnone
  have hpin : pin (c.nobj j).outs p = none := by simp [pin, List.getD_eq_getElem?_getD, List.getElem?_eq_getElem hp, hpe]
  obtain ⟨q, hq1, hq2⟩ := inv.lastSome j hjn p hp
  cases hx : pin (c.nobj j).outs q with
  | none => exact hq2 hx
  | some x =>
    obtain ⟨b1, b2, b3⟩ := inv.wf.outsBack j hj q x hx
    rw [inv.lines, List.mem_range] at b1
    obtain ⟨o1, o2, _⟩ := inv.lobjs x b1
    rw [o1] at b2; rw [o2] at b3
    have hpq : p < q := by
      rcases Nat.lt_or_eq_of_le hq1 with h | h
      · exact h
      · rw [h, hx] at hpin; cases hpin
    have hkind : (nds[ls[x].1]?.map (·.2)) = some FORK := by
      rw [Option.some.inj b2, List.getElem?_eq_getElem hjn]; simp [← (inv.objs j hjn).2, hk]
    obtain ⟨e', he', e1, e2⟩ := hgap ls[x] (List.getElem_mem b1) hkind p (by rw [b3]; exact hpq)
    obtain ⟨y, hy, rfl⟩ := List.mem_iff_getElem.1 he'
    obtain ⟨d, d1, d2, d3⟩ := inv.wf.ldrv y (by rw [inv.lines, List.mem_range]; exact hy)
    obtain ⟨y1, y2, _⟩ := inv.lobjs y hy
    rw [y1] at d1; rw [y2, e2] at d3
    have : d = j := by rw [← Option.some.inj d1, e1]; exact Option.some.inj b2
    rw [this, hpin] at d3; cases d3

theorem ioAppend_wf {c : Circ} {i : Nat} (wf : WFc c) (hi : i ∈ c.nodes) : WFc (ioAppend c i) := by
  refine ⟨⟨wf.nidx, wf.lidx, wf.nfresh, wf.lfresh, wf.ckeys, wf.fkeys, wf.cellsSound, wf.forksSound, wf.cellsComplete,
    wf.forksComplete, wf.ldrv, wf.lrdr, wf.outsBack, wf.insBack, ?_⟩, wf.forkFull⟩
  intro j hj
  simp only [ioAppend, List.mem_append, List.mem_singleton] at hj
  rcases hj with h | h
  · exact wf.ioIn j h
  · exact h ▸ hi

theorem setIo_fold (n : Nat) (ks : List Nat) (c : Circ) (wf : WFc c) (hn : c.nodes = List.range n) (hk : ∀ k ∈ ks, k < n) :
    WFc (ks.foldl setIo c) ∧ (ks.foldl setIo c).nodes = List.range n := by
  induction ks generalizing c with
  | nil => exact ⟨wf, hn⟩
  | cons k rest ih =>
    simp only [List.foldl_cons]
    have hkn := hk k (by simp)
    have h1 : c.nodes[k]? = some k := by rw [hn]; simp [hkn]
    have heq : setIo c k = ioAppend c k := by simp [setIo, h1]
    rw [heq]
    exact ih _ (ioAppend_wf wf (by rw [hn]; simp [hkn])) hn (fun k' hk' => hk k' (by simp [hk']))

theorem setState_wf {s : State} (ok : StateOK s) : WFc (setState s) := by
  unfold setState
  have i1 := inv1_fold s.nodes [] empty inv1_empty (by simpa using ok.names)
  simp only [List.nil_append] at i1
  have i2 := inv2_fold s.nodes s.lines [] _ (inv2_of_inv1 i1) ok.ends (by simpa using ok.outPins) (by simpa using ok.inPins)
  simp only [List.nil_append] at i2
  have wf2 := inv2_forkFull i2 ok.forkGapFree
  exact (setIo_fold s.nodes.length s.io _ wf2 i2.nodes ok.ios).1


theorem WFc0.node_at {c : Circ} (wf : WFc0 c) {i : Nat} (hi : i ∈ c.nodes) :
    ∃ h : (c.nobj i).index < c.nodes.length, c.nodes[(c.nobj i).index] = i := by
  obtain ⟨p, hp, rfl⟩ := List.mem_iff_getElem.1 hi
  have := wf.nidx p hp
  exact ⟨by omega, by simp [this]⟩

/-- two nodes of the circuit with the same name in the same class are the same object -/
theorem WFc0.same_slot {c : Circ} (wf : WFc0 c) {a b : Nat} (ha : a ∈ c.nodes) (hb : b ∈ c.nodes)
    (hn : (c.nobj a).name = (c.nobj b).name) (hk : (c.nobj a).kind = FORK ↔ (c.nobj b).kind = FORK) : a = b := by
  by_cases hka : (c.nobj a).kind = FORK
  · have h1 := wf.forksComplete a ha hka
    have h2 := wf.forksComplete b hb (hk.1 hka)
    rw [hn] at h1
    exact keys_unique wf.fkeys h1 h2
  · have h1 := wf.cellsComplete a ha hka
    have h2 := wf.cellsComplete b hb (fun h => hka (hk.2 h))
    rw [hn] at h1
    exact keys_unique wf.ckeys h1 h2

theorem getState_ok {c : Circ} (wf : WFc c) : StateOK (getState c) := by
  have ninj := @idx_inj c.nodes (fun j => (c.nobj j).index) wf.nidx
  have linj := @idx_inj c.lines (fun j => (c.lobj j).index) wf.lidx
  -- the description of a line of the circuit
  have hspec : ∀ l ∈ c.lines, ∃ d r, (c.lobj l).driver = some d ∧ (c.lobj l).reader = some r ∧ d ∈ c.nodes ∧ r ∈ c.nodes ∧
      pin (c.nobj d).outs (c.lobj l).driverPin = some l ∧ pin (c.nobj r).ins (c.lobj l).readerPin = some l := by
    intro l hl
    obtain ⟨d, d1, d2, d3⟩ := wf.ldrv l hl
    obtain ⟨r, r1, r2, r3⟩ := wf.lrdr l hl
    exact ⟨d, r, d1, r1, d2, r2, d3, r3⟩
  refine ⟨?_, ?_, ?_, ?_, ?_, ?_⟩
  · -- names
    simp only [getState, List.pairwise_map]
    rw [List.pairwise_iff_getElem]
    intro p q hp hq hpq hs
    have := wf.same_slot (List.getElem_mem hp) (List.getElem_mem hq) hs.1 hs.2
    have := ninj hp hq this
    omega
  · intro e he
    simp only [getState, List.mem_map] at he
    obtain ⟨l, hl, rfl⟩ := he
    obtain ⟨d, r, d1, r1, d2, r2, _, _⟩ := hspec l hl
    have hlen : (getState c).nodes.length = c.nodes.length := by simp [getState]
    simp only [d1, r1, Option.map_some, Option.getD_some, hlen]
    exact ⟨(wf.node_at d2).1, (wf.node_at r2).1⟩
  · simp only [getState, List.pairwise_map]
    rw [List.pairwise_iff_getElem]
    intro x y hx hy hxy hs
    obtain ⟨d, _, d1, _, d2, _, d3, _⟩ := hspec _ (List.getElem_mem hx)
    obtain ⟨d', _, d1', _, d2', _, d3', _⟩ := hspec _ (List.getElem_mem hy)
    simp only [d1, d1', Option.map_some, Option.getD_some] at hs
    have hdd : d = d' := by
      obtain ⟨k1, e1⟩ := wf.node_at d2
      obtain ⟨k2, e2⟩ := wf.node_at d2'
      rw [← e1, ← e2]; simp [hs.1]
    subst hdd
    rw [hs.2, d3'] at d3
    have := linj hx hy (Option.some.inj d3).symm
    omega
  · simp only [getState, List.pairwise_map]
    rw [List.pairwise_iff_getElem]
    intro x y hx hy hxy hs
    obtain ⟨_, r, _, r1, _, r2, _, r3⟩ := hspec _ (List.getElem_mem hx)
    obtain ⟨_, r', _, r1', _, r2', _, r3'⟩ := hspec _ (List.getElem_mem hy)
    simp only [r1, r1', Option.map_some, Option.getD_some] at hs
    have hrr : r = r' := by
      obtain ⟨k1, e1⟩ := wf.node_at r2
      obtain ⟨k2, e2⟩ := wf.node_at r2'
      rw [← e1, ← e2]; simp [hs.1]
    subst hrr
    rw [hs.2, r3'] at r3
    have := linj hx hy (Option.some.inj r3).symm
    omega
  · -- forkGapFree
    intro e he hk p hp
    simp only [getState, List.mem_map] at he
    obtain ⟨l, hl, rfl⟩ := he
    obtain ⟨d, _, d1, _, d2, _, d3, _⟩ := hspec l hl
    simp only [d1, Option.map_some, Option.getD_some] at hk hp ⊢
    obtain ⟨k1, e1⟩ := wf.node_at d2
    have hkd : (c.nobj d).kind = FORK := by
      simp only [getState, List.getElem?_map, List.getElem?_eq_getElem k1, e1, Option.map_some] at hk
      exact Option.some.inj hk
    have hfull := wf.forkFull d d2 hkd
    have hlen := pin_eq_some_lt d3
    have hpl : p < (c.nobj d).outs.length := by omega
    cases hy : pin (c.nobj d).outs p with
    | none =>
      exfalso; apply hfull
      have : (c.nobj d).outs[p] = none := by
        simpa [pin, List.getD_eq_getElem?_getD, List.getElem?_eq_getElem hpl] using hy
      rw [← this]; exact List.getElem_mem _
    | some y =>
      obtain ⟨b1, b2, b3⟩ := wf.outsBack d d2 p y hy
      refine ⟨_, List.mem_map.2 ⟨y, b1, rfl⟩, ?_, ?_⟩
      · simp [b2]
      · exact b3
  · intro k hk
    simp only [getState, List.mem_map] at hk
    obtain ⟨i, hi, rfl⟩ := hk
    simp only [getState, List.length_map]
    exact (wf.node_at (wf.ioIn i hi)).1

theorem pickle_wf {c : Circ} (wf : WFc c) : WFc (pickle c) := setState_wf (getState_ok wf)

end KV.CircObj
