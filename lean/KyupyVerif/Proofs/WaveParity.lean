import KyupyVerif.Model.Wave

namespace KV.Wave

/-! parity invariant for the vector-input model -/
def PInv (lut : Nat) (s : St) : Prop :=
  (s.z.length % 2 == 1) = s.zval ∧ s.zval = lutBit lut s.inp

theorem step_inv (lut : Nat) (D : Delays) (terms : Fin 4 → T) (zcap : Nat) (hc : 2 ≤ zcap) (s : St)
    (h : PInv lut s) : PInv lut (step lut D terms zcap s) := by
  unfold PInv at *
  obtain ⟨h1, h2⟩ := h
  unfold step
  simp only []
  split
  · rename_i hne
    split
    · rename_i hcond
      split
      · refine ⟨?_, ?_⟩
        · simp only [List.length_cons]; rw [← h1]; cases hp : (s.z.length % 2 == 1) <;> simp_all <;> omega
        · rw [← h1] at *; cases hp : (s.z.length % 2 == 1) <;> cases hl : lutBit lut (upd s.inp (pick D terms s) (!s.inp (pick D terms s))) <;> simp_all
      · rename_i hfull
        have hpos : 1 ≤ s.z.length := by omega
        refine ⟨?_, ?_⟩
        · simp only [List.length_tail]; rw [← h1]; cases hp : (s.z.length % 2 == 1) <;> simp_all <;> omega
        · rw [← h1] at *; cases hp : (s.z.length % 2 == 1) <;> cases hl : lutBit lut (upd s.inp (pick D terms s) (!s.inp (pick D terms s))) <;> simp_all
    · rename_i hcond
      have hpos : 1 ≤ s.z.length := by
        cases hz : s.z.length with
        | zero => simp [hz] at hcond
        | succ n => omega
      refine ⟨?_, ?_⟩
      · simp only [List.length_tail]; rw [← h1]; cases hp : (s.z.length % 2 == 1) <;> simp_all <;> omega
      · rw [← h1] at *; cases hp : (s.z.length % 2 == 1) <;> cases hl : lutBit lut (upd s.inp (pick D terms s) (!s.inp (pick D terms s))) <;> simp_all
  · rename_i heq
    refine ⟨h1, ?_⟩
    rw [← h1] at *
    cases hp : (s.z.length % 2 == 1) <;> cases hl : lutBit lut (upd s.inp (pick D terms s) (!s.inp (pick D terms s))) <;> simp_all

/-! ## bookkeeping: what `step` does to cursors, remaining lists and the input vector -/

theorem step_r (lut D terms zcap) (s : St) :
    (step lut D terms zcap s).r = upd s.r (pick D terms s) (s.r (pick D terms s)).tail := by
  unfold step; simp only []; repeat' split
  all_goals rfl

theorem step_k (lut D terms zcap) (s : St) :
    (step lut D terms zcap s).k = upd s.k (pick D terms s) (s.k (pick D terms s) + 1) := by
  unfold step; simp only []; repeat' split
  all_goals rfl

theorem step_inp (lut D terms zcap) (s : St) :
    (step lut D terms zcap s).inp = upd s.inp (pick D terms s) (!s.inp (pick D terms s)) := by
  unfold step; simp only []; repeat' split
  all_goals rfl

/-- link between cursor parity and the input vector: bit i = (k i odd) -/
def KInv (s : St) : Prop := ∀ i, s.inp i = (s.k i % 2 == 1)

theorem step_kinv (lut D terms zcap) (s : St) (h : KInv s) : KInv (step lut D terms zcap s) := by
  intro i
  rw [step_inp, step_k]
  unfold upd
  split
  · rename_i hi; subst hi
    have := h (pick D terms s)
    cases hp : s.inp (pick D terms s) <;> simp_all <;> omega
  · exact h i

end KV.Wave
