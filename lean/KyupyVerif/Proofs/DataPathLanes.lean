import KyupyVerif.Proofs.DataPathArr
/-! The three arities as `LaneView`s: which lane value a pattern entry denotes and which code `bp_to_mv` shows for a captured
lane value. -/
namespace KV.DP
open KV KV.Sig KV.Cycle KV.Enc

/-- lane `p` of the memory value of one signal, m = 2 / 4 / 8 -/
def ln2 (nb : Nat) (p : Nat) (v : BitVec (8 * nb)) : Bool := v.getLsbD p
def ln4 (nb : Nat) (p : Nat) (v : P2 (BitVec (8 * nb))) : V2 := ⟨v.p0.getLsbD p, v.p1.getLsbD p⟩
def ln8 (nb : Nat) (p : Nat) (v : P3 (BitVec (8 * nb))) : V3 := ⟨v.p0.getLsbD p, v.p1.getLsbD p, v.p2.getLsbD p⟩

/-- the lane value a multi-valued entry denotes: m = 2 reads plane 0 only (`0` ↦ false, `1` = 0b011 ↦ true), m = 4 planes 0, 1
    (`0`, `X`, `-`, `1`), m = 8 all three -/
def ofCode2 (n : Nat) : Bool := n % 2 == 1
def ofCode4 (n : Nat) : V2 := V2.ofV3 (V3.ofCode n)

/-- the code `bp_to_mv` shows for a value captured by the 2-valued simulator: planes 0 and 1 both carry the bit (`0` or `1`) -/
def code2 (b : Bool) : Nat := if b then 3 else 0

theorem code2_sum (x y : Bool) : b2n x + 2 * b2n x + 4 * b2n y = code2 x + 4 * b2n y := by cases x <;> cases y <;> rfl
theorem code4_sum (x y z : Bool) : b2n x + 2 * b2n y + 4 * b2n z = V2.code ⟨x, y⟩ + 4 * b2n z := by
  cases x <;> cases y <;> cases z <;> rfl
theorem code8_sum (x y z : Bool) (w : Nat) : b2n x + 2 * b2n y + 4 * b2n z = V3.code ⟨x, y, z⟩ + 0 * w := by
  cases x <;> cases y <;> cases z <;> simp [b2n, V3.code]

theorem lv2 (nb : Nat) : LaneView (codec2 nb) nb (ln2 nb) ofCode2 code2 4 where
  dec_row row p hnb := by
    subst hnb
    simp only [ln2, codec2, plane_mvToBpRow row 0 p (by omega), ofCode2]
    by_cases hp : p < row.length <;> simp [hp]
  dec_nil p := by simp [ln2, codec2, plane, ofCode2]
  enc_code v r p hp := by
    simp only [codec2]
    rw [bpToMvRow_lanes _ _ _ _ _ hp]
    simp only [ofBytes_toBytes, ln2, plane]
    exact code2_sum _ _
  enc_len _ _ := rfl

theorem lv4 (nb : Nat) : LaneView (codec4 nb) nb (ln4 nb) ofCode4 V2.code 4 where
  dec_row row p hnb := by
    subst hnb
    simp only [ln4, codec4, plane_mvToBpRow row 0 p (by omega), plane_mvToBpRow row 1 p (by omega), ofCode4, V2.ofV3, V3.ofCode]
    by_cases hp : p < row.length <;> simp [hp]
  dec_nil p := by simp [ln4, codec4, plane, ofCode4, V2.ofV3, V3.ofCode]
  enc_code v r p hp := by
    simp only [codec4]
    rw [bpToMvRow_lanes _ _ _ _ _ hp]
    simp only [ofBytes_toBytes, ln4, plane]
    exact code4_sum _ _ _
  enc_len _ _ := rfl

theorem lv8 (nb : Nat) : LaneView (codec8 nb) nb (ln8 nb) V3.ofCode V3.code 0 where
  dec_row row p hnb := by
    subst hnb
    simp only [ln8, codec8, plane_mvToBpRow row 0 p (by omega), plane_mvToBpRow row 1 p (by omega),
      plane_mvToBpRow row 2 p (by omega), V3.ofCode]
    by_cases hp : p < row.length <;> simp [hp]
  dec_nil p := by simp [ln8, codec8, plane, V3.ofCode]
  enc_code v r p hp := by
    simp only [codec8]
    rw [bpToMvRow_lanes _ _ _ _ _ hp]
    simp only [ofBytes_toBytes, ln8]
    exact code8_sum _ _ _ _
  enc_len _ _ := rfl

theorem code2_lt (b : Bool) : code2 b < 8 := by cases b <;> decide
theorem V2.code_lt (v : V2) : v.code < 8 := by rcases v with ⟨a, b⟩; cases a <;> cases b <;> decide
theorem V3.code_lt (v : V3) : v.code < 8 := by rcases v with ⟨a, b, c⟩; cases a <;> cases b <;> cases c <;> decide

end KV.DP
