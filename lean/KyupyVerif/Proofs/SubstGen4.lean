import KyupyVerif.Proofs.SubstGen3
/-! Helper lemmas for C10 (`substitute_sem_general`), part 4: the two connecting loops of `substitute` in lockstep.  The real
run (`connectIns` with the renaming of the pending line references, `connectOuts` on the renamed references) against
the virtual run in which the pins that the implementation ignores count as unconnected (`clrIgn`). -/
namespace KV.Transform
open KV

/-- the pin list of the virtual run: an instance pin that the implementation ignores counts as unconnected -/
def clrIgn (m : NNet) (p : Nat × Option Nat) : Nat × Option Nat := (p.1, if ignoredPort m p.1 then none else p.2)

theorem Lk.congrPI {Own : Nat → Prop} {π ψ : Nat → Nat} {G PI PI' PO : Nat → Prop} {a b : Net}
    (lk : Lk Own π ψ G PI PO a b) (h : ∀ x, PI x ↔ PI' x) : Lk Own π ψ G PI' PO a b := by
  have : PI = PI' := funext fun x => propext (h x)
  subst this; exact lk

theorem Lk.congrPO {Own : Nat → Prop} {π ψ : Nat → Nat} {G PI PO PO' : Nat → Prop} {a b : Net}
    (lk : Lk Own π ψ G PI PO a b) (h : ∀ x, PO x ↔ PO' x) : Lk Own π ψ G PI PO' a b := by
  have : PO = PO' := funext fun x => propext (h x)
  subst this; exact lk

section loops
variable {Own : Nat → Prop} {π : Nat → Nat} (m : NNet) (mapA mapB : Array (Option Nat))
variable (hmap : ∀ j, mapB.getD j none = (mapA.getD j none).map π)
include hmap

theorem inTarget_π (inn : Nat) : inTarget m mapB inn = (inTarget m mapA inn).map fun p => (π p.1, p.2) := by
  unfold inTarget
  dsimp only
  split
  · split
    · rw [hmap]; cases mapA.getD _ none <;> rfl
    · rfl
  · rw [hmap]; cases mapA.getD inn none <;> rfl

theorem outTarget_π (l : Nat) : outTarget m mapB l = (outTarget m mapA l).map fun p => (π p.1, p.2) := by
  unfold outTarget
  dsimp only
  split
  · rw [hmap]; cases mapA.getD _ none <;> rfl
  · rw [hmap]; cases mapA.getD _ none <;> rfl

/-- the loop `for inn, ll in zip(impl_in_nodes, node_in_lines)`; `T` = the line references that are still needed (the
    lines at the pins of the instance) -/
theorem lk_connectIns (T : Nat → Prop) (N : Nat) (PO : Nat → Prop)
    (hmapLt : ∀ j x, mapA.getD j none = some x → x < N ∧ Own x) :
    ∀ (pins : List (Nat × Option Nat)) (a b : Net) (renA : Option Nat → Option Nat) (ψ : Nat → Nat) (G : Nat → Prop)
      (a' : Net) (renA' : Option Nat → Option Nat),
    Lk Own π ψ G (fun x => G x ∨ x ∈ pins.filterMap (·.2)) PO a b → a.nodes.size = N →
    connectIns m mapA pins (a, renA) = some (a', renA') →
    renA none = none → (pins.filterMap (·.2)).Nodup →
    (∀ ll, T ll → ¬ G ll → ∃ ll', renA (some ll) = some ll' ∧ ll' < a.lines.size ∧ ψ ll' = ll) →
    (∀ ll ∈ pins.filterMap (·.2), T ll ∧ ¬ G ll ∧ ll < b.lines.size) →
    (∀ inn ll, (inn, some ll) ∈ pins → ignoredPort m inn = true → ¬ PO ll ∧ ∀ x, π x = (b.line ll).driver → ¬ Own x) →
    ∃ b' ψ' G', connectIns m mapB (pins.map (clrIgn m)) (b, id) = some (b', id) ∧
      Lk Own π ψ' G' G' PO a' b' ∧ a'.nodes.size = N ∧ renA' none = none ∧
      (∀ ll, T ll → ¬ G' ll → ∃ ll', renA' (some ll) = some ll' ∧ ll' < a'.lines.size ∧ ψ' ll' = ll) ∧
      (∀ ll, G' ll ↔ G ll ∨ ∃ inn, (inn, some ll) ∈ pins ∧ ignoredPort m inn = true) ∧
      b'.lines.size = b.lines.size ∧ b'.nodes.size = b.nodes.size ∧
      (∀ l, l < b.lines.size → (b'.line l).driver = (b.line l).driver ∧ (b'.line l).dpin = (b.line l).dpin)
  | [], a, b, renA, ψ, G, a', renA', lk, hN, he, hr0, _, hT, _, _ => by
    simp only [connectIns] at he
    obtain ⟨e1, e2⟩ := Prod.mk.inj (Option.some.inj he)
    subst e1; subst e2
    refine ⟨b, ψ, G, by simp [connectIns], lk.congrPI (fun x => by simp), hN, hr0, hT, fun ll => by simp, rfl, rfl,
      fun _ _ => ⟨rfl, rfl⟩⟩
  | (inn, none) :: rest, a, b, renA, ψ, G, a', renA', lk, hN, he, hr0, hnd, hT, hP, hgd => by
    simp only [connectIns, hr0] at he
    obtain ⟨b', ψ', G', q1, q2, q3, q4, q5, q6, q7⟩ := lk_connectIns T N PO hmapLt rest a b renA ψ G a' renA'
      (lk.congrPI (fun x => by simp [List.filterMap_cons])) hN he hr0 (by simpa [List.filterMap_cons] using hnd) hT
      (fun ll hll => hP ll (by simpa [List.filterMap_cons] using hll))
      (fun inn' ll hm => hgd inn' ll (List.mem_cons_of_mem _ hm))
    refine ⟨b', ψ', G', ?_, q2, q3, q4, q5, ?_, q7⟩
    · simp only [List.map_cons, clrIgn, connectIns, id]
      have : (if ignoredPort m inn = true then (none : Option Nat) else none) = none := by split <;> rfl
      rw [this]
      exact q1
    · intro ll
      rw [q6 ll]
      constructor
      · rintro (h | ⟨i, h1, h2⟩)
        · exact Or.inl h
        · exact Or.inr ⟨i, List.mem_cons_of_mem _ h1, h2⟩
      · rintro (h | ⟨i, h1, h2⟩)
        · exact Or.inl h
        · rcases List.mem_cons.mp h1 with e | e
          · simp at e
          · exact Or.inr ⟨i, e, h2⟩
  | (inn, some ll0) :: rest, a, b, renA, ψ, G, a', renA', lk, hN, he, hr0, hnd, hT, hP, hgd => by
    have hnd' : ll0 ∉ rest.filterMap (·.2) ∧ (rest.filterMap (·.2)).Nodup := by
      simpa [List.filterMap_cons] using hnd
    obtain ⟨t0, g0, lb0⟩ := hP ll0 (by simp [List.filterMap_cons])
    obtain ⟨ll', hren, hll', hψ⟩ := hT ll0 t0 g0
    simp only [connectIns, hren] at he
    by_cases hig : ignoredPort m inn = true
    · -- the implementation ignores the pin: the real run removes the line
      have hig' : ((m.net.node inn).outs.length == 0) = true := hig
      simp only [hig', if_true] at he
      split at he
      · exact absurd he (by simp)
      · rename_i a1 hrm
        have po0 : ¬ PO ll0 := (hgd inn ll0 List.mem_cons_self hig).1
        have hdrv := lk.drv ll' hll' (by rw [hψ]; exact po0)
        have hown : ¬ Own (a.line ll').driver := (hgd inn ll0 List.mem_cons_self hig).2 _ (by rw [← hψ]; exact hdrv.2.1)
        have lk1 := lk.stepRemove ll' hll' (by rw [hψ]; exact Or.inr (by simp [List.filterMap_cons]))
          (by rw [hψ]; exact po0) hown a1 hrm
        have hsp := removeLineF_spec a (fun y => PO (ψ y)) ll' hll' (by rw [hψ]; exact po0)
          (lk.host _ hdrv.1 hown) a1 hrm
        rw [hψ] at lk1
        have lk2 : Lk Own π (fun l => ψ (nmN a.lines.size ll' l)) (fun l' => G l' ∨ l' = ll0)
            (fun x => (G x ∨ x = ll0) ∨ x ∈ rest.filterMap (·.2)) PO a1 b := by
          refine lk1.congrPI (fun x => ?_)
          simp only [List.filterMap_cons, List.mem_cons]
          constructor
          · rintro (h | h | h)
            · exact Or.inl (Or.inl h)
            · exact Or.inl (Or.inr h)
            · exact Or.inr h
          · rintro ((h | h) | h)
            · exact Or.inl h
            · exact Or.inr (Or.inl h)
            · exact Or.inr (Or.inr h)
        obtain ⟨b', ψ', G', q1, q2, q3, q4, q5, q6, q7⟩ := lk_connectIns T N PO hmapLt rest a1 b
          (fun o => mvLine a.lines.size ll' (renA o)) _ (fun l' => G l' ∨ l' = ll0) a' renA' lk2 (by rw [hsp.nsize]; exact hN) he
          (by simp [hr0, mvLine]) hnd'.2
          (by
            intro ll ht hng
            have hne : ll ≠ ll0 := fun e => hng (Or.inr e)
            obtain ⟨x, hx1, hx2, hx3⟩ := hT ll ht (fun hc => hng (Or.inl hc))
            have hxne : x ≠ ll' := fun e => hne (by rw [← hx3, e, hψ])
            obtain ⟨m1, m2⟩ := mv_facts hll' hx2 hxne
            refine ⟨mvN a.lines.size ll' x, ?_, by rw [hsp.lsize]; exact m1, by show ψ (nmN _ _ (mvN _ _ x)) = ll; rw [m2]; exact hx3⟩
            rw [hx1]
            simp only [mvLine, mvN]
            by_cases e : x = a.lines.size - 1 <;> simp [e])
          (by
            intro ll hll
            obtain ⟨p1, p2, p4⟩ := hP ll (by simp [List.filterMap_cons, hll])
            refine ⟨p1, ?_, p4⟩
            rintro (hc | hc)
            · exact p2 hc
            · subst hc; exact hnd'.1 hll)
          (fun inn' ll hm => hgd inn' ll (List.mem_cons_of_mem _ hm))
        refine ⟨b', ψ', G', ?_, q2, q3, q4, q5, ?_, q7⟩
        · simp only [List.map_cons, clrIgn, connectIns, id, hig, if_true]
          exact q1
        · intro ll
          rw [q6 ll]
          constructor
          · rintro ((h | h) | ⟨i, h1, h2⟩)
            · exact Or.inl h
            · exact Or.inr ⟨inn, by rw [h]; exact List.mem_cons_self, hig⟩
            · exact Or.inr ⟨i, List.mem_cons_of_mem _ h1, h2⟩
          · rintro (h | ⟨i, h1, h2⟩)
            · exact Or.inl (Or.inl h)
            · rcases List.mem_cons.mp h1 with e | e
              · simp only [Prod.mk.injEq, Option.some.injEq] at e
                exact Or.inl (Or.inr e.2)
              · exact Or.inr ⟨i, e, h2⟩
    · -- the pin has a reader in the implementation: both runs connect the line
      have hig' : ((m.net.node inn).outs.length == 0) = false := by simpa [ignoredPort] using hig
      simp only [hig', Bool.false_eq_true, if_false] at he
      split at he
      · exact absurd he (by simp)
      · rename_i r rp htgt
        obtain ⟨k, hk⟩ := inTarget_map htgt
        obtain ⟨hrN, hrOwn⟩ := hmapLt k r hk
        have lk1 := lk.stepReader ll' ll0 r rp hll' hψ (by rw [hN]; exact hrN)
        have lk2 : Lk Own π ψ G (fun x => G x ∨ x ∈ rest.filterMap (·.2)) PO (setReader a ll' r rp) (setReader b ll0 (π r) rp) := by
          refine lk1.congrPI (fun x => ?_)
          simp only [List.filterMap_cons, List.mem_cons]
          constructor
          · rintro ⟨h | h | h, hne⟩
            · exact Or.inl h
            · exact absurd h hne
            · exact Or.inr h
          · rintro (h | h)
            · exact ⟨Or.inl h, fun e => g0 (e ▸ h)⟩
            · exact ⟨Or.inr (Or.inr h), fun e => hnd'.1 (e ▸ h)⟩
        have hsb := setReader_sizes b ll0 (π r) rp
        obtain ⟨b', ψ', G', q1, q2, q3, q4, q5, q6, q7, q8, q9⟩ := lk_connectIns T N PO hmapLt rest (setReader a ll' r rp)
          (setReader b ll0 (π r) rp) renA ψ G a' renA' lk2 (by rw [(setReader_sizes a ll' r rp).1]; exact hN) he hr0 hnd'.2
          (by
            intro ll ht hng
            obtain ⟨x, hx1, hx2, hx3⟩ := hT ll ht hng
            exact ⟨x, hx1, by rw [(setReader_sizes a ll' r rp).2.1]; exact hx2, hx3⟩)
          (by
            intro ll hll
            obtain ⟨p1, p2, p4⟩ := hP ll (by simp [List.filterMap_cons, hll])
            exact ⟨p1, p2, by rw [hsb.2.1]; exact p4⟩)
          (by
            intro inn' ll hm hi
            refine ⟨(hgd inn' ll (List.mem_cons_of_mem _ hm) hi).1, fun x hx => ?_⟩
            have hlt : ll < b.lines.size := (hP ll (by
              simp only [List.filterMap_cons, List.mem_cons]
              exact Or.inr (List.mem_filterMap.mpr ⟨(inn', some ll), hm, rfl⟩))).2.2
            rw [setReader_line b _ _ _ _ hlt] at hx
            apply (hgd inn' ll (List.mem_cons_of_mem _ hm) hi).2 x
            rw [hx]; split <;> rfl)
        refine ⟨b', ψ', G', ?_, q2, q3, q4, q5, ?_, q7.trans hsb.2.1, q8.trans hsb.1, ?_⟩
        · simp only [List.map_cons, clrIgn, connectIns, id, hig, Bool.false_eq_true, if_false, hig']
          rw [inTarget_π m mapA mapB hmap, htgt]
          exact q1
        · intro ll
          rw [q6 ll]
          constructor
          · rintro (h | ⟨i, h1, h2⟩)
            · exact Or.inl h
            · exact Or.inr ⟨i, List.mem_cons_of_mem _ h1, h2⟩
          · rintro (h | ⟨i, h1, h2⟩)
            · exact Or.inl h
            · rcases List.mem_cons.mp h1 with e | e
              · simp only [Prod.mk.injEq, Option.some.injEq] at e
                rw [e.1] at h2; exact absurd h2 hig
              · exact Or.inr ⟨i, e, h2⟩
        · intro l hl
          obtain ⟨z1, z2⟩ := q9 l (by rw [hsb.2.1]; exact hl)
          rw [z1, z2, setReader_line b _ _ _ _ hl]
          split <;> exact ⟨rfl, rfl⟩

/-- the loop `for l, ll in zip(impl_out_lines, node_out_lines)`: the real run works on the renamed line references -/
theorem lk_connectOuts (N : Nat) (renA : Option Nat → Option Nat) (hr0 : renA none = none) (ψ : Nat → Nat) (G PI : Nat → Prop)
    (hmapLt : ∀ j x, mapA.getD j none = some x → x < N ∧ Own x) :
    ∀ (outs : List (Nat × Option Nat)) (a b : Net) (dangA : List (Option Nat)) (a' : Net) (dangA' : List (Option Nat)),
    Lk Own π ψ G PI (fun x => x ∈ outs.filterMap (·.2)) a b → a.nodes.size = N →
    connectOuts m mapA (outs.map fun p => (p.1, renA p.2)) (a, dangA) = some (a', dangA') →
    (outs.filterMap (·.2)).Nodup →
    (∀ ll ∈ outs.filterMap (·.2), ¬ PI ll ∧ ∃ ll', renA (some ll) = some ll' ∧ ll' < a.lines.size ∧ ψ ll' = ll) →
    ∃ b', connectOuts m mapB outs (b, dangA.map (Option.map π)) = some (b', dangA'.map (Option.map π)) ∧
      Lk Own π ψ G PI (fun _ => False) a' b' ∧ a'.nodes.size = N ∧ a'.lines.size = a.lines.size ∧
      b'.lines.size = b.lines.size ∧ b'.nodes.size = b.nodes.size
  | [], a, b, dangA, a', dangA', lk, hN, he, _, _ => by
    simp only [List.map_nil, connectOuts] at he
    obtain ⟨e1, e2⟩ := Prod.mk.inj (Option.some.inj he)
    subst e1; subst e2
    exact ⟨b, by simp [connectOuts], lk.congrPO (fun x => by simp), hN, rfl, rfl, rfl⟩
  | (il, none) :: rest, a, b, dangA, a', dangA', lk, hN, he, hnd, hP => by
    simp only [List.map_cons, hr0, connectOuts] at he
    obtain ⟨b', q1, q2⟩ := lk_connectOuts N renA hr0 ψ G PI hmapLt rest a b _ a' dangA'
      (lk.congrPO (fun x => by simp [List.filterMap_cons])) hN he (by simpa [List.filterMap_cons] using hnd)
      (fun ll hll => hP ll (by simpa [List.filterMap_cons] using hll))
    refine ⟨b', ?_, q2⟩
    simp only [connectOuts]
    rw [← q1, hmap]
    cases mapA.getD (m.net.line il).driver none <;> simp
  | (il, some ll0) :: rest, a, b, dangA, a', dangA', lk, hN, he, hnd, hP => by
    have hnd' : ll0 ∉ rest.filterMap (·.2) ∧ (rest.filterMap (·.2)).Nodup := by
      simpa [List.filterMap_cons] using hnd
    obtain ⟨npi, ll', hren, hll', hψ⟩ := hP ll0 (by simp [List.filterMap_cons])
    simp only [List.map_cons, hren, connectOuts] at he
    split at he
    · exact absurd he (by simp)
    · rename_i d dp htgt
      obtain ⟨k, hk⟩ := outTarget_map htgt
      obtain ⟨hdN, hdOwn⟩ := hmapLt k d hk
      have lk1 := lk.stepDriver ll' ll0 d dp hll' hψ (by rw [hN]; exact hdN) hdOwn (by simp [List.filterMap_cons]) npi
      have lk2 : Lk Own π ψ G PI (fun x => x ∈ rest.filterMap (·.2)) (setDriver a ll' d dp) (setDriver b ll0 (π d) dp) := by
        refine lk1.congrPO (fun x => ?_)
        simp only [List.filterMap_cons, List.mem_cons]
        constructor
        · rintro ⟨h | h, hne⟩
          · exact absurd h hne
          · exact h
        · intro h
          exact ⟨Or.inr h, fun e => hnd'.1 (e ▸ h)⟩
      have hsa := setDriver_sizes a ll' d dp
      have hsb := setDriver_sizes b ll0 (π d) dp
      obtain ⟨b', q1, q2, q3, q4, q5, q6⟩ := lk_connectOuts N renA hr0 ψ G PI hmapLt rest (setDriver a ll' d dp)
        (setDriver b ll0 (π d) dp) dangA a' dangA' lk2 (by rw [hsa.1]; exact hN) he hnd'.2
        (by
          intro ll hll
          obtain ⟨p1, x, hx1, hx2, hx3⟩ := hP ll (by simp [List.filterMap_cons, hll])
          exact ⟨p1, x, hx1, by rw [hsa.2.1]; exact hx2, hx3⟩)
      refine ⟨b', ?_, q2, q3, q4.trans hsa.2.1, q5.trans hsb.2.1, q6.trans hsb.1⟩
      simp only [connectOuts]
      rw [outTarget_π m mapA mapB hmap, htgt]
      exact q1

end loops
end KV.Transform
