import KyupyVerif.Proofs.SubstSome5
import KyupyVerif.Proofs.TransformElim
/-! C10, audit 2 finding 6 (open part), transport lemma (1), second half: pin-list lengths through `remove_dangling_nodes`.  Every
node of the result is a node of the circuit before (`Twin`: same kind, name, number of input pin slots and — unless a fork — of output
pin slots): `Line.remove()` keeps the lengths (`ls_removeLine`), `Node.remove()` only renumbers. -/
namespace KV.Transform
open KV

theorem removeLines_ls (nn : NNet) (x : Nat) : ∀ (rem : List Nat) (cur : Net) (ren : Option Nat → Option Nat) (r : Ren)
    (net' : Net), RLInv nn x cur rem ren r → removeLines ren rem cur = some net' → ∀ j, LS cur net' j
  | [], cur, ren, r, net', _, he => by
    simp only [removeLines] at he
    cases he
    exact fun j => LS.refl _ j
  | l0 :: rest, cur, ren, r, net', iv, he => by
    obtain ⟨l', hren, hl', _, _⟩ := iv.pend l0 List.mem_cons_self
    obtain ⟨_, _, bo, bi⟩ := iv.wfm.back l' hl'
    unfold removeLines at he
    rw [hren] at he
    dsimp only at he
    split at he
    · exact absurd he (by simp)
    · rename_i cur' hrm
      have iv' := rlinv_step nn x l0 rest cur cur' ren r l' iv hren hrm
      intro j
      exact LS.trans (ls_removeLine true cur cur' l' hrm (getD_some_lt bo) (fun _ => getD_some_lt bi) j)
        (removeLines_ls nn x rest cur' _ _ net' iv' he j)

/-- node `y` of `b` has kind, name and pin-list lengths (outputs: unless a fork) of node `x` of `a` -/
def Twin (a : NNet) (x : Nat) (b : NNet) (y : Nat) : Prop :=
  (b.net.node y).kind = (a.net.node x).kind ∧ b.names.getD y "" = a.names.getD x "" ∧
  (b.net.node y).ins.length = (a.net.node x).ins.length ∧
  ((a.net.node x).isFork = false → (b.net.node y).outs.length = (a.net.node x).outs.length)

theorem Twin.refl (a : NNet) (x : Nat) : Twin a x a x := ⟨rfl, rfl, rfl, fun _ => rfl⟩

theorem Twin.trans {a b c : NNet} {x y z : Nat} (h1 : Twin a x b y) (h2 : Twin b y c z) : Twin a x c z :=
  ⟨h2.1.trans h1.1, h2.2.1.trans h1.2.1, h2.2.2.1.trans h1.2.2.1, fun hf => (h2.2.2.2 (by
    show ((b.net.node y).kind == "__fork__") = false
    rw [h1.1]; exact hf)).trans (h1.2.2.2 hf)⟩

/-- every node of the result of `remove_dangling_nodes` is a node of the circuit before -/
theorem removeDangling_twin : ∀ (fuel : Nat) (nn : NNet) (own : List Nat) (stack : List (Option Nat)) (nn' : NNet),
    WFm nn → (∀ x ∈ own, x < nn.net.nodes.size) → removeDangling fuel nn own stack = some nn' →
    ∀ y, y < nn'.net.nodes.size → ∃ x, x < nn.net.nodes.size ∧ Twin nn x nn' y
  | 0, _, _, _, _, _, _, h => by simp [removeDangling] at h
  | fuel + 1, nn, own, [], nn', _, _, h => by
    simp only [removeDangling] at h
    cases h
    exact fun y hy => ⟨y, hy, Twin.refl _ _⟩
  | fuel + 1, nn, own, none :: rest, nn', w, ho, h => by
    rw [removeDangling] at h
    exact removeDangling_twin fuel nn own rest nn' w ho h
  | fuel + 1, nn, own, some root :: rest, nn', w, ho, h => by
    have skip := removeDangling_twin fuel nn own rest nn' w ho
    rw [removeDangling] at h
    dsimp only at h
    split at h
    · exact skip h
    · rename_i houts
      split at h
      · exact skip h
      · rename_i hio
        split at h
        · exact skip h
        · split at h
          · exact skip h
          · rename_i hown
            have hmem : root ∈ own := by simpa using hown
            have hroot := ho root hmem
            have hio' : root ∉ nn.net.io := by simpa using hio
            have houts' := outs_all_none (l := (nn.net.node root).outs) (by simpa using houts)
            have iv0 : RLInv nn root nn.net ((nn.net.node root).ins.filterMap id) id Ren.id := by
              refine ⟨w, (Emb.refl nn w.io (fun l hl => (w.back l hl).1)).weaken (fun _ _ h => absurd h id), hroot, hio', ?_, ?_, ?_,
                houts', fun _ => rfl, fun l hl _ => ⟨l, hl, rfl⟩, fun l0 hl0 => by
                  obtain ⟨k, hk⟩ := (mem_filterMap_id _ l0).mp hl0
                  exact (w.fwdIn root hroot k l0 hk).2.1⟩
              · intro l0 hl0
                obtain ⟨k, hk⟩ := (mem_filterMap_id _ l0).mp hl0
                obtain ⟨a1, a2, _⟩ := w.fwdIn root hroot k l0 hk
                exact ⟨l0, rfl, a1, rfl, a2⟩
              · apply nodup_filterMap_id
                intro k1 k2 y h1 h2
                have e1 := (w.fwdIn root hroot k1 y (by simp [List.getD_eq_getElem?_getD, h1])).2.2
                have e2 := (w.fwdIn root hroot k2 y (by simp [List.getD_eq_getElem?_getD, h2])).2.2
                rw [← e1, ← e2]
              · intro k l' hp
                exact (mem_filterMap_id _ l').mpr ⟨k, hp⟩
            cases hrl : removeLines id ((nn.net.node root).ins.filterMap id) nn.net with
            | none => rw [hrl] at h; exact absurd h (by simp)
            | some net' =>
              rw [hrl] at h
              dsimp only at h
              have w' := (removeRoot_emb nn w root hroot hio' houts' net' hrl).1
              have hls := removeLines_ls nn root _ nn.net id Ren.id net' iv0 hrl
              have hns : net'.nodes.size = nn.net.nodes.size := by
                obtain ⟨_, _, ivf⟩ := removeLines_inv nn root _ nn.net id Ren.id net' iv0 hrl
                have h1 := ivf.wfm.names
                have h2 := w.names
                exact h1.symm.trans h2
              have hroot' : root < ({ nn with net := net' } : NNet).net.nodes.size := by rw [hns]; exact hroot
              have hsz' := delNode_sizes { nn with net := net' } root
              have ho' : ∀ y ∈ own.filterMap (fun x => mvNode nn.net.nodes.size root (some x)),
                  y < (delNode { nn with net := net' } root).net.nodes.size := by
                intro y hy
                obtain ⟨x0, hx0, e⟩ := List.mem_filterMap.mp hy
                have hx0' := ho x0 hx0
                rw [hsz'.1]
                show y < net'.nodes.size - 1
                rw [hns]
                simp only [mvNode, beq_iff_eq, Option.some.injEq] at e
                split at e
                · exact absurd e (by simp)
                · split at e
                  · cases e; omega
                  · cases e; omega
              intro y hy
              obtain ⟨x2, hx2, t2⟩ := removeDangling_twin fuel _ _ _ nn' w' ho' h y hy
              have hx2' : x2 < ({ nn with net := net' } : NNet).net.nodes.size - 1 := by rw [← hsz'.1]; exact hx2
              have li' : LI ({ nn with net := net' } : NNet) := ⟨by show nn.names.size = net'.nodes.size; rw [hns]; exact w.names, by
                obtain ⟨_, _, ivf⟩ := removeLines_inv nn root _ nn.net id Ren.id net' iv0 hrl
                exact ivf.wfm.io⟩
              have hnode := delNode_node { nn with net := net' } root x2 hroot' hx2'
              have hname := delNode_names_getD { nn with net := net' } root x2 li' hroot' hx2'
              have hlt : (if x2 = root then nn.net.nodes.size - 1 else x2) < nn.net.nodes.size := by
                have : x2 < nn.net.nodes.size - 1 := by rw [← hns]; exact hx2'
                split <;> omega
              refine ⟨if x2 = root then nn.net.nodes.size - 1 else x2, hlt, Twin.trans ?_ t2⟩
              have hl := hls (if x2 = root then nn.net.nodes.size - 1 else x2)
              have hnode' : (delNode { nn with net := net' } root).net.node x2 =
                  net'.node (if x2 = root then nn.net.nodes.size - 1 else x2) := by
                rw [hnode]; show net'.node (if x2 = root then net'.nodes.size - 1 else x2) = _; rw [hns]
              have hname' : (delNode { nn with net := net' } root).names.getD x2 "" =
                  nn.names.getD (if x2 = root then nn.net.nodes.size - 1 else x2) "" := by
                rw [hname]
                show (if x2 = root then nn.names.getD (net'.nodes.size - 1) "" else nn.names.getD x2 "") = _
                rw [hns]; split <;> rfl
              exact ⟨by rw [hnode']; exact hl.1, hname', by rw [hnode']; exact hl.2.1, fun hf => by rw [hnode']; exact hl.2.2 hf⟩

end KV.Transform
