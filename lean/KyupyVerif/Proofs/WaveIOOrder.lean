import KyupyVerif.Proofs.WaveIOCheck
import KyupyVerif.Proofs.PermExec
import KyupyVerif.Proofs.WaveStrip
import KyupyVerif.Model.LevelMem
/-! A level under an ARBITRARY thread order (what a real GPU does, where the launcher gives no order): work items of
different lanes always commute; work items of the same lane commute when the ops have disjoint footprints (the write
region of each is disjoint from the read and write regions of the other) — accumulation into a shared `abuf` cell commutes
because it is an addition. The evaluator instance `evWave` has the footprints given by `c_locs` / `c_caps`. -/
namespace KV.WaveIO
open KV.Wave KV.Grid

theorem onLane_comm {σ} (S : Nat → σ) (j k : Nat) (f g : σ → σ) (h : j ≠ k) :
    onLane (onLane S j f) k g = onLane (onLane S k g) j f := by
  funext i
  unfold onLane
  by_cases h1 : i = j <;> by_cases h2 : i = k
  · exact absurd (h1.symm.trans h2) h
  · simp [h1, h]
  · simp [h2, Ne.symm h]
  · simp [h1, h2]

/-- **any order of lane-local work items**: permuting the threads does not change the result when the work items of
    one lane commute pairwise -/
theorem runLanes_perm {σ} (work : Nat → Nat → σ → σ) {l l' : List (Nat × Nat)} (hp : l.Perm l')
    (hc : ∀ p ∈ l, ∀ q ∈ l, p.1 = q.1 → p.2 ≠ q.2 → ∀ st, work q.1 q.2 (work p.1 p.2 st) = work p.1 p.2 (work q.1 q.2 st))
    (S : Nat → σ) : runLanes work l S = runLanes work l' S := by
  unfold runLanes
  apply KV.Sig.foldl_perm_comm _ hp
  intro a ha b hb S
  by_cases hl : a.1 = b.1
  · by_cases hy : a.2 = b.2
    · have : a = b := Prod.ext hl hy
      subst this; rfl
    · funext i
      unfold onLane
      by_cases hi : i = a.1
      · have hib : i = b.1 := hi.trans hl
        simp only [hi, hl, if_true]
        have := hc a ha b hb hl hy (S b.1)
        rw [← hl] at this ⊢
        exact this
      · have hib : ¬ i = b.1 := fun e => hi (e.trans hl.symm)
        simp [hi, hib]
  · exact onLane_comm S a.1 b.1 _ _ hl

/-! ### footprints of an evaluator -/
/-- `ev` reads only the addresses `rd o` and changes only the addresses `wr o` of the lane's memory -/
structure EvLocal (ev : Ev) (rd wr : OpRow → Int → Prop) : Prop where
  frame : ∀ o sim c a, ¬ wr o a → (ev o sim c).1 a = c a
  dep : ∀ o sim c c', (∀ a, rd o a → c a = c' a) →
    (∀ a, wr o a → (ev o sim c).1 a = (ev o sim c').1 a) ∧ (ev o sim c).2 = (ev o sim c').2

/-- the write set of each op is disjoint from the read and write sets of the other -/
def OpsIndep (rd wr : OpRow → Int → Prop) (a b : OpRow) : Prop :=
  (∀ x, wr a x → ¬ rd b x ∧ ¬ wr b x) ∧ (∀ x, wr b x → ¬ rd a x ∧ ¬ wr a x)

theorem accAdd_comm (a b : AOp) (n1 n2 m1 m2 : Nat) (ab : Int → Int) :
    accAdd a n1 n2 (accAdd b m1 m2 ab) = accAdd b m1 m2 (accAdd a n1 n2 ab) := by
  unfold accAdd
  by_cases ha : 0 ≤ a.aLoc <;> by_cases hb : 0 ≤ b.aLoc <;> simp only [ha, hb, if_true, if_false]
  funext j
  unfold updI
  by_cases hab : a.aLoc = b.aLoc
  · by_cases hj : j = a.aLoc
    · have hjb : j = b.aLoc := hj.trans hab
      simp only [hj, hab, if_true]
      omega
    · have hjb : ¬ j = b.aLoc := fun e => hj (e.trans hab.symm)
      simp [hj, hjb]
  · by_cases hj : j = a.aLoc
    · have hjb : ¬ j = b.aLoc := fun e => hab (hj.symm.trans e)
      have : ¬ a.aLoc = b.aLoc := hab
      subst hj
      simp [this]
    · by_cases hjb : j = b.aLoc
      · subst hjb
        have : ¬ b.aLoc = a.aLoc := fun e => hab e.symm
        simp [this]
      · simp [hj, hjb]

/-- two loop bodies on the same lane commute when their ops have disjoint footprints: same memory, same accumulated activity -/
theorem cpuBody_comm (ev : Ev) (rd wr : OpRow → Int → Prop) (hev : EvLocal ev rd wr) (a b : AOp) (sim : Nat)
    (hi : OpsIndep rd wr a.op b.op) (st : LaneSt) :
    cpuBody ev b sim (cpuBody ev a sim st) = cpuBody ev a sim (cpuBody ev b sim st) := by
  obtain ⟨h1, h2⟩ := hi
  -- what each op reads is untouched by the other
  have ra : ∀ x, rd a.op x → (ev b.op sim st.c).1 x = st.c x := fun x hx =>
    hev.frame b.op sim st.c x (fun hw => (h2 x hw).1 hx)
  have rb : ∀ x, rd b.op x → (ev a.op sim st.c).1 x = st.c x := fun x hx =>
    hev.frame a.op sim st.c x (fun hw => (h1 x hw).1 hx)
  obtain ⟨da, ca⟩ := hev.dep a.op sim (ev b.op sim st.c).1 st.c ra
  obtain ⟨db, cb⟩ := hev.dep b.op sim (ev a.op sim st.c).1 st.c rb
  have hc : (ev b.op sim (ev a.op sim st.c).1).1 = (ev a.op sim (ev b.op sim st.c).1).1 := by
    funext x
    by_cases hwa : wr a.op x
    · have hwb : ¬ wr b.op x := (h1 x hwa).2
      rw [hev.frame b.op sim _ x hwb, da x hwa]
    · rw [hev.frame a.op sim _ x hwa]
      by_cases hwb : wr b.op x
      · exact db x hwb
      · rw [hev.frame b.op sim _ x hwb, hev.frame a.op sim _ x hwa, hev.frame b.op sim _ x hwb]
  unfold cpuBody
  simp only [hc, ca, cb]
  congr 1
  exact accAdd_comm b a _ _ _ _ st.ab

/-- **a level under an arbitrary thread order.** Any list of threads that is a permutation of the work items
    `(sim, op)`, `sim < sims`, `op_start ≤ op < op_stop` — every interleaving a GPU may choose — leaves the same `c` and
    `abuf` as `level_eval_cpu`, for every evaluator with footprints `rd`/`wr`, provided the ops of the level are pairwise
    footprint-independent -/
theorem level_any_order (ev : Ev) (rd wr : OpRow → Int → Prop) (hev : EvLocal ev rd wr) (ops : List AOp)
    (opStart opStop sims : Nat)
    (hind : ∀ y y', y < opStop - opStart → y' < opStop - opStart → y ≠ y' →
      OpsIndep rd wr (ops.getD (opStart + y) default).op (ops.getD (opStart + y') default).op)
    (l : List (Nat × Nat)) (hl : l.Perm (cpuLoop sims (opStop - opStart))) (S : Nat → LaneSt) :
    runLanes (evalWork ev ops opStart) l S = cpuLevel ev ops opStart opStop 0 sims S := by
  rw [cpuLevel_eq_runLanes]
  apply runLanes_perm _ hl
  intro p hp q hq hpq hne st
  have hp' := mem_cpuLoop.mp (hl.mem_iff.mp hp)
  have hq' := mem_cpuLoop.mp (hl.mem_iff.mp hq)
  unfold evalWork
  rw [hpq]
  exact cpuBody_comm ev rd wr hev _ _ q.1 (hind p.2 q.2 hp'.2 hq'.2 hne) st

/-! ### the footprints of `evWave` -/
def inRegion (loc : Nat → Int) (cap : Nat → Nat) (i : Nat) (a : Int) : Prop := loc i ≤ a ∧ a < loc i + (cap i : Int)

theorem rdCells_congr (c c' : Col) (loc : Int) (cap : Nat) (h : ∀ a, loc ≤ a → a < loc + (cap : Int) → c a = c' a) :
    rdCells c loc cap = rdCells c' loc cap := by
  unfold rdCells
  apply List.map_congr_left
  intro k hk
  have := List.mem_range.mp hk
  exact h _ (by omega) (by omega)

/-- `evWave` with one configuration for all lanes and capacities ≥ 2: it reads the regions of its operand indices and of its
    output index and changes only the region of its output index -/
theorem evWave_local (g : WCfg) (loc : Nat → Int) (hcap : ∀ i, 2 ≤ g.cap i) :
    EvLocal (evWave (fun _ => g) loc)
      (fun o a => inRegion loc g.cap o.out a ∨ ∃ i ∈ o.ins, inRegion loc g.cap i a)
      (fun o a => inRegion loc g.cap o.out a) := by
  constructor
  · intro o sim c a ha
    have hlen := waveSem_len g ⟨o.lut, o.out, o.ins⟩ (o.ins.map fun i => readWave (rdCells c (loc i) (g.cap i))) (hcap o.out)
    show wrWave c (loc o.out) (waveSem g ⟨o.lut, o.out, o.ins⟩ (o.ins.map fun i => readWave (rdCells c (loc i) (g.cap i)))) a = c a
    generalize waveSem g ⟨o.lut, o.out, o.ins⟩ (o.ins.map fun i => readWave (rdCells c (loc i) (g.cap i))) = w at hlen
    have hlen' : w.ents.length < g.cap o.out := hlen
    apply wrWave_frame
    intro h
    apply ha
    exact ⟨h.1, by have := h.2; omega⟩
  · intro o sim c c' h
    have hxs : (o.ins.map fun i => readWave (rdCells c (loc i) (g.cap i))) =
        (o.ins.map fun i => readWave (rdCells c' (loc i) (g.cap i))) := by
      apply List.map_congr_left
      intro i hi
      rw [rdCells_congr c c' (loc i) (g.cap i) (fun a h1 h2 => h a (Or.inr ⟨i, hi, h1, h2⟩))]
    constructor
    · intro a ha
      show wrWave c (loc o.out) _ a = wrWave c' (loc o.out) _ a
      rw [hxs]
      generalize waveSem g ⟨o.lut, o.out, o.ins⟩ (o.ins.map fun i => readWave (rdCells c' (loc i) (g.cap i))) = w
      by_cases hw : loc o.out ≤ a ∧ a < loc o.out + ((w.ents.length + 1 : Nat) : Int)
      · -- a written cell: the same value in both
        unfold wrWave
        have : ∀ (l : List T) (c c' : Col) (lo : Int), lo ≤ a → a < lo + (l.length : Int) →
            writeCells c lo l a = writeCells c' lo l a := by
          intro l
          induction l with
          | nil => intro c c' lo h1 h2; simp at h2; omega
          | cons t r ih =>
            intro c c' lo h1 h2
            simp only [writeCells]
            by_cases ha0 : a = lo
            · rw [writeCells_frame _ _ _ _ (by omega), writeCells_frame _ _ _ _ (by omega)]
              simp [updI, ha0]
            · apply ih
              · omega
              · simp only [List.length_cons] at h2; omega
        apply this
        · exact hw.1
        · have := hw.2
          simpa using this
      · rw [wrWave_frame c _ w a hw, wrWave_frame c' _ w a hw]
        exact h a (Or.inl ha)
    · show ((waveCounts g _ _).1, (waveCounts g _ _).2) = ((waveCounts g _ _).1, (waveCounts g _ _).2)
      rw [hxs]

/-! ### one evaluation on memory = the waveform model on what memory holds -/
theorem ok_stored {w : Wv} (h : w.ok) : (∀ x ∈ w.ents, isEnd x = false) ∧ isEnd w.term = true := by
  obtain ⟨⟨_, h2⟩, h3⟩ := h
  constructor
  · intro x hx
    rcases h2 x hx with rfl | hf
    · rfl
    · cases x <;> simp_all [T.isFin, isEnd]
  · revert h3
    cases w.term <;> simp [T.isTerm, isEnd]

/-- delays ≥ 0, output capacity ≥ 4, well-formed operand waveforms in memory: after the evaluation the output region reads back
    as `Wave.waveSem` of the operand waveforms read from memory (the signal-level op semantics of C03–C05, C13), the returned
    counts are `Wave.waveCounts`, and nothing outside the output region has changed -/
theorem evWave_reads_back (g : WCfg) (loc : Nat → Int) (o : OpRow) (sim : Nat) (c : Col)
    (hd : ∀ l p q, 0 ≤ g.delay l p q) (hc : 4 ≤ g.cap o.out)
    (hx : ∀ i ∈ o.ins, (readWave (rdCells c (loc i) (g.cap i))).ok) :
    readWave (rdCells (evWave (fun _ => g) loc o sim c).1 (loc o.out) (g.cap o.out)) =
      waveSem g ⟨o.lut, o.out, o.ins⟩ (o.ins.map fun i => readWave (rdCells c (loc i) (g.cap i))) ∧
    (evWave (fun _ => g) loc o sim c).2 =
      waveCounts g ⟨o.lut, o.out, o.ins⟩ (o.ins.map fun i => readWave (rdCells c (loc i) (g.cap i))) ∧
    ∀ a, ¬ inRegion loc g.cap o.out a → (evWave (fun _ => g) loc o sim c).1 a = c a := by
  have hxs : ∀ x ∈ (o.ins.map fun i => readWave (rdCells c (loc i) (g.cap i))), x.ok := by
    intro x hx'
    obtain ⟨i, hi, rfl⟩ := List.mem_map.mp hx'
    exact hx i hi
  have hok := waveSem_ok g ⟨o.lut, o.out, o.ins⟩ _ hd hc hxs
  have hlen : (waveSem g ⟨o.lut, o.out, o.ins⟩ (o.ins.map fun i => readWave (rdCells c (loc i) (g.cap i)))).ents.length < g.cap o.out :=
    waveSem_len g ⟨o.lut, o.out, o.ins⟩ (o.ins.map fun i => readWave (rdCells c (loc i) (g.cap i))) (by show 2 ≤ g.cap o.out; omega)
  obtain ⟨h1, h2⟩ := ok_stored hok
  have key : (evWave (fun _ => g) loc o sim c).1 =
      wrWave c (loc o.out) (waveSem g ⟨o.lut, o.out, o.ins⟩ (o.ins.map fun i => readWave (rdCells c (loc i) (g.cap i)))) := rfl
  rw [key]
  generalize waveSem g ⟨o.lut, o.out, o.ins⟩ (o.ins.map fun i => readWave (rdCells c (loc i) (g.cap i))) = w at hlen h1 h2
  refine ⟨?_, rfl, ?_⟩
  · exact read_wrWave c (loc o.out) w (g.cap o.out) (by omega) h1 h2
  · intro a ha
    apply wrWave_frame
    intro h
    apply ha
    exact ⟨h.1, by have := h.2; omega⟩

/-! ### Boolean form of the independence of two op rows under a memory map -/
-- `disjointB` (region disjointness) is defined in `Model/LevelMem.lean` (the driver evaluates it)
/-- the output region of each op is disjoint from the output region and from every operand region of the other -/
def opsIndepB (loc : Nat → Int) (cap : Nat → Nat) (a b : OpRow) : Bool :=
  disjointB loc cap a.out b.out && b.ins.all (fun i => disjointB loc cap a.out i) && a.ins.all (fun i => disjointB loc cap b.out i)

theorem disjointB_sound {loc : Nat → Int} {cap : Nat → Nat} {i j : Nat} (h : disjointB loc cap i j = true) (x : Int) :
    inRegion loc cap i x → ¬ inRegion loc cap j x := by
  unfold disjointB at h
  simp only [Bool.or_eq_true, decide_eq_true_eq] at h
  unfold inRegion
  intro h1 h2
  omega

theorem opsIndepB_sound {loc : Nat → Int} {cap : Nat → Nat} {a b : OpRow} (h : opsIndepB loc cap a b = true) :
    OpsIndep (fun o x => inRegion loc cap o.out x ∨ ∃ i ∈ o.ins, inRegion loc cap i x) (fun o x => inRegion loc cap o.out x) a b := by
  unfold opsIndepB at h
  simp only [Bool.and_eq_true, List.all_eq_true] at h
  obtain ⟨⟨h1, h2⟩, h3⟩ := h
  constructor
  · intro x hx
    refine ⟨?_, disjointB_sound h1 x hx⟩
    rintro (hb | ⟨i, hi, hb⟩)
    · exact disjointB_sound h1 x hx hb
    · exact disjointB_sound (h2 i hi) x hx hb
  · intro x hx
    refine ⟨?_, fun ha => disjointB_sound h1 x ha hx⟩
    rintro (ha | ⟨i, hi, ha⟩)
    · exact disjointB_sound h1 x ha hx
    · exact disjointB_sound (h3 i hi) x hx ha

end KV.WaveIO
