import KyupyVerif.Proofs.CircObjSubst
import KyupyVerif.Proofs.CircObjInv
/-! C09: the run-time pin guards of `substitute` (`substGuards`) follow from structural conditions: host and implementation
well formed, port list of the implementation without duplicates, designated cell not a port (`substStatic`).
The argument: `node_map` is injective; every pin of an image node that holds a line was written for an implementation
line with that driver (reader) and pin, or for an instance pin; two such lines with the same end coincide in the
implementation (`WFc0 m`); the loops visit every implementation line / port once. -/
namespace KV.CircObj

/-! ## loops: guard and invariant together -/
theorem foldGO {σ α : Type} (f : σ → α → Option σ) (g : σ → α → Bool) (Inv : σ → List α → Prop)
    (hg : ∀ s a rest, Inv s (a :: rest) → g s a = true)
    (step : ∀ s a rest s', Inv s (a :: rest) → f s a = some s' → Inv s' rest) :
    ∀ (as : List α) (s : σ), Inv s as → foldG f g s as = true ∧ ∀ s', foldO f s as = some s' → Inv s' [] := by
  intro as
  induction as with
  | nil => intro s h; exact ⟨rfl, fun s' e => by simp only [foldO, Option.some.injEq] at e; exact e ▸ h⟩
  | cons a rest ih =>
    intro s h
    simp only [foldG, foldO, Bool.and_eq_true]
    cases hf : f s a with
    | none => exact ⟨⟨hg s a rest h, rfl⟩, fun s' e => by simp at e⟩
    | some s1 =>
      have := ih s1 (step s a rest s1 h hf)
      exact ⟨⟨hg s a rest h, this.1⟩, this.2⟩

/-! ## the implementation circuit -/
theorem nodup_of_idx {l : List Nat} (idx : Nat → Nat) (h : ∀ p (hp : p < l.length), idx l[p] = p) : l.Nodup := by
  show List.Pairwise (· ≠ ·) l
  rw [List.pairwise_iff_getElem]
  intro a b ha hb hab heq
  have h1 := h a ha; have h2 := h b hb
  rw [heq] at h1
  omega

theorem WFc0.nodes_nodup {m : Circ} (wf : WFc0 m) : m.nodes.Nodup := nodup_of_idx (fun j => (m.nobj j).index) wf.nidx
theorem WFc0.lines_nodup {m : Circ} (wf : WFc0 m) : m.lines.Nodup := nodup_of_idx (fun j => (m.lobj j).index) wf.lidx

/-- name and kind determine a node of a well-formed circuit -/
theorem sameNode_inj {m : Circ} (wf : WFc0 m) {a b : Nat} (ha : a ∈ m.nodes) (hb : b ∈ m.nodes)
    (h : sameNode (m.nobj a) (m.nobj b) = true) : a = b := by
  simp only [sameNode, Bool.and_eq_true, beq_iff_eq] at h
  by_cases hk : (m.nobj a).kind = FORK
  · have h1 := wf.forksComplete a ha hk
    have h2 := wf.forksComplete b hb (by rw [← h.2]; exact hk)
    rw [h.1] at h1
    exact keys_unique wf.fkeys h1 h2
  · have h1 := wf.cellsComplete a ha hk
    have h2 := wf.cellsComplete b hb (by rw [← h.2]; exact hk)
    rw [h.1] at h1
    exact keys_unique wf.ckeys h1 h2

theorem inIos_iff {m : Circ} (wf : WFc0 m) {n : Nat} (hn : n ∈ m.nodes) : inIos m n = true ↔ n ∈ m.io := by
  unfold inIos
  rw [List.any_eq_true]
  constructor
  · rintro ⟨j, hj, h⟩
    rw [← sameNode_inj wf (wf.ioIn j hj) hn h]; exact hj
  · intro h; exact ⟨n, h, sameNode_self _⟩

/-! ## `node_map` as an injective finite map -/
structure NmOK (m : Circ) (nm : NMap) : Prop where
  keysIn : ∀ e ∈ nm, e.1 ∈ m.nodes
  keysD : nm.Pairwise fun a b => a.1 ≠ b.1
  valsD : nm.Pairwise fun a b => a.2 ≠ b.2

theorem pairwise_fst_unique {nm : NMap} (h : nm.Pairwise fun a b => a.1 ≠ b.1) {a b : Nat × Nat} (ha : a ∈ nm) (hb : b ∈ nm)
    (hab : a.1 = b.1) : a = b := by
  induction nm with
  | nil => simp at ha
  | cons e nm ih =>
    rw [List.pairwise_cons] at h
    simp only [List.mem_cons] at ha hb
    rcases ha with rfl | ha <;> rcases hb with rfl | hb
    · rfl
    · exact absurd hab (h.1 b hb)
    · exact absurd hab.symm (h.1 a ha)
    · exact ih h.2 ha hb

theorem pairwise_snd_unique {nm : NMap} (h : nm.Pairwise fun a b => a.2 ≠ b.2) {a b : Nat × Nat} (ha : a ∈ nm) (hb : b ∈ nm)
    (hab : a.2 = b.2) : a = b := by
  induction nm with
  | nil => simp at ha
  | cons e nm ih =>
    rw [List.pairwise_cons] at h
    simp only [List.mem_cons] at ha hb
    rcases ha with rfl | ha <;> rcases hb with rfl | hb
    · rfl
    · exact absurd hab (h.1 b hb)
    · exact absurd hab.symm (h.1 a ha)
    · exact ih h.2 ha hb

theorem nmFind_iff {m : Circ} {nm : NMap} (wf : WFc0 m) (ok : NmOK m nm) {n v : Nat} (hn : n ∈ m.nodes) :
    nmFind m nm n = some v ↔ (n, v) ∈ nm := by
  unfold nmFind
  constructor
  · intro h
    simp only [Option.map_eq_some_iff] at h
    obtain ⟨e, he, rfl⟩ := h
    have hm := List.mem_of_find?_eq_some he
    have hs := List.find?_some he
    have : e.1 = n := sameNode_inj wf (ok.keysIn e hm) hn hs
    rw [← this]; exact hm
  · intro h
    cases hf : nm.find? (fun e => sameNode (m.nobj e.1) (m.nobj n)) with
    | none =>
      have := List.find?_eq_none.1 hf _ h
      simp [sameNode_self] at this
    | some e =>
      have hm := List.mem_of_find?_eq_some hf
      have hs := List.find?_some hf
      have h1 : e.1 = n := sameNode_inj wf (ok.keysIn e hm) hn hs
      have : e = (n, v) := pairwise_fst_unique ok.keysD hm h (by simp [h1])
      simp [this]

theorem nmSet_fresh {m : Circ} {nm : NMap} (wf : WFc0 m) (ok : NmOK m nm) {n v : Nat} (hn : n ∈ m.nodes)
    (hnew : ∀ e ∈ nm, e.1 ≠ n) : nmSet m nm n v = nm ++ [(n, v)] := by
  unfold nmSet
  have : nm.any (fun e => sameNode (m.nobj e.1) (m.nobj n)) = false := by
    rw [Bool.eq_false_iff]
    intro h
    obtain ⟨e, he, hs⟩ := List.any_eq_true.1 h
    exact hnew e he (sameNode_inj wf (ok.keysIn e he) hn hs)
  simp [this]

/-! ## the shape of the implementation -/
theorem walkDes_mem {m : Circ} (wf : WFc0 m) : ∀ (fuel n x : Nat), n ∈ m.nodes → walkDes m fuel n = some x → x ∈ m.nodes := by
  intro fuel
  induction fuel with
  | zero => intro n x _ h; simp [walkDes] at h
  | succ fuel ih =>
    intro n x hn h
    simp only [walkDes] at h
    split at h
    · cases hp : pin (m.nobj n).ins 0 with
      | none => simp [hp] at h
      | some l =>
        simp only [hp] at h
        obtain ⟨hl, _, _⟩ := wf.insBack n hn 0 l hp
        obtain ⟨d, hd1, hd2, _⟩ := wf.ldrv l hl
        simp only [hd1] at h
        exact ih d x hd2 h
    · cases h; exact hn

theorem implShape_spec {m : Circ} {sh : Shape} (h : implShape m = some sh) :
    sh.inPorts = m.io.filter (fun p => (m.nobj p).ins.length == 0) ∧
    sh.outLines = ((m.io.filter fun p => (m.nobj p).ins.length != 0).map fun p => pin (m.nobj p).ins 0).filterMap id ∧
    (((m.io.filter fun p => (m.nobj p).ins.length != 0).map fun p => pin (m.nobj p).ins 0).any (·.isNone) = false) := by
  unfold implShape at h
  simp only at h
  split at h
  · cases h
  · rename_i hnone
    split at h
    · cases h
    · cases h
      exact ⟨rfl, rfl, by simpa using hnone⟩

theorem implShape_des_mem {m : Circ} {sh : Shape} (wf : WFc0 m) (h : implShape m = some sh) {dn : Nat} (hd : sh.des = some dn) :
    dn ∈ m.nodes := by
  unfold implShape at h
  simp only at h
  split at h
  · cases h
  · split at h
    · cases h
    · rename_i d0 hd0
      cases h
      simp only at hd
      split at hd
      · exact List.mem_of_find?_eq_some hd
      · subst hd
        split at hd0
        · cases hd0
        · rename_i l0 rest hl
          have hl0 : l0 ∈ ((m.io.filter fun p => (m.nobj p).ins.length != 0).map fun p => pin (m.nobj p).ins 0).filterMap id := by
            rw [hl]; simp
          simp only [List.mem_filterMap, List.mem_map, List.mem_filter, id] at hl0
          obtain ⟨a, ⟨O, ⟨hO, _⟩, hOa⟩, ha⟩ := hl0
          subst ha
          obtain ⟨hlm, _, _⟩ := wf.insBack O (wf.ioIn O hO) 0 l0 hOa
          obtain ⟨d, hd1, hd2, _⟩ := wf.ldrv l0 hlm
          simp only [hd1, Option.map_eq_some_iff] at hd0
          obtain ⟨x, hx, hxe⟩ := hd0
          split at hxe
          · cases hxe
          · cases hxe
            exact walkDes_mem wf _ d dn hd2 hx

/-- since the repair of D32 (a walk that ends at a port yields no designated cell): when no port of the implementation is a
flip-flop/latch the designated cell is not a port — the clause `desNotPort` of `implStatic` holds by itself -/
theorem implShape_des_notPort {m : Circ} {sh : Shape} (h : implShape m = some sh) {dn : Nat} (hd : sh.des = some dn)
    (hps : ∀ p ∈ m.io, isSeqKind (m.nobj p).kind = false) : inIos m dn = false := by
  unfold implShape at h
  simp only at h
  split at h
  · cases h
  · split at h
    · cases h
    · rename_i d0 hd0
      cases h
      simp only at hd
      split at hd
      · -- a state element: a port equal to it (`Node.__eq__`) would be a state element
        have hseq := List.find?_some hd
        cases hio : inIos m dn with
        | false => rfl
        | true =>
          exfalso
          unfold inIos at hio
          rw [List.any_eq_true] at hio
          obtain ⟨p, hp, hsame⟩ := hio
          simp only [sameNode, Bool.and_eq_true, beq_iff_eq] at hsame
          have := hps p hp
          rw [hsame.2, hseq] at this
          exact absurd this (by simp)
      · subst hd
        split at hd0
        · cases hd0
        · split at hd0
          · cases hd0
          · simp only [Option.map_eq_some_iff] at hd0
            obtain ⟨x, _, hxe⟩ := hd0
            split at hxe
            · cases hxe
            · rename_i hn
              cases hxe
              simpa using hn

theorem desNotPort_of_portsNotSeq {m : Circ} (hps : (m.io.all fun p => !(isSeqKind (m.nobj p).kind)) = true) :
    desNotPort m = true := by
  unfold desNotPort
  cases hs : implShape m with
  | none => rfl
  | some sh =>
    cases hd : sh.des with
    | none => simp only [hd]
    | some dn =>
      simp only [hd, Bool.not_eq_true']
      apply implShape_des_notPort hs hd
      intro p hp
      have := List.all_eq_true.mp hps p hp
      simpa using this

/-! ## the loop over the implementation nodes builds an injective `node_map` onto fresh nodes with empty pin lists -/
theorem addImplNode_cases {m : Circ} {hostName : String} {des : Option Nat} {st st' : Circ × NMap} {n : Nat}
    (h : addImplNode m hostName des st n = some st') :
    st' = st ∨ ∃ kind, st' = (addNode st.1 (hostName ++ "~" ++ (m.nobj n).name) kind, nmSet m st.2 n st.1.nextN) ∧
      (inIos m n = true → forkCond m n = true) ∧
      (inIos m n = false → ∀ dn, des = some dn → sameNode (m.nobj n) (m.nobj dn) = false) := by
  have key : ∀ kind, (if nameFree st.1 (hostName ++ "~" ++ (m.nobj n).name) kind = true then
        some (addNode st.1 (hostName ++ "~" ++ (m.nobj n).name) kind, nmSet m st.2 n st.1.nextN) else none) = some st' →
      st' = (addNode st.1 (hostName ++ "~" ++ (m.nobj n).name) kind, nmSet m st.2 n st.1.nextN) := by
    intro kind hk
    split at hk
    · cases hk; rfl
    · cases hk
  unfold addImplNode at h
  simp only at h
  by_cases hio : inIos m n = true
  · simp only [hio, Bool.not_true, Bool.false_eq_true, if_false] at h
    split at h
    · rename_i hc
      exact Or.inr ⟨_, key _ h, fun _ => by unfold forkCond; simp only [hc, Bool.true_or], fun h' => by simp [hio] at h'⟩
    · split at h
      · rename_i hc
        exact Or.inr ⟨_, key _ h, fun _ => by unfold forkCond; simp only [hc, Bool.or_true], fun h' => by simp [hio] at h'⟩
      · cases h; exact Or.inl rfl
  · simp only [hio, Bool.not_false, if_true] at h
    cases des with
    | none =>
      simp only [if_true] at h
      exact Or.inr ⟨_, key _ h, fun h' => absurd h' hio, fun _ dn hd => by cases hd⟩
    | some dn =>
      simp only at h
      split at h
      · rename_i hs
        refine Or.inr ⟨_, key _ h, fun h' => absurd h' hio, fun _ dn' hd => ?_⟩
        cases hd
        simpa using hs
      · cases h; exact Or.inl rfl

structure NmInv (m : Circ) (des : Option Nat) (c : Circ) (nm : NMap) (rest : List Nat) : Prop where
  ok : NmOK m nm
  keyCond : ∀ e ∈ nm, inIos m e.1 = true → forkCond m e.1 = true
  keyDone : ∀ e ∈ nm, des = some e.1 ∨ e.1 ∉ rest
  valsLt : ∀ e ∈ nm, e.2 < c.nextN
  empty : ∀ e ∈ nm, (c.nobj e.2).ins = [] ∧ (c.nobj e.2).outs = []

theorem addImplNode_nm {m : Circ} {hostName : String} {des : Option Nat} {st st' : Circ × NMap} {n : Nat} {rest : List Nat}
    (wf : WFc0 m) (hdes : ∀ dn, des = some dn → inIos m dn = false) (hn : n ∈ m.nodes) (hnr : n ∉ rest)
    (inv : NmInv m des st.1 st.2 (n :: rest)) (h : addImplNode m hostName des st n = some st') :
    NmInv m des st'.1 st'.2 rest := by
  rcases addImplNode_cases h with rfl | ⟨kind, rfl, hc1, hc2⟩
  · exact ⟨inv.ok, inv.keyCond, fun e he => (inv.keyDone e he).imp id (fun h' hm => h' (by simp [hm])), inv.valsLt, inv.empty⟩
  · have hfresh : ∀ e ∈ st.2, e.1 ≠ n := by
      intro e he
      rcases inv.keyDone e he with hd | hd
      · intro heq
        by_cases hio : inIos m n = true
        · have := hdes e.1 hd; rw [heq, hio] at this; cases this
        · have := hc2 (by simpa using hio) e.1 hd
          rw [heq, sameNode_self] at this; cases this
      · intro heq; exact hd (by simp [heq])
    rw [nmSet_fresh wf inv.ok hn hfresh]
    have hvne : ∀ e ∈ st.2, e.2 ≠ st.1.nextN := fun e he => Nat.ne_of_lt (inv.valsLt e he)
    refine ⟨⟨?_, ?_, ?_⟩, ?_, ?_, ?_, ?_⟩
    · intro e he
      rcases List.mem_append.1 he with h1 | h1
      · exact inv.ok.keysIn e h1
      · simp only [List.mem_singleton] at h1; subst h1; exact hn
    · rw [List.pairwise_append]
      refine ⟨inv.ok.keysD, by simp, ?_⟩
      intro a ha b hb
      simp only [List.mem_singleton] at hb; subst hb
      exact hfresh a ha
    · rw [List.pairwise_append]
      refine ⟨inv.ok.valsD, by simp, ?_⟩
      intro a ha b hb
      simp only [List.mem_singleton] at hb; subst hb
      exact hvne a ha
    · intro e he
      rcases List.mem_append.1 he with h1 | h1
      · exact inv.keyCond e h1
      · simp only [List.mem_singleton] at h1; subst h1; exact hc1
    · intro e he
      rcases List.mem_append.1 he with h1 | h1
      · exact (inv.keyDone e h1).imp id (fun h' hm => h' (by simp [hm]))
      · simp only [List.mem_singleton] at h1; subst h1; exact Or.inr hnr
    · intro e he
      show e.2 < st.1.nextN + 1
      rcases List.mem_append.1 he with h1 | h1
      · exact Nat.lt_succ_of_lt (inv.valsLt e h1)
      · simp only [List.mem_singleton] at h1; subst h1; exact Nat.lt_succ_self _
    · intro e he
      rcases List.mem_append.1 he with h1 | h1
      · have : (addNode st.1 (hostName ++ "~" ++ (m.nobj n).name) kind).nobj e.2 = st.1.nobj e.2 := by
          simp [addNode, hvne e h1]
        rw [this]; exact inv.empty e h1
      · simp only [List.mem_singleton] at h1; subst h1
        simp [addNode]

theorem phase1_nm {c : Circ} {i : Nat} {m : Circ} {sh : Shape} (wfc : WFc0 c) (hi : i ∈ c.nodes) (wf : WFc0 m)
    (hs : implShape m = some sh) (hdes : ∀ dn, sh.des = some dn → inIos m dn = false) (rest : List Nat) :
    NmInv m sh.des (phase1 c i m sh.des).1 (phase1 c i m sh.des).2 rest := by
  unfold phase1
  cases hd : sh.des with
  | none =>
    exact ⟨⟨fun e he => by simp at he, List.Pairwise.nil, List.Pairwise.nil⟩, fun e he => by simp at he,
      fun e he => by simp at he, fun e he => by simp at he, fun e he => by simp at he⟩
  | some dn =>
    refine ⟨⟨?_, List.pairwise_singleton _ _, List.pairwise_singleton _ _⟩, ?_, ?_, ?_, ?_⟩
    · intro e he; simp only [List.mem_singleton] at he; subst he; exact implShape_des_mem wf hs hd
    · intro e he hio; simp only [List.mem_singleton] at he; subst he
      rw [hdes dn hd] at hio; cases hio
    · intro e he; simp only [List.mem_singleton] at he; subst he; exact Or.inl rfl
    · intro e he; simp only [List.mem_singleton] at he; subst he; exact (wfc.nfresh i hi).1
    · intro e he; simp only [List.mem_singleton] at he; subst he; simp

/-! ## the loop over the implementation lines: every occupied pin of an image node belongs to a copied line -/
structure Inv3 (m : Circ) (nm : NMap) (L0 : Nat) (c : Circ) (rest : List Nat) : Prop where
  nl : L0 ≤ c.nextL
  outs : ∀ e ∈ nm, ∀ p y, pin (c.nobj e.2).outs p = some y → L0 ≤ y ∧
    ∃ l' ∈ m.lines, l' ∉ rest ∧ (m.lobj l').driver = some e.1 ∧ (m.lobj l').driverPin = p ∧ ∃ e' ∈ nm, (m.lobj l').reader = some e'.1
  ins : ∀ e ∈ nm, ∀ p y, pin (c.nobj e.2).ins p = some y → L0 ≤ y ∧
    ∃ l' ∈ m.lines, l' ∉ rest ∧ (m.lobj l').reader = some e.1 ∧ (m.lobj l').readerPin = p ∧ ∃ e' ∈ nm, (m.lobj l').driver = some e'.1

theorem implLineEnds_spec {m : Circ} {nm : NMap} (wf : WFc0 m) (ok : NmOK m nm) {l D dp R rp : Nat} (hl : l ∈ m.lines)
    (h : implLineEnds m nm l = some (D, dp, R, rp)) :
    ∃ d r, (m.lobj l).driver = some d ∧ (m.lobj l).reader = some r ∧ (d, D) ∈ nm ∧ (r, R) ∈ nm ∧
      dp = (m.lobj l).driverPin ∧ rp = (m.lobj l).readerPin := by
  obtain ⟨d, hd1, hd2, _⟩ := wf.ldrv l hl
  obtain ⟨r, hr1, hr2, _⟩ := wf.lrdr l hl
  unfold implLineEnds at h
  simp only [hd1, hr1] at h
  cases h1 : nmFind m nm r with
  | none => simp [h1] at h
  | some R' =>
    cases h2 : nmFind m nm d with
    | none => simp [h1, h2] at h
    | some D' =>
      simp only [h1, h2, Option.some.injEq, Prod.mk.injEq] at h
      obtain ⟨e1, e2, e3, e4⟩ := h
      subst e1 e3
      exact ⟨d, r, hd1, hr1, (nmFind_iff wf ok hd2).1 h2, (nmFind_iff wf ok hr2).1 h1, e2.symm, e4.symm⟩

/-- two lines of a well-formed circuit with the same driver and driver pin (reader and reader pin) are the same line -/
theorem line_eq_of_driver {m : Circ} (wf : WFc0 m) {a b d : Nat} (ha : a ∈ m.lines) (hb : b ∈ m.lines)
    (h1 : (m.lobj a).driver = some d) (h2 : (m.lobj b).driver = some d) (hp : (m.lobj a).driverPin = (m.lobj b).driverPin) : a = b := by
  obtain ⟨d1, e1, _, p1⟩ := wf.ldrv a ha
  obtain ⟨d2, e2, _, p2⟩ := wf.ldrv b hb
  rw [h1] at e1; rw [h2] at e2; cases e1; cases e2
  rw [hp, p2] at p1; exact (Option.some.inj p1).symm

theorem line_eq_of_reader {m : Circ} (wf : WFc0 m) {a b r : Nat} (ha : a ∈ m.lines) (hb : b ∈ m.lines)
    (h1 : (m.lobj a).reader = some r) (h2 : (m.lobj b).reader = some r) (hp : (m.lobj a).readerPin = (m.lobj b).readerPin) : a = b := by
  obtain ⟨d1, e1, _, p1⟩ := wf.lrdr a ha
  obtain ⟨d2, e2, _, p2⟩ := wf.lrdr b hb
  rw [h1] at e1; rw [h2] at e2; cases e1; cases e2
  rw [hp, p2] at p1; exact (Option.some.inj p1).symm

theorem gImplLine_of_inv3 {m : Circ} {nm : NMap} {L0 : Nat} {c : Circ} {l : Nat} {rest : List Nat} (wf : WFc0 m) (ok : NmOK m nm)
    (hl : l ∈ m.lines) (inv : Inv3 m nm L0 c (l :: rest)) : gImplLine m nm c l = true := by
  unfold gImplLine
  cases he : implLineEnds m nm l with
  | none => rfl
  | some q =>
    obtain ⟨D, dp, R, rp⟩ := q
    obtain ⟨d, r, hd, hr, hdm, hrm, hdp, hrp⟩ := implLineEnds_spec wf ok hl he
    simp only [Bool.and_eq_true, Option.isNone_iff_eq_none]
    constructor
    · cases hp : pin (c.nobj D).outs dp with
      | none => rfl
      | some y =>
        obtain ⟨_, l', hl', hnr, h1, h2, _⟩ := inv.outs (d, D) hdm dp y hp
        have : l' = l := line_eq_of_driver wf hl' hl h1 hd (by rw [h2, hdp])
        exact absurd (by simp [this]) hnr
    · cases hp : pin (c.nobj R).ins rp with
      | none => rfl
      | some y =>
        obtain ⟨_, l', hl', hnr, h1, h2, _⟩ := inv.ins (r, R) hrm rp y hp
        have : l' = l := line_eq_of_reader wf hl' hl h1 hr (by rw [h2, hrp])
        exact absurd (by simp [this]) hnr

theorem addImplLine_inv3 {m : Circ} {nm : NMap} {L0 : Nat} {c c' : Circ} {l : Nat} {rest : List Nat} (wf : WFc0 m) (ok : NmOK m nm)
    (hl : l ∈ m.lines) (hnr : l ∉ rest) (inv : Inv3 m nm L0 c (l :: rest)) (h : addImplLine m nm c l = some c') :
    Inv3 m nm L0 c' rest := by
  have weakO : ∀ e ∈ nm, ∀ p y, pin (c.nobj e.2).outs p = some y → L0 ≤ y ∧
      ∃ l' ∈ m.lines, l' ∉ rest ∧ (m.lobj l').driver = some e.1 ∧ (m.lobj l').driverPin = p ∧ ∃ e' ∈ nm, (m.lobj l').reader = some e'.1 := by
    intro e he p y hp
    obtain ⟨h0, l', h1, h2, h3⟩ := inv.outs e he p y hp
    exact ⟨h0, l', h1, fun hm => h2 (by simp [hm]), h3⟩
  have weakI : ∀ e ∈ nm, ∀ p y, pin (c.nobj e.2).ins p = some y → L0 ≤ y ∧
      ∃ l' ∈ m.lines, l' ∉ rest ∧ (m.lobj l').reader = some e.1 ∧ (m.lobj l').readerPin = p ∧ ∃ e' ∈ nm, (m.lobj l').driver = some e'.1 := by
    intro e he p y hp
    obtain ⟨h0, l', h1, h2, h3⟩ := inv.ins e he p y hp
    exact ⟨h0, l', h1, fun hm => h2 (by simp [hm]), h3⟩
  unfold addImplLine at h
  cases he : implLineEnds m nm l with
  | none => simp only [he, Option.some.injEq] at h; subst h; exact ⟨inv.nl, weakO, weakI⟩
  | some q =>
    obtain ⟨D, dp, R, rp⟩ := q
    obtain ⟨d, r, hd, hr, hdm, hrm, hdp, hrp⟩ := implLineEnds_spec wf ok hl he
    simp only [he, Option.some.injEq] at h
    subst h
    have hn := addLine_nobj c D (some dp) R (some rp)
    refine ⟨Nat.le_succ_of_le inv.nl, ?_, ?_⟩
    · intro e hem p y hp
      rw [(hn e.2).2.2.2.2.1] at hp
      by_cases h1 : e.2 = D ∧ p = dp
      · obtain ⟨h1a, h1b⟩ := h1
        have hy : y = c.nextL := by
          simp only [h1a, if_true, dpinOf, Option.getD_some, pin_growSet, h1b] at hp
          exact (Option.some.inj hp).symm
        have hed : e = (d, D) := pairwise_snd_unique ok.valsD hem hdm h1a
        subst hy
        refine ⟨inv.nl, l, hl, hnr, by rw [hed]; exact hd, by rw [h1b, hdp], (r, R), hrm, hr⟩
      · have : pin (c.nobj e.2).outs p = some y := by
          split at hp
          · rename_i h2
            simp only [dpinOf, Option.getD_some, pin_growSet] at hp
            split at hp
            · rename_i h3; exact absurd ⟨h2, h3⟩ h1
            · exact hp
          · exact hp
        exact weakO e hem p y this
    · intro e hem p y hp
      rw [(hn e.2).2.2.2.2.2] at hp
      by_cases h1 : e.2 = R ∧ p = rp
      · obtain ⟨h1a, h1b⟩ := h1
        have hy : y = c.nextL := by
          simp only [h1a, if_true, rpinOf, Option.getD_some, pin_growSet, h1b] at hp
          exact (Option.some.inj hp).symm
        have hed : e = (r, R) := pairwise_snd_unique ok.valsD hem hrm h1a
        subst hy
        refine ⟨inv.nl, l, hl, hnr, by rw [hed]; exact hr, by rw [h1b, hrp], (d, D), hdm, hd⟩
      · have : pin (c.nobj e.2).ins p = some y := by
          split at hp
          · rename_i h2
            simp only [rpinOf, Option.getD_some, pin_growSet] at hp
            split at hp
            · rename_i h3; exact absurd ⟨h2, h3⟩ h1
            · exact hp
          · exact hp
        exact weakI e hem p y this

/-! ## the loop that connects the instance inputs -/
/-- an input port of the implementation -/
def InPort (m : Circ) (inn : Nat) : Prop := inn ∈ m.io ∧ (m.nobj inn).ins.length = 0

theorem inTarget_spec {m : Circ} {nm : NMap} (wf : WFc0 m) (ok : NmOK m nm) {inn R rp : Nat} (hin : InPort m inn)
    (h : inTarget m nm inn = some (R, rp)) :
    ((m.nobj inn).outs.length = 1 ∧ ∃ l r, l ∈ m.lines ∧ (m.lobj l).driver = some inn ∧ (m.lobj l).reader = some r ∧
        (r, R) ∈ nm ∧ rp = (m.lobj l).readerPin) ∨
    ((m.nobj inn).outs.length ≠ 1 ∧ (inn, R) ∈ nm ∧ rp = 0) := by
  have hinn : inn ∈ m.nodes := wf.ioIn inn hin.1
  unfold inTarget at h
  simp only at h
  split at h
  · rename_i hlen
    left
    refine ⟨by simpa using hlen, ?_⟩
    cases hp : pin (m.nobj inn).outs 0 with
    | none => simp [hp] at h
    | some l =>
      simp only [hp] at h
      obtain ⟨hl, hd, _⟩ := wf.outsBack inn hinn 0 l hp
      obtain ⟨r, hr1, hr2, _⟩ := wf.lrdr l hl
      simp only [hr1, Option.map_eq_some_iff, Prod.mk.injEq] at h
      obtain ⟨a, ha, rfl, hrp⟩ := h
      exact ⟨l, r, hl, hd, hr1, (nmFind_iff wf ok hr2).1 ha, hrp.symm⟩
  · rename_i hlen
    right
    simp only [Option.map_eq_some_iff, Prod.mk.injEq] at h
    obtain ⟨a, ha, rfl, hrp⟩ := h
    exact ⟨by simpa using hlen, (nmFind_iff wf ok hinn).1 ha, hrp.symm⟩

structure Inv4 (c0 : Circ) (i : Nat) (m : Circ) (nm : NMap) (L0 : Nat) (c : Circ) (rest : List (Nat × Option Nat)) : Prop where
  ci : CopyInv (Pend rest) (OutL c0 i) c nm
  nd : PendNodup rest
  disj : ∀ l, Pend rest l → ¬ OutL c0 i l
  old : ∀ l, Pend rest l → l < L0
  keysNd : (rest.map (·.1)).Nodup
  ports : ∀ pr ∈ rest, InPort m pr.1
  outs : ∀ e ∈ nm, ∀ p y, pin (c.nobj e.2).outs p = some y → L0 ≤ y ∧
    ∃ l' ∈ m.lines, (m.lobj l').driver = some e.1 ∧ (m.lobj l').driverPin = p ∧ ∃ e' ∈ nm, (m.lobj l').reader = some e'.1
  ins : ∀ e ∈ nm, ∀ p y, pin (c.nobj e.2).ins p = some y →
      (∃ l' ∈ m.lines, (m.lobj l').reader = some e.1 ∧ (m.lobj l').readerPin = p ∧ ∃ e' ∈ nm, (m.lobj l').driver = some e'.1)
    ∨ (∃ inn, InPort m inn ∧ inn ∉ rest.map (·.1) ∧ (m.nobj inn).outs.length ≠ 0 ∧ inTarget m nm inn = some (e.2, p))

/-- a node that reads a line has a non-empty input list -/
theorem ins_pos_of_reader {m : Circ} (wf : WFc0 m) {l r : Nat} (hl : l ∈ m.lines) (hr : (m.lobj l).reader = some r) :
    (m.nobj r).ins.length ≠ 0 := by
  obtain ⟨r', e1, _, p1⟩ := wf.lrdr l hl
  rw [hr] at e1; cases e1
  have := pin_eq_some_lt p1
  omega

theorem gConnectIn_of_inv4 {c0 : Circ} {i : Nat} {m : Circ} {nm : NMap} {L0 : Nat} {c : Circ} {p : Nat × Option Nat}
    {rest : List (Nat × Option Nat)} (wf : WFc0 m) (ok : NmOK m nm)
    (keyCond : ∀ e ∈ nm, inIos m e.1 = true → forkCond m e.1 = true)
    (inv : Inv4 c0 i m nm L0 c (p :: rest)) : gConnectIn m nm c p = true := by
  obtain ⟨inn, o⟩ := p
  unfold gConnectIn
  cases o with
  | none => rfl
  | some ll =>
    simp only
    split
    · rfl
    · rename_i hlen0
      have hlen0' : (m.nobj inn).outs.length ≠ 0 := by simpa using hlen0
      cases ht : inTarget m nm inn with
      | none => rfl
      | some q =>
        obtain ⟨R, rp⟩ := q
        simp only [Option.isNone_iff_eq_none]
        have hin : InPort m inn := inv.ports (inn, some ll) (by simp)
        have hnotearlier : ∀ inn', inn' ∉ ((inn, some ll) :: rest).map (·.1) → inn' ≠ inn := by
          intro inn' h e; exact h (by simp [e])
        cases hp : pin (c.nobj R).ins rp with
        | none => rfl
        | some y =>
          exfalso
          rcases inTarget_spec wf ok hin ht with ⟨hlen1, l, r, hl, hld, hlr, hrm, hrp⟩ | ⟨hlen1, hrm, hrp⟩
          · -- the port has one reader: the pin is the reader pin of the port's line `l`
            rcases inv.ins (r, R) hrm rp y hp with ⟨l', hl', h1, h2, e', he', h3⟩ | ⟨inn', hin', hnr, hl0, ht'⟩
            · have : l' = l := line_eq_of_reader wf hl' hl h1 hlr (by rw [h2, hrp])
              subst this
              rw [hld] at h3; cases h3
              have hio : inIos m e'.1 = true := (inIos_iff wf (wf.ioIn _ hin.1)).2 hin.1
              have := keyCond e' he' hio
              unfold forkCond at this
              simp only [hin.2, hlen1] at this
              simp at this
            · rcases inTarget_spec wf ok hin' ht' with ⟨_, l2, r2, hl2, hld2, hlr2, hrm2, hrp2⟩ | ⟨_, hrm2, hrp2⟩
              · have : r2 = r := by
                  have := pairwise_snd_unique ok.valsD hrm2 hrm rfl
                  exact (Prod.mk.inj this).1
                subst this
                have : l2 = l := line_eq_of_reader wf hl2 hl hlr2 hlr (by rw [← hrp2, ← hrp])
                subst this
                rw [hld] at hld2; cases hld2
                exact hnotearlier inn hnr rfl
              · have : inn' = r := by
                  have := pairwise_snd_unique ok.valsD hrm2 hrm rfl
                  exact (Prod.mk.inj this).1
                subst this
                exact ins_pos_of_reader wf hl hlr hin'.2
          · -- the port has several readers: pin 0 of the fork made for it
            rcases inv.ins (inn, R) hrm rp y hp with ⟨l', hl', h1, _, _⟩ | ⟨inn', hin', hnr, hl0, ht'⟩
            · exact ins_pos_of_reader wf hl' h1 hin.2
            · rcases inTarget_spec wf ok hin' ht' with ⟨_, l2, r2, hl2, hld2, hlr2, hrm2, hrp2⟩ | ⟨_, hrm2, hrp2⟩
              · have : r2 = inn := by
                  have := pairwise_snd_unique ok.valsD hrm2 hrm rfl
                  exact (Prod.mk.inj this).1
                subst this
                exact ins_pos_of_reader wf hl2 hlr2 hin.2
              · have : inn' = inn := by
                  have := pairwise_snd_unique ok.valsD hrm2 hrm rfl
                  exact (Prod.mk.inj this).1
                exact hnotearlier inn' hnr this

theorem connectIn_inv4 {c0 : Circ} {i : Nat} {m : Circ} {nm : NMap} {L0 : Nat} {c c' : Circ} {p : Nat × Option Nat}
    {rest : List (Nat × Option Nat)} (inv : Inv4 c0 i m nm L0 c (p :: rest)) (hg : gConnectIn m nm c p = true)
    (h : connectIn m nm c p = some c') : Inv4 c0 i m nm L0 c' rest := by
  have ci' := connectIn_inv inv.ci inv.nd inv.disj hg h
  have hnd' := pendNodup_tail inv.nd
  have hsub : ∀ l, Pend rest l → Pend (p :: rest) l := fun l ⟨pr, hpr, e⟩ => ⟨pr, by simp [hpr], e⟩
  have hk := List.nodup_cons.1 (by simpa using inv.keysNd : (p.1 :: rest.map (·.1)).Nodup)
  have hports : ∀ pr ∈ rest, InPort m pr.1 := fun pr hpr => inv.ports pr (by simp [hpr])
  have weakI : ∀ e ∈ nm, ∀ q y, pin (c.nobj e.2).ins q = some y →
      (∃ l' ∈ m.lines, (m.lobj l').reader = some e.1 ∧ (m.lobj l').readerPin = q ∧ ∃ e' ∈ nm, (m.lobj l').driver = some e'.1)
    ∨ (∃ inn, InPort m inn ∧ inn ∉ rest.map (·.1) ∧ (m.nobj inn).outs.length ≠ 0 ∧ inTarget m nm inn = some (e.2, q)) := by
    intro e he q y hq
    rcases inv.ins e he q y hq with h1 | ⟨inn, a, b, c1, d⟩
    · exact Or.inl h1
    · exact Or.inr ⟨inn, a, fun hm => b (by simp only [List.map_cons, List.mem_cons]; exact Or.inr hm), c1, d⟩
  obtain ⟨inn, o⟩ := p
  cases o with
  | none =>
    simp only [connectIn, Option.some.injEq] at h
    subst h
    exact ⟨ci', hnd', fun l hl => inv.disj l (hsub l hl), fun l hl => inv.old l (hsub l hl), hk.2, hports, inv.outs, weakI⟩
  | some ll =>
    have hpll : Pend ((inn, some ll) :: rest) ll := ⟨(inn, some ll), by simp, rfl⟩
    simp only [connectIn] at h
    split at h
    · -- ignored input: the line is removed; its driver is an old node, no image is touched
      have h' : removeLineChk (setStaleReader c ll none (c.lobj ll).readerPin) ll = some c' := h
      have hc' := removeLineChk_some h'
      subst hc'
      have s0 := staleReader_sinv inv.ci.s hpll none (c.lobj ll).readerPin
      have hll := (s0.piOk ll hpll).1
      obtain ⟨d, hdrv, hd, hdpin⟩ := s0.ldrv ll hll (inv.disj ll hpll)
      have ha := (s0.lfresh ll hll).2
      have hn := removeLine_nobj' hdrv ha
      have hrd : ((setStaleReader c ll none (c.lobj ll).readerPin).lobj ll).reader = none := by simp [setStaleReader]
      have hnobj : ∀ j, (setStaleReader c ll none (c.lobj ll).readerPin).nobj j = c.nobj j := fun _ => rfl
      have hne : ∀ e ∈ nm, e.2 ≠ d := by
        intro e he heq
        rw [hnobj] at hdpin
        have := (inv.outs e he _ ll (by rw [heq]; exact hdpin)).1
        have := inv.old ll hpll
        omega
      refine ⟨ci', hnd', fun l hl => inv.disj l (hsub l hl), fun l hl => inv.old l (hsub l hl), hk.2, hports, ?_, ?_⟩
      · intro e he q y hq
        rw [(hn e.2).2.2.2.2.1] at hq
        simp only [hne e he, if_false, hnobj] at hq
        exact inv.outs e he q y hq
      · intro e he q y hq
        rw [(hn e.2).2.2.2.2.2] at hq
        simp only [hrd, hnobj] at hq
        exact weakI e he q y (by simpa using hq)
    · rename_i hlen0
      have hlen0' : (m.nobj inn).outs.length ≠ 0 := by simpa using hlen0
      cases ht : inTarget m nm inn with
      | none => simp [ht] at h
      | some q =>
        obtain ⟨R, rp⟩ := q
        simp only [ht, Option.some.injEq] at h
        subst h
        have hn := setReader_nobj c ll R rp
        refine ⟨ci', hnd', fun l hl => inv.disj l (hsub l hl), fun l hl => inv.old l (hsub l hl), hk.2, hports, ?_, ?_⟩
        · intro e he q y hq
          rw [(hn e.2).2.2.2.2.1] at hq
          exact inv.outs e he q y hq
        · intro e he q y hq
          rw [(hn e.2).2.2.2.2.2] at hq
          by_cases h1 : e.2 = R ∧ q = rp
          · right
            refine ⟨inn, inv.ports (inn, some ll) (by simp), hk.1, hlen0', ?_⟩
            rw [ht, h1.1, h1.2]
          · have : pin (c.nobj e.2).ins q = some y := by
              split at hq
              · rename_i h2
                rw [pin_growSet] at hq
                split at hq
                · rename_i h3; exact absurd ⟨h2, h3⟩ h1
                · exact hq
              · exact hq
            exact weakI e he q y this

/-! ## the loop that connects the instance outputs -/
/-- the line into an output port of the implementation (an entry of `impl_out_lines`) -/
def OutLine (m : Circ) (l : Nat) : Prop := ∃ O, O ∈ m.io ∧ (m.nobj O).ins.length ≠ 0 ∧ pin (m.nobj O).ins 0 = some l

theorem outTarget_spec {m : Circ} {nm : NMap} (wf : WFc0 m) (ok : NmOK m nm) {l D dp : Nat} (hl : OutLine m l)
    (h : outTarget m nm l = some (D, dp)) :
    l ∈ m.lines ∧ ∃ O, O ∈ m.io ∧ (m.lobj l).reader = some O ∧ pin (m.nobj O).ins 0 = some l ∧
      (((m.nobj O).outs.length ≠ 0 ∧ (O, D) ∈ nm ∧ dp = (m.nobj O).outs.length) ∨
       ((m.nobj O).outs.length = 0 ∧ ∃ d, (m.lobj l).driver = some d ∧ (d, D) ∈ nm ∧ dp = (m.lobj l).driverPin)) := by
  obtain ⟨O, hO, _, hp⟩ := hl
  have hOn := wf.ioIn O hO
  obtain ⟨hlm, hr, _⟩ := wf.insBack O hOn 0 l hp
  obtain ⟨d, hd1, hd2, _⟩ := wf.ldrv l hlm
  refine ⟨hlm, O, hO, hr, hp, ?_⟩
  unfold outTarget at h
  simp only [hr, hd1] at h
  split at h
  · rename_i hlen
    left
    simp only [Option.map_eq_some_iff, Prod.mk.injEq] at h
    obtain ⟨a, ha, rfl, hdp⟩ := h
    exact ⟨by omega, (nmFind_iff wf ok hOn).1 ha, hdp.symm⟩
  · rename_i hlen
    right
    simp only [Option.map_eq_some_iff, Prod.mk.injEq] at h
    obtain ⟨a, ha, rfl, hdp⟩ := h
    exact ⟨by omega, d, hd1, (nmFind_iff wf ok hd2).1 ha, hdp.symm⟩

structure Inv5 (m : Circ) (nm : NMap) (all : List (Nat × Option Nat)) (st : Circ × List Nat) (rest : List (Nat × Option Nat)) : Prop where
  oi : OutInv (Pend []) (Pend rest) st nm
  nd : PendNodup rest
  keysNd : (rest.map (·.1)).Nodup
  lines5 : ∀ pr ∈ rest, OutLine m pr.1
  sub : ∀ pr ∈ rest, pr ∈ all
  outs : ∀ e ∈ nm, ∀ p y, pin (st.1.nobj e.2).outs p = some y →
      (∃ l' ∈ m.lines, (m.lobj l').driver = some e.1 ∧ (m.lobj l').driverPin = p ∧ ∃ e' ∈ nm, (m.lobj l').reader = some e'.1)
    ∨ (∃ l ll, (l, some ll) ∈ all ∧ OutLine m l ∧ l ∉ rest.map (·.1) ∧ outTarget m nm l = some (e.2, p))

theorem outs_lt_of_driver {m : Circ} (wf : WFc0 m) {l d : Nat} (hl : l ∈ m.lines) (hd : (m.lobj l).driver = some d) :
    (m.lobj l).driverPin < (m.nobj d).outs.length := by
  obtain ⟨d', e1, _, p1⟩ := wf.ldrv l hl
  rw [hd] at e1; cases e1
  exact pin_eq_some_lt p1

theorem gConnectOut_of_inv5 {m : Circ} {nm : NMap} {all : List (Nat × Option Nat)} {st : Circ × List Nat} {p : Nat × Option Nat}
    {rest : List (Nat × Option Nat)} (wf : WFc0 m) (ok : NmOK m nm)
    (keyCond : ∀ e ∈ nm, inIos m e.1 = true → forkCond m e.1 = true)
    (inv : Inv5 m nm all st (p :: rest)) : gConnectOut m nm st p = true := by
  obtain ⟨l, o⟩ := p
  unfold gConnectOut
  cases o with
  | none => rfl
  | some ll =>
    simp only
    cases ht : outTarget m nm l with
    | none => rfl
    | some q =>
      obtain ⟨D, dp⟩ := q
      simp only [Option.isNone_iff_eq_none]
      have hol : OutLine m l := inv.lines5 (l, some ll) (by simp)
      have hnotearlier : ∀ l2, l2 ∉ ((l, some ll) :: rest).map (·.1) → l2 ≠ l := by
        intro l2 h e; exact h (by simp [e])
      cases hp : pin (st.1.nobj D).outs dp with
      | none => rfl
      | some y =>
        exfalso
        obtain ⟨hlm, O, hO, hrO, hpO, hcase⟩ := outTarget_spec wf ok hol ht
        rcases hcase with ⟨hlen, hDm, hdp⟩ | ⟨hlen, d, hd, hDm, hdp⟩
        · -- the port is read inside the implementation: next free output of the fork made for it
          rcases inv.outs (O, D) hDm dp y hp with ⟨l', hl', h1, h2, _⟩ | ⟨l2, _, _, hol2, hnr, ht2⟩
          · have := outs_lt_of_driver wf hl' h1
            simp only at this
            rw [h2, hdp] at this
            exact Nat.lt_irrefl _ this
          · obtain ⟨hlm2, O2, hO2, hrO2, hpO2, hcase2⟩ := outTarget_spec wf ok hol2 ht2
            rcases hcase2 with ⟨_, hDm2, hdp2⟩ | ⟨_, d2, hd2, hDm2, hdp2⟩
            · have : O2 = O := (Prod.mk.inj (pairwise_snd_unique ok.valsD hDm2 hDm rfl)).1
              subst this
              rw [hpO] at hpO2
              exact hnotearlier l2 hnr (Option.some.inj hpO2).symm
            · have : d2 = O := (Prod.mk.inj (pairwise_snd_unique ok.valsD hDm2 hDm rfl)).1
              subst this
              have := outs_lt_of_driver wf hlm2 hd2
              omega
        · -- the port is only an output: the pin of the line's driver
          rcases inv.outs (d, D) hDm dp y hp with ⟨l', hl', h1, h2, e', he', h3⟩ | ⟨l2, _, _, hol2, hnr, ht2⟩
          · have : l' = l := line_eq_of_driver wf hl' hlm h1 hd (by rw [h2, hdp])
            subst this
            rw [hrO] at h3; cases h3
            have hio : inIos m e'.1 = true := (inIos_iff wf (wf.ioIn _ hO)).2 hO
            have := keyCond e' he' hio
            unfold forkCond at this
            simp only [hlen] at this
            simp at this
          · obtain ⟨hlm2, O2, hO2, hrO2, hpO2, hcase2⟩ := outTarget_spec wf ok hol2 ht2
            rcases hcase2 with ⟨_, hDm2, hdp2⟩ | ⟨_, d2, hd2, hDm2, hdp2⟩
            · have : O2 = d := (Prod.mk.inj (pairwise_snd_unique ok.valsD hDm2 hDm rfl)).1
              subst this
              have := outs_lt_of_driver wf hlm hd
              omega
            · have : d2 = d := (Prod.mk.inj (pairwise_snd_unique ok.valsD hDm2 hDm rfl)).1
              subst this
              exact hnotearlier l2 hnr (line_eq_of_driver wf hlm2 hlm hd2 hd (by rw [← hdp2, ← hdp]))

theorem connectOut_inv5 {m : Circ} {nm : NMap} {all : List (Nat × Option Nat)} {st st' : Circ × List Nat} {p : Nat × Option Nat}
    {rest : List (Nat × Option Nat)} (inv : Inv5 m nm all st (p :: rest)) (hg : gConnectOut m nm st p = true)
    (h : connectOut m nm st p = some st') : Inv5 m nm all st' rest := by
  have oi' := connectOut_inv inv.oi inv.nd hg h
  have hnd' := pendNodup_tail inv.nd
  have hk := List.nodup_cons.1 (by simpa using inv.keysNd : (p.1 :: rest.map (·.1)).Nodup)
  have hlines : ∀ pr ∈ rest, OutLine m pr.1 := fun pr hpr => inv.lines5 pr (by simp [hpr])
  have hsub : ∀ pr ∈ rest, pr ∈ all := fun pr hpr => inv.sub pr (by simp [hpr])
  have weakO : ∀ e ∈ nm, ∀ q y, pin (st.1.nobj e.2).outs q = some y →
      (∃ l' ∈ m.lines, (m.lobj l').driver = some e.1 ∧ (m.lobj l').driverPin = q ∧ ∃ e' ∈ nm, (m.lobj l').reader = some e'.1)
    ∨ (∃ l ll, (l, some ll) ∈ all ∧ OutLine m l ∧ l ∉ rest.map (·.1) ∧ outTarget m nm l = some (e.2, q)) := by
    intro e he q y hq
    rcases inv.outs e he q y hq with h1 | ⟨l, ll, a0, a, b, c1⟩
    · exact Or.inl h1
    · exact Or.inr ⟨l, ll, a0, a, fun hm => b (by simp only [List.map_cons, List.mem_cons]; exact Or.inr hm), c1⟩
  obtain ⟨l, o⟩ := p
  cases o with
  | none =>
    simp only [connectOut, Option.some.injEq] at h
    subst h
    exact ⟨oi', hnd', hk.2, hlines, hsub, weakO⟩
  | some ll =>
    simp only [connectOut] at h
    cases ht : outTarget m nm l with
    | none => simp [ht] at h
    | some q =>
      obtain ⟨D, dp⟩ := q
      simp only [ht, Option.some.injEq] at h
      subst h
      have hn := setDriver_nobj st.1 ll D dp
      refine ⟨oi', hnd', hk.2, hlines, hsub, ?_⟩
      intro e he q y hq
      rw [(hn e.2).2.2.2.2.2] at hq
      by_cases h1 : e.2 = D ∧ q = dp
      · right
        refine ⟨l, ll, inv.sub (l, some ll) (by simp), inv.lines5 (l, some ll) (by simp), hk.1, ?_⟩
        rw [ht, h1.1, h1.2]
      · have : pin (st.1.nobj e.2).outs q = some y := by
          split at hq
          · rename_i h2
            rw [pin_growSet] at hq
            split at hq
            · rename_i h3; exact absurd ⟨h2, h3⟩ h1
            · exact hq
          · exact hq
        exact weakO e he q y this

/-! ## assembly: `substStatic` implies the run-time guards -/
theorem removeNode_nextL (c : Circ) (i : Nat) : (removeNode c i).nextL = c.nextL := by
  unfold removeNode; by_cases h : (c.nobj i).alive = true <;> simp [h]

theorem phase1_nextL (c : Circ) (i : Nat) (m : Circ) (des : Option Nat) : (phase1 c i m des).1.nextL = c.nextL := by
  unfold phase1
  cases des with
  | none => exact removeNode_nextL c i
  | some dn => rfl

theorem addImplNode_nextL {m : Circ} {hostName : String} {des : Option Nat} {st st' : Circ × NMap} {n : Nat}
    (h : addImplNode m hostName des st n = some st') : st'.1.nextL = st.1.nextL := by
  rcases addImplNode_cases h with rfl | ⟨kind, rfl, _, _⟩
  · rfl
  · rfl

theorem nodup_filterMap_of_inj {α β : Type} (f : α → Option β) : ∀ (L : List α), L.Nodup →
    (∀ a ∈ L, ∀ b ∈ L, ∀ y, f a = some y → f b = some y → a = b) → (L.filterMap f).Nodup := by
  intro L
  induction L with
  | nil => intro _ _; simp
  | cons a L ih =>
    intro hnd hinj
    have hnd' := List.nodup_cons.1 hnd
    have ih' := ih hnd'.2 (fun x hx y hy => hinj x (by simp [hx]) y (by simp [hy]))
    cases ha : f a with
    | none => simpa [List.filterMap_cons, ha] using ih'
    | some v =>
      simp only [List.filterMap_cons, ha]
      refine List.nodup_cons.2 ⟨?_, ih'⟩
      intro hv
      obtain ⟨b, hb, hfb⟩ := List.mem_filterMap.1 hv
      have := hinj a (by simp) b (by simp [hb]) v ha hfb
      exact hnd'.1 (this ▸ hb)

theorem zip_map_fst_sublist : ∀ (A : List Nat) (B : List (Option Nat)), List.Sublist ((A.zip B).map (·.1)) A
  | [], _ => by simp
  | _ :: _, [] => by simp
  | a :: A, _ :: B => by
    simp only [List.zip_cons_cons, List.map_cons]
    exact (zip_map_fst_sublist A B).cons_cons a

theorem zip_map_fst_nodup {A : List Nat} {B : List (Option Nat)} (h : A.Nodup) : ((A.zip B).map (·.1)).Nodup :=
  h.sublist (zip_map_fst_sublist A B)

theorem mem_zip_fst {A : List Nat} {B : List (Option Nat)} {pr : Nat × Option Nat} (h : pr ∈ A.zip B) : pr.1 ∈ A :=
  (List.of_mem_zip h).1

theorem substGuards_of_static {c : Circ} {i : Nat} {m : Circ} (wfc : WFc0 c) (hst : substStatic c i m = true) :
    substGuards c i m = true := by
  unfold substStatic implStatic at hst
  simp only [Bool.and_eq_true, List.contains_eq_mem, decide_eq_true_eq] at hst
  obtain ⟨⟨⟨hi, hk⟩, hloop⟩, ⟨hinv, hioN⟩, hdesNP⟩ := hst
  have wf : WFc0 m := ((invOK_iff m).1 hinv).toWFc0
  unfold substGuards
  cases hs : implShape m with
  | none => rfl
  | some sh =>
    simp only
    split
    · rfl
    rename_i har
    have har' : arityOK c i sh = true := by simpa using har
    unfold arityOK at har'
    simp only [Bool.and_eq_true, decide_eq_true_eq] at har'
    have hdes : ∀ dn, sh.des = some dn → inIos m dn = false := by
      intro dn hd
      unfold desNotPort at hdesNP
      simp only [hs, hd, Bool.not_eq_true'] at hdesNP
      exact hdesNP
    obtain ⟨hsp1, hsp2, _⟩ := implShape_spec hs
    cases h2 : foldO (addImplNode m (c.nobj i).name sh.des) (phase1 c i m sh.des) m.nodes with
    | none => rfl
    | some st2 =>
      obtain ⟨c2, nm⟩ := st2
      simp only
      -- the node loop
      have i2 := foldO_inv (addImplNode m (c.nobj i).name sh.des)
        (fun st _ => CopyInv (InL c i) (OutL c i) st.1 st.2)
        (fun s a rest s' hinv hf => addImplNode_inv hinv hf) m.nodes _ _ (phase1_inv wfc hi hk hs) h2
      have n2 := foldO_inv (addImplNode m (c.nobj i).name sh.des)
        (fun st rest => NmInv m sh.des st.1 st.2 rest ∧ st.1.nextL = c.nextL ∧ (∀ x ∈ rest, x ∈ m.nodes) ∧ rest.Nodup)
        (fun s a rest s' hinv hf => by
          have hnd := List.nodup_cons.1 hinv.2.2.2
          exact ⟨addImplNode_nm wf hdes (hinv.2.2.1 a (by simp)) hnd.1 hinv.1 hf, by rw [addImplNode_nextL hf]; exact hinv.2.1,
            fun x hx => hinv.2.2.1 x (by simp [hx]), hnd.2⟩)
        m.nodes _ _ ⟨phase1_nm wfc hi wf hs hdes _, phase1_nextL c i m sh.des, fun x hx => hx, wf.nodes_nodup⟩ h2
      obtain ⟨nmi, hnl2, _, _⟩ := n2
      simp only at nmi hnl2
      have ok := nmi.ok
      -- the line loop
      have inv3_0 : Inv3 m nm c.nextL c2 m.lines := by
        refine ⟨by rw [hnl2]; exact Nat.le_refl _, ?_, ?_⟩
        · intro e he p y hp; rw [(nmi.empty e he).2] at hp; simp at hp
        · intro e he p y hp; rw [(nmi.empty e he).1] at hp; simp at hp
      have g3 := foldGO (addImplLine m nm) (gImplLine m nm)
        (fun cc rest => Inv3 m nm c.nextL cc rest ∧ CopyInv (InL c i) (OutL c i) cc nm ∧ (∀ x ∈ rest, x ∈ m.lines) ∧ rest.Nodup)
        (fun s a rest hinv => gImplLine_of_inv3 wf ok (hinv.2.2.1 a (by simp)) hinv.1)
        (fun s a rest s' hinv hf => by
          have hnd := List.nodup_cons.1 hinv.2.2.2
          have hla := hinv.2.2.1 a (by simp)
          exact ⟨addImplLine_inv3 wf ok hla hnd.1 hinv.1 hf,
            addImplLine_inv hinv.2.1 (gImplLine_of_inv3 wf ok hla hinv.1) hf,
            fun x hx => hinv.2.2.1 x (by simp [hx]), hnd.2⟩)
        m.lines c2 ⟨inv3_0, i2, fun x hx => hx, wf.lines_nodup⟩
      rw [g3.1, Bool.true_and]
      cases h3 : foldO (addImplLine m nm) c2 m.lines with
      | none => rfl
      | some c3 =>
        simp only
        obtain ⟨inv3, ci3, _, _⟩ := g3.2 c3 h3
        -- the inputs
        have hinjI : ∀ p q y, pin (c.nobj i).ins p = some y → pin (c.nobj i).ins q = some y → p = q := by
          intro p q y a b
          have := (wfc.insBack i hi p y a).2.2; have := (wfc.insBack i hi q y b).2.2; omega
        have hinjO : ∀ p q y, pin (c.nobj i).outs p = some y → pin (c.nobj i).outs q = some y → p = q := by
          intro p q y a b
          have := (wfc.outsBack i hi p y a).2.2; have := (wfc.outsBack i hi q y b).2.2; omega
        have hinN : sh.inPorts.Nodup := by rw [hsp1]; exact hioN.sublist List.filter_sublist
        have inv4_0 : Inv4 c i m nm c.nextL c3 (sh.inPorts.zip (padTo (c.nobj i).ins sh.inPorts.length)) := by
          refine ⟨⟨ci3.s.congr_pred (fun l => zip_padTo_pend har'.1 l) (fun _ => Iff.rfl), ci3.nm⟩,
            zip_padTo_pendNodup har'.1 hinjI,
            fun l hl => noSelfLoop_disj wfc hi hloop l ((zip_padTo_pend har'.1 l).1 hl), ?_, zip_map_fst_nodup hinN, ?_, ?_, ?_⟩
          · intro l hl
            obtain ⟨p, hp⟩ := (zip_padTo_pend har'.1 l).1 hl
            exact (wfc.lfresh l (wfc.insBack i hi p l hp).1).1
          · intro pr hpr
            have := mem_zip_fst hpr
            rw [hsp1, List.mem_filter] at this
            exact ⟨this.1, by simpa using this.2⟩
          · intro e he p y hp
            obtain ⟨h0, l', h1, _, h3⟩ := inv3.outs e he p y hp
            exact ⟨h0, l', h1, h3⟩
          · intro e he p y hp
            obtain ⟨_, l', h1, _, h3⟩ := inv3.ins e he p y hp
            exact Or.inl ⟨l', h1, h3⟩
        have g4 := foldGO (connectIn m nm) (gConnectIn m nm) (fun cc rest => Inv4 c i m nm c.nextL cc rest)
          (fun s a rest hinv => gConnectIn_of_inv4 wf ok nmi.keyCond hinv)
          (fun s a rest s' hinv hf => connectIn_inv4 hinv (gConnectIn_of_inv4 wf ok nmi.keyCond hinv) hf)
          _ c3 inv4_0
        rw [g4.1, Bool.true_and]
        cases h4 : foldO (connectIn m nm) c3 (sh.inPorts.zip (padTo (c.nobj i).ins sh.inPorts.length)) with
        | none => rfl
        | some c4 =>
          simp only
          have inv4 := g4.2 c4 h4
          -- the outputs
          have houtN : sh.outLines.Nodup := by
            rw [hsp2, List.filterMap_map]
            apply nodup_filterMap_of_inj _ _ (hioN.sublist List.filter_sublist)
            intro a ha b hb y h1 h2
            simp only [Function.comp, id] at h1 h2
            have ha' := (List.mem_filter.1 ha).1
            have hb' := (List.mem_filter.1 hb).1
            have r1 := (wf.insBack a (wf.ioIn a ha') 0 y h1).2.1
            have r2 := (wf.insBack b (wf.ioIn b hb') 0 y h2).2.1
            rw [r1] at r2; exact Option.some.inj r2
          have inv5_0 : Inv5 m nm (sh.outLines.zip (padTo (c.nobj i).outs sh.outLines.length)) (c4, [])
              (sh.outLines.zip (padTo (c.nobj i).outs sh.outLines.length)) := by
            refine ⟨⟨inv4.ci.s.congr_pred (fun _ => Iff.rfl) (fun l => zip_padTo_pend har'.2 l), inv4.ci.nm,
              fun n hn => by simp at hn⟩, zip_padTo_pendNodup har'.2 hinjO, zip_map_fst_nodup houtN, ?_, fun _ h => h, ?_⟩
            · intro pr hpr
              have := mem_zip_fst hpr
              rw [hsp2] at this
              simp only [List.mem_filterMap, List.mem_map, List.mem_filter, id] at this
              obtain ⟨a, ⟨O, ⟨hO, hOl⟩, hOa⟩, ha⟩ := this
              subst ha
              exact ⟨O, hO, by simpa using hOl, hOa⟩
            · intro e he p y hp
              obtain ⟨_, l', h1, h3⟩ := inv4.outs e he p y hp
              exact Or.inl ⟨l', h1, h3⟩
          exact (foldGO (connectOut m nm) (gConnectOut m nm) (fun st rest => Inv5 m nm (sh.outLines.zip (padTo (c.nobj i).outs sh.outLines.length)) st rest)
            (fun s a rest hinv => gConnectOut_of_inv5 wf ok nmi.keyCond hinv)
            (fun s a rest s' hinv hf => connectOut_inv5 hinv (gConnectOut_of_inv5 wf ok nmi.keyCond hinv) hf)
            _ (c4, []) inv5_0).1

/-- structural well-formed use implies the precondition of `substitute_wf0` -/
theorem substPre0_of_static {c : Circ} {i : Nat} {m : Circ} (wfc : WFc0 c) (hst : substStatic c i m = true) :
    substPre0 c i m = true := by
  have hg := substGuards_of_static wfc hst
  unfold substStatic at hst
  simp only [Bool.and_eq_true] at hst
  unfold substPre0
  simp only [Bool.and_eq_true]
  exact ⟨⟨⟨hst.1.1.1, hst.1.1.2⟩, hst.1.2⟩, hg⟩

end KV.CircObj
