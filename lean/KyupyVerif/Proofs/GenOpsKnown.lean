import KyupyVerif.Proofs.GenOpsProg
import KyupyVerif.Proofs.SemL
import KyupyVerif.Gen.Tables
import KyupyVerif.Proofs.WaveMemSound
/-! Every row the scheduler model emits with the real prefix table carries the code of one of the 33 simulation
primitives (`KnownCode`): `BUF1` / `INV1` for source nodes and forks, a table entry otherwise. -/
namespace KV
open KV.Sig

theorem nodeOpsS_lut (tbl : List PrefixRow) (net : Net) (sn : List Nat) (ix : Idx) (strip : Bool) (n : Nat) (o : OpRow)
    (h : o ∈ nodeOpsS tbl net sn ix strip n) :
    o.lut = BUF1 ∨ o.lut = INV1 ∨ ∃ r ∈ tbl, o.lut = r.p4 ∨ o.lut = r.p3 ∨ o.lut = r.p2 := by
  unfold nodeOpsS at h
  dsimp only at h
  split at h
  · simp only [List.mem_filterMap] at h
    obtain ⟨⟨oo, k⟩, _, hk⟩ := h
    cases oo with
    | none => simp at hk
    | some l =>
      simp only [Option.map_some, Option.some.injEq] at hk
      subst hk
      dsimp only
      split
      · exact Or.inr (Or.inl rfl)
      · exact Or.inl rfl
  · split at h
    · split at h
      · cases h
      · simp only [List.mem_filterMap] at h
        obtain ⟨⟨oo, k⟩, _, hk⟩ := h
        cases oo with
        | none => simp at hk
        | some l =>
          simp only [Option.map_some, Option.some.injEq] at hk
          subst hk
          exact Or.inl rfl
    · split at h
      · rename_i sp hsp
        simp only [List.mem_singleton] at h
        subst h
        unfold selectPrim at hsp
        split at hsp
        · cases hsp
        · rename_i r hr
          have hm := List.mem_of_find?_eq_some hr
          simp only [Option.some.injEq] at hsp
          subst hsp
          refine Or.inr (Or.inr ⟨r, hm, ?_⟩)
          dsimp only
          split
          · exact Or.inl rfl
          · split
            · exact Or.inr (Or.inl rfl)
            · exact Or.inr (Or.inr rfl)
      · cases h

def knownB (code : Nat) : Bool := (Gen.prims.map (·.2)).contains code

theorem known_of_knownB {code : Nat} (h : knownB code = true) : KnownCode code := by
  simp only [knownB, List.contains_iff_mem, List.mem_map] at h
  obtain ⟨⟨name, c⟩, hm, rfl⟩ := h
  exact ⟨name, hm⟩

theorem kindPrefixes_known : Gen.kindPrefixes.all (fun r => knownB r.p4 && knownB r.p3 && knownB r.p2) = true ∧
    knownB BUF1 = true ∧ knownB INV1 = true := by decide +kernel

/-- **the programs of all circuits are over the known op codes** (real prefix table) -/
theorem genOps_known_rows (net : Net) (order : List Nat) (strip : Bool) :
    ∀ o ∈ genOps Gen.kindPrefixes net order strip, KnownCode o.lut := by
  intro o ho
  obtain ⟨n, _, hn⟩ := mem_genOps.1 ho
  rcases nodeOpsS_lut _ _ _ _ _ _ _ hn with h | h | ⟨r, hr, h⟩
  · rw [h]; exact known_of_knownB kindPrefixes_known.2.1
  · rw [h]; exact known_of_knownB kindPrefixes_known.2.2
  · have := List.all_eq_true.1 kindPrefixes_known.1 r hr
    simp only [Bool.and_eq_true] at this
    rcases h with h | h | h <;> rw [h]
    · exact known_of_knownB this.1.1
    · exact known_of_knownB this.1.2
    · exact known_of_knownB this.2

open KV.Wave in
theorem first4_semL8 : First4 semL8 := by
  intro code xs ys h
  unfold semL8
  simp only [arg]
  rw [getD_append4 xs ys h 0 (by omega), getD_append4 xs ys h 1 (by omega), getD_append4 xs ys h 2 (by omega),
    getD_append4 xs ys h 3 (by omega)]

end KV
