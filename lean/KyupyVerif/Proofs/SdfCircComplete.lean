import KyupyVerif.Proofs.SdfCirc
/-! Completeness of the INTERCONNECT look-up and the characterisation of every exit (audit finding 7, open item).

`icLookX` (Model/SdfCirc.lean) = `icLook` with the two kinds of warning kept apart.  Stage by stage:
`icFork` (the decision between the two forks) is characterised for every dump, then translated into statements about lines on a
well-formed dump (`WF`), then simplified under the structural hypothesis `icStructOKB`. -/
namespace KV.Sdf
open KV KV.Transform

/-! ### `icLookX` refines `icLook` -/
theorem icLookX_toLook (C : NNet) (tl : PinIdx) (c1 : String) (p1 : Option String) (c2 : String) (p2 : Option String) :
    (icLookX C tl c1 p1 c2 p2).toLook = icLook C tl c1 p1 c2 p2 := by
  unfold icLookX icLook icPins
  split
  · split
    · split
      · rfl
      · split
        · rfl
        · unfold icFork
          simp only []
          split
          · rfl
          · split
            · split
              · split <;> rfl
              · rfl
            · split
              · split <;> rfl
              · rfl
    · rfl
  · rfl

theorem icLookX_line_iff (C : NNet) (tl : PinIdx) (c1 : String) (p1 : Option String) (c2 : String) (p2 : Option String) (l : Nat) :
    icLookX C tl c1 p1 c2 p2 = .line l ↔ icLook C tl c1 p1 c2 p2 = .line l := by
  rw [← icLookX_toLook]
  cases icLookX C tl c1 p1 c2 p2 <;> simp [IcExit.toLook]

theorem icLookX_raise_iff_look (C : NNet) (tl : PinIdx) (c1 : String) (p1 : Option String) (c2 : String) (p2 : Option String) :
    icLookX C tl c1 p1 c2 p2 = .raise ↔ icLook C tl c1 p1 c2 p2 = .raise := by
  rw [← icLookX_toLook]
  cases icLookX C tl c1 p1 c2 p2 <;> simp [IcExit.toLook]

theorem icLookX_skip_iff_look (C : NNet) (tl : PinIdx) (c1 : String) (p1 : Option String) (c2 : String) (p2 : Option String) :
    icLook C tl c1 p1 c2 p2 = .skip ↔ icLookX C tl c1 p1 c2 p2 = .warnPin ∨ icLookX C tl c1 p1 c2 p2 = .warnNoBranch := by
  rw [← icLookX_toLook]
  cases icLookX C tl c1 p1 c2 p2 <;> simp [IcExit.toLook]

/-! ### both ends resolved -/
/-- `c1, c2 = circuit.cells[cn1], circuit.cells[cn2]` and the two `tlib.pin_index` succeed: cells `i1`, `i2`, pin indices `q1`, `q2` -/
structure IcEnds (C : NNet) (tl : PinIdx) (c1 : String) (p1 : Option String) (c2 : String) (p2 : Option String)
    (i1 q1 i2 q2 : Nat) : Prop where
  cell1 : cellOf C c1 = some i1
  cell2 : cellOf C c2 = some i2
  pin1 : endPin tl (C.net.node i1).kind p1 = some q1
  pin2 : endPin tl (C.net.node i2).kind p2 = some q2

theorem IcEnds.unique {C : NNet} {tl : PinIdx} {c1 : String} {p1 : Option String} {c2 : String} {p2 : Option String}
    {i1 q1 i2 q2 j1 r1 j2 r2 : Nat} (h : IcEnds C tl c1 p1 c2 p2 i1 q1 i2 q2) (h' : IcEnds C tl c1 p1 c2 p2 j1 r1 j2 r2) :
    j1 = i1 ∧ r1 = q1 ∧ j2 = i2 ∧ r2 = q2 := by
  have a := h.cell1; have b := h'.cell1; rw [a] at b; cases b
  have a := h.cell2; have b := h'.cell2; rw [a] at b; cases b
  have a := h.pin1; have b := h'.pin1; rw [a] at b; cases b
  have a := h.pin2; have b := h'.pin2; rw [a] at b; cases b
  exact ⟨rfl, rfl, rfl, rfl⟩

theorem icLookX_of_ends {C : NNet} {tl : PinIdx} {c1 : String} {p1 : Option String} {c2 : String} {p2 : Option String}
    {i1 q1 i2 q2 : Nat} (h : IcEnds C tl c1 p1 c2 p2 i1 q1 i2 q2) : icLookX C tl c1 p1 c2 p2 = icPins C i1 q1 i2 q2 := by
  unfold icLookX
  simp only [h.cell1, h.cell2, h.pin1, h.pin2]

/-- the ends do not resolve: exactly the `KeyError` of `circuit.cells[..]` / the `AssertionError` of `tlib.pin_index` -/
def IcUnresolved (C : NNet) (tl : PinIdx) (c1 : String) (p1 : Option String) (c2 : String) (p2 : Option String) : Prop :=
  cellOf C c1 = none ∨ cellOf C c2 = none ∨
    ∃ i1 i2, cellOf C c1 = some i1 ∧ cellOf C c2 = some i2 ∧
      (endPin tl (C.net.node i1).kind p1 = none ∨ endPin tl (C.net.node i2).kind p2 = none)

theorem ends_or_unresolved (C : NNet) (tl : PinIdx) (c1 : String) (p1 : Option String) (c2 : String) (p2 : Option String) :
    IcUnresolved C tl c1 p1 c2 p2 ∨ ∃ i1 q1 i2 q2, IcEnds C tl c1 p1 c2 p2 i1 q1 i2 q2 := by
  unfold IcUnresolved
  cases h1 : cellOf C c1 with
  | none => simp
  | some i1 =>
    cases h2 : cellOf C c2 with
    | none => simp
    | some i2 =>
      cases h3 : endPin tl (C.net.node i1).kind p1 with
      | none => left; right; right; exact ⟨i1, i2, rfl, rfl, Or.inl h3⟩
      | some q1 =>
        cases h4 : endPin tl (C.net.node i2).kind p2 with
        | none => left; right; right; exact ⟨i1, i2, rfl, rfl, Or.inr h4⟩
        | some q2 => right; exact ⟨i1, q1, i2, q2, h1, h2, h3, h4⟩

theorem icLookX_unresolved {C : NNet} {tl : PinIdx} {c1 : String} {p1 : Option String} {c2 : String} {p2 : Option String}
    (h : IcUnresolved C tl c1 p1 c2 p2) : icLookX C tl c1 p1 c2 p2 = .raise := by
  unfold icLookX
  rcases h with h | h | ⟨i1, i2, h1, h2, h | h⟩
  · simp [h]
  · cases cellOf C c1 <;> simp [h]
  · simp only [h1, h2, h]
  · simp only [h1, h2, h]; cases endPin tl (C.net.node i1).kind p1 <;> rfl

theorem unresolved_not_ends {C : NNet} {tl : PinIdx} {c1 : String} {p1 : Option String} {c2 : String} {p2 : Option String}
    {i1 q1 i2 q2 : Nat} (h : IcEnds C tl c1 p1 c2 p2 i1 q1 i2 q2) : ¬ IcUnresolved C tl c1 p1 c2 p2 := by
  rintro (h' | h' | ⟨j1, j2, h1, h2, h' | h'⟩)
  · rw [h.cell1] at h'; cases h'
  · rw [h.cell2] at h'; cases h'
  · rw [h.cell1] at h1; cases h1; rw [h.pin1] at h'; cases h'
  · rw [h.cell2] at h2; cases h2; rw [h.pin2] at h'; cases h'

/-! ### the fork decision, for every dump -/
section fork
variable (C : NNet) (lo li : Nat)

/-- the `assert`s of the branch-fork case hold for line `l`: `len(f2.outs) == 1`, `f2.ins[0]` is `l`, `f1.outs[l.driver_pin]` is `l` -/
def BranchOK (C : NNet) (f1 f2 l : Nat) : Prop :=
  (C.net.node f2).outs.length = 1 ∧ forkIn (C.net.node f2) = some l ∧ (C.net.node f1).outPin (C.net.line l).dpin = some l

theorem icFork_line_iff (l : Nat) :
    icFork C lo li = .line l ↔
      (C.net.node (C.net.line lo).reader).isFork = true ∧ (C.net.node (C.net.line li).driver).isFork = true ∧
      (C.net.node (C.net.line li).driver).outs.length = 1 ∧ forkIn (C.net.node (C.net.line li).driver) = some l ∧
      ((C.net.line lo).reader = (C.net.line li).driver ∨
        (C.net.node (C.net.line lo).reader).outPin (C.net.line l).dpin = some l) := by
  unfold icFork
  simp only []
  generalize (C.net.line lo).reader = f1
  generalize (C.net.line li).driver = f2
  by_cases hf1 : (C.net.node f1).isFork = true <;> by_cases hf2 : (C.net.node f2).isFork = true <;>
    simp only [hf1, hf2, Bool.and_self, Bool.not_true, Bool.false_eq_true, if_false, Bool.and_false, Bool.and_true,
      Bool.not_false, if_true, reduceCtorEq, false_and, and_false, true_and]
  by_cases hne : f1 = f2
  · subst hne
    simp only [bne_self_eq_false, Bool.false_eq_true, if_false, beq_iff_eq, true_or, and_true]
    by_cases h1 : (C.net.node f1).outs.length = 1
    · simp only [h1, if_true, true_and]
      cases forkIn (C.net.node f1) <;> simp
    · simp [h1]
  · simp only [bne_iff_ne, ne_eq, hne, not_false_eq_true, if_true, false_or]
    cases hfi : forkIn (C.net.node f2) with
    | none => simp
    | some l' =>
      simp only [Bool.and_eq_true, beq_iff_eq, Option.some.injEq]
      constructor
      · intro h
        split at h
        · rename_i hc; cases h; exact ⟨hc.1, rfl, hc.2⟩
        · cases h
      · rintro ⟨h1, rfl, h3⟩
        simp [h1, h3]

theorem icFork_noBranch_iff :
    icFork C lo li = .warnNoBranch ↔
      (C.net.node (C.net.line lo).reader).isFork = true ∧ (C.net.node (C.net.line li).driver).isFork = true ∧
      (C.net.line lo).reader = (C.net.line li).driver ∧ (C.net.node (C.net.line li).driver).outs.length ≠ 1 := by
  unfold icFork
  simp only []
  generalize (C.net.line lo).reader = f1
  generalize (C.net.line li).driver = f2
  by_cases hf1 : (C.net.node f1).isFork = true <;> by_cases hf2 : (C.net.node f2).isFork = true <;>
    simp only [hf1, hf2, Bool.and_self, Bool.not_true, Bool.false_eq_true, if_false, Bool.and_false, Bool.and_true,
      Bool.not_false, if_true, reduceCtorEq, false_and, and_false, true_and]
  by_cases hne : f1 = f2
  · subst hne
    simp only [bne_self_eq_false, Bool.false_eq_true, if_false, beq_iff_eq, true_and]
    by_cases h1 : (C.net.node f1).outs.length = 1
    · simp only [h1, if_true]
      cases forkIn (C.net.node f1) <;> simp
    · simp [h1]
  · simp only [bne_iff_ne, ne_eq, hne, not_false_eq_true, if_true, false_and, iff_false]
    cases hfi : forkIn (C.net.node f2) with
    | none => simp
    | some l' => simp only []; split <;> simp

theorem icFork_ne_warnPin : icFork C lo li ≠ .warnPin := by
  unfold icFork
  simp only []
  repeat' split
  all_goals simp

/-- the fork decision raises: one of the two nodes is not a fork; or they differ and the branch-fork asserts fail; or they are
one fork with one reader and no first input -/
theorem icFork_raise_iff :
    icFork C lo li = .raise ↔
      ¬ ((C.net.node (C.net.line lo).reader).isFork = true ∧ (C.net.node (C.net.line li).driver).isFork = true) ∨
      ((C.net.line lo).reader ≠ (C.net.line li).driver ∧
        ¬ ∃ l, BranchOK C (C.net.line lo).reader (C.net.line li).driver l) ∨
      ((C.net.line lo).reader = (C.net.line li).driver ∧ (C.net.node (C.net.line li).driver).outs.length = 1 ∧
        forkIn (C.net.node (C.net.line li).driver) = none) := by
  unfold icFork BranchOK
  simp only []
  generalize (C.net.line lo).reader = f1
  generalize (C.net.line li).driver = f2
  by_cases hf1 : (C.net.node f1).isFork = true <;> by_cases hf2 : (C.net.node f2).isFork = true <;>
    simp only [hf1, hf2, Bool.and_self, Bool.not_true, Bool.false_eq_true, if_false, Bool.and_false, Bool.and_true,
      Bool.not_false, if_true, false_and, and_false, true_and, not_true_eq_false, not_false_eq_true, false_or,
      true_or]
  by_cases hne : f1 = f2
  · subst hne
    simp only [bne_self_eq_false, Bool.false_eq_true, if_false, beq_iff_eq, ne_eq, not_true_eq_false, false_and, false_or,
      true_and]
    by_cases h1 : (C.net.node f1).outs.length = 1
    · simp only [h1, if_true, true_and]
      cases forkIn (C.net.node f1) <;> simp
    · simp [h1]
  · simp only [bne_iff_ne, ne_eq, hne, not_false_eq_true, if_true, true_and, false_and, or_false]
    cases hfi : forkIn (C.net.node f2) with
    | none => simp
    | some l' =>
      simp only [Bool.and_eq_true, beq_iff_eq, Option.some.injEq]
      constructor
      · intro h
        split at h
        · cases h
        · rename_i hc
          rintro ⟨l, h1, rfl, h3⟩
          exact hc ⟨h1, h3⟩
      · intro h
        split
        · rename_i hc; exact absurd ⟨l', hc.1, rfl, hc.2⟩ h
        · rfl
end fork

/-! ### on a well-formed dump: statements about lines -/
/-- line `l` enters pin 0 of node `f` (`f.ins[0]` is `l`) -/
def FeedsFork (C : NNet) (l f : Nat) : Prop :=
  l < C.net.lines.size ∧ (C.net.line l).reader = f ∧ (C.net.line l).rpin = 0

theorem forkIn_getD {n : NodeD} {l : Nat} : forkIn n = some l ↔ n.ins.getD 0 none = some l := by
  unfold forkIn
  cases h : n.ins with
  | nil => simp
  | cons a t => cases a <;> simp

theorem forkIn_iff {C : NNet} (hwf : WF C) {f : Nat} (hf : f < C.net.nodes.size) (l : Nat) :
    forkIn (C.net.node f) = some l ↔ FeedsFork C l f := by
  rw [forkIn_getD]
  constructor
  · intro h; exact hwf.fwdIn f hf 0 l h
  · rintro ⟨hl, hr, hp⟩
    have := (hwf.back l hl).2.2.2
    rwa [hr, hp] at this

theorem outPin_dpin_iff {C : NNet} (hwf : WF C) {f : Nat} (hf : f < C.net.nodes.size) {l : Nat} (hl : l < C.net.lines.size) :
    (C.net.node f).outPin (C.net.line l).dpin = some l ↔ (C.net.line l).driver = f := by
  constructor
  · intro h; exact (hwf.fwdOut f hf _ l h).2.1
  · intro h
    have := (hwf.back l hl).2.2.1
    rwa [h] at this

/-- the two lines of a resolved entry and their far ends lie inside the dump -/
theorem pins_bounds {C : NNet} (hwf : WF C) {i1 q1 i2 q2 lo li : Nat} (hi1 : i1 < C.net.nodes.size) (hi2 : i2 < C.net.nodes.size)
    (hlo : (C.net.node i1).outPin q1 = some lo) (hli : (C.net.node i2).inPin q2 = some li) :
    lo < C.net.lines.size ∧ li < C.net.lines.size ∧ (C.net.line lo).reader < C.net.nodes.size ∧
      (C.net.line li).driver < C.net.nodes.size ∧ (C.net.line lo).driver = i1 ∧ (C.net.line li).reader = i2 := by
  have a := hwf.fwdOut i1 hi1 q1 lo hlo
  have b := hwf.fwdIn i2 hi2 q2 li hli
  exact ⟨a.1, b.1, (hwf.back lo a.1).2.1, (hwf.back li b.1).1, a.2.1, b.2.1⟩

theorem branchOK_iff {C : NNet} (hwf : WF C) {f1 f2 : Nat} (hf1 : f1 < C.net.nodes.size) (hf2 : f2 < C.net.nodes.size) (l : Nat) :
    BranchOK C f1 f2 l ↔ (C.net.node f2).outs.length = 1 ∧ FeedsFork C l f2 ∧ (C.net.line l).driver = f1 := by
  unfold BranchOK
  rw [forkIn_iff hwf hf2]
  constructor
  · rintro ⟨a, b, c⟩; exact ⟨a, b, (outPin_dpin_iff hwf hf1 b.1).mp c⟩
  · rintro ⟨a, b, c⟩; exact ⟨a, b, (outPin_dpin_iff hwf hf1 b.1).mpr c⟩

/-- **the place of an INTERCONNECT entry** (declarative): both ends resolve; `lo` leaves the origin pin, `li` enters the
destination pin; the reader `f1` of `lo` and the driver `f2` of `li` are forks; `f2` has one reader; `l` enters pin 0 of `f2`;
`f1 = f2` (sole line) or `l` is driven by `f1` (`f2` is a branch fork of the signal fork `f1`) -/
def IcPlace (C : NNet) (tl : PinIdx) (c1 : String) (p1 : Option String) (c2 : String) (p2 : Option String) (l : Nat) : Prop :=
  ∃ i1 i2 q1 q2 lo li, cellOf C c1 = some i1 ∧ cellOf C c2 = some i2 ∧
    endPin tl (C.net.node i1).kind p1 = some q1 ∧ endPin tl (C.net.node i2).kind p2 = some q2 ∧
    (C.net.node i1).outPin q1 = some lo ∧ (C.net.node i2).inPin q2 = some li ∧
    (C.net.node (C.net.line lo).reader).isFork = true ∧ (C.net.node (C.net.line li).driver).isFork = true ∧
    (C.net.node (C.net.line li).driver).outs.length = 1 ∧
    l < C.net.lines.size ∧ (C.net.line l).reader = (C.net.line li).driver ∧ (C.net.line l).rpin = 0 ∧
    ((C.net.line lo).reader = (C.net.line li).driver ∨
     ((C.net.line lo).reader ≠ (C.net.line li).driver ∧ (C.net.line l).driver = (C.net.line lo).reader))

/-- **completeness**: whenever the place exists, the look-up answers it -/
theorem icLook_complete (C : NNet) (hwf : WF C) (tl : PinIdx) (c1 : String) (p1 : Option String) (c2 : String)
    (p2 : Option String) (l : Nat) (h : IcPlace C tl c1 p1 c2 p2 l) : icLook C tl c1 p1 c2 p2 = .line l := by
  obtain ⟨i1, i2, q1, q2, lo, li, hc1, hc2, hq1, hq2, hlo, hli, hk1, hk2, hone, hl, hr, hp, hcase⟩ := h
  rw [← icLookX_line_iff, icLookX_of_ends ⟨hc1, hc2, hq1, hq2⟩]
  unfold icPins
  simp only [hlo, hli]
  obtain ⟨_, _, hf1, hf2, _, _⟩ := pins_bounds hwf (cellOf_some hc1).1 (cellOf_some hc2).1 hlo hli
  rw [icFork_line_iff]
  refine ⟨hk1, hk2, hone, (forkIn_iff hwf hf2 l).mpr ⟨hl, hr, hp⟩, ?_⟩
  rcases hcase with h | ⟨_, h⟩
  · exact Or.inl h
  · exact Or.inr ((outPin_dpin_iff hwf hf1 hl).mpr h)

theorem icLook_line_iff (C : NNet) (hwf : WF C) (tl : PinIdx) (c1 : String) (p1 : Option String) (c2 : String)
    (p2 : Option String) (l : Nat) : icLook C tl c1 p1 c2 p2 = .line l ↔ IcPlace C tl c1 p1 c2 p2 l :=
  ⟨icLook_line_spec C hwf tl c1 p1 c2 p2 l, icLook_complete C hwf tl c1 p1 c2 p2 l⟩

/-- the place is unique -/
theorem IcPlace.unique {C : NNet} (hwf : WF C) {tl : PinIdx} {c1 : String} {p1 : Option String} {c2 : String} {p2 : Option String}
    {l l' : Nat} (h : IcPlace C tl c1 p1 c2 p2 l) (h' : IcPlace C tl c1 p1 c2 p2 l') : l = l' := by
  have a := icLook_complete C hwf tl c1 p1 c2 p2 l h
  have b := icLook_complete C hwf tl c1 p1 c2 p2 l' h'
  rw [a] at b
  exact Look.line.inj b

/-! ### every exit, on every dump (in terms of `icFork`'s conditions) -/
theorem icPins_warnPin_iff (C : NNet) (i1 q1 i2 q2 : Nat) :
    icPins C i1 q1 i2 q2 = .warnPin ↔ (C.net.node i1).outPin q1 = none ∨ (C.net.node i2).inPin q2 = none := by
  unfold icPins
  cases h1 : (C.net.node i1).outPin q1 with
  | none => simp
  | some lo =>
    cases h2 : (C.net.node i2).inPin q2 with
    | none => simp
    | some li => simp [icFork_ne_warnPin]

theorem icPins_ne_warnPin_iff (C : NNet) (i1 q1 i2 q2 : Nat) (x : IcExit) (hx : x ≠ .warnPin) :
    icPins C i1 q1 i2 q2 = x ↔
      ∃ lo li, (C.net.node i1).outPin q1 = some lo ∧ (C.net.node i2).inPin q2 = some li ∧ icFork C lo li = x := by
  unfold icPins
  cases h1 : (C.net.node i1).outPin q1 with
  | none => simp; exact fun h => hx h.symm
  | some lo =>
    cases h2 : (C.net.node i2).inPin q2 with
    | none => simp; exact fun h => hx h.symm
    | some li => simp

theorem icLookX_eq_iff (C : NNet) (tl : PinIdx) (c1 : String) (p1 : Option String) (c2 : String) (p2 : Option String)
    (x : IcExit) (hx : x ≠ .raise) :
    icLookX C tl c1 p1 c2 p2 = x ↔ ∃ i1 q1 i2 q2, IcEnds C tl c1 p1 c2 p2 i1 q1 i2 q2 ∧ icPins C i1 q1 i2 q2 = x := by
  rcases ends_or_unresolved C tl c1 p1 c2 p2 with h | ⟨i1, q1, i2, q2, h⟩
  · rw [icLookX_unresolved h]
    constructor
    · intro h'; exact absurd h'.symm hx
    · rintro ⟨i1, q1, i2, q2, he, _⟩; exact absurd h (unresolved_not_ends he)
  · rw [icLookX_of_ends h]
    constructor
    · intro h'; exact ⟨i1, q1, i2, q2, h, h'⟩
    · rintro ⟨j1, r1, j2, r2, he, h'⟩
      obtain ⟨rfl, rfl, rfl, rfl⟩ := h.unique he
      exact h'

theorem icLookX_raise_iff (C : NNet) (tl : PinIdx) (c1 : String) (p1 : Option String) (c2 : String) (p2 : Option String) :
    icLookX C tl c1 p1 c2 p2 = .raise ↔
      IcUnresolved C tl c1 p1 c2 p2 ∨ ∃ i1 q1 i2 q2, IcEnds C tl c1 p1 c2 p2 i1 q1 i2 q2 ∧ icPins C i1 q1 i2 q2 = .raise := by
  rcases ends_or_unresolved C tl c1 p1 c2 p2 with h | ⟨i1, q1, i2, q2, h⟩
  · simp [icLookX_unresolved h, h]
  · rw [icLookX_of_ends h]
    constructor
    · intro h'; exact Or.inr ⟨i1, q1, i2, q2, h, h'⟩
    · rintro (h' | ⟨j1, r1, j2, r2, he, h'⟩)
      · exact absurd h' (unresolved_not_ends h)
      · obtain ⟨rfl, rfl, rfl, rfl⟩ := h.unique he
        exact h'

/-! ### the structural hypothesis -/
theorem icStruct_fork {C : NNet} (hst : icStructOKB C = true) {f : Nat} (hf : f < C.net.nodes.size)
    (hk : (C.net.node f).isFork = true) : ∃ l, (C.net.node f).ins = [some l] := by
  simp only [icStructOKB, List.all_eq_true, List.mem_range] at hst
  have := hst f hf
  simp only [hk, if_true, Bool.and_eq_true, beq_iff_eq] at this
  obtain ⟨h1, h2⟩ := this
  match hins : (C.net.node f).ins, h1, h2 with
  | [some l], _, _ => exact ⟨l, rfl⟩
  | [none], _, h2 => simp at h2

theorem icStruct_out {C : NNet} (hst : icStructOKB C = true) {i : Nat} (hi : i < C.net.nodes.size)
    (hk : (C.net.node i).isFork = false) {q lo : Nat} (hlo : (C.net.node i).outPin q = some lo) :
    (C.net.node (C.net.line lo).reader).isFork = true := by
  simp only [icStructOKB, List.all_eq_true, List.mem_range] at hst
  have := hst i hi
  simp only [hk, Bool.false_eq_true, if_false, Bool.and_eq_true, List.all_eq_true] at this
  have hm : some lo ∈ (C.net.node i).outs := by
    unfold NodeD.outPin at hlo
    have hlt := getD_some_lt hlo
    rw [List.getD_eq_getElem?_getD, List.getElem?_eq_getElem hlt] at hlo
    simp only [Option.getD_some] at hlo
    exact hlo ▸ List.getElem_mem hlt
  exact this.1 _ hm

theorem icStruct_in {C : NNet} (hst : icStructOKB C = true) {i : Nat} (hi : i < C.net.nodes.size)
    (hk : (C.net.node i).isFork = false) {q li : Nat} (hli : (C.net.node i).inPin q = some li) :
    (C.net.node (C.net.line li).driver).isFork = true := by
  simp only [icStructOKB, List.all_eq_true, List.mem_range] at hst
  have := hst i hi
  simp only [hk, Bool.false_eq_true, if_false, Bool.and_eq_true, List.all_eq_true] at this
  have hm : some li ∈ (C.net.node i).ins := by
    unfold NodeD.inPin at hli
    have hlt := getD_some_lt hli
    rw [List.getD_eq_getElem?_getD, List.getElem?_eq_getElem hlt] at hli
    simp only [Option.getD_some] at hli
    exact hli ▸ List.getElem_mem hlt
  exact this.2 _ hm

/-- a fork of a structured dump has one input line, and every line that enters it is that one -/
theorem icStruct_feeds {C : NNet} (hwf : WF C) (hst : icStructOKB C = true) {f : Nat} (hf : f < C.net.nodes.size)
    (hk : (C.net.node f).isFork = true) : ∃ l, FeedsFork C l f ∧ ∀ l', l' < C.net.lines.size → (C.net.line l').reader = f → l' = l := by
  obtain ⟨l, hl⟩ := icStruct_fork hst hf hk
  have h0 : forkIn (C.net.node f) = some l := by simp [forkIn, hl]
  refine ⟨l, (forkIn_iff hwf hf l).mp h0, ?_⟩
  intro l' hl' hr
  have := (hwf.back l' hl').2.2.2
  rw [hr, hl] at this
  have hlt := getD_some_lt this
  simp only [List.length_singleton, Nat.lt_one_iff] at hlt
  rw [hlt] at this
  simpa using this.symm

/-! ### every exit on a well-formed, structured dump -/
/-- what the structure gives for the two lines of a resolved entry -/
structure IcCtx (C : NNet) (lo li : Nat) : Prop where
  fork1 : (C.net.node (C.net.line lo).reader).isFork = true
  fork2 : (C.net.node (C.net.line li).driver).isFork = true
  lt1 : (C.net.line lo).reader < C.net.nodes.size
  lt2 : (C.net.line li).driver < C.net.nodes.size
  feeds : FeedsFork C lo (C.net.line lo).reader

theorem icCtx_of {C : NNet} (hwf : WF C) (hst : icStructOKB C = true) {tl : PinIdx} {c1 : String} {p1 : Option String}
    {c2 : String} {p2 : Option String} {i1 q1 i2 q2 lo li : Nat} (he : IcEnds C tl c1 p1 c2 p2 i1 q1 i2 q2)
    (hlo : (C.net.node i1).outPin q1 = some lo) (hli : (C.net.node i2).inPin q2 = some li) : IcCtx C lo li := by
  have s1 := cellOf_spec he.cell1
  have s2 := cellOf_spec he.cell2
  obtain ⟨b1, _, hf1, hf2, _, _⟩ := pins_bounds hwf s1.1 s2.1 hlo hli
  have k1 := icStruct_out hst s1.1 s1.2.2 hlo
  have k2 := icStruct_in hst s2.1 s2.2.2 hli
  obtain ⟨l, hl, huniq⟩ := icStruct_feeds hwf hst hf1 k1
  have := huniq lo b1 rfl
  subst this
  exact ⟨k1, k2, hf1, hf2, hl⟩

theorem icFork_line_struct {C : NNet} (hwf : WF C) (hst : icStructOKB C = true) {lo li : Nat} (hc : IcCtx C lo li) (l : Nat) :
    icFork C lo li = .line l ↔
      (C.net.node (C.net.line li).driver).outs.length = 1 ∧
      (((C.net.line lo).reader = (C.net.line li).driver ∧ l = lo) ∨
       ((C.net.line lo).reader ≠ (C.net.line li).driver ∧ FeedsFork C l (C.net.line li).driver ∧
          (C.net.line l).driver = (C.net.line lo).reader)) := by
  rw [icFork_line_iff, forkIn_iff hwf hc.lt2]
  simp only [hc.fork1, hc.fork2, true_and]
  constructor
  · rintro ⟨h1, h2, h3⟩
    refine ⟨h1, ?_⟩
    by_cases heq : (C.net.line lo).reader = (C.net.line li).driver
    · left
      obtain ⟨l0, _, huniq⟩ := icStruct_feeds hwf hst hc.lt2 hc.fork2
      have a := huniq l h2.1 h2.2.1
      have b := huniq lo hc.feeds.1 heq
      exact ⟨heq, a.trans b.symm⟩
    · right
      rcases h3 with h3 | h3
      · exact absurd h3 heq
      · exact ⟨heq, h2, (outPin_dpin_iff hwf hc.lt1 h2.1).mp h3⟩
  · rintro ⟨h1, ⟨heq, rfl⟩ | ⟨hne, h2, h3⟩⟩
    · exact ⟨h1, heq ▸ hc.feeds, Or.inl heq⟩
    · exact ⟨h1, h2, Or.inr ((outPin_dpin_iff hwf hc.lt1 h2.1).mpr h3)⟩

theorem icFork_noBranch_struct {C : NNet} {lo li : Nat} (hc : IcCtx C lo li) :
    icFork C lo li = .warnNoBranch ↔
      (C.net.line lo).reader = (C.net.line li).driver ∧ (C.net.node (C.net.line li).driver).outs.length ≠ 1 := by
  rw [icFork_noBranch_iff]
  simp only [hc.fork1, hc.fork2, true_and]

theorem icFork_raise_struct {C : NNet} (hwf : WF C) (hst : icStructOKB C = true) {lo li : Nat} (hc : IcCtx C lo li) :
    icFork C lo li = .raise ↔
      (C.net.line lo).reader ≠ (C.net.line li).driver ∧
      ¬ ((C.net.node (C.net.line li).driver).outs.length = 1 ∧
          ∃ l, FeedsFork C l (C.net.line li).driver ∧ (C.net.line l).driver = (C.net.line lo).reader) := by
  rw [icFork_raise_iff]
  obtain ⟨l0, hl0, _⟩ := icStruct_feeds hwf hst hc.lt2 hc.fork2
  have hfi : forkIn (C.net.node (C.net.line li).driver) ≠ none := by
    rw [(forkIn_iff hwf hc.lt2 l0).mpr hl0]; simp
  simp only [hc.fork1, hc.fork2, and_self, not_true_eq_false, false_or, hfi, and_false, or_false]
  constructor
  · rintro ⟨hne, h⟩
    refine ⟨hne, ?_⟩
    rintro ⟨h1, l, h2, h3⟩
    exact h ⟨l, (branchOK_iff hwf hc.lt1 hc.lt2 l).mpr ⟨h1, h2, h3⟩⟩
  · rintro ⟨hne, h⟩
    refine ⟨hne, ?_⟩
    rintro ⟨l, hb⟩
    obtain ⟨h1, h2, h3⟩ := (branchOK_iff hwf hc.lt1 hc.lt2 l).mp hb
    exact h ⟨h1, l, h2, h3⟩

section exits
variable (C : NNet) (hwf : WF C) (hst : icStructOKB C = true) (tl : PinIdx) (c1 : String) (p1 : Option String)
  (c2 : String) (p2 : Option String)
include hwf hst

/-- **answer**: (a) sole line — the signal fork of the origin pin has the destination pin as its single reader, `l` is the line
leaving the origin pin; or (b) branch fork — the destination pin is driven by another fork with one reader, whose input line
`l` is driven by the signal fork of the origin pin -/
theorem icLookX_line_struct (l : Nat) :
    icLookX C tl c1 p1 c2 p2 = .line l ↔
      ∃ i1 q1 i2 q2 lo li, IcEnds C tl c1 p1 c2 p2 i1 q1 i2 q2 ∧
        (C.net.node i1).outPin q1 = some lo ∧ (C.net.node i2).inPin q2 = some li ∧
        (C.net.node (C.net.line li).driver).outs.length = 1 ∧
        (((C.net.line lo).reader = (C.net.line li).driver ∧ l = lo) ∨
         ((C.net.line lo).reader ≠ (C.net.line li).driver ∧ FeedsFork C l (C.net.line li).driver ∧
            (C.net.line l).driver = (C.net.line lo).reader)) := by
  rw [icLookX_eq_iff _ _ _ _ _ _ _ (by simp)]
  constructor
  · rintro ⟨i1, q1, i2, q2, he, h⟩
    obtain ⟨lo, li, hlo, hli, h⟩ := (icPins_ne_warnPin_iff C i1 q1 i2 q2 _ (by simp)).mp h
    exact ⟨i1, q1, i2, q2, lo, li, he, hlo, hli, (icFork_line_struct hwf hst (icCtx_of hwf hst he hlo hli) l).mp h⟩
  · rintro ⟨i1, q1, i2, q2, lo, li, he, hlo, hli, h⟩
    exact ⟨i1, q1, i2, q2, he, (icPins_ne_warnPin_iff C i1 q1 i2 q2 _ (by simp)).mpr
      ⟨lo, li, hlo, hli, (icFork_line_struct hwf hst (icCtx_of hwf hst he hlo hli) l).mpr h⟩⟩

/-- **warn "No branchfork"**: one fork between the two pins, and it has fan-out (or no reader slot at all) -/
theorem icLookX_noBranch_struct :
    icLookX C tl c1 p1 c2 p2 = .warnNoBranch ↔
      ∃ i1 q1 i2 q2 lo li, IcEnds C tl c1 p1 c2 p2 i1 q1 i2 q2 ∧
        (C.net.node i1).outPin q1 = some lo ∧ (C.net.node i2).inPin q2 = some li ∧
        (C.net.line lo).reader = (C.net.line li).driver ∧ (C.net.node (C.net.line li).driver).outs.length ≠ 1 := by
  rw [icLookX_eq_iff _ _ _ _ _ _ _ (by simp)]
  constructor
  · rintro ⟨i1, q1, i2, q2, he, h⟩
    obtain ⟨lo, li, hlo, hli, h⟩ := (icPins_ne_warnPin_iff C i1 q1 i2 q2 _ (by simp)).mp h
    exact ⟨i1, q1, i2, q2, lo, li, he, hlo, hli, (icFork_noBranch_struct (icCtx_of hwf hst he hlo hli)).mp h⟩
  · rintro ⟨i1, q1, i2, q2, lo, li, he, hlo, hli, h⟩
    exact ⟨i1, q1, i2, q2, he, (icPins_ne_warnPin_iff C i1 q1 i2 q2 _ (by simp)).mpr
      ⟨lo, li, hlo, hli, (icFork_noBranch_struct (icCtx_of hwf hst he hlo hli)).mpr h⟩⟩

/-- **raise**: a cell name is not in `circuit.cells` (`KeyError`) or a pin name not in the library (`AssertionError`); or both pins
are connected, to different forks, and the fork of the destination pin is not a one-reader branch fork fed by the signal fork
of the origin pin (`AssertionError`: the file names a connection the circuit does not have) -/
theorem icLookX_raise_struct :
    icLookX C tl c1 p1 c2 p2 = .raise ↔
      IcUnresolved C tl c1 p1 c2 p2 ∨
      ∃ i1 q1 i2 q2 lo li, IcEnds C tl c1 p1 c2 p2 i1 q1 i2 q2 ∧
        (C.net.node i1).outPin q1 = some lo ∧ (C.net.node i2).inPin q2 = some li ∧
        (C.net.line lo).reader ≠ (C.net.line li).driver ∧
        ¬ ((C.net.node (C.net.line li).driver).outs.length = 1 ∧
            ∃ l, FeedsFork C l (C.net.line li).driver ∧ (C.net.line l).driver = (C.net.line lo).reader) := by
  rw [icLookX_raise_iff]
  constructor
  · rintro (h | ⟨i1, q1, i2, q2, he, h⟩)
    · exact Or.inl h
    · obtain ⟨lo, li, hlo, hli, h⟩ := (icPins_ne_warnPin_iff C i1 q1 i2 q2 _ (by simp)).mp h
      exact Or.inr ⟨i1, q1, i2, q2, lo, li, he, hlo, hli, (icFork_raise_struct hwf hst (icCtx_of hwf hst he hlo hli)).mp h⟩
  · rintro (h | ⟨i1, q1, i2, q2, lo, li, he, hlo, hli, h⟩)
    · exact Or.inl h
    · exact Or.inr ⟨i1, q1, i2, q2, he, (icPins_ne_warnPin_iff C i1 q1 i2 q2 _ (by simp)).mpr
        ⟨lo, li, hlo, hli, (icFork_raise_struct hwf hst (icCtx_of hwf hst he hlo hli)).mpr h⟩⟩
end exits

/-- **warn "No line to annotate pin"**: both ends resolve and one of the two pins is open (beyond the pin list or `None`);
for every dump -/
theorem icLookX_warnPin_iff (C : NNet) (tl : PinIdx) (c1 : String) (p1 : Option String) (c2 : String) (p2 : Option String) :
    icLookX C tl c1 p1 c2 p2 = .warnPin ↔
      ∃ i1 q1 i2 q2, IcEnds C tl c1 p1 c2 p2 i1 q1 i2 q2 ∧
        ((C.net.node i1).outPin q1 = none ∨ (C.net.node i2).inPin q2 = none) := by
  rw [icLookX_eq_iff _ _ _ _ _ _ _ (by simp)]
  simp only [icPins_warnPin_iff]

/-! ### the functions with their raises: `iopathsC`, `interconnectsC` (second audit, item C14)

`Look.toOpt` sends `raise` and `skip` both to `none`: the tables `pinLineOf` / `icLineOf` exist where the real call raises.  The
statements about the REAL result are about `iopathsC` / `interconnectsC` (`none` = the call raises, no array at all). -/
theorem pinLook_raise_iff (C : NNet) (tl : PinIdx) (name pin : String) :
    pinLook C tl name pin = .raise ↔
      ∃ i, cellOf C name = some i ∧
        (tl (C.net.node i).kind pin = none ∨ ∃ idx, tl (C.net.node i).kind pin = some idx ∧ (C.net.node i).ins.length ≤ idx) := by
  unfold pinLook
  cases hc : cellOf C name with
  | none => simp
  | some i =>
    cases ht : tl (C.net.node i).kind pin with
    | none => simp [ht]
    | some idx =>
      by_cases hlt : idx < (C.net.node i).ins.length
      · have hle : ¬ (C.net.node i).ins.length ≤ idx := by omega
        cases hp : (C.net.node i).inPin idx <;> simp [ht, hlt, hp, hle]
      · have hle : (C.net.node i).ins.length ≤ idx := by omega
        simp [ht, hlt, hle]

theorem iopathsC_eq {C : NNet} {tl : PinIdx} {df : DelayFile} {A : Arr} (h : iopathsC C tl df = some A) :
    A = iopaths (pinLineOf C tl) df := by
  unfold iopathsC at h
  split at h
  · exact (Option.some.inj h).symm
  · cases h

theorem iopathsC_none_iff (C : NNet) (tl : PinIdx) (df : DelayFile) :
    iopathsC C tl df = none ↔ ∃ p ∈ namedEntries df, ioLook C tl p.1 p.2 = .raise := by
  unfold iopathsC
  split
  · rename_i h
    simp only [List.all_eq_true, bne_iff_ne, ne_eq] at h
    simp only [reduceCtorEq, false_iff, not_exists, not_and]
    exact fun p hp => h p hp
  · rename_i h
    rw [Bool.not_eq_true, List.all_eq_false] at h
    simp only [true_iff]
    obtain ⟨p, hp, hr⟩ := h
    exact ⟨p, hp, by simpa using hr⟩

theorem interconnectsC_eq {C : NNet} {tl : PinIdx} {df : DelayFile} {A : Arr} (h : interconnectsC C tl df = some A) :
    interconnects (icLineOf C tl) df = some A := by
  unfold interconnectsC at h
  split at h
  · cases h
  · simp only at h
    split at h
    · exact h
    · cases h

/-- `interconnects(circuit, tlib)` raises exactly when the file has no top-level block, or an entry that is not skipped has a
name with two `/` or a look-up that raises -/
theorem interconnectsC_none_iff (C : NNet) (tl : PinIdx) (df : DelayFile) :
    interconnectsC C tl df = none ↔
      icEntries df = none ∨ ∃ es, icEntries df = some es ∧ ∃ e ∈ es, icSkip (norm e.r) (norm e.f) = false ∧
        (slashOK e.a = false ∨ slashOK e.b = false ∨ icLookE C tl e = .raise) := by
  unfold interconnectsC
  cases hes : icEntries df with
  | none => simp
  | some es =>
    simp only [reduceCtorEq, false_or, Option.some.injEq, exists_eq_left']
    split
    · rename_i h
      simp only [List.all_eq_true, List.mem_filter, Bool.not_eq_true', Bool.and_eq_true, bne_iff_ne, ne_eq, and_imp] at h
      have : interconnects (icLineOf C tl) df ≠ none := by simp [interconnects, hes]
      simp only [this, false_iff, not_exists, not_and, not_or]
      intro e he hs
      obtain ⟨⟨h1, h2⟩, h3⟩ := h e he hs
      exact ⟨by simp [h1], by simp [h2], h3⟩
    · rename_i h
      rw [Bool.not_eq_true, List.all_eq_false] at h
      simp only [true_iff]
      obtain ⟨e, hmem, hbad⟩ := h
      simp only [List.mem_filter, Bool.not_eq_true'] at hmem
      obtain ⟨he, hs⟩ := hmem
      simp only [Bool.and_eq_true, bne_iff_ne, ne_eq] at hbad
      refine ⟨e, he, hs, ?_⟩
      by_cases h1 : slashOK e.a = false
      · exact Or.inl h1
      by_cases h2 : slashOK e.b = false
      · exact Or.inr (Or.inl h2)
      right; right
      apply Classical.byContradiction
      intro h3
      exact hbad ⟨⟨by simpa using h1, by simpa using h2⟩, h3⟩

end KV.Sdf
