import KyupyVerif.Proofs.SdfCirc
/-! Completeness of the INTERCONNECT look-up and the characterisation of every exit (audit finding 7, open item).

`icLookX` (Model/SdfCirc.lean) = `icLook` with the two kinds of warning kept apart.  Stage by stage:
`icFork` (the decision between the two forks) is characterised for every dump, then translated into statements about lines on a
well-formed dump (`WF`), then simplified under the structural hypothesis `icStructOKB`. -/
namespace KV.Sdf
open KV KV.Transform

/-! ### `icLookX` refines `icLook` -/
theorem icLookX_toLook (C : NNet) (tl : PinIdx) (c1 : String) (p1 : Option String) (c2 : String) (p2 : Option String) :
    (icLookX C tl c1 p1 c2 p2).toLook = icLook C tl c1 p1 c2 p2 := by
  unfold icLookX icLook icPins
  split
  · split
    · split
      · rfl
      · split
        · rfl
        · unfold icFork
          simp only []
          split
          · rfl
          · split
            · split
              · split <;> rfl
              · rfl
            · split
              · split <;> rfl
              · rfl
    · rfl
  · rfl

theorem icLookX_line_iff (C : NNet) (tl : PinIdx) (c1 : String) (p1 : Option String) (c2 : String) (p2 : Option String) (l : Nat) :
    icLookX C tl c1 p1 c2 p2 = .line l ↔ icLook C tl c1 p1 c2 p2 = .line l := by
  rw [← icLookX_toLook]
  cases icLookX C tl c1 p1 c2 p2 <;> simp [IcExit.toLook]

theorem icLookX_raise_iff_look (C : NNet) (tl : PinIdx) (c1 : String) (p1 : Option String) (c2 : String) (p2 : Option String) :
    icLookX C tl c1 p1 c2 p2 = .raise ↔ icLook C tl c1 p1 c2 p2 = .raise := by
  rw [← icLookX_toLook]
  cases icLookX C tl c1 p1 c2 p2 <;> simp [IcExit.toLook]

theorem icLookX_skip_iff_look (C : NNet) (tl : PinIdx) (c1 : String) (p1 : Option String) (c2 : String) (p2 : Option String) :
    icLook C tl c1 p1 c2 p2 = .skip ↔ icLookX C tl c1 p1 c2 p2 = .warnPin ∨ icLookX C tl c1 p1 c2 p2 = .warnNoBranch := by
  rw [← icLookX_toLook]
  cases icLookX C tl c1 p1 c2 p2 <;> simp [IcExit.toLook]

/-! ### both ends resolved -/
/-- `c1, c2 = circuit.cells[cn1], circuit.cells[cn2]` and the two `tlib.pin_index` succeed: cells `i1`, `i2`, pin indices `q1`, `q2` -/
structure IcEnds (C : NNet) (tl : PinIdx) (c1 : String) (p1 : Option String) (c2 : String) (p2 : Option String)
    (i1 q1 i2 q2 : Nat) : Prop where
  cell1 : cellOf C c1 = some i1
  cell2 : cellOf C c2 = some i2
  pin1 : endPin tl (C.net.node i1).kind p1 = some q1
  pin2 : endPin tl (C.net.node i2).kind p2 = some q2

theorem IcEnds.unique {C : NNet} {tl : PinIdx} {c1 : String} {p1 : Option String} {c2 : String} {p2 : Option String}
    {i1 q1 i2 q2 j1 r1 j2 r2 : Nat} (h : IcEnds C tl c1 p1 c2 p2 i1 q1 i2 q2) (h' : IcEnds C tl c1 p1 c2 p2 j1 r1 j2 r2) :
    j1 = i1 ∧ r1 = q1 ∧ j2 = i2 ∧ r2 = q2 := by
  have a := h.cell1; have b := h'.cell1; rw [a] at b; cases b
  have a := h.cell2; have b := h'.cell2; rw [a] at b; cases b
  have a := h.pin1; have b := h'.pin1; rw [a] at b; cases b
  have a := h.pin2; have b := h'.pin2; rw [a] at b; cases b
  exact ⟨rfl, rfl, rfl, rfl⟩

theorem icLookX_of_ends {C : NNet} {tl : PinIdx} {c1 : String} {p1 : Option String} {c2 : String} {p2 : Option String}
    {i1 q1 i2 q2 : Nat} (h : IcEnds C tl c1 p1 c2 p2 i1 q1 i2 q2) : icLookX C tl c1 p1 c2 p2 = icPins C i1 q1 i2 q2 := by
  unfold icLookX
  simp only [h.cell1, h.cell2, h.pin1, h.pin2]

/-- the ends do not resolve: exactly the `KeyError` of `circuit.cells[..]` / the `AssertionError` of `tlib.pin_index` -/
def IcUnresolved (C : NNet) (tl : PinIdx) (c1 : String) (p1 : Option String) (c2 : String) (p2 : Option String) : Prop :=
  cellOf C c1 = none ∨ cellOf C c2 = none ∨
    ∃ i1 i2, cellOf C c1 = some i1 ∧ cellOf C c2 = some i2 ∧
      (endPin tl (C.net.node i1).kind p1 = none ∨ endPin tl (C.net.node i2).kind p2 = none)

theorem ends_or_unresolved (C : NNet) (tl : PinIdx) (c1 : String) (p1 : Option String) (c2 : String) (p2 : Option String) :
    IcUnresolved C tl c1 p1 c2 p2 ∨ ∃ i1 q1 i2 q2, IcEnds C tl c1 p1 c2 p2 i1 q1 i2 q2 := by
  unfold IcUnresolved
  cases h1 : cellOf C c1 with
  | none => simp
  | some i1 =>
    cases h2 : cellOf C c2 with
    | none => simp
    | some i2 =>
      cases h3 : endPin tl (C.net.node i1).kind p1 with
      | none => left; right; right; exact ⟨i1, i2, rfl, rfl, Or.inl h3⟩
      | some q1 =>
        cases h4 : endPin tl (C.net.node i2).kind p2 with
        | none => left; right; right; exact ⟨i1, i2, rfl, rfl, Or.inr h4⟩
        | some q2 => right; exact ⟨i1, q1, i2, q2, h1, h2, h3, h4⟩

theorem icLookX_unresolved {C : NNet} {tl : PinIdx} {c1 : String} {p1 : Option String} {c2 : String} {p2 : Option String}
    (h : IcUnresolved C tl c1 p1 c2 p2) : icLookX C tl c1 p1 c2 p2 = .raise := by
  unfold icLookX
  rcases h with h | h | ⟨i1, i2, h1, h2, h | h⟩
  · simp [h]
  · cases cellOf C c1 <;> simp [h]
  · simp only [h1, h2, h]
  · simp only [h1, h2, h]; cases endPin tl (C.net.node i1).kind p1 <;> rfl

theorem unresolved_not_ends {C : NNet} {tl : PinIdx} {c1 : String} {p1 : Option String} {c2 : String} {p2 : Option String}
    {i1 q1 i2 q2 : Nat} (h : IcEnds C tl c1 p1 c2 p2 i1 q1 i2 q2) : ¬ IcUnresolved C tl c1 p1 c2 p2 := by
  rintro (h' | h' | ⟨j1, j2, h1, h2, h' | h'⟩)
  · rw [h.cell1] at h'; cases h'
  · rw [h.cell2] at h'; cases h'
  · rw [h.cell1] at h1; cases h1; rw [h.pin1] at h'; cases h'
  · rw [h.cell2] at h2; cases h2; rw [h.pin2] at h'; cases h'

/-! ### the fork decision, for every dump -/
section fork
variable (C : NNet) (lo li : Nat)

/-- the `assert`s of the branch-fork case hold for line `l`: `len(f2.outs) == 1`, `f2.ins[0]` is `l`, `f1.outs[l.driver_pin]` is `l` -/
def BranchOK (C : NNet) (f1 f2 l : Nat) : Prop :=
  (C.net.node f2).outs.length = 1 ∧ forkIn (C.net.node f2) = some l ∧ (C.net.node f1).outPin (C.net.line l).dpin = some l

theorem icFork_line_iff (l : Nat) :
    icFork C lo li = .line l ↔
      (C.net.node (C.net.line lo).reader).isFork = true ∧ (C.net.node (C.net.line li).driver).isFork = true ∧
      (C.net.node (C.net.line li).driver).outs.length = 1 ∧ forkIn (C.net.node (C.net.line li).driver) = some l ∧
      ((C.net.line lo).reader = (C.net.line li).driver ∨
        (C.net.node (C.net.line lo).reader).outPin (C.net.line l).dpin = some l) := by
  unfold icFork
  simp only []
  generalize (C.net.line lo).reader = f1
  generalize (C.net.line li).driver = f2
  by_cases hf1 : (C.net.node f1).isFork = true <;> by_cases hf2 : (C.net.node f2).isFork = true <;>
    simp only [hf1, hf2, Bool.and_self, Bool.not_true, Bool.false_eq_true, if_false, Bool.and_false, Bool.and_true,
      Bool.not_false, if_true, reduceCtorEq, false_and, and_false, true_and]
  by_cases hne : f1 = f2
  · subst hne
    simp only [bne_self_eq_false, Bool.false_eq_true, if_false, beq_iff_eq, true_or, and_true]
    by_cases h1 : (C.net.node f1).outs.length = 1
    · simp only [h1, if_true, true_and]
      cases forkIn (C.net.node f1) <;> simp
    · simp [h1]
  · simp only [bne_iff_ne, ne_eq, hne, not_false_eq_true, if_true, false_or]
    cases hfi : forkIn (C.net.node f2) with
    | none => simp
    | some l' =>
      simp only [Bool.and_eq_true, beq_iff_eq, Option.some.injEq]
      constructor
      · intro h
        split at h
        · rename_i hc; cases h; exact ⟨hc.1, rfl, hc.2⟩
        · cases h
      · rintro ⟨h1, rfl, h3⟩
        simp [h1, h3]

theorem icFork_noBranch_iff :
    icFork C lo li = .warnNoBranch ↔
      (C.net.node (C.net.line lo).reader).isFork = true ∧ (C.net.node (C.net.line li).driver).isFork = true ∧
      (C.net.line lo).reader = (C.net.line li).driver ∧ (C.net.node (C.net.line li).driver).outs.length ≠ 1 := by
  unfold icFork
  simp only []
  generalize (C.net.line lo).reader = f1
  generalize (C.net.line li).driver = f2
  by_cases hf1 : (C.net.node f1).isFork = true <;> by_cases hf2 : (C.net.node f2).isFork = true <;>
    simp only [hf1, hf2, Bool.and_self, Bool.not_true, Bool.false_eq_true, if_false, Bool.and_false, Bool.and_true,
      Bool.not_false, if_true, reduceCtorEq, false_and, and_false, true_and]
  by_cases hne : f1 = f2
  · subst hne
    simp only [bne_self_eq_false, Bool.false_eq_true, if_false, beq_iff_eq, true_and]
    by_cases h1 : (C.net.node f1).outs.length = 1
    · simp only [h1, if_true]
      cases forkIn (C.net.node f1) <;> simp
    · simp [h1]
  · simp only [bne_iff_ne, ne_eq, hne, not_false_eq_true, if_true, false_and, iff_false]
    cases hfi : forkIn (C.net.node f2) with
    | none => simp
    | some l' => simp only []; split <;> simp

theorem icFork_ne_warnPin : icFork C lo li ≠ .warnPin := by
  unfold icFork
  simp only []
  repeat' split
  all_goals simp

/-- the fork decision raises: one of the two nodes is not a fork; or they differ and the branch-fork asserts fail; or they are
one fork with one reader and no first input -/
theorem icFork_raise_iff :
    icFork C lo li = .raise ↔
      ¬ ((C.net.node (C.net.line lo).reader).isFork = true ∧ (C.net.node (C.net.line li).driver).isFork = true) ∨
      ((C.net.line lo).reader ≠ (C.net.line li).driver ∧
        ¬ ∃ l, BranchOK C (C.net.line lo).reader (C.net.line li).driver l) ∨
      ((C.net.line lo).reader = (C.net.line li).driver ∧ (C.net.node (C.net.line li).driver).outs.length = 1 ∧
        forkIn (C.net.node (C.net.line li).driver) = none) := by
  unfold icFork BranchOK
  simp only []
  generalize (C.net.line lo).reader = f1
  generalize (C.net.line li).driver = f2
  by_cases hf1 : (C.net.node f1).isFork = true <;> by_cases hf2 : (C.net.node f2).isFork = true <;>
    simp only [hf1, hf2, Bool.and_self, Bool.not_true, Bool.false_eq_true, if_false, Bool.and_false, Bool.and_true,
      Bool.not_false, if_true, reduceCtorEq, false_and, and_false, true_and, not_true_eq_false, not_false_eq_true, false_or,
      true_or]
  by_cases hne : f1 = f2
  · subst hne
    simp only [bne_self_eq_false, Bool.false_eq_true, if_false, beq_iff_eq, ne_eq, not_true_eq_false, false_and, false_or,
      true_and]
    by_cases h1 : (C.net.node f1).outs.length = 1
    · simp only [h1, if_true, true_and]
      cases forkIn (C.net.node f1) <;> simp
    · simp [h1]
  · simp only [bne_iff_ne, ne_eq, hne, not_false_eq_true, if_true, true_and, false_and, or_false]
    cases hfi : forkIn (C.net.node f2) with
    | none => simp
    | some l' =>
      simp only [Bool.and_eq_true, beq_iff_eq, Option.some.injEq]
      constructor
      · intro h
        split at h
        · cases h
        · rename_i hc
          rintro ⟨l, h1, rfl, h3⟩
          exact hc ⟨h1, h3⟩
      · intro h
        split
        · rename_i hc; exact absurd ⟨l', hc.1, rfl, hc.2⟩ h
        · rfl
end fork

end KV.Sdf
