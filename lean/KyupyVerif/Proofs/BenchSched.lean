import KyupyVerif.Proofs.BenchForks
import KyupyVerif.Proofs.BenchEnd
/-! The scheduler's domain hypotheses for `benchNet stmts`, from conditions on the DESCRIPTION: for a closed description
(`benchClosedB`) `forksOKB` holds for every order (`bench_forksOK`); if moreover every combinational kind is known to the
simulator's prefix table (`benchKnownB`) and the order covers every node, every line is scheduled (`bench_linesDriven`). -/
namespace KV.Netlist
open KV

variable {stmts : List BStmt}

/-- every combinational gate kind is known to `SimOps` (generated prefix table) in the arity variant its operand count selects -/
def benchKnownB (stmts : List BStmt) : Bool :=
  (benchGates stmts).all fun g => isSeqKind g.kind ||
    (selectPrim Gen.kindPrefixes g.kind.toLower (decide (2 < g.drv.length)) (decide (3 < g.drv.length))).isSome

structure BenchClosed (stmts : List BStmt) : Prop where
  ok : BenchOK stmts
  lkinds : ∀ g ∈ benchGates stmts, g.kind.toLower ≠ forkKind
  drv : ∀ g ∈ benchGates stmts, ∀ d ∈ g.drv, isGateName stmts d = true ∨ d ∈ benchPorts stmts

theorem benchClosed_of (stmts : List BStmt) (h : benchClosedB stmts = true) : BenchClosed stmts := by
  unfold benchClosedB at h
  simp only [Bool.and_eq_true, List.all_eq_true, bne_iff_ne, ne_eq, Bool.or_eq_true, List.contains_eq_mem, decide_eq_true_eq] at h
  exact ⟨benchOK_of stmts h.1, fun g hg => (h.2 g hg).1, fun g hg d hd => (h.2 g hg).2 d hd⟩

/-! ## drivers of the lines -/

theorem gateLines_cell_drivers (g : BGate) : ((gateLines g).map (·.1)).filter isCellEp = [Ep.cell g.name 0] := by
  unfold gateLines
  simp only [List.map_cons, List.filter_cons, isCellEp, if_true, List.map_map]
  congr 1
  induction g.drv.zipIdx with
  | nil => rfl
  | cons x xs ih => simp only [List.map_cons, List.filter_cons, Function.comp_def, isCellEp]; exact ih

theorem benchL_cell_drivers (hok : BenchOK stmts) : (((benchL stmts).map (·.1)).filter isCellEp).Nodup := by
  have : ((benchL stmts).map (·.1)).filter isCellEp = (benchGates stmts).map fun g => Ep.cell g.name 0 := by
    unfold benchL
    induction benchGates stmts with
    | nil => rfl
    | cons g r ih => simp only [List.flatMap_cons, List.map_append, List.filter_append, gateLines_cell_drivers, ih, List.map_cons]; rfl
  rw [this]
  exact nodup_map_of_imp (·.name) (fun g : BGate => Ep.cell g.name 0) (fun x y h => by simpa using h) _ hok.nd

theorem outPin_some {nd : NodeD} {k l : Nat} (h : nd.outPin k = some l) : nd.outs[k]? = some (some l) := by
  unfold NodeD.outPin at h
  rw [List.getD_eq_getElem?_getD] at h
  cases h0 : nd.outs[k]? with
  | none => rw [h0] at h; simp at h
  | some v => rw [h0] at h; simp at h; rw [h]

/-- every line of `benchNet` is listed on the output pin of its driver -/
theorem benchNet_outPin (hok : BenchOK stmts) (i : Nat) (hi : i < (benchL stmts).length) :
    ((benchNet stmts).node ((bench stmts).nodeIdx (benchL stmts)[i].1)).outPin
      (dpinOf ((benchL stmts).take i) (benchL stmts)[i].1) = some i := by
  have hfl : flatLines (bench stmts) = benchL stmts := bench_flat stmts
  have := toNet_outPin_line (bench stmts) (bench stmts).ioBench
    (by intro p hp; rw [hfl] at hp; exact bench_resolved_driver hok p hp)
    (by rw [hfl]; exact benchL_cell_drivers hok) i (by rw [hfl]; exact hi)
  simp only [hfl] at this
  exact this

theorem benchNet_line (i : Nat) (hi : i < (benchL stmts).length) :
    (benchNet stmts).line i = ⟨(bench stmts).nodeIdx (benchL stmts)[i].1, dpinOf ((benchL stmts).take i) (benchL stmts)[i].1,
      (bench stmts).nodeIdx (benchL stmts)[i].2, (benchL stmts)[i].2.rpin⟩ := by
  have hfl : flatLines (bench stmts) = benchL stmts := bench_flat stmts
  have := toNet_line (bench stmts) (bench stmts).ioBench i (by rw [hfl]; exact hi)
  simp only [hfl] at this
  exact this

theorem benchNet_inPin (e : Ep) (he : (bench stmts).resolved e) :
    ((benchNet stmts).node ((bench stmts).nodeIdx e)).inPin e.rpin = inLineOf (benchL stmts) e := by
  have := toNet_inPin_ep (bench stmts) (bench stmts).ioBench e he
  rw [bench_flat] at this
  exact this

theorem benchNet_nodes_size : (benchNet stmts).nodes.size = (bench stmts).nodes.length := by
  unfold benchNet; exact toNet_nodes_size _ _

/-- a node that is a fork for the scheduler is a fork of the circuit, reached through its name -/
theorem bench_fork_node (hcl : BenchClosed stmts) (n : Nat) (hn : n < (bench stmts).nodes.length)
    (hl : ((benchNet stmts).node n).lkind = "__fork__") :
    ∃ s, (bench stmts).nodeIdx (.fork s) = n ∧ (bench stmts).resolved (.fork s) ∧ ((benchNet stmts).node n).isFork = true ∧
      s ∈ forkNames (bench stmts) := by
  have hk : ((benchNet stmts).node n).kind = ((bench stmts).nodes[n]).kind := by
    unfold benchNet; exact toNet_node_kind _ _ n hn
  have hfork : ((bench stmts).nodes[n]).kind = forkKind := by
    by_cases hf : ((bench stmts).nodes[n]).kind = forkKind
    · exact hf
    · exfalso
      have hmem : (bench stmts).nodes[n] ∈ cellsOf (bench stmts) := by
        unfold cellsOf
        exact List.mem_filter.mpr ⟨List.getElem_mem hn, by simp [hf]⟩
      rw [bench_cells stmts hcl.ok.kinds] at hmem
      obtain ⟨g, hg, hgn⟩ := List.mem_map.mp hmem
      have : g.kind.toLower = forkKind := by
        have h2 : ((bench stmts).nodes[n]).kind = g.kind := by rw [← hgn]; rfl
        unfold NodeD.lkind at hl
        rw [hk, h2] at hl
        exact hl
      exact hcl.lkinds g hg this
  have hidx := nodeIdx_fork_unique (bench stmts) (finv_bench stmts hcl.ok.kinds).1 n _ (List.getElem?_eq_getElem hn) hfork
  refine ⟨((bench stmts).nodes[n]).name, hidx, by unfold Circ.resolved; rw [hidx]; exact hn, ?_, ?_⟩
  · unfold NodeD.isFork; rw [hk, hfork]; rfl
  · unfold forkNames
    exact List.mem_map.mpr ⟨_, List.mem_filter.mpr ⟨List.getElem_mem hn, by simp [hfork]⟩, rfl⟩

/-- **`forksOKB`** for every order -/
theorem bench_forksOK (hcl : BenchClosed stmts) (order : List Nat) : forksOKB (benchNet stmts) order = true := by
  unfold forksOKB
  rw [List.all_eq_true]
  intro n _
  by_cases hn : n < (bench stmts).nodes.length
  · by_cases hl : ((benchNet stmts).node n).lkind = "__fork__"
    · obtain ⟨s, hidx, hres, hfk, hsn⟩ := bench_fork_node hcl n hn hl
      have h123 : ∀ k, ((benchNet stmts).node n).inPin (k + 1) = none := by
        intro k
        rw [← hidx]
        unfold benchNet
        exact toNet_inPin_fork_succ _ _ s k hres
      have h0 : ((benchNet stmts).node n).inPin 0 = inLineOf (benchL stmts) (.fork s) := by
        rw [← hidx]; exact benchNet_inPin (.fork s) hres
      simp only [hl, beq_self_eq_true, Bool.not_true, Bool.false_or, hfk, h123, Option.isNone_none, Bool.and_true, Bool.true_and, h0]
      cases hin : inLineOf (benchL stmts) (.fork s) with
      | some l0 =>
        obtain ⟨p, hp1, hp2⟩ := inLineOf_some _ _ _ hin
        obtain ⟨hl0, hpl⟩ := List.getElem?_eq_some_iff.mp hp1
        have hline := (reader_fork_line stmts p s (hpl ▸ List.getElem_mem hl0) hp2).1
        have hget : (benchL stmts)[l0] = (.cell s 0, .fork s) := by rw [hpl, hline]
        have hout := benchNet_outPin hcl.ok l0 hl0
        rw [hget] at hout
        simp only [benchNet_line l0 hl0, hget]
        unfold NodeD.outPin at hout
        simp only [dpinOf] at hout ⊢
        rw [hout]
        simp
      | none =>
        simp only
        have hng : isGateName stmts s = false := by
          have := inLineOf_isSome (benchL stmts) (.fork s)
          rw [hin, any_reader_fork] at this
          simpa using this.symm
        have hport : s ∈ benchPorts stmts := by
          rcases List.mem_append.mp ((finv_bench stmts hcl.ok.kinds).2 s hsn) with h | h
          · exact h
          · unfold benchSigs at h
            obtain ⟨st, hst, hs⟩ := List.mem_flatMap.mp h
            cases st with
            | intf _ => cases hs
            | gate gn gk gd =>
              have hg : (⟨gn, gk, gd⟩ : BGate) ∈ benchGates stmts := List.mem_filterMap.mpr ⟨_, hst, rfl⟩
              rcases List.mem_cons.mp hs with rfl | hd
              · have := (isGateName_iff stmts s).mpr ⟨_, hg, rfl⟩
                rw [hng] at this; cases this
              · rcases hcl.drv _ hg s hd with h | h
                · rw [hng] at h; cases h
                · exact h
        have := benchNet_sPos_fork hcl.ok s hres
        rw [hidx] at this
        unfold Net.sPos at this
        rw [this]
        simp [hport]
    · have : (((benchNet stmts).node n).lkind == "__fork__") = false := by simpa using hl
      simp [this]
  · have hnode : (benchNet stmts).node n = default := by
      unfold Net.node
      rw [Array.getD_eq_getD_getElem?, Array.getElem?_eq_none (by rw [benchNet_nodes_size]; omega)]
      rfl
    rw [hnode]
    have hlk : ((default : NodeD).lkind == "__fork__") = false := by decide +kernel
    simp [hlk]

/-! ## every line is scheduled -/

theorem row_of_out {tbl : List PrefixRow} {net : Net} {order : List Nat} {n : Nat} (hn : n ∈ order) {r : OpRow}
    (hr : r ∈ nodeOpsS tbl net net.sNodes net.idx false n) : r ∈ genOps tbl net order false := by
  unfold genOps
  exact List.mem_flatMap.mpr ⟨n, hn, hr⟩

/-- rows of a node scheduled as a fork: one per output -/
theorem fork_rows (tbl : List PrefixRow) (net : Net) (n l k : Nat) (hfk : (net.node n).isFork = true)
    (hout : (net.node n).outs[k]? = some (some l)) : ∃ r ∈ nodeOpsS tbl net net.sNodes net.idx false n, r.out = l := by
  have hlk : (net.node n).lkind = "__fork__" := by
    unfold NodeD.isFork at hfk
    unfold NodeD.lkind
    rw [show (net.node n).kind = "__fork__" from by simpa using hfk]
    decide +kernel
  have hdff : (net.node n).isDff = false := by
    unfold NodeD.isDff
    rw [hlk]; decide +kernel
  have hmem : (some l, k) ∈ (net.node n).outs.zipIdx := List.mem_zipIdx_iff_getElem?.mpr (by simpa using hout)
  unfold nodeOpsS
  simp only
  split
  · -- interface node that is an undriven fork: one BUF per output
    rename_i p _
    refine ⟨⟨BUF1, l, net.idx.ppi + p, net.idx.zero, net.idx.zero, net.idx.zero⟩, ?_, rfl⟩
    simp only [hdff, Bool.false_eq_true, if_false, Bool.false_and, List.mem_filterMap]
    exact ⟨(some l, k), hmem, rfl⟩
  · simp only [hlk, beq_self_eq_true, if_true, Bool.false_eq_true, if_false, List.mem_filterMap]
    exact ⟨_, ⟨(some l, k), hmem, rfl⟩, rfl⟩

/-- the row of a combinational cell whose kind the prefix table knows -/
theorem comb_row (tbl : List PrefixRow) (net : Net) (n sp : Nat) (hnf : (net.node n).isFork = false)
    (hlk : ((net.node n).lkind == "__fork__") = false) (hsp : sPosIn net.sNodes n = none)
    (hsel : selectPrim tbl (net.node n).lkind (((net.node n).inPin 2).getD net.idx.zero != net.idx.zero)
      (((net.node n).inPin 3).getD net.idx.zero != net.idx.zero) = some sp) :
    ∃ r ∈ nodeOpsS tbl net net.sNodes net.idx false n, r.out = ((net.node n).outPin 0).getD net.idx.tmp := by
  unfold nodeOpsS
  simp only [hnf, Bool.false_and, Bool.false_eq_true, if_false, hsp, hlk, hsel]
  exact ⟨_, List.mem_singleton.mpr rfl, rfl⟩

theorem bench_linesDriven (hcl : BenchClosed stmts) (hkn : benchKnownB stmts = true) (order : List Nat)
    (hcov : ∀ n, n < (bench stmts).nodes.length → n ∈ order) :
    linesDrivenB Gen.kindPrefixes (benchNet stmts) order = true := by
  have hok := hcl.ok
  unfold linesDrivenB
  rw [List.all_eq_true]
  intro l hl
  rw [List.mem_range, benchNet_lines_size] at hl
  simp only [List.contains_eq_mem, decide_eq_true_eq, List.mem_map]
  have hres := bench_resolved_driver hok _ (List.getElem_mem hl)
  have hout := outPin_some (benchNet_outPin hok l hl)
  have hnin := hcov _ hres
  obtain ⟨g, hg, h | ⟨k, hk, h⟩⟩ := (mem_benchL stmts _).mp (List.getElem_mem hl)
  · -- the line from the cell of gate `g` to its fork
    rw [h] at hres hout hnin
    simp only [dpinOf] at hout
    have hkind : ((benchNet stmts).node ((bench stmts).nodeIdx (.cell g.name 0))).kind = g.kind := by
      have := bench_kindOf_cell hok g hg 0
      unfold Circ.kindOf at this
      rw [List.getD_eq_getElem?_getD, List.getElem?_eq_getElem hres] at this
      unfold benchNet
      rw [toNet_node_kind _ _ _ hres]
      exact this
    have hnf : ((benchNet stmts).node ((bench stmts).nodeIdx (.cell g.name 0))).isFork = false := by
      unfold NodeD.isFork; rw [hkind]
      have := List.all_eq_true.mp hok.kinds g hg
      have h2 : g.kind ≠ "__fork__" := by simpa [forkKind] using this
      simp [h2]
    have hsp := benchNet_sPos_cell hok g hg 0
    unfold Net.sPos at hsp
    have hmem : (some l, 0) ∈ ((benchNet stmts).node ((bench stmts).nodeIdx (.cell g.name 0))).outs.zipIdx :=
      List.mem_zipIdx_iff_getElem?.mpr (by simpa using hout)
    by_cases hseq : isSeqKind g.kind = true
    · -- a state element: interface row
      refine ⟨⟨if ((benchNet stmts).node ((bench stmts).nodeIdx (.cell g.name 0))).isDff && (0 == 1) then INV1 else BUF1, l,
        (benchNet stmts).idx.ppi + benchSPos stmts (.cell g.name 0), (benchNet stmts).idx.zero, (benchNet stmts).idx.zero,
        (benchNet stmts).idx.zero⟩, row_of_out hnin ?_, rfl⟩
      unfold nodeOpsS
      simp only [hnf, Bool.false_and, Bool.false_eq_true, if_false, hsp, hseq, if_true, List.mem_filterMap]
      refine ⟨(some l, 0), ?_, rfl⟩
      split
      · have : (some l, 0) ∈ (((benchNet stmts).node ((bench stmts).nodeIdx (.cell g.name 0))).outs.take 2).zipIdx := by
          apply List.mem_zipIdx_iff_getElem?.mpr
          simp only [List.getElem?_take, Nat.zero_lt_succ, if_true]
          simpa using hout
        exact this
      · exact hmem
    · -- a combinational cell: one row on its first output
      have hseq' : isSeqKind g.kind = false := by simpa using hseq
      have hlk : (((benchNet stmts).node ((bench stmts).nodeIdx (.cell g.name 0))).lkind == "__fork__") = false := by
        unfold NodeD.lkind; rw [hkind]
        have h2 : g.kind.toLower ≠ "__fork__" := hcl.lkinds g hg
        simp [h2]
      have hpin : ∀ k, (((benchNet stmts).node ((bench stmts).nodeIdx (.cell g.name 0))).inPin k).isSome = decide (k < g.drv.length) := by
        intro k
        have := benchNet_inPin (.cell g.name k) (bench_resolved_cell hok g hg k)
        rw [show (bench stmts).nodeIdx (.cell g.name k) = (bench stmts).nodeIdx (.cell g.name 0) from rfl] at this
        simp only [Ep.rpin] at this
        rw [this, inLineOf_isSome, any_reader_cell stmts hok g hg k]
      have hne : ∀ k, ((((benchNet stmts).node ((bench stmts).nodeIdx (.cell g.name 0))).inPin k).getD (benchNet stmts).idx.zero !=
          (benchNet stmts).idx.zero) = decide (k < g.drv.length) := by
        intro k
        rw [← hpin k]
        cases hp : ((benchNet stmts).node ((bench stmts).nodeIdx (.cell g.name 0))).inPin k with
        | none => simp
        | some l' =>
          have hwf : (benchNet stmts).wfB = true := toNet_wf _ _
          have := (wf_in hwf (by rw [benchNet_nodes_size]; exact hres) (inPin_some hp)).1
          obtain ⟨hz, _, _⟩ := idx_vals (benchNet stmts)
          simp only [Option.getD_some, Option.isSome_some, hz, bne_iff_ne, ne_eq, decide_eq_true_eq]
          omega
      have hsel := List.all_eq_true.mp hkn g hg
      rw [hseq', Bool.false_or] at hsel
      obtain ⟨sp, hsp'⟩ := Option.isSome_iff_exists.mp hsel
      have ho0 : (((benchNet stmts).node ((bench stmts).nodeIdx (.cell g.name 0))).outPin 0).getD (benchNet stmts).idx.tmp = l := by
        unfold NodeD.outPin
        rw [List.getD_eq_getElem?_getD, hout]; rfl
      have hsp0 : sPosIn (benchNet stmts).sNodes ((bench stmts).nodeIdx (.cell g.name 0)) = none := by
        rw [hsp, hseq']; rfl
      obtain ⟨r, hr, hro⟩ := comb_row Gen.kindPrefixes (benchNet stmts) _ sp hnf hlk hsp0 (by
        rw [hne 2, hne 3]
        unfold NodeD.lkind
        rw [hkind]
        exact hsp')
      exact ⟨r, row_of_out hnin hr, by rw [hro, ho0]⟩
  · -- a line that leaves a fork
    rw [h] at hres hout hnin
    have hfk : ((benchNet stmts).node ((bench stmts).nodeIdx (.fork g.drv[k]))).isFork = true := by
      unfold NodeD.isFork benchNet
      rw [toNet_node_kind _ _ _ hres, (resolved_fork_spec _ _ hres).1]
      rfl
    obtain ⟨r, hr, hro⟩ := fork_rows Gen.kindPrefixes (benchNet stmts) _ l _ hfk hout
    exact ⟨r, row_of_out hnin hr, hro⟩

end KV.Netlist
