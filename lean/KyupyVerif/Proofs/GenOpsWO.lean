import KyupyVerif.Model.SimOps
import KyupyVerif.Proofs.Solve
/-! For every well-formed netlist and every topological order, the op program that `SimOps` generates
(model `genOps`, tied to the real `ops` by exact correspondence) is well ordered: no operand is written at
or after its use, every line has one writer. Together with `Proofs/Solve.lean`: for ALL circuits the
simulation result is the unique solution of the netlist's gate equations. -/
namespace KV
open KV.Sig

def OpRow.toOp (r : OpRow) : Op := ⟨r.lut, r.out, [r.i0, r.i1, r.i2, r.i3]⟩

theorem C07_nodup : ∀ {l : List Nat}, nodupB l = true → l.Nodup
  | [], _ => List.nodup_nil
  | x :: r, h => by
    simp only [nodupB, Bool.and_eq_true, Bool.not_eq_true', List.contains_eq_mem, decide_eq_false_iff_not] at h
    exact List.nodup_cons.mpr ⟨h.1, C07_nodup h.2⟩

/-- pin tables and line records refer to each other -/
def Net.wfB (net : Net) : Bool :=
  (List.range net.nodes.size).all fun n =>
    ((net.node n).outs.zipIdx.all fun (o, pin) => match o with
      | some l => decide (l < net.lines.size) && (net.line l).driver == n && (net.line l).dpin == pin
      | none => true) &&
    ((net.node n).ins.zipIdx.all fun (o, pin) => match o with
      | some l => decide (l < net.lines.size) && (net.line l).reader == n && (net.line l).rpin == pin
      | none => true)

/-- node whose ops read its (P)PI slot: ports without driver, flip-flops, latches -/
def isSrcNode (net : Net) (sn : List Nat) (n : Nat) : Bool :=
  !((net.node n).isFork && ((net.node n).inPin 0).isSome) && (sPosIn sn n).isSome

/-- a topological order: no node twice, all indices valid, and every driver of a connected input of a
    non-source node stands strictly before that node -/
def orderOKB (net : Net) (order : List Nat) : Bool :=
  nodupB order && order.all (fun n => decide (n < net.nodes.size)) &&
  order.all fun n => isSrcNode net net.sNodes n || (net.node n).ins.all fun o => match o with
    | some l => decide (order.idxOf (net.line l).driver < order.idxOf n)
    | none => true

theorem mem_zipIdx_getElem? {α} {l : List α} {x : α} {k : Nat} (h : (x, k) ∈ l.zipIdx) : l[k]? = some x := by
  have := List.mem_zipIdx_iff_getElem?.mp h
  simpa using this

theorem getElem?_take_some {α} {l : List α} {n k : Nat} {x : α} (h : (l.take n)[k]? = some x) : l[k]? = some x := by
  rw [List.getElem?_take] at h
  split at h
  · exact h
  · cases h

/-- F1: every op of node `n` writes the scratch slot or a line on one of `n`'s output pins -/
theorem nodeOps_out (tbl : List PrefixRow) (net : Net) (sn : List Nat) (ix : Idx) (strip : Bool) (n : Nat)
    (op : OpRow) (h : op ∈ nodeOpsS tbl net sn ix strip n) :
    op.out = ix.tmp ∨ ∃ pin : Nat, (net.node n).outs[pin]? = some (some op.out) := by
  unfold nodeOpsS at h
  simp only at h
  split at h
  · -- interface node
    simp only [List.mem_filterMap] at h
    obtain ⟨⟨o, k⟩, hmem, hg⟩ := h
    cases o with
    | none => simp at hg
    | some l =>
      simp only [Option.map_some, Option.some.injEq] at hg
      subst hg
      right
      have hk := mem_zipIdx_getElem? hmem
      split at hk
      · exact ⟨k, getElem?_take_some hk⟩
      · exact ⟨k, hk⟩
  · split at h
    · split at h
      · cases h
      · simp only [List.mem_filterMap] at h
        obtain ⟨⟨o, k⟩, hmem, hg⟩ := h
        cases o with
        | none => simp at hg
        | some l =>
          simp only [Option.map_some, Option.some.injEq] at hg
          subst hg
          right
          exact ⟨k, mem_zipIdx_getElem? hmem⟩
    · split at h
      · simp only [List.mem_singleton] at h
        subst h
        simp only
        cases hp : (net.node n).outPin 0 with
        | none => left; simp [hp]
        | some l =>
          right
          refine ⟨0, ?_⟩
          unfold NodeD.outPin at hp
          simp only [Option.getD_some]
          rw [List.getD_eq_getElem?_getD] at hp
          cases h0 : (net.node n).outs[0]? with
          | none => rw [h0] at hp; simp at hp
          | some v => rw [h0] at hp; simp at hp; rw [hp]
      · cases h

theorem inPin_some {nd : NodeD} {i l : Nat} (h : nd.inPin i = some l) : nd.ins[i]? = some (some l) := by
  unfold NodeD.inPin at h
  rw [List.getD_eq_getElem?_getD] at h
  cases h0 : nd.ins[i]? with
  | none => rw [h0] at h; simp at h
  | some v => rw [h0] at h; simp at h; rw [h]

theorem getD_inPin_cases (nd : NodeD) (i z : Nat) :
    (nd.inPin i).getD z = z ∨ ∃ pin : Nat, nd.ins[pin]? = some (some ((nd.inPin i).getD z)) := by
  cases h : nd.inPin i with
  | none => left; rfl
  | some l => right; exact ⟨i, by simpa using inPin_some h⟩

/-- F2: every operand of an op of node `n` is the constant-0 slot, the node's own (P)PI slot (source nodes only),
    or a line on one of `n`'s input pins (non-source nodes only) -/
theorem nodeOps_ins (tbl : List PrefixRow) (net : Net) (sn : List Nat) (ix : Idx) (strip : Bool) (n : Nat)
    (op : OpRow) (h : op ∈ nodeOpsS tbl net sn ix strip n) (x : Nat) (hx : x ∈ op.toOp.ins) :
    x = ix.zero ∨ (isSrcNode net sn n = true ∧ ∃ p, sPosIn sn n = some p ∧ x = ix.ppi + p) ∨
      (isSrcNode net sn n = false ∧ ∃ pin : Nat, (net.node n).ins[pin]? = some (some x)) := by
  unfold nodeOpsS at h
  simp only at h
  simp only [OpRow.toOp, List.mem_cons, List.mem_nil_iff, or_false] at hx
  split at h
  · -- interface (source) node
    rename_i p hp
    have hsrc : isSrcNode net sn n = true ∧ sPosIn sn n = some p := by
      unfold isSrcNode
      split at hp
      · cases hp
      · rename_i hdf
        simp only [Bool.not_eq_true] at hdf
        simp [hdf, hp]
    simp only [List.mem_filterMap] at h
    obtain ⟨⟨o, k⟩, _, hg⟩ := h
    cases o with
    | none => simp at hg
    | some l =>
      simp only [Option.map_some, Option.some.injEq] at hg
      subst hg
      simp only at hx
      rcases hx with rfl | rfl | rfl | rfl
      · exact Or.inr (Or.inl ⟨hsrc.1, p, hsrc.2, rfl⟩)
      · exact Or.inl rfl
      · exact Or.inl rfl
      · exact Or.inl rfl
  · rename_i hp
    have hns : isSrcNode net sn n = false := by
      unfold isSrcNode
      split at hp
      · rename_i hdf; simp [hdf]
      · simp [hp]
    have key : ∀ i, (((net.node n).inPin i).getD ix.zero = ix.zero) ∨
        (isSrcNode net sn n = false ∧ ∃ pin : Nat, (net.node n).ins[pin]? = some (some (((net.node n).inPin i).getD ix.zero))) := by
      intro i
      rcases getD_inPin_cases (net.node n) i ix.zero with h | h
      · exact Or.inl h
      · exact Or.inr ⟨hns, h⟩
    have fin : ∀ i, x = ((net.node n).inPin i).getD ix.zero →
        x = ix.zero ∨ (isSrcNode net sn n = true ∧ ∃ p, sPosIn sn n = some p ∧ x = ix.ppi + p) ∨
        (isSrcNode net sn n = false ∧ ∃ pin : Nat, (net.node n).ins[pin]? = some (some x)) := by
      intro i hi
      rcases key i with h | h
      · exact Or.inl (hi.trans h)
      · exact Or.inr (Or.inr (hi ▸ h))
    split at h
    · split at h
      · cases h
      · simp only [List.mem_filterMap] at h
        obtain ⟨⟨o, _⟩, _, hg⟩ := h
        cases o with
        | none => simp at hg
        | some l =>
          simp only [Option.map_some, Option.some.injEq] at hg
          subst hg
          simp only at hx
          rcases hx with h | h | h | h
          · exact fin 0 h
          · exact fin 1 h
          · exact fin 2 h
          · exact fin 3 h
    · split at h
      · simp only [List.mem_singleton] at h
        subst h
        simp only at hx
        rcases hx with h | h | h | h
        · exact fin 0 h
        · exact fin 1 h
        · exact fin 2 h
        · exact fin 3 h
      · cases h

theorem wf_out {net : Net} (hwf : net.wfB = true) {n pin l : Nat} (hn : n < net.nodes.size)
    (h : (net.node n).outs[pin]? = some (some l)) :
    l < net.lines.size ∧ (net.line l).driver = n ∧ (net.line l).dpin = pin := by
  unfold Net.wfB at hwf
  simp only [List.all_eq_true, List.mem_range, Bool.and_eq_true] at hwf
  have := (hwf n hn).1 (some l, pin) (List.mem_zipIdx_iff_getElem?.mpr (by simpa using h))
  simp at this
  exact ⟨this.1.1, this.1.2, this.2⟩

theorem wf_in {net : Net} (hwf : net.wfB = true) {n pin l : Nat} (hn : n < net.nodes.size)
    (h : (net.node n).ins[pin]? = some (some l)) :
    l < net.lines.size ∧ (net.line l).reader = n ∧ (net.line l).rpin = pin := by
  unfold Net.wfB at hwf
  simp only [List.all_eq_true, List.mem_range, Bool.and_eq_true] at hwf
  have := (hwf n hn).2 (some l, pin) (List.mem_zipIdx_iff_getElem?.mpr (by simpa using h))
  simp at this
  exact ⟨this.1.1, this.1.2, this.2⟩

theorem zipIdx_pairwise_lt {α} (l : List α) (k : Nat) : (l.zipIdx k).Pairwise (fun a b => a.2 < b.2) := by
  induction l generalizing k with
  | nil => simp
  | cons x r ih =>
    simp only [List.zipIdx_cons, List.pairwise_cons]
    refine ⟨?_, ih (k + 1)⟩
    intro a ha
    have := List.le_snd_of_mem_zipIdx ha
    show k < a.2
    omega

theorem idx_vals (net : Net) : net.idx.zero = net.lines.size ∧ net.idx.tmp = net.lines.size + 1 ∧ net.idx.ppi = net.lines.size + 3 := by
  simp [Net.idx]

/-- outputs of the ops of one node are pairwise different lines (the scratch slot may repeat) -/
theorem nodeOps_outs_distinct (tbl : List PrefixRow) (net : Net) (sn : List Nat) (ix : Idx) (strip : Bool) (n : Nat)
    (hwf : net.wfB = true) (hn : n < net.nodes.size) :
    (nodeOpsS tbl net sn ix strip n).Pairwise (fun a b => a.out ≠ ix.tmp → b.out ≠ a.out) := by
  have core : ∀ (pins : List (Option Nat)) (g : Nat → Nat → OpRow), (∀ l k, (g l k).out = l) →
      (∀ (k : Nat) (o : Option Nat), pins[k]? = some o → (net.node n).outs[k]? = some o) →
      (pins.zipIdx.filterMap fun (o, k) => o.map fun l => g l k).Pairwise (fun a b => a.out ≠ ix.tmp → b.out ≠ a.out) := by
    intro pins g hg hp
    rw [List.pairwise_filterMap]
    apply List.Pairwise.imp_of_mem _ (zipIdx_pairwise_lt pins 0)
    intro a b ha hb hlt
    obtain ⟨o, k⟩ := a; obtain ⟨o', k'⟩ := b
    intro x hx y hy _
    cases o with
    | none => simp at hx
    | some l =>
      cases o' with
      | none => simp at hy
      | some l' =>
        simp only [Option.map_some, Option.mem_def, Option.some.injEq] at hx hy
        subst hx; subst hy
        rw [hg, hg]
        intro hll
        have h1 := wf_out hwf hn (hp k _ (mem_zipIdx_getElem? ha))
        have h2 := wf_out hwf hn (hp k' _ (mem_zipIdx_getElem? hb))
        rw [hll] at h2
        have : k = k' := h1.2.2.symm.trans h2.2.2
        simp only at hlt; omega
  unfold nodeOpsS
  simp only
  split
  · split
    · exact core _ (fun l k => OpRow.mk (if (net.node n).isDff && k == 1 then INV1 else BUF1) l _ _ _ _) (fun _ _ => rfl) (fun k o h => getElem?_take_some h)
    · exact core _ (fun l k => OpRow.mk (if (net.node n).isDff && k == 1 then INV1 else BUF1) l _ _ _ _) (fun _ _ => rfl) (fun k o h => h)
  · split
    · split
      · exact List.Pairwise.nil
      · exact core _ (fun l _ => OpRow.mk BUF1 l _ _ _ _) (fun _ _ => rfl) (fun k o h => h)
    · split
      · exact List.pairwise_singleton _ _
      · exact List.Pairwise.nil

/-- an output of node `m` is never an operand of an op of node `n`, provided no input line of (non-source) `n` is
    driven by `m` -/
theorem out_not_operand (tbl : List PrefixRow) (net : Net) (strip : Bool) (n m : Nat)
    (hwf : net.wfB = true) (hn : n < net.nodes.size) (hm : m < net.nodes.size)
    (hdrv : isSrcNode net net.sNodes n = false → ∀ (pin l : Nat), (net.node n).ins[pin]? = some (some l) → (net.line l).driver ≠ m)
    (op op' : OpRow) (ho : op ∈ nodeOpsS tbl net net.sNodes net.idx strip n) (ho' : op' ∈ nodeOpsS tbl net net.sNodes net.idx strip m)
    (x : Nat) (hx : x ∈ op.toOp.ins) : op'.out ≠ x := by
  obtain ⟨hz, ht, hp⟩ := idx_vals net
  have hout := nodeOps_out tbl net net.sNodes net.idx strip m op' ho'
  have hin := nodeOps_ins tbl net net.sNodes net.idx strip n op ho x hx
  rcases hout with hot | ⟨pin', hpin'⟩
  · -- scratch slot
    rcases hin with h | ⟨_, p, _, h⟩ | ⟨_, pin, hpin⟩
    · omega
    · omega
    · have := (wf_in hwf hn hpin).1; omega
  · have hl' := wf_out hwf hm hpin'
    rcases hin with h | ⟨_, p, _, h⟩ | ⟨hns, pin, hpin⟩
    · omega
    · omega
    · intro he
      have := hdrv hns pin x hpin
      rw [← he] at this
      exact this hl'.2.1

theorem idxOf_cons_ne' (x b : Nat) (r : List Nat) (h : x ≠ b) : (x :: r).idxOf b = r.idxOf b + 1 := by
  rw [List.idxOf_cons]
  have : (x == b) = false := by simpa using h
  rw [this]; rfl

theorem idxOf_pairwise_of_nodup : ∀ (l : List Nat), l.Nodup → l.Pairwise (fun a b => l.idxOf a < l.idxOf b)
  | [], _ => List.Pairwise.nil
  | x :: r, h => by
    have hx : x ∉ r := (List.nodup_cons.mp h).1
    have ih := idxOf_pairwise_of_nodup r (List.nodup_cons.mp h).2
    refine List.pairwise_cons.mpr ⟨?_, ?_⟩
    · intro b hb
      have hbx : x ≠ b := fun e => hx (e ▸ hb)
      rw [List.idxOf_cons_self, idxOf_cons_ne' _ _ _ hbx]; omega
    · apply List.Pairwise.imp_of_mem _ ih
      intro a b ha hb hab
      have hax : x ≠ a := fun e => hx (e ▸ ha)
      have hbx : x ≠ b := fun e => hx (e ▸ hb)
      rw [idxOf_cons_ne' _ _ _ hax, idxOf_cons_ne' _ _ _ hbx]; omega

def Jt (net : Net) : Nat → Bool := fun x => x == net.idx.tmp

/-- **for every well-formed netlist and every topological order** the generated op program is well ordered -/
theorem genOps_WOJ (tbl : List PrefixRow) (net : Net) (order : List Nat) (strip : Bool)
    (hwf : net.wfB = true) (ho : orderOKB net order = true) :
    WOJ (Jt net) ((genOps tbl net order strip).map OpRow.toOp) := by
  unfold orderOKB at ho
  simp only [Bool.and_eq_true, List.all_eq_true, decide_eq_true_eq, Bool.or_eq_true] at ho
  obtain ⟨⟨hnd, hlt⟩, hord⟩ := ho
  have hnodup := C07_nodup hnd
  have hdrvlt : ∀ n ∈ order, isSrcNode net net.sNodes n = false → ∀ (pin l : Nat),
      (net.node n).ins[pin]? = some (some l) → order.idxOf (net.line l).driver < order.idxOf n := by
    intro n hn hns pin l hpin
    rcases hord n hn with h | h
    · rw [hns] at h; cases h
    · have hm : some l ∈ (net.node n).ins := List.mem_of_getElem? hpin
      have := h (some l) hm
      simpa using this
  obtain ⟨hz, ht, hp⟩ := idx_vals net
  unfold WOJ genOps
  simp only
  constructor
  · rw [List.pairwise_map, List.pairwise_flatMap]
    constructor
    · -- inside one node
      intro n hn
      have hd := nodeOps_outs_distinct tbl net net.sNodes net.idx strip n hwf (hlt n hn)
      apply List.Pairwise.imp_of_mem _ hd
      intro a b ha hb hab
      refine ⟨?_, ?_⟩
      · intro hj
        apply hab
        simpa [Jt, OpRow.toOp] using hj
      · intro x hx
        exact out_not_operand tbl net strip n n hwf (hlt n hn) (hlt n hn)
          (fun hns pin l hpin he => by
            have := hdrvlt n hn hns pin l hpin
            rw [he] at this; omega) a b ha hb x hx
    · -- across nodes: n stands before m
      apply List.Pairwise.imp_of_mem _ (idxOf_pairwise_of_nodup order hnodup)
      intro n m hn hm hnm a ha b hb
      refine ⟨?_, ?_⟩
      · intro hj
        have hja : a.out ≠ net.idx.tmp := by simpa [Jt, OpRow.toOp] using hj
        have hao := nodeOps_out tbl net net.sNodes net.idx strip n a ha
        have hbo := nodeOps_out tbl net net.sNodes net.idx strip m b hb
        rcases hao with h | ⟨pa, hpa⟩
        · exact absurd h hja
        · have hla := wf_out hwf (hlt n hn) hpa
          rcases hbo with h | ⟨pb, hpb⟩
          · show b.out ≠ a.out
            omega
          · have hlb := wf_out hwf (hlt m hm) hpb
            show b.out ≠ a.out
            intro he
            rw [he] at hlb
            have : n = m := hla.2.1.symm.trans hlb.2.1
            rw [this] at hnm; omega
      · intro x hx
        exact out_not_operand tbl net strip n m hwf (hlt n hn) (hlt m hm)
          (fun hns pin l hpin he => by
            have := hdrvlt n hn hns pin l hpin
            rw [he] at this; omega) a b ha hb x hx
  · -- local conditions
    intro o hom
    simp only [List.mem_map, List.mem_flatMap] at hom
    obtain ⟨r, ⟨n, hn, hr⟩, rfl⟩ := hom
    intro x hx
    have hin := nodeOps_ins tbl net net.sNodes net.idx strip n r hr x hx
    refine ⟨?_, ?_⟩
    · simp only [Jt, beq_eq_false_iff_ne, ne_eq]
      rcases hin with h | ⟨_, p, _, h⟩ | ⟨_, pin, hpin⟩
      · omega
      · omega
      · have := (wf_in hwf (hlt n hn) hpin).1; omega
    · intro he
      exact out_not_operand tbl net strip n n hwf (hlt n hn) (hlt n hn)
        (fun hns pin l hpin he' => by
          have := hdrvlt n hn hns pin l hpin
          rw [he'] at this; omega) r r hr hr x hx he.symm

end KV
