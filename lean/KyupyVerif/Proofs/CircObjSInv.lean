import KyupyVerif.Proofs.CircObjElim
import KyupyVerif.Model.CircObjSub
/-! C09: the invariant that holds INSIDE `substitute` and `remove_dangling_nodes`, where some lines have a stale end.

`SInv c PI PO` = everything of `WFc0 c`, except that the lines in `PI` (resp. `PO`) need not have a reader (driver) end
that is attached to a node of the circuit; in exchange no input (output) pin of any node refers to them.
`SInv c ∅ ∅ ↔ WFc0 c`.  This file: the invariant, and its preservation by `Node(...)`, `Line(...)` with free pins, the two
re-connection assignments of `substitute` (`setReader`, `setDriver`) and `ll.reader = None`. -/
namespace KV.CircObj

structure SInv (c : Circ) (PI PO : Nat → Prop) : Prop where
  nidx : ∀ p (h : p < c.nodes.length), (c.nobj c.nodes[p]).index = p
  lidx : ∀ p (h : p < c.lines.length), (c.lobj c.lines[p]).index = p
  nfresh : ∀ i ∈ c.nodes, i < c.nextN ∧ (c.nobj i).alive = true
  lfresh : ∀ l ∈ c.lines, l < c.nextL ∧ (c.lobj l).alive = true
  ckeys : keysNodup c.cells
  fkeys : keysNodup c.forks
  cellsSound : ∀ e ∈ c.cells, e.2 ∈ c.nodes ∧ (c.nobj e.2).kind ≠ FORK ∧ (c.nobj e.2).name = e.1
  forksSound : ∀ e ∈ c.forks, e.2 ∈ c.nodes ∧ (c.nobj e.2).kind = FORK ∧ (c.nobj e.2).name = e.1
  cellsComplete : ∀ i ∈ c.nodes, (c.nobj i).kind ≠ FORK → ((c.nobj i).name, i) ∈ c.cells
  forksComplete : ∀ i ∈ c.nodes, (c.nobj i).kind = FORK → ((c.nobj i).name, i) ∈ c.forks
  /-- lines outside `PO` have an attached driver end -/
  ldrv : ∀ l ∈ c.lines, ¬ PO l → ∃ d, (c.lobj l).driver = some d ∧ d ∈ c.nodes ∧ pin (c.nobj d).outs (c.lobj l).driverPin = some l
  /-- lines outside `PI` have an attached reader end -/
  lrdr : ∀ l ∈ c.lines, ¬ PI l → ∃ r, (c.lobj l).reader = some r ∧ r ∈ c.nodes ∧ pin (c.nobj r).ins (c.lobj l).readerPin = some l
  outsBack : ∀ i ∈ c.nodes, ∀ p l, pin (c.nobj i).outs p = some l →
    l ∈ c.lines ∧ (c.lobj l).driver = some i ∧ (c.lobj l).driverPin = p
  insBack : ∀ i ∈ c.nodes, ∀ p l, pin (c.nobj i).ins p = some l →
    l ∈ c.lines ∧ (c.lobj l).reader = some i ∧ (c.lobj l).readerPin = p
  ioIn : ∀ i ∈ c.io, i ∈ c.nodes
  /-- pending lines are lines of the circuit that no pin refers to -/
  piOk : ∀ l, PI l → l ∈ c.lines ∧ ∀ i ∈ c.nodes, ∀ p, pin (c.nobj i).ins p ≠ some l
  poOk : ∀ l, PO l → l ∈ c.lines ∧ ∀ i ∈ c.nodes, ∀ p, pin (c.nobj i).outs p ≠ some l

def NoLine : Nat → Prop := fun _ => False

theorem SInv.of_wfc0 {c : Circ} (wf : WFc0 c) : SInv c NoLine NoLine :=
  ⟨wf.nidx, wf.lidx, wf.nfresh, wf.lfresh, wf.ckeys, wf.fkeys, wf.cellsSound, wf.forksSound, wf.cellsComplete,
   wf.forksComplete, fun l hl _ => wf.ldrv l hl, fun l hl _ => wf.lrdr l hl, wf.outsBack, wf.insBack, wf.ioIn,
   fun _ h => h.elim, fun _ h => h.elim⟩

theorem SInv.to_wfc0 {c : Circ} {PI PO : Nat → Prop} (s : SInv c PI PO) (hi : ∀ l ∈ c.lines, ¬ PI l) (ho : ∀ l ∈ c.lines, ¬ PO l) :
    WFc0 c :=
  ⟨s.nidx, s.lidx, s.nfresh, s.lfresh, s.ckeys, s.fkeys, s.cellsSound, s.forksSound, s.cellsComplete,
   s.forksComplete, fun l hl => s.ldrv l hl (ho l hl), fun l hl => s.lrdr l hl (hi l hl), s.outsBack, s.insBack, s.ioIn⟩

theorem SInv.congr_pred {c : Circ} {PI PO PI' PO' : Nat → Prop} (s : SInv c PI PO) (hi : ∀ l, PI' l ↔ PI l) (ho : ∀ l, PO' l ↔ PO l) :
    SInv c PI' PO' := by
  have e1 : PI' = PI := funext fun l => propext (hi l)
  have e2 : PO' = PO := funext fun l => propext (ho l)
  rw [e1, e2]; exact s

/-- position of a node / line of the circuit -/
theorem SInv.node_at {c : Circ} {PI PO} (s : SInv c PI PO) {i : Nat} (hi : i ∈ c.nodes) :
    ∃ h : (c.nobj i).index < c.nodes.length, c.nodes[(c.nobj i).index] = i := by
  obtain ⟨p, hp, rfl⟩ := List.mem_iff_getElem.1 hi
  have := s.nidx p hp
  exact ⟨by omega, by simp [this]⟩

theorem SInv.line_at {c : Circ} {PI PO} (s : SInv c PI PO) {l : Nat} (hl : l ∈ c.lines) :
    ∃ h : (c.lobj l).index < c.lines.length, c.lines[(c.lobj l).index] = l := by
  obtain ⟨p, hp, rfl⟩ := List.mem_iff_getElem.1 hl
  have := s.lidx p hp
  exact ⟨by omega, by simp [this]⟩

/-! ## `Node(c, name, kind)` -/
theorem addNode_sinv {c : Circ} {PI PO} {name kind : String} (s : SInv c PI PO) (hfree : nameFree c name kind = true) :
    SInv (addNode c name kind) PI PO := by
  have hne : ∀ j ∈ c.nodes, j ≠ c.nextN := fun j hj => Nat.ne_of_lt (s.nfresh j hj).1
  have hold : ∀ j ∈ c.nodes, (addNode c name kind).nobj j = c.nobj j := by
    intro j hj; simp [addNode, hne j hj]
  have hnew : (addNode c name kind).nobj c.nextN =
      { name := name, kind := kind, index := c.nodes.length, ins := [], outs := [], alive := true } := by
    simp [addNode]
  have hnodes : (addNode c name kind).nodes = c.nodes ++ [c.nextN] := rfl
  have hmem : ∀ j, j ∈ (addNode c name kind).nodes ↔ j ∈ c.nodes ∨ j = c.nextN := by
    intro j; rw [hnodes]; simp
  have hlobj : (addNode c name kind).lobj = c.lobj := rfl
  have hlines : (addNode c name kind).lines = c.lines := rfl
  have hcells : (addNode c name kind).cells = if kind = FORK then c.cells else c.cells ++ [(name, c.nextN)] := by
    simp [addNode]
  have hforks : (addNode c name kind).forks = if kind = FORK then c.forks ++ [(name, c.nextN)] else c.forks := by
    simp [addNode]
  refine ⟨?_, ?_, ?_, ?_, ?_, ?_, ?_, ?_, ?_, ?_, ?_, ?_, ?_, ?_, ?_, ?_, ?_⟩
  · intro p hp
    simp only [hnodes, List.length_append, List.length_singleton] at hp ⊢
    by_cases hpl : p < c.nodes.length
    · rw [List.getElem_append_left hpl, hold _ (List.getElem_mem _)]; exact s.nidx p hpl
    · have : p = c.nodes.length := by omega
      subst this
      simp [hnew]
  · rw [hlobj, hlines]; exact s.lidx
  · intro j hj
    rcases (hmem j).1 hj with h | h
    · rw [hold j h]; have := s.nfresh j h; exact ⟨by simp [addNode]; omega, this.2⟩
    · subst h; rw [hnew]; exact ⟨by simp [addNode], rfl⟩
  · rw [hlobj, hlines]; exact s.lfresh
  · rw [hcells]; split
    · exact s.ckeys
    · rename_i hk
      apply keysNodup_append s.ckeys
      simpa [nameFree, hk] using hfree
  · rw [hforks]; split
    · rename_i hk
      apply keysNodup_append s.fkeys
      simpa [nameFree, hk] using hfree
    · exact s.fkeys
  · intro e he
    rw [hcells] at he
    have : e ∈ c.cells ∨ (kind ≠ FORK ∧ e = (name, c.nextN)) := by
      split at he
      · exact Or.inl he
      · rename_i hk; simp at he; rcases he with he | he
        · exact Or.inl he
        · exact Or.inr ⟨hk, he⟩
    rcases this with h | ⟨hk, rfl⟩
    · obtain ⟨h1, h2, h3⟩ := s.cellsSound e h
      rw [hold _ h1]; exact ⟨(hmem _).2 (Or.inl h1), h2, h3⟩
    · simp only [hnew]; exact ⟨(hmem _).2 (Or.inr rfl), hk, trivial⟩
  · intro e he
    rw [hforks] at he
    have : e ∈ c.forks ∨ (kind = FORK ∧ e = (name, c.nextN)) := by
      split at he
      · rename_i hk; simp at he; rcases he with he | he
        · exact Or.inl he
        · exact Or.inr ⟨hk, he⟩
      · exact Or.inl he
    rcases this with h | ⟨hk, rfl⟩
    · obtain ⟨h1, h2, h3⟩ := s.forksSound e h
      rw [hold _ h1]; exact ⟨(hmem _).2 (Or.inl h1), h2, h3⟩
    · simp only [hnew]; exact ⟨(hmem _).2 (Or.inr rfl), hk, trivial⟩
  · intro j hj hk
    rcases (hmem j).1 hj with h | h
    · rw [hold j h] at hk ⊢
      have := s.cellsComplete j h hk
      rw [hcells]; split
      · exact this
      · exact List.mem_append_left _ this
    · subst h; rw [hnew] at hk ⊢
      simp only at hk ⊢
      rw [hcells]; simp [hk]
  · intro j hj hk
    rcases (hmem j).1 hj with h | h
    · rw [hold j h] at hk ⊢
      have := s.forksComplete j h hk
      rw [hforks]; split
      · exact List.mem_append_left _ this
      · exact this
    · subst h; rw [hnew] at hk ⊢
      simp only at hk ⊢
      rw [hforks]; simp [hk]
  · intro l hl hpo
    obtain ⟨d, h1, h2, h3⟩ := s.ldrv l hl hpo
    exact ⟨d, h1, (hmem d).2 (Or.inl h2), by rw [hold d h2]; exact h3⟩
  · intro l hl hpi
    obtain ⟨d, h1, h2, h3⟩ := s.lrdr l hl hpi
    exact ⟨d, h1, (hmem d).2 (Or.inl h2), by rw [hold d h2]; exact h3⟩
  · intro j hj p l hp
    rcases (hmem j).1 hj with h | h
    · rw [hold j h] at hp; exact s.outsBack j h p l hp
    · subst h; rw [hnew] at hp; simp at hp
  · intro j hj p l hp
    rcases (hmem j).1 hj with h | h
    · rw [hold j h] at hp; exact s.insBack j h p l hp
    · subst h; rw [hnew] at hp; simp at hp
  · intro j hj
    exact (hmem j).2 (Or.inl (s.ioIn j hj))
  · intro l hl
    refine ⟨(s.piOk l hl).1, ?_⟩
    intro j hj p
    rcases (hmem j).1 hj with h | h
    · rw [hold j h]; exact (s.piOk l hl).2 j h p
    · subst h; rw [hnew]; simp
  · intro l hl
    refine ⟨(s.poOk l hl).1, ?_⟩
    intro j hj p
    rcases (hmem j).1 hj with h | h
    · rw [hold j h]; exact (s.poOk l hl).2 j h p
    · subst h; rw [hnew]; simp

/-! ## `Line(c, (d, dp), (r, rp))` on free pins -/
theorem addLine_sinv {c : Circ} {PI PO} {d r : Nat} {dp rp : Option Nat} (s : SInv c PI PO) (hd : d ∈ c.nodes) (hr : r ∈ c.nodes)
    (hdp : pin (c.nobj d).outs (dpinOf c d dp) = none) (hrp : pin (c.nobj r).ins (rpinOf c r rp) = none) :
    SInv (addLine c d dp r rp) PI PO := by
  have hn := addLine_nobj c d dp r rp
  have hne : ∀ x ∈ c.lines, x ≠ c.nextL := fun x hx => Nat.ne_of_lt (s.lfresh x hx).1
  have hold : ∀ x ∈ c.lines, (addLine c d dp r rp).lobj x = c.lobj x := by
    intro x hx; simp [addLine, hne x hx]
  have hnew : (addLine c d dp r rp).lobj c.nextL =
      { index := c.lines.length, driver := some d, driverPin := dpinOf c d dp, reader := some r,
        readerPin := rpinOf c r rp, alive := true } := by
    simp [addLine, dpinOf, rpinOf]
  have hlines : (addLine c d dp r rp).lines = c.lines ++ [c.nextL] := rfl
  have hnodes : (addLine c d dp r rp).nodes = c.nodes := rfl
  have hmem : ∀ x, x ∈ (addLine c d dp r rp).lines ↔ x ∈ c.lines ∨ x = c.nextL := by
    intro x; rw [hlines]; simp
  refine ⟨?_, ?_, ?_, ?_, ?_, ?_, ?_, ?_, ?_, ?_, ?_, ?_, ?_, ?_, ?_, ?_, ?_⟩
  · intro p hp; rw [(hn _).2.2.1]; exact s.nidx p hp
  · intro p hp
    simp only [hlines, List.length_append, List.length_singleton] at hp ⊢
    by_cases hpl : p < c.lines.length
    · rw [List.getElem_append_left hpl, hold _ (List.getElem_mem _)]; exact s.lidx p hpl
    · have : p = c.lines.length := by omega
      subst this
      simp [hnew]
  · intro j hj; rw [(hn j).2.2.2.1]; exact s.nfresh j hj
  · intro x hx
    rcases (hmem x).1 hx with h | h
    · rw [hold x h]; have := s.lfresh x h; exact ⟨by simp [addLine]; omega, this.2⟩
    · subst h; rw [hnew]; exact ⟨by simp [addLine], rfl⟩
  · exact s.ckeys
  · exact s.fkeys
  · intro e he; rw [(hn _).1, (hn _).2.1]; exact s.cellsSound e he
  · intro e he; rw [(hn _).1, (hn _).2.1]; exact s.forksSound e he
  · intro j hj hk; rw [(hn _).1]; rw [(hn _).2.1] at hk; exact s.cellsComplete j hj hk
  · intro j hj hk; rw [(hn _).1]; rw [(hn _).2.1] at hk; exact s.forksComplete j hj hk
  · -- ldrv
    intro x hx hpo
    rcases (hmem x).1 hx with h | h
    · obtain ⟨d0, h1, h2, h3⟩ := s.ldrv x h hpo
      refine ⟨d0, by rw [hold x h]; exact h1, h2, ?_⟩
      rw [hold x h, (hn d0).2.2.2.2.1]
      split
      · rename_i hd0; subst hd0
        rw [pin_growSet]; split
        · rename_i hp; rw [hp, hdp] at h3; cases h3
        · exact h3
      · exact h3
    · subst h
      refine ⟨d, by rw [hnew], hd, ?_⟩
      rw [hnew, (hn d).2.2.2.2.1]; simp [pin_growSet]
  · -- lrdr
    intro x hx hpi
    rcases (hmem x).1 hx with h | h
    · obtain ⟨r0, h1, h2, h3⟩ := s.lrdr x h hpi
      refine ⟨r0, by rw [hold x h]; exact h1, h2, ?_⟩
      rw [hold x h, (hn r0).2.2.2.2.2]
      split
      · rename_i hr0; subst hr0
        rw [pin_growSet]; split
        · rename_i hp; rw [hp, hrp] at h3; cases h3
        · exact h3
      · exact h3
    · subst h
      refine ⟨r, by rw [hnew], hr, ?_⟩
      rw [hnew, (hn r).2.2.2.2.2]; simp [pin_growSet]
  · -- outsBack
    intro j hj p x hp
    rw [(hn j).2.2.2.2.1] at hp
    have old : pin (c.nobj j).outs p = some x →
        x ∈ (addLine c d dp r rp).lines ∧ ((addLine c d dp r rp).lobj x).driver = some j ∧
        ((addLine c d dp r rp).lobj x).driverPin = p := by
      intro hp'
      obtain ⟨h1, h2, h3⟩ := s.outsBack j hj p x hp'
      rw [hold x h1]; exact ⟨(hmem x).2 (Or.inl h1), h2, h3⟩
    split at hp
    · rename_i hjd; subst hjd
      rw [pin_growSet] at hp; split at hp
      · rename_i hpp; subst hpp
        cases hp
        rw [hnew]; exact ⟨(hmem _).2 (Or.inr rfl), rfl, rfl⟩
      · exact old hp
    · exact old hp
  · -- insBack
    intro j hj p x hp
    rw [(hn j).2.2.2.2.2] at hp
    have old : pin (c.nobj j).ins p = some x →
        x ∈ (addLine c d dp r rp).lines ∧ ((addLine c d dp r rp).lobj x).reader = some j ∧
        ((addLine c d dp r rp).lobj x).readerPin = p := by
      intro hp'
      obtain ⟨h1, h2, h3⟩ := s.insBack j hj p x hp'
      rw [hold x h1]; exact ⟨(hmem x).2 (Or.inl h1), h2, h3⟩
    split at hp
    · rename_i hjd; subst hjd
      rw [pin_growSet] at hp; split at hp
      · rename_i hpp; subst hpp
        cases hp
        rw [hnew]; exact ⟨(hmem _).2 (Or.inr rfl), rfl, rfl⟩
      · exact old hp
    · exact old hp
  · exact s.ioIn
  · -- piOk
    intro l hl
    obtain ⟨h1, h2⟩ := s.piOk l hl
    refine ⟨(hmem l).2 (Or.inl h1), ?_⟩
    intro j hj p
    rw [(hn j).2.2.2.2.2]
    split
    · rw [pin_growSet]; split
      · intro h; exact hne l h1 (Option.some.inj h).symm
      · exact h2 j hj p
    · exact h2 j hj p
  · -- poOk
    intro l hl
    obtain ⟨h1, h2⟩ := s.poOk l hl
    refine ⟨(hmem l).2 (Or.inl h1), ?_⟩
    intro j hj p
    rw [(hn j).2.2.2.2.1]
    split
    · rw [pin_growSet]; split
      · intro h; exact hne l h1 (Option.some.inj h).symm
      · exact h2 j hj p
    · exact h2 j hj p

/-! ## `ll.reader = R; ll.reader_pin = rp; R.ins[rp] = ll` for a pending line -/
theorem setReader_nobj (c : Circ) (ll R rp j : Nat) :
    ((setReader c ll R rp).nobj j).name = (c.nobj j).name ∧ ((setReader c ll R rp).nobj j).kind = (c.nobj j).kind ∧
    ((setReader c ll R rp).nobj j).index = (c.nobj j).index ∧ ((setReader c ll R rp).nobj j).alive = (c.nobj j).alive ∧
    ((setReader c ll R rp).nobj j).outs = (c.nobj j).outs ∧
    ((setReader c ll R rp).nobj j).ins = (if j = R then growSet (c.nobj j).ins rp (some ll) else (c.nobj j).ins) := by
  simp only [setReader, upd_get]
  by_cases h : j = R <;> simp [h]

theorem setReader_sinv {c : Circ} {PI PO} {ll R rp : Nat} (s : SInv c PI PO) (hll : PI ll) (hR : R ∈ c.nodes)
    (hfree : pin (c.nobj R).ins rp = none) : SInv (setReader c ll R rp) (fun l => PI l ∧ l ≠ ll) PO := by
  have hn := setReader_nobj c ll R rp
  obtain ⟨hllm, hllu⟩ := s.piOk ll hll
  have hold : ∀ x, x ≠ ll → (setReader c ll R rp).lobj x = c.lobj x := by
    intro x hx; simp [setReader, hx]
  have hnew : (setReader c ll R rp).lobj ll = { c.lobj ll with reader := some R, readerPin := rp } := by
    simp [setReader]
  have hdrvf : ∀ x, ((setReader c ll R rp).lobj x).driver = (c.lobj x).driver ∧
      ((setReader c ll R rp).lobj x).driverPin = (c.lobj x).driverPin ∧
      ((setReader c ll R rp).lobj x).index = (c.lobj x).index ∧
      ((setReader c ll R rp).lobj x).alive = (c.lobj x).alive := by
    intro x; by_cases hx : x = ll
    · subst hx; rw [hnew]; exact ⟨rfl, rfl, rfl, rfl⟩
    · rw [hold x hx]; exact ⟨rfl, rfl, rfl, rfl⟩
  have hpin : ∀ j p, pin ((setReader c ll R rp).nobj j).ins p =
      if j = R ∧ p = rp then some ll else pin (c.nobj j).ins p := by
    intro j p
    rw [(hn j).2.2.2.2.2]
    by_cases h1 : j = R <;> by_cases h2 : p = rp <;> simp [h1, h2, pin_growSet]
  refine ⟨?_, ?_, ?_, ?_, s.ckeys, s.fkeys, ?_, ?_, ?_, ?_, ?_, ?_, ?_, ?_, s.ioIn, ?_, ?_⟩
  · intro p hp; rw [(hn _).2.2.1]; exact s.nidx p hp
  · intro p hp; rw [(hdrvf _).2.2.1]; exact s.lidx p hp
  · intro j hj; rw [(hn j).2.2.2.1]; exact s.nfresh j hj
  · intro x hx; rw [(hdrvf x).2.2.2]; exact s.lfresh x hx
  · intro e he; rw [(hn _).1, (hn _).2.1]; exact s.cellsSound e he
  · intro e he; rw [(hn _).1, (hn _).2.1]; exact s.forksSound e he
  · intro j hj hk; rw [(hn _).1]; rw [(hn _).2.1] at hk; exact s.cellsComplete j hj hk
  · intro j hj hk; rw [(hn _).1]; rw [(hn _).2.1] at hk; exact s.forksComplete j hj hk
  · intro x hx hpo
    obtain ⟨d, d1, d2, d3⟩ := s.ldrv x hx hpo
    exact ⟨d, by rw [(hdrvf x).1]; exact d1, d2, by rw [(hdrvf x).2.1, (hn d).2.2.2.2.1]; exact d3⟩
  · -- lrdr
    intro x hx hpi
    by_cases hxi : x = ll
    · subst hxi
      refine ⟨R, by rw [hnew], hR, ?_⟩
      rw [hnew, hpin]; simp
    · have hpi' : ¬ PI x := fun h => hpi ⟨h, hxi⟩
      obtain ⟨r0, r1, r2, r3⟩ := s.lrdr x hx hpi'
      refine ⟨r0, by rw [hold x hxi]; exact r1, r2, ?_⟩
      rw [hold x hxi, hpin]
      split
      · rename_i h; rw [h.1, h.2, hfree] at r3; cases r3
      · exact r3
  · intro j hj p x hp
    rw [(hn j).2.2.2.2.1] at hp
    obtain ⟨b1, b2, b3⟩ := s.outsBack j hj p x hp
    rw [(hdrvf x).1, (hdrvf x).2.1]; exact ⟨b1, b2, b3⟩
  · -- insBack
    intro j hj p x hp
    rw [hpin] at hp
    split at hp
    · rename_i h; cases hp; rw [hnew]; exact ⟨hllm, by rw [h.1], by rw [h.2]⟩
    · obtain ⟨b1, b2, b3⟩ := s.insBack j hj p x hp
      have hxi : x ≠ ll := by
        intro h; subst h; exact hllu j hj p hp
      rw [hold x hxi]; exact ⟨b1, b2, b3⟩
  · -- piOk
    intro l hl
    obtain ⟨h1, h2⟩ := s.piOk l hl.1
    refine ⟨h1, ?_⟩
    intro j hj p
    rw [hpin]; split
    · intro h; exact hl.2 (Option.some.inj h).symm
    · exact h2 j hj p
  · -- poOk
    intro l hl
    obtain ⟨h1, h2⟩ := s.poOk l hl
    refine ⟨h1, ?_⟩
    intro j hj p
    rw [(hn j).2.2.2.2.1]; exact h2 j hj p

/-! ## `ll.driver = D; ll.driver_pin = dp; D.outs[dp] = ll` for a pending line -/
theorem setDriver_nobj (c : Circ) (ll D dp j : Nat) :
    ((setDriver c ll D dp).nobj j).name = (c.nobj j).name ∧ ((setDriver c ll D dp).nobj j).kind = (c.nobj j).kind ∧
    ((setDriver c ll D dp).nobj j).index = (c.nobj j).index ∧ ((setDriver c ll D dp).nobj j).alive = (c.nobj j).alive ∧
    ((setDriver c ll D dp).nobj j).ins = (c.nobj j).ins ∧
    ((setDriver c ll D dp).nobj j).outs = (if j = D then growSet (c.nobj j).outs dp (some ll) else (c.nobj j).outs) := by
  simp only [setDriver, upd_get]
  by_cases h : j = D <;> simp [h]

theorem setDriver_sinv {c : Circ} {PI PO} {ll D dp : Nat} (s : SInv c PI PO) (hll : PO ll) (hD : D ∈ c.nodes)
    (hfree : pin (c.nobj D).outs dp = none) : SInv (setDriver c ll D dp) PI (fun l => PO l ∧ l ≠ ll) := by
  have hn := setDriver_nobj c ll D dp
  obtain ⟨hllm, hllu⟩ := s.poOk ll hll
  have hold : ∀ x, x ≠ ll → (setDriver c ll D dp).lobj x = c.lobj x := by
    intro x hx; simp [setDriver, hx]
  have hnew : (setDriver c ll D dp).lobj ll = { c.lobj ll with driver := some D, driverPin := dp } := by
    simp [setDriver]
  have hrdrf : ∀ x, ((setDriver c ll D dp).lobj x).reader = (c.lobj x).reader ∧
      ((setDriver c ll D dp).lobj x).readerPin = (c.lobj x).readerPin ∧
      ((setDriver c ll D dp).lobj x).index = (c.lobj x).index ∧
      ((setDriver c ll D dp).lobj x).alive = (c.lobj x).alive := by
    intro x; by_cases hx : x = ll
    · subst hx; rw [hnew]; exact ⟨rfl, rfl, rfl, rfl⟩
    · rw [hold x hx]; exact ⟨rfl, rfl, rfl, rfl⟩
  have hpin : ∀ j p, pin ((setDriver c ll D dp).nobj j).outs p =
      if j = D ∧ p = dp then some ll else pin (c.nobj j).outs p := by
    intro j p
    rw [(hn j).2.2.2.2.2]
    by_cases h1 : j = D <;> by_cases h2 : p = dp <;> simp [h1, h2, pin_growSet]
  refine ⟨?_, ?_, ?_, ?_, s.ckeys, s.fkeys, ?_, ?_, ?_, ?_, ?_, ?_, ?_, ?_, s.ioIn, ?_, ?_⟩
  · intro p hp; rw [(hn _).2.2.1]; exact s.nidx p hp
  · intro p hp; rw [(hrdrf _).2.2.1]; exact s.lidx p hp
  · intro j hj; rw [(hn j).2.2.2.1]; exact s.nfresh j hj
  · intro x hx; rw [(hrdrf x).2.2.2]; exact s.lfresh x hx
  · intro e he; rw [(hn _).1, (hn _).2.1]; exact s.cellsSound e he
  · intro e he; rw [(hn _).1, (hn _).2.1]; exact s.forksSound e he
  · intro j hj hk; rw [(hn _).1]; rw [(hn _).2.1] at hk; exact s.cellsComplete j hj hk
  · intro j hj hk; rw [(hn _).1]; rw [(hn _).2.1] at hk; exact s.forksComplete j hj hk
  · -- ldrv
    intro x hx hpo
    by_cases hxi : x = ll
    · subst hxi
      refine ⟨D, by rw [hnew], hD, ?_⟩
      rw [hnew, hpin]; simp
    · have hpo' : ¬ PO x := fun h => hpo ⟨h, hxi⟩
      obtain ⟨r0, r1, r2, r3⟩ := s.ldrv x hx hpo'
      refine ⟨r0, by rw [hold x hxi]; exact r1, r2, ?_⟩
      rw [hold x hxi, hpin]
      split
      · rename_i h; rw [h.1, h.2, hfree] at r3; cases r3
      · exact r3
  · intro x hx hpi
    obtain ⟨d, d1, d2, d3⟩ := s.lrdr x hx hpi
    exact ⟨d, by rw [(hrdrf x).1]; exact d1, d2, by rw [(hrdrf x).2.1, (hn d).2.2.2.2.1]; exact d3⟩
  · -- outsBack
    intro j hj p x hp
    rw [hpin] at hp
    split at hp
    · rename_i h; cases hp; rw [hnew]; exact ⟨hllm, by rw [h.1], by rw [h.2]⟩
    · obtain ⟨b1, b2, b3⟩ := s.outsBack j hj p x hp
      have hxi : x ≠ ll := by
        intro h; subst h; exact hllu j hj p hp
      rw [hold x hxi]; exact ⟨b1, b2, b3⟩
  · intro j hj p x hp
    rw [(hn j).2.2.2.2.1] at hp
    obtain ⟨b1, b2, b3⟩ := s.insBack j hj p x hp
    rw [(hrdrf x).1, (hrdrf x).2.1]; exact ⟨b1, b2, b3⟩
  · -- piOk
    intro l hl
    obtain ⟨h1, h2⟩ := s.piOk l hl
    refine ⟨h1, ?_⟩
    intro j hj p
    rw [(hn j).2.2.2.2.1]; exact h2 j hj p
  · -- poOk
    intro l hl
    obtain ⟨h1, h2⟩ := s.poOk l hl.1
    refine ⟨h1, ?_⟩
    intro j hj p
    rw [hpin]; split
    · intro h; exact hl.2 (Option.some.inj h).symm
    · exact h2 j hj p

/-! ## a change of the stale end of a pending line is invisible -/
def setStaleReader (c : Circ) (ll : Nat) (v : Option Nat) (vp : Nat) : Circ :=
  { c with lobj := upd c.lobj ll { c.lobj ll with reader := v, readerPin := vp } }

theorem staleReader_sinv {c : Circ} {PI PO} {ll : Nat} (s : SInv c PI PO) (hll : PI ll) (v : Option Nat) (vp : Nat) :
    SInv (setStaleReader c ll v vp) PI PO := by
  obtain ⟨hllm, hllu⟩ := s.piOk ll hll
  have hold : ∀ x, x ≠ ll → (setStaleReader c ll v vp).lobj x = c.lobj x := by
    intro x hx; simp [setStaleReader, hx]
  have hf : ∀ x, ((setStaleReader c ll v vp).lobj x).driver = (c.lobj x).driver ∧
      ((setStaleReader c ll v vp).lobj x).driverPin = (c.lobj x).driverPin ∧
      ((setStaleReader c ll v vp).lobj x).index = (c.lobj x).index ∧
      ((setStaleReader c ll v vp).lobj x).alive = (c.lobj x).alive := by
    intro x; by_cases hx : x = ll
    · subst hx; simp [setStaleReader]
    · rw [hold x hx]; exact ⟨rfl, rfl, rfl, rfl⟩
  refine ⟨s.nidx, ?_, s.nfresh, ?_, s.ckeys, s.fkeys, s.cellsSound, s.forksSound, s.cellsComplete, s.forksComplete,
    ?_, ?_, ?_, ?_, s.ioIn, s.piOk, s.poOk⟩
  · intro p hp; rw [(hf _).2.2.1]; exact s.lidx p hp
  · intro x hx; rw [(hf x).2.2.2]; exact s.lfresh x hx
  · intro x hx hpo
    obtain ⟨d, d1, d2, d3⟩ := s.ldrv x hx hpo
    exact ⟨d, by rw [(hf x).1]; exact d1, d2, by rw [(hf x).2.1]; exact d3⟩
  · intro x hx hpi
    have hxi : x ≠ ll := fun h => hpi (h ▸ hll)
    obtain ⟨r, r1, r2, r3⟩ := s.lrdr x hx hpi
    exact ⟨r, by rw [hold x hxi]; exact r1, r2, by rw [hold x hxi]; exact r3⟩
  · intro j hj p x hp
    obtain ⟨b1, b2, b3⟩ := s.outsBack j hj p x hp
    exact ⟨b1, by rw [(hf x).1]; exact b2, by rw [(hf x).2.1]; exact b3⟩
  · intro j hj p x hp
    obtain ⟨b1, b2, b3⟩ := s.insBack j hj p x hp
    have hxi : x ≠ ll := by intro h; subst h; exact hllu j hj p hp
    exact ⟨b1, by rw [hold x hxi]; exact b2, by rw [hold x hxi]; exact b3⟩

end KV.CircObj
