import KyupyVerif.Model.Traverse
/-! Helper lemmas for C17 (graph part). -/
namespace KV.Trav
open KV.Kahn

/-! ### the reversed traversal is `kahn` of the transposed graph -/
theorem processPreds_eq (g : G) (ps : List Nat) (st : (Nat → Nat) × List Nat) :
    processPreds g ps st = processSuccs g.transpose ps st := by
  induction ps generalizing st with
  | nil => rfl
  | cons p ps ih =>
    obtain ⟨cnt, q⟩ := st
    simp only [processPreds, processSuccs]
    rw [ih]
    rfl

theorem rstep_eq (g : G) (s : KS) : rstep g s = kstep g.transpose s := by
  unfold rstep kstep
  cases s.queue with
  | nil => rfl
  | cons v q => simp only [processPreds_eq]; rfl

theorem rloop_eq (g : G) (fuel : Nat) (s : KS) : rloop g fuel s = kloop g.transpose fuel s := by
  induction fuel generalizing s with
  | zero => rfl
  | succ n ih =>
    unfold rloop kloop
    rw [rstep_eq]
    cases kstep g.transpose s with
    | none => rfl
    | some s' => exact ih s'

theorem revKahn_eq (g : G) : revKahn g = kahn g.transpose := by
  unfold revKahn kahn
  rw [rloop_eq]
  rfl

theorem transpose_consistent (g : G) (h : g.Consistent) : g.transpose.Consistent := by
  intro v r
  exact (h r v).symm

/-! ### one step of the deque loop -/
theorem kstep_some (g : G) (s s' : KS) (hs : kstep g s = some s') :
    ∃ v q added, s.queue = v :: q ∧ s'.queue = q ++ added ∧ s'.out = s.out ++ [v] ∧
      ∀ r ∈ added, g.isSrc r = false := by
  unfold kstep at hs
  cases hq : s.queue with
  | nil => rw [hq] at hs; simp at hs
  | cons v q =>
    rw [hq] at hs
    simp only [] at hs
    obtain ⟨added, hadd, _, hiff⟩ := ps_queue g (g.succs v) s.cnt q
    have hs' : s' = { queue := q ++ added, cnt := (processSuccs g (g.succs v) (s.cnt, q)).1, out := s.out ++ [v] } := by
      have := Option.some.inj hs
      rw [← this]
      cases hps : processSuccs g (g.succs v) (s.cnt, q) with
      | mk c' q' => simp only [hps] at hadd ⊢; rw [hadd]
    subst hs'
    refine ⟨v, q, added, rfl, rfl, rfl, ?_⟩
    intro r hr
    obtain ⟨hseq, hlt, _⟩ := (hiff r).mp hr
    exact nonsrc_of_lt g r _ hseq hlt

/-- sources (in index order) stay in front of everything the loop appends -/
def SrcFront (g : G) (s : KS) : Prop :=
  ∃ X, s.out ++ s.queue = (List.range g.n).filter g.isSrc ++ X ∧ ∀ x ∈ X, g.isSrc x = false

theorem kloop_srcFront (g : G) (fuel : Nat) (s : KS) (h : SrcFront g s) : SrcFront g (kloop g fuel s) := by
  induction fuel generalizing s with
  | zero => exact h
  | succ n ih =>
    unfold kloop
    cases hs : kstep g s with
    | none => exact h
    | some s' =>
      apply ih
      obtain ⟨v, q, added, hq, hq', hout, hadd⟩ := kstep_some g s s' hs
      obtain ⟨X, hX, hXs⟩ := h
      refine ⟨X ++ added, ?_, ?_⟩
      · rw [hq', hout]
        rw [hq] at hX
        have : s.out ++ [v] ++ (q ++ added) = (s.out ++ v :: q) ++ added := by simp
        rw [this, hX]; simp
      · intro x hx
        rcases List.mem_append.mp hx with h1 | h1
        · exact hXs x h1
        · exact hadd x h1

/-- `topological_order()` = all sources in index order, then only non-sources -/
theorem kahn_sources_first (g : G) (hc : g.Consistent) (hb : ∀ v r, r ∈ g.succs v → r < g.n) :
    ∃ X, kahn g = (List.range g.n).filter g.isSrc ++ X ∧ ∀ x ∈ X, g.isSrc x = false := by
  have h := kloop_srcFront g (g.n + 1) (kinit g) ⟨[], by simp [kinit], by simp⟩
  obtain ⟨X, hX, hXs⟩ := h
  rw [kahn_queue_empty g hc hb] at hX
  exact ⟨X, by simpa [kahn] using hX, hXs⟩

/-- every yielded node is a node index -/
theorem kahn_bound (g : G) (hb : ∀ v r, r ∈ g.succs v → r < g.n) : ∀ r ∈ kahn g, r < g.n := by
  intro r hr
  have h2 := kloop_inv2 g hb (g.n + 1) (kinit g) (kinit_inv2 g)
  exact h2.bound r (List.mem_append_left _ hr)

/-! ### levels -/
theorem foldl_max_spec (x : Int) (xs : List Int) :
    xs.foldl max x ∈ x :: xs ∧ ∀ y ∈ x :: xs, y ≤ xs.foldl max x := by
  induction xs generalizing x with
  | nil => simp
  | cons a as ih =>
    simp only [List.foldl_cons]
    obtain ⟨h1, h2⟩ := ih (max x a)
    constructor
    · rcases List.mem_cons.mp h1 with h | h
      · rw [h]
        by_cases hxa : x ≤ a
        · simp [Int.max_eq_right hxa]
        · simp [Int.max_eq_left (by omega : a ≤ x)]
      · simp [h]
    · intro y hy
      have hm := h2 (max x a) (by simp)
      rcases List.mem_cons.mp hy with h | h
      · subst h; have := Int.le_max_left y a; omega
      · rcases List.mem_cons.mp h with h | h
        · subst h; have := Int.le_max_right x y; omega
        · exact h2 y (by simp [h])

theorem lmax_spec (xs : List Int) (h : xs ≠ []) : lmax xs ∈ xs ∧ ∀ y ∈ xs, y ≤ lmax xs := by
  cases xs with
  | nil => exact absurd rfl h
  | cons x xs => exact foldl_max_spec x xs

/-- level `l` reported for `v` is the longest distance from a source -/
def IsLongest (g : G) (v : Nat) (l : Int) : Prop :=
  ∃ k : Nat, l = (k : Int) ∧ SrcPath g v k ∧ ∀ k', SrcPath g v k' → k' ≤ k

theorem srcPath_src (g : G) (v k : Nat) (hs : g.isSrc v = true) (h : SrcPath g v k) : k = 0 := by
  cases h with
  | src _ _ => rfl
  | step u _ k hns _ _ => rw [hs] at hns; exact absurd hns (by simp)

theorem levelOf_longest (g : G) (lvl : Nat → Int) (v : Nat)
    (hp : ∀ p ∈ g.preds v, g.isSrc v = false → IsLongest g p (lvl p)) : IsLongest g v (levelOf g lvl v) := by
  unfold levelOf
  cases hs : g.isSrc v with
  | true =>
    refine ⟨0, by simp, SrcPath.src v hs, ?_⟩
    intro k' hk'; have := srcPath_src g v k' hs hk'; omega
  | false =>
    simp only [Bool.false_eq_true, if_false]
    have hne : (g.preds v).map lvl ≠ [] := by
      intro h
      have : g.preds v = [] := by simpa using h
      unfold G.isSrc G.indeg at hs
      simp [this] at hs
    obtain ⟨hmem, hmax⟩ := lmax_spec _ hne
    obtain ⟨p, hpm, hpl⟩ := List.mem_map.mp hmem
    obtain ⟨k, hk, hpath, hbest⟩ := hp p hpm hs
    refine ⟨k + 1, by rw [← hpl, hk]; simp, SrcPath.step p v k hs hpm hpath, ?_⟩
    intro k' hk'
    cases hk' with
    | src _ h0 => omega
    | step u _ k'' _ hu hpu =>
      obtain ⟨ku, hku, _, hbu⟩ := hp u hu hs
      have h1 := hbu k'' hpu
      have h2 := hmax (lvl u) (List.mem_map.mpr ⟨u, hu, rfl⟩)
      rw [← hpl, hk, hku] at h2
      omega

theorem levelsLoop_fst (g : G) (vs : List Nat) (lvl : Nat → Int) : (levelsLoop g vs lvl).map Prod.fst = vs := by
  induction vs generalizing lvl with
  | nil => rfl
  | cons v vs ih => simp [levelsLoop, ih]

theorem levelsLoop_longest (g : G) (pre vs : List Nat) (lvl : Nat → Int)
    (hnd : (pre ++ vs).Nodup) (hord : Ordered g (pre ++ vs))
    (hinv : ∀ j ∈ pre, IsLongest g j (lvl j)) :
    ∀ x ∈ levelsLoop g vs lvl, IsLongest g x.1 x.2 := by
  induction vs generalizing pre lvl with
  | nil => intro x hx; simp [levelsLoop] at hx
  | cons v vs ih =>
    have hv : IsLongest g v (levelOf g lvl v) := by
      apply levelOf_longest
      intro p hp hs
      exact hinv p (hord pre v vs rfl hs p hp)
    have hvpre : v ∉ pre := by
      intro h
      have := (List.nodup_append.mp hnd).2.2 v h v (by simp)
      exact this rfl
    intro x hx
    simp only [levelsLoop, List.mem_cons] at hx
    rcases hx with rfl | hx
    · exact hv
    · refine ih (pre ++ [v]) (setAt lvl v (levelOf g lvl v)) (by simpa using hnd) (by simpa using hord) ?_ x hx
      intro j hj
      rcases List.mem_append.mp hj with h | h
      · have : j ≠ v := fun e => hvpre (e ▸ h)
        simp only [setAt, this, if_false]; exact hinv j h
      · have : j = v := by simpa using h
        subst this; simp only [setAt, if_true]; exact hv

/-! ### fanin -/
theorem markOf_mono (g : G) (m : Nat → Bool) (v : Nat) (h : m v = true) : markOf g m v = true := by
  simp [markOf, h]

theorem setAt_mark_mono (g : G) (m : Nat → Bool) (v j : Nat) (h : m j = true) :
    setAt m v (markOf g m v) j = true := by
  unfold setAt
  by_cases hj : j = v
  · subst hj; simp [markOf_mono g m j h]
  · simp [hj, h]

theorem anyReach_of_mark (g : G) (O : List Nat) (m : Nat → Bool) (v : Nat)
    (hm : ∀ j, m j = true → AnyReach g O j) (h : markOf g m v = true) : AnyReach g O v := by
  unfold markOf at h
  rcases Bool.or_eq_true _ _ |>.mp h with h | h
  · exact hm v h
  · obtain ⟨r, hr, hmr⟩ := List.any_eq_true.mp h
    exact AnyReach.step v r hr (hm r hmr)

theorem setAt_sound (g : G) (O : List Nat) (m : Nat → Bool) (v : Nat)
    (hm : ∀ j, m j = true → AnyReach g O j) : ∀ j, setAt m v (markOf g m v) j = true → AnyReach g O j := by
  intro j hj
  unfold setAt at hj
  by_cases h : j = v
  · subst h; simp only [if_true] at hj; exact anyReach_of_mark g O m j hm hj
  · simp only [h, if_false] at hj; exact hm j hj

theorem faninYield_sound (g : G) (O : List Nat) (vs : List Nat) (m : Nat → Bool)
    (hm : ∀ j, m j = true → AnyReach g O j) : ∀ x ∈ faninYield g vs m, AnyReach g O x := by
  induction vs generalizing m with
  | nil => intro x hx; simp [faninYield] at hx
  | cons v vs ih =>
    intro x hx
    simp only [faninYield] at hx
    have hm' := setAt_sound g O m v hm
    split at hx
    · rename_i hmv
      rcases List.mem_cons.mp hx with rfl | hx
      · exact anyReach_of_mark g O m x hm hmv
      · exact ih _ hm' x hx
    · exact ih _ hm' x hx

theorem faninMarks_sound (g : G) (O : List Nat) (vs : List Nat) (m : Nat → Bool)
    (hm : ∀ j, m j = true → AnyReach g O j) : ∀ j, faninMarks g vs m j = true → AnyReach g O j := by
  induction vs generalizing m with
  | nil => exact hm
  | cons v vs ih => exact ih _ (setAt_sound g O m v hm)

theorem faninMarks_mono (g : G) (vs : List Nat) (m : Nat → Bool) (j : Nat) (h : m j = true) :
    faninMarks g vs m j = true := by
  induction vs generalizing m with
  | nil => exact h
  | cons v vs ih => exact ih _ (setAt_mark_mono g m v j h)

theorem faninLate_sub (g : G) (vs : List Nat) (m : Nat → Bool) : ∀ x ∈ faninLate g vs m, x ∈ vs := by
  induction vs generalizing m with
  | nil => intro x hx; simp [faninLate] at hx
  | cons v vs ih =>
    intro x hx
    simp only [faninLate] at hx
    split at hx
    · exact List.mem_cons_of_mem _ (ih _ x hx)
    · rcases List.mem_cons.mp hx with rfl | hx
      · simp
      · exact List.mem_cons_of_mem _ (ih _ x hx)

/-- a visited node is yielded in the pass or remembered as late -/
theorem yield_or_late (g : G) (vs : List Nat) (m : Nat → Bool) :
    ∀ x ∈ vs, x ∈ faninYield g vs m ∨ x ∈ faninLate g vs m := by
  induction vs generalizing m with
  | nil => intro x hx; simp at hx
  | cons v vs ih =>
    intro x hx
    simp only [faninYield, faninLate]
    rcases List.mem_cons.mp hx with rfl | hx
    · split <;> simp
    · rcases ih (setAt m v (markOf g m v)) x hx with h | h
      · left; split
        · exact List.mem_cons_of_mem _ h
        · exact h
      · right; split
        · exact h
        · exact List.mem_cons_of_mem _ h

/-- nodes to which the single pass is complete: those with a combinational path that are not state elements
(or are origins themselves) -/
def CombReachNS (g : G) (O : List Nat) (v : Nat) : Prop := CombReach g O v ∧ (g.seq v = false ∨ v ∈ O)

/-- the pass over a list that is ordered for the transposed graph marks and yields every `CombReachNS` node -/
theorem fanin_pass_complete (g : G) (O : List Nat) (pre vs : List Nat) (m : Nat → Bool)
    (hord : Ordered g.transpose (pre ++ vs))
    (hO : ∀ j ∈ O, m j = true)
    (hpre : ∀ j ∈ pre, CombReachNS g O j → m j = true) :
    (∀ x ∈ vs, CombReachNS g O x → x ∈ faninYield g vs m) ∧
    (∀ x ∈ pre ++ vs, CombReachNS g O x → faninMarks g vs m x = true) := by
  induction vs generalizing pre m with
  | nil =>
    refine ⟨by intro x hx; simp at hx, ?_⟩
    intro x hx hr
    simp only [List.append_nil] at hx
    exact hpre x hx hr
  | cons v vs ih =>
    -- the mark computed for v
    have hv : CombReachNS g O v → markOf g m v = true := by
      rintro ⟨hr, hns⟩
      cases hr with
      | orig _ hvO => exact markOf_mono g m v (hO v hvO)
      | step _ r hrs hrns hrr =>
        by_cases hvO : v ∈ O
        · exact markOf_mono g m v (hO v hvO)
        · have hseq : g.seq v = false := by
            rcases hns with h | h
            · exact h
            · exact absurd h hvO
          have hmr : m r = true := by
            by_cases hrO : r ∈ O
            · exact hO r hrO
            · have hrseq : g.seq r = false := by
                rcases hrns with h | h
                · exact h
                · exact absurd h hrO
              -- v is not a sink of the transposed order, so its readers have been visited
              have hnsrc : g.transpose.isSrc v = false := by
                unfold G.isSrc G.indeg G.transpose
                simp only [hseq, Bool.or_false, beq_eq_false_iff_ne, ne_eq]
                intro h0
                have : g.succs v = [] := List.eq_nil_of_length_eq_zero h0
                rw [this] at hrs; simp at hrs
              have hrpre : r ∈ pre := hord pre v vs rfl hnsrc r hrs
              exact hpre r hrpre ⟨hrr, Or.inl hrseq⟩
          unfold markOf
          simp only [Bool.or_eq_true]
          right
          exact List.any_eq_true.mpr ⟨r, hrs, hmr⟩
    have hO' : ∀ j ∈ O, setAt m v (markOf g m v) j = true := fun j hj => setAt_mark_mono g m v j (hO j hj)
    have hpre' : ∀ j ∈ pre ++ [v], CombReachNS g O j → setAt m v (markOf g m v) j = true := by
      intro j hj hr
      rcases List.mem_append.mp hj with h | h
      · exact setAt_mark_mono g m v j (hpre j h hr)
      · have : j = v := by simpa using h
        subst this; simp only [setAt, if_true]; exact hv hr
    obtain ⟨ih1, ih2⟩ := ih (pre ++ [v]) (setAt m v (markOf g m v)) (by simpa using hord) hO' hpre'
    constructor
    · intro x hx hr
      simp only [faninYield]
      rcases List.mem_cons.mp hx with rfl | hx
      · rw [hv hr]; simp
      · have := ih1 x hx hr
        split
        · exact List.mem_cons_of_mem _ this
        · exact this
    · intro x hx hr
      simp only [faninMarks]
      exact ih2 x (by simpa using hx) hr

theorem combReach_any (g : G) (O : List Nat) (v : Nat) (h : CombReach g O v) : AnyReach g O v := by
  induction h with
  | orig v hv => exact AnyReach.orig v hv
  | step v r hr _ _ ih => exact AnyReach.step v r hr ih

theorem anyReach_comb (g : G) (O : List Nat) (hseq : ∀ v, g.seq v = false) (v : Nat) (h : AnyReach g O v) :
    CombReach g O v := by
  induction h with
  | orig v hv => exact CombReach.orig v hv
  | step v r hr _ ih => exact CombReach.step v r hr (Or.inl (hseq r)) ih

theorem faninYield_sub (g : G) (vs : List Nat) (m : Nat → Bool) : ∀ x ∈ faninYield g vs m, x ∈ vs := by
  induction vs generalizing m with
  | nil => intro x hx; simp [faninYield] at hx
  | cons v vs ih =>
    intro x hx
    simp only [faninYield] at hx
    split at hx
    · rcases List.mem_cons.mp hx with rfl | hx
      · simp
      · exact List.mem_cons_of_mem _ (ih _ x hx)
    · exact List.mem_cons_of_mem _ (ih _ x hx)

theorem fanin_sub (late : Bool) (g : G) (O : List Nat) : ∀ x ∈ fanin late g O, x ∈ revKahn g := by
  intro x hx
  simp only [fanin, List.mem_append] at hx
  rcases hx with h | h
  · exact faninYield_sub g _ _ x h
  · cases late with
    | false => simp at h
    | true =>
      simp only [if_true, List.mem_filter] at h
      exact faninLate_sub g _ _ x h.1

theorem yield_late_perm (g : G) (vs : List Nat) (m : Nat → Bool) :
    (faninYield g vs m ++ faninLate g vs m).Perm vs := by
  induction vs generalizing m with
  | nil => simp [faninYield, faninLate]
  | cons v vs ih =>
    simp only [faninYield, faninLate]
    split
    · exact (ih _).cons v
    · exact List.perm_middle.trans ((ih _).cons v)

/-- no node is yielded twice -/
theorem fanin_nodup (late : Bool) (g : G) (O : List Nat) (hc : g.Consistent) : (fanin late g O).Nodup := by
  have hnd : (revKahn g).Nodup := by rw [revKahn_eq]; exact (kahn_sound g.transpose (transpose_consistent g hc)).1
  have h := (yield_late_perm g (revKahn g) (originMarks O)).nodup_iff.mpr hnd
  simp only [fanin]
  cases late with
  | false => simpa using (List.nodup_append.mp h).1
  | true =>
    simp only [if_true]
    exact h.sublist (List.Sublist.append (List.Sublist.refl _) List.filter_sublist)

theorem originMarks_true (O : List Nat) (j : Nat) : originMarks O j = true ↔ j ∈ O := by
  simp [originMarks]

/-- soundness of `fanin` for every graph: whatever is yielded has a path to an origin -/
theorem fanin_sound_any (late : Bool) (g : G) (O : List Nat) : ∀ x ∈ fanin late g O, AnyReach g O x := by
  have h0 : ∀ j, originMarks O j = true → AnyReach g O j :=
    fun j hj => AnyReach.orig j ((originMarks_true O j).mp hj)
  intro x hx
  simp only [fanin, List.mem_append] at hx
  rcases hx with h | h
  · exact faninYield_sound g O _ _ h0 x h
  · cases late with
    | false => simp at h
    | true =>
      simp only [if_true, List.mem_filter] at h
      obtain ⟨r, hr, hm⟩ := List.any_eq_true.mp h.2
      exact AnyReach.step x r hr (faninMarks_sound g O _ _ h0 r hm)

/-- hypotheses under which the reversed traversal visits every node: the graph is consistent, entries are node
indices, and `rank` decreases along every line that leaves a node which is not a state element -/
structure RevOK (g : G) (rank : Nat → Nat) : Prop where
  cons : g.Consistent
  sb : ∀ v r, r ∈ g.succs v → r < g.n
  pb : ∀ r v, v ∈ g.preds r → v < g.n
  rank : ∀ v r, g.transpose.isSrc v = false → r ∈ g.succs v → rank r < rank v

theorem revKahn_complete (g : G) (rank : Nat → Nat) (h : RevOK g rank) : ∀ r, r < g.n → r ∈ revKahn g := by
  rw [revKahn_eq]
  exact kahn_complete g.transpose (transpose_consistent g h.cons) (fun v r hr => h.pb v r hr)
    (fun r v hv => h.sb r v hv) rank h.rank

theorem revKahn_ordered (g : G) (hc : g.Consistent) : (revKahn g).Nodup ∧ Ordered g.transpose (revKahn g) := by
  rw [revKahn_eq]
  exact kahn_sound g.transpose (transpose_consistent g hc)

/-- the single pass yields every node with a combinational path that is not itself a state element (or is an origin) -/
theorem fanin_complete_ns (late : Bool) (g : G) (O : List Nat) (rank : Nat → Nat) (h : RevOK g rank)
    (x : Nat) (hx : x < g.n) (hr : CombReachNS g O x) : x ∈ fanin late g O := by
  have hord := (revKahn_ordered g h.cons).2
  have pass := fanin_pass_complete g O [] (revKahn g) (originMarks O) (by simpa using hord)
    (fun j hj => (originMarks_true O j).mpr hj) (by intro j hj; simp at hj)
  simp only [fanin, List.mem_append]
  exact Or.inl (pass.1 x (revKahn_complete g rank h x hx) hr)

/-- the repaired code yields every node with a combinational path -/
theorem fanin_complete_late (g : G) (O : List Nat) (rank : Nat → Nat) (h : RevOK g rank)
    (x : Nat) (hx : x < g.n) (hr : CombReach g O x) : x ∈ fanin true g O := by
  by_cases hns : g.seq x = false ∨ x ∈ O
  · exact fanin_complete_ns true g O rank h x hx ⟨hr, hns⟩
  · have hord := (revKahn_ordered g h.cons).2
    have pass := fanin_pass_complete g O [] (revKahn g) (originMarks O) (by simpa using hord)
      (fun j hj => (originMarks_true O j).mpr hj) (by intro j hj; simp at hj)
    cases hr with
    | orig _ hxO => exact absurd (Or.inr hxO) hns
    | step _ r hrs hrns hrr =>
      have hrn : r < g.n := h.sb x r hrs
      have hmr := pass.2 r (by simpa using revKahn_complete g rank h r hrn) ⟨hrr, hrns⟩
      simp only [fanin, List.mem_append, if_true, List.mem_filter]
      rcases yield_or_late g (revKahn g) (originMarks O) x (revKahn_complete g rank h x hx) with hy | hl
      · exact Or.inl hy
      · exact Or.inr ⟨hl, List.any_eq_true.mpr ⟨r, hrs, hmr⟩⟩

/-! ### graphs given by arrays -/
theorem getD_nil_of_ge (a : Array (List Nat)) (v : Nat) (h : a.size ≤ v) : a.getD v [] = [] := by
  simp [Array.getD, Nat.not_lt.mpr h]

theorem wfB_sound (a : GA) (h : a.wfB = true) :
    a.toG.Consistent ∧ (∀ v r, r ∈ a.toG.succs v → r < a.toG.n) ∧ (∀ r v, v ∈ a.toG.preds r → v < a.toG.n) := by
  simp only [GA.wfB, Bool.and_eq_true, beq_iff_eq, List.all_eq_true, List.mem_range, decide_eq_true_eq] at h
  obtain ⟨⟨hps, _⟩, hall⟩ := h
  have hsb : ∀ v r, r ∈ a.succs.getD v [] → r < a.n := by
    intro v r hr
    by_cases hv : v < a.n
    · exact (hall v hv).1.1 r hr
    · rw [getD_nil_of_ge a.succs v (by unfold GA.n at hv; omega)] at hr; simp at hr
  have hpb : ∀ r v, v ∈ a.preds.getD r [] → v < a.n := by
    intro r v hv
    by_cases hr : r < a.n
    · exact (hall r hr).1.2 v hv
    · rw [getD_nil_of_ge a.preds r (by omega)] at hv; simp at hv
  refine ⟨?_, hsb, hpb⟩
  intro v r
  show (a.succs.getD v []).count r = (a.preds.getD r []).count v
  by_cases hv : v < a.n
  · by_cases hr : r < a.n
    · exact (hall v hv).2 r hr
    · have h1 : (a.succs.getD v []).count r = 0 :=
        List.count_eq_zero.mpr (fun hm => hr (hsb v r hm))
      rw [h1, getD_nil_of_ge a.preds r (by omega)]; simp
  · have h1 : (a.preds.getD r []).count v = 0 :=
      List.count_eq_zero.mpr (fun hm => hv (hpb r v hm))
    rw [h1, getD_nil_of_ge a.succs v (by unfold GA.n at hv; omega)]; simp

theorem rankOKB_sound (a : GA) (hp : a.preds.size = a.n) (rank : Nat → Nat) (h : a.rankOKB rank = true) :
    ∀ r v, a.toG.isSrc r = false → v ∈ a.toG.preds r → rank v < rank r := by
  intro r v hs hv
  simp only [GA.rankOKB, List.all_eq_true, List.mem_range, Bool.or_eq_true, decide_eq_true_eq] at h
  by_cases hr : r < a.n
  · rcases h r hr with h1 | h1
    · rw [hs] at h1; exact absurd h1 (by simp)
    · exact h1 v hv
  · have : a.toG.preds r = [] := getD_nil_of_ge a.preds r (by omega)
    rw [this] at hv; simp at hv

theorem rrankOKB_sound (a : GA) (rank : Nat → Nat) (h : a.rrankOKB rank = true) :
    ∀ v r, a.toG.transpose.isSrc v = false → r ∈ a.toG.transpose.preds v → rank r < rank v := by
  intro v r hs hr
  simp only [GA.rrankOKB, List.all_eq_true, List.mem_range, Bool.or_eq_true, decide_eq_true_eq] at h
  by_cases hv : v < a.n
  · rcases h v hv with h1 | h1
    · have : a.toG.transpose.isSrc v = a.toG.isSink v := rfl
      rw [this, h1] at hs; exact absurd hs (by simp)
    · exact h1 r hr
  · have : a.toG.transpose.preds v = [] := getD_nil_of_ge a.succs v (by unfold GA.n at hv; omega)
    rw [this] at hr; simp at hr

/-! ### line order -/
theorem perm_range_of_nodup_complete (l : List Nat) (n : Nat) (hnd : l.Nodup) (hb : ∀ x ∈ l, x < n)
    (hc : ∀ x, x < n → x ∈ l) : l.Perm (List.range n) := by
  apply (List.perm_ext_iff_of_nodup hnd List.nodup_range).mpr
  intro x
  simp only [List.mem_range]
  exact ⟨hb x, hc x⟩

end KV.Trav
