import KyupyVerif.Proofs.SubstGen18
/-! Helper lemmas for C10 (`resolve_sem_general`), part 2: the loop invariant `ResRelG` — `cur` is the original circuit `h` with the
cells in `D` substituted (substitutions may have removed lines, the instances themselves and dangling logic), `ρ` = index maps
from `cur` to `h`: `ρ.node j < h.nodes.size` says that node `j` of `cur` is the (not yet substituted) original node `ρ.node j`,
`ρ.line l < h.lines.size` that line `l` of `cur` is the original line `ρ.line l`. -/
namespace KV.Transform
open KV

structure ResRelG {α : Type _} (lib : Lib) (h : NNet) (z : α) (neg : α → α) (prim : String → α → α → α → α → α)
    (cur : NNet) (D : Nat → Prop) (ρ : Ren) : Prop where
  wf : WFm cur
  io : cur.net.io.map ρ.node = h.net.io
  nodeInj : ∀ j1 j2, j1 < cur.net.nodes.size → j2 < cur.net.nodes.size → ρ.node j1 < h.net.nodes.size → ρ.node j1 = ρ.node j2 → j1 = j2
  lineInj : ∀ l1 l2, l1 < cur.net.lines.size → l2 < cur.net.lines.size → ρ.line l1 < h.net.lines.size → ρ.line l1 = ρ.line l2 → l1 = l2
  pos : ∀ d, d < h.net.nodes.size → ¬ D d → ∃ j, j < cur.net.nodes.size ∧ ρ.node j = d
  orig : ∀ j, j < cur.net.nodes.size → ρ.node j < h.net.nodes.size → ¬ D (ρ.node j)
  dlt : ∀ d, D d → d < h.net.nodes.size
  node : ∀ j, j < cur.net.nodes.size → ρ.node j < h.net.nodes.size →
    (cur.net.node j).kind = (h.net.node (ρ.node j)).kind ∧ cur.names.getD j "" = h.names.getD (ρ.node j) "" ∧
    ∀ k, ((cur.net.node j).inPin k).map ρ.line = (h.net.node (ρ.node j)).inPin k
  outsF : ∀ j k l', j < cur.net.nodes.size → ρ.node j < h.net.nodes.size → (cur.net.node j).isFork = false →
    (cur.net.node j).outs.getD k none = some l' → (h.net.node (ρ.node j)).outs.getD k none = some (ρ.line l')
  outsB : ∀ j k l, j < cur.net.nodes.size → ρ.node j < h.net.nodes.size → (cur.net.node j).isFork = false →
    (h.net.node (ρ.node j)).outs.getD k none = some l →
    (∃ l', (cur.net.node j).outs.getD k none = some l' ∧ ρ.line l' = l) ∨
    ((cur.net.node j).outs.getD k none = none ∧ ¬ ∃ l', l' < cur.net.lines.size ∧ ρ.line l' = l)
  drv : ∀ l', l' < cur.net.lines.size → ρ.line l' < h.net.lines.size → ¬ D (h.net.line (ρ.line l')).driver →
    ρ.node (cur.net.line l').driver = (h.net.line (ρ.line l')).driver
  fw : ∀ (S : Nat → Prop), (∀ s, S s → s < h.net.nodes.size ∧ ¬ D s) → ∀ (pre an' v' : Nat → α),
    ConsOff cur (fun j => S (ρ.node j)) z neg prim an' v' →
    ∃ an v, ConsOff h (fun d => S d ∨ D d) z neg prim an v ∧ (∀ c, D c → CellSem lib h c z neg prim v) ∧
      (∀ l', l' < cur.net.lines.size → ρ.line l' < h.net.lines.size → v (ρ.line l') = v' l') ∧
      (∀ j, j < cur.net.nodes.size → ρ.node j < h.net.nodes.size → an (ρ.node j) = an' j) ∧
      (∀ l, l < h.net.lines.size → (¬ ∃ l', l' < cur.net.lines.size ∧ ρ.line l' = l) → S (h.net.line l).driver → v l = pre l)
  bw : ∀ (S : Nat → Prop), (∀ s, S s → s < h.net.nodes.size ∧ ¬ D s) → ∀ (an v : Nat → α),
    ConsOff h (fun d => S d ∨ D d) z neg prim an v → (∀ c, D c → CellSem lib h c z neg prim v) →
    ∃ an' v', ConsOff cur (fun j => S (ρ.node j)) z neg prim an' v' ∧
      (∀ l', l' < cur.net.lines.size → ρ.line l' < h.net.lines.size → v' l' = v (ρ.line l')) ∧
      (∀ j, j < cur.net.nodes.size → ρ.node j < h.net.nodes.size → an' j = an (ρ.node j))

theorem resRelG_refl {α : Type _} (lib : Lib) (h : NNet) (w : WFm h) (z : α) (neg : α → α) (prim : String → α → α → α → α → α) :
    ResRelG lib h z neg prim h (fun _ => False) Ren.id := by
  refine ⟨w, by simp [Ren.id], fun _ _ _ _ _ e => e, fun _ _ _ _ _ e => e, fun d hd _ => ⟨d, hd, rfl⟩, fun _ _ _ x => x,
    fun _ x => absurd x id, fun j _ _ => ⟨rfl, rfl, fun k => by simp [Ren.id]⟩, fun _ _ _ _ _ _ hp => hp,
    fun _ _ l _ _ _ hp => Or.inl ⟨l, hp, rfl⟩, fun _ _ _ _ => rfl, ?_, ?_⟩
  · intro S _ pre an' v' hc
    exact ⟨an', v', consOff_congr (fun d => by simp [Ren.id]) hc, fun c hc' => absurd hc' id, fun _ _ _ => rfl, fun _ _ _ => rfl,
      fun l hl hn _ => absurd ⟨l, hl, rfl⟩ hn⟩
  · intro S _ an v hc _
    exact ⟨an, v, consOff_congr (fun d => by simp [Ren.id]) hc, fun _ _ _ => rfl, fun _ _ _ => rfl⟩

end KV.Transform
