import KyupyVerif.Model.Sig
/-! Any order of pairwise independent ops gives the same result (signal level). -/
namespace KV.Sig

/-- a fold is invariant under permutation when the steps of distinct list elements commute -/
theorem foldl_perm_comm {α β} (f : β → α → β) {l l' : List α} (hp : l.Perm l')
    (hc : ∀ a ∈ l, ∀ b ∈ l, ∀ s, f (f s a) b = f (f s b) a) (s : β) :
    l.foldl f s = l'.foldl f s := by
  induction hp generalizing s with
  | nil => rfl
  | cons x _ ih =>
    simp only [List.foldl_cons]
    exact ih (fun a ha b hb => hc a (List.mem_cons_of_mem _ ha) b (List.mem_cons_of_mem _ hb)) _
  | swap x y l =>
    simp only [List.foldl_cons]
    rw [hc y (by simp) x (by simp)]
  | trans h1 _ ih1 ih2 =>
    rw [ih1 hc]
    exact ih2 (fun a ha b hb => hc a (h1.mem_iff.mpr ha) b (h1.mem_iff.mpr hb)) _

/-- two ops are independent: different outputs and neither reads the other's output -/
def Indep (a b : Op) : Prop := a.out ≠ b.out ∧ a.out ∉ b.ins ∧ b.out ∉ a.ins

theorem execOpG_comm {α} (sem : Op → List α → α) (a b : Op) (env : Nat → α) (h : Indep a b) :
    execOpG sem (execOpG sem env a) b = execOpG sem (execOpG sem env b) a := by
  obtain ⟨h1, h2, h3⟩ := h
  funext j
  have ea : b.ins.map (upd env a.out (sem a (a.ins.map env))) = b.ins.map env := by
    apply List.map_congr_left; intro x hx; simp [upd]; intro hxa; exact absurd (hxa ▸ hx) h2
  have eb : a.ins.map (upd env b.out (sem b (b.ins.map env))) = a.ins.map env := by
    apply List.map_congr_left; intro x hx; simp [upd]; intro hxb; exact absurd (hxb ▸ hx) h3
  simp only [execOpG, ea, eb, upd]
  by_cases hja : j = a.out <;> by_cases hjb : j = b.out <;> simp_all

/-- **any permutation of a level**: if the ops of a list are pairwise independent (or equal), every order
    yields the same signal values everywhere -/
theorem execG_perm {α} (sem : Op → List α → α) {l l' : List Op} (hp : l.Perm l')
    (hi : ∀ a ∈ l, ∀ b ∈ l, a = b ∨ Indep a b) (env : Nat → α) :
    execG sem l env = execG sem l' env := by
  unfold execG
  apply foldl_perm_comm _ hp
  intro a ha b hb s
  rcases hi a ha b hb with rfl | h
  · rfl
  · exact execOpG_comm sem a b s h

/-- a whole program given as a list of levels: permuting inside every level does not change the result -/
theorem levels_perm {α} (sem : Op → List α → α) (ls ls' : List (List Op))
    (hlen : ls.length = ls'.length)
    (hp : ∀ k (h : k < ls.length), (ls[k]).Perm (ls'[k]'(hlen ▸ h)))
    (hi : ∀ lv ∈ ls, ∀ a ∈ lv, ∀ b ∈ lv, a = b ∨ Indep a b) (env : Nat → α) :
    ls.foldl (fun e lv => execG sem lv e) env = ls'.foldl (fun e lv => execG sem lv e) env := by
  induction ls generalizing ls' env with
  | nil =>
    cases ls' with
    | nil => rfl
    | cons _ _ => simp at hlen
  | cons lv rest ih =>
    cases ls' with
    | nil => simp at hlen
    | cons lv' rest' =>
      simp only [List.foldl_cons]
      have h0 := hp 0 (by simp)
      simp only [List.getElem_cons_zero] at h0
      rw [execG_perm sem h0 (hi lv List.mem_cons_self)]
      apply ih rest' (by simpa using hlen)
      · intro k hk
        have := hp (k + 1) (by simp; omega)
        simpa using this
      · intro l hl; exact hi l (List.mem_cons_of_mem _ hl)

end KV.Sig
