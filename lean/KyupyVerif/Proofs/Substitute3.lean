import KyupyVerif.Proofs.Substitute2
/-! Helper lemmas for C10 (`substitute`), part 3: top-level statements about ports and state elements. -/
namespace KV.Transform
open KV

theorem mem_map_values (map : Array (Option Nat)) (x : Nat) (h : x ∈ map.toList.filterMap id) :
    ∃ k, map.getD k none = some x := by
  rw [List.mem_filterMap] at h
  obtain ⟨o, ho, e⟩ := h
  simp only [id] at e
  subst e
  obtain ⟨k, hk, e⟩ := List.getElem_of_mem ho
  refine ⟨k, ?_⟩
  have hk' : k < map.size := by simpa using hk
  simp only [Array.getD_eq_getD_getElem?, Array.getElem?_eq_getElem hk']
  simpa using e

/-- `node_map`, the circuit before dangling logic is removed, and what the removal keeps -/
theorem substitute_obs (h : NNet) (c : Nat) (m h' : NNet) (li : LI h) (hc : c < h.net.nodes.size)
    (hio : h.net.io.contains c = false) (he : substitute h c m = some h') :
    ∃ sh h5 map dang, implShape m = some sh ∧ substituteCore h c m = some (h5, map, dang) ∧
      h'.ioNames = h.ioNames ∧ LI h' ∧ LI h5 ∧ h5.ioNames = h.ioNames ∧
      h5.kindNames = (phase1 h c m sh.des).1.kindNames ++ addedKN m (h.names.getD c "") sh.des ∧
      (dang = [] → h' = { h5 with net := densify h5.net map }) ∧
      ∀ p, SeqOnly p → (h'.kindNames.filter p).Perm (h5.kindNames.filter p) := by
  unfold substitute at he
  split at he
  · exact absurd he (by simp)
  · rename_i h5 map dang hcore
    have hsh : ∃ sh, implShape m = some sh := by
      cases hs : implShape m with
      | none => simp [substituteCore, hs] at hcore
      | some sh => exact ⟨sh, rfl⟩
    obtain ⟨sh, hs⟩ := hsh
    have p1 : (phase1 h c m sh.des).1.ioNames = h.ioNames ∧ LI (phase1 h c m sh.des).1 ∧
        MapLt (phase1 h c m sh.des).2 (phase1 h c m sh.des).1.net.nodes.size := by
      cases hd : sh.des with
      | none => have := phase1_none_obs h c m li hc hio; exact ⟨this.2.1, this.2.2.1, this.2.2.2⟩
      | some dn => have := phase1_some_obs h c m dn li hc; exact ⟨this.2.1, this.2.2.1, this.2.2.2⟩
    have o := substituteCore_obs h c m sh hs h5 map dang hcore p1.2.1 p1.2.2
    have ho : ∀ x ∈ map.toList.filterMap id, x < h5.net.nodes.size := by
      intro x hx
      obtain ⟨k, hk⟩ := mem_map_values map x hx
      exact o.2.2.2 k x hk
    -- the loop that makes the copied forks dense only re-wires pins
    have od := obs_of_pinsOnly h5 { h5 with net := densify h5.net map } (pinsOnly_densify h5.net map) rfl
    have hod : ∀ x ∈ map.toList.filterMap id, x < ({ h5 with net := densify h5.net map } : NNet).net.nodes.size := by
      intro x hx
      show x < (densify h5.net map).nodes.size
      rw [(pinsOnly_densify h5.net map).1.1]; exact ho x hx
    have r := removeDangling_obs _ { h5 with net := densify h5.net map } _ dang h' (od.2.2 o.2.2.1) hod he
    refine ⟨sh, h5, map, dang, hs, hcore, r.2.1.trans (od.2.1.trans (o.2.1.trans p1.1)), r.1, o.2.2.1, o.2.1.trans p1.1, o.1, ?_, ?_⟩
    · intro hd
      subst hd
      simp only [removeDangling, List.length_nil, Nat.zero_add] at he
      exact (Option.some.inj he).symm
    · intro p hp
      rw [← od.1]; exact r.2.2 p hp

/-! ### nothing dangles when every output pin of the instance is connected -/
def RenSome (ren : Option Nat → Option Nat) : Prop := ∀ x, ∃ y, ren (some x) = some y

theorem connectIns_renSome (m : NNet) (map : Array (Option Nat)) : ∀ (l : List (Nat × Option Nat))
    (st st' : Net × (Option Nat → Option Nat)), connectIns m map l st = some st' → RenSome st.2 → RenSome st'.2
  | [], st, st', h, hr => by cases h; exact hr
  | (inn, o) :: rest, (net, ren), st', h, hr => by
    unfold connectIns at h
    split at h
    · exact connectIns_renSome m map rest _ st' h hr
    · skip
      split at h
      · split at h
        · exact absurd h (by simp)
        · refine connectIns_renSome m map rest _ st' h ?_
          intro x
          obtain ⟨y, hy⟩ := hr x
          have hy' : ren (some x) = some y := hy
          show ∃ z, mvLine _ _ (ren (some x)) = some z
          rw [hy']
          simp only [mvLine]
          split
          · exact ⟨_, rfl⟩
          · exact ⟨_, rfl⟩
      · split at h
        · exact absurd h (by simp)
        · exact connectIns_renSome m map rest _ st' h hr

theorem connectOuts_dang (m : NNet) (map : Array (Option Nat)) : ∀ (l : List (Nat × Option Nat))
    (st st' : Net × List (Option Nat)), connectOuts m map l st = some st' → (∀ x ∈ l, x.2.isSome = true) → st'.2 = st.2
  | [], st, st', h, _ => by cases h; rfl
  | (l, none) :: rest, (net, dang), st', _, hs => by
    have := hs (l, none) (List.mem_cons_self)
    simp at this
  | (l, some ll) :: rest, (net, dang), st', h, hs => by
    unfold connectOuts at h
    skip
    split at h
    · exact absurd h (by simp)
    · have := connectOuts_dang m map rest _ st' h (fun x hx => hs x (List.mem_cons_of_mem _ hx))
      exact this

theorem substituteCore_dang_nil (h : NNet) (c : Nat) (m : NNet) (sh : Shape) (hs : implShape m = some sh)
    (h5 : NNet) (map : Array (Option Nat)) (dang : List (Option Nat)) (he : substituteCore h c m = some (h5, map, dang))
    (hlen : (h.net.node c).outs.length = sh.outLines.length) (hall : (h.net.node c).outs.all (·.isSome) = true) :
    dang = [] := by
  obtain ⟨h2, net4, ren, net5, _, _, _, hci, hco, _⟩ := substituteCore_inv h c m sh hs h5 map dang he
  have hr := connectIns_renSome m map _ _ _ hci (fun x => ⟨x, rfl⟩)
  refine connectOuts_dang m map _ _ _ hco ?_
  intro x hx
  have h2 := (List.of_mem_zip hx).2
  simp only [padTo, hlen, Nat.sub_self, List.replicate_zero, List.append_nil, List.mem_map] at h2
  obtain ⟨o, ho, e⟩ := h2
  have hsome := List.all_eq_true.mp hall o ho
  cases o with
  | none => simp at hsome
  | some y =>
    obtain ⟨z, hz⟩ := hr y
    have hz' : ren (some y) = some z := hz
    rw [← e, hz']; rfl

/-! ### list lemmas for the state-element names -/
theorem filter_set_map {α β} (q : α → Bool) (f : α → β) : ∀ (l : List α) (i : Nat) (y : α) (hi : i < l.length),
    q y = q l[i] → f y = f l[i] → ((l.set i y).filter q).map f = (l.filter q).map f
  | [], i, _, hi, _, _ => by simp at hi
  | a :: l, 0, y, _, hq, hf => by
    simp only [List.getElem_cons_zero] at hq hf
    simp only [List.set_cons_zero, List.filter_cons, hq]
    split <;> simp [hf]
  | a :: l, i + 1, y, hi, hq, hf => by
    simp only [List.getElem_cons_succ] at hq hf
    have hi' : i < l.length := by simpa using hi
    simp only [List.set_cons_succ, List.filter_cons]
    split
    · simp only [List.map_cons]; rw [filter_set_map q f l i y hi' hq hf]
    · exact filter_set_map q f l i y hi' hq hf

end KV.Transform
