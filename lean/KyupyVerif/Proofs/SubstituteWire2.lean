import KyupyVerif.Proofs.SubstituteWire
import KyupyVerif.Proofs.WFr
/-! Helper lemmas for C10 (`substitute`), part 5: frame and wiring assembled for `substituteCore`. -/
namespace KV.Transform
open KV

theorem zip_snd_filterMap (as : List Nat) (bs : List (Option Nat)) (h : bs.length ≤ as.length) :
    (as.zip bs).filterMap (·.2) = bs.filterMap id := by
  have : (as.zip bs).filterMap (·.2) = ((as.zip bs).map Prod.snd).filterMap id := by
    rw [List.filterMap_map]; rfl
  rw [this, List.map_snd_zip h]

theorem padTo_filterMap (l : List (Option Nat)) (n : Nat) : (padTo l n).filterMap id = l.filterMap id := by
  simp [padTo, List.filterMap_append, List.filterMap_replicate]

theorem padTo_length (l : List (Option Nat)) (n : Nat) (h : l.length ≤ n) : (padTo l n).length = n := by
  simp [padTo]; omega

theorem padTo_getElem? (l : List (Option Nat)) (n k x : Nat) (h : l.getD k none = some x) : (padTo l n)[k]? = some (some x) := by
  have hk := getD_some_lt h
  simp only [padTo]
  rw [List.getElem?_append_left hk]
  rw [List.getD_eq_getElem?_getD, List.getElem?_eq_getElem hk] at h
  rw [List.getElem?_eq_getElem hk]
  simpa using h

theorem mem_filterMap_id (l : List (Option Nat)) (x : Nat) : x ∈ l.filterMap id ↔ ∃ k, l.getD k none = some x := by
  rw [List.mem_filterMap]
  constructor
  · rintro ⟨o, ho, e⟩
    simp only [id] at e; subst e
    obtain ⟨k, hk⟩ := List.mem_iff_getElem?.mp ho
    exact ⟨k, by simp [List.getD_eq_getElem?_getD, hk]⟩
  · rintro ⟨k, hk⟩
    have hlt := getD_some_lt hk
    rw [List.getD_eq_getElem?_getD, List.getElem?_eq_getElem hlt] at hk
    exact ⟨some x, by simp at hk; rw [← hk]; exact List.getElem_mem hlt, rfl⟩

/-- pin lists in which no line occurs twice -/
theorem nodup_filterMap_id : ∀ (l : List (Option Nat)),
    (∀ (k1 k2 x : Nat), l[k1]? = some (some x) → l[k2]? = some (some x) → k1 = k2) → (l.filterMap id).Nodup
  | [], _ => by simp
  | a :: l, h => by
    have ih := nodup_filterMap_id l (fun k1 k2 x h1 h2 => by
      have := h (k1 + 1) (k2 + 1) x (by simpa using h1) (by simpa using h2)
      omega)
    cases a with
    | none => simpa [List.filterMap_cons] using ih
    | some x =>
      simp only [List.filterMap_cons, id, List.nodup_cons]
      refine ⟨?_, ih⟩
      intro hx
      rw [List.mem_filterMap] at hx
      obtain ⟨o, ho, e⟩ := hx
      simp only [id] at e; subst e
      obtain ⟨k, hk⟩ := List.mem_iff_getElem?.mp ho
      have := h 0 (k + 1) x (by simp) (by simpa using hk)
      omega

theorem mem_zip_of_getElem? {as : List Nat} {bs : List (Option Nat)} {k a : Nat} {b : Option Nat}
    (h1 : as[k]? = some a) (h2 : bs[k]? = some b) : (a, b) ∈ as.zip bs :=
  List.mem_iff_getElem?.mpr ⟨k, List.getElem?_zip_eq_some.mpr ⟨h1, h2⟩⟩

/-- frame and wiring of the phases of `substituteCore` run with the cell kept as the copy of node `dn` of the implementation
    (`dn` = the designated cell; for an implementation without designated cell the *virtual* run with `dn` = the number of
    nodes of the implementation, which leaves the cell in the circuit as an isolated node) and no connected input ignored -/
theorem substituteCore_wireP (h : NNet) (c : Nat) (m : NNet) (sh : Shape) (w : WFr h)
    (hc : c < h.net.nodes.size) (dn : Nat)
    (hni : NoIgnored m (sh.inPorts.zip (padTo (h.net.node c).ins sh.inPorts.length)))
    (h5 : NNet) (map : Array (Option Nat)) (dang : List (Option Nat))
    (h2 : NNet) (net4 net5 : Net) (ren : Option Nat → Option Nat)
    (hil : (h.net.node c).ins.length ≤ sh.inPorts.length) (hol : (h.net.node c).outs.length ≤ sh.outLines.length)
    (hfold : (List.range m.net.nodes.size).foldlM (addImplNode m (h.names.getD c "") (some dn)) (phase1 h c m (some dn)) = some (h2, map))
    (hci : connectIns m map (sh.inPorts.zip (padTo (h.net.node c).ins sh.inPorts.length)) (phase3 m map h2, id) = some (net4, ren))
    (hco : connectOuts m map (sh.outLines.zip ((padTo (h.net.node c).outs sh.outLines.length).map ren)) (net4, []) = some (net5, dang))
    (e : h5 = { h2 with net := net5 }) :
    Frame h c ((h.net.node c).ins.filterMap id) ((h.net.node c).outs.filterMap id) h5 ∧ MapGe map c h.net.nodes.size ∧
    (∀ k ll, (h.net.node c).ins.getD k none = some ll → ∃ inn r rp, sh.inPorts[k]? = some inn ∧
      inTarget m map inn = some (r, rp) ∧ (h5.net.line ll).reader = r ∧ (h5.net.line ll).rpin = rp) ∧
    (∀ k ll, (h.net.node c).outs.getD k none = some ll → ∃ il d dp, sh.outLines[k]? = some il ∧
      outTarget m map il = some (d, dp) ∧ (h5.net.line ll).driver = d ∧ (h5.net.line ll).dpin = dp) := by
  have f1 := frame_phase1 h c m dn ((h.net.node c).ins.filterMap id) ((h.net.node c).outs.filterMap id)
  have f2 := frame_foldlM m _ (some dn) _ _ _ hfold f1.1 f1.2
  have f3 : FrameA h c ((h.net.node c).ins.filterMap id) ((h.net.node c).outs.filterMap id)
      (phase3 m map h2).nodes (phase3 m map h2).lines := frameA_foldl map f2.2 _ _ f2.1
  -- the connected pins of the instance: distinct lines of the host
  have hI : ∀ x ∈ (h.net.node c).ins.filterMap id, x < h.net.lines.size := by
    intro x hx
    obtain ⟨k, hk⟩ := (mem_filterMap_id _ x).mp hx
    exact (w.fwdIn c hc k x hk).1
  have hO : ∀ x ∈ (h.net.node c).outs.filterMap id, x < h.net.lines.size := by
    intro x hx
    obtain ⟨k, hk⟩ := (mem_filterMap_id _ x).mp hx
    exact (w.fwdOut c hc k x hk).1
  have ndI : ((h.net.node c).ins.filterMap id).Nodup := by
    apply nodup_filterMap_id
    intro k1 k2 x h1 h2
    have e1 := (w.fwdIn c hc k1 x (by simp [List.getD_eq_getElem?_getD, h1])).2.2
    have e2 := (w.fwdIn c hc k2 x (by simp [List.getD_eq_getElem?_getD, h2])).2.2
    rw [← e1, ← e2]
  have ndO : ((h.net.node c).outs.filterMap id).Nodup := by
    apply nodup_filterMap_id
    intro k1 k2 x h1 h2
    have e1 := (w.fwdOut c hc k1 x (by simp [List.getD_eq_getElem?_getD, h1])).2.2
    have e2 := (w.fwdOut c hc k2 x (by simp [List.getD_eq_getElem?_getD, h2])).2.2
    rw [← e1, ← e2]
  have sI : (sh.inPorts.zip (padTo (h.net.node c).ins sh.inPorts.length)).filterMap (·.2) = (h.net.node c).ins.filterMap id := by
    rw [zip_snd_filterMap _ _ (by rw [padTo_length _ _ hil]; exact Nat.le_refl _), padTo_filterMap]
  have wi := connectIns_wire (h := h) (c := c) (I := (h.net.node c).ins.filterMap id) (O := (h.net.node c).outs.filterMap id)
    m map f2.2 _ (phase3 m map h2) (net4, ren) hci hni (by rw [sI]; exact ndI)
    (by rw [sI]; intro x hx; exact ⟨Nat.lt_of_lt_of_le (hI x hx) f3.lsize, hx⟩) f3
  have hren : ren = id := wi.1
  subst hren
  have sO : (sh.outLines.zip ((padTo (h.net.node c).outs sh.outLines.length).map id)).filterMap (·.2) =
      (h.net.node c).outs.filterMap id := by
    rw [List.map_id, zip_snd_filterMap _ _ (by rw [padTo_length _ _ hol]; exact Nat.le_refl _), padTo_filterMap]
  have hsz4 : net4.lines.size = (phase3 m map h2).lines.size := wi.2.1
  have wo := connectOuts_wire (h := h) (c := c) (I := (h.net.node c).ins.filterMap id) (O := (h.net.node c).outs.filterMap id)
    m map f2.2 _ (net4, []) (net5, dang) hco (by rw [sO]; exact ndO)
    (by rw [sO]; intro x hx
        exact ⟨by show x < net4.lines.size; rw [hsz4]; exact Nat.lt_of_lt_of_le (hO x hx) f3.lsize, hx⟩) wi.2.2.1
  have hline : ∀ l, h5.net.line l = lineA net5.lines l := by subst e; intro l; rfl
  refine ⟨by subst e; exact wo.2.1, f2.2, ?_, ?_⟩
  · intro k ll hk
    have hklt : k < sh.inPorts.length := Nat.lt_of_lt_of_le (getD_some_lt hk) hil
    have hmem : (sh.inPorts[k], some ll) ∈ sh.inPorts.zip (padTo (h.net.node c).ins sh.inPorts.length) :=
      mem_zip_of_getElem? (List.getElem?_eq_getElem hklt) (padTo_getElem? _ _ k ll hk)
    obtain ⟨r, rp, ht, h1, h2⟩ := wi.2.2.2.2 _ ll hmem
    have hll : ll < net4.lines.size := by
      rw [hsz4]; exact Nat.lt_of_lt_of_le (w.fwdIn c hc k ll hk).1 f3.lsize
    have hkeep := wo.2.2.1 ll hll
    refine ⟨sh.inPorts[k], r, rp, List.getElem?_eq_getElem hklt, ht, ?_, ?_⟩
    · rw [hline, hkeep.1]; exact h1
    · rw [hline, hkeep.2]; exact h2
  · intro k ll hk
    have hklt : k < sh.outLines.length := Nat.lt_of_lt_of_le (getD_some_lt hk) hol
    have hmem : (sh.outLines[k], some ll) ∈ sh.outLines.zip ((padTo (h.net.node c).outs sh.outLines.length).map id) := by
      rw [List.map_id]
      exact mem_zip_of_getElem? (List.getElem?_eq_getElem hklt) (padTo_getElem? _ _ k ll hk)
    obtain ⟨d, dp, ht, h1, h2⟩ := wo.2.2.2.2 _ ll hmem
    exact ⟨sh.outLines[k], d, dp, List.getElem?_eq_getElem hklt, ht, by rw [hline]; exact h1, by rw [hline]; exact h2⟩

/-- frame and wiring of `substituteCore` when the designated cell exists and no connected input is ignored -/
theorem substituteCore_wire (h : NNet) (c : Nat) (m : NNet) (sh : Shape) (hs : implShape m = some sh) (w : WFr h)
    (hc : c < h.net.nodes.size) (dn : Nat) (hd : sh.des = some dn)
    (hni : NoIgnored m (sh.inPorts.zip (padTo (h.net.node c).ins sh.inPorts.length)))
    (h5 : NNet) (map : Array (Option Nat)) (dang : List (Option Nat)) (he : substituteCore h c m = some (h5, map, dang)) :
    Frame h c ((h.net.node c).ins.filterMap id) ((h.net.node c).outs.filterMap id) h5 ∧ MapGe map c h.net.nodes.size ∧
    (∀ k ll, (h.net.node c).ins.getD k none = some ll → ∃ inn r rp, sh.inPorts[k]? = some inn ∧
      inTarget m map inn = some (r, rp) ∧ (h5.net.line ll).reader = r ∧ (h5.net.line ll).rpin = rp) ∧
    (∀ k ll, (h.net.node c).outs.getD k none = some ll → ∃ il d dp, sh.outLines[k]? = some il ∧
      outTarget m map il = some (d, dp) ∧ (h5.net.line ll).driver = d ∧ (h5.net.line ll).dpin = dp) := by
  obtain ⟨h2, net4, ren, net5, hil, hol, hfold, hci, hco, e⟩ := substituteCore_inv h c m sh hs h5 map dang he
  rw [hd] at hfold
  exact substituteCore_wireP h c m sh w hc dn hni h5 map dang h2 net4 net5 ren hil hol hfold hci hco e

end KV.Transform
