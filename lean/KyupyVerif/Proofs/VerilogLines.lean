import KyupyVerif.Proofs.VerilogFlat
/-! Which flat lines a module of the fragment has (`mem_vFlat`), one line per reader end point (`vFlat_readers_nodup`), who reads
what (`reader_cell_inst`, `driven_has_line`, `inSig_iff`). -/
namespace KV.Netlist
open KV

/-! ## lists of end points -/

def epFork : Ep → Option String
  | .fork s => some s
  | .cell _ _ => none
def epCell : Ep → Option (String × Nat)
  | .cell n p => some (n, p)
  | .fork _ => none

theorem nodup_ep (l : List Ep) (h1 : (l.filterMap epFork).Nodup) (h2 : (l.filterMap epCell).Nodup) : l.Nodup := by
  induction l with
  | nil => exact List.nodup_nil
  | cons e r ih =>
    cases e with
    | fork s =>
      simp only [List.filterMap_cons, epFork, epCell, List.nodup_cons] at h1 h2
      refine List.nodup_cons.mpr ⟨fun hm => h1.1 (List.mem_filterMap.mpr ⟨_, hm, rfl⟩), ih h1.2 h2⟩
    | cell n p =>
      simp only [List.filterMap_cons, epFork, epCell, List.nodup_cons] at h1 h2
      refine List.nodup_cons.mpr ⟨fun hm => h2.1 (List.mem_filterMap.mpr ⟨_, hm, rfl⟩), ih h1 h2.2⟩

/-! ## port bit names -/

theorem mem_portBitNames_of_input (ds : List Decl) (n : String) (h : n ∈ inputNames ds) : n ∈ portBitNames ds := by
  unfold inputNames at h
  unfold portBitNames
  obtain ⟨d, hd, hn⟩ := List.mem_flatMap.mp h
  rw [List.mem_filter] at hd
  have hk : d.kind = .input := by simpa using hd.2
  exact List.mem_flatMap.mpr ⟨d, List.mem_filter.mpr ⟨hd.1, by simp [hk]⟩, hn⟩

theorem mem_portBitNames_of_output (ds : List Decl) (n : String) (h : n ∈ outputNames ds) : n ∈ portBitNames ds := by
  unfold outputNames at h
  unfold portBitNames
  obtain ⟨d, hd, hn⟩ := List.mem_flatMap.mp h
  rw [List.mem_filter] at hd
  have hk : d.kind = .output := by simpa using hd.2
  exact List.mem_flatMap.mpr ⟨d, List.mem_filter.mpr ⟨hd.1, by simp [hk]⟩, hn⟩

theorem outputNames_nodup (ds : List Decl) (h : (portBitNames ds).Nodup) : (outputNames ds).Nodup := by
  induction ds with
  | nil => exact List.nodup_nil
  | cons d r ih =>
    unfold portBitNames at h
    unfold outputNames
    simp only [List.filter_cons] at h ⊢
    cases hk : d.kind with
    | wire =>
      simp only [hk] at h ⊢
      exact ih h
    | input =>
      simp only [hk] at h ⊢
      have h' : (d.names ++ portBitNames r).Nodup := h
      exact ih (List.nodup_append.mp h').2.1
    | output =>
      simp only [hk] at h ⊢
      have h' : (d.names ++ portBitNames r).Nodup := h
      obtain ⟨h1, h2, h3⟩ := List.nodup_append.mp h'
      show (d.names ++ outputNames r).Nodup
      exact List.nodup_append.mpr ⟨h1, ih h2, fun a ha b hb => h3 a ha b (mem_portBitNames_of_output r b hb)⟩

section
variable {cfg : Cfg} {tl : TL} {ports : List String} {stmts : List Stmt}

/-! ## membership -/

/-- the lines of one input-pin connection, spelled out -/
theorem mem_connLines (bf : Bool) (k : Nat) (i : VInst) (c : String × Nat × String) (t : VLine) :
    t ∈ connLines bf k (i, c) ↔
      (isConstLit c.2.2 = true ∧ t = ⟨.cell (constName c.2.2 k) 0, .fork (constName c.2.2 k), c.2.2⟩) ∨
      (bf = true ∧ (t = ⟨.fork (srcFork k c), .fork (branchName (srcFork k c) i.name c.1), c.2.2⟩ ∨
                    t = ⟨.fork (branchName (srcFork k c) i.name c.1), .cell i.name c.2.1, c.2.2⟩)) ∨
      (bf = false ∧ t = ⟨.fork (srcFork k c), .cell i.name c.2.1, c.2.2⟩) := by
  unfold connLines
  cases bf <;> by_cases hc : isConstLit c.2.2 = true <;> simp [hc]

theorem mem_connWalk {β} (f : Nat → VInst × (String × Nat × String) → List β) (k0 : Nat) (insts : List VInst) (t : β)
    (h : t ∈ connWalk tl f k0 insts) : ∃ k, ∃ i ∈ insts, ∃ c ∈ inConn tl i, t ∈ f k (i, c) := by
  unfold connWalk at h
  obtain ⟨k1, i, hi, h1⟩ := mem_walk_exists _ _ _ _ _ h
  obtain ⟨k2, c, hc, h2⟩ := mem_walk_exists _ _ _ _ _ h1
  exact ⟨k2, i, hi, c, hc, h2⟩

theorem connWalk_of_mem {β} (f : Nat → VInst × (String × Nat × String) → List β) (k0 : Nat) (insts : List VInst) (i : VInst)
    (hi : i ∈ insts) (c : String × Nat × String) (hc : c ∈ inConn tl i) : ∃ k, ∀ t ∈ f k (i, c), t ∈ connWalk tl f k0 insts := by
  unfold connWalk
  obtain ⟨k1, h1⟩ := walk_of_mem (fun k i => (inConn tl i).foldl (fun k c => nextK k c.2.2) k)
    (fun k i => walk (fun k c => nextK k c.2.2) (fun k c => f k (i, c)) k (inConn tl i)) k0 insts i hi
  obtain ⟨k2, h2⟩ := walk_of_mem (fun k c => nextK k c.2.2) (fun k c => f k (i, c)) k1 (inConn tl i) c hc
  exact ⟨k2, fun t ht => h1 t (h2 t ht)⟩

theorem mem_vFlat (ds : List Decl) (t : VLine) (h : t ∈ vFlat cfg tl ds stmts) :
    (∃ i ∈ vInsts stmts, ∃ o ∈ outConn tl ds i, t = ⟨.cell i.name o.1, .fork o.2, o.2⟩) ∨
    (∃ n ∈ inputNames ds, t = ⟨.cell n 0, .fork n, n⟩) ∨
    (∃ k, ∃ ts ∈ assignPairs ds stmts, t ∈ pairLines k ts) ∨
    (∃ k, ∃ i ∈ vInsts stmts, ∃ c ∈ inConn tl i, t ∈ connLines cfg.bf k (i, c)) ∨
    (∃ n ∈ outputNames ds, t = ⟨.fork n, .cell n 0, n⟩) := by
  unfold vFlat at h
  simp only [List.mem_append, List.mem_flatMap, List.mem_map] at h
  rcases h with (((⟨i, hi, o, ho, rfl⟩ | ⟨n, hn, rfl⟩) | hp) | hc) | ⟨n, hn, rfl⟩
  · exact Or.inl ⟨i, hi, o, ho, rfl⟩
  · exact Or.inr (Or.inl ⟨n, hn, rfl⟩)
  · obtain ⟨k, ts, hts, ht⟩ := mem_walk_exists _ _ _ _ _ hp
    exact Or.inr (Or.inr (Or.inl ⟨k, ts, hts, ht⟩))
  · exact Or.inr (Or.inr (Or.inr (Or.inl (mem_connWalk _ _ _ _ hc))))
  · exact Or.inr (Or.inr (Or.inr (Or.inr ⟨n, hn, rfl⟩)))

theorem vFlat_inst_out (ds : List Decl) (i : VInst) (hi : i ∈ vInsts stmts) (o : Nat × String) (ho : o ∈ outConn tl ds i) :
    (⟨.cell i.name o.1, .fork o.2, o.2⟩ : VLine) ∈ vFlat cfg tl ds stmts := by
  unfold vFlat
  simp only [List.mem_append, List.mem_flatMap, List.mem_map]
  exact Or.inl (Or.inl (Or.inl (Or.inl ⟨i, hi, o, ho, rfl⟩)))

theorem vFlat_input (ds : List Decl) (n : String) (hn : n ∈ inputNames ds) : (⟨.cell n 0, .fork n, n⟩ : VLine) ∈ vFlat cfg tl ds stmts := by
  unfold vFlat
  simp only [List.mem_append, List.mem_flatMap, List.mem_map]
  exact Or.inl (Or.inl (Or.inl (Or.inr ⟨n, hn, rfl⟩)))

theorem vFlat_output (ds : List Decl) (n : String) (hn : n ∈ outputNames ds) : (⟨.fork n, .cell n 0, n⟩ : VLine) ∈ vFlat cfg tl ds stmts := by
  unfold vFlat
  simp only [List.mem_append, List.mem_flatMap, List.mem_map]
  exact Or.inr ⟨n, hn, rfl⟩

theorem vFlat_pair (ds : List Decl) (ts : String × String) (hts : ts ∈ assignPairs ds stmts) :
    ∃ k, ∀ t ∈ pairLines k ts, t ∈ vFlat cfg tl ds stmts := by
  obtain ⟨k, hk⟩ := walk_of_mem (fun k (ts : String × String) => nextK k ts.2) pairLines 0 (assignPairs ds stmts) ts hts
  refine ⟨k, fun t ht => ?_⟩
  unfold vFlat
  simp only [List.mem_append]
  exact Or.inl (Or.inl (Or.inr (hk t ht)))

theorem vFlat_conn (ds : List Decl) (i : VInst) (hi : i ∈ vInsts stmts) (c : String × Nat × String) (hc : c ∈ inConn tl i) :
    ∃ k, ∀ t ∈ connLines cfg.bf k (i, c), t ∈ vFlat cfg tl ds stmts := by
  obtain ⟨k, hk⟩ := connWalk_of_mem (tl := tl) (connLines cfg.bf) ((assignPairs ds stmts).foldl (fun k ts => nextK k ts.2) 0) (vInsts stmts) i hi c hc
  refine ⟨k, fun t ht => ?_⟩
  unfold vFlat
  simp only [List.mem_append]
  exact Or.inl (Or.inr (hk t ht))

theorem mem_drivenSigs (ds : List Decl) (s : String) : s ∈ drivenSigs tl ds stmts ↔
    (∃ i ∈ vInsts stmts, ∃ o ∈ outConn tl ds i, o.2 = s) ∨ s ∈ inputNames ds ∨ ∃ ts ∈ assignPairs ds stmts, ts.1 = s := by
  unfold drivenSigs
  simp only [List.mem_append, List.mem_flatMap, List.mem_map, or_assoc]

/-- every driven signal has a line into its fork -/
theorem driven_has_line (ds : List Decl) (s : String) (hs : s ∈ drivenSigs tl ds stmts) :
    ∃ t ∈ vFlat cfg tl ds stmts, t.r = .fork s := by
  rcases (mem_drivenSigs ds s).mp hs with ⟨i, hi, o, ho, rfl⟩ | hn | ⟨ts, hts, rfl⟩
  · exact ⟨_, vFlat_inst_out ds i hi o ho, rfl⟩
  · exact ⟨_, vFlat_input ds s hn, rfl⟩
  · obtain ⟨k, hk⟩ := vFlat_pair (cfg := cfg) (tl := tl) ds ts hts
    unfold pairLines at hk
    by_cases hc : isConstLit ts.2 = true
    · simp only [hc, if_true, List.mem_singleton, forall_eq] at hk
      exact ⟨_, hk, rfl⟩
    · simp only [hc, Bool.false_eq_true, if_false, List.mem_singleton, forall_eq] at hk
      exact ⟨_, hk, rfl⟩

/-! ## one line per reader end point -/

theorem vFlat_readers_nodup (hok : VOK cfg tl ports stmts) :
    ((vFlat cfg tl (sigDecls stmts) stmts).map (·.r)).Nodup := hok.readers

theorem vFlat_line_eq (hok : VOK cfg tl ports stmts) (t t' : VLine) (ht : t ∈ vFlat cfg tl (sigDecls stmts) stmts)
    (ht' : t' ∈ vFlat cfg tl (sigDecls stmts) stmts) (h : t.r = t'.r) : t = t' :=
  nodup_map_inj (·.r) _ (vFlat_readers_nodup hok) t ht t' ht' h

/-! ## instances -/

theorem inst_eq (hok : VOK cfg tl ports stmts) {i j : VInst} (hi : i ∈ vInsts stmts) (hj : j ∈ vInsts stmts) (h : i.name = j.name) :
    i = j :=
  nodup_map_inj (·.name) _ (List.nodup_append.mp (List.nodup_append.mp hok.cells).1).1 i hi j hj h

theorem inst_not_port (hok : VOK cfg tl ports stmts) {i : VInst} (hi : i ∈ vInsts stmts) (n : String)
    (hn : n ∈ portBitNames (sigDecls stmts)) : i.name ≠ n :=
  (List.nodup_append.mp (List.nodup_append.mp hok.cells).1).2.2 i.name (List.mem_map.mpr ⟨i, hi, rfl⟩) n hn

/-- the signal on input pin index `k` -/
theorem inSig_iff (hok : VOK cfg tl ports stmts) (i : VInst) (hi : i ∈ vInsts stmts) (k : Nat) (s : String) :
    inSig tl i k = some s ↔ ∃ c ∈ inConn tl i, c.2.1 = k ∧ c.2.2 = s := by
  unfold inSig
  constructor
  · intro h
    cases hf : (inConn tl i).find? (fun c => c.2.1 == k) with
    | none => rw [hf] at h; cases h
    | some c =>
      rw [hf] at h
      simp only [Option.map_some, Option.some.injEq] at h
      exact ⟨c, List.mem_of_find?_eq_some hf, by simpa using List.find?_some hf, h⟩
  · rintro ⟨c, hc, hk, hs⟩
    cases hf : (inConn tl i).find? (fun c => c.2.1 == k) with
    | none =>
      rw [List.find?_eq_none] at hf
      have := hf c hc
      simp [hk] at this
    | some c' =>
      have h1 := List.mem_of_find?_eq_some hf
      have h2 : c'.2.1 = k := by simpa using List.find?_some hf
      have := nodup_map_inj (·.2.1) _ (hok.inIdx i hi) c' h1 c hc (by rw [h2, hk])
      rw [this]
      simp [hs]

/-- a line into pin `k` of an instance cell carries the signal (or constant) connected to that pin -/
theorem reader_cell_inst (hok : VOK cfg tl ports stmts) (i : VInst) (hi : i ∈ vInsts stmts) (k : Nat) (t : VLine)
    (ht : t ∈ vFlat cfg tl (sigDecls stmts) stmts) (hr : t.r = .cell i.name k) : inSig tl i k = some t.sig := by
  rcases mem_vFlat _ t ht with ⟨_, _, _, _, rfl⟩ | ⟨_, _, rfl⟩ | ⟨kk, ts, _, htp⟩ | ⟨kk, j, hj, c, hc, htc⟩ | ⟨n, hn, rfl⟩
  · cases hr
  · cases hr
  · unfold pairLines at htp
    split at htp <;> (simp only [List.mem_singleton] at htp; subst htp; cases hr)
  · rcases (mem_connLines cfg.bf kk j c t).mp htc with ⟨_, rfl⟩ | ⟨_, rfl | rfl⟩ | ⟨_, rfl⟩
    · cases hr
    · cases hr
    · simp only [Ep.cell.injEq] at hr
      have := inst_eq hok hj hi hr.1
      subst this
      exact (inSig_iff hok j hi k c.2.2).mpr ⟨c, hc, hr.2, rfl⟩
    · simp only [Ep.cell.injEq] at hr
      have := inst_eq hok hj hi hr.1
      subst this
      exact (inSig_iff hok j hi k c.2.2).mpr ⟨c, hc, hr.2, rfl⟩
  · simp only [Ep.cell.injEq] at hr
    exact absurd hr.1.symm (inst_not_port hok hi n (mem_portBitNames_of_output _ n hn))

/-- a connected input pin has its line -/
theorem inst_pin_line (i : VInst) (hi : i ∈ vInsts stmts) (ds : List Decl) (c : String × Nat × String) (hc : c ∈ inConn tl i) :
    ∃ t ∈ vFlat cfg tl ds stmts, t.r = .cell i.name c.2.1 ∧ t.sig = c.2.2 := by
  obtain ⟨k, hk⟩ := vFlat_conn (cfg := cfg) ds i hi c hc
  cases hb : cfg.bf
  · refine ⟨⟨.fork (srcFork k c), .cell i.name c.2.1, c.2.2⟩, hk _ ?_, rfl, rfl⟩
    rw [mem_connLines]
    exact Or.inr (Or.inr ⟨hb, rfl⟩)
  · refine ⟨⟨.fork (branchName (srcFork k c) i.name c.1), .cell i.name c.2.1, c.2.2⟩, hk _ ?_, rfl, rfl⟩
    rw [mem_connLines]
    exact Or.inr (Or.inl ⟨hb, Or.inr rfl⟩)

end
end KV.Netlist
