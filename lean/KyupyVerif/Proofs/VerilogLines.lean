import KyupyVerif.Proofs.VerilogFlat
/-! Which flat lines a module of the fragment has (`mem_vFlat`), one line per reader end point (`vFlat_readers_nodup`), who reads
what (`reader_cell_inst`, `driven_has_line`, `inSig_iff`). -/
namespace KV.Netlist
open KV

/-! ## lists of end points -/

def epFork : Ep → Option String
  | .fork s => some s
  | .cell _ _ => none
def epCell : Ep → Option (String × Nat)
  | .cell n p => some (n, p)
  | .fork _ => none

theorem nodup_ep (l : List Ep) (h1 : (l.filterMap epFork).Nodup) (h2 : (l.filterMap epCell).Nodup) : l.Nodup := by
  induction l with
  | nil => exact List.nodup_nil
  | cons e r ih =>
    cases e with
    | fork s =>
      simp only [List.filterMap_cons, epFork, epCell, List.nodup_cons] at h1 h2
      refine List.nodup_cons.mpr ⟨fun hm => h1.1 (List.mem_filterMap.mpr ⟨_, hm, rfl⟩), ih h1.2 h2⟩
    | cell n p =>
      simp only [List.filterMap_cons, epFork, epCell, List.nodup_cons] at h1 h2
      refine List.nodup_cons.mpr ⟨fun hm => h2.1 (List.mem_filterMap.mpr ⟨_, hm, rfl⟩), ih h1 h2.2⟩

theorem nodup_map_of_imp {β γ δ} (f : β → γ) (g : β → δ) (hfg : ∀ x y, g x = g y → f x = f y) :
    ∀ (l : List β), (l.map f).Nodup → (l.map g).Nodup
  | [], _ => List.nodup_nil
  | a :: r, h => by
    simp only [List.map_cons, List.nodup_cons] at h ⊢
    refine ⟨?_, nodup_map_of_imp f g hfg r h.2⟩
    intro hm
    obtain ⟨y, hy, hgy⟩ := List.mem_map.mp hm
    exact h.1 (List.mem_map.mpr ⟨y, hy, hfg y a hgy⟩)

/-! ## port bit names -/

theorem mem_portBitNames_of_input (ds : List Decl) (n : String) (h : n ∈ inputNames ds) : n ∈ portBitNames ds := by
  unfold inputNames at h
  unfold portBitNames
  obtain ⟨d, hd, hn⟩ := List.mem_flatMap.mp h
  rw [List.mem_filter] at hd
  have hk : d.kind = .input := by simpa using hd.2
  exact List.mem_flatMap.mpr ⟨d, List.mem_filter.mpr ⟨hd.1, by simp [hk]⟩, hn⟩

theorem mem_portBitNames_of_output (ds : List Decl) (n : String) (h : n ∈ outputNames ds) : n ∈ portBitNames ds := by
  unfold outputNames at h
  unfold portBitNames
  obtain ⟨d, hd, hn⟩ := List.mem_flatMap.mp h
  rw [List.mem_filter] at hd
  have hk : d.kind = .output := by simpa using hd.2
  exact List.mem_flatMap.mpr ⟨d, List.mem_filter.mpr ⟨hd.1, by simp [hk]⟩, hn⟩

theorem outputNames_nodup (ds : List Decl) (h : (portBitNames ds).Nodup) : (outputNames ds).Nodup := by
  induction ds with
  | nil => exact List.nodup_nil
  | cons d r ih =>
    unfold portBitNames at h
    unfold outputNames
    simp only [List.filter_cons] at h ⊢
    cases hk : d.kind with
    | wire =>
      simp only [hk] at h ⊢
      exact ih h
    | input =>
      simp only [hk] at h ⊢
      have h' : (d.names ++ portBitNames r).Nodup := h
      exact ih (List.nodup_append.mp h').2.1
    | output =>
      simp only [hk] at h ⊢
      have h' : (d.names ++ portBitNames r).Nodup := h
      obtain ⟨h1, h2, h3⟩ := List.nodup_append.mp h'
      show (d.names ++ outputNames r).Nodup
      exact List.nodup_append.mpr ⟨h1, ih h2, fun a ha b hb => h3 a ha b (mem_portBitNames_of_output r b hb)⟩

section
variable {cfg : Cfg} {tl : TL} {ports : List String} {stmts : List Stmt}

/-! ## membership -/

theorem mem_vFlat (ds : List Decl) (t : VLine) : t ∈ vFlat cfg tl ds stmts ↔
    (∃ i ∈ vInsts stmts, ∃ o ∈ outConn tl ds i, t = ⟨.cell i.name o.1, .fork o.2, o.2⟩) ∨
    (∃ n ∈ inputNames ds, t = ⟨.cell n 0, .fork n, n⟩) ∨
    (∃ i ∈ vInsts stmts, ∃ c ∈ inConn tl i, t ∈ readerLines cfg.bf i c) ∨
    (∃ n ∈ outputNames ds, t = ⟨.fork n, .cell n 0, n⟩) := by
  unfold vFlat
  simp only [List.mem_append, List.mem_flatMap, List.mem_map]
  constructor
  · rintro (((⟨i, hi, o, ho, rfl⟩ | ⟨n, hn, rfl⟩) | ⟨i, hi, c, hc, ht⟩) | ⟨n, hn, rfl⟩)
    · exact Or.inl ⟨i, hi, o, ho, rfl⟩
    · exact Or.inr (Or.inl ⟨n, hn, rfl⟩)
    · exact Or.inr (Or.inr (Or.inl ⟨i, hi, c, hc, ht⟩))
    · exact Or.inr (Or.inr (Or.inr ⟨n, hn, rfl⟩))
  · rintro (⟨i, hi, o, ho, rfl⟩ | ⟨n, hn, rfl⟩ | ⟨i, hi, c, hc, ht⟩ | ⟨n, hn, rfl⟩)
    · exact Or.inl (Or.inl (Or.inl ⟨i, hi, o, ho, rfl⟩))
    · exact Or.inl (Or.inl (Or.inr ⟨n, hn, rfl⟩))
    · exact Or.inl (Or.inr ⟨i, hi, c, hc, ht⟩)
    · exact Or.inr ⟨n, hn, rfl⟩

theorem mem_drivenSigs (ds : List Decl) (s : String) : s ∈ drivenSigs tl ds stmts ↔
    (∃ i ∈ vInsts stmts, ∃ o ∈ outConn tl ds i, o.2 = s) ∨ s ∈ inputNames ds := by
  unfold drivenSigs
  simp only [List.mem_append, List.mem_flatMap, List.mem_map]

/-- every driven signal has a line into its fork, carrying it -/
theorem driven_has_line (ds : List Decl) (s : String) (hs : s ∈ drivenSigs tl ds stmts) :
    ∃ t ∈ vFlat cfg tl ds stmts, t.r = .fork s ∧ t.sig = s := by
  rcases (mem_drivenSigs ds s).mp hs with ⟨i, hi, o, ho, rfl⟩ | hn
  · exact ⟨_, (mem_vFlat ds _).mpr (Or.inl ⟨i, hi, o, ho, rfl⟩), rfl, rfl⟩
  · exact ⟨_, (mem_vFlat ds _).mpr (Or.inr (Or.inl ⟨s, hn, rfl⟩)), rfl, rfl⟩

/-! ## one line per reader end point -/

theorem fm_map {β γ} (l : List β) (f : β → VLine) (g : Ep → Option γ) (h : β → Option γ) (hh : ∀ x, g (f x).r = h x) :
    ((l.map f).map (·.r)).filterMap g = l.filterMap h := by
  induction l with
  | nil => rfl
  | cons a r ih => simp only [List.map_cons, List.filterMap_cons, hh a, ih]

theorem fm_flatMap {β γ} (l : List β) (f : β → List VLine) (g : Ep → Option γ) :
    ((l.flatMap f).map (·.r)).filterMap g = l.flatMap fun x => ((f x).map (·.r)).filterMap g := by
  induction l with
  | nil => rfl
  | cons a r ih => simp only [List.flatMap_cons, List.map_append, List.filterMap_append, ih]

theorem filterMap_some_map {β γ} (l : List β) (f : β → γ) : l.filterMap (fun x => some (f x)) = l.map f := by
  induction l with
  | nil => rfl
  | cons a r ih => simp only [List.filterMap_cons, List.map_cons, ih]

theorem filterMap_none' {β γ} (l : List β) : l.filterMap (fun _ => (none : Option γ)) = [] := by
  induction l with
  | nil => rfl
  | cons a r ih => simp only [List.filterMap_cons, ih]

theorem flatMap_nil'' {β γ} (l : List β) : l.flatMap (fun _ => ([] : List γ)) = [] := by
  induction l with
  | nil => rfl
  | cons a r ih => simp only [List.flatMap_cons, ih, List.append_nil]

theorem readers_forks (ds : List Decl) :
    ((vFlat cfg tl ds stmts).map (·.r)).filterMap epFork = drivenSigs tl ds stmts ++ if cfg.bf then branchNames tl stmts else [] := by
  unfold vFlat drivenSigs
  rw [List.map_append, List.map_append, List.map_append, List.filterMap_append, List.filterMap_append, List.filterMap_append]
  have p1 : (((vInsts stmts).flatMap fun i => (outConn tl ds i).map fun o => (⟨.cell i.name o.1, .fork o.2, o.2⟩ : VLine)).map (·.r)).filterMap
      epFork = (vInsts stmts).flatMap fun i => (outConn tl ds i).map (·.2) := by
    rw [fm_flatMap]
    congr 1
    funext i
    rw [fm_map _ _ epFork (fun o => some o.2) (fun _ => rfl), filterMap_some_map]
  have p2 : (((inputNames ds).map fun n => (⟨.cell n 0, .fork n, n⟩ : VLine)).map (·.r)).filterMap epFork = inputNames ds := by
    rw [fm_map _ _ epFork (fun n => some n) (fun _ => rfl), filterMap_some_map, List.map_id']
  have p3 : (((vInsts stmts).flatMap fun i => (inConn tl i).flatMap (readerLines cfg.bf i)).map (·.r)).filterMap epFork =
      if cfg.bf then branchNames tl stmts else [] := by
    rw [fm_flatMap]
    unfold branchNames
    cases hb : cfg.bf
    · simp only [Bool.false_eq_true, if_false]
      have : (fun i : VInst => (((inConn tl i).flatMap (readerLines false i)).map (·.r)).filterMap epFork) = fun _ => [] := by
        funext i
        rw [fm_flatMap]
        exact flatMap_nil'' _
      rw [this, flatMap_nil'']
    · simp only [if_true]
      congr 1
      funext i
      rw [fm_flatMap]
      induction inConn tl i with
      | nil => rfl
      | cons c r ih => simp only [List.flatMap_cons, List.map_cons, ih]; rfl
  have p4 : (((outputNames ds).map fun n => (⟨.fork n, .cell n 0, n⟩ : VLine)).map (·.r)).filterMap epFork = [] := by
    rw [fm_map _ _ epFork (fun _ => none) (fun _ => rfl), filterMap_none']
  rw [p1, p2, p3, p4, List.append_nil]

theorem readers_cells (ds : List Decl) :
    ((vFlat cfg tl ds stmts).map (·.r)).filterMap epCell =
      ((vInsts stmts).flatMap fun i => (inConn tl i).map fun c => (i.name, c.2.1)) ++ (outputNames ds).map fun n => (n, 0) := by
  unfold vFlat
  rw [List.map_append, List.map_append, List.map_append, List.filterMap_append, List.filterMap_append, List.filterMap_append]
  have p1 : (((vInsts stmts).flatMap fun i => (outConn tl ds i).map fun o => (⟨.cell i.name o.1, .fork o.2, o.2⟩ : VLine)).map (·.r)).filterMap
      epCell = [] := by
    rw [fm_flatMap]
    have : (fun i : VInst => (((outConn tl ds i).map fun o => (⟨.cell i.name o.1, .fork o.2, o.2⟩ : VLine)).map (·.r)).filterMap epCell) =
        fun _ => [] := by
      funext i
      rw [fm_map _ _ epCell (fun _ => none) (fun _ => rfl), filterMap_none']
    rw [this, flatMap_nil'']
  have p2 : (((inputNames ds).map fun n => (⟨.cell n 0, .fork n, n⟩ : VLine)).map (·.r)).filterMap epCell = [] := by
    rw [fm_map _ _ epCell (fun _ => none) (fun _ => rfl), filterMap_none']
  have p3 : (((vInsts stmts).flatMap fun i => (inConn tl i).flatMap (readerLines cfg.bf i)).map (·.r)).filterMap epCell =
      (vInsts stmts).flatMap fun i => (inConn tl i).map fun c => (i.name, c.2.1) := by
    rw [fm_flatMap]
    congr 1
    funext i
    rw [fm_flatMap]
    induction inConn tl i with
    | nil => rfl
    | cons c r ih =>
      simp only [List.flatMap_cons, List.map_cons, ih]
      cases cfg.bf <;> rfl
  have p4 : (((outputNames ds).map fun n => (⟨.fork n, .cell n 0, n⟩ : VLine)).map (·.r)).filterMap epCell =
      (outputNames ds).map fun n => (n, 0) := by
    rw [fm_map _ _ epCell (fun n => some (n, 0)) (fun _ => rfl), filterMap_some_map]
  rw [p1, p2, p3, p4, List.nil_append, List.nil_append]

theorem inst_pins_nodup (l : List VInst) (hn : (l.map (·.name)).Nodup) (hi : ∀ i ∈ l, ((inConn tl i).map (·.2.1)).Nodup) :
    (l.flatMap fun i => (inConn tl i).map fun c => (i.name, c.2.1)).Nodup := by
  induction l with
  | nil => exact List.nodup_nil
  | cons i r ih =>
    simp only [List.map_cons, List.nodup_cons] at hn
    simp only [List.flatMap_cons]
    rw [List.nodup_append]
    refine ⟨?_, ih hn.2 (fun j hj => hi j (List.mem_cons_of_mem _ hj)), ?_⟩
    · exact nodup_map_of_imp (fun c : String × Nat × String => c.2.1) (fun c => (i.name, c.2.1)) (fun x y h => by simpa using h) _
        (hi i List.mem_cons_self)
    · intro a ha b hb hab
      subst hab
      obtain ⟨c, _, rfl⟩ := List.mem_map.mp ha
      obtain ⟨j, hj, hb'⟩ := List.mem_flatMap.mp hb
      obtain ⟨c', _, hc'⟩ := List.mem_map.mp hb'
      simp only [Prod.mk.injEq] at hc'
      exact hn.1 (List.mem_map.mpr ⟨j, hj, hc'.1⟩)

theorem vFlat_readers_nodup (hok : VOK cfg tl ports stmts) :
    ((vFlat cfg tl (sigDecls stmts) stmts).map (·.r)).Nodup := by
  apply nodup_ep
  · rw [readers_forks]; exact hok.forks
  · rw [readers_cells]
    obtain ⟨hc1, hc2, hc3⟩ := List.nodup_append.mp hok.cells
    rw [List.nodup_append]
    refine ⟨inst_pins_nodup _ hc1 hok.inIdx, ?_, ?_⟩
    · exact nodup_map_of_imp id (fun n : String => (n, 0)) (fun x y h => by simpa using h) _
        (by simpa using outputNames_nodup _ hc2)
    · intro a ha b hb hab
      subst hab
      obtain ⟨i, hi, ha'⟩ := List.mem_flatMap.mp ha
      obtain ⟨c, _, rfl⟩ := List.mem_map.mp ha'
      obtain ⟨n, hn, hb'⟩ := List.mem_map.mp hb
      simp only [Prod.mk.injEq] at hb'
      exact hc3 i.name (List.mem_map.mpr ⟨i, hi, rfl⟩) n (mem_portBitNames_of_output _ n hn) hb'.1.symm

theorem vFlat_line_eq (hok : VOK cfg tl ports stmts) (t t' : VLine) (ht : t ∈ vFlat cfg tl (sigDecls stmts) stmts)
    (ht' : t' ∈ vFlat cfg tl (sigDecls stmts) stmts) (h : t.r = t'.r) : t = t' :=
  nodup_map_inj (·.r) _ (vFlat_readers_nodup hok) t ht t' ht' h

/-! ## instances -/

theorem inst_eq (hok : VOK cfg tl ports stmts) {i j : VInst} (hi : i ∈ vInsts stmts) (hj : j ∈ vInsts stmts) (h : i.name = j.name) :
    i = j :=
  nodup_map_inj (·.name) _ (List.nodup_append.mp hok.cells).1 i hi j hj h

theorem inst_not_port (hok : VOK cfg tl ports stmts) {i : VInst} (hi : i ∈ vInsts stmts) (n : String)
    (hn : n ∈ portBitNames (sigDecls stmts)) : i.name ≠ n :=
  (List.nodup_append.mp hok.cells).2.2 i.name (List.mem_map.mpr ⟨i, hi, rfl⟩) n hn

/-- the signal on input pin index `k` -/
theorem inSig_iff (hok : VOK cfg tl ports stmts) (i : VInst) (hi : i ∈ vInsts stmts) (k : Nat) (s : String) :
    inSig tl i k = some s ↔ ∃ c ∈ inConn tl i, c.2.1 = k ∧ c.2.2 = s := by
  unfold inSig
  constructor
  · intro h
    cases hf : (inConn tl i).find? (fun c => c.2.1 == k) with
    | none => rw [hf] at h; cases h
    | some c =>
      rw [hf] at h
      simp only [Option.map_some, Option.some.injEq] at h
      exact ⟨c, List.mem_of_find?_eq_some hf, by simpa using List.find?_some hf, h⟩
  · rintro ⟨c, hc, hk, hs⟩
    cases hf : (inConn tl i).find? (fun c => c.2.1 == k) with
    | none =>
      rw [List.find?_eq_none] at hf
      have := hf c hc
      simp [hk] at this
    | some c' =>
      have h1 := List.mem_of_find?_eq_some hf
      have h2 : c'.2.1 = k := by simpa using List.find?_some hf
      have := nodup_map_inj (·.2.1) _ (hok.inIdx i hi) c' h1 c hc (by rw [h2, hk])
      rw [this]
      simp [hs]

/-- a line into pin `k` of an instance cell carries the signal connected to that pin -/
theorem reader_cell_inst (hok : VOK cfg tl ports stmts) (i : VInst) (hi : i ∈ vInsts stmts) (k : Nat) (t : VLine)
    (ht : t ∈ vFlat cfg tl (sigDecls stmts) stmts) (hr : t.r = .cell i.name k) : inSig tl i k = some t.sig := by
  rcases (mem_vFlat _ t).mp ht with ⟨_, _, _, _, rfl⟩ | ⟨_, _, rfl⟩ | ⟨j, hj, c, hc, htc⟩ | ⟨n, hn, rfl⟩
  · cases hr
  · cases hr
  · unfold readerLines at htc
    have key : t.r = .cell j.name c.2.1 ∧ t.sig = c.2.2 := by
      cases hb : cfg.bf
      · simp only [hb, Bool.false_eq_true, if_false, List.mem_singleton] at htc
        subst htc; exact ⟨rfl, rfl⟩
      · simp only [hb, if_true, List.mem_cons, List.not_mem_nil, or_false] at htc
        rcases htc with rfl | rfl
        · cases hr
        · exact ⟨rfl, rfl⟩
    rw [key.1] at hr
    simp only [Ep.cell.injEq] at hr
    have := inst_eq hok hj hi hr.1
    subst this
    exact (inSig_iff hok j hi k t.sig).mpr ⟨c, hc, hr.2, key.2.symm⟩
  · simp only [Ep.cell.injEq] at hr
    exact absurd hr.1.symm (inst_not_port hok hi n (mem_portBitNames_of_output _ n hn))

/-- a connected input pin has its line -/
theorem inst_pin_line (i : VInst) (hi : i ∈ vInsts stmts) (ds : List Decl) (c : String × Nat × String) (hc : c ∈ inConn tl i) :
    ∃ t ∈ vFlat cfg tl ds stmts, t.r = .cell i.name c.2.1 ∧ t.sig = c.2.2 := by
  cases hb : cfg.bf
  · refine ⟨⟨.fork c.2.2, .cell i.name c.2.1, c.2.2⟩, (mem_vFlat ds _).mpr (Or.inr (Or.inr (Or.inl ⟨i, hi, c, hc, ?_⟩))), rfl, rfl⟩
    simp [readerLines, hb]
  · refine ⟨⟨.fork (branchName c.2.2 i.name c.1), .cell i.name c.2.1, c.2.2⟩,
      (mem_vFlat ds _).mpr (Or.inr (Or.inr (Or.inl ⟨i, hi, c, hc, ?_⟩))), rfl, rfl⟩
    simp [readerLines, hb]

end
end KV.Netlist
