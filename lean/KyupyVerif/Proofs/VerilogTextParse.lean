import KyupyVerif.Proofs.VerilogTextLex
/-! Parser side of the round trip for the Verilog text model: a text that lexes to the token stream of a module list
(`modulesT`) parses to that module list (`pModules_ok`) — stated up to SPELLING: the text may lex to any token list whose
tokens are spellings (`sameTok`, relation `LexesC`) of the canonical ones. -/
namespace KV.VerilogText

/-! ## single tokens -/

theorem lex_peek_true {s : List Char} {c : Char} {ts : List CT} (h : LexesC s (gs c :: ts)) : peekSym c s = true := by
  obtain ⟨a, r, hn, hs, _⟩ := LexesC.cons_inv h
  rw [sameTok_sym hs] at hn
  simp only [peekSym, hn, beq_self_eq_true]

theorem lex_peek_false {s : List Char} {c : Char} {t : Tok} {ts : List CT} (h : LexesC s ((.gen, t) :: ts))
    (ht : t ≠ .sym c) : peekSym c s = false := by
  obtain ⟨a, r, hn, hs, _⟩ := LexesC.cons_inv h
  simp only [peekSym, hn]
  cases a with
  | sym d =>
    simp only [beq_eq_false_iff_ne, ne_eq]
    intro hd; subst hd; exact ht (sameTok_of_sym hs)
  | _ => rfl

theorem lex_expect {s : List Char} {c : Char} {ts : List CT} (h : LexesC s (gs c :: ts)) :
    ∃ r, expectSym c s = some r ∧ LexesC r ts := by
  obtain ⟨a, r, hn, hs, hr⟩ := LexesC.cons_inv h
  rw [sameTok_sym hs] at hn
  exact ⟨r, by simp only [expectSym, hn, beq_self_eq_true, if_true], hr⟩

/-- a token with one spelling only (keyword word, `module`) is pulled as itself -/
theorem lex_fixed {s : List Char} {c : Ctx} {t : Tok} {ts : List CT} (h : LexesC s ((c, t) :: ts))
    (hfix : ∀ a, sameTok a t = true → a = t) : ∃ r, next c s = some (t, r) ∧ LexesC r ts := by
  obtain ⟨a, r, hn, hs, hr⟩ := LexesC.cons_inv h
  rw [hfix a hs] at hn
  exact ⟨r, hn, hr⟩

theorem tokName_nameTok (n : String) : tokName (nameTok n) = some n := by
  unfold nameTok
  split <;> simp only [tokName, String.ofList_toList]

theorem nameTok_ne_sym (n : String) (c : Char) : nameTok n ≠ .sym c := by
  unfold nameTok
  split <;> intro h <;> cases h

theorem lex_name {s : List Char} {n : String} {ts : List CT} (h : LexesC s (gt (nameTok n) :: ts)) :
    ∃ r, pName s = some (n, r) ∧ LexesC r ts := by
  obtain ⟨a, r, hn, hs, hr⟩ := LexesC.cons_inv h
  exact ⟨r, by simp only [pName, hn, sameTok_tokName hs, tokName_nameTok], hr⟩

theorem lex_num {s : List Char} {k : Nat} {ts : List CT} (h : LexesC s (natT k :: ts)) :
    ∃ r, pNum s = some (k, r) ∧ LexesC r ts := by
  obtain ⟨a, r, hn, hs, hr⟩ := LexesC.cons_inv h
  obtain ⟨ds', rfl, hv⟩ := sameTok_num hs
  have hk : numVal ds' = k := by rw [hv]; simp only [numVal, Nat.ofDigitChars_ten_toDigits]
  exact ⟨r, by simp only [pNum, hn, hk], hr⟩

/-- the token behind the construct is not `[` (so that `range?` stops) -/
def HeadOK (ts : List CT) : Prop := ∃ t ts', ts = (.gen, t) :: ts' ∧ t ≠ .sym '['

theorem headOK_gs (c : Char) (ts : List CT) (hc : c ≠ '[') : HeadOK (gs c :: ts) :=
  ⟨.sym c, ts, rfl, by intro h; cases h; exact hc rfl⟩

theorem headOK_name (n : String) (ts : List CT) : HeadOK (gt (nameTok n) :: ts) :=
  ⟨nameTok n, ts, rfl, nameTok_ne_sym n '['⟩

/-! ## ranges -/

theorem pRange_ok (rg : Range) (s : List Char) (ts : List CT) (h : LexesC s (rangeT rg ++ ts)) :
    ∃ r, pRangeOpt s = some (some rg, r) ∧ LexesC r ts := by
  obtain ⟨l, ro⟩ := rg
  cases ro with
  | none =>
    simp only [rangeT, List.cons_append, List.nil_append] at h
    have hp := lex_peek_true h
    obtain ⟨r1, he1, h1⟩ := lex_expect h
    obtain ⟨r2, hn, h2⟩ := lex_num h1
    have hp2 : peekSym ':' r2 = false := lex_peek_false h2 (by decide)
    obtain ⟨r3, he3, h3⟩ := lex_expect h2
    exact ⟨r3, by simp only [pRangeOpt, hp, if_true, he1, pRange, hn, hp2, he3, Bool.false_eq_true, if_false], h3⟩
  | some rr =>
    simp only [rangeT, List.cons_append, List.nil_append] at h
    have hp := lex_peek_true h
    obtain ⟨r1, he1, h1⟩ := lex_expect h
    obtain ⟨r2, hn, h2⟩ := lex_num h1
    have hp2 := lex_peek_true h2
    obtain ⟨r3, he3, h3⟩ := lex_expect h2
    obtain ⟨r4, hn4, h4⟩ := lex_num h3
    obtain ⟨r5, he5, h5⟩ := lex_expect h4
    exact ⟨r5, by simp only [pRangeOpt, hp, if_true, he1, pRange, hn, hp2, he3, hn4, he5], h5⟩

theorem pRangeOpt_ok (rg : Option Range) (s : List Char) (ts : List CT) (h : LexesC s (rangeOptT rg ++ ts))
    (hts : HeadOK ts) : ∃ r, pRangeOpt s = some (rg, r) ∧ LexesC r ts := by
  cases rg with
  | some rg => exact pRange_ok rg s ts h
  | none =>
    obtain ⟨t, ts', rfl, ht⟩ := hts
    simp only [rangeOptT, List.nil_append] at h
    exact ⟨s, by simp only [pRangeOpt, lex_peek_false h ht, Bool.false_eq_true, if_false], h⟩

/-! ## name lists -/

theorem namesTailT_length_pos (e : Char) (ns : List String) : 0 < (namesTailT e ns).length := by
  cases ns <;> simp [namesTailT]

theorem pNamesTail_ok (e : Char) (he : e ≠ ',') (ns : List String) : ∀ (f : Nat) (s : List Char) (ts : List CT),
    LexesC s (namesTailT e ns ++ ts) → (namesTailT e ns).length ≤ f → ∃ r, pNamesTail e f s = some (ns, r) ∧ LexesC r ts := by
  induction ns with
  | nil =>
    intro f s ts h hf
    simp only [namesTailT, List.cons_append, List.nil_append] at h
    cases f with
    | zero => simp [namesTailT] at hf
    | succ f =>
      have hp : peekSym ',' s = false := lex_peek_false h (by intro hh; cases hh; exact he rfl)
      obtain ⟨r, hx, hr⟩ := lex_expect h
      exact ⟨r, by simp only [pNamesTail, hp, hx, Bool.false_eq_true, if_false], hr⟩
  | cons n ns ih =>
    intro f s ts h hf
    simp only [namesTailT, List.cons_append] at h
    cases f with
    | zero => simp [namesTailT] at hf
    | succ f =>
      have hp := lex_peek_true h
      obtain ⟨r1, hx, h1⟩ := lex_expect h
      obtain ⟨r2, hn, h2⟩ := lex_name h1
      obtain ⟨r3, ht, h3⟩ := ih f r2 ts h2 (by simp only [namesTailT, List.length_cons] at hf; omega)
      exact ⟨r3, by simp only [pNamesTail, hp, if_true, hx, hn, ht], h3⟩

theorem pNames_ok (e : Char) (he : e ≠ ',') (n : String) (ns : List String) (f : Nat) (s : List Char) (ts : List CT)
    (h : LexesC s (namesT e (n :: ns) ++ ts)) (hf : (namesT e (n :: ns)).length ≤ f) :
    ∃ r, pNames e f s = some (n :: ns, r) ∧ LexesC r ts := by
  simp only [namesT, List.cons_append] at h
  obtain ⟨r1, hn, h1⟩ := lex_name h
  obtain ⟨r2, ht, h2⟩ := pNamesTail_ok e he ns f r1 ts h1 (by simp only [namesT, List.length_cons] at hf; omega)
  exact ⟨r2, by simp only [pNames, hn, ht], h2⟩

/-! ## signal selections -/

theorem selT_length_pos (x : VSel) : 0 < (selT x).length := by
  cases x <;> simp [selT]

theorem selsTailT_length_pos (xs : List VSel) : 0 < (selsTailT xs).length := by
  cases xs <;> simp [selsTailT]

/-- the first token of a selection is a name or `{` -/
theorem selT_head (x : VSel) : ∃ t rest, selT x = (.gen, t) :: rest ∧ ∀ c, c ≠ '{' → t ≠ .sym c := by
  cases x with
  | sig n r => exact ⟨nameTok n, rangeOptT r, by simp only [selT, gt], fun c _ => nameTok_ne_sym n c⟩
  | cat items => exact ⟨.sym '{', selsT items, by simp only [selT, gs], fun c hc h => by cases h; exact hc rfl⟩

theorem headOK_selsTailT (xs : List VSel) (ts : List CT) : HeadOK (selsTailT xs ++ ts) := by
  cases xs with
  | nil => exact headOK_gs '}' ts (by decide)
  | cons y ys => simp only [selsTailT, List.cons_append]; exact headOK_gs ',' _ (by decide)

theorem pSel_both (f : Nat) :
    (∀ (x : VSel) (s : List Char) (ts : List CT), validSel x = true → (selT x).length ≤ f → HeadOK ts →
      LexesC s (selT x ++ ts) → ∃ r, pSel f s = some (x, r) ∧ LexesC r ts) ∧
    (∀ (x : VSel) (xs : List VSel) (s : List Char) (ts : List CT), validSel x = true → validSels xs = true →
      (selT x ++ selsTailT xs).length ≤ f → LexesC s ((selT x ++ selsTailT xs) ++ ts) →
      ∃ r, pSelList f s = some (x :: xs, r) ∧ LexesC r ts) := by
  induction f with
  | zero =>
    constructor
    · intro x s ts _ hf; have := selT_length_pos x; omega
    · intro x xs s ts _ _ hf; have := selT_length_pos x; simp only [List.length_append] at hf; omega
  | succ f ih =>
    obtain ⟨ihA, ihB⟩ := ih
    constructor
    · intro x s ts hv hf hts h
      cases x with
      | sig n rg =>
        simp only [selT, List.cons_append] at h
        have hp : peekSym '{' s = false := lex_peek_false h (nameTok_ne_sym n '{')
        obtain ⟨r1, hn, h1⟩ := lex_name h
        obtain ⟨r2, hr, h2⟩ := pRangeOpt_ok rg r1 ts h1 hts
        exact ⟨r2, by simp only [pSel, hp, Bool.false_eq_true, if_false, hn, hr], h2⟩
      | cat items =>
        cases items with
        | nil => simp [validSel] at hv
        | cons y ys =>
          simp only [validSel, validSels, Bool.and_eq_true] at hv
          simp only [selT, selsT, List.cons_append] at h hf
          have hp := lex_peek_true h
          obtain ⟨r1, hx, h1⟩ := lex_expect h
          obtain ⟨r2, hl, h2⟩ := ihB y ys r1 ts hv.1.1 hv.1.2 (by simp only [List.length_cons] at hf; omega) h1
          exact ⟨r2, by simp only [pSel, hp, if_true, hx, hl], h2⟩
    · intro x xs s ts hvx hvxs hf h
      rw [List.append_assoc] at h
      have hlen : (selT x).length ≤ f := by
        have := selsTailT_length_pos xs
        simp only [List.length_append] at hf; omega
      obtain ⟨r1, hs, h1⟩ := ihA x s (selsTailT xs ++ ts) hvx hlen (headOK_selsTailT xs ts) h
      cases xs with
      | nil =>
        simp only [selsTailT, List.cons_append, List.nil_append] at h1
        have hp : peekSym ',' r1 = false := lex_peek_false h1 (by decide)
        obtain ⟨r2, hx, h2⟩ := lex_expect h1
        exact ⟨r2, by simp only [pSelList, hs, hp, Bool.false_eq_true, if_false, hx], h2⟩
      | cons y ys =>
        simp only [validSels, Bool.and_eq_true] at hvxs
        simp only [selsTailT, List.cons_append] at h1
        have hp := lex_peek_true h1
        obtain ⟨r2, hx, h2⟩ := lex_expect h1
        have hl2 : (selT y ++ selsTailT ys).length ≤ f := by
          have := selT_length_pos x
          simp only [selsTailT, List.length_append, List.length_cons] at hf ⊢; omega
        obtain ⟨r3, hl, h3⟩ := ihB y ys r2 ts hvxs.1 hvxs.2 hl2 h2
        exact ⟨r3, by simp only [pSelList, hs, hp, if_true, hx, hl], h3⟩

theorem pSel_ok (f : Nat) (x : VSel) (s : List Char) (ts : List CT) (hv : validSel x = true) (hf : (selT x).length ≤ f)
    (hts : HeadOK ts) (h : LexesC s (selT x ++ ts)) : ∃ r, pSel f s = some (x, r) ∧ LexesC r ts :=
  (pSel_both f).1 x s ts hv hf hts h

/-! ## pins -/

theorem pinT_length_pos (p : VPin) : 0 < (pinT p).length := by
  cases p with
  | named n o => cases o <;> simp [pinT]
  | pos x => exact selT_length_pos x

theorem pinsTailT_length_pos (ps : List VPin) : 0 < (pinsTailT ps).length := by
  cases ps <;> simp [pinsTailT]

/-- the literal behind a pin is `,` or `)` -/
def PinFollow (ts : List CT) : Prop := ∃ c ts', ts = gs c :: ts' ∧ (c = ',' ∨ c = ')')

theorem PinFollow.headOK {ts : List CT} (h : PinFollow ts) : HeadOK ts := by
  obtain ⟨c, ts', rfl, hc⟩ := h
  exact headOK_gs c ts' (by rcases hc with hc | hc <;> subst hc <;> decide)

theorem pinFollow_tail (ps : List VPin) (ts : List CT) : PinFollow (pinsTailT ps ++ ts) := by
  cases ps with
  | nil => exact ⟨')', ts, rfl, Or.inr rfl⟩
  | cons p r => exact ⟨',', (pinT p ++ pinsTailT r) ++ ts, by simp only [pinsTailT, List.cons_append], Or.inl rfl⟩

theorem pPin_ok (f : Nat) (p : VPin) (s : List Char) (ts : List CT) (hv : validPin p = true) (hf : (pinT p).length ≤ f)
    (hts : PinFollow ts) (h : LexesC s (pinT p ++ ts)) : ∃ r, pPin f s = some (p, r) ∧ LexesC r ts := by
  cases p with
  | named n o =>
    cases o with
    | none =>
      simp only [pinT, List.cons_append, List.nil_append] at h
      have hp := lex_peek_true h
      obtain ⟨r1, hx1, h1⟩ := lex_expect h
      obtain ⟨r2, hn, h2⟩ := lex_name h1
      obtain ⟨r3, hx3, h3⟩ := lex_expect h2
      have hp3 := lex_peek_true h3
      obtain ⟨r4, hx4, h4⟩ := lex_expect h3
      exact ⟨r4, by simp only [pPin, hp, if_true, hx1, hn, hx3, hp3, hx4], h4⟩
    | some x =>
      simp only [validPin, Bool.and_eq_true] at hv
      simp only [pinT, List.cons_append, List.append_assoc, List.nil_append] at h hf
      have hp := lex_peek_true h
      obtain ⟨r1, hx1, h1⟩ := lex_expect h
      obtain ⟨r2, hn, h2⟩ := lex_name h1
      obtain ⟨r3, hx3, h3⟩ := lex_expect h2
      obtain ⟨t, rest, hsel, ht⟩ := selT_head x
      have hp3 : peekSym ')' r3 = false := by
        rw [hsel] at h3
        exact lex_peek_false h3 (ht ')' (by decide))
      obtain ⟨r4, hs, h4⟩ := pSel_ok f x r3 (gs ')' :: ts) hv.2
        (by simp only [List.length_cons, List.length_append] at hf; omega) (headOK_gs ')' ts (by decide)) h3
      obtain ⟨r5, hx5, h5⟩ := lex_expect h4
      exact ⟨r5, by simp only [pPin, hp, if_true, hx1, hn, hx3, hp3, Bool.false_eq_true, if_false, hs, hx5], h5⟩
  | pos x =>
    simp only [pinT] at h hf
    obtain ⟨t, rest, hsel, ht⟩ := selT_head x
    have hp : peekSym '.' s = false := by
      rw [hsel] at h
      exact lex_peek_false h (ht '.' (by decide))
    obtain ⟨r1, hs, h1⟩ := pSel_ok f x s ts hv hf hts.headOK h
    exact ⟨r1, by simp only [pPin, hp, Bool.false_eq_true, if_false, hs], h1⟩

theorem pPinsTail_ok (ps : List VPin) : ∀ (f : Nat) (s : List Char) (ts : List CT), ps.all validPin = true →
    (pinsTailT ps).length ≤ f → LexesC s (pinsTailT ps ++ ts) → ∃ r, pPinsTail f s = some (ps, r) ∧ LexesC r ts := by
  induction ps with
  | nil =>
    intro f s ts _ hf h
    simp only [pinsTailT, List.cons_append, List.nil_append] at h
    cases f with
    | zero => simp [pinsTailT] at hf
    | succ f =>
      have hp : peekSym ',' s = false := lex_peek_false h (by decide)
      obtain ⟨r, hx, hr⟩ := lex_expect h
      exact ⟨r, by simp only [pPinsTail, hp, Bool.false_eq_true, if_false, hx], hr⟩
  | cons p ps ih =>
    intro f s ts hv hf h
    simp only [List.all_cons, Bool.and_eq_true] at hv
    simp only [pinsTailT, List.cons_append, List.append_assoc] at h
    cases f with
    | zero => simp [pinsTailT] at hf
    | succ f =>
      have hp := lex_peek_true h
      obtain ⟨r1, hx, h1⟩ := lex_expect h
      have h2pos := pinsTailT_length_pos ps
      have h1pos := pinT_length_pos p
      obtain ⟨r2, hpin, h2⟩ := pPin_ok f p r1 (pinsTailT ps ++ ts) hv.1
        (by simp only [pinsTailT, List.length_cons, List.length_append] at hf; omega) (pinFollow_tail ps ts) h1
      obtain ⟨r3, ht, h3⟩ := ih f r2 ts hv.2
        (by simp only [pinsTailT, List.length_cons, List.length_append] at hf; omega) h2
      exact ⟨r3, by simp only [pPinsTail, hp, if_true, hx, hpin, ht], h3⟩

theorem pPins_ok (f : Nat) (ps : List VPin) (s : List Char) (ts : List CT) (hv : ps.all validPin = true)
    (hf : (pinsT ps).length ≤ f) (h : LexesC s (pinsT ps ++ ts)) : ∃ r, pPins f s = some (ps, r) ∧ LexesC r ts := by
  cases ps with
  | nil =>
    simp only [pinsT, List.cons_append, List.nil_append] at h
    have hp := lex_peek_true h
    obtain ⟨r, hx, hr⟩ := lex_expect h
    exact ⟨r, by simp only [pPins, hp, if_true, hx], hr⟩
  | cons p ps =>
    simp only [List.all_cons, Bool.and_eq_true] at hv
    simp only [pinsT, List.append_assoc] at h hf
    have hp : peekSym ')' s = false := by
      cases p with
      | named n o =>
        cases o <;> simp only [pinT, List.cons_append] at h <;> exact lex_peek_false h (by decide)
      | pos x =>
        obtain ⟨t, rest, hsel, ht⟩ := selT_head x
        simp only [pinT, hsel, List.cons_append] at h
        exact lex_peek_false h (ht ')' (by decide))
    have h2pos := pinsTailT_length_pos ps
    have h1pos := pinT_length_pos p
    obtain ⟨r1, hpin, h1⟩ := pPin_ok f p s (pinsTailT ps ++ ts) hv.1
      (by simp only [List.length_append] at hf; omega) (pinFollow_tail ps ts) h
    obtain ⟨r2, ht, h2⟩ := pPinsTail_ok ps f r1 ts hv.2 (by simp only [List.length_append] at hf; omega) h1
    exact ⟨r2, by simp only [pPins, hp, Bool.false_eq_true, if_false, hpin, ht], h2⟩

/-! ## statements -/

theorem kwOf_const (w : List Char) (hw : isConstWord w = true) : kwOf w = none := by
  unfold kwOf
  split
  · next h => have := eq_of_beq h; subst this; exact absurd hw (by decide)
  split
  · next h => have := eq_of_beq h; subst this; exact absurd hw (by decide)
  split
  · next h => have := eq_of_beq h; subst this; exact absurd hw (by decide)
  split
  · next h => have := eq_of_beq h; subst this; exact absurd hw (by decide)
  split
  · next h => have := eq_of_beq h; subst this; exact absurd hw (by decide)
  split
  · next h => have := eq_of_beq h; subst this; exact absurd hw (by decide)
  split
  · next h => have := eq_of_beq h; subst this; exact absurd hw (by decide)
  rfl

theorem kwOf_plain (w : List Char) (hw : isPlainWord w = true) : kwOf w = none := by
  simp only [isPlainWord, Bool.or_eq_true, Bool.and_eq_true, Option.isNone_iff_eq_none] at hw
  rcases hw with hw | hw
  · exact hw.2
  · exact kwOf_const w hw

theorem kwOf_kind (k : VKind) : kwOf (kindWord k) = some (.decl k) := by cases k <;> rfl
theorem kwOf_assign : kwOf kwAssign = some .assign := rfl
theorem kwOf_endmodule : kwOf kwEndmodule = some .endmodule := rfl

theorem stmtT_length_pos (st : VStmt) : 0 < (stmtT st).length := by
  cases st <;> simp [stmtT]

theorem stmtsT_length_pos (sts : List VStmt) : 0 < (stmtsT sts).length := by
  cases sts with
  | nil => simp [stmtsT]
  | cons st r => have := stmtT_length_pos st; simp only [stmtsT, List.length_append]; omega

/-- the spellings of a statement-leading name: escaped, or plain when it is no statement keyword -/
theorem sameTok_nameTok_lead {a : Tok} {ty : String} (h : sameTok a (nameTok ty) = true) :
    a = .esc ty.toList ∨ (a = .word ty.toList ∧ kwOf ty.toList = none) := by
  unfold nameTok at h
  split at h
  · next hpl =>
    have hk := kwOf_plain _ hpl
    cases a <;> simp_all [sameTok]
  · cases a <;> simp_all [sameTok]

theorem pInst_ok (f : Nat) (ty nm : String) (pins : List VPin) (s : List Char) (ts : List CT)
    (hv : pins.all validPin = true) (hf : (pinsT pins).length ≤ f)
    (h : LexesC s (gt (nameTok nm) :: gs '(' :: (pinsT pins ++ [gs ';']) ++ ts)) :
    ∃ r, pInst f ty s = some (.inst ty nm pins, r) ∧ LexesC r ts := by
  simp only [List.cons_append, List.append_assoc, List.nil_append] at h
  obtain ⟨r1, hn, h1⟩ := lex_name h
  obtain ⟨r2, hx2, h2⟩ := lex_expect h1
  obtain ⟨r3, hp, h3⟩ := pPins_ok f pins r2 (gs ';' :: ts) hv hf h2
  obtain ⟨r4, hx4, h4⟩ := lex_expect h3
  exact ⟨r4, by simp only [pInst, hn, hx2, hp, hx4], h4⟩

theorem pStmt_ok (f : Nat) (st : VStmt) (s : List Char) (ts : List CT) (hv : validStmt st = true)
    (hf : (stmtT st).length ≤ f) (h : LexesC s (stmtT st ++ ts)) : ∃ r, pStmt f s = some (some st, r) ∧ LexesC r ts := by
  cases st with
  | decl k rg ns =>
    cases ns with
    | nil => simp [validStmt] at hv
    | cons n ns =>
      simp only [stmtT, List.cons_append, List.append_assoc] at h hf
      obtain ⟨r1, hn1, h1⟩ := lex_fixed h (fun a ha => sameTok_kw (by cases k <;> rfl) ha)
      obtain ⟨r2, hr, h2⟩ := pRangeOpt_ok rg r1 (namesT ';' (n :: ns) ++ ts) h1 (by simp only [namesT, List.cons_append]; exact headOK_name n _)
      obtain ⟨r3, hns, h3⟩ := pNames_ok ';' (by decide) n ns f r2 ts h2 (by simp only [List.length_cons, List.length_append] at hf; omega)
      exact ⟨r3, by simp only [pStmt, hn1, kwOf_kind, pDecl, hr, hns], h3⟩
  | assign t x =>
    simp only [validStmt, Bool.and_eq_true] at hv
    simp only [stmtT, List.cons_append, List.append_assoc, List.nil_append] at h hf
    obtain ⟨r1, hn1, h1⟩ := lex_fixed h (fun a ha => sameTok_kw (by rfl) ha)
    obtain ⟨r2, hs2, h2⟩ := pSel_ok f t r1 _ hv.1 (by simp only [List.length_cons, List.length_append] at hf; omega)
      (headOK_gs '=' _ (by decide)) h1
    obtain ⟨r3, hx3, h3⟩ := lex_expect h2
    obtain ⟨r4, hs4, h4⟩ := pSel_ok f x r3 _ hv.2 (by simp only [List.length_cons, List.length_append] at hf; omega)
      (headOK_gs ';' _ (by decide)) h3
    obtain ⟨r5, hx5, h5⟩ := lex_expect h4
    exact ⟨r5, by simp only [pStmt, hn1, kwOf_assign, pAssign, hs2, hx3, hs4, hx5], h5⟩
  | inst ty nm pins =>
    simp only [validStmt, Bool.and_eq_true] at hv
    simp only [stmtT, List.cons_append] at h hf
    obtain ⟨a, r1, hn1, hs1, h1⟩ := LexesC.cons_inv h
    obtain ⟨r2, hi, h2⟩ := pInst_ok f ty nm pins r1 ts hv.2
      (by simp only [List.length_cons, List.length_append] at hf; omega) (by simpa only [List.cons_append] using h1)
    rcases sameTok_nameTok_lead hs1 with ha | ⟨ha, hk⟩
    · subst ha
      exact ⟨r2, by simp only [pStmt, hn1, String.ofList_toList, hi], h2⟩
    · subst ha
      exact ⟨r2, by simp only [pStmt, hn1, hk, String.ofList_toList, hi], h2⟩

theorem pStmts_ok (sts : List VStmt) : ∀ (f : Nat) (s : List Char) (ts : List CT), sts.all validStmt = true →
    (stmtsT sts).length ≤ f → LexesC s (stmtsT sts ++ ts) → ∃ r, pStmts f s = some (sts, r) ∧ LexesC r ts := by
  induction sts with
  | nil =>
    intro f s ts _ hf h
    simp only [stmtsT, List.cons_append, List.nil_append] at h
    cases f with
    | zero => simp [stmtsT] at hf
    | succ f =>
      obtain ⟨r1, hn1, h1⟩ := lex_fixed h (fun a ha => sameTok_kw (by rfl) ha)
      exact ⟨r1, by simp only [pStmts, pStmt, hn1, kwOf_endmodule], h1⟩
  | cons st sts ih =>
    intro f s ts hv hf h
    simp only [List.all_cons, Bool.and_eq_true] at hv
    simp only [stmtsT, List.append_assoc] at h hf
    have h1pos := stmtT_length_pos st
    have h2pos := stmtsT_length_pos sts
    cases f with
    | zero => simp only [List.length_append] at hf; omega
    | succ f =>
      obtain ⟨r1, hs, h1⟩ := pStmt_ok f st s (stmtsT sts ++ ts) hv.1 (by simp only [List.length_append] at hf; omega) h
      obtain ⟨r2, hss, h2⟩ := ih f r1 ts hv.2 (by simp only [List.length_append] at hf; omega) h1
      exact ⟨r2, by simp only [pStmts, hs, hss], h2⟩

/-! ## modules -/

theorem pPorts_ok (f : Nat) (ports : List String) (s : List Char) (ts : List CT) (hf : (namesT ')' ports).length ≤ f)
    (h : LexesC s (namesT ')' ports ++ ts)) : ∃ r, pPorts f s = some (ports, r) ∧ LexesC r ts := by
  cases ports with
  | nil =>
    simp only [namesT, List.cons_append, List.nil_append] at h
    have hp := lex_peek_true h
    obtain ⟨r, hx, hr⟩ := lex_expect h
    exact ⟨r, by simp only [pPorts, hp, if_true, hx], hr⟩
  | cons n ns =>
    have hp : peekSym ')' s = false := by
      simp only [namesT, List.cons_append] at h
      exact lex_peek_false h (nameTok_ne_sym n ')')
    obtain ⟨r, hns, hr⟩ := pNames_ok ')' (by decide) n ns f s ts h hf
    exact ⟨r, by simp only [pPorts, hp, Bool.false_eq_true, if_false, hns], hr⟩

theorem pModule_ok (f : Nat) (m : VModule) (s : List Char) (ts : List CT) (hv : validModule m = true)
    (hf : (moduleT m).length ≤ f + 1) (h : LexesC s (moduleT m ++ ts)) :
    ∃ r1 r, next .top s = some (.modkw, r1) ∧ pModule f r1 = some (m, r) ∧ LexesC r ts := by
  obtain ⟨nm, ports, sts⟩ := m
  simp only [validModule, Bool.and_eq_true] at hv
  simp only [moduleT, List.cons_append, List.append_assoc] at h hf
  obtain ⟨r1, hn1, h1⟩ := lex_fixed h (fun a ha => sameTok_modkw ha)
  obtain ⟨r2, hn2, h2⟩ := lex_name h1
  obtain ⟨r3, hx3, h3⟩ := lex_expect h2
  have hposS := stmtsT_length_pos sts
  obtain ⟨r4, hp4, h4⟩ := pPorts_ok f ports r3 _ (by simp only [List.length_cons, List.length_append] at hf; omega) h3
  obtain ⟨r5, hx5, h5⟩ := lex_expect h4
  obtain ⟨r6, hs6, h6⟩ := pStmts_ok sts f r5 ts hv.2 (by simp only [List.length_cons, List.length_append] at hf; omega) h5
  exact ⟨r1, r6, hn1, by simp only [pModule, hn2, hx3, hp4, hx5, hs6], h6⟩

theorem moduleT_length_pos (m : VModule) : 0 < (moduleT m).length := by simp [moduleT]

/-- a text that lexes to the token stream of `ms` parses to `ms` -/
theorem pModules_ok (ms : List VModule) : ∀ (f : Nat) (s : List Char), ms.all validModule = true →
    (modulesT ms).length < f → LexesC s (modulesT ms) → pModules f s = some ms := by
  induction ms with
  | nil =>
    intro f s _ hf h
    cases f with
    | zero => omega
    | succ f => simp only [pModules, LexesC.nil_inv h]
  | cons m ms ih =>
    intro f s hv hf h
    simp only [List.all_cons, Bool.and_eq_true] at hv
    simp only [modulesT] at h hf
    have hpos := moduleT_length_pos m
    cases f with
    | zero => omega
    | succ f =>
      obtain ⟨r1, r, hn, hm, hr⟩ := pModule_ok f m s (modulesT ms) hv.1 (by simp only [List.length_append] at hf; omega) h
      have := ih f r hv.2 (by simp only [List.length_append] at hf; omega) hr
      simp only [pModules, hn, hm, this]

/-- up to spelling (`sameTok`) -/
theorem parseChars_of_lexesC (ms : List VModule) (s : List Char) (hv : ms.all validModule = true)
    (h : LexesC s (modulesT ms)) : parseChars s = some ms :=
  pModules_ok ms _ s hv (by have := h.length_le; omega) h

theorem parseChars_of_lexes (ms : List VModule) (s : List Char) (hv : ms.all validModule = true)
    (h : Lexes s (modulesT ms)) : parseChars s = some ms := parseChars_of_lexesC ms s hv h.toC

end KV.VerilogText
