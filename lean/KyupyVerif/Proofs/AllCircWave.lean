import KyupyVerif.Proofs.AllCircMem
import KyupyVerif.Proofs.WaveCircuit
/-! All-circuits support for C05: the configuration hypothesis `WCfg.Good` of the program generated from a netlist follows
from "delays ≥ 0, capacity ≥ 4 on every line and on the scratch slot"; the eight-index rows of the stripped WaveSim
schedule (`redirect`: value sources = stems, delay lines = branches) mean the same as the four-index stripped rows for a
semantics that reads four operands (LogicSim). -/
namespace KV
open KV.Sig KV.Wave

/-- every row of the program of a netlist writes a line or the scratch slot, so capacities ≥ 4 there suffice -/
theorem good_of_caps (tbl : List PrefixRow) (cfg : WCfg) (net : Net) (order : List Nat) (strip : Bool)
    (hwf : net.wfB = true) (ho : orderOKB net order = true)
    (hd : ∀ l p q, 0 ≤ cfg.delay l p q) (hc : ∀ l, l < net.lines.size → 4 ≤ cfg.cap l) (ht : 4 ≤ cfg.cap net.idx.tmp) :
    cfg.Good ((genOps tbl net order strip).map OpRow.toOp) := by
  refine ⟨hd, fun op hop => ?_⟩
  rcases genOps_out_line tbl net order strip hwf ho op hop with h | h
  · rw [h]; exact ht
  · exact hc _ h

/-- `Good` only looks at the outputs of the rows -/
theorem good_map {ρ} (cfg : WCfg) (rows : List ρ) (g1 g2 : ρ → Op) (h : ∀ r, (g2 r).out = (g1 r).out)
    (hg : cfg.Good (rows.map g1)) : cfg.Good (rows.map g2) := by
  refine ⟨hg.delay_nonneg, fun op hop => ?_⟩
  obtain ⟨r, hr, rfl⟩ := List.mem_map.mp hop
  rw [h]
  exact hg.cap_ge (g1 r) (List.mem_map_of_mem hr)

/-- two renderings of the same rows that write the same signals and evaluate to the same values in every environment -/
theorem exec_map_congr {α ρ} (sem : Nat → List α → α) (g1 g2 : ρ → Op) (rows : List ρ)
    (h : ∀ r ∈ rows, (g1 r).out = (g2 r).out ∧
      ∀ e : Nat → α, sem (g1 r).code ((g1 r).ins.map e) = sem (g2 r).code ((g2 r).ins.map e))
    (env : Nat → α) : exec sem (rows.map g1) env = exec sem (rows.map g2) env := by
  induction rows generalizing env with
  | nil => rfl
  | cons r rest ih =>
    simp only [List.map_cons, exec, List.foldl_cons]
    have hr := h r List.mem_cons_self
    have : execOp sem env (g1 r) = execOp sem env (g2 r) := by
      unfold execOp
      rw [hr.1, hr.2 env]
    rw [this]
    exact ih (fun q hq => h q (List.mem_cons_of_mem _ hq)) _

/-- the eight-index stripped row read by a four-operand semantics = the four-index stripped row -/
theorem semL8_redirect (net : Net) (r : OpRow) (e : Nat → V3) :
    semL8 (redirect (stemList net) r.toOp).code ((redirect (stemList net) r.toOp).ins.map e) =
      semL8 r.lut ((r.ins.map (viaStem (stemsOf net true))).map e) := by
  have hs : src (stemList net) = viaStem (stemsOf net true) := funext (src_stemList net)
  simp only [redirect, OpRow.toOp, OpRow.ins, hs, semL8, arg, List.map_cons, List.map_nil, List.getD_cons_zero,
    List.getD_cons_succ]

/-- LogicSim on the eight-index stripped WaveSim rows = LogicSim on the stripped schedule with operands through the stems -/
theorem exec8_redirect (tbl : List PrefixRow) (net : Net) (order : List Nat) (env : Nat → V3) :
    exec semL8 ((genOps tbl net order true).map (fun r => redirect (stemList net) r.toOp)) env =
      exec semL8 ((genOps tbl net order true).map
        (fun r => (⟨r.lut, r.out, r.ins.map (viaStem (stemsOf net true))⟩ : Op))) env :=
  exec_map_congr semL8 (fun r => redirect (stemList net) r.toOp)
    (fun r => (⟨r.lut, r.out, r.ins.map (viaStem (stemsOf net true))⟩ : Op)) _
    (fun r _ => ⟨rfl, fun e => semL8_redirect net r e⟩) env

end KV
