import KyupyVerif.Props.C04
import KyupyVerif.Proofs.AllCircStrip
/-! Timing data path, part 2: the static-timing recursion `execG (staSem cfg) (waveProg p) win` of C04 satisfies the window
equation of every row (the program of every circuit is well ordered), hence along a SENSITISED PATH — a sequence of rows in
which each reads the output of the one before and whose other operands carry no transition — the window is the window of the
path's first signal moved by the sums of the smallest / largest delay entries of the lines on the path. -/
namespace KV.Sig

/-- `execG_solvesJ` for a semantics that looks at the values of a subset `R o` of the operand indices only: well-orderedness
is needed for those indices only (the eight-index rows of the waveform program list the branch LINES, whose delay entries
are used but whose values are not read) -/
theorem execG_solves_read {α} (J : Nat → Bool) (sem : Op → List α → α) (R : Op → List Nat)
    (hR : ∀ o (e e' : Nat → α), (∀ x ∈ R o, e x = e' x) → sem o (o.ins.map e) = sem o (o.ins.map e'))
    (ops : List Op)
    (hp : ops.Pairwise (fun o q => (J o.out = false → q.out ≠ o.out) ∧ ∀ x ∈ R o, q.out ≠ x))
    (hl : ∀ o ∈ ops, ∀ x ∈ R o, x ≠ o.out) (env : Nat → α) :
    ∀ o ∈ ops, J o.out = false → execG sem ops env o.out = sem o (o.ins.map (execG sem ops env)) := by
  induction ops generalizing env with
  | nil => intro o ho; cases ho
  | cons p rest ih =>
    intro o ho hj
    have hcons : execG sem (p :: rest) env = execG sem rest (execOpG sem env p) := rfl
    have hrel := (List.pairwise_cons.mp hp).1
    rcases List.mem_cons.mp ho with rfl | hmem
    · have hloc := hl o List.mem_cons_self
      rw [hcons, execG_frame sem rest _ o.out (fun q hq => (hrel q hq).1 hj)]
      have hargs : sem o (o.ins.map (execG sem rest (execOpG sem env o))) = sem o (o.ins.map env) := by
        apply hR
        intro x hx
        rw [execG_frame sem rest _ x (fun q hq => (hrel q hq).2 x hx)]
        simp [execOpG, upd, hloc x hx]
      rw [hargs]
      simp [execOpG, upd]
    · rw [hcons]
      exact ih (List.pairwise_cons.mp hp).2 (fun q hq => hl q (List.mem_cons_of_mem _ hq)) _ o hmem hj

end KV.Sig

namespace KV.SdfWave
open KV KV.Sig KV.Wave KV.C04 KV.MapSound

/-- smallest / largest of the four delay entries of a line -/
def lineDmin (delay : Nat → Bool → Bool → Int) (l : Nat) : Int :=
  Min.min (Min.min (delay l false false) (delay l false true)) (Min.min (delay l true false) (delay l true true))
def lineDmax (delay : Nat → Bool → Bool → Int) (l : Nat) : Int :=
  Max.max (Max.max (delay l false false) (delay l false true)) (Max.max (delay l true false) (delay l true true))

/-- **the delays WaveSim uses**: for operand slot `i` of op row `o` the evaluator reads the delay entries of the LINE
`o.ins[i]` (the row's own operand index — the fan-out branch when forks are stripped — not the stem whose waveform it reads) -/
theorem opDelays_wvOp (cfg : WCfg) (p : MapIn) (o : OpRow) (i : Nat) (hi : i < 4) :
    opDelays cfg (wvOp p o) i = cfg.delay (o.ins.getD i 0) := by
  have : i = 0 ∨ i = 1 ∨ i = 2 ∨ i = 3 := by omega
  rcases this with rfl | rfl | rfl | rfl <;> rfl

theorem dmin_wvOp (cfg : WCfg) (p : MapIn) (o : OpRow) (i : Nat) (hi : i < 4) :
    dmin cfg (wvOp p o) i = lineDmin cfg.delay (o.ins.getD i 0) := by
  unfold dmin lineDmin; rw [opDelays_wvOp cfg p o i hi]
theorem dmax_wvOp (cfg : WCfg) (p : MapIn) (o : OpRow) (i : Nat) (hi : i < 4) :
    dmax cfg (wvOp p o) i = lineDmax cfg.delay (o.ins.getD i 0) := by
  unfold dmax lineDmax; rw [opDelays_wvOp cfg p o i hi]

/-- the window a row computes depends on the windows of its four VALUE sources only -/
theorem staSem_wvOp (cfg : WCfg) (p : MapIn) (o : OpRow) (W : Nat → Win) :
    staSem cfg (wvOp p o) ((wvOp p o).ins.map W) =
      Win.hull (Win.hull ((W (p.src o.i0)).shift (lineDmin cfg.delay o.i0) (lineDmax cfg.delay o.i0))
                         ((W (p.src o.i1)).shift (lineDmin cfg.delay o.i1) (lineDmax cfg.delay o.i1)))
               (Win.hull ((W (p.src o.i2)).shift (lineDmin cfg.delay o.i2) (lineDmax cfg.delay o.i2))
                         ((W (p.src o.i3)).shift (lineDmin cfg.delay o.i3) (lineDmax cfg.delay o.i3))) := by
  unfold staSem
  rw [dmin_wvOp cfg p o 0 (by omega), dmin_wvOp cfg p o 1 (by omega), dmin_wvOp cfg p o 2 (by omega),
    dmin_wvOp cfg p o 3 (by omega), dmax_wvOp cfg p o 0 (by omega), dmax_wvOp cfg p o 1 (by omega),
    dmax_wvOp cfg p o 2 (by omega), dmax_wvOp cfg p o 3 (by omega)]
  rfl

/-- **window equations.** For the waveform program of a map record with the program facts `ProgOK` (every `SimOps` model:
`simops_progOK`) the static-timing recursion satisfies the window equation of EVERY row that writes a signal -/
theorem sta_equations (cfg : WCfg) (p : MapIn) (hp : ProgOK p) (win : Nat → Win) :
    ∀ o ∈ p.ops, o.out ≠ p.ix.tmp →
      execG (staSem cfg) (waveProg p) win o.out =
        staSem cfg (wvOp p o) ((wvOp p o).ins.map (execG (staSem cfg) (waveProg p) win)) := by
  have hw := sigOps_WOJ p hp
  have hJ : ∀ x, Jt p.net x = false ↔ x ≠ p.ix.tmp := by
    intro x; simp [Jt, MapIn.ix]
  intro o ho hne
  have key := execG_solves_read (Jt p.net) (staSem cfg) (fun op => op.ins.take 4) ?_ (waveProg p) ?_ ?_ win
    (wvOp p o) (List.mem_map_of_mem ho) ((hJ _).mpr hne)
  · exact key
  · -- `staSem` reads the first four values only
    intro op e e' hee
    unfold staSem
    have hg : ∀ k, k < 4 → (op.ins.map e).getD k none = (op.ins.map e').getD k none := by
      intro k hk
      rw [List.getD_eq_getElem?_getD, List.getD_eq_getElem?_getD, List.getElem?_map, List.getElem?_map]
      cases hx : op.ins[k]? with
      | none => rfl
      | some x =>
        have : x ∈ op.ins.take 4 := by
          rw [List.mem_take_iff_getElem]
          have hlt := (List.getElem?_eq_some_iff.mp hx).1
          exact ⟨k, by omega, (List.getElem?_eq_some_iff.mp hx).2⟩
        simp [hee x this]
    rw [hg 0 (by omega), hg 1 (by omega), hg 2 (by omega), hg 3 (by omega)]
  · unfold waveProg
    rw [List.pairwise_map]
    have h1 := hw.1
    rw [List.pairwise_map] at h1
    exact h1.imp (fun {a b} hab => ⟨hab.1, fun x hx => hab.2 x hx⟩)
  · intro op hop x hx
    obtain ⟨r, hr, rfl⟩ := List.mem_map.mp hop
    exact (hw.2 (sigOp p r) (List.mem_map_of_mem hr) x hx).2

/-! ### sensitised paths -/

theorem shift_shift (w : Win) (a b c d : Int) : (w.shift a b).shift c d = w.shift (a + c) (b + d) := by
  cases w with
  | none => rfl
  | some q => obtain ⟨l, h⟩ := q; simp [Win.shift, Int.add_assoc]

theorem hull_none_left (w : Win) : Win.hull none w = w := by cases w <;> rfl
theorem hull_none_right (w : Win) : Win.hull w none = w := by cases w <;> rfl
theorem shift_none (a b : Int) : Win.shift none a b = none := rfl

/-- a sensitised path starting at signal `x`: each hop `(o, i)` is a row `o` of the program that writes a signal and reads the
path's current signal in operand slot `i` (through the stem when forks are stripped) while its other three value sources
have the empty window (constant side inputs, unused operand slots = the zero signal); the path continues at `o.out` -/
def PathOK (p : MapIn) (W : Nat → Win) : Nat → List (OpRow × Nat) → Prop
  | _, [] => True
  | x, (o, i) :: rest => o ∈ p.ops ∧ o.out ≠ p.ix.tmp ∧ i < 4 ∧ p.src (o.ins.getD i 0) = x ∧
      (∀ j, j < 4 → j ≠ i → W (p.src (o.ins.getD j 0)) = none) ∧ PathOK p W o.out rest

/-- the signal a path ends at -/
def pathEnd : Nat → List (OpRow × Nat) → Nat
  | x, [] => x
  | _, (o, _) :: rest => pathEnd o.out rest

/-- the lines whose delay entries apply along the path (the operand indices of the rows) -/
def pathLines (path : List (OpRow × Nat)) : List Nat := path.map fun h => h.1.ins.getD h.2 0

theorem sta_hop (cfg : WCfg) (p : MapIn) (o : OpRow) (i : Nat) (W : Nat → Win) (hi : i < 4)
    (hside : ∀ j, j < 4 → j ≠ i → W (p.src (o.ins.getD j 0)) = none) :
    staSem cfg (wvOp p o) ((wvOp p o).ins.map W) =
      (W (p.src (o.ins.getD i 0))).shift (lineDmin cfg.delay (o.ins.getD i 0)) (lineDmax cfg.delay (o.ins.getD i 0)) := by
  rw [staSem_wvOp]
  have h0 := hside 0 (by omega)
  have h1 := hside 1 (by omega)
  have h2 := hside 2 (by omega)
  have h3 := hside 3 (by omega)
  simp only [OpRow.ins, List.getD_cons_zero, List.getD_cons_succ] at h0 h1 h2 h3 ⊢
  have : i = 0 ∨ i = 1 ∨ i = 2 ∨ i = 3 := by omega
  rcases this with rfl | rfl | rfl | rfl
  · rw [h1 (by omega), h2 (by omega), h3 (by omega)]
    simp only [shift_none, hull_none_right, List.getD_cons_zero]
  · rw [h0 (by omega), h2 (by omega), h3 (by omega)]
    simp only [shift_none, hull_none_right, hull_none_left, List.getD_cons_zero, List.getD_cons_succ]
  · rw [h0 (by omega), h1 (by omega), h3 (by omega)]
    simp only [shift_none, hull_none_right, hull_none_left, List.getD_cons_zero, List.getD_cons_succ]
  · rw [h0 (by omega), h1 (by omega), h2 (by omega)]
    simp only [shift_none, hull_none_right, hull_none_left, List.getD_cons_zero, List.getD_cons_succ]

/-- **path theorem**: along a sensitised path the static-timing window of the end signal is the window of the start signal
moved by the sum of the smallest entries (lower end) and the sum of the largest entries (upper end) of the lines on the path -/
theorem sta_path (cfg : WCfg) (p : MapIn) (W : Nat → Win)
    (hEq : ∀ o ∈ p.ops, o.out ≠ p.ix.tmp → W o.out = staSem cfg (wvOp p o) ((wvOp p o).ins.map W))
    (x : Nat) (path : List (OpRow × Nat)) (hpath : PathOK p W x path) :
    W (pathEnd x path) = (W x).shift (((pathLines path).map (lineDmin cfg.delay)).sum)
                                     (((pathLines path).map (lineDmax cfg.delay)).sum) := by
  induction path generalizing x with
  | nil =>
    cases hW : W x with
    | none => simp [pathEnd, pathLines, hW, Win.shift]
    | some q => simp [pathEnd, pathLines, hW, Win.shift]
  | cons h rest ih =>
    obtain ⟨o, i⟩ := h
    obtain ⟨hmem, hnj, hi, hx, hside, hrest⟩ := hpath
    have hout : W o.out = (W x).shift (lineDmin cfg.delay (o.ins.getD i 0)) (lineDmax cfg.delay (o.ins.getD i 0)) := by
      rw [hEq o hmem hnj, sta_hop cfg p o i W hi hside, hx]
    show W (pathEnd o.out rest) = _
    rw [ih o.out hrest, hout, shift_shift]
    simp [pathLines]

/-- Boolean form of `PathOK` (evaluated in the examples) -/
def pathOKB (p : MapIn) (W : Nat → Win) : Nat → List (OpRow × Nat) → Bool
  | _, [] => true
  | x, (o, i) :: rest => decide (o ∈ p.ops) && decide (o.out ≠ p.ix.tmp) && decide (i < 4) &&
      decide (p.src (o.ins.getD i 0) = x) &&
      ((List.range 4).all fun j => j == i || decide (W (p.src (o.ins.getD j 0)) = none)) && pathOKB p W o.out rest

theorem pathOKB_sound (p : MapIn) (W : Nat → Win) : ∀ x path, pathOKB p W x path = true → PathOK p W x path
  | _, [], _ => trivial
  | x, (o, i) :: rest, h => by
    simp only [pathOKB, Bool.and_eq_true, decide_eq_true_eq, List.all_eq_true, List.mem_range, Bool.or_eq_true,
      beq_iff_eq] at h
    obtain ⟨⟨⟨⟨⟨h1, h2⟩, h3⟩, h4⟩, h5⟩, h6⟩ := h
    exact ⟨h1, h2, h3, h4, fun j hj hji => (h5 j hj).resolve_left hji, pathOKB_sound p W o.out rest h6⟩

theorem sum_map_congr {α} (l : List α) (f g : α → Int) (h : ∀ a ∈ l, f a = g a) : (l.map f).sum = (l.map g).sum := by
  rw [List.map_congr_left h]

end KV.SdfWave
