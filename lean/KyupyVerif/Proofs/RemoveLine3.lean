import KyupyVerif.Proofs.RemoveLine2
/-! Helper lemmas for C10 (removal of dangling logic), part 3: the result of `Line.remove()` (`removeLine true`) on a
well-formed circuit, described through accessors. -/
namespace KV.Transform
open KV

/-- the circuit after `l.remove()`; `d, p` = driver and its pin, `rd, q` = reader and its pin, `F` = the driver is a fork -/
structure RLSpec (nn : NNet) (l : Nat) (net' : Net) : Prop where
  nsize : net'.nodes.size = nn.net.nodes.size
  lsize : net'.lines.size = nn.net.lines.size - 1
  io : net'.io = nn.net.io
  kind : ∀ x, (net'.node x).kind = (nn.net.node x).kind
  inPin : ∀ x k, (net'.node x).ins.getD k none =
    if x = (nn.net.line l).reader ∧ k = (nn.net.line l).rpin then none
    else mvL (nn.net.lines.size - 1) l ((nn.net.node x).ins.getD k none)
  outPin : ∀ x k, (net'.node x).outs.getD k none =
    if x = (nn.net.line l).driver then
      (if (nn.net.node x).isFork then
        mvL (nn.net.lines.size - 1) l ((nn.net.node x).outs.getD (if k < (nn.net.line l).dpin then k else k + 1) none)
       else if k = (nn.net.line l).dpin then none else mvL (nn.net.lines.size - 1) l ((nn.net.node x).outs.getD k none))
    else mvL (nn.net.lines.size - 1) l ((nn.net.node x).outs.getD k none)
  line : ∀ l', l' < nn.net.lines.size - 1 →
    (net'.line l').driver = (nn.net.line (nmN nn.net.lines.size l l')).driver ∧
    (net'.line l').reader = (nn.net.line (nmN nn.net.lines.size l l')).reader ∧
    (net'.line l').rpin = (nn.net.line (nmN nn.net.lines.size l l')).rpin ∧
    (net'.line l').dpin =
      if (nn.net.line (nmN nn.net.lines.size l l')).driver = (nn.net.line l).driver ∧
          (nn.net.node (nn.net.line l).driver).isFork = true ∧
          (nn.net.line l).dpin < (nn.net.line (nmN nn.net.lines.size l l')).dpin
      then (nn.net.line (nmN nn.net.lines.size l l')).dpin - 1 else (nn.net.line (nmN nn.net.lines.size l l')).dpin

theorem mvL_none' (last b : Nat) : mvL last b none = none := rfl

theorem removeLine_spec (nn : NNet) (w : WFm nn) (l : Nat) (hl : l < nn.net.lines.size) (net' : Net)
    (he : removeLine true nn.net l = some net') : RLSpec nn l net' := by
  unfold removeLine at he
  simp only [Option.map_eq_some_iff] at he
  obtain ⟨net1, h1, e⟩ := he
  obtain ⟨O, hio1, hnodes1, hcase⟩ := detachDriver_spec nn.net net1 l h1
  obtain ⟨bd, br, bo, bi⟩ := w.back l hl
  -- the lines after `detachDriver`
  have hsz1 : net1.lines.size = nn.net.lines.size := by
    rcases hcase with ⟨_, _, _, hl1⟩ | ⟨_, _, hl1⟩
    · rw [hl1, renumberDpins_size]
    · rw [hl1]
  have hf1 : ∀ y, (net1.line y).driver = (nn.net.line y).driver ∧ (net1.line y).reader = (nn.net.line y).reader ∧
      (net1.line y).rpin = (nn.net.line y).rpin := by
    intro y
    rcases hcase with ⟨_, _, _, hl1⟩ | ⟨_, _, hl1⟩
    · have := renumberDpins_fields O nn.net.lines 0 y
      have e0 : net1.line y = lineA (renumberDpins nn.net.lines O 0) y := by
        show lineA net1.lines y = _; rw [hl1]
      rw [e0]; exact this
    · have e0 : net1.line y = nn.net.line y := by
        show lineA net1.lines y = lineA nn.net.lines y; rw [hl1]
      rw [e0]; exact ⟨rfl, rfl, rfl⟩
  have hdp1 : ∀ y, y < nn.net.lines.size → y ≠ l → (net1.line y).dpin =
      if (nn.net.line y).driver = (nn.net.line l).driver ∧ (nn.net.node (nn.net.line l).driver).isFork = true ∧
          (nn.net.line l).dpin < (nn.net.line y).dpin
      then (nn.net.line y).dpin - 1 else (nn.net.line y).dpin := by
    intro y hy hne
    obtain ⟨yd, _, yo, _⟩ := w.back y hy
    rcases hcase with ⟨hF, hO, _, hl1⟩ | ⟨hF, _, hl1⟩
    · have hOget : ∀ k, O.getD k none = (nn.net.node (nn.net.line l).driver).outs.getD
          (if k < (nn.net.line l).dpin then k else k + 1) none := by
        intro k
        rw [hO, getD_eraseIdx, getD_growSet]
        have : ¬ (if k < (nn.net.line l).dpin then k else k + 1) = (nn.net.line l).dpin := by split <;> omega
        rw [if_neg this]
      have hOnd : PinNodup O := by
        intro k1 k2 x a1 a2
        rw [hOget] at a1 a2
        have := w.outs_nodup _ bd _ _ x a1 a2
        split at this <;> split at this <;> omega
      show (lineA net1.lines y).dpin = _
      rw [hl1]
      by_cases hdy : (nn.net.line y).driver = (nn.net.line l).driver
      · -- `y` is another output of the fork
        have hpne : (nn.net.line y).dpin ≠ (nn.net.line l).dpin := by
          intro ep
          rw [hdy, ep, bo] at yo
          exact hne (Option.some.inj yo).symm
        rw [hdy] at yo
        by_cases hlt : (nn.net.line l).dpin < (nn.net.line y).dpin
        · have hk : O.getD ((nn.net.line y).dpin - 1) none = some y := by
            rw [hOget]
            have : ¬ (nn.net.line y).dpin - 1 < (nn.net.line l).dpin := by omega
            rw [if_neg this]
            have : (nn.net.line y).dpin - 1 + 1 = (nn.net.line y).dpin := by omega
            rw [this]; exact yo
          rw [renumberDpins_at O nn.net.lines 0 _ y hOnd hk hy]
          simp [hdy, hF, hlt]
        · have hk : O.getD (nn.net.line y).dpin none = some y := by
            rw [hOget]
            have : (nn.net.line y).dpin < (nn.net.line l).dpin := by omega
            rw [if_pos this]; exact yo
          rw [renumberDpins_at O nn.net.lines 0 _ y hOnd hk hy]
          simp [hlt]
      · rw [renumberDpins_other O nn.net.lines 0 y]
        · simp [hdy]; rfl
        · intro k hk
          rw [hOget] at hk
          exact hdy (w.fwdOut _ bd _ y hk).2.1
    · show (lineA net1.lines y).dpin = _
      rw [hl1]
      simp [hF]; rfl
  have e' : net' = delLine { net1 with nodes := net1.nodes.modify (net1.line l).reader fun n =>
      { n with ins := growSet n.ins (net1.line l).rpin none } } l := by rw [← e]; simp
  clear e
  subst e'
  have hrd : (net1.line l).reader = (nn.net.line l).reader := (hf1 l).2.1
  have hrq : (net1.line l).rpin = (nn.net.line l).rpin := (hf1 l).2.2
  -- node `x` before `delLine`
  have hnode2 : ∀ x, ({ net1 with nodes := net1.nodes.modify (net1.line l).reader fun n =>
        { n with ins := growSet n.ins (net1.line l).rpin none } } : Net).node x =
      { kind := (nn.net.node x).kind,
        ins := if x = (nn.net.line l).reader then growSet (nn.net.node x).ins (nn.net.line l).rpin none else (nn.net.node x).ins,
        outs := if x = (nn.net.line l).driver then O else (nn.net.node x).outs } := by
    intro x
    have hn1 : ∀ y, net1.node y = if y = (nn.net.line l).driver then { nn.net.node y with outs := O } else nn.net.node y := by
      intro y
      show nodeA net1.nodes y = _
      rw [hnodes1, nodeA_modify]
      by_cases e1 : y = (nn.net.line l).driver
      · simp only [e1, bd, and_self, if_true]; rfl
      · simp only [e1, false_and, if_false]; rfl
    rw [node_modify net1 net1.nodes rfl, hrd, hrq]
    have hsz : net1.nodes.size = nn.net.nodes.size := by rw [hnodes1]; simp
    rw [hsz, hn1]
    by_cases e1 : x = (nn.net.line l).reader
    · by_cases e2 : x = (nn.net.line l).driver
      · simp only [← e1, ← e2, br, e1 ▸ br, and_self, if_true]
      · simp only [← e1, e1 ▸ br, and_self, if_true, e2, if_false]
    · by_cases e2 : x = (nn.net.line l).driver
      · simp only [e1, false_and, if_false, ← e2, if_true]
      · simp only [e1, false_and, if_false, e2]
  have hL2 : ({ net1 with nodes := net1.nodes.modify (net1.line l).reader fun n =>
        { n with ins := growSet n.ins (net1.line l).rpin none } } : Net).lines.size = nn.net.lines.size := hsz1
  refine ⟨?_, ?_, ?_, ?_, ?_, ?_, ?_⟩
  · rw [(delLine_sizes _ l).1]; simp [hnodes1]
  · rw [(delLine_sizes _ l).2.1, hL2]
  · rw [(delLine_sizes _ l).2.2]; exact hio1
  · intro x; rw [delLine_node, hnode2]
  · intro x k
    rw [delLine_node, hnode2, hL2]
    dsimp only
    rw [getD_map_mvL]
    by_cases e1 : x = (nn.net.line l).reader
    · simp only [e1, if_true, true_and]
      rw [getD_growSet]
      by_cases e2 : k = (nn.net.line l).rpin
      · simp [e2, mvL]
      · simp [e2]
    · simp [e1]
  · intro x k
    rw [delLine_node, hnode2, hL2]
    dsimp only
    rw [getD_map_mvL]
    by_cases e1 : x = (nn.net.line l).driver
    · simp only [e1, if_true]
      rcases hcase with ⟨hF, hO, _, _⟩ | ⟨hF, hO, _⟩
      · rw [hF, if_pos rfl, hO, getD_eraseIdx, getD_growSet]
        have : ¬ (if k < (nn.net.line l).dpin then k else k + 1) = (nn.net.line l).dpin := by split <;> omega
        rw [if_neg this]
      · rw [hF, hO, getD_growSet]
        simp only [Bool.false_eq_true, if_false]
        by_cases e2 : k = (nn.net.line l).dpin
        · simp [e2, mvL]
        · simp [e2]
    · simp [e1]
  · intro l' hl'
    have hy := nm_facts hl hl'
    rw [delLine_line _ l l' (by rw [hL2]; exact hl) (by rw [hL2]; exact hl'), hL2]
    have hline2 : ∀ y, ({ net1 with nodes := net1.nodes.modify (net1.line l).reader fun n =>
        { n with ins := growSet n.ins (net1.line l).rpin none } } : Net).line y = net1.line y := fun _ => rfl
    rw [hline2]
    exact ⟨(hf1 _).1, (hf1 _).2.1, (hf1 _).2.2, hdp1 _ hy.1 hy.2.1⟩

end KV.Transform
