import KyupyVerif.Proofs.SubstGen2
/-! Helper lemmas for C10 (`substitute_sem_general`), part 3: the lockstep relation is kept when the real run removes the host
line at an ignored input pin (`ll.reader = None; ll.remove()`, swap-with-last renumbering) and the virtual run does
nothing: the line map is composed with the renumbering, the line joins the set `G` of lines that exist only in the
virtual circuit. -/
namespace KV.Transform
open KV

variable {Own : Nat → Prop} {π ψ : Nat → Nat} {G PI PO : Nat → Prop} {a b : Net}

theorem Lk.stepRemove (lk : Lk Own π ψ G PI PO a b) (g : Nat) (hg : g < a.lines.size) (hPI : PI (ψ g)) (hPO : ¬ PO (ψ g))
    (hown : ¬ Own (a.line g).driver) (a' : Net) (he : removeLine false a g = some a') :
    Lk Own π (fun l => ψ (nmN a.lines.size g l)) (fun l' => G l' ∨ l' = ψ g) PI PO a' b := by
  have hL : a.lines.size - 1 + 1 = a.lines.size := by omega
  obtain ⟨hdlt, _, _⟩ := lk.drv g hg hPO
  have sp := removeLineF_spec a (fun y => PO (ψ y)) g hg hPO (lk.host _ hdlt hown) a' he
  -- a line at a pin other than the driver pin of `g` is not `g`, and is renumbered
  have hmv : ∀ y, y < a.lines.size → ¬ PI (ψ y) →
      mvL (a.lines.size - 1) g (some y) = some (mvN a.lines.size g y) ∧ mvN a.lines.size g y < a.lines.size - 1 ∧
      nmN a.lines.size g (mvN a.lines.size g y) = y := by
    intro y hy hnp
    have hne : y ≠ g := fun e => hnp (e ▸ hPI)
    obtain ⟨m1, m2⟩ := mv_facts hg hy hne
    rw [mvL_some, hL]
    exact ⟨rfl, m1, m2⟩
  refine ⟨lk.πinj, ?_, ?_, ?_, ?_, ?_, ?_, ?_, ?_, ?_, ?_, ?_, ?_, ?_⟩
  · intro x hx; rw [sp.nsize] at hx; exact lk.nodeLt x hx
  · intro x hx; rw [sp.nsize] at hx; rw [sp.kind]; exact lk.kind x hx
  · rw [sp.io]; exact lk.io
  · intro x k hx
    rw [sp.nsize] at hx
    rw [sp.inPin, ← lk.ins x k hx]
    cases hp : (a.node x).ins.getD k none with
    | none => rfl
    | some y =>
      obtain ⟨q1, q2⟩ := lk.insLt x k y hp
      obtain ⟨m1, _, m3⟩ := hmv y q1 q2
      rw [m1]
      simp only [Option.map_some, m3]
  · intro x k hx ho
    rw [sp.nsize] at hx
    have hne : x ≠ (a.line g).driver := fun e => hown (e ▸ ho)
    rw [sp.outPin, if_neg hne, ← lk.outs x k hx ho]
    cases hp : (a.node x).outs.getD k none with
    | none => rfl
    | some y =>
      obtain ⟨q1, q2⟩ := lk.outsLt x k y ho hp
      obtain ⟨m1, _, m3⟩ := hmv y q1 q2
      rw [m1]
      simp only [Option.map_some, m3]
  · intro l hl
    rw [sp.lsize] at hl
    obtain ⟨n1, n2, _⟩ := nm_facts hg hl
    obtain ⟨q1, q2⟩ := lk.lineLt _ n1
    refine ⟨q1, fun hc => ?_⟩
    rcases hc with hc | hc
    · exact q2 hc
    · exact n2 (lk.lineInj _ _ n1 hg hc)
  · intro l1 l2 h1 h2 e
    rw [sp.lsize] at h1 h2
    obtain ⟨n1, _, n3⟩ := nm_facts hg h1
    obtain ⟨p1, _, p3⟩ := nm_facts hg h2
    have := lk.lineInj _ _ n1 p1 e
    rw [← n3, ← p3, this]
  · intro l' hl' hng
    obtain ⟨y, hy, e⟩ := lk.lineSurj l' hl' (fun hc => hng (Or.inl hc))
    have hne : y ≠ g := fun e0 => hng (Or.inr (by rw [← e, e0]))
    obtain ⟨m1, m2⟩ := mv_facts hg hy hne
    exact ⟨mvN a.lines.size g y, by rw [sp.lsize]; exact m1, by show ψ (nmN _ _ (mvN _ _ y)) = l'; rw [m2]; exact e⟩
  · intro l hl hpo
    rw [sp.lsize] at hl
    obtain ⟨n1, _, _⟩ := nm_facts hg hl
    obtain ⟨f1, _, _, _, f4⟩ := sp.line l hl
    obtain ⟨d1, d2, d3⟩ := lk.drv _ n1 hpo
    rw [sp.nsize, f1, f4 hpo]
    refine ⟨d1, d2, ?_⟩
    have hk : (a'.node (a.line (nmN a.lines.size g l)).driver).isFork = (a.node (a.line (nmN a.lines.size g l)).driver).isFork :=
      isFork_of_kind_eq (sp.kind _)
    rw [hk]
    split
    · rename_i hc
      right
      rw [hc.1]
      exact ⟨hown, hc.2.1⟩
    · exact d3
  · intro l hl hpi
    rw [sp.lsize] at hl
    obtain ⟨n1, _, _⟩ := nm_facts hg hl
    obtain ⟨_, f2, f3, _, _⟩ := sp.line l hl
    rw [sp.nsize, f2, f3]
    exact lk.rdr _ n1 hpi
  · intro x k l hp
    rw [sp.inPin] at hp
    obtain ⟨y, hy, e⟩ := mvL_eq_some hp
    rw [hL] at e
    obtain ⟨q1, q2⟩ := lk.insLt x k y hy
    obtain ⟨_, m2, m3⟩ := hmv y q1 q2
    subst e
    rw [sp.lsize]
    exact ⟨m2, by show ¬ PI (ψ (nmN _ _ (mvN _ _ y))); rw [m3]; exact q2⟩
  · intro x k l ho hp
    have hne : x ≠ (a.line g).driver := fun e => hown (e ▸ ho)
    rw [sp.outPin, if_neg hne] at hp
    obtain ⟨y, hy, e⟩ := mvL_eq_some hp
    rw [hL] at e
    obtain ⟨q1, q2⟩ := lk.outsLt x k y ho hy
    obtain ⟨_, m2, m3⟩ := hmv y q1 q2
    subst e
    rw [sp.lsize]
    exact ⟨m2, by show ¬ PI (ψ (nmN _ _ (mvN _ _ y))); rw [m3]; exact q2⟩
  · intro d hd hno
    rw [sp.nsize] at hd
    exact rlF_drvAt hg hPO sp d (lk.host d hd hno)

end KV.Transform
