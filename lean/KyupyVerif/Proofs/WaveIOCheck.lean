import KyupyVerif.Proofs.WaveIOCapture
import KyupyVerif.Proofs.WaveIOEval
/-! Boolean forms of the table hypotheses of the path theorems (evaluated by `decide` in the examples and, in Python, on
the real tables by the harness), the remaining whole-array comparisons, and the storage lemmas of the evaluator
instance `evWave`. -/
namespace KV.WaveIO
open KV.Wave KV.Grid

/-- every state-element row has (P)PI memory -/
def stateRowsAllocatedB (tb : Tab) : Bool := (List.range' tb.nIo (tb.sLen - tb.nIo)).all fun y => decide (0 ≤ tb.ppiLoc y)
/-- every state-element row has (P)PO memory -/
def stateRowsCapturedB (tb : Tab) : Bool := (List.range' tb.nIo (tb.sLen - tb.nIo)).all fun y => decide (0 ≤ tb.ppoLoc y)
/-- the (P)PI regions (three cells each) of different rows are disjoint -/
def regionsDisjointB (tb : Tab) : Bool :=
  (List.range tb.sLen).all fun y => (List.range tb.sLen).all fun y' =>
    y == y' || decide (tb.ppiLoc y < 0) || decide (tb.ppiLoc y' < 0) ||
      decide (tb.ppiLoc y + 3 ≤ tb.ppiLoc y') || decide (tb.ppiLoc y' + 3 ≤ tb.ppiLoc y)
/-- `s_ppo_to_ppi`: the rows the kernel transfers (both slots have memory) are exactly the state-element rows -/
def transferRowsB (tb : Tab) : Bool :=
  (List.range tb.sLen).all fun y => decide (tb.nIo ≤ y) == (decide (0 ≤ tb.ppiLoc y) && decide (0 ≤ tb.ppoLoc y))
/-- captured regions are not empty -/
def capsPositiveB (tb : Tab) : Bool := (List.range tb.sLen).all fun y => decide (tb.ppoLoc y < 0) || decide (0 < tb.ppoCap y)
/-- logic values of all used rows and lanes are `0` or at least one half -/
def flagsOKB (tb : Tab) (den sims : Nat) (s : Nat → Nat → SRow) : Bool :=
  (List.range sims).all fun x => (List.range tb.sLen).all fun y =>
    decide (tb.ppiLoc y < 0) || (decide (FlagOK den (s x y).ini) && decide (FlagOK den (s x y).fin))

theorem stateRowsAllocatedB_sound {tb : Tab} (h : stateRowsAllocatedB tb = true) : StateRowsAllocated tb := by
  intro y h1 h2
  have := List.all_eq_true.mp h y (List.mem_range'_1.mpr ⟨h1, by omega⟩)
  simpa using this

theorem stateRowsCapturedB_sound {tb : Tab} (h : stateRowsCapturedB tb = true) :
    ∀ y, tb.nIo ≤ y → y < tb.sLen → 0 ≤ tb.ppoLoc y := by
  intro y h1 h2
  have := List.all_eq_true.mp h y (List.mem_range'_1.mpr ⟨h1, by omega⟩)
  simpa using this

theorem regionsDisjointB_sound {tb : Tab} (h : regionsDisjointB tb = true) : RegionsDisjoint tb := by
  intro y y' hy hy' hne h1 h2
  have := List.all_eq_true.mp (List.all_eq_true.mp h y (List.mem_range.mpr hy)) y' (List.mem_range.mpr hy')
  simp only [Bool.or_eq_true, beq_iff_eq, decide_eq_true_eq] at this
  omega

theorem transferRowsB_sound {tb : Tab} (h : transferRowsB tb = true) :
    ∀ y, y < tb.sLen → (tb.nIo ≤ y ↔ (0 ≤ tb.ppiLoc y ∧ 0 ≤ tb.ppoLoc y)) := by
  intro y hy
  have := List.all_eq_true.mp h y (List.mem_range.mpr hy)
  rw [beq_iff_eq] at this
  constructor
  · intro h1
    have h' : (decide (0 ≤ tb.ppiLoc y) && decide (0 ≤ tb.ppoLoc y)) = true := by rw [← this]; simpa using h1
    simpa using h'
  · intro h2
    have h' : decide (tb.nIo ≤ y) = true := by rw [this]; simpa using h2
    simpa using h'

theorem capsPositiveB_sound {tb : Tab} (h : capsPositiveB tb = true) : ∀ y, y < tb.sLen → 0 ≤ tb.ppoLoc y → 0 < tb.ppoCap y := by
  intro y hy h0
  have := List.all_eq_true.mp h y (List.mem_range.mpr hy)
  simp only [Bool.or_eq_true, decide_eq_true_eq] at this
  omega

theorem flagsOKB_sound {tb : Tab} {den sims : Nat} {s : Nat → Nat → SRow} (h : flagsOKB tb den sims s = true) :
    ∀ x y, x < sims → y < tb.sLen → 0 ≤ tb.ppiLoc y → FlagOK den (s x y).ini ∧ FlagOK den (s x y).fin := by
  intro x y hx hy h0
  have := List.all_eq_true.mp (List.all_eq_true.mp h x (List.mem_range.mpr hx)) y (List.mem_range.mpr hy)
  simp only [Bool.or_eq_true, Bool.and_eq_true, decide_eq_true_eq] at this
  rcases this with h' | h'
  · omega
  · exact h'

/-! ### state transfer, whole array -/
theorem ppoToPpi_paths_agree (tb : Tab) (time : T) (sims bx by_ : Nat) (hbx : 0 < bx) (hby : 0 < by_)
    (s : Nat → Nat → SRow) (hrows : ∀ y, y < tb.sLen → (tb.nIo ≤ y ↔ (0 ≤ tb.ppiLoc y ∧ 0 ≤ tb.ppoLoc y))) :
    gpuPpoToPpi tb time sims bx by_ s = cpuPpoToPpiAll tb time sims s := by
  funext x y
  rw [gpuPpoToPpi_spec tb time sims bx by_ hbx hby, cpuPpoToPpi_spec]
  by_cases hy : y < tb.sLen
  · have := hrows y hy
    by_cases hx : x < sims
    · by_cases hn : tb.nIo ≤ y
      · have hb := this.mp hn
        simp only [hx, hy, hn, hb, and_self, if_true]
      · have hb : ¬ (0 ≤ tb.ppiLoc y ∧ 0 ≤ tb.ppoLoc y) := fun h => hn (this.mpr h)
        have e1 : ¬ (x < sims ∧ y < tb.sLen ∧ 0 ≤ tb.ppiLoc y ∧ 0 ≤ tb.ppoLoc y) := fun h => hb h.2.2
        have e2 : ¬ (x < sims ∧ tb.nIo ≤ y ∧ y < tb.sLen) := fun h => hn h.2.1
        rw [if_neg e1, if_neg e2]
    · have e1 : ¬ (x < sims ∧ y < tb.sLen ∧ 0 ≤ tb.ppiLoc y ∧ 0 ≤ tb.ppoLoc y) := fun h => hx h.1
      have e2 : ¬ (x < sims ∧ tb.nIo ≤ y ∧ y < tb.sLen) := fun h => hx h.1
      rw [if_neg e1, if_neg e2]
  · have e1 : ¬ (x < sims ∧ y < tb.sLen ∧ 0 ≤ tb.ppiLoc y ∧ 0 ≤ tb.ppoLoc y) := fun h => hy h.2.1
    have e2 : ¬ (x < sims ∧ tb.nIo ≤ y ∧ y < tb.sLen) := fun h => hy h.2.2
    rw [if_neg e1, if_neg e2]

/-- the transfer keeps logic values inside the domain on which the two assignment paths agree, provided the captured
    values are (`s[8]` is `0` or `1` after every `c_to_s`) -/
theorem ppoToPpiRow_flags (den : Nat) (time : T) (r : SRow) (h2 : FlagOK den r.fin) (h8 : FlagOK den r.cap) :
    FlagOK den (ppoToPpiRow time r).ini ∧ FlagOK den (ppoToPpiRow time r).fin := ⟨h2, h8⟩

/-! ### capture, whole array -/
theorem cToS_paths_agree (tb : Tab) (time : T) (sims bx by_ : Nat) (hbx : 0 < bx) (hby : 0 < by_) (c : Nat → Col)
    (res : Nat → Nat → Option Cap) (hrows : ∀ y, tb.nIo ≤ y → y < tb.sLen → 0 ≤ tb.ppoLoc y)
    (hcap : ∀ y, y < tb.sLen → 0 ≤ tb.ppoLoc y → 0 < tb.ppoCap y) (hio : tb.nIo ≤ tb.sLen) (x : Nat) (hx : x < sims) :
    gpuCToS tb time sims bx by_ c res x = cpuCToS tb time (c x) (res x) := by
  funext y
  rw [gpuCToS_spec tb time sims bx by_ hbx hby, cpuCToS_spec]
  by_cases hy : y < tb.sLen
  · by_cases h0 : 0 ≤ tb.ppoLoc y
    · have hm : (y < tb.nIo ∧ 0 ≤ tb.ppoLoc y) ∨ (tb.nIo ≤ y ∧ y < tb.sLen) := by
        by_cases hn : y < tb.nIo
        · exact Or.inl ⟨hn, h0⟩
        · exact Or.inr ⟨by omega, hy⟩
      rw [if_pos ⟨hx, hy, h0⟩, if_pos ((mem_cpuCaptureRows tb y).mpr hm), capture_paths _ _ _ (hcap y hy h0)]
    · have hm : ¬ ((y < tb.nIo ∧ 0 ≤ tb.ppoLoc y) ∨ (tb.nIo ≤ y ∧ y < tb.sLen)) := by
        rintro (h | h)
        · exact h0 h.2
        · exact h0 (hrows y h.1 h.2)
      have e1 : ¬ (x < sims ∧ y < tb.sLen ∧ 0 ≤ tb.ppoLoc y) := fun h => h0 h.2.2
      rw [if_neg e1, if_neg (fun h => hm ((mem_cpuCaptureRows tb y).mp h))]
  · have hm : ¬ ((y < tb.nIo ∧ 0 ≤ tb.ppoLoc y) ∨ (tb.nIo ≤ y ∧ y < tb.sLen)) := by
      rintro (h | h) <;> omega
    have e1 : ¬ (x < sims ∧ y < tb.sLen ∧ 0 ≤ tb.ppoLoc y) := fun h => hy h.2.1
    rw [if_neg e1, if_neg (fun h => hm ((mem_cpuCaptureRows tb y).mp h))]

/-! ### storing and reading waveforms -/
theorem writeCells_frame (c : Col) (loc : Int) (l : List T) (a : Int) (h : ¬ (loc ≤ a ∧ a < loc + l.length)) :
    writeCells c loc l a = c a := by
  induction l generalizing c loc with
  | nil => rfl
  | cons t r ih =>
    simp only [writeCells, List.length_cons] at *
    rw [ih]
    · unfold updI
      have : ¬ a = loc := by omega
      simp [this]
    · omega

theorem rdCells_writeCells (c : Col) (loc : Int) (l : List T) (n : Nat) :
    rdCells (writeCells c loc l) loc (l.length + n) = l ++ rdCells c (loc + l.length) n := by
  induction l generalizing c loc with
  | nil =>
    simp only [writeCells, List.length_nil, Nat.zero_add, List.nil_append]
    congr 1
    omega
  | cons t r ih =>
    simp only [writeCells, List.length_cons]
    have hsplit : r.length + 1 + n = (r.length + n) + 1 := by omega
    rw [hsplit]
    unfold rdCells at ih ⊢
    rw [List.range_succ_eq_map, List.map_cons, List.map_map]
    have h0 : writeCells (updI c loc t) (loc + 1) r (loc + ((0 : Nat) : Int)) = t := by
      rw [writeCells_frame _ _ _ _ (by omega)]
      simp [updI]
    rw [h0, List.cons_append]
    congr 1
    have := ih (updI c loc t) (loc + 1)
    have e1 : (List.range (r.length + n)).map ((fun (k : Nat) => writeCells (updI c loc t) (loc + 1) r (loc + (k : Int))) ∘ Nat.succ)
        = (List.range (r.length + n)).map (fun (k : Nat) => writeCells (updI c loc t) (loc + 1) r (loc + 1 + (k : Int))) := by
      apply List.map_congr_left
      intro k _
      simp only [Function.comp]
      congr 1
      omega
    rw [e1, this]
    congr 1
    apply List.map_congr_left
    intro k _
    have : ¬ (loc + 1 + ((r.length : Nat) : Int) + (k : Int) = loc) := by omega
    simp only [updI, this, if_false]
    congr 1
    omega

/-- **a stored waveform reads back** from every region large enough to hold it, whatever the memory held before and
    holds behind the terminator (entries are not terminator cells, the terminator is one) -/
theorem read_wrWave (c : Col) (loc : Int) (w : Wv) (cap : Nat) (hfit : w.ents.length + 1 ≤ cap)
    (hents : ∀ x ∈ w.ents, isEnd x = false) (hterm : isEnd w.term = true) :
    readWave (rdCells (wrWave c loc w) loc cap) = w := by
  obtain ⟨n, rfl⟩ : ∃ n, cap = (w.ents ++ [w.term]).length + n := ⟨cap - (w.ents.length + 1), by simp; omega⟩
  unfold wrWave
  rw [rdCells_writeCells, List.append_assoc, List.singleton_append]
  exact readWave_stored w _ hents hterm

/-- storing a waveform changes only the cells it occupies -/
theorem wrWave_frame (c : Col) (loc : Int) (w : Wv) (a : Int) (h : ¬ (loc ≤ a ∧ a < loc + (w.ents.length + 1 : Nat))) :
    wrWave c loc w a = c a := by
  unfold wrWave
  apply writeCells_frame
  simpa using h

end KV.WaveIO
