import KyupyVerif.Proofs.FormatEquiv4
import KyupyVerif.Model.VerilogText
/-! The Verilog rendering `verilogOf nl` as a MODULE of the text level (`VModule`, Model/VerilogText.lean): `nlModule name nl` is the
parse tree whose printed text is
  `module name(p…); input a; output y; … kind inst(.o(name), .i0(d0), …); … endmodule`,
`toRs` of its statements is `nlRs nl`, and `transform` of those is `verilogOf nl` — so `verilog_text_to_net` speaks about it. -/
namespace KV.Netlist
open KV KV.VerilogText

def primVPins : List String → List VPin
  | [] => []
  | [d0] => [.named "i0" (some (.sig d0 none))]
  | [d0, d1] => [.named "i0" (some (.sig d0 none)), .named "i1" (some (.sig d1 none))]
  | [d0, d1, d2] => [.named "i0" (some (.sig d0 none)), .named "i1" (some (.sig d1 none)), .named "i2" (some (.sig d2 none))]
  | d0 :: d1 :: d2 :: d3 :: _ => [.named "i0" (some (.sig d0 none)), .named "i1" (some (.sig d1 none)),
      .named "i2" (some (.sig d2 none)), .named "i3" (some (.sig d3 none))]

def primRPins : List String → List (String × Option Sel)
  | [] => []
  | [d0] => [("i0", some (.name d0))]
  | [d0, d1] => [("i0", some (.name d0)), ("i1", some (.name d1))]
  | [d0, d1, d2] => [("i0", some (.name d0)), ("i1", some (.name d1)), ("i2", some (.name d2))]
  | d0 :: d1 :: d2 :: d3 :: _ => [("i0", some (.name d0)), ("i1", some (.name d1)), ("i2", some (.name d2)), ("i3", some (.name d3))]

def nlVDecl (p : Bool × String) : VStmt := .decl (if p.1 then .output else .input) none [p.2]
def nlVInst (g : NlGate) : VStmt := .inst g.kind g.inst (.named "o" (some (.sig g.name none)) :: primVPins g.drv)
def nlRDecl (p : Bool × String) : RStmt := .decl (if p.1 then .output else .input) none [p.2]
def nlRInst (g : NlGate) : RStmt := .inst g.kind g.inst (("o", some (.name g.name)) :: primRPins g.drv)

/-- the module of the text level -/
def nlModule (name : String) (nl : Nl) : VModule := ⟨name, nl.portNames, nl.ports.map nlVDecl ++ nl.gates.map nlVInst⟩
/-- the statement list the transformer callbacks receive -/
def nlRs (nl : Nl) : List RStmt := nl.ports.map nlRDecl ++ nl.gates.map nlRInst

/-- no signal name contains an apostrophe (such a word is read as a sized constant or is unsupported: `toSel`) -/
def noAposB (nl : Nl) : Bool :=
  nl.gates.all fun g => !g.name.toList.contains '\'' && g.drv.all fun d => !d.toList.contains '\''

theorem toSel_name (n : String) (h : n.toList.contains '\'' = false) : toSel (.sig n none) = some (.name n) := by
  rw [toSel, h]; rfl

theorem toPins_primVPins (drv : List String) (h : ∀ d ∈ drv, d.toList.contains '\'' = false) :
    toPins (primVPins drv) = some (primRPins drv) := by
  match drv, h with
  | [], _ => rfl
  | [d0], h => simp [primVPins, primRPins, toPins, toSel_name d0 (h d0 (by simp))]
  | [d0, d1], h => simp [primVPins, primRPins, toPins, toSel_name d0 (h d0 (by simp)), toSel_name d1 (h d1 (by simp))]
  | [d0, d1, d2], h =>
    simp [primVPins, primRPins, toPins, toSel_name d0 (h d0 (by simp)), toSel_name d1 (h d1 (by simp)), toSel_name d2 (h d2 (by simp))]
  | d0 :: d1 :: d2 :: d3 :: _, h =>
    simp [primVPins, primRPins, toPins, toSel_name d0 (h d0 (by simp)), toSel_name d1 (h d1 (by simp)), toSel_name d2 (h d2 (by simp)),
      toSel_name d3 (h d3 (by simp))]

theorem toRs_append (a b : List VStmt) (ra rb : List RStmt) (ha : toRs a = some ra) (hb : toRs b = some rb) :
    toRs (a ++ b) = some (ra ++ rb) := by
  induction a generalizing ra with
  | nil => cases ha; exact hb
  | cons x r ih =>
    rw [toRs] at ha
    cases hx : toR x with
    | none => rw [hx] at ha; cases ha
    | some y =>
      cases hr : toRs r with
      | none => rw [hx, hr] at ha; cases ha
      | some l =>
        rw [hx, hr] at ha
        cases ha
        rw [List.cons_append, toRs, hx, ih l hr]
        rfl

theorem toRs_map {α} (f : α → VStmt) (g : α → RStmt) (l : List α) (h : ∀ x ∈ l, toR (f x) = some (g x)) :
    toRs (l.map f) = some (l.map g) := by
  induction l with
  | nil => rfl
  | cons x r ih =>
    rw [List.map_cons, toRs, h x List.mem_cons_self, ih (fun y hy => h y (List.mem_cons_of_mem _ hy))]
    rfl

theorem toRs_nlModule (name : String) (nl : Nl) (h : noAposB nl = true) : toRs (nlModule name nl).stmts = some (nlRs nl) := by
  simp only [noAposB, List.all_eq_true, Bool.and_eq_true, Bool.not_eq_true'] at h
  apply toRs_append
  · apply toRs_map
    intro p _
    rw [nlVDecl, nlRDecl]
    cases p.1 <;> rfl
  · apply toRs_map
    intro g hg
    rw [nlVInst, nlRInst, toR, toPins, toSel_name g.name (h g hg).1, toPins_primVPins g.drv (h g hg).2]
    rfl

theorem instantiation_prim (nm : String) (drv : List String) :
    instantiation (("o", some (.name nm)) :: primRPins drv) = ("o", .one nm) :: primInPins drv := by
  match drv with
  | [] => rfl
  | [_] => rfl
  | [_, _] => rfl
  | [_, _, _] => rfl
  | _ :: _ :: _ :: _ :: _ => rfl

theorem transform_nlRs (nl : Nl) : (nlRs nl).map transform = verilogOf nl := by
  rw [nlRs, verilogOf, List.map_append, List.map_map, List.map_map]
  have h1 : nl.ports.map (transform ∘ nlRDecl) = nl.ports.map fun p => Stmt.decls [nlDecl p] := by
    apply List.map_congr_left
    intro p _
    simp only [Function.comp, nlRDecl, transform, declaration, nlDecl]
    cases p.1 <;> rfl
  have h2 : nl.gates.map (transform ∘ nlRInst) = nl.gates.map fun g => Stmt.inst g.kind g.inst (nlInst g).pins := by
    apply List.map_congr_left
    intro g _
    simp only [Function.comp, nlRInst, transform, instantiation_prim]
    rfl
  rw [h1, h2]

theorem hasPos_nlModule (name : String) (nl : Nl) : (nlModule name nl).stmts.any VStmt.hasPos = false := by
  rw [List.any_eq_false]
  intro st hst
  rcases List.mem_append.mp hst with h | h
  · obtain ⟨p, _, rfl⟩ := List.mem_map.mp h
    simp [nlVDecl, VStmt.hasPos]
  · obtain ⟨g, _, rfl⟩ := List.mem_map.mp h
    simp only [nlVInst, VStmt.hasPos, List.any_cons, VPin.isPos, Bool.false_or, Bool.not_eq_true]
    match g.drv with
    | [] => rfl
    | [_] => rfl
    | [_, _] => rfl
    | [_, _, _] => rfl
    | _ :: _ :: _ :: _ :: _ => rfl

theorem ok_nlRs (nl : Nl) : (nlRs nl).all RStmt.ok = true := by
  rw [List.all_eq_true]
  intro st hst
  rcases List.mem_append.mp hst with h | h
  · obtain ⟨p, _, rfl⟩ := List.mem_map.mp h
    rfl
  · obtain ⟨g, _, rfl⟩ := List.mem_map.mp h
    simp only [nlRInst, RStmt.ok, List.all_cons, Sel.ok, Bool.true_and]
    match g.drv with
    | [] => rfl
    | [_] => rfl
    | [_, _] => rfl
    | [_, _, _] => rfl
    | _ :: _ :: _ :: _ :: _ => rfl

end KV.Netlist
