import KyupyVerif.Proofs.ImplDescribes
import KyupyVerif.Proofs.TechFun
import KyupyVerif.Proofs.TechAdd
/-! Glue for the composition C19 → C10, part 2: for an instance of a combinational library cell whose implementation is
described by a row of the generated library tables, the RELATIONAL meaning `ImplMatches` of C10 (existence of a consistent
labelling of the implementation with the instance's port values) is the FUNCTIONAL meaning of C19 (every connected output
carries the datasheet function of the values on the input pins). -/
namespace KV.Transform
open KV KV.Sig KV.TL KV.DS

/-- what `describesB` gives -/
structure Describes (cr : Cell) (m : NNet) (sh : Shape) (order : List Nat) : Prop where
  prog : cr.prog = (genOps Gen.kindPrefixes m.net order false).map OpRow.toOp
  snodes : m.net.sNodes = m.net.io
  slot : ∀ j n, m.net.io[j]? = some n → cr.inSlots.idxOf? (m.net.idx.ppi + j) =
    if (m.net.node n).ins.length = 0 then some (sh.inPorts.idxOf n) else none
  zero : cr.inSlots.idxOf? m.net.idx.zero = none
  nIn : cr.inNames.length = sh.inPorts.length
  outs : cr.outLines.map (·.2) = sh.outLines

theorem describes_of {cr : Cell} {m : NNet} {sh : Shape} {order : List Nat} (hsh : implShape m = some sh)
    (h : describesB Gen.kindPrefixes cr m order = true) : Describes cr m sh order := by
  obtain ⟨h1, h2, h3, h4, h5, h6⟩ := describes_parts hsh h
  exact ⟨h1, h2, h3, h4, h5, h6⟩

theorem getD_map_pin (ins : List (Option Nat)) (v : Nat → Bool) (k : Nat) :
    (ins.map fun o => match o with | some l => v l | none => false).getD k false =
      match ins.getD k none with
      | some l => v l
      | none => false := by
  simp only [List.getD_eq_getElem?_getD, List.getElem?_map]
  cases ins[k]? with
  | none => rfl
  | some o => cases o <;> rfl

section inst
variable {h : NNet} {c : Nat} {m : NNet} {sh : Shape}

/-- with all input pins connected no line of the implementation is absent -/
theorem deadLine_false (hsh : implShape m = some sh) (hfit : pinsFitB h c sh = true) (l : Nat) :
    deadLine h c m sh l = false := by
  simp only [pinsFitB, Bool.and_eq_true, beq_iff_eq, List.all_eq_true] at hfit
  obtain ⟨hlen, hall⟩ := hfit
  have hin := (implShape_spec m sh hsh).1
  cases hd : deadLine h c m sh l with
  | false => rfl
  | true =>
    exfalso
    simp only [deadLine, Bool.and_eq_true, beq_iff_eq, List.contains_iff_mem, Option.isNone_iff_eq_none] at hd
    obtain ⟨⟨⟨hio, hi0⟩, _⟩, hnone⟩ := hd
    have hmem : (m.net.line l).driver ∈ sh.inPorts := by
      rw [hin]; exact List.mem_filter.mpr ⟨hio, by simp [hi0]⟩
    have hlt : sh.inPorts.idxOf (m.net.line l).driver < (h.net.node c).ins.length := by
      rw [hlen]; exact List.idxOf_lt_length_iff.mpr hmem
    unfold instIn at hnone
    rw [List.getD_eq_getElem?_getD, List.getElem?_eq_getElem hlt] at hnone
    have := hall _ (List.getElem_mem hlt)
    simp only [Option.getD_some] at hnone
    rw [hnone] at this
    cases this

theorem consN_cut {α : Type _} (dead : Nat → Bool) (hd : ∀ l, dead l = false) (z : α) (neg : α → α)
    (prim : String → α → α → α → α → α) (an v : Nat → α) :
    ConsN (cutIns m dead) z neg prim an v ↔ ConsN m z neg prim an v := by
  have key : ∀ l, lineEq (cutIns m dead).net (spN (cutIns m dead).net) z neg prim an v l =
      lineEq m.net (spN m.net) z neg prim an v l := by
    intro l
    apply Transform.lineEq_congr
    · rw [cutIns_line]; exact cutIns_kind m dead _
    · rw [cutIns_line]
    · rw [cutIns_line, cutIns_spN]
    · intro k
      rw [cutIns_line, cutIns_inPin]
      cases (m.net.node (m.net.line l).driver).inPin k with
      | none => rfl
      | some l' => simp [hd l']
  constructor
  · intro hc l hl
    have := hc l (by rw [cutIns_lsize]; exact hl)
    rw [this, key l]
  · intro hc l hl
    rw [cutIns_lsize] at hl
    rw [hc l hl, key l]

/-- the stimulus of the C19 row for the values on the instance's pins holds the port values of `ImplMatches` -/
theorem env_ports {cr : Cell} {order : List Nat} (hsh : implShape m = some sh) (hfit : pinsFitB h c sh = true)
    (hd : Describes cr m sh order) (v anm : Nat → Bool)
    (hport : ∀ p ∈ m.net.io, anm p = portVal h c sh false v p) :
    cr.env (instVals h c false v) m.net.idx.zero = false ∧
    ∀ p, p < m.net.sNodes.length →
      cr.env (instVals h c false v) (m.net.idx.ppi + p) = anm (m.net.sNodes.getD p 0) := by
  constructor
  · simp [Cell.env, hd.zero]
  · intro p hp
    rw [hd.snodes] at hp ⊢
    have hg : m.net.io[p]? = some m.net.io[p] := List.getElem?_eq_getElem hp
    rw [List.getD_eq_getElem?_getD, hg, Option.getD_some]
    rw [hport _ (List.getElem_mem hp)]
    simp only [Cell.env, hd.slot p _ hg, portVal, instIn]
    simp only [pinsFitB, Bool.and_eq_true, beq_iff_eq] at hfit
    by_cases hi : (m.net.node m.net.io[p]).ins.length = 0
    · simp only [hi, if_true, instVals]
      exact getD_map_pin _ v _
    · simp only [hi, if_false]
      have hnm : m.net.io[p] ∉ sh.inPorts := by
        rw [(implShape_spec m sh hsh).1]
        intro hm
        have := (List.mem_filter.mp hm).2
        simp only [beq_iff_eq] at this
        exact hi this
      have hidx : sh.inPorts.idxOf m.net.io[p] = (h.net.node c).ins.length := by
        rw [hfit.1]; exact List.idxOf_eq_length hnm
      rw [hidx, List.getD_eq_getElem?_getD, List.getElem?_eq_none (Nat.le_refl _)]
      rfl
end inst

/-- **relational = functional.** Instance `c` of a library cell in the host `h`, implementation `m` (acyclic: `order`; every
    line written by a row), described by the row `cr` of the C19 tables whose name `name` is in the listed family `fam`; all
    input pins connected.  Then there is the datasheet function list `fs` of the row, and for EVERY labelling `v` of the host:
    the cell has the relational meaning of its implementation under `v` iff every connected output pin `k` carries
    `fs[k]` of the values on the input pins. -/
theorem implMatches_iff_datasheet (h : NNet) (c : Nat) (m : NNet) (sh : Shape) (cr : Cell) (order : List Nat)
    (name : Str) (fam : DS.Fam)
    (hsh : implShape m = some sh) (hwf : m.net.wfB = true) (ho : orderOKB m.net order = true)
    (hfk : forksOKB m.net order = true) (hall : linesDrivenB Gen.kindPrefixes m.net order = true)
    (hdesc : describesB Gen.kindPrefixes cr m order = true) (hfit : pinsFitB h c sh = true)
    (hcr : cr ∈ Tech.cells) (hn : name ∈ cr.names) (hf : classify (baseName name) = some fam) :
    ∃ fs, datasheet fam cr.inNames cr.outNames = some fs ∧ fs.length = sh.outLines.length ∧
      ∀ v : Nat → Bool, (∃ anm vm, ImplMatches h c m sh false (!·) prim2 anm vm v) ↔
        ∀ k (hk : k < fs.length) ll, instOut h c k = some ll → v ll = fs[k] (instVals h c false v) := by
  have hd := describes_of hsh hdesc
  have hspec : FamSpec cr fam := by
    cases ha : fam.isAdder with
    | true => exact funOK_sound (all_chunks Tech.adders hcr) hn hf ha
    | false => exact funOK_sound (all_chunks Tech.gates_all hcr) hn hf (by simp [ha])
  obtain ⟨_, fs, hfs, hlen, hcomp⟩ := hspec
  have holen : cr.outLines.length = sh.outLines.length := by
    rw [← hd.outs, List.length_map]
  have hdead := deadLine_false (h := h) (c := c) hsh hfit
  have hvlen : ∀ v : Nat → Bool, (instVals h c false v).length = cr.inNames.length := by
    intro v
    simp only [pinsFitB, Bool.and_eq_true, beq_iff_eq] at hfit
    rw [hd.nIn, ← hfit.1]; simp [instVals]
  -- the function of the program on output `k`
  have hfun : ∀ (v : Nat → Bool) k (hk : k < fs.length) il, sh.outLines[k]? = some il →
      exec specL2 ((genOps Gen.kindPrefixes m.net order false).map OpRow.toOp) (cr.env (instVals h c false v)) il =
        fs[k] (instVals h c false v) := by
    intro v k hk il hil
    have hk' : k < cr.outLines.length := by omega
    have := hcomp k hk' hk (instVals h c false v) (hvlen v)
    rw [hd.prog] at this
    have hline : (cr.outLines[k]).2 = il := by
      have h1 : (cr.outLines.map (·.2))[k]? = some (cr.outLines[k]).2 := by
        rw [List.getElem?_map, List.getElem?_eq_getElem hk']; rfl
      rw [hd.outs, hil] at h1
      exact (Option.some.inj h1).symm
    rw [hline] at this
    exact this
  refine ⟨fs, hfs, by omega, fun v => ⟨?_, ?_⟩⟩
  · rintro ⟨anm, vm, hcons, hport, hout⟩ k hk ll hll
    have hc := (consN_cut (m := m) _ hdead false (!·) prim2 anm vm).mp hcons
    obtain ⟨hz, henv⟩ := env_ports hsh hfit hd v anm hport
    have hkl : k < sh.outLines.length := by omega
    have hil : sh.outLines[k]? = some sh.outLines[k] := List.getElem?_eq_getElem hkl
    have hlt : sh.outLines[k] < m.net.lines.size := by
      have hsp := (implShape_spec m sh hsh).2.2
      have hk2 : k < sh.outPorts.length := by
        have := congrArg List.length hsp; simp at this; omega
      have h1 : (sh.outPorts.map fun p => (m.net.node p).inPin 0)[k]? = some ((m.net.node sh.outPorts[k]).inPin 0) := by
        rw [List.getElem?_map, List.getElem?_eq_getElem hk2]; rfl
      rw [hsp, List.getElem?_map, hil] at h1
      exact (inPin_lt hwf (Option.some.inj h1).symm).2
    rw [← hout k _ ll hil hll, consN_unique m order hwf ho hfk hall _ anm vm hz henv hc _ hlt]
    exact hfun v k hk _ hil
  · intro hds
    let anm : Nat → Bool := fun p => portVal h c sh false v p
    obtain ⟨hz, henv⟩ := env_ports hsh hfit hd v anm (fun _ _ => rfl)
    refine ⟨anm, _, (consN_cut (m := m) _ hdead false (!·) prim2 anm _).mpr
      (consN_exec m order hwf ho hfk hall _ anm hz henv), fun _ _ => rfl, ?_⟩
    intro k il ll hil hll
    have hk : k < fs.length := by
      have := (List.getElem?_eq_some_iff.mp hil).1; omega
    rw [hds k hk ll hll]
    exact hfun v k hk il hil

/-! ### per instance, in the vocabulary of `resolve_sem` -/

/-- **datasheet meaning of instance `c`** under the host labelling `v`: the kind of `c` is in a listed family, the pins of its
    table row `row kind` fit the family, and every connected output pin `k` carries the datasheet function `fs[k]` of the
    values on the input pins (pin order) -/
def CellDatasheet (row : String → Cell) (h : NNet) (c : Nat) (v : Nat → Bool) : Prop :=
  ∃ fam fs, classify (baseName (h.net.node c).kind.toList) = some fam ∧
    datasheet fam (row (h.net.node c).kind).inNames (row (h.net.node c).kind).outNames = some fs ∧
    ∀ k (hk : k < fs.length) ll, instOut h c k = some ll → v ll = fs[k] (instVals h c false v)

/-- **certificate for instance `c`** (every clause decidable; evaluated by the driver for every cell of the five libraries):
    its kind has the implementation `impl` in the library, `impl` is well-formed and acyclic (`ord kind` is a topological order,
    every line is written by a row of the `SimOps` program), the row `row kind` of the generated C19 tables carries this kind
    name, is in a listed family and describes `impl` (`describesB`: same op rows, same ports with slots / captured lines, no state
    element, distinct ports), and all
    input pins of the instance are connected -/
def InstCert (lib : Lib) (row : String → Cell) (ord : String → List Nat) (h : NNet) (c : Nat) : Prop :=
  ∃ impl sh, lib.find (h.net.node c).kind = some impl ∧ implShape impl = some sh ∧
    impl.net.wfB = true ∧ orderOKB impl.net (ord (h.net.node c).kind) = true ∧
    forksOKB impl.net (ord (h.net.node c).kind) = true ∧
    linesDrivenB Gen.kindPrefixes impl.net (ord (h.net.node c).kind) = true ∧
    describesB Gen.kindPrefixes (row (h.net.node c).kind) impl (ord (h.net.node c).kind) = true ∧
    pinsFitB h c sh = true ∧ row (h.net.node c).kind ∈ Tech.cells ∧
    (h.net.node c).kind.toList ∈ (row (h.net.node c).kind).names ∧
    (classify (baseName (h.net.node c).kind.toList)).isSome = true

/-- for a certified instance: relational meaning of the implementation (as in `C10.resolve_sem`) ⇔ datasheet meaning -/
theorem cell_datasheet_iff {lib : Lib} {row : String → Cell} {ord : String → List Nat} {h : NNet} {c : Nat}
    (cert : InstCert lib row ord h c) (v : Nat → Bool) :
    (∃ impl sh anm vm, lib.find (h.net.node c).kind = some impl ∧ implShape impl = some sh ∧
        ImplMatches h c impl sh false (!·) prim2 anm vm v) ↔ CellDatasheet row h c v := by
  obtain ⟨impl, sh, hfind, hsh, hwf, ho, hfk, hall, hdesc, hfit, hrow, hname, hcl⟩ := cert
  obtain ⟨fam, hfam⟩ := Option.isSome_iff_exists.mp hcl
  obtain ⟨fs, hfs, _, hiff⟩ := implMatches_iff_datasheet h c impl sh _ _ _ fam hsh hwf ho hfk hall hdesc hfit hrow hname hfam
  constructor
  · rintro ⟨impl', sh', anm, vm, hf', hs', hm⟩
    rw [hfind] at hf'; cases hf'
    rw [hsh] at hs'; cases hs'
    exact ⟨fam, fs, hfam, hfs, (hiff v).mp ⟨anm, vm, hm⟩⟩
  · rintro ⟨fam', fs', hfam', hfs', hds⟩
    rw [hfam] at hfam'; cases hfam'
    rw [hfs] at hfs'; cases hfs'
    obtain ⟨anm, vm, hm⟩ := (hiff v).mpr hds
    exact ⟨impl, sh, anm, vm, hfind, hsh, hm⟩

end KV.Transform
