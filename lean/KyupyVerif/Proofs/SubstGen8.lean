import KyupyVerif.Proofs.SubstGen7
/-! Helper lemmas for C10 (`substitute_sem_general`), part 8: what the lockstep relation gives at the end of the two runs — the
real result embeds into the virtual result (`Emb`, index maps `ψ`, `π`) and is well-formed up to trailing `None`s. -/
namespace KV.Transform
open KV

theorem key_inj_of_nodup (B : NNet) (hn : B.keys.Nodup) (x y : Nat) (hx : x < B.net.nodes.size) (hy : y < B.net.nodes.size)
    (e : B.key x = B.key y) : x = y := by
  have h1 : B.keys[x]? = some (B.key x) := by simp [NNet.keys, hx]
  have h2 : B.keys[y]? = some (B.key y) := by simp [NNet.keys, hy]
  have hx' : x < B.keys.length := by simp [NNet.keys, hx]
  have hy' : y < B.keys.length := by simp [NNet.keys, hy]
  rw [List.getElem?_eq_getElem hx'] at h1
  rw [List.getElem?_eq_getElem hy'] at h2
  have : B.keys[x] = B.keys[y] := by
    rw [Option.some.inj h1, Option.some.inj h2, e]
  exact (List.getElem_inj hn).mp this

section fin
variable {Own : Nat → Prop} {π ψ : Nat → Nat} {G : Nat → Prop} {A B : NNet}
variable (lk : Lk Own π ψ G G (fun _ => False) A.net B.net)
variable (hnames : ∀ x, x < A.net.nodes.size → A.names.getD x "" = B.names.getD (π x) "")
variable (hio : ∀ i ∈ A.net.io, i < A.net.nodes.size)
include lk hnames hio

/-- the real result embeds into the virtual result -/
theorem Lk.emb : Emb B A ⟨ψ, π⟩ := by
  refine ⟨lk.nodeLt, fun l hl => (lk.lineLt l hl).1, fun j1 j2 _ _ e => lk.πinj j1 j2 e, lk.lineInj, lk.kind, hnames, lk.io, hio, ?_, ?_⟩
  · intro j hj _ k; exact lk.ins j k hj
  · intro l hl
    obtain ⟨d1, d2, d3⟩ := lk.drv l hl (fun x => x)
    refine ⟨d1, d2.symm, ?_⟩
    rcases d3 with d3 | d3
    · exact Or.inl d3.symm
    · exact Or.inr d3.2

/-- the real result is well-formed up to trailing `None`s -/
theorem Lk.wfm (wB : WFr B) (hpb : ∀ l', l' < B.net.lines.size → ¬ G l' → PtsBack B l')
    (hsz : A.names.size = A.net.nodes.size) : WFm A := by
  have hkey : ∀ x, x < A.net.nodes.size → A.key x = B.key (π x) := by
    intro x hx
    simp only [NNet.key, hnames x hx, isFork_of_kind_eq (lk.kind x hx)]
  refine ⟨hsz, ?_, hio, ?_, ?_, ?_⟩
  · apply nodup_map_range
    intro x y hx hy e
    rw [hkey x hx, hkey y hy] at e
    exact lk.πinj x y (key_inj_of_nodup B wB.nodup _ _ (lk.nodeLt x hx) (lk.nodeLt y hy) e)
  · intro l hl
    obtain ⟨d1, d2, d3⟩ := lk.drv l hl (fun x => x)
    obtain ⟨q1, q2⟩ := lk.lineLt l hl
    obtain ⟨r1, r2, r3⟩ := lk.rdr l hl q2
    obtain ⟨b1, b2, b3⟩ := wB.back (ψ l) q1
    refine ⟨d1, r1, ?_, ?_⟩
    · by_cases ho : Own (A.net.line l).driver
      · have hdp : (A.net.line l).dpin = (B.net.line (ψ l)).dpin := by
          rcases d3 with d3 | d3
          · exact d3
          · exact absurd ho d3.1
        have := lk.outs _ (A.net.line l).dpin d1 ho
        rw [d2, hdp, b3] at this
        cases hp : (A.net.node (A.net.line l).driver).outs.getD (A.net.line l).dpin none with
        | none => rw [hdp] at hp; rw [hp] at this; simp at this
        | some l' =>
          rw [hdp] at hp; rw [hp] at this
          simp only [Option.map_some, Option.some.injEq] at this
          have hl' := (lk.outsLt _ _ l' ho hp).1
          rw [lk.lineInj l' l hl' hl this]
      · exact (lk.host _ d1 ho).back l hl (fun x => x) rfl
    · have hb : (B.net.node (B.net.line (ψ l)).reader).ins.getD (B.net.line (ψ l)).rpin none = some (ψ l) := hpb (ψ l) q1 q2
      have := lk.ins _ (A.net.line l).rpin r1
      rw [r2, r3, hb] at this
      cases hp : (A.net.node (A.net.line l).reader).ins.getD (A.net.line l).rpin none with
      | none => rw [r3] at hp; rw [hp] at this; simp at this
      | some l' =>
        have hl' := (lk.insLt _ _ l' hp).1
        rw [r3] at hp; rw [hp] at this
        simp only [Option.map_some, Option.some.injEq] at this
        rw [lk.lineInj l' l hl' hl this]
  · intro x hx k l hp
    obtain ⟨hl, _⟩ := lk.insLt x k l hp
    have := lk.ins x k hx
    rw [hp] at this
    simp only [Option.map_some] at this
    obtain ⟨_, a2, a3⟩ := wB.fwdIn (π x) (lk.nodeLt x hx) k (ψ l) this.symm
    obtain ⟨_, r2, r3⟩ := lk.rdr l hl (lk.lineLt l hl).2
    exact ⟨hl, lk.πinj _ _ (r2.trans a2), r3.trans a3⟩
  · intro x hx k l hp
    by_cases ho : Own x
    · obtain ⟨hl, _⟩ := lk.outsLt x k l ho hp
      have := lk.outs x k hx ho
      rw [hp] at this
      simp only [Option.map_some] at this
      obtain ⟨_, a2, a3⟩ := wB.fwdOut (π x) (lk.nodeLt x hx) k (ψ l) this.symm
      obtain ⟨_, d2, d3⟩ := lk.drv l hl (fun x => x)
      have hdx : (A.net.line l).driver = x := lk.πinj _ _ (d2.trans a2)
      refine ⟨hl, hdx, ?_⟩
      rcases d3 with d3 | d3
      · exact d3.trans a3
      · rw [hdx] at d3; exact absurd ho d3.1
    · obtain ⟨q1, q2, q3, _⟩ := (lk.host x hx ho).fwd k l hp
      exact ⟨q1, q2, q3⟩

end fin
end KV.Transform
