import KyupyVerif.Proofs.StripLink
/-! Shape of the rows `SimOps` schedules for a driven fork, and: the stripped schedule is the un-stripped schedule
without the rows that write a branch (for every well-formed netlist). -/
namespace KV
open KV.Sig

theorem isFork_lkind {nd : NodeD} (h : nd.isFork = true) : (nd.lkind == "__fork__") = true := by
  unfold NodeD.isFork at h
  have hk : nd.kind = "__fork__" := by simpa using h
  unfold NodeD.lkind
  rw [hk]
  decide +kernel

/-- the rows of a driven fork: one `BUF1` row per connected output pin -/
def forkRows (net : Net) (ix : Idx) (n : Nat) : List OpRow :=
  (net.node n).outs.zipIdx.filterMap fun (o, _) => o.map fun l =>
    OpRow.mk BUF1 l (((net.node n).inPin 0).getD ix.zero) (((net.node n).inPin 1).getD ix.zero)
      (((net.node n).inPin 2).getD ix.zero) (((net.node n).inPin 3).getD ix.zero)

theorem nodeOps_fork (tbl : List PrefixRow) (net : Net) (sn : List Nat) (ix : Idx) (strip : Bool) (n : Nat)
    (h : drivenFork net n = true) :
    nodeOpsS tbl net sn ix strip n = if strip then [] else forkRows net ix n := by
  have h' : ((net.node n).isFork && ((net.node n).inPin 0).isSome) = true := h
  have hl := isFork_lkind (drivenFork_spec h).1
  unfold nodeOpsS forkRows
  simp only [h', ↓reduceIte, hl]

/-- for a node that is not scheduled as a fork row producer the option does not matter -/
theorem nodeOps_strip_indep (tbl : List PrefixRow) (net : Net) (sn : List Nat) (ix : Idx) (n : Nat)
    (h : drivenFork net n = false)
    (h2 : ((net.node n).lkind == "__fork__") = true → (sPosIn sn n).isSome = true) :
    nodeOpsS tbl net sn ix true n = nodeOpsS tbl net sn ix false n := by
  have h' : ((net.node n).isFork && ((net.node n).inPin 0).isSome) = false := h
  unfold nodeOpsS
  simp only [h', Bool.false_eq_true, ↓reduceIte]
  cases hs : sPosIn sn n with
  | some p => rfl
  | none =>
    have : ((net.node n).lkind == "__fork__") = false := by
      cases hk : ((net.node n).lkind == "__fork__") with
      | false => rfl
      | true => have := h2 hk; rw [hs] at this; cases this
    simp only [this, Bool.false_eq_true, ↓reduceIte]

theorem forksOK_spec {net : Net} {order : List Nat} (hf : forksOKB net order = true) {n : Nat} (hn : n ∈ order)
    (hk : ((net.node n).lkind == "__fork__") = true) :
    (net.node n).isFork = true ∧ (net.node n).inPin 1 = none ∧ (net.node n).inPin 2 = none ∧ (net.node n).inPin 3 = none ∧
    (∀ l0, (net.node n).inPin 0 = some l0 →
      (net.node (net.line l0).driver).outs.getD (net.line l0).dpin none = some l0) ∧
    ((net.node n).inPin 0 = none → (sPosIn net.sNodes n).isSome = true) := by
  unfold forksOKB at hf
  simp only [List.all_eq_true] at hf
  have := hf n hn
  simp only [hk, Bool.not_true, Bool.false_or, Bool.and_eq_true, Option.isNone_iff_eq_none] at this
  obtain ⟨⟨⟨⟨h1, h2⟩, h3⟩, h4⟩, h5⟩ := this
  refine ⟨h1, h2, h3, h4, ?_, ?_⟩
  · intro l0 hl; rw [hl] at h5; simpa using h5
  · intro hl; rw [hl] at h5; exact h5

theorem mem_forkRows {net : Net} {ix : Idx} {n : Nat} {r : OpRow} (h : r ∈ forkRows net ix n) :
    some r.out ∈ (net.node n).outs ∧ r.lut = BUF1 ∧ r.i0 = ((net.node n).inPin 0).getD ix.zero ∧
    r.i1 = ((net.node n).inPin 1).getD ix.zero ∧ r.i2 = ((net.node n).inPin 2).getD ix.zero ∧
    r.i3 = ((net.node n).inPin 3).getD ix.zero := by
  unfold forkRows at h
  simp only [List.mem_filterMap] at h
  obtain ⟨⟨o, k⟩, hmem, hg⟩ := h
  cases o with
  | none => simp at hg
  | some l =>
    simp only [Option.map_some, Option.some.injEq] at hg
    subst hg
    exact ⟨List.mem_of_getElem? (mem_zipIdx_getElem? hmem), rfl, rfl, rfl, rfl, rfl⟩

theorem forkRows_mem {net : Net} {ix : Idx} {n x : Nat} (h : some x ∈ (net.node n).outs) :
    ∃ r ∈ forkRows net ix n, r.out = x := by
  obtain ⟨pin, hpin⟩ := mem_outs_getElem? h
  refine ⟨OpRow.mk BUF1 x (((net.node n).inPin 0).getD ix.zero) (((net.node n).inPin 1).getD ix.zero)
      (((net.node n).inPin 2).getD ix.zero) (((net.node n).inPin 3).getD ix.zero), ?_, rfl⟩
  unfold forkRows
  simp only [List.mem_filterMap]
  exact ⟨(some x, pin), List.mem_zipIdx_iff_getElem?.mpr (by simpa using hpin), rfl⟩

theorem flatMap_congr' {α β} {l : List α} {f g : α → List β} (h : ∀ a ∈ l, f a = g a) :
    l.flatMap f = l.flatMap g := by
  induction l with
  | nil => rfl
  | cons a r ih =>
    rw [List.flatMap_cons, List.flatMap_cons, h a List.mem_cons_self, ih (fun b hb => h b (List.mem_cons_of_mem _ hb))]

/-- the branch test on rows -/
def isBranchRow (net : Net) (r : OpRow) : Bool := ((stemsOf net true).getD r.out none).isSome

/-- per node: stripped rows = un-stripped rows that do not write a branch -/
theorem nodeOps_strip_filter (tbl : List PrefixRow) (net : Net) (order : List Nat) (hwf : net.wfB = true)
    (hf : forksOKB net order = true) (n : Nat) (hn : n ∈ order) (hlt : n < net.nodes.size) :
    nodeOpsS tbl net net.sNodes net.idx true n =
      (nodeOpsS tbl net net.sNodes net.idx false n).filter (fun r => !isBranchRow net r) := by
  cases hdf : drivenFork net n with
  | true =>
    rw [nodeOps_fork _ _ _ _ _ _ hdf, nodeOps_fork _ _ _ _ _ _ hdf]
    simp only [if_true, Bool.false_eq_true, if_false]
    symm
    rw [List.filter_eq_nil_iff]
    intro r hr
    obtain ⟨hout, _⟩ := mem_forkRows hr
    obtain ⟨hfk, l0, hp⟩ := drivenFork_spec hdf
    simp [isBranchRow, stems_of_fork hwf hlt hfk hp hout]
  | false =>
    have h2 : ((net.node n).lkind == "__fork__") = true → (sPosIn net.sNodes n).isSome = true := by
      intro hk
      obtain ⟨hfk, _, _, _, _, h6⟩ := forksOK_spec hf hn hk
      apply h6
      cases hp : (net.node n).inPin 0 with
      | none => rfl
      | some l0 => simp [drivenFork, hfk, hp] at hdf
    rw [nodeOps_strip_indep _ _ _ _ _ hdf h2]
    symm
    rw [List.filter_eq_self]
    intro r hr
    rcases nodeOps_out tbl net net.sNodes net.idx false n r hr with ht | ⟨pin, hpin⟩
    · have : (stemsOf net true).getD r.out none = none :=
        stems_none_ge hwf (by rw [ht]; simp [Net.idx])
      simp [isBranchRow, this]
    · simp [isBranchRow, stems_none_of_out hwf hlt hdf hpin]

/-- **the stripped schedule is the un-stripped schedule without the rows that write a branch** -/
theorem genOps_strip_filter (tbl : List PrefixRow) (net : Net) (order : List Nat) (hwf : net.wfB = true)
    (ho : orderOKB net order = true) (hf : forksOKB net order = true) :
    genOps tbl net order true = (genOps tbl net order false).filter (fun r => !isBranchRow net r) := by
  obtain ⟨_, hlt, _⟩ := orderOK_spec ho
  unfold genOps
  simp only [List.filter_flatMap]
  apply flatMap_congr'
  intro n hn
  exact nodeOps_strip_filter tbl net order hwf hf n hn (hlt n hn)

end KV
