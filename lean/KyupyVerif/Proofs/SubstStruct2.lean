import KyupyVerif.Proofs.SubstStruct1
/-! Helper lemmas for C10 (`substitute_sem`), structural part 2: the designated cell is a node of the implementation and,
unless it is a port, not a fork; the lines of the host after `phase3` are the host's lines followed by the copies. -/
namespace KV.Transform
open KV

theorem walkDesignated_spec (m : NNet) (w : WF m) : ∀ (fuel n d : Nat), n < m.net.nodes.size →
    walkDesignated m fuel n = some d → d < m.net.nodes.size ∧ ((m.net.node d).isFork = false ∨ d ∈ m.net.io)
  | 0, _, _, _, h => by simp [walkDesignated] at h
  | fuel + 1, n, d, hn, h => by
    unfold walkDesignated at h
    split at h
    · rename_i hc
      split at h
      · rename_i l hl
        have fi := w.fwdIn n hn 0 l (head?_getD hl)
        exact walkDesignated_spec m w fuel _ d (w.back l fi.1).1 h
      · exact absurd h (by simp)
    · rename_i hc
      cases (Option.some.inj h)
      refine ⟨hn, ?_⟩
      simp only [Bool.and_eq_true, Bool.not_eq_true', not_and, Bool.not_eq_false] at hc
      cases hf : (m.net.node n).isFork with
      | false => exact Or.inl rfl
      | true => right; simpa using hc hf

/-- the designated cell is a node of the implementation; it is a state element, or (repair of D32) it is not a port -/
theorem implShape_des' (m : NNet) (w : WF m) (sh : Shape) (dn : Nat) (hs : implShape m = some sh) (hd : sh.des = some dn) :
    dn < m.net.nodes.size ∧ (isSeqKind (m.net.node dn).kind = true ∨ (dn ∉ m.net.io ∧ (m.net.node dn).isFork = false)) := by
  unfold implShape at hs
  dsimp only at hs
  split at hs
  · exact absurd hs (by simp)
  · split at hs
    · exact absurd hs (by simp)
    · rename_i d0 hd0
      cases hs
      dsimp only at hd hd0
      cases hseq : (List.range m.net.nodes.size).find? (fun j => isSeqKind (m.net.node j).kind) with
      | some j =>
        rw [hseq] at hd
        simp only [Option.isSome_some, if_true] at hd
        cases (Option.some.inj hd)
        have h1 := List.find?_some hseq
        have h2 := List.mem_range.mp (List.mem_of_find?_eq_some hseq)
        exact ⟨h2, Or.inl h1⟩
      | none =>
        rw [hseq] at hd
        simp only [Option.isSome_none, Bool.false_eq_true, if_false] at hd
        subst hd
        split at hd0
        · exact absurd hd0 (by simp)
        · rename_i l0 hl0
          simp only [Option.map_eq_some_iff] at hd0
          obtain ⟨d, hwalk, e⟩ := hd0
          split at e
          · exact absurd e (by simp)
          · rename_i hnio
            cases (Option.some.inj e)
            -- `l0` is the line at pin 0 of the first output port
            have hmem : l0 ∈ (List.filterMap id (List.map (fun p => (m.net.node p).inPin 0)
                (List.filter (fun p => (m.net.node p).ins.length != 0) m.net.io))) := List.mem_of_mem_head? hl0
            rw [List.mem_filterMap] at hmem
            obtain ⟨o, ho, e⟩ := hmem
            simp only [id] at e; subst e
            rw [List.mem_map] at ho
            obtain ⟨p, hp, e⟩ := ho
            have hpio : p ∈ m.net.io := (List.mem_filter.mp hp).1
            have fi := w.fwdIn p (w.io p hpio) 0 l0 e
            have := walkDesignated_spec m w _ _ dn (w.back l0 fi.1).1 hwalk
            have hnio' : dn ∉ m.net.io := by simpa using hnio
            refine ⟨this.1, Or.inr ⟨hnio', ?_⟩⟩
            rcases this.2 with h1 | h1
            · exact h1
            · exact absurd h1 hnio'

theorem implShape_des (m : NNet) (w : WF m) (sh : Shape) (dn : Nat) (hs : implShape m = some sh) (hd : sh.des = some dn) :
    dn < m.net.nodes.size ∧ (dn ∉ m.net.io → (m.net.node dn).isFork = false) := by
  obtain ⟨h1, h2⟩ := implShape_des' m w sh dn hs hd
  refine ⟨h1, fun _ => ?_⟩
  rcases h2 with h2 | h2
  · cases hf : (m.net.node dn).isFork with
    | false => rfl
    | true =>
      have := fork_not_seq _ hf
      have h1' : (m.net.node dn).isSeq = true := h2
      simp [NodeD.isSeq, this.1, this.2] at h1'
  · exact h2.2

/-- since the repair of D32: when no port of the implementation is a flip-flop/latch the designated cell is not a port -/
theorem implShape_des_notPort (m : NNet) (w : WF m) (sh : Shape) (dn : Nat) (hs : implShape m = some sh) (hd : sh.des = some dn)
    (hps : ∀ p ∈ m.net.io, isSeqKind (m.net.node p).kind = false) : dn ∉ m.net.io := by
  rcases (implShape_des' m w sh dn hs hd).2 with h2 | h2
  · intro hio
    rw [hps dn hio] at h2
    exact absurd h2 (by simp)
  · exact h2.1

/-! ### the lines after `phase3` -/
def copL (map : Array (Option Nat)) (ln : LineD) : Bool := (map.getD ln.driver none).isSome && (map.getD ln.reader none).isSome
def mkL (map : Array (Option Nat)) (ln : LineD) : LineD :=
  ⟨(map.getD ln.driver none).getD 0, ln.dpin, (map.getD ln.reader none).getD 0, ln.rpin⟩

theorem addImplLine_eq (map : Array (Option Nat)) (st : Array NodeD × Array LineD) (ln : LineD) :
    addImplLine map st ln =
      if copL map ln then addLine st (mkL map ln).driver ln.dpin (mkL map ln).reader ln.rpin else st := by
  unfold addImplLine copL mkL
  cases h1 : map.getD ln.driver none <;> cases h2 : map.getD ln.reader none <;> simp

theorem foldl_addImplLine_lines (map : Array (Option Nat)) : ∀ (lns : List LineD) (st : Array NodeD × Array LineD),
    (lns.foldl (addImplLine map) st).2 = st.2 ++ ((lns.filter (copL map)).map (mkL map)).toArray
  | [], st => by simp
  | ln :: lns, st => by
    simp only [List.foldl_cons]
    rw [foldl_addImplLine_lines map lns, addImplLine_eq]
    by_cases hc : copL map ln = true
    · simp [hc, addLine, List.filter_cons, mkL]
    · simp [hc, List.filter_cons]

theorem lines_toList (net : Net) : net.lines.toList = (List.range net.lines.size).map net.line := by
  apply List.ext_getElem
  · simp
  · intro i h1 h2
    simp [Net.line, Array.getD_eq_getD_getElem?]
    have : i < net.lines.size := by simpa using h1
    simp [this]

theorem phase3_lines (m : NNet) (map : Array (Option Nat)) (h2 : NNet) :
    (phase3 m map h2).lines = h2.net.lines ++ ((copiedLines m map).map (mkLine m map)).toArray := by
  simp only [phase3]
  rw [foldl_addImplLine_lines, lines_toList, List.filter_map, List.map_map]
  rfl

theorem phase3_nodes_size (m : NNet) (map : Array (Option Nat)) (h2 : NNet) :
    (phase3 m map h2).nodes.size = h2.net.nodes.size := (pinsOnly_phase3 m map h2).1.1

end KV.Transform
