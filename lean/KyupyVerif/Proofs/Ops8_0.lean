import KyupyVerif.Proofs.OpsChk
import KyupyVerif.Gen.Ops8_0
namespace KV
theorem op8Table0_ok : (Gen.op8Table0 (α := Bool)).all chk8 = true := by decide +kernel
end KV
