import KyupyVerif.Proofs.VerilogCirc
import KyupyVerif.Proofs.BenchLines
/-! `verilogOKB` unpacked (`VOK`), and the whole module in closed form: `module_nodes`, `module_lines`, `module_flat`. -/
namespace KV.Netlist
open KV

/-- the hypotheses `verilogOKB` packs -/
structure VOK (cfg : Cfg) (tl : TL) (ports : List String) (stmts : List Stmt) : Prop where
  assigns : assignsOK (drivenSigs0 tl (sigDecls stmts) stmts) (assignPairs (sigDecls stmts) stmts) = true
  portsDecl : ∀ p ∈ ports, ∃ d, lookup (sigDecls stmts) p = some d ∧ d.kind ≠ .wire
  posNodup : (posNames (sigDecls stmts) ports).Nodup
  declsInPorts : ∀ n ∈ portBitNames (sigDecls stmts), n ∈ posNames (sigDecls stmts) ports
  pins : ((vInsts stmts).all fun i => i.pins.all (pinOK tl (sigDecls stmts) (drivenSigs tl (sigDecls stmts) stmts) i.ty)) = true
  cells : ((vInsts stmts).map (·.name) ++ portBitNames (sigDecls stmts) ++ constNames tl (sigDecls stmts) stmts).Nodup
  readers : ((vFlat cfg tl (sigDecls stmts) stmts).map (·.r)).Nodup
  kinds : ∀ i ∈ vInsts stmts, i.ty ≠ forkKind
  inIdx : ∀ i ∈ vInsts stmts, ((inConn tl i).map (·.2.1)).Nodup
  outs : ∀ n ∈ outputNames (sigDecls stmts), n ∈ drivenSigs tl (sigDecls stmts) stmts
  noConst : ∀ s ∈ drivenSigs tl (sigDecls stmts) stmts, isConstBit s = false

theorem nodupN_nodup : ∀ (l : List Nat), nodupN l = true → l.Nodup
  | [], _ => List.nodup_nil
  | x :: r, h => by
    simp only [nodupN, Bool.and_eq_true, Bool.not_eq_true', List.contains_eq_mem, decide_eq_false_iff_not] at h
    exact List.nodup_cons.mpr ⟨h.1, nodupN_nodup r h.2⟩

theorem nodupE_nodup : ∀ (l : List Ep), nodupE l = true → l.Nodup
  | [], _ => List.nodup_nil
  | x :: r, h => by
    simp only [nodupE, Bool.and_eq_true, Bool.not_eq_true', List.contains_eq_mem, decide_eq_false_iff_not] at h
    exact List.nodup_cons.mpr ⟨h.1, nodupE_nodup r h.2⟩

theorem vok_of (cfg : Cfg) (tl : TL) (ports : List String) (stmts : List Stmt) (h : verilogOKB cfg tl ports stmts = true) :
    VOK cfg tl ports stmts := by
  unfold verilogOKB at h
  simp only [Bool.and_eq_true] at h
  obtain ⟨⟨⟨⟨⟨⟨⟨⟨⟨⟨h1, h2⟩, h3⟩, h4⟩, h5⟩, h6⟩, h7⟩, h8⟩, h9⟩, h10⟩, h11⟩ := h
  refine ⟨h1, ?_, nodupS_nodup _ h3, ?_, h5, nodupS_nodup _ h6, nodupE_nodup _ h7, ?_, ?_, ?_, ?_⟩
  · intro p hp
    have := List.all_eq_true.mp h2 p hp
    cases hl : lookup (sigDecls stmts) p with
    | none => rw [hl] at this; cases this
    | some d => rw [hl] at this; exact ⟨d, rfl, by simpa using this⟩
  · intro n hn
    have := List.all_eq_true.mp h4 n hn
    simpa using this
  · intro i hi
    have := List.all_eq_true.mp h8 i hi
    simpa using this
  · intro i hi
    exact nodupN_nodup _ (List.all_eq_true.mp h9 i hi)
  · intro n hn
    have := List.all_eq_true.mp h10 n hn
    simpa using this
  · intro s hs
    have := List.all_eq_true.mp h11 s hs
    simpa using this

def vNodes (cfg : Cfg) (tl : TL) (ds : List Decl) (stmts : List Stmt) : List NodeM :=
  (vInsts stmts).flatMap (p1Nodes tl ds) ++ ds.flatMap portNodes ++
    walk (fun k ts => nextK k ts.2) pairNodes 0 (assignPairs ds stmts) ++
    connWalk tl (connNodes cfg.bf) ((assignPairs ds stmts).foldl (fun k ts => nextK k ts.2) 0) (vInsts stmts)

def vLines (cfg : Cfg) (tl : TL) (ds : List Decl) (stmts : List Stmt) : List LineM :=
  (vInsts stmts).flatMap (p1Lines tl ds) ++ ds.flatMap portLines ++
    walk (fun k ts => nextK k ts.2) pairLinesM 0 (assignPairs ds stmts) ++
    connWalk tl (connLinesM cfg.bf) ((assignPairs ds stmts).foldl (fun k ts => nextK k ts.2) 0) (vInsts stmts) ++ ds.flatMap outLines

theorem mem_inputNames_portNodes (ds : List Decl) (n : String) (hn : n ∈ inputNames ds) : forkN n ∈ ds.flatMap portNodes := by
  unfold inputNames at hn
  obtain ⟨d, hd, hnd⟩ := List.mem_flatMap.mp hn
  rw [List.mem_filter] at hd
  have hk : d.kind = .input := by simpa using hd.2
  apply List.mem_flatMap.mpr
  refine ⟨d, hd.1, ?_⟩
  unfold portNodes
  simp only [hk]
  apply List.mem_flatMap.mpr
  exact ⟨n, hnd, by simp [portNodes1]⟩

section
variable {cfg : Cfg} {tl : TL} {ports : List String} {stmts : List Stmt}

theorem afterPass1_nl (tl : TL) (ports : List String) (stmts : List Stmt) :
    (afterPass1 tl ports stmts).nodes = (vInsts stmts).flatMap (p1Nodes tl (sigDecls stmts)) ++ (sigDecls stmts).flatMap portNodes ∧
    (afterPass1 tl ports stmts).lines = (vInsts stmts).flatMap (p1Lines tl (sigDecls stmts)) ++ (sigDecls stmts).flatMap portLines := by
  unfold afterPass1
  have h1 := pass1_nl tl (sigDecls stmts) stmts { err := !portsDeclared (sigDecls stmts) ports }
  have h2 := portPass_nl (posNames (sigDecls stmts) ports) (sigDecls stmts)
    (stmts.foldl (pass1Stmt tl (sigDecls stmts)) { err := !portsDeclared (sigDecls stmts) ports })
  have := h1.trans h2
  exact ⟨by rw [this.1]; simp, by rw [this.2]; simp⟩

theorem str_ne_fork' (k : DKind) : k.str ≠ forkKind := by cases k <;> decide +kernel

/-- after pass 1 and the port cells the forks are exactly the instance outputs and the input port bits -/
theorem forksAre_afterPass1 (tl : TL) (ports : List String) (stmts : List Stmt) (hk : ∀ i ∈ vInsts stmts, i.ty ≠ forkKind) :
    ForksAre (drivenSigs0 tl (sigDecls stmts) stmts) (afterPass1 tl ports stmts) := by
  intro x
  rw [Bool.eq_iff_iff, isFork_iff, (afterPass1_nl tl ports stmts).1]
  simp only [List.contains_eq_mem, decide_eq_true_eq]
  unfold drivenSigs0
  constructor
  · rintro ⟨b, hb⟩
    rcases List.mem_append.mp hb with h | h
    · apply List.mem_append_left
      obtain ⟨i, hi, hx⟩ := List.mem_flatMap.mp h
      unfold p1Nodes at hx
      rcases List.mem_cons.mp hx with hx | hx
      · exact absurd (congrArg NodeM.kind hx).symm (hk i hi)
      · obtain ⟨o, ho, hxo⟩ := List.mem_map.mp hx
        have : o.2 = x := by
          have := congrArg NodeM.name hxo
          exact this
        exact List.mem_flatMap.mpr ⟨i, hi, List.mem_map.mpr ⟨o, ho, this⟩⟩
    · apply List.mem_append_right
      obtain ⟨d, hd, hx⟩ := List.mem_flatMap.mp h
      unfold portNodes at hx
      by_cases hw : d.kind == DKind.wire
      · simp [hw] at hx
      · simp only [hw, Bool.false_eq_true, if_false] at hx
        obtain ⟨n, hn, hxn⟩ := List.mem_flatMap.mp hx
        unfold portNodes1 at hxn
        by_cases hi : d.kind == DKind.input
        · simp only [hi, if_true, List.mem_cons, List.not_mem_nil, or_false] at hxn
          rcases hxn with hxn | hxn
          · exact absurd (congrArg NodeM.kind hxn).symm (str_ne_fork' d.kind)
          · have : n = x := (congrArg NodeM.name hxn).symm
            subst this
            unfold inputNames
            exact List.mem_flatMap.mpr ⟨d, List.mem_filter.mpr ⟨hd, hi⟩, hn⟩
        · simp only [hi, Bool.false_eq_true, if_false, List.mem_singleton] at hxn
          exact absurd (congrArg NodeM.kind hxn).symm (str_ne_fork' d.kind)
  · intro hx
    refine ⟨false, ?_⟩
    rcases List.mem_append.mp hx with h | h
    · apply List.mem_append_left
      obtain ⟨i, hi, hsi⟩ := List.mem_flatMap.mp h
      obtain ⟨o, ho, rfl⟩ := List.mem_map.mp hsi
      apply List.mem_flatMap.mpr
      refine ⟨i, hi, ?_⟩
      unfold p1Nodes
      exact List.mem_cons_of_mem _ (List.mem_map.mpr ⟨o, ho, rfl⟩)
    · apply List.mem_append_right
      exact mem_inputNames_portNodes _ x h

theorem drivenSigs_eq (tl : TL) (ds : List Decl) (stmts : List Stmt) :
    drivenSigs tl ds stmts = drivenSigs0 tl ds stmts ++ (assignPairs ds stmts).map (·.1) := rfl

theorem module_nl (hok : VOK cfg tl ports stmts) :
    (module cfg tl ports stmts).nodes = vNodes cfg tl (sigDecls stmts) stmts ∧
    (module cfg tl ports stmts).lines = vLines cfg tl (sigDecls stmts) stmts := by
  unfold module afterPass2 afterPass15
  obtain ⟨hn1, hl1⟩ := afterPass1_nl tl ports stmts
  have hD0c : ∀ x, (drivenSigs0 tl (sigDecls stmts) stmts).contains x = true → isConstBit x = false := by
    intro x hx
    apply hok.noConst
    rw [drivenSigs_eq]
    exact List.mem_append_left _ (by simpa using hx)
  obtain ⟨h15, hcc, hF⟩ := pass15_nl cfg (assignPairs (sigDecls stmts) stmts) _ (afterPass1 tl ports stmts)
    (cc_afterPass1 tl ports stmts) (forksAre_afterPass1 tl ports stmts hok.kinds) hD0c hok.assigns
  have hI : P2Inv (drivenSigs tl (sigDecls stmts) stmts) ((assignPairs (sigDecls stmts) stmts).foldl (fun k ts => nextK k ts.2) 0)
      (pass15 cfg (afterPass1 tl ports stmts) (assignPairs (sigDecls stmts) stmts)) := by
    refine ⟨hcc, fun s hs => ?_⟩
    rw [hF s, ← drivenSigs_eq]
    simpa using hs
  obtain ⟨h2, hD2⟩ := pass2_nl cfg tl (sigDecls stmts) _ stmts _ _ hok.pins hI
  have h3 := outPass_nl _ (sigDecls stmts) _ hok.outs hD2
  have := (h15.trans h2).trans h3
  unfold vNodes vLines
  exact ⟨by rw [this.1, hn1]; simp, by rw [this.2, hl1]; simp⟩

theorem module_nodes (hok : VOK cfg tl ports stmts) : (module cfg tl ports stmts).nodes = vNodes cfg tl (sigDecls stmts) stmts :=
  (module_nl hok).1

/-! ## flat lines -/

def vl (l : VLine) : Ep × Ep := (l.d, l.r)

theorem flat_novia (ls : List LineM) (h : ∀ l ∈ ls, l.via = none) : ls.flatMap LineM.flat = ls.map fun l => (l.d, l.r) := by
  induction ls with
  | nil => rfl
  | cons l r ih =>
    have h1 : l.via = none := h l List.mem_cons_self
    simp only [List.flatMap_cons, List.map_cons, LineM.flat, h1]
    rw [ih (fun x hx => h x (List.mem_cons_of_mem _ hx))]
    rfl

theorem walk_flatMap_flat {α σ : Type} (next : σ → α → σ) (fM : σ → α → List LineM) (fV : σ → α → List VLine)
    (h : ∀ st x, (fM st x).flatMap LineM.flat = (fV st x).map vl) (st : σ) (l : List α) :
    (walk next fM st l).flatMap LineM.flat = (walk next fV st l).map vl := by
  induction l generalizing st with
  | nil => rfl
  | cons a r ih => simp only [walk, List.flatMap_append, List.map_append, h, ih]

theorem pairLines_flat (k : Nat) (ts : String × String) : (pairLinesM k ts).flatMap LineM.flat = (pairLines k ts).map vl := by
  unfold pairLinesM pairLines
  split <;> rfl

theorem connLines_flat (bf : Bool) (k : Nat) (ic : VInst × (String × Nat × String)) :
    (connLinesM bf k ic).flatMap LineM.flat = (connLines bf k ic).map vl := by
  unfold connLinesM connLines
  cases bf <;> by_cases hc : isConstLit ic.2.2.2 = true <;> simp [hc, LineM.flat, vl]

theorem module_flat (hok : VOK cfg tl ports stmts) :
    flatLines (module cfg tl ports stmts) = (vFlat cfg tl (sigDecls stmts) stmts).map vl := by
  unfold flatLines
  rw [(module_nl hok).2]
  unfold vLines vFlat
  simp only [List.flatMap_append, List.map_append]
  congr 1
  · congr 1
    · congr 1
      · congr 1
        · rw [flat_novia]
          · simp only [List.map_flatMap, p1Lines, List.map_map]
            rfl
          · intro l hl
            obtain ⟨i, _, hli⟩ := List.mem_flatMap.mp hl
            obtain ⟨o, _, rfl⟩ := List.mem_map.mp hli
            rfl
        · rw [portLines_flat, flat_novia]
          · simp only [List.map_map]; rfl
          · intro l hl
            obtain ⟨n, _, rfl⟩ := List.mem_map.mp hl
            rfl
      · exact walk_flatMap_flat _ _ _ pairLines_flat _ _
    · unfold connWalk
      apply walk_flatMap_flat
      intro k i
      exact walk_flatMap_flat _ _ _ (fun k c => connLines_flat cfg.bf k (i, c)) _ _
  · rw [outLines_flat, flat_novia]
    · simp only [List.map_map]; rfl
    · intro l hl
      obtain ⟨n, _, rfl⟩ := List.mem_map.mp hl
      rfl

end
end KV.Netlist
