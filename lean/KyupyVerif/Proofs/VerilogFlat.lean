import KyupyVerif.Proofs.VerilogCirc
import KyupyVerif.Proofs.BenchLines
/-! `verilogOKB` unpacked (`VOK`), and the whole module in closed form: `module_nodes`, `module_lines`, `module_flat`. -/
namespace KV.Netlist
open KV

/-- the hypotheses `verilogOKB` packs -/
structure VOK (cfg : Cfg) (tl : TL) (ports : List String) (stmts : List Stmt) : Prop where
  noAssign : (stmts.all fun s => !isAssign s) = true
  portsDecl : ∀ p ∈ ports, ∃ d, lookup (sigDecls stmts) p = some d ∧ d.kind ≠ .wire
  posNodup : (posNames (sigDecls stmts) ports).Nodup
  declsInPorts : ∀ n ∈ portBitNames (sigDecls stmts), n ∈ posNames (sigDecls stmts) ports
  pins : ((vInsts stmts).all fun i => i.pins.all (pinOK tl (sigDecls stmts) (drivenSigs tl (sigDecls stmts) stmts) i.ty)) = true
  cells : ((vInsts stmts).map (·.name) ++ portBitNames (sigDecls stmts)).Nodup
  forks : (drivenSigs tl (sigDecls stmts) stmts ++ if cfg.bf then branchNames tl stmts else []).Nodup
  kinds : ∀ i ∈ vInsts stmts, i.ty ≠ forkKind
  inIdx : ∀ i ∈ vInsts stmts, ((inConn tl i).map (·.2.1)).Nodup
  outs : ∀ n ∈ outputNames (sigDecls stmts), n ∈ drivenSigs tl (sigDecls stmts) stmts

theorem nodupN_nodup : ∀ (l : List Nat), nodupN l = true → l.Nodup
  | [], _ => List.nodup_nil
  | x :: r, h => by
    simp only [nodupN, Bool.and_eq_true, Bool.not_eq_true', List.contains_eq_mem, decide_eq_false_iff_not] at h
    exact List.nodup_cons.mpr ⟨h.1, nodupN_nodup r h.2⟩

theorem vok_of (cfg : Cfg) (tl : TL) (ports : List String) (stmts : List Stmt) (h : verilogOKB cfg tl ports stmts = true) :
    VOK cfg tl ports stmts := by
  unfold verilogOKB at h
  simp only [Bool.and_eq_true] at h
  obtain ⟨⟨⟨⟨⟨⟨⟨⟨⟨h1, h2⟩, h3⟩, h4⟩, h5⟩, h6⟩, h7⟩, h8⟩, h9⟩, h10⟩ := h
  refine ⟨h1, ?_, nodupS_nodup _ h3, ?_, h5, nodupS_nodup _ h6, nodupS_nodup _ h7, ?_, ?_, ?_⟩
  · intro p hp
    have := List.all_eq_true.mp h2 p hp
    cases hl : lookup (sigDecls stmts) p with
    | none => rw [hl] at this; cases this
    | some d => rw [hl] at this; exact ⟨d, rfl, by simpa using this⟩
  · intro n hn
    have := List.all_eq_true.mp h4 n hn
    simpa using this
  · intro i hi
    have := List.all_eq_true.mp h8 i hi
    simpa using this
  · intro i hi
    exact nodupN_nodup _ (List.all_eq_true.mp h9 i hi)
  · intro n hn
    have := List.all_eq_true.mp h10 n hn
    simpa using this

def vNodes (cfg : Cfg) (tl : TL) (ds : List Decl) (stmts : List Stmt) : List NodeM :=
  (vInsts stmts).flatMap (p1Nodes tl ds) ++ ds.flatMap portNodes ++ (vInsts stmts).flatMap (p2Nodes cfg.bf tl)

def vLines (cfg : Cfg) (tl : TL) (ds : List Decl) (stmts : List Stmt) : List LineM :=
  (vInsts stmts).flatMap (p1Lines tl ds) ++ ds.flatMap portLines ++ (vInsts stmts).flatMap (p2Lines cfg.bf tl) ++ ds.flatMap outLines

theorem mem_inputNames_portNodes (ds : List Decl) (n : String) (hn : n ∈ inputNames ds) : forkN n ∈ ds.flatMap portNodes := by
  unfold inputNames at hn
  obtain ⟨d, hd, hnd⟩ := List.mem_flatMap.mp hn
  rw [List.mem_filter] at hd
  have hk : d.kind = .input := by simpa using hd.2
  apply List.mem_flatMap.mpr
  refine ⟨d, hd.1, ?_⟩
  unfold portNodes
  simp only [hk]
  apply List.mem_flatMap.mpr
  exact ⟨n, hnd, by simp [portNodes1]⟩

section
variable {cfg : Cfg} {tl : TL} {ports : List String} {stmts : List Stmt}

theorem afterPass1_nl (tl : TL) (ports : List String) (stmts : List Stmt) :
    (afterPass1 tl ports stmts).nodes = (vInsts stmts).flatMap (p1Nodes tl (sigDecls stmts)) ++ (sigDecls stmts).flatMap portNodes ∧
    (afterPass1 tl ports stmts).lines = (vInsts stmts).flatMap (p1Lines tl (sigDecls stmts)) ++ (sigDecls stmts).flatMap portLines := by
  unfold afterPass1
  have h1 := pass1_nl tl (sigDecls stmts) stmts { err := !portsDeclared (sigDecls stmts) ports }
  have h2 := portPass_nl (posNames (sigDecls stmts) ports) (sigDecls stmts)
    (stmts.foldl (pass1Stmt tl (sigDecls stmts)) { err := !portsDeclared (sigDecls stmts) ports })
  have := h1.trans h2
  exact ⟨by rw [this.1]; simp, by rw [this.2]; simp⟩

theorem forksIn_afterPass1 (tl : TL) (ports : List String) (stmts : List Stmt) :
    ForksIn (drivenSigs tl (sigDecls stmts) stmts) (afterPass1 tl ports stmts) := by
  intro s hs
  rw [isFork_iff]
  refine ⟨false, ?_⟩
  rw [(afterPass1_nl tl ports stmts).1]
  unfold drivenSigs at hs
  rcases List.mem_append.mp hs with h | h
  · apply List.mem_append_left
    obtain ⟨i, hi, hsi⟩ := List.mem_flatMap.mp h
    obtain ⟨o, ho, rfl⟩ := List.mem_map.mp hsi
    apply List.mem_flatMap.mpr
    refine ⟨i, hi, ?_⟩
    unfold p1Nodes
    exact List.mem_cons_of_mem _ (List.mem_map.mpr ⟨o, ho, rfl⟩)
  · apply List.mem_append_right
    exact mem_inputNames_portNodes _ s h

theorem module_nl (hok : VOK cfg tl ports stmts) :
    (module cfg tl ports stmts).nodes = vNodes cfg tl (sigDecls stmts) stmts ∧
    (module cfg tl ports stmts).lines = vLines cfg tl (sigDecls stmts) stmts := by
  unfold module afterPass2 afterPass15
  rw [assignPairs_nil _ _ hok.noAssign, pass15_nil]
  obtain ⟨hn1, hl1⟩ := afterPass1_nl tl ports stmts
  obtain ⟨h2, hD2⟩ := pass2_nl cfg tl (sigDecls stmts) _ stmts (afterPass1 tl ports stmts) hok.pins (forksIn_afterPass1 tl ports stmts)
  have h3 := outPass_nl _ (sigDecls stmts) _ hok.outs hD2
  have := h2.trans h3
  unfold vNodes vLines
  exact ⟨by rw [this.1, hn1]; simp, by rw [this.2, hl1]; simp⟩

theorem module_nodes (hok : VOK cfg tl ports stmts) : (module cfg tl ports stmts).nodes = vNodes cfg tl (sigDecls stmts) stmts :=
  (module_nl hok).1

/-! ## flat lines -/

def vl (l : VLine) : Ep × Ep := (l.d, l.r)

theorem flat_novia (ls : List LineM) (h : ∀ l ∈ ls, l.via = none) : ls.flatMap LineM.flat = ls.map fun l => (l.d, l.r) := by
  induction ls with
  | nil => rfl
  | cons l r ih =>
    have h1 : l.via = none := h l List.mem_cons_self
    simp only [List.flatMap_cons, List.map_cons, LineM.flat, h1]
    rw [ih (fun x hx => h x (List.mem_cons_of_mem _ hx))]
    rfl

theorem p2Lines_flat (bf : Bool) (tl : TL) (i : VInst) :
    (p2Lines bf tl i).flatMap LineM.flat = ((inConn tl i).flatMap (readerLines bf i)).map vl := by
  unfold p2Lines
  induction inConn tl i with
  | nil => rfl
  | cons c r ih =>
    simp only [List.flatMap_cons, List.flatMap_append, List.map_append, ih]
    congr 1
    cases bf <;> simp [p2Lines1, readerLines, LineM.flat, vl]

theorem module_flat (hok : VOK cfg tl ports stmts) :
    flatLines (module cfg tl ports stmts) = (vFlat cfg tl (sigDecls stmts) stmts).map vl := by
  unfold flatLines
  rw [(module_nl hok).2]
  unfold vLines vFlat
  simp only [List.flatMap_append, List.map_append]
  congr 1
  · congr 1
    · congr 1
      · rw [flat_novia]
        · simp only [List.map_flatMap, p1Lines, List.map_map]
          rfl
        · intro l hl
          obtain ⟨i, _, hli⟩ := List.mem_flatMap.mp hl
          obtain ⟨o, _, rfl⟩ := List.mem_map.mp hli
          rfl
      · rw [portLines_flat, flat_novia]
        · simp only [List.map_map]; rfl
        · intro l hl
          obtain ⟨n, _, rfl⟩ := List.mem_map.mp hl
          rfl
    · rw [List.flatMap_assoc, List.map_flatMap]
      congr 1
      funext i
      exact p2Lines_flat _ _ i
  · rw [outLines_flat, flat_novia]
    · simp only [List.map_map]; rfl
    · intro l hl
      obtain ⟨n, _, rfl⟩ := List.mem_map.mp hl
      rfl

end
end KV.Netlist
