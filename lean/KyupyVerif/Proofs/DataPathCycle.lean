import KyupyVerif.Proofs.DataPathLanes
import KyupyVerif.Proofs.CycleRel
/-! `cycle(k)` at byte level, lanes: generic in the arity (`cycleKB_lanes`), the m = 8 codec is lawful for the transition builder
`merge8W`, lanes of `merge8W`. -/
namespace KV.DP
open KV KV.Sig KV.Cycle KV.Enc

/-- `s_ppo_to_ppi` for m = 8 on bit-parallel values: initial := previously assigned final, final := captured final, activity := their
    difference -/
def merge8W {w : Nat} (old new : P3 (BitVec w)) : P3 (BitVec w) := ⟨new.p0, old.p0, new.p0 ^^^ old.p0⟩
/-- … and on one lane (`Drv.Cycle.merge8`, the `merge` of C01 `cycle_step` for m = 8) -/
def merge8L (old new : V3) : V3 := ⟨new.p0, old.p0, new.p0 ^^ old.p0⟩

theorem bit_xor (x y i : Nat) : ((x ^^^ y) / 2 ^ i % 2 == 1) = ((x / 2 ^ i % 2 == 1) ^^ (y / 2 ^ i % 2 == 1)) := by
  have h : ∀ n, (n / 2 ^ i % 2 == 1) = n.testBit i := by
    intro n; rw [Nat.testBit, Nat.shiftRight_eq_div_pow]; simp [Nat.one_and_eq_mod_two]
  rw [h, h, h, Nat.testBit_xor]

theorem ofBytes_xorBytes (nb : Nat) (x y : List Nat) : ofBytes nb (xorBytes nb x y) = ofBytes nb x ^^^ ofBytes nb y := by
  apply BitVec.eq_of_getLsbD_eq
  intro i hi
  rw [BitVec.getLsbD_xor, getLsbD_ofBytes_byte, getLsbD_ofBytes_byte, getLsbD_ofBytes_byte]
  have hj : i / 8 < nb := by omega
  simp only [hi, decide_true, Bool.true_and, xorBytes, getD_range_map _ _ _ _ hj, bit_xor]

theorem codec8_lawful (nb : Nat) : (codec8 nb).Lawful merge8W :=
  ⟨fun v r => by simp [codec8, plane], fun a b => by simp [codec8, plane, merge8W, ofBytes_xorBytes]⟩

theorem ln8_merge (nb p : Nat) (a b : P3 (BitVec (8 * nb))) : ln8 nb p (merge8W a b) = merge8L (ln8 nb p a) (ln8 nb p b) := by
  simp [ln8, merge8W, merge8L]

/-- **lanes through the clock loop on bytes, any arity**: if the bit-parallel op semantics and `merge` are lane-wise for the lane
    reading `lnp`, then the planes the arity reads of `s[0]`, `s[1]` after `cycle(k)` on bytes show in that lane the ONE-LANE
    `Cycle.cycleK` started on that lane -/
theorem cycleKB_lanes {α β} (C : Codec α) (mergeW : α → α → α) (hC : C.Lawful mergeW) (lnp : α → β)
    (semW : Nat → List α → α) (semL : Nat → List β → β) (mergeL : β → β → β) (ops : List Op)
    (hop : ∀ op ∈ ops, ∀ (xs : List α) (ys : List β), All2 (fun v b => lnp v = b) xs ys → lnp (semW op.code xs) = semL op.code ys)
    (hm : ∀ a b, lnp (mergeW a b) = mergeL (lnp a) (lnp b)) (T : Tabs) (k : Nat) (st : StB α) :
    let r := cycleKB C (fun op => semW op.code) ops T k st
    let rb := cycleK (fun op => semL op.code) ops T mergeL (lnp (C.dec [])) k
      ⟨fun x => lnp (st.env x), ⟨st.s0.map fun row => lnp (C.dec row), st.s1.map fun row => lnp (C.dec row)⟩⟩
    (r.s0.map fun row => lnp (C.dec row)) = rb.s.s0 ∧ (r.s1.map fun row => lnp (C.dec row)) = rb.s.s1 := by
  intro r rb
  have hd := cycleKB_dec C mergeW hC (fun op => semW op.code) ops T k st
  have h := cycleK_rel (fun (v : α) (b : β) => lnp v = b) (fun op => semW op.code) (fun op => semL op.code) ops hop T mergeW mergeL
    (fun a b a' b' h h' => by rw [hm, h, h']) (C.dec []) (lnp (C.dec [])) rfl k (decSt C st)
    ⟨fun x => lnp (st.env x), ⟨st.s0.map fun row => lnp (C.dec row), st.s1.map fun row => lnp (C.dec row)⟩⟩
    ⟨fun _ => rfl, by
      show All2 _ (st.s0.map C.dec) _
      have := All2.of_map lnp (st.s0.map C.dec)
      simpa [List.map_map, Function.comp_def] using this, by
      show All2 _ (st.s1.map C.dec) _
      have := All2.of_map lnp (st.s1.map C.dec)
      simpa [List.map_map, Function.comp_def] using this⟩
  rw [← hd] at h
  have e0 := h.s0.map_eq
  have e1 := h.s1.map_eq
  simp only [decSt, List.map_map, Function.comp_def] at e0 e1
  exact ⟨e0, e1⟩

end KV.DP
