import KyupyVerif.Proofs.Substitute3
/-! Helper lemmas for C10 (`substitute`), part 4: the frame (what `substitute` leaves untouched in the host when the
designated cell exists and no connected input is ignored) and the pin-by-pin wiring of the instance's lines. -/
namespace KV.Transform
open KV

def nodeA (ns : Array NodeD) (d : Nat) : NodeD := ns.getD d default
def lineA (ls : Array LineD) (l : Nat) : LineD := ls.getD l default

theorem nodeA_modify_ne (ns : Array NodeD) (k d : Nat) (f : NodeD → NodeD) (h : k ≠ d) : nodeA (ns.modify k f) d = nodeA ns d := by
  simp [nodeA, Array.getD_eq_getD_getElem?, Array.getElem?_modify, h]
theorem nodeA_push (ns : Array NodeD) (x : NodeD) (d : Nat) (h : d < ns.size) : nodeA (ns.push x) d = nodeA ns d := by
  have : ¬ d = ns.size := by omega
  simp [nodeA, Array.getD_eq_getD_getElem?, Array.getElem?_push, h, this]
theorem lineA_push (ls : Array LineD) (x : LineD) (l : Nat) (h : l < ls.size) : lineA (ls.push x) l = lineA ls l := by
  have : ¬ l = ls.size := by omega
  simp [lineA, Array.getD_eq_getD_getElem?, Array.getElem?_push, h, this]
theorem lineA_modify (ls : Array LineD) (k l : Nat) (f : LineD → LineD) (hl : l < ls.size) :
    lineA (ls.modify k f) l = if k = l then f (lineA ls l) else lineA ls l := by
  simp only [lineA, Array.getD_eq_getD_getElem?, Array.getElem?_modify, Array.getElem?_eq_getElem hl]
  split <;> simp

/-- the host part of the arrays is untouched: nodes other than `c`, the driver side of lines outside `O`, the reader
    side of lines outside `I` -/
structure FrameA (h : NNet) (c : Nat) (I O : List Nat) (ns : Array NodeD) (ls : Array LineD) : Prop where
  nsize : h.net.nodes.size ≤ ns.size
  lsize : h.net.lines.size ≤ ls.size
  node : ∀ d, d < h.net.nodes.size → d ≠ c → nodeA ns d = h.net.node d
  drv : ∀ l, l < h.net.lines.size → l ∉ O →
    (lineA ls l).driver = (h.net.line l).driver ∧ (lineA ls l).dpin = (h.net.line l).dpin
  rdr : ∀ l, l < h.net.lines.size → l ∉ I →
    (lineA ls l).reader = (h.net.line l).reader ∧ (lineA ls l).rpin = (h.net.line l).rpin

/-- every entry of `node_map` is the host cell or a node added behind the host's nodes -/
def MapGe (map : Array (Option Nat)) (c n : Nat) : Prop := ∀ k x, map.getD k none = some x → x = c ∨ n ≤ x

theorem frameA_modify_node {h : NNet} {c : Nat} {I O : List Nat} {ns : Array NodeD} {ls : Array LineD}
    (fr : FrameA h c I O ns ls) (x : Nat) (f : NodeD → NodeD) (hx : x = c ∨ h.net.nodes.size ≤ x) :
    FrameA h c I O (ns.modify x f) ls := by
  refine ⟨by simpa using fr.nsize, fr.lsize, fun d hd hne => ?_, fr.drv, fr.rdr⟩
  rw [nodeA_modify_ne ns x d f (by rcases hx with e | e <;> omega)]
  exact fr.node d hd hne

theorem frameA_addLine {h : NNet} {c : Nat} {I O : List Nat} {st : Array NodeD × Array LineD}
    (fr : FrameA h c I O st.1 st.2) (d dp r rp : Nat) (hd : d = c ∨ h.net.nodes.size ≤ d) (hr : r = c ∨ h.net.nodes.size ≤ r) :
    FrameA h c I O (addLine st d dp r rp).1 (addLine st d dp r rp).2 := by
  unfold addLine
  dsimp only
  have f1 := frameA_modify_node fr d (fun n => { n with outs := growSet n.outs dp (some st.2.size) }) hd
  have f2 := frameA_modify_node f1 r (fun n => { n with ins := growSet n.ins rp (some st.2.size) }) hr
  refine ⟨f2.nsize, by simp; have := fr.lsize; omega, f2.node, ?_, ?_⟩
  · intro l hl ho
    rw [lineA_push _ _ l (Nat.lt_of_lt_of_le hl fr.lsize)]; exact fr.drv l hl ho
  · intro l hl hi
    rw [lineA_push _ _ l (Nat.lt_of_lt_of_le hl fr.lsize)]; exact fr.rdr l hl hi

theorem frameA_addImplLine {h : NNet} {c : Nat} {I O : List Nat} (map : Array (Option Nat)) (hm : MapGe map c h.net.nodes.size)
    {st : Array NodeD × Array LineD} (fr : FrameA h c I O st.1 st.2) (ln : LineD) :
    FrameA h c I O (addImplLine map st ln).1 (addImplLine map st ln).2 := by
  unfold addImplLine
  split
  · rename_i d r hd hr
    exact frameA_addLine fr d _ r _ (hm _ d hd) (hm _ r hr)
  · exact fr

theorem frameA_foldl {h : NNet} {c : Nat} {I O : List Nat} (map : Array (Option Nat)) (hm : MapGe map c h.net.nodes.size) :
    ∀ (ls : List LineD) (st : Array NodeD × Array LineD), FrameA h c I O st.1 st.2 →
    FrameA h c I O (ls.foldl (addImplLine map) st).1 (ls.foldl (addImplLine map) st).2
  | [], _, fr => fr
  | ln :: ls, st, fr => frameA_foldl map hm ls _ (frameA_addImplLine map hm fr ln)

theorem frameA_setReader {h : NNet} {c : Nat} {I O : List Nat} {net : Net} (fr : FrameA h c I O net.nodes net.lines)
    (ll r rp : Nat) (hll : ll ∈ I) (hr : r = c ∨ h.net.nodes.size ≤ r) :
    FrameA h c I O (setReader net ll r rp).nodes (setReader net ll r rp).lines := by
  unfold setReader
  dsimp only
  have f1 := frameA_modify_node fr r (fun n => { n with ins := growSet n.ins rp (some ll) }) hr
  refine ⟨f1.nsize, by simpa using fr.lsize, f1.node, ?_, ?_⟩
  · intro l hl ho
    rw [lineA_modify _ _ l _ (Nat.lt_of_lt_of_le hl fr.lsize)]
    split
    · exact fr.drv l hl ho
    · exact fr.drv l hl ho
  · intro l hl hi
    rw [lineA_modify _ _ l _ (Nat.lt_of_lt_of_le hl fr.lsize)]
    have : ¬ ll = l := fun e => hi (e ▸ hll)
    rw [if_neg this]; exact fr.rdr l hl hi

theorem frameA_setDriver {h : NNet} {c : Nat} {I O : List Nat} {net : Net} (fr : FrameA h c I O net.nodes net.lines)
    (ll d dp : Nat) (hll : ll ∈ O) (hd : d = c ∨ h.net.nodes.size ≤ d) :
    FrameA h c I O (setDriver net ll d dp).nodes (setDriver net ll d dp).lines := by
  unfold setDriver
  dsimp only
  have f1 := frameA_modify_node fr d (fun n => { n with outs := growSet n.outs dp (some ll) }) hd
  refine ⟨f1.nsize, by simpa using fr.lsize, f1.node, ?_, ?_⟩
  · intro l hl ho
    rw [lineA_modify _ _ l _ (Nat.lt_of_lt_of_le hl fr.lsize)]
    have : ¬ ll = l := fun e => ho (e ▸ hll)
    rw [if_neg this]; exact fr.drv l hl ho
  · intro l hl hi
    rw [lineA_modify _ _ l _ (Nat.lt_of_lt_of_le hl fr.lsize)]
    split
    · exact fr.rdr l hl hi
    · exact fr.rdr l hl hi

end KV.Transform

namespace KV.Transform
open KV

theorem mapGe_set (map : Array (Option Nat)) (c n j v : Nat) (h : MapGe map c n) (hv : v = c ∨ n ≤ v) :
    MapGe (map.setIfInBounds j (some v)) c n := by
  intro k x hx
  simp only [Array.getD_eq_getD_getElem?, Array.getElem?_setIfInBounds] at hx
  split at hx
  · split at hx
    · simp at hx; subst hx; exact hv
    · exact h k x (by simpa [Array.getD_eq_getD_getElem?] using hx)
  · exact h k x (by simpa [Array.getD_eq_getD_getElem?] using hx)

/-- `FrameA` for a dump -/
def Frame (h : NNet) (c : Nat) (I O : List Nat) (nn : NNet) : Prop := FrameA h c I O nn.net.nodes nn.net.lines

theorem frame_phase1 (h : NNet) (c : Nat) (m : NNet) (dn : Nat) (I O : List Nat) :
    Frame h c I O (phase1 h c m (some dn)).1 ∧ MapGe (phase1 h c m (some dn)).2 c h.net.nodes.size := by
  simp only [phase1]
  constructor
  · refine ⟨by simp, Nat.le_refl _, fun d _ hne => ?_, fun _ _ _ => ⟨rfl, rfl⟩, fun _ _ _ => ⟨rfl, rfl⟩⟩
    exact nodeA_modify_ne _ c d _ (fun e => hne e.symm)
  · apply mapGe_set _ _ _ _ _ _ (Or.inl rfl)
    intro k x hx
    rw [getD_replicate_none] at hx
    exact absurd hx (by simp)

theorem frame_addNode {h : NNet} {c : Nat} {I O : List Nat} (nn nn' : NNet) (name kind : String)
    (he : addNode nn name kind = some nn') (fr : Frame h c I O nn) : Frame h c I O nn' := by
  unfold addNode at he
  split at he
  · exact absurd he (by simp)
  · cases he
    refine ⟨by simp; have := fr.nsize; omega, fr.lsize, fun d hd hne => ?_, fr.drv, fr.rdr⟩
    show nodeA (nn.net.nodes.push _) d = _
    rw [nodeA_push _ _ d (Nat.lt_of_lt_of_le hd fr.nsize)]
    exact fr.node d hd hne

theorem frame_addImplNode {h : NNet} {c : Nat} {I O : List Nat} (m : NNet) (hn : String) (des : Option Nat)
    (st st' : NNet × Array (Option Nat)) (j : Nat) (he : addImplNode m hn des st j = some st')
    (fr : Frame h c I O st.1) (hm : MapGe st.2 c h.net.nodes.size) :
    Frame h c I O st'.1 ∧ MapGe st'.2 c h.net.nodes.size := by
  have hadd : ∀ kind, (addNode st.1 (hn ++ "~" ++ m.names.getD j "") kind).map
        (fun h' => (h', st.2.setIfInBounds j (some st.1.net.nodes.size))) = some st' →
      Frame h c I O st'.1 ∧ MapGe st'.2 c h.net.nodes.size := by
    intro kind hh
    simp only [Option.map_eq_some_iff] at hh
    obtain ⟨h', h1, e⟩ := hh
    subst e
    exact ⟨frame_addNode st.1 h' _ kind h1 fr, mapGe_set _ _ _ _ _ hm (Or.inr fr.nsize)⟩
  have hsame : some st = some st' → Frame h c I O st'.1 ∧ MapGe st'.2 c h.net.nodes.size := by
    intro hh; cases hh; exact ⟨fr, hm⟩
  unfold addImplNode at he
  dsimp only at he
  split at he
  · split at he
    · exact hadd _ he
    · exact hsame he
  · split at he
    · exact hadd _ he
    · split at he
      · exact hadd _ he
      · exact hsame he

theorem frame_foldlM {h : NNet} {c : Nat} {I O : List Nat} (m : NNet) (hn : String) (des : Option Nat) :
    ∀ (js : List Nat) (st st' : NNet × Array (Option Nat)), js.foldlM (addImplNode m hn des) st = some st' →
    Frame h c I O st.1 → MapGe st.2 c h.net.nodes.size → Frame h c I O st'.1 ∧ MapGe st'.2 c h.net.nodes.size
  | [], st, st', hh, fr, hm => by
    simp only [List.foldlM_nil] at hh
    cases (Option.some.inj hh); exact ⟨fr, hm⟩
  | j :: js, st, st', hh, fr, hm => by
    simp only [List.foldlM_cons, Option.bind_eq_bind, Option.bind_eq_some_iff] at hh
    obtain ⟨s1, h1, h2⟩ := hh
    have o1 := frame_addImplNode m hn des st s1 j h1 fr hm
    exact frame_foldlM m hn des js s1 st' h2 o1.1 o1.2

theorem inTarget_map {m : NNet} {map : Array (Option Nat)} {inn r rp : Nat} (h : inTarget m map inn = some (r, rp)) :
    ∃ k, map.getD k none = some r := by
  unfold inTarget at h
  dsimp only at h
  split at h
  · split at h
    · simp only [Option.map_eq_some_iff, Prod.mk.injEq] at h
      obtain ⟨r', hr, e, _⟩ := h
      exact ⟨_, e ▸ hr⟩
    · exact absurd h (by simp)
  · simp only [Option.map_eq_some_iff, Prod.mk.injEq] at h
    obtain ⟨r', hr, e, _⟩ := h
    exact ⟨_, e ▸ hr⟩

theorem outTarget_map {m : NNet} {map : Array (Option Nat)} {l d dp : Nat} (h : outTarget m map l = some (d, dp)) :
    ∃ k, map.getD k none = some d := by
  unfold outTarget at h
  dsimp only at h
  split at h
  · simp only [Option.map_eq_some_iff, Prod.mk.injEq] at h
    obtain ⟨r', hr, e, _⟩ := h
    exact ⟨_, e ▸ hr⟩
  · simp only [Option.map_eq_some_iff, Prod.mk.injEq] at h
    obtain ⟨r', hr, e, _⟩ := h
    exact ⟨_, e ▸ hr⟩

/-- no connected instance pin belongs to an input port that the implementation ignores -/
def NoIgnored (m : NNet) (l : List (Nat × Option Nat)) : Prop :=
  ∀ p ∈ l, p.2.isSome = true → ((m.net.node p.1).outs.length == 0) = false

/-- `connectIns` when nothing is removed: the renaming stays the identity, the number of lines is kept, only the lines
    of the list are touched, the frame is kept, and every line of the list has the reader given by `inTarget` -/
theorem connectIns_wire {h : NNet} {c : Nat} {I O : List Nat} (m : NNet) (map : Array (Option Nat))
    (hm : MapGe map c h.net.nodes.size) :
    ∀ (l : List (Nat × Option Nat)) (net : Net) (st' : Net × (Option Nat → Option Nat)),
    connectIns m map l (net, id) = some st' → NoIgnored m l → (l.filterMap (·.2)).Nodup →
    (∀ x ∈ l.filterMap (·.2), x < net.lines.size ∧ x ∈ I) → FrameA h c I O net.nodes net.lines →
    st'.2 = id ∧ st'.1.lines.size = net.lines.size ∧ FrameA h c I O st'.1.nodes st'.1.lines ∧
    (∀ x, x < net.lines.size → x ∉ l.filterMap (·.2) → lineA st'.1.lines x = lineA net.lines x) ∧
    (∀ inn ll, (inn, some ll) ∈ l → ∃ r rp, inTarget m map inn = some (r, rp) ∧
      (lineA st'.1.lines ll).reader = r ∧ (lineA st'.1.lines ll).rpin = rp)
  | [], net, st', he, _, _, _, fr => by
    simp only [connectIns] at he
    cases he
    exact ⟨rfl, rfl, fr, fun _ _ _ => rfl, fun _ _ hx => absurd hx (by simp)⟩
  | (inn, none) :: rest, net, st', he, hni, hnd, hlt, fr => by
    simp only [connectIns, id] at he
    have ih := connectIns_wire m map hm rest net st' he (fun p hp => hni p (List.mem_cons_of_mem _ hp))
      (by simpa [List.filterMap_cons] using hnd) (by simpa [List.filterMap_cons] using hlt) fr
    refine ⟨ih.1, ih.2.1, ih.2.2.1, ?_, ?_⟩
    · intro x hx hnx; exact ih.2.2.2.1 x hx (by simpa [List.filterMap_cons] using hnx)
    · intro inn' ll hmem
      rcases List.mem_cons.mp hmem with e | e
      · simp at e
      · exact ih.2.2.2.2 inn' ll e
  | (inn, some ll0) :: rest, net, st', he, hni, hnd, hlt, fr => by
    have hno : ((m.net.node inn).outs.length == 0) = false := hni (inn, some ll0) List.mem_cons_self rfl
    simp only [connectIns, id] at he
    simp only [hno, Bool.false_eq_true, if_false] at he
    have hnd' : ll0 ∉ rest.filterMap (·.2) ∧ (rest.filterMap (·.2)).Nodup := by
      simpa [List.filterMap_cons] using hnd
    have hll0 : ll0 < net.lines.size ∧ ll0 ∈ I := hlt ll0 (by simp [List.filterMap_cons])
    split at he
    · exact absurd he (by simp)
    · rename_i r rp htgt
      obtain ⟨k, hk⟩ := inTarget_map htgt
      have fr1 := frameA_setReader fr ll0 r rp hll0.2 (hm k r hk)
      have hsz : (setReader net ll0 r rp).lines.size = net.lines.size := by simp [setReader]
      have ih := connectIns_wire m map hm rest (setReader net ll0 r rp) st' he
        (fun p hp => hni p (List.mem_cons_of_mem _ hp)) hnd'.2
        (fun x hx => by rw [hsz]; exact hlt x (by simp [List.filterMap_cons, hx])) fr1
      have hrec : lineA (setReader net ll0 r rp).lines ll0 = { lineA net.lines ll0 with reader := r, rpin := rp } := by
        simp only [setReader]
        rw [lineA_modify _ _ _ _ hll0.1]; simp
      refine ⟨ih.1, ih.2.1.trans hsz, ih.2.2.1, ?_, ?_⟩
      · intro x hx hnx
        have hnx' : x ≠ ll0 ∧ x ∉ rest.filterMap (·.2) := by simpa [List.filterMap_cons] using hnx
        rw [ih.2.2.2.1 x (by rw [hsz]; exact hx) hnx'.2]
        simp only [setReader]
        rw [lineA_modify _ _ _ _ hx, if_neg (fun e => hnx'.1 e.symm)]
      · intro inn' ll hmem
        rcases List.mem_cons.mp hmem with e | e
        · simp only [Prod.mk.injEq, Option.some.injEq] at e
          obtain ⟨e1, e2⟩ := e
          subst e1; subst e2
          refine ⟨r, rp, htgt, ?_, ?_⟩
          · rw [ih.2.2.2.1 ll (by rw [hsz]; exact hll0.1) hnd'.1, hrec]
          · rw [ih.2.2.2.1 ll (by rw [hsz]; exact hll0.1) hnd'.1, hrec]
        · exact ih.2.2.2.2 inn' ll e

/-- `connectOuts`: number of lines kept, frame kept, reader sides untouched, lines outside the list untouched, every line
    of the list has the driver given by `outTarget` -/
theorem connectOuts_wire {h : NNet} {c : Nat} {I O : List Nat} (m : NNet) (map : Array (Option Nat))
    (hm : MapGe map c h.net.nodes.size) :
    ∀ (l : List (Nat × Option Nat)) (st st' : Net × List (Option Nat)),
    connectOuts m map l st = some st' → (l.filterMap (·.2)).Nodup →
    (∀ x ∈ l.filterMap (·.2), x < st.1.lines.size ∧ x ∈ O) → FrameA h c I O st.1.nodes st.1.lines →
    st'.1.lines.size = st.1.lines.size ∧ FrameA h c I O st'.1.nodes st'.1.lines ∧
    (∀ x, x < st.1.lines.size → (lineA st'.1.lines x).reader = (lineA st.1.lines x).reader ∧
      (lineA st'.1.lines x).rpin = (lineA st.1.lines x).rpin) ∧
    (∀ x, x < st.1.lines.size → x ∉ l.filterMap (·.2) → lineA st'.1.lines x = lineA st.1.lines x) ∧
    (∀ il ll, (il, some ll) ∈ l → ∃ d dp, outTarget m map il = some (d, dp) ∧
      (lineA st'.1.lines ll).driver = d ∧ (lineA st'.1.lines ll).dpin = dp)
  | [], st, st', he, _, _, fr => by
    simp only [connectOuts] at he
    cases he
    exact ⟨rfl, fr, fun _ _ => ⟨rfl, rfl⟩, fun _ _ _ => rfl, fun _ _ hx => absurd hx (by simp)⟩
  | (il, none) :: rest, (net, dang), st', he, hnd, hlt, fr => by
    simp only [connectOuts] at he
    have ih := connectOuts_wire m map hm rest (net, _) st' he
      (by simpa [List.filterMap_cons] using hnd) (by simpa [List.filterMap_cons] using hlt) fr
    refine ⟨ih.1, ih.2.1, ih.2.2.1, ?_, ?_⟩
    · intro x hx hnx; exact ih.2.2.2.1 x hx (by simpa [List.filterMap_cons] using hnx)
    · intro il' ll hmem
      rcases List.mem_cons.mp hmem with e | e
      · simp at e
      · exact ih.2.2.2.2 il' ll e
  | (il, some ll0) :: rest, (net, dang), st', he, hnd, hlt, fr => by
    simp only [connectOuts] at he
    have hnd' : ll0 ∉ rest.filterMap (·.2) ∧ (rest.filterMap (·.2)).Nodup := by
      simpa [List.filterMap_cons] using hnd
    have hll0 : ll0 < net.lines.size ∧ ll0 ∈ O := hlt ll0 (by simp [List.filterMap_cons])
    split at he
    · exact absurd he (by simp)
    · rename_i d dp htgt
      obtain ⟨k, hk⟩ := outTarget_map htgt
      have fr1 := frameA_setDriver fr ll0 d dp hll0.2 (hm k d hk)
      have hsz : (setDriver net ll0 d dp).lines.size = net.lines.size := by simp [setDriver]
      have ih := connectOuts_wire m map hm rest (setDriver net ll0 d dp, dang) st' he hnd'.2
        (fun x hx => by show x < (setDriver net ll0 d dp).lines.size ∧ _; rw [hsz]; exact hlt x (by simp [List.filterMap_cons, hx])) fr1
      have hrec : ∀ x, x < net.lines.size → lineA (setDriver net ll0 d dp).lines x =
          if ll0 = x then { lineA net.lines x with driver := d, dpin := dp } else lineA net.lines x := by
        intro x hx
        simp only [setDriver]
        rw [lineA_modify _ _ _ _ hx]
      refine ⟨ih.1.trans hsz, ih.2.1, ?_, ?_, ?_⟩
      · intro x hx
        have := ih.2.2.1 x (by show x < (setDriver net ll0 d dp).lines.size; rw [hsz]; exact hx)
        rw [this.1, this.2, hrec x hx]
        split <;> exact ⟨rfl, rfl⟩
      · intro x hx hnx
        have hnx' : x ≠ ll0 ∧ x ∉ rest.filterMap (·.2) := by simpa [List.filterMap_cons] using hnx
        rw [ih.2.2.2.1 x (by show x < (setDriver net ll0 d dp).lines.size; rw [hsz]; exact hx) hnx'.2, hrec x hx,
          if_neg (fun e => hnx'.1 e.symm)]
      · intro il' ll hmem
        rcases List.mem_cons.mp hmem with e | e
        · simp only [Prod.mk.injEq, Option.some.injEq] at e
          obtain ⟨e1, e2⟩ := e
          subst e1; subst e2
          refine ⟨d, dp, htgt, ?_, ?_⟩
          · rw [ih.2.2.2.1 ll (by show ll < (setDriver net ll d dp).lines.size; rw [hsz]; exact hll0.1) hnd'.1, hrec ll hll0.1]
            simp
          · rw [ih.2.2.2.1 ll (by show ll < (setDriver net ll d dp).lines.size; rw [hsz]; exact hll0.1) hnd'.1, hrec ll hll0.1]
            simp
        · exact ih.2.2.2.2 il' ll e

end KV.Transform
