import KyupyVerif.Proofs.MemMapStatic
/-! The allocation invariant of `memMap` (fold form): along the pre-loop and the level loop every signal that owns
memory and is not dead holds a region of the heap's live set, live signals have different locations, and any two
signals that own memory are disjoint or have separated life times (`last x < dfn y`). -/
namespace KV
open KV.Heap KV.MapIn

def MapSt.loc (s : MapSt) (x : Nat) : Int := s.locs.getD x (-1)
def MapSt.cap (s : MapSt) (x : Nat) : Nat := s.caps.getD x 0

/-- the regions of `x` and `y` intersect (`MapIn.overlap` on the current tables) -/
def ovl (s : MapSt) (x y : Nat) : Prop :=
  s.loc x < s.loc y + (s.cap y : Int) ∧ s.loc y < s.loc x + (s.cap x : Int)

theorem getD_setIfInBounds_nat (a : Array Nat) (i x : Nat) (v d : Nat) :
    (a.setIfInBounds i v).getD x d = if i = x ∧ i < a.size then v else a.getD x d := by
  simp only [Array.getD_eq_getD_getElem?, Array.getElem?_setIfInBounds]
  by_cases h : i = x
  · subst h
    by_cases h2 : i < a.size
    · simp [h2]
    · simp [h2]
  · simp [h]

/-! ### `allocAt` -/
theorem allocAt_heap (s : MapSt) (i c : Nat) : (allocAt s i c).heap = (s.heap.alloc c).2 := rfl
theorem allocAt_refc (s : MapSt) (i c : Nat) : (allocAt s i c).refc = s.refc := rfl
theorem allocAt_szl (s : MapSt) (i c : Nat) : (allocAt s i c).locs.size = s.locs.size := by simp [allocAt]
theorem allocAt_szc (s : MapSt) (i c : Nat) : (allocAt s i c).caps.size = s.caps.size := by simp [allocAt]
theorem allocAt_loc_self (s : MapSt) (i c : Nat) (hi : i < s.locs.size) :
    (allocAt s i c).loc i = ((s.heap.alloc c).1 : Int) := by
  simp [allocAt, MapSt.loc, hi]
theorem allocAt_cap_self (s : MapSt) (i c : Nat) (hi : i < s.caps.size) : (allocAt s i c).cap i = c := by
  simp [allocAt, MapSt.cap, hi]
theorem allocAt_loc_ne (s : MapSt) (i c x : Nat) (h : x ≠ i) : (allocAt s i c).loc x = s.loc x := by
  simp [allocAt, MapSt.loc, Ne.symm h]
theorem allocAt_cap_ne (s : MapSt) (i c x : Nat) (h : x ≠ i) : (allocAt s i c).cap x = s.cap x := by
  simp [allocAt, MapSt.cap, Ne.symm h]

/-- what one allocation does to the heap -/
theorem alloc_facts (h : Heap) (c : Nat) (hc : 0 < c) (hi : HInv h) :
    HInv (h.alloc c).2 ∧ h.maxSz ≤ (h.alloc c).2.maxSz ∧ (h.alloc c).1 + c ≤ (h.alloc c).2.maxSz ∧
    ((h.alloc c).1, c) ∈ (h.alloc c).2.used ∧ (∀ r ∈ h.used, r ∈ (h.alloc c).2.used) ∧
    (∀ r ∈ h.used, r.1 + r.2 ≤ (h.alloc c).1 ∨ (h.alloc c).1 + c ≤ r.1) := by
  have hi' := alloc_inv h c hc hi
  obtain ⟨hu, hd, hb⟩ := alloc_spec h c
  refine ⟨hi', ?_, ?_, (hu _).mpr (.inl rfl), fun r hr => (hu r).mpr (.inr hr), hd⟩
  · unfold Heap.alloc
    split
    · exact Nat.le_refl _
    · simp only; omega
  · have := hi'.hwm; omega

/-! ### the heap part of the invariant -/
/-- `A` = signals that own memory, `a` = start of the current level (signals dead at `a` have been released or may be) -/
structure AInv (p : MapIn) (reuse : Bool) (a : Nat) (A : Nat → Prop) (s : MapSt) : Prop where
  szl : s.locs.size = p.ix.len
  szc : s.caps.size = p.ix.len
  hi : HInv s.heap
  bd : ∀ x, A x → 0 ≤ s.loc x ∧ s.loc x + (s.cap x : Int) ≤ (s.heap.maxSz : Int) ∧ p.capsMin ≤ s.cap x
  lv : ∀ x, A x → ¬ Dead p reuse a x → ((s.loc x).toNat, s.cap x) ∈ s.heap.used
  inj : ∀ x y, A x → A y → ¬ Dead p reuse a x → ¬ Dead p reuse a y → s.loc x = s.loc y → x = y
  sep : ∀ x y, A x → A y → x ≠ y → ¬ ovl s x y ∨
    (x ≠ p.ix.tmp ∧ x ≠ p.ix.tmp2 ∧ y ≠ p.ix.tmp ∧ y ≠ p.ix.tmp2 ∧ (p.last x < p.dfn y ∨ p.last y < p.dfn x))

theorem AInv.congr {p : MapIn} {reuse : Bool} {a : Nat} {A A' : Nat → Prop} {s : MapSt}
    (h : AInv p reuse a A s) (hA : ∀ x, A' x → A x) : AInv p reuse a A' s :=
  ⟨h.szl, h.szc, h.hi, fun x hx => h.bd x (hA x hx), fun x hx => h.lv x (hA x hx),
   fun x y hx hy => h.inj x y (hA x hx) (hA y hy), fun x y hx hy => h.sep x y (hA x hx) (hA y hy)⟩

/-- the invariant does not look at the reference counts -/
theorem AInv.of_eq {p : MapIn} {reuse : Bool} {a : Nat} {A : Nat → Prop} {s s' : MapSt}
    (h : AInv p reuse a A s) (h1 : s'.heap = s.heap) (h2 : s'.locs = s.locs) (h3 : s'.caps = s.caps) :
    AInv p reuse a A s' := by
  have hl : ∀ x, s'.loc x = s.loc x := fun x => by simp [MapSt.loc, h2]
  have hc : ∀ x, s'.cap x = s.cap x := fun x => by simp [MapSt.cap, h3]
  refine ⟨by rw [h2]; exact h.szl, by rw [h3]; exact h.szc, by rw [h1]; exact h.hi, ?_, ?_, ?_, ?_⟩
  · intro x hx; rw [hl, hc, h1]; exact h.bd x hx
  · intro x hx hd; rw [hl, hc, h1]; exact h.lv x hx hd
  · intro x y hx hy hdx hdy; rw [hl, hl]; exact h.inj x y hx hy hdx hdy
  · intro x y hx hy hxy
    have : ovl s' x y ↔ ovl s x y := by simp only [ovl, hl, hc]
    rw [this]; exact h.sep x y hx hy hxy

/-- **one allocation** of a signal that owns no memory yet: the invariant extends to it, provided every signal that is
    dead at the current level start ended its life before the new signal is defined -/
theorem AInv.alloc {p : MapIn} {reuse : Bool} {a : Nat} {A : Nat → Prop} {s : MapSt} (h : AInv p reuse a A s)
    (y c : Nat) (hy : ¬ A y) (hlen : y < p.ix.len) (hmin : p.capsMin ≤ c) (hc : 0 < c) (hpos : 0 < p.capsMin)
    (hdead : ∀ x, A x → Dead p reuse a x →
      x ≠ p.ix.tmp ∧ x ≠ p.ix.tmp2 ∧ y ≠ p.ix.tmp ∧ y ≠ p.ix.tmp2 ∧ p.last x < p.dfn y) :
    AInv p reuse a (fun x => A x ∨ x = y) (allocAt s y c) := by
  obtain ⟨f1, f2, f3, f4, f5, f6⟩ := alloc_facts s.heap c hc h.hi
  have hyl : y < s.locs.size := by rw [h.szl]; exact hlen
  have hyc : y < s.caps.size := by rw [h.szc]; exact hlen
  have ly := allocAt_loc_self s y c hyl
  have cy := allocAt_cap_self s y c hyc
  have lo : ∀ x, A x → (allocAt s y c).loc x = s.loc x ∧ (allocAt s y c).cap x = s.cap x := by
    intro x hx
    have hne : x ≠ y := fun e => hy (e ▸ hx)
    exact ⟨allocAt_loc_ne s y c x hne, allocAt_cap_ne s y c x hne⟩
  -- a live old signal is disjoint from the new region
  have disj : ∀ x, A x → ¬ Dead p reuse a x → ¬ ovl (allocAt s y c) x y ∧ s.loc x ≠ ((s.heap.alloc c).1 : Int) := by
    intro x hx hd
    have hr := h.lv x hx hd
    have hb := h.bd x hx
    have hcx : 0 < s.cap x := Nat.lt_of_lt_of_le hpos hb.2.2
    have := f6 _ hr
    simp only at this
    obtain ⟨e1, e2⟩ := lo x hx
    refine ⟨?_, ?_⟩
    · unfold ovl
      rw [e1, e2, ly, cy]
      omega
    · omega
  refine ⟨by rw [allocAt_szl]; exact h.szl, by rw [allocAt_szc]; exact h.szc, by rw [allocAt_heap]; exact f1, ?_, ?_, ?_, ?_⟩
  · rintro x (hx | rfl)
    · obtain ⟨e1, e2⟩ := lo x hx
      have := h.bd x hx
      rw [e1, e2, allocAt_heap]
      refine ⟨this.1, ?_, this.2.2⟩
      have := this.2.1
      omega
    · rw [ly, cy, allocAt_heap]
      exact ⟨by omega, by omega, hmin⟩
  · rintro x (hx | rfl) hd
    · obtain ⟨e1, e2⟩ := lo x hx
      rw [e1, e2, allocAt_heap]
      exact f5 _ (h.lv x hx hd)
    · rw [ly, cy, allocAt_heap]
      simpa using f4
  · rintro x z (hx | rfl) (hz | rfl) hdx hdz he
    · rw [(lo x hx).1, (lo z hz).1] at he
      exact h.inj x z hx hz hdx hdz he
    · rw [(lo x hx).1, ly] at he
      exact absurd he (disj x hx hdx).2
    · rw [(lo z hz).1, ly] at he
      exact absurd he.symm (disj z hz hdz).2
    · rfl
  · rintro x z (hx | rfl) (hz | rfl) hxz
    · have : ovl (allocAt s y c) x z ↔ ovl s x z := by
        simp only [ovl, (lo x hx).1, (lo x hx).2, (lo z hz).1, (lo z hz).2]
      rw [this]; exact h.sep x z hx hz hxz
    · by_cases hd : Dead p reuse a x
      · obtain ⟨g1, g2, g3, g4, g5⟩ := hdead x hx hd
        exact .inr ⟨g1, g2, g3, g4, .inl g5⟩
      · exact .inl (disj x hx hd).1
    · by_cases hd : Dead p reuse a z
      · obtain ⟨g1, g2, g3, g4, g5⟩ := hdead z hz hd
        exact .inr ⟨g3, g4, g1, g2, .inr g5⟩
      · left
        intro ho
        exact (disj z hz hd).1 ⟨ho.2, ho.1⟩
    · exact absurd rfl hxz

/-! ### releases at the end of a level -/
theorem free_maxSz {h h' : Heap} {loc : Nat} (hf : h.free loc = some h') : h'.maxSz = h.maxSz := by
  unfold Heap.free at hf
  cases hfi : freeIn loc 0 h.cs with
  | none => rw [hfi] at hf; simp at hf
  | some cs' => rw [hfi] at hf; simp only [Option.map_some, Option.some.injEq] at hf; subst hf; rfl

/-- releasing a set of locations keeps the heap invariant and the high-water mark, and keeps every live region whose
    start is not in the set (a failing release changes nothing) -/
theorem freeAll_facts (fs : List Int) : ∀ (h : Heap), HInv h →
    HInv (freeAll h fs) ∧ (freeAll h fs).maxSz = h.maxSz ∧
    ∀ r ∈ h.used, (∀ l ∈ fs, l.toNat ≠ r.1) → r ∈ (freeAll h fs).used := by
  induction fs with
  | nil => intro h hi; exact ⟨hi, rfl, fun r hr _ => hr⟩
  | cons l ls ih =>
    intro h hi
    simp only [freeAll, List.foldl_cons]
    cases hf : h.free l.toNat with
    | none =>
      obtain ⟨i1, i2, i3⟩ := ih h hi
      refine ⟨i1, i2, fun r hr hn => i3 r hr (fun l' hl' => hn l' (List.mem_cons_of_mem _ hl'))⟩
    | some h' =>
      obtain ⟨i1, i2, i3⟩ := ih h' (free_inv h h' _ hi hf)
      refine ⟨i1, by rw [← free_maxSz hf]; exact i2, ?_⟩
      intro r hr hn
      obtain ⟨n, _, hu, _⟩ := free_spec h h' _ hi hf
      have : r ∈ h'.used := by
        rcases (hu r).mp hr with e | e
        · exfalso
          have := hn l List.mem_cons_self
          rw [e] at this
          exact this rfl
        · exact e
      exact i3 r this (fun l' hl' => hn l' (List.mem_cons_of_mem _ hl'))

/-- pending releases: every location in the set belongs to a signal that owns memory, was live at the level start `a`
    and has no reader from row `k` on -/
def FsInv (p : MapIn) (reuse : Bool) (a k : Nat) (A : Nat → Prop) (s : MapSt) (fs : List Int) : Prop :=
  reuse = true → ∀ l ∈ fs, ∃ x, A x ∧ ¬ Dead p reuse a x ∧ Dead p reuse k x ∧ l = s.loc x

/-- **end of a level**: the releases keep the invariant, now relative to the next level start `b` -/
theorem AInv.level_end {p : MapIn} {reuse : Bool} {a b : Nat} {A : Nat → Prop} {s : MapSt} {fs : List Int}
    (h : AInv p reuse a A s) (hab : a ≤ b) (hfs : FsInv p reuse a b A s fs) :
    AInv p reuse b A (if reuse then { s with heap := freeAll s.heap fs } else s) := by
  cases reuse with
  | false =>
    simp only [Bool.false_eq_true, if_false]
    exact ⟨h.szl, h.szc, h.hi, h.bd, fun x hx _ => h.lv x hx (not_dead_noreuse p a x),
      fun x y hx hy _ _ => h.inj x y hx hy (not_dead_noreuse p a x) (not_dead_noreuse p a y), h.sep⟩
  | true =>
    simp only [if_true]
    obtain ⟨f1, f2, f3⟩ := freeAll_facts fs s.heap h.hi
    have nd : ∀ x, ¬ Dead p true b x → ¬ Dead p true a x := fun x hx hd => hx (hd.mono hab)
    refine ⟨h.szl, h.szc, f1, ?_, ?_, ?_, h.sep⟩
    · intro x hx
      show 0 ≤ s.loc x ∧ s.loc x + (s.cap x : Int) ≤ ((freeAll s.heap fs).maxSz : Int) ∧ _
      rw [f2]; exact h.bd x hx
    · intro x hx hd
      show ((s.loc x).toNat, s.cap x) ∈ (freeAll s.heap fs).used
      apply f3 _ (h.lv x hx (nd x hd))
      intro l hl
      obtain ⟨x', hx', hda, hdb, rfl⟩ := hfs rfl l hl
      intro he
      have hne : x' ≠ x := fun e => hd (e ▸ hdb)
      apply hne
      apply h.inj x' x hx' hx hda (nd x hd)
      have b1 := (h.bd x hx).1
      have b2 := (h.bd x' hx').1
      simp only at he
      omega
    · intro x y hx hy hdx hdy
      exact h.inj x y hx hy (nd x hdx) (nd y hdy)

/-! ### reference counts -/
/-- the count of `x` is at least the number of operand occurrences still to come, plus one if `x` is pinned -/
def RcInv (p : MapIn) (k : Nat) (s : MapSt) : Prop :=
  s.refc.size = p.ix.len ∧ ∀ x, x < p.ix.len →
    (occ p.stems x (p.ops.drop k) : Int) + (if pinnedM p x then 1 else 0) ≤ s.refc.getD x 0

theorem foldl_decRef (xs : List Nat) (s : MapSt) : xs.foldl decRef s = { s with refc := decs s.refc xs } := by
  induction xs generalizing s with
  | nil => rfl
  | cons x r ih => simp only [List.foldl_cons, ih, decRef, decs]

theorem mem_setAdd {l : List Int} {v x : Int} (h : x ∈ setAdd l v) : x ∈ l ∨ x = v := by
  unfold setAdd at h
  split at h
  · exact .inl h
  · simpa using h

theorem mem_collect (s : MapSt) (xs : List Nat) (fs : List Int) (l : Int) (h : l ∈ xs.foldl (collectStep s) fs) :
    l ∈ fs ∨ ∃ x ∈ xs, s.refc.getD x 0 ≤ 0 ∧ l = s.loc x := by
  induction xs generalizing fs with
  | nil => exact .inl h
  | cons x r ih =>
    simp only [List.foldl_cons] at h
    rcases ih _ h with h1 | ⟨y, hy, h2, h3⟩
    · unfold collectStep at h1
      split at h1
      · rename_i hc
        rcases mem_setAdd h1 with h1 | h1
        · exact .inl h1
        · exact .inr ⟨x, List.mem_cons_self, hc, h1⟩
      · exact .inl h1
    · exact .inr ⟨y, List.mem_cons_of_mem _ hy, h2, h3⟩


theorem allocAt_succ_of_tmp {p : MapIn} {k : Nat} {o : OpRow} (hk : p.ops[k]? = some o) (ht : o.out = p.ix.tmp)
    {x : Nat} (h : AllocAt p (k + 1) x) : AllocAt p k x := by
  rcases h with h | h | h | h | ⟨j, o', hj, ho', hx, hne⟩
  · exact .inl h
  · exact .inr (.inl h)
  · exact .inr (.inr (.inl h))
  · exact .inr (.inr (.inr (.inl h)))
  · rcases Nat.lt_or_ge j k with hlt | hge
    · exact .inr (.inr (.inr (.inr ⟨j, o', hlt, ho', hx, hne⟩)))
    · have : j = k := by omega
      subst this
      rw [hk] at ho'
      cases ho'
      exact absurd (hx ▸ ht) hne

theorem allocAt_succ_of_out {p : MapIn} {k : Nat} {o : OpRow} (hk : p.ops[k]? = some o)
    {x : Nat} (h : AllocAt p (k + 1) x) : AllocAt p k x ∨ x = o.out := by
  rcases h with h | h | h | h | ⟨j, o', hj, ho', hx, hne⟩
  · exact .inl (.inl h)
  · exact .inl (.inr (.inl h))
  · exact .inl (.inr (.inr (.inl h)))
  · exact .inl (.inr (.inr (.inr (.inl h))))
  · rcases Nat.lt_or_ge j k with hlt | hge
    · exact .inl (.inr (.inr (.inr (.inr ⟨j, o', hlt, ho', hx, hne⟩))))
    · have : j = k := by omega
      subst this
      rw [hk] at ho'
      cases ho'
      exact .inr hx.symm

/-- **one row** of the level loop -/
theorem opStep_inv {p : MapIn} (hp : ProgOK p) (hpos : 0 < p.capsMin) (reuse : Bool) (capsIn : Nat → Nat)
    {a k : Nat} (ha : a ∈ p.starts) (hak : a ≤ k) (hlev : p.levelOf k = p.levelOf a)
    {o : OpRow} (hk : p.ops[k]? = some o) (s : MapSt) (fs : List Int)
    (hA : AInv p reuse a (AllocAt p k) s) (hR : RcInv p k s) (hF : FsInv p reuse a k (AllocAt p k) s fs) :
    AInv p reuse a (AllocAt p (k + 1)) (mapOpStep p.ix p.stems capsIn p.capsMin (s, fs) o).1 ∧
    RcInv p (k + 1) (mapOpStep p.ix p.stems capsIn p.capsMin (s, fs) o).1 ∧
    FsInv p reuse a (k + 1) (AllocAt p (k + 1)) (mapOpStep p.ix p.stems capsIn p.capsMin (s, fs) o).1
      (mapOpStep p.ix p.stems capsIn p.capsMin (s, fs) o).2 := by
  -- after the four decrements
  let s1 : MapSt := { s with refc := decs s.refc (opSrcs p.stems o) }
  have hs1 : (opSrcs p.stems o).foldl decRef s = s1 := foldl_decRef _ _
  have hA1 : AInv p reuse a (AllocAt p k) s1 := hA.of_eq rfl rfl rfl
  have hR1 : RcInv p (k + 1) s1 := by
    refine ⟨by show (decs s.refc _).size = _; rw [decs_size]; exact hR.1, ?_⟩
    intro x hx
    show _ ≤ (decs s.refc _).getD x 0
    rw [decs_getD _ _ _ (by rw [hR.1]; exact hx)]
    have := hR.2 x hx
    rw [occ_drop _ _ _ _ _ hk] at this
    push_cast at this
    omega
  have hl1 : ∀ x, s1.loc x = s.loc x := fun _ => rfl
  -- the pending releases
  have hF1 : FsInv p reuse a (k + 1) (AllocAt p k) s1 ((opSrcs p.stems o).foldl (collectStep s1) fs) := by
    intro hre l hl
    rcases mem_collect _ _ _ _ hl with h | ⟨x, hx, hc, rfl⟩
    · obtain ⟨x, h1, h2, h3, h4⟩ := hF hre l h
      exact ⟨x, h1, h2, h3.mono (Nat.le_succ k), h4⟩
    · obtain ⟨g1, g2, _, _⟩ := hp.operand_alloc hk hx
      have hrc := hR1.2 x g2
      have hocc : occ p.stems x (p.ops.drop (k + 1)) = 0 := by
        have : (0 : Int) ≤ (if pinnedM p x = true then 1 else 0) := by split <;> omega
        omega
      have hpin : pinnedM p x = false := by
        cases hpx : pinnedM p x with
        | false => rfl
        | true => rw [hpx] at hrc; simp only [if_true] at hrc; omega
      have hu : usedAt p k x := ⟨o, hk, hx⟩
      refine ⟨x, g1, ?_, ⟨hre, hpin, ⟨k, hu⟩, occ_zero_no_use p x (k + 1) hocc⟩, rfl⟩
      intro hd
      have := hd.2.2.2 k hu
      omega
  unfold mapOpStep
  simp only [hs1]
  by_cases ht : o.out = p.ix.tmp
  · have hb : (o.out != p.ix.tmp) = false := by simp [ht]
    simp only [hb, Bool.false_eq_true, if_false]
    refine ⟨hA1.congr (fun x hx => allocAt_succ_of_tmp hk ht hx), hR1, ?_⟩
    intro hre l hl
    obtain ⟨x, h1, h2, h3, h4⟩ := hF1 hre l hl
    exact ⟨x, h1.mono (Nat.le_succ k), h2, h3, h4⟩
  · have hb : (o.out != p.ix.tmp) = true := by simp [ht]
    simp only [hb, if_true]
    obtain ⟨hfresh, hz⟩ := hp.out_fresh hk ht
    obtain ⟨i1, i2, i3, i4, i5, i6⟩ := ix_vals p
    have hA2 := hA1.alloc o.out (max p.capsMin (capsIn o.out)) hfresh (by omega) (Nat.le_max_left _ _)
      (Nat.lt_of_lt_of_le hpos (Nat.le_max_left _ _)) hpos (by
        intro x hx hd
        have hpx := hd.2.1
        refine ⟨?_, ?_, ht, by omega, ?_⟩
        · intro e; rw [e, pinnedM_tmp] at hpx; cases hpx
        · intro e; rw [e, pinnedM_tmp2] at hpx; cases hpx
        · rw [hp.dfn_out hk ht, hlev]
          exact hp.dead_last ha hd)
    refine ⟨hA2.congr (fun x hx => allocAt_succ_of_out hk hx), ?_, ?_⟩
    · exact ⟨by rw [allocAt_refc]; exact hR1.1, fun x hx => by rw [allocAt_refc]; exact hR1.2 x hx⟩
    · intro hre l hl
      obtain ⟨x, h1, h2, h3, h4⟩ := hF1 hre l hl
      refine ⟨x, h1.mono (Nat.le_succ k), h2, h3, ?_⟩
      rw [h4, allocAt_loc_ne]
      intro e
      exact hfresh (e ▸ h1)


/-! ### folds over the rows of a level and over the levels -/
theorem levelOps_nil (ops : List OpRow) (a b : Nat) (h : b ≤ a) : levelOps ops (a, b) = [] := by
  unfold levelOps
  have : b - a = 0 := by omega
  simp [this]

theorem levelOps_cons (ops : List OpRow) (a b : Nat) (h : a < b) :
    levelOps ops (a, b) = ops.toArray.getD a default :: levelOps ops (a + 1, b) := by
  unfold levelOps
  have : b - a = (b - (a + 1)) + 1 := by omega
  simp only [this, List.range_succ_eq_map, List.map_cons, List.map_map, Nat.add_zero]
  congr 1
  apply List.map_congr_left
  intro k _
  simp only [Function.comp]
  congr 1
  omega

theorem toArray_getD (ops : List OpRow) (a : Nat) (o : OpRow) (h : ops[a]? = some o) : ops.toArray.getD a default = o := by
  simp [Array.getD_eq_getD_getElem?, h]

theorem levelOps_fold_inv {σ} (ops : List OpRow) (f : σ → OpRow → σ) (Q : Nat → σ → Prop) (b : Nat) (hb : b ≤ ops.length)
    (step : ∀ k o s, k < b → ops[k]? = some o → Q k s → Q (k + 1) (f s o)) :
    ∀ (d a : Nat) (s : σ), a + d = b → Q a s → Q b ((levelOps ops (a, b)).foldl f s) := by
  intro d
  induction d with
  | zero =>
    intro a s hab h0
    rw [levelOps_nil ops a b (by omega)]
    have : a = b := by omega
    subst this
    exact h0
  | succ d ih =>
    intro a s hab h0
    rw [levelOps_cons ops a b (by omega)]
    have hlt : a < ops.length := by omega
    have ho : ops[a]? = some ops[a] := List.getElem?_eq_getElem hlt
    rw [toArray_getD ops a _ ho, List.foldl_cons]
    exact ih (a + 1) _ (by omega) (step a _ s (by omega) ho h0)

theorem levelPairs_cons2 (a b : Nat) (rest : List Nat) (n : Nat) :
    levelPairs (a :: b :: rest) n = (a, b) :: levelPairs (b :: rest) n := by
  simp [levelPairs]

theorem levelPairs_single (a n : Nat) : levelPairs [a] n = [(a, n)] := by simp [levelPairs]

theorem levelPairs_fold_aux {σ} (starts : List Nat) (n : Nat) (f : σ → Nat × Nat → σ) (P : Nat → σ → Prop)
    (step : ∀ a b s, a ∈ starts → a ≤ b → b ≤ n → (∀ t ∈ starts, t ≤ a ∨ b ≤ t) → P a s → P b (f s (a, b))) :
    ∀ (rest : List Nat) (a : Nat) (s : σ), (a :: rest).Pairwise (· < ·) → (∀ t ∈ a :: rest, t ≤ n ∧ t ∈ starts) →
      (∀ t ∈ starts, t ≤ a ∨ t ∈ rest) → P a s → P n ((levelPairs (a :: rest) n).foldl f s) := by
  intro rest
  induction rest with
  | nil =>
    intro a s _ hall hcov h0
    rw [levelPairs_single, List.foldl_cons, List.foldl_nil]
    have ha := hall a List.mem_cons_self
    apply step a n s ha.2 ha.1 (Nat.le_refl _) _ h0
    intro t ht
    rcases hcov t ht with h | h
    · exact .inl h
    · cases h
  | cons b rest ih =>
    intro a s hpw hall hcov h0
    rw [levelPairs_cons2, List.foldl_cons]
    have ha := hall a List.mem_cons_self
    have hb := hall b (List.mem_cons_of_mem _ List.mem_cons_self)
    obtain ⟨hpa, hpw'⟩ := List.pairwise_cons.mp hpw
    have hab : a < b := hpa b List.mem_cons_self
    obtain ⟨hpb, _⟩ := List.pairwise_cons.mp hpw'
    apply ih b _ hpw' (fun t ht => hall t (List.mem_cons_of_mem _ ht))
    · intro t ht
      rcases hcov t ht with h | h
      · left; omega
      · rcases List.mem_cons.mp h with rfl | h
        · left; omega
        · exact .inr h
    · apply step a b s ha.2 (by omega) hb.1 _ h0
      intro t ht
      rcases hcov t ht with h | h
      · exact .inl h
      · rcases List.mem_cons.mp h with rfl | h
        · right; omega
        · right; have := hpb t h; omega

theorem levelPairs_fold_inv {σ} (starts : List Nat) (n : Nat) (hs : StartsOK starts n) (f : σ → Nat × Nat → σ)
    (P : Nat → σ → Prop)
    (step : ∀ a b s, a ∈ starts → a ≤ b → b ≤ n → (∀ t ∈ starts, t ≤ a ∨ b ≤ t) → P a s → P b (f s (a, b)))
    (s : σ) (h0 : P 0 s) : P n ((levelPairs starts n).foldl f s) := by
  obtain ⟨hh, hpw, hle⟩ := hs
  cases hst : starts with
  | nil => rw [hst] at hh; cases hh
  | cons a rest =>
    rw [hst] at hh
    simp only [List.head?_cons, Option.some.injEq] at hh
    subst hh
    have := levelPairs_fold_aux starts n f P step rest 0 s (hst ▸ hpw)
      (fun t ht => ⟨hle t (hst ▸ ht), hst ▸ ht⟩)
      (fun t ht => by
        rw [hst] at ht
        rcases List.mem_cons.mp ht with rfl | h
        · exact .inl (Nat.le_refl _)
        · exact .inr h) h0
    exact this


/-! ### the level loop -/
/-- invariant at a level boundary -/
def MInv (p : MapIn) (reuse : Bool) (k : Nat) (s : MapSt) : Prop :=
  AInv p reuse k (AllocAt p k) s ∧ RcInv p k s

/-- **one level**: all its rows, then the releases -/
theorem levelStep_inv {p : MapIn} (hp : ProgOK p) (hpos : 0 < p.capsMin) (reuse : Bool) (capsIn : Nat → Nat)
    {a b : Nat} (ha : a ∈ p.starts) (hab : a ≤ b) (hb : b ≤ p.ops.length) (hgap : ∀ t ∈ p.starts, t ≤ a ∨ b ≤ t)
    (s : MapSt) (h : MInv p reuse a s) :
    MInv p reuse b (mapLevelStep p.ix p.stems capsIn p.capsMin reuse p.ops s (a, b)) := by
  have key := levelOps_fold_inv p.ops (mapOpStep p.ix p.stems capsIn p.capsMin)
    (fun k sf => a ≤ k ∧ AInv p reuse a (AllocAt p k) sf.1 ∧ RcInv p k sf.1 ∧ FsInv p reuse a k (AllocAt p k) sf.1 sf.2)
    b hb (by
      intro k o sf hkb hk ⟨hak, hA, hR, hF⟩
      obtain ⟨s', fs⟩ := sf
      have := opStep_inv hp hpos reuse capsIn ha hak (levelOf_const p hgap hak hkb) hk s' fs hA hR hF
      exact ⟨by omega, this⟩)
    (b - a) a (s, []) (by omega) ⟨Nat.le_refl _, h.1, h.2, fun _ l hl => by cases hl⟩
  obtain ⟨_, kA, kR, kF⟩ := key
  unfold mapLevelStep
  simp only
  refine ⟨kA.level_end hab kF, ?_⟩
  cases reuse with
  | false => exact kR
  | true => exact kR

/-- **all levels**: from the state after the pre-loop to the state after the last level -/
theorem levels_inv {p : MapIn} (hp : ProgOK p) (hpos : 0 < p.capsMin) (reuse : Bool) (capsIn : Nat → Nat)
    (s : MapSt) (h0 : MInv p reuse 0 s) :
    MInv p reuse p.ops.length
      ((levelPairs p.starts p.ops.length).foldl (mapLevelStep p.ix p.stems capsIn p.capsMin reuse p.ops) s) :=
  levelPairs_fold_inv p.starts p.ops.length hp.starts _ (fun k s => MInv p reuse k s)
    (fun _ _ s ha hab hb hgap h => levelStep_inv hp hpos reuse capsIn ha hab hb hgap s h) s h0

end KV
