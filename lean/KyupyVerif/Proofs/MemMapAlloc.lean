import KyupyVerif.Proofs.MemMapStatic
/-! The allocation invariant of `memMap` (fold form): along the pre-loop and the level loop every signal that owns
memory and is not dead holds a region of the heap's live set, live signals have different locations, and any two
signals that own memory are disjoint or have separated life times (`last x < dfn y`). -/
namespace KV
open KV.Heap KV.MapIn

def MapSt.loc (s : MapSt) (x : Nat) : Int := s.locs.getD x (-1)
def MapSt.cap (s : MapSt) (x : Nat) : Nat := s.caps.getD x 0

/-- the regions of `x` and `y` intersect (`MapIn.overlap` on the current tables) -/
def ovl (s : MapSt) (x y : Nat) : Prop :=
  s.loc x < s.loc y + (s.cap y : Int) ∧ s.loc y < s.loc x + (s.cap x : Int)

theorem getD_setIfInBounds_nat (a : Array Nat) (i x : Nat) (v d : Nat) :
    (a.setIfInBounds i v).getD x d = if i = x ∧ i < a.size then v else a.getD x d := by
  simp only [Array.getD_eq_getD_getElem?, Array.getElem?_setIfInBounds]
  by_cases h : i = x
  · subst h
    by_cases h2 : i < a.size
    · simp [h2]
    · simp [h2]
  · simp [h]

/-! ### `allocAt` -/
theorem allocAt_heap (s : MapSt) (i c : Nat) : (allocAt s i c).heap = (s.heap.alloc c).2 := rfl
theorem allocAt_refc (s : MapSt) (i c : Nat) : (allocAt s i c).refc = s.refc := rfl
theorem allocAt_szl (s : MapSt) (i c : Nat) : (allocAt s i c).locs.size = s.locs.size := by simp [allocAt]
theorem allocAt_szc (s : MapSt) (i c : Nat) : (allocAt s i c).caps.size = s.caps.size := by simp [allocAt]
theorem allocAt_loc_self (s : MapSt) (i c : Nat) (hi : i < s.locs.size) :
    (allocAt s i c).loc i = ((s.heap.alloc c).1 : Int) := by
  simp [allocAt, MapSt.loc, hi]
theorem allocAt_cap_self (s : MapSt) (i c : Nat) (hi : i < s.caps.size) : (allocAt s i c).cap i = c := by
  simp [allocAt, MapSt.cap, hi]
theorem allocAt_loc_ne (s : MapSt) (i c x : Nat) (h : x ≠ i) : (allocAt s i c).loc x = s.loc x := by
  simp [allocAt, MapSt.loc, Ne.symm h]
theorem allocAt_cap_ne (s : MapSt) (i c x : Nat) (h : x ≠ i) : (allocAt s i c).cap x = s.cap x := by
  simp [allocAt, MapSt.cap, Ne.symm h]

/-- what one allocation does to the heap -/
theorem alloc_facts (h : Heap) (c : Nat) (hc : 0 < c) (hi : HInv h) :
    HInv (h.alloc c).2 ∧ h.maxSz ≤ (h.alloc c).2.maxSz ∧ (h.alloc c).1 + c ≤ (h.alloc c).2.maxSz ∧
    ((h.alloc c).1, c) ∈ (h.alloc c).2.used ∧ (∀ r ∈ h.used, r ∈ (h.alloc c).2.used) ∧
    (∀ r ∈ h.used, r.1 + r.2 ≤ (h.alloc c).1 ∨ (h.alloc c).1 + c ≤ r.1) := by
  have hi' := alloc_inv h c hc hi
  obtain ⟨hu, hd, hb⟩ := alloc_spec h c
  refine ⟨hi', ?_, ?_, (hu _).mpr (.inl rfl), fun r hr => (hu r).mpr (.inr hr), hd⟩
  · unfold Heap.alloc
    split
    · exact Nat.le_refl _
    · simp only; omega
  · have := hi'.hwm; omega

/-! ### the heap part of the invariant -/
/-- `A` = signals that own memory, `a` = start of the current level (signals dead at `a` have been released or may be) -/
structure AInv (p : MapIn) (reuse : Bool) (a : Nat) (A : Nat → Prop) (s : MapSt) : Prop where
  szl : s.locs.size = p.ix.len
  szc : s.caps.size = p.ix.len
  hi : HInv s.heap
  bd : ∀ x, A x → 0 ≤ s.loc x ∧ s.loc x + (s.cap x : Int) ≤ (s.heap.maxSz : Int) ∧ p.capsMin ≤ s.cap x
  lv : ∀ x, A x → ¬ Dead p reuse a x → ((s.loc x).toNat, s.cap x) ∈ s.heap.used
  inj : ∀ x y, A x → A y → ¬ Dead p reuse a x → ¬ Dead p reuse a y → s.loc x = s.loc y → x = y
  sep : ∀ x y, A x → A y → x ≠ y → ¬ ovl s x y ∨
    (x ≠ p.ix.tmp ∧ x ≠ p.ix.tmp2 ∧ y ≠ p.ix.tmp ∧ y ≠ p.ix.tmp2 ∧ (p.last x < p.dfn y ∨ p.last y < p.dfn x))

theorem AInv.congr {p : MapIn} {reuse : Bool} {a : Nat} {A A' : Nat → Prop} {s : MapSt}
    (h : AInv p reuse a A s) (hA : ∀ x, A' x → A x) : AInv p reuse a A' s :=
  ⟨h.szl, h.szc, h.hi, fun x hx => h.bd x (hA x hx), fun x hx => h.lv x (hA x hx),
   fun x y hx hy => h.inj x y (hA x hx) (hA y hy), fun x y hx hy => h.sep x y (hA x hx) (hA y hy)⟩

/-- the invariant does not look at the reference counts -/
theorem AInv.of_eq {p : MapIn} {reuse : Bool} {a : Nat} {A : Nat → Prop} {s s' : MapSt}
    (h : AInv p reuse a A s) (h1 : s'.heap = s.heap) (h2 : s'.locs = s.locs) (h3 : s'.caps = s.caps) :
    AInv p reuse a A s' := by
  have hl : ∀ x, s'.loc x = s.loc x := fun x => by simp [MapSt.loc, h2]
  have hc : ∀ x, s'.cap x = s.cap x := fun x => by simp [MapSt.cap, h3]
  refine ⟨by rw [h2]; exact h.szl, by rw [h3]; exact h.szc, by rw [h1]; exact h.hi, ?_, ?_, ?_, ?_⟩
  · intro x hx; rw [hl, hc, h1]; exact h.bd x hx
  · intro x hx hd; rw [hl, hc, h1]; exact h.lv x hx hd
  · intro x y hx hy hdx hdy; rw [hl, hl]; exact h.inj x y hx hy hdx hdy
  · intro x y hx hy hxy
    have : ovl s' x y ↔ ovl s x y := by simp only [ovl, hl, hc]
    rw [this]; exact h.sep x y hx hy hxy

/-- **one allocation** of a signal that owns no memory yet: the invariant extends to it, provided every signal that is
    dead at the current level start ended its life before the new signal is defined -/
theorem AInv.alloc {p : MapIn} {reuse : Bool} {a : Nat} {A : Nat → Prop} {s : MapSt} (h : AInv p reuse a A s)
    (y c : Nat) (hy : ¬ A y) (hlen : y < p.ix.len) (hmin : p.capsMin ≤ c) (hc : 0 < c) (hpos : 0 < p.capsMin)
    (hdead : ∀ x, A x → Dead p reuse a x →
      x ≠ p.ix.tmp ∧ x ≠ p.ix.tmp2 ∧ y ≠ p.ix.tmp ∧ y ≠ p.ix.tmp2 ∧ p.last x < p.dfn y) :
    AInv p reuse a (fun x => A x ∨ x = y) (allocAt s y c) := by
  obtain ⟨f1, f2, f3, f4, f5, f6⟩ := alloc_facts s.heap c hc h.hi
  have hyl : y < s.locs.size := by rw [h.szl]; exact hlen
  have hyc : y < s.caps.size := by rw [h.szc]; exact hlen
  have ly := allocAt_loc_self s y c hyl
  have cy := allocAt_cap_self s y c hyc
  have lo : ∀ x, A x → (allocAt s y c).loc x = s.loc x ∧ (allocAt s y c).cap x = s.cap x := by
    intro x hx
    have hne : x ≠ y := fun e => hy (e ▸ hx)
    exact ⟨allocAt_loc_ne s y c x hne, allocAt_cap_ne s y c x hne⟩
  -- a live old signal is disjoint from the new region
  have disj : ∀ x, A x → ¬ Dead p reuse a x → ¬ ovl (allocAt s y c) x y ∧ s.loc x ≠ ((s.heap.alloc c).1 : Int) := by
    intro x hx hd
    have hr := h.lv x hx hd
    have hb := h.bd x hx
    have hcx : 0 < s.cap x := Nat.lt_of_lt_of_le hpos hb.2.2
    have := f6 _ hr
    simp only at this
    obtain ⟨e1, e2⟩ := lo x hx
    refine ⟨?_, ?_⟩
    · unfold ovl
      rw [e1, e2, ly, cy]
      omega
    · omega
  refine ⟨by rw [allocAt_szl]; exact h.szl, by rw [allocAt_szc]; exact h.szc, by rw [allocAt_heap]; exact f1, ?_, ?_, ?_, ?_⟩
  · rintro x (hx | rfl)
    · obtain ⟨e1, e2⟩ := lo x hx
      have := h.bd x hx
      rw [e1, e2, allocAt_heap]
      refine ⟨this.1, ?_, this.2.2⟩
      have := this.2.1
      omega
    · rw [ly, cy, allocAt_heap]
      exact ⟨by omega, by omega, hmin⟩
  · rintro x (hx | rfl) hd
    · obtain ⟨e1, e2⟩ := lo x hx
      rw [e1, e2, allocAt_heap]
      exact f5 _ (h.lv x hx hd)
    · rw [ly, cy, allocAt_heap]
      simpa using f4
  · rintro x z (hx | rfl) (hz | rfl) hdx hdz he
    · rw [(lo x hx).1, (lo z hz).1] at he
      exact h.inj x z hx hz hdx hdz he
    · rw [(lo x hx).1, ly] at he
      exact absurd he (disj x hx hdx).2
    · rw [(lo z hz).1, ly] at he
      exact absurd he.symm (disj z hz hdz).2
    · rfl
  · rintro x z (hx | rfl) (hz | rfl) hxz
    · have : ovl (allocAt s y c) x z ↔ ovl s x z := by
        simp only [ovl, (lo x hx).1, (lo x hx).2, (lo z hz).1, (lo z hz).2]
      rw [this]; exact h.sep x z hx hz hxz
    · by_cases hd : Dead p reuse a x
      · obtain ⟨g1, g2, g3, g4, g5⟩ := hdead x hx hd
        exact .inr ⟨g1, g2, g3, g4, .inl g5⟩
      · exact .inl (disj x hx hd).1
    · by_cases hd : Dead p reuse a z
      · obtain ⟨g1, g2, g3, g4, g5⟩ := hdead z hz hd
        exact .inr ⟨g3, g4, g1, g2, .inr g5⟩
      · left
        intro ho
        exact (disj z hz hd).1 ⟨ho.2, ho.1⟩
    · exact absurd rfl hxz

/-! ### releases at the end of a level -/
theorem free_maxSz {h h' : Heap} {loc : Nat} (hf : h.free loc = some h') : h'.maxSz = h.maxSz := by
  unfold Heap.free at hf
  cases hfi : freeIn loc 0 h.cs with
  | none => rw [hfi] at hf; simp at hf
  | some cs' => rw [hfi] at hf; simp only [Option.map_some, Option.some.injEq] at hf; subst hf; rfl

/-- releasing a set of locations keeps the heap invariant and the high-water mark, and keeps every live region whose
    start is not in the set (a failing release changes nothing) -/
theorem freeAll_facts (fs : List Int) : ∀ (h : Heap), HInv h →
    HInv (freeAll h fs) ∧ (freeAll h fs).maxSz = h.maxSz ∧
    ∀ r ∈ h.used, (∀ l ∈ fs, l.toNat ≠ r.1) → r ∈ (freeAll h fs).used := by
  induction fs with
  | nil => intro h hi; exact ⟨hi, rfl, fun r hr _ => hr⟩
  | cons l ls ih =>
    intro h hi
    simp only [freeAll, List.foldl_cons]
    cases hf : h.free l.toNat with
    | none =>
      obtain ⟨i1, i2, i3⟩ := ih h hi
      refine ⟨i1, i2, fun r hr hn => i3 r hr (fun l' hl' => hn l' (List.mem_cons_of_mem _ hl'))⟩
    | some h' =>
      obtain ⟨i1, i2, i3⟩ := ih h' (free_inv h h' _ hi hf)
      refine ⟨i1, by rw [← free_maxSz hf]; exact i2, ?_⟩
      intro r hr hn
      obtain ⟨n, _, hu, _⟩ := free_spec h h' _ hi hf
      have : r ∈ h'.used := by
        rcases (hu r).mp hr with e | e
        · exfalso
          have := hn l List.mem_cons_self
          rw [e] at this
          exact this rfl
        · exact e
      exact i3 r this (fun l' hl' => hn l' (List.mem_cons_of_mem _ hl'))

/-- pending releases: every location in the set belongs to a signal that owns memory, was live at the level start `a`
    and has no reader from row `k` on -/
def FsInv (p : MapIn) (reuse : Bool) (a k : Nat) (A : Nat → Prop) (s : MapSt) (fs : List Int) : Prop :=
  reuse = true → ∀ l ∈ fs, ∃ x, A x ∧ ¬ Dead p reuse a x ∧ Dead p reuse k x ∧ l = s.loc x

/-- **end of a level**: the releases keep the invariant, now relative to the next level start `b` -/
theorem AInv.level_end {p : MapIn} {reuse : Bool} {a b : Nat} {A : Nat → Prop} {s : MapSt} {fs : List Int}
    (h : AInv p reuse a A s) (hab : a ≤ b) (hfs : FsInv p reuse a b A s fs) :
    AInv p reuse b A (if reuse then { s with heap := freeAll s.heap fs } else s) := by
  cases reuse with
  | false =>
    simp only [Bool.false_eq_true, if_false]
    exact ⟨h.szl, h.szc, h.hi, h.bd, fun x hx _ => h.lv x hx (not_dead_noreuse p a x),
      fun x y hx hy _ _ => h.inj x y hx hy (not_dead_noreuse p a x) (not_dead_noreuse p a y), h.sep⟩
  | true =>
    simp only [if_true]
    obtain ⟨f1, f2, f3⟩ := freeAll_facts fs s.heap h.hi
    have nd : ∀ x, ¬ Dead p true b x → ¬ Dead p true a x := fun x hx hd => hx (hd.mono hab)
    refine ⟨h.szl, h.szc, f1, ?_, ?_, ?_, h.sep⟩
    · intro x hx
      show 0 ≤ s.loc x ∧ s.loc x + (s.cap x : Int) ≤ ((freeAll s.heap fs).maxSz : Int) ∧ _
      rw [f2]; exact h.bd x hx
    · intro x hx hd
      show ((s.loc x).toNat, s.cap x) ∈ (freeAll s.heap fs).used
      apply f3 _ (h.lv x hx (nd x hd))
      intro l hl
      obtain ⟨x', hx', hda, hdb, rfl⟩ := hfs rfl l hl
      intro he
      have hne : x' ≠ x := fun e => hd (e ▸ hdb)
      apply hne
      apply h.inj x' x hx' hx hda (nd x hd)
      have b1 := (h.bd x hx).1
      have b2 := (h.bd x' hx').1
      simp only at he
      omega
    · intro x y hx hy hdx hdy
      exact h.inj x y hx hy (nd x hdx) (nd y hdy)

end KV
