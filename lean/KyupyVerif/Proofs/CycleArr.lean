import KyupyVerif.Model.Cycle
/-! The array form `cycleKA` (what the compiled driver evaluates in the correspondence runs) computes the same `s` as the
function form `cycleK` about which the theorems of C01 speak. -/
namespace KV.Cycle
open KV KV.Sig

/-- the function an array denotes -/
def envOf {α} (d : α) (a : Array α) : Nat → α := fun i => a.getD i d

def toSt {α} (d : α) (st : StA α) : St α := ⟨envOf d st.env, st.s⟩

theorem sToCA_size {α} (T : Tabs) (d : α) (s0 : List α) (env : Array α) : (sToCA T d s0 env).size = env.size := by
  unfold sToCA
  generalize T.pippi = l
  induction l generalizing env with
  | nil => rfl
  | cons px r ih => simp only [List.foldl_cons]; rw [ih]; simp

theorem envOf_set {α} (d : α) (env : Array α) (x : Nat) (v : α) (hx : x < env.size) :
    envOf d (env.setIfInBounds x v) = upd (envOf d env) x v := by
  funext j
  simp only [envOf, upd]
  by_cases hj : j = x
  · subst hj; simp [Array.getD_eq_getD_getElem?, hx]
  · simp only [hj, if_false, Array.getD_eq_getD_getElem?]
    rw [Array.getElem?_setIfInBounds_ne (Ne.symm hj)]

theorem sToCA_eq {α} (T : Tabs) (d : α) (s0 : List α) (env : Array α) (hp : ∀ px ∈ T.pippi, px.2 < env.size) :
    envOf d (sToCA T d s0 env) = sToC T d s0 (envOf d env) := by
  unfold sToCA sToC
  generalize T.pippi = l at hp
  induction l generalizing env with
  | nil => rfl
  | cons px r ih =>
    simp only [List.foldl_cons]
    rw [ih _ (fun q hq => by simp; exact hp q (List.mem_cons_of_mem _ hq)),
      envOf_set d env px.2 _ (hp px List.mem_cons_self)]

theorem execArrG_size {α} (d : α) (sem : Op → List α → α) (ops : List Op) (env : Array α) :
    (execArrG d sem ops env).size = env.size := by
  unfold execArrG
  induction ops generalizing env with
  | nil => rfl
  | cons o r ih => simp only [List.foldl_cons]; rw [ih, execArrStep_size]

theorem cycle1A_eq {α} (sem : Op → List α → α) (ops : List Op) (T : Tabs) (merge : α → α → α) (d : α) (st : StA α)
    (hb : ∀ op ∈ ops, op.out < st.env.size) (hp : ∀ px ∈ T.pippi, px.2 < st.env.size) :
    toSt d (cycle1A sem ops T merge d st) = cycle1 sem ops T merge d (toSt d st) ∧
    (cycle1A sem ops T merge d st).env.size = st.env.size := by
  have he : envOf d (execArrG d sem ops (sToCA T d st.s.s0 st.env)) = execG sem ops (sToC T d st.s.s0 (envOf d st.env)) := by
    funext l
    show (execArrG d sem ops _).getD l d = _
    rw [execArrG_eq d sem ops _ (fun op ho => by rw [sToCA_size]; exact hb op ho) l]
    have := sToCA_eq T d st.s.s0 st.env hp
    unfold envOf at this
    rw [this]; rfl
  constructor
  · have hc : ∀ (arr : Array α) (s1 : List α), cToSA T d arr s1 = cToS T (envOf d arr) s1 := fun _ _ => rfl
    unfold toSt cycle1A cycle1
    simp only [hc, he]
  · show (execArrG d sem ops _).size = _
    rw [execArrG_size, sToCA_size]

/-- **the driver's array form = the model**: `cycleKA` and `cycleK` leave the same `s`, provided the array covers every index
    that is written (op outputs and (P)PI slots; the driver allocates `c_locs_len` entries) -/
theorem cycleKA_eq {α} (sem : Op → List α → α) (ops : List Op) (T : Tabs) (merge : α → α → α) (d : α) (n : Nat)
    (hb : ∀ op ∈ ops, op.out < n) (hp : ∀ px ∈ T.pippi, px.2 < n) :
    ∀ (k : Nat) (st : StA α), st.env.size = n →
      toSt d (cycleKA sem ops T merge d k st) = cycleK sem ops T merge d k (toSt d st) := by
  intro k
  induction k with
  | zero => intro st _; rfl
  | succ k ih =>
    intro st hn
    obtain ⟨h1, h2⟩ := cycle1A_eq sem ops T merge d st (fun op ho => hn ▸ hb op ho) (fun px hpx => hn ▸ hp px hpx)
    show toSt d (cycleKA sem ops T merge d k (cycle1A sem ops T merge d st)) = _
    rw [ih _ (h2.trans hn), h1]
    rfl

end KV.Cycle
