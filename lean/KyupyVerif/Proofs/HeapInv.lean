import KyupyVerif.Proofs.HeapUsed
/-! Heap invariant for every alloc/free history. -/
namespace KV.Heap

theorem allocIn_pos (size : Nat) (hs : 0 < size) : ∀ (s : Nat) (l : List Chunk) (loc : Nat) (l' : List Chunk),
    Pos l → allocIn size s l = some (loc, l') → Pos l' := by
  intro s l
  induction l generalizing s with
  | nil => intro loc l' _ h; simp [allocIn] at h
  | cons c rest ih =>
    intro loc l' hp h
    have hc := hp c (List.mem_cons_self)
    have hr : Pos rest := fun x hx => hp x (List.mem_cons_of_mem _ hx)
    unfold allocIn at h
    split at h
    · injection h with h; injection h with _ h2; subst h2
      intro x hx; rcases List.mem_cons.mp hx with rfl | hx
      · exact hc
      · exact hr x hx
    · split at h
      · rename_i hcond
        simp only [Bool.and_eq_true, decide_eq_true_eq] at hcond
        injection h with h; injection h with _ h2; subst h2
        intro x hx
        simp only [List.mem_cons] at hx
        rcases hx with rfl | rfl | hx
        · exact hs
        · show 0 < c.size - size; omega
        · exact hr x hx
      · split at h
        · cases h
        · rename_i loc' rest' hrec
          injection h with h; injection h with _ h2; subst h2
          have := ih (s + c.size) loc' rest' hr hrec
          intro x hx; rcases List.mem_cons.mp hx with rfl | hx
          · exact hc
          · exact this x hx

theorem freeIn_pos (loc : Nat) : ∀ (s : Nat) (l l' : List Chunk), Pos l → freeIn loc s l = some l' → Pos l' := by
  intro s l
  induction l generalizing s with
  | nil => intro l' _ h; simp [freeIn] at h
  | cons c rest ih =>
    intro l' hp h
    have hc := hp c (List.mem_cons_self)
    have hr : Pos rest := fun x hx => hp x (List.mem_cons_of_mem _ hx)
    unfold freeIn at h
    split at h
    · split at h
      · cases h
      · cases rest with
        | nil => simp only [Option.some.injEq] at h; subst h; intro x hx; cases hx
        | cons n rest' =>
          have hn := hr n (List.mem_cons_self)
          have hr' : Pos rest' := fun x hx => hr x (List.mem_cons_of_mem _ hx)
          simp only at h
          split at h <;> (simp only [Option.some.injEq] at h; subst h; intro x hx; simp only [List.mem_cons] at hx)
          · rcases hx with rfl | hx
            · show 0 < c.size + n.size; omega
            · exact hr' x hx
          · rcases hx with rfl | rfl | hx
            · exact hc
            · exact hn
            · exact hr' x hx
    · split at h
      · split at h
        · cases h
        · simp only [Option.some.injEq] at h; subst h
          split <;> intro x hx
          · cases hx
          · simp at hx; subst hx; exact hc
        · rename_i d rest' hrec
          have hrec' := ih (s + c.size) (d :: rest') hr hrec
          have hd := hrec' d (List.mem_cons_self)
          split at h <;> (simp only [Option.some.injEq] at h; subst h; intro x hx; simp only [List.mem_cons] at hx)
          · rcases hx with rfl | hx
            · show 0 < c.size + d.size; omega
            · exact hrec' x (List.mem_cons_of_mem _ hx)
          · rcases hx with rfl | rfl | hx
            · exact hc
            · exact hd
            · exact hrec' x (List.mem_cons_of_mem _ hx)
      · cases h

theorem noAdj_append_used (l : List Chunk) (h : NoAdj l) (c : Chunk) (hc : c.free = false) : NoAdj (l ++ [c]) := by
  induction l with
  | nil => exact hc
  | cons x r ih =>
    cases r with
    | nil =>
      show ¬ (x.free = true ∧ c.free = true) ∧ NoAdj [c]
      exact ⟨by simp [hc], hc⟩
    | cons y r' =>
      obtain ⟨h1, h2⟩ := (noAdj_cons_cons.mp h)
      exact noAdj_cons_cons.mpr ⟨h1, ih h2⟩

theorem total_append (l : List Chunk) (c : Chunk) : total (l ++ [c]) = total l + c.size := by
  simp [total]

theorem usedFrom_append_used (s : Nat) (l : List Chunk) (c : Chunk) (hc : c.free = false) :
    usedFrom s (l ++ [c]) = usedFrom s l ++ [(s + total l, c.size)] := by
  induction l generalizing s with
  | nil => simp [usedFrom, hc, total]
  | cons x r ih =>
    have e : s + x.size + total r = s + (x.size + total r) := by omega
    simp only [List.cons_append, usedFrom, ih, total_cons, List.append_assoc, e]

/-- heap invariant: positive sizes, no two adjacent free chunks (and the last chunk is in use), the reported
    maximum is at least the current size -/
structure HInv (h : Heap) : Prop where
  pos : Pos h.cs
  noadj : NoAdj h.cs
  hwm : total h.cs ≤ h.maxSz

def Heap.used (h : Heap) : List (Nat × Nat) := usedFrom 0 h.cs

theorem empty_inv : HInv { cs := [], maxSz := 0 } :=
  ⟨(by intro c hc; cases hc), trivial, (by simp [total])⟩

theorem alloc_inv (h : Heap) (n : Nat) (hn : 0 < n) (hi : HInv h) : HInv (h.alloc n).2 := by
  unfold Heap.alloc
  split
  · rename_i loc cs' ha
    obtain ⟨ht, _, _, _⟩ := allocIn_spec n 0 h.cs loc cs' ha
    exact ⟨allocIn_pos n hn 0 _ _ _ hi.pos ha, allocIn_noAdj n 0 _ _ _ hi.noadj ha, (by simp only; rw [ht]; exact hi.hwm)⟩
  · refine ⟨?_, noAdj_append_used _ hi.noadj _ rfl, ?_⟩
    · intro c hc; simp only [List.mem_append, List.mem_singleton] at hc
      rcases hc with hc | rfl
      · exact hi.pos c hc
      · exact hn
    · simp only [total_append]; omega

theorem free_inv (h h' : Heap) (loc : Nat) (hi : HInv h) (hf : h.free loc = some h') : HInv h' := by
  unfold Heap.free at hf
  cases hfi : freeIn loc 0 h.cs with
  | none => rw [hfi] at hf; simp at hf
  | some cs' =>
    rw [hfi] at hf; simp only [Option.map_some, Option.some.injEq] at hf; subst hf
    obtain ⟨ht, _⟩ := freeIn_spec loc 0 h.cs cs' hi.pos hfi
    exact ⟨freeIn_pos loc 0 _ _ hi.pos hfi, freeIn_noAdj loc 0 _ _ hi.noadj hfi, (by simp only; have := hi.hwm; omega)⟩

/-- allocation: the returned region is new, disjoint from every live region, inside the managed range, and
    becomes live; all other live regions are untouched; first-fit appends at the end only if nothing fits -/
theorem alloc_spec (h : Heap) (n : Nat) :
    (∀ r, r ∈ (h.alloc n).2.used ↔ r = ((h.alloc n).1, n) ∨ r ∈ h.used) ∧
    (∀ r ∈ h.used, r.1 + r.2 ≤ (h.alloc n).1 ∨ (h.alloc n).1 + n ≤ r.1) ∧
    (h.alloc n).1 + n ≤ total (h.alloc n).2.cs := by
  unfold Heap.alloc Heap.used
  split
  · rename_i loc cs' ha
    obtain ⟨ht, hu, _, hhi⟩ := allocIn_spec n 0 h.cs loc cs' ha
    refine ⟨hu, allocIn_fresh n 0 h.cs loc cs' ha, (by simp only; omega)⟩
  · refine ⟨?_, ?_, (by simp [total_append])⟩
    · intro r; simp only [usedFrom_append_used 0 h.cs ⟨n, false⟩ rfl, List.mem_append, List.mem_singleton, Nat.zero_add]
      exact Or.comm
    · intro r hr
      have := usedFrom_bounds 0 h.cs r hr
      left; simp only; omega

theorem free_spec (h h' : Heap) (loc : Nat) (hi : HInv h) (hf : h.free loc = some h') :
    ∃ n, (loc, n) ∈ h.used ∧ (∀ r, r ∈ h.used ↔ r = (loc, n) ∨ r ∈ h'.used) ∧ total h'.cs ≤ total h.cs := by
  unfold Heap.free at hf
  cases hfi : freeIn loc 0 h.cs with
  | none => rw [hfi] at hf; simp at hf
  | some cs' =>
    rw [hfi] at hf; simp only [Option.map_some, Option.some.injEq] at hf; subst hf
    obtain ⟨ht, n, hm, hu⟩ := freeIn_spec loc 0 h.cs cs' hi.pos hfi
    exact ⟨n, hm, hu, ht⟩

/-- histories -/
inductive HOp | alloc (n : Nat) | free (loc : Nat)

def runOp (h : Heap) : HOp → Heap
  | .alloc n => (h.alloc n).2
  | .free loc => (h.free loc).getD h       -- totalisation: a release that fails in the model leaves the state unchanged.
      -- NOT what Python does for a location that is not the start of a live chunk (`Heap.free(0)` twice raises nothing and
      -- corrupts the tables): such histories are OUTSIDE the domain (`histOkB`, Proofs/MemMapFrees.lean); `SimOps` never
      -- produces one (`simops_frees_live`)

def OpOk : HOp → Prop
  | .alloc n => 0 < n
  | .free _ => True

theorem runOp_inv (h : Heap) (op : HOp) (hok : OpOk op) (hi : HInv h) : HInv (runOp h op) := by
  cases op with
  | alloc n => exact alloc_inv h n hok hi
  | free loc =>
    simp only [runOp]
    cases hf : h.free loc with
    | none => simpa using hi
    | some h' => simpa using free_inv h h' loc hi hf

theorem hist_inv (ops : List HOp) (hok : ∀ op ∈ ops, OpOk op) : HInv (ops.foldl runOp { cs := [], maxSz := 0 }) := by
  suffices ∀ h, HInv h → HInv (ops.foldl runOp h) from this _ empty_inv
  induction ops with
  | nil => intro h hi; exact hi
  | cons op ops ih =>
    intro h hi
    exact ih (fun o ho => hok o (List.mem_cons_of_mem _ ho)) _ (runOp_inv h op (hok op List.mem_cons_self) hi)

end KV.Heap
